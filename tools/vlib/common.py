"""Shared machinery of the check driver: paths, float/bit helpers, building the Coq
development and the Rust harness, running both on the same cases, diffing."""
import fcntl
import hashlib
import json
import math
import os
import random
import re
import struct
import subprocess
import sys
import time
from concurrent.futures import ThreadPoolExecutor

VERIF = os.path.dirname(os.path.dirname(os.path.dirname(os.path.abspath(__file__))))
REPO = os.environ.get("VERIF_REPO", "/repo")
COQ = os.path.join(VERIF, "coq")
GEN = os.path.join(COQ, "gen")
HARNESS = os.path.join(VERIF, "harness")
BUILD = os.path.join(VERIF, "_build")          # untracked scratch: case files, logs
EVIDENCE = os.path.join(VERIF, "evidence")
REPLAYS = os.path.join(VERIF, "replays")
CORPUS = os.path.join(VERIF, "corpus")
NCPU = max(1, min(16, os.cpu_count() or 1))

sys.path.insert(0, os.path.join(VERIF, "tools"))
import rs2coq  # noqa: E402

# ------------------------------------------------------------------ floats / bits

NAN_BITS = 0x7FF8000000000000
INF_BITS = 0x7FF0000000000000
SIGN = 1 << 63


def bits(x):
    return struct.unpack("<Q", struct.pack("<d", float(x)))[0]


def fl(b):
    return struct.unpack("<d", struct.pack("<Q", b & 0xFFFFFFFFFFFFFFFF))[0]


def is_nan_bits(b):
    return (b & INF_BITS) == INF_BITS and (b & 0x000FFFFFFFFFFFFF) != 0


def canon(b):
    """canonical form of a result number for diffing: every NaN is the one NaN"""
    if isinstance(b, int) and b >= 0 and is_nan_bits(b):
        return NAN_BITS
    return b


def next_up(b):
    x = fl(b)
    if x != x or x == float("inf"):
        return b
    if x == 0.0:
        return 1
    return b + 1 if x > 0 else b - 1


def next_down(b):
    x = fl(b)
    if x != x or x == float("-inf"):
        return b
    if x == 0.0:
        return SIGN | 1
    return b - 1 if x > 0 else b + 1


def fma_exact(a, b, c):
    """correctly rounded a*b+c on Python floats (exact rational arithmetic; IEEE signed-zero rules)"""
    from fractions import Fraction
    if any(v != v or v in (float("inf"), float("-inf")) for v in (a, b, c)):
        try:
            return a * b + c
        except OverflowError:       # cannot happen for float ops, kept for safety
            return float("nan")
    ex = Fraction(a) * Fraction(b) + Fraction(c)
    if ex == 0:
        pneg = (math.copysign(1.0, a) < 0) != (math.copysign(1.0, b) < 0)
        cneg = math.copysign(1.0, c) < 0
        if c == 0:
            return -0.0 if (pneg and cneg) else 0.0
        return 0.0
    try:
        return ex.numerator / ex.denominator
    except OverflowError:
        return float("inf") if ex > 0 else float("-inf")


def ordered_key(b):
    """total order key on non-NaN bit patterns consistent with < on floats (-0 < +0 adjacent)"""
    return b if b < SIGN else -(b - SIGN) - 1


class Rng(random.Random):
    """all random choices of a run derive from one seed"""

    def f64_loguniform(self, emin=-60, emax=60, signed=True):
        e = self.uniform(emin, emax)
        m = self.uniform(1.0, 2.0)
        v = m * 2.0 ** e
        if signed and self.random() < 0.5:
            v = -v
        return v

    def small_int(self, lo=-8, hi=8):
        return float(self.randint(lo, hi))

    def special(self):
        return self.choice([0.0, -0.0, 1.0, -1.0, float("inf"), float("-inf"), 5e-324, -5e-324,
                            2.2250738585072014e-308, 1.7976931348623157e308, -1.7976931348623157e308,
                            2.220446049250313e-16, 0.5, 2.0, 1e-300, 1e300])


# ------------------------------------------------------------------ locking / subprocess

class Lock:
    def __init__(self, name="build"):
        os.makedirs(BUILD, exist_ok=True)
        self.path = os.path.join(BUILD, name + ".lock")

    def __enter__(self):
        self.fh = open(self.path, "w")
        fcntl.flock(self.fh, fcntl.LOCK_EX)
        return self

    def __exit__(self, *a):
        fcntl.flock(self.fh, fcntl.LOCK_UN)
        self.fh.close()


def _raise_stack():
    """children (coqc on long list literals, coqchk) get the largest stack the hard limit allows: the default 8 MB soft limit
    makes coqc die with `Stack overflow` on a case file holding a literal of several thousand numbers"""
    try:
        import resource
        soft, hard = resource.getrlimit(resource.RLIMIT_STACK)
        want = hard if hard != resource.RLIM_INFINITY else resource.RLIM_INFINITY
        if soft != want:
            resource.setrlimit(resource.RLIMIT_STACK, (want, hard))
    except Exception:
        pass


_raise_stack()          # once, in the driver process: every child inherits it


def sh(cmd, cwd=None, timeout=None, env=None, input_=None):
    e = dict(os.environ)
    e.update({"CARGO_NET_OFFLINE": "true"})
    if env:
        e.update(env)
    try:
        p = subprocess.run(cmd, cwd=cwd, env=e, input=input_, stdout=subprocess.PIPE, stderr=subprocess.PIPE,
                           timeout=timeout, text=True)
        return p.returncode, p.stdout, p.stderr
    except subprocess.TimeoutExpired as ex:
        return 124, (ex.stdout or b"").decode() if isinstance(ex.stdout, bytes) else (ex.stdout or ""), "TIMEOUT after %ss" % timeout


# ------------------------------------------------------------------ translator + coq build

_translation = None


def translate():
    """run rs2coq on the current tree (once per process); write gen/Kernels.v if its text changed"""
    global _translation
    if _translation is not None:
        return _translation
    os.makedirs(GEN, exist_ok=True)
    src = os.path.join(REPO, "src")
    info = dict(ok=True, failures={}, inventory_diff=[], error=None, hashes={})
    try:
        crate, kernels, approx, failures = rs2coq.translate(src)
        text = rs2coq.emit_kernels_v(crate, kernels, approx, failures)
        path = os.path.join(GEN, "Kernels.v")
        old = open(path).read() if os.path.exists(path) else None
        if old != text:
            with open(path, "w") as fh:
                fh.write(text)
        info["failures"] = failures
        info["hashes"] = crate.hashes
        info["kernels"] = kernels
        info["approx"] = approx
        inv = dict(kernels=dict((n, [kernels[n]["arity"], len(kernels[n]["outs"])]) for n in sorted(kernels)),
                   approx=dict((n, approx[n]["arity"]) for n in sorted(approx)))
        exp_path = os.path.join(VERIF, "tools", "expected_inventory.json")
        if os.path.exists(exp_path):
            exp = json.load(open(exp_path))
            for sect in ("kernels", "approx"):
                for n in sorted(set(exp[sect]) | set(inv[sect])):
                    if exp[sect].get(n) != inv[sect].get(n):
                        info["inventory_diff"].append("%s %s: expected %s, found %s" % (sect, n, exp[sect].get(n), inv[sect].get(n)))
        info["inventory"] = inv
        if failures or info["inventory_diff"]:
            info["ok"] = False
    except rs2coq.TranslateError as ex:
        info["ok"] = False
        info["error"] = "translator: %s" % ex
        info["kernels"] = {}
        info["approx"] = {}
    except Exception as ex:  # parser crash on unexpected source: fail closed
        info["ok"] = False
        info["error"] = "translator crashed: %r" % ex
        info["kernels"] = {}
        info["approx"] = {}
    _translation = info
    return info


def coq_makefile():
    files = []
    for d in ("lib", "gen", "model", "proofs", "props"):
        dd = os.path.join(COQ, d)
        if os.path.isdir(dd):
            for f in sorted(os.listdir(dd)):
                if f.endswith(".v") and not f.startswith("cases_") and not f.startswith("assum_") and not f.startswith("scratch"):
                    files.append("%s/%s" % (d, f))
    base = open(os.path.join(COQ, "_CoqProject")).read()
    full = base + "\n" + "\n".join(files) + "\n"
    p = os.path.join(COQ, "_CoqProject.full")
    old = open(p).read() if os.path.exists(p) else None
    if old != full or not os.path.exists(os.path.join(COQ, "Makefile")):
        with open(p, "w") as fh:
            fh.write(full)
        rc, out, err = sh(["coq_makefile", "-f", "_CoqProject.full", "-o", "Makefile"], cwd=COQ, timeout=120)
        if rc != 0:
            raise RuntimeError("coq_makefile failed: " + err)


def coq_make(targets, timeout=1500):
    """make the given .vo targets (full .vo build). returns (ok, log)"""
    coq_makefile()
    cmd = ["make", "-j%d" % NCPU, "-k"] + targets
    rc, out, err = sh(cmd, cwd=COQ, timeout=timeout)
    return rc == 0, (out + "\n" + err)


def coqc_file(path, timeout=900):
    args = ["coqc", "-q", "-noglob", "-Q", "lib", "PP", "-Q", "gen", "PP.Gen", "-Q", "model", "PP.Model",
            "-Q", "proofs", "PP.Proofs", "-Q", "props", "PP.Props", "-w", "none", path]
    return sh(args, cwd=COQ, timeout=timeout)


# ------------------------------------------------------------------ harness

_harness_built = {}


def build_harness(profile="debug"):
    if profile in _harness_built:
        return _harness_built[profile]
    lock = os.path.join(HARNESS, "Cargo.lock")
    if not os.path.exists(lock) and os.path.exists(os.path.join(REPO, "Cargo.lock")):
        import shutil
        shutil.copy(os.path.join(REPO, "Cargo.lock"), lock)
    cmd = ["cargo", "build", "--offline", "--quiet"] + (["--release"] if profile == "release" else [])
    rc, out, err = sh(cmd, cwd=HARNESS, timeout=1200)
    res = (rc == 0, err[-6000:])
    _harness_built[profile] = res
    return res


def _limit_mem():
    import resource
    try:
        resource.setrlimit(resource.RLIMIT_AS, (6 << 30, 6 << 30))
    except Exception:
        pass


def run_harness(cases, profile="debug", timeout=900):
    """cases: list of dicts. returns list of result dicts (same order).
    A case on which the implementation hangs (watchdog) or dies (memory limit / abort) yields {"r": "HANG"};
    the harness is restarted on the remaining cases."""
    exe = os.path.join(HARNESS, "target", profile, "pp_harness")
    results = []
    pos = 0
    restarts = 0
    t_end = time.time() + timeout
    while pos < len(cases):
        chunk = cases[pos:]
        inp = "\n".join(json.dumps(c, separators=(",", ":")) for c in chunk) + "\n"
        try:
            p = subprocess.run([exe], input=inp, stdout=subprocess.PIPE, stderr=subprocess.PIPE, text=True,
                               timeout=max(5, t_end - time.time()), preexec_fn=_limit_mem)
        except subprocess.TimeoutExpired:
            raise RuntimeError("harness run exceeded %ss" % timeout)
        lines = [l for l in p.stdout.split("\n") if l.strip()]
        got = []
        for l in lines:
            try:
                got.append(json.loads(l))
            except ValueError:
                break
        if p.returncode == 0 and len(got) == len(chunk):
            results += got
            break
        # abnormal end: everything fully reported is kept; the case being run is a HANG / crash
        if got and got[-1].get("r") == "HANG":
            done = got[:-1]
        else:
            done = got
        results += done
        results.append({"r": "HANG", "msg": "no result within the per-case limit, or the process died (rc=%s): %s" % (p.returncode, p.stderr[-300:])})
        pos += len(done) + 1
        restarts += 1
        if restarts > 40:
            raise RuntimeError("harness keeps dying: %s" % p.stderr[-1000:])
    if len(results) != len(cases):
        raise RuntimeError("harness produced %d results for %d cases" % (len(results), len(cases)))
    return results


# ------------------------------------------------------------------ model execution inside Coq

CASE_HEADER = """From Coq Require Import ZArith List String.
Require Import PP.FloatModel PP.Expr PP.FloatOps PP.Model.PwModel PP.Model.Run PP.Model.Extra PP.Model.Wire PP.Model.Hyp PP.Gen.Kernels PP.Proofs.QuarticFloat PP.Proofs.QuarticClosedFloat PP.Proofs.QuarticKnotFloat PP.Proofs.QuarticIntegralFloat PP.Props.C09F PP.Props.C11F PP.Props.C11L PP.Proofs.SplineFloat.
Import ListNotations.
Open Scope Z_scope.
Set Printing Width 100000000.
Set Printing Depth 100000000.
"""


def zlist(xs):
    return "[" + "; ".join(str(int(x)) for x in xs) + "]"


def zlistlist(xss):
    return "[" + "; ".join(zlist(x) for x in xss) + "]"


def ztable(pairs):
    return "[" + "; ".join("(%d, %d)" % (a, b) for a, b in pairs) + "]"


def kname(name):
    return rs2coq.coq_name(name)


RES_RE = re.compile(r"=\s*\((\d+),\s*\[(.*?)\]\)\s*:", re.S)


def run_coq_cases(terms, tag, shards=None, timeout=1200):
    """terms: list of Coq terms of type list Z. Returns list of lists of ints (None where missing), log"""
    os.makedirs(GEN, exist_ok=True)
    n = len(terms)
    if shards is None:
        shards = max(1, min(NCPU, n // 6 + 1))
    files = []
    for s in range(shards):
        idxs = list(range(s, n, shards))
        if not idxs:
            continue
        path = os.path.join(GEN, "cases_%s_%d.v" % (tag, s))
        with open(path, "w") as fh:
            fh.write(CASE_HEADER)
            for i in idxs:
                fh.write("Eval vm_compute in (%d, %s).\n" % (i, terms[i]))
        files.append(path)
    results = [None] * n
    logs = []

    def work(path):
        return coqc_file(os.path.relpath(path, COQ), timeout=timeout)

    with ThreadPoolExecutor(max_workers=NCPU) as ex:
        outs = list(ex.map(work, files))
    for path, (rc, out, err) in zip(files, outs):
        if rc != 0:
            logs.append("%s: rc=%s %s" % (os.path.basename(path), rc, err[-3000:]))
        for m in RES_RE.finditer(out):
            i = int(m.group(1))
            body = m.group(2).strip()
            vals = [int(t.replace("%Z", "").strip()) for t in body.split(";")] if body else []
            results[i] = vals
        for ext in (".v", ".vo", ".vok", ".vos", ".glob"):
            q = path[:-2] + ext
            if os.path.exists(q):
                os.remove(q)
        aux = os.path.join(os.path.dirname(path), "." + os.path.basename(path)[:-2] + ".aux")
        if os.path.exists(aux):
            os.remove(aux)
    missing = [i for i in range(n) if results[i] is None]
    if logs and missing and shards != len(missing) and not tag.endswith("_solo"):
        # a file that failed as a whole (resource limit on one term, say) took its neighbours with it: run the cases that have
        # no result yet one per file, so that only the term that really cannot be evaluated stays without a result
        sub, sublog = run_coq_cases([terms[i] for i in missing], tag + "_solo", shards=len(missing), timeout=timeout)
        for i, r in zip(missing, sub):
            results[i] = r
        logs = [sublog] if sublog else []
    return results, "\n".join(logs)


# ------------------------------------------------------------------ Print Assumptions

AXIOM_ALLOW = {
    # stdlib Reals
    "ClassicalDedekindReals.sig_forall_dec", "ClassicalDedekindReals.sig_not_dec",
    "FunctionalExtensionality.functional_extensionality_dep",
    # classical logic (Flocq / Coquelicot)
    "Classical_Prop.classic", "classic",
    "sig_forall_dec", "sig_not_dec", "functional_extensionality_dep",
}
AXIOM_ALLOW_PREFIX = ("Uint63.", "PrimInt63.", "Uint63Axioms.", "CarryType.", "Sint63.")


def print_assumptions(modname, names, tag):
    """returns dict name -> list of axiom names (or ['<error>...'])"""
    path = os.path.join(GEN, "assum_%s.v" % tag)
    combined = len(names) > 12
    with open(path, "w") as fh:
        fh.write("Require Import PP.Props.%s.\n" % modname)
        if combined:
            # one traversal for the whole family: the union of the assumptions of all theorems
            # (a conjunction-free way to mention them all: a record of their proofs)
            for nm in names:
                fh.write("Check %s.\n" % nm)
            fh.write("Definition all_theorems_ := (%s).\n" % ", ".join("@" + nm for nm in names))
            fh.write('Goal True. idtac "@@BEGIN ALL". Abort.\nPrint Assumptions all_theorems_.\nGoal True. idtac "@@END". Abort.\n')
        else:
            for nm in names:
                fh.write('Goal True. idtac "@@BEGIN %s". Abort.\nPrint Assumptions %s.\nGoal True. idtac "@@END". Abort.\n' % (nm, nm))
    rc, out, err = coqc_file(os.path.relpath(path, COQ), timeout=600)
    res = {}
    if rc != 0:
        for nm in names:
            res[nm] = ["<error> " + err[-1500:]]
    else:
        for m in re.finditer(r"@@BEGIN (\S+)\n(.*?)@@END", out, re.S):
            body = m.group(2)
            if "Closed under the global context" in body:
                res[m.group(1)] = []
            else:
                ax = []
                for ln in body.split("\n"):
                    mm = re.match(r"^([A-Za-z_][\w.']*)\s*(:.*)?$", ln)
                    if mm and not ln.startswith("Axioms") and mm.group(1) not in ("Axioms",):
                        ax.append(mm.group(1))
                res[m.group(1)] = ax
        if combined and "ALL" in res:
            allax = res.pop("ALL")
            for nm in names:
                res[nm] = list(allax)
        for nm in names:
            res.setdefault(nm, ["<error> no output"])
    for ext in (".v", ".vo", ".vok", ".vos", ".glob"):
        q = path[:-2] + ext
        if os.path.exists(q):
            os.remove(q)
    return res


def axioms_ok(axs):
    bad = []
    for a in axs:
        if a in AXIOM_ALLOW or a.startswith(AXIOM_ALLOW_PREFIX):
            continue
        bad.append(a)
    return bad


COQCHK_ALLOW = {
    "Coq.Logic.FunctionalExtensionality.functional_extensionality_dep",
    "Coq.Reals.ClassicalDedekindReals.sig_not_dec", "Coq.Reals.ClassicalDedekindReals.sig_forall_dec",
    "Coq.Logic.Classical_Prop.classic", "Coq.Logic.ProofIrrelevance.proof_irrelevance", "Coq.Logic.JMeq.JMeq_eq",
    "Coq.Logic.Eqdep.Eq_rect_eq.eq_rect_eq", "Coq.Logic.ClassicalEpsilon.constructive_indefinite_description",
    "Coq.Logic.PropExtensionality.propositional_extensionality",
}


def coqchk(modname, timeout=600):
    """independent re-check of the compiled property file and everything it depends on; returns (ok, axioms, log)"""
    args = ["coqchk", "-o", "-silent", "-Q", "lib", "PP", "-Q", "gen", "PP.Gen", "-Q", "model", "PP.Model",
            "-Q", "proofs", "PP.Proofs", "-Q", "props", "PP.Props", "PP.Props.%s" % modname]
    rc, out, err = sh(args, cwd=COQ, timeout=timeout)
    txt = out + err
    if rc == 124:
        return None, [], "independent checker did not finish within %ss" % timeout
    axioms = []
    m = re.search(r"\* Axioms:(.*?)\n\s*\n\s*\*", txt, re.S)
    if m:
        axioms = [l.strip() for l in m.group(1).split("\n") if l.strip() and l.strip() != "<none>"]
    clean = all(("%s: <none>" % k) in txt.replace("\n", " ") for k in
                ("relying on type-in-type", "relying on unsafe (co)fixpoints", "whose positivity is assumed"))
    bad = [a for a in axioms if a not in COQCHK_ALLOW and not a.startswith(("Coq.Numbers.Cyclic.Int63", "Coq.Floats", "Coq.Array"))]
    return (rc == 0 and clean and not bad), axioms, txt[-1500:]


FORBIDDEN_RE = re.compile(r"\b(Admitted|admit|Axiom|Axioms|Parameter|Parameters|Conjecture|Admit Obligations|bypass_check|Unset Guard|Unset Positivity|Unset Universe)\b")


def scan_forbidden():
    """no Admitted/Axiom/... anywhere in the hand-written development (comments are stripped first)"""
    hits = []
    for d in ("lib", "model", "proofs", "props"):
        dd = os.path.join(COQ, d)
        for f in sorted(os.listdir(dd)):
            if not f.endswith(".v"):
                continue
            txt = open(os.path.join(dd, f)).read()
            # strip comments (nested)
            out = []
            depth = 0
            i = 0
            while i < len(txt):
                if txt.startswith("(*", i):
                    depth += 1
                    i += 2
                elif txt.startswith("*)", i) and depth > 0:
                    depth -= 1
                    i += 2
                else:
                    if depth == 0:
                        out.append(txt[i])
                    i += 1
            for m in FORBIDDEN_RE.finditer("".join(out)):
                hits.append("%s/%s: %s" % (d, f, m.group(0)))
    return hits


def sha256_file(path):
    return hashlib.sha256(open(path, "rb").read()).hexdigest()
