"""Shrinking of a failing case: fewer segments / queries / knots, simpler numbers - as long as the property's
oracle still reports a violation on the IMPLEMENTATION. Candidates are batched through the harness."""
import copy
import json

from . import common as C

LIST_KEYS = ("segs", "xs", "knots", "f", "g", "cs", "ts", "a", "b", "bytes")
SIMPLE = [0.0, 1.0, -1.0, 2.0, 0.5]


def size(case):
    return len(json.dumps(case, sort_keys=True))


def simpler_numbers(b):
    x = C.fl(b)
    out = []
    if x != x or abs(x) == float("inf"):
        return out
    for s in SIMPLE:
        out.append(C.bits(s))
    if abs(x) < 2 ** 52 and x != int(x):
        out.append(C.bits(float(int(x))))
        out.append(C.bits(float(round(x, 3))))
    return [o for o in out if o != b]


def candidates(case, limit=240):
    out = []
    for key in LIST_KEYS:
        v = case.get(key)
        if not isinstance(v, list) or not v:
            continue
        n = len(v)
        # drop halves, then single elements
        if n >= 2:
            for lo, hi in ((0, n // 2), (n // 2, n)):
                c = copy.deepcopy(case)
                c[key] = v[:lo] + v[hi:]
                out.append(c)
        if n <= 24:
            for i in range(n):
                c = copy.deepcopy(case)
                c[key] = v[:i] + v[i + 1:]
                out.append(c)
    if case.get("op") == "k":
        args = case["args"]
        for i, b in enumerate(args):
            for nb in simpler_numbers(b)[:3]:
                c = copy.deepcopy(case)
                c["args"][i] = nb
                out.append(c)
    else:
        for key in LIST_KEYS + ("knot",):
            v = case.get(key)
            if not isinstance(v, list) or key == "bytes":
                continue
            for i, item in enumerate(v[:12]):
                if isinstance(item, list):
                    for j, b in enumerate(item[:10]):
                        for nb in simpler_numbers(b)[:2]:
                            c = copy.deepcopy(case)
                            c[key][i][j] = nb
                            out.append(c)
                elif isinstance(item, int):
                    for nb in simpler_numbers(item)[:2]:
                        c = copy.deepcopy(case)
                        c[key][i] = nb
                        out.append(c)
    return out[:limit]


def shrink(prop, case, strip_meta, rounds=14, orig_result=None):
    """returns (smaller_case, its harness result, its oracle description) or None when nothing smaller fails.
    A candidate on which the implementation panics is only accepted when the original failure was a panic too: removing
    elements can make an input malformed for the harness itself, which is not the failure being minimised."""
    best = None
    allow_panic = orig_result is None or orig_result == "PANIC"
    cur = case
    for _ in range(rounds):
        cands = candidates(strip_meta(cur))
        if not cands:
            break
        try:
            res = C.run_harness(cands)
        except Exception:
            break
        hits = []
        for c, h in zip(cands, res):
            if h.get("r") in ("HANG", "HARNESS_ERROR") or (h.get("r") == "PANIC" and not allow_panic):
                continue
            c2 = dict(c, meta=cur.get("meta", {}))
            try:
                o = prop.oracle(c2, h)
            except Exception:
                o = None
            if o:
                hits.append((size(c), c2, h, o))
        if not hits:
            break
        hits.sort(key=lambda t: t[0])
        if hits[0][0] >= size(strip_meta(cur)):
            break
        _, cur, h, o = hits[0]
        best = (cur, h, o)
    return best
