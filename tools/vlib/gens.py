"""Structured generators shared by the property modules."""
from . import common as C

POLYS = ["Poly%d" % d for d in range(9)]
LOGS = ["Log<Poly%d>" % d for d in range(9)]
INTLOGS = ["IntOfLog<Poly%d>" % d for d in range(9)]
ALL_TYPES = POLYS + LOGS + INTLOGS + ["IntOfLogPoly4"]


def arity(ty):
    if ty.startswith("Segment<"):
        return 1 + arity(ty[8:-1])
    if ty.startswith("Poly"):
        return int(ty[4:]) + 1
    if ty.startswith("Log<"):
        return arity(ty[4:-1])
    if ty.startswith("IntOfLog<"):
        return 1 + arity(ty[9:-1])
    if ty == "IntOfLogPoly4":
        return 6
    if ty == "Knot":
        return 2
    raise ValueError(ty)


def uses_libm(ty):
    return "Log" in ty


def coeff(rng, style=None):
    style = style or rng.choice(["int", "int", "log", "log", "small", "special"])
    if style == "int":
        return rng.small_int(-9, 9)
    if style == "log":
        return rng.f64_loguniform(-30, 30)
    if style == "small":
        return rng.uniform(-2, 2)
    return rng.choice([0.0, -0.0, 1.0, -1.0, 0.5, 3.0, 1e-10, -1e10])


def piece(rng, ty, style=None):
    return [C.bits(coeff(rng, style)) for _ in range(arity(ty))]


def ends(rng, n, style=None):
    """non-decreasing, non-NaN list of n breakpoints (floats)"""
    style = style or rng.choice(["inc", "inc", "dups", "zero_width", "wide", "around_zero", "with_inf", "ints", "huge"])
    if style == "ints":
        start = rng.randint(-5, 5)
        xs = [float(start + i) for i in range(n)]
    elif style == "inc":
        x = rng.uniform(-10, 10)
        xs = []
        for _ in range(n):
            x += rng.choice([rng.uniform(0.01, 3.0), 2.0 ** rng.randint(-20, 3)])
            xs.append(x)
    elif style == "dups":
        x = float(rng.randint(-3, 3))
        xs = []
        for _ in range(n):
            if rng.random() < 0.5:
                x += rng.choice([1.0, 0.5, 2.0])
            xs.append(x)
    elif style == "zero_width":
        base = [float(rng.randint(-2, 4)) for _ in range(max(1, n // 2))]
        xs = sorted(rng.choice(base) for _ in range(n))
    elif style == "wide":
        xs = sorted(rng.f64_loguniform(-200, 200) for _ in range(n))
    elif style == "huge":
        # ends close to the top of the binary64 range (sums and midpoints of two ends overflow), one or both signs
        sign = rng.choice([-1.0, 1.0, 0.0])
        xs = []
        for _ in range(n):
            m = rng.choice([1.0e308, 1.5e308, 1.7e308, 9e307, 1.7976931348623157e308])
            sg = sign if sign else rng.choice([-1.0, 1.0])
            xs.append(sg * m * rng.choice([1.0, 0.999, 0.5]))
        xs.sort()
    elif style == "around_zero":
        pool = [-1.0, -5e-324, -0.0, 0.0, 5e-324, 1.0, -2.2250738585072014e-308, 2.2250738585072014e-308]
        xs = [rng.choice(pool) for _ in range(n)]
        xs.sort(key=lambda v: C.ordered_key(C.bits(v)))
        # keep -0.0 / +0.0 in the order they were drawn (they are equal): shuffle runs of zeros
    else:  # with_inf
        xs = sorted(rng.uniform(-5, 5) for _ in range(n))
        if rng.random() < 0.5:
            xs[0] = float("-inf")
        if rng.random() < 0.7:
            xs[-1] = float("inf")
        if n > 2 and rng.random() < 0.3:
            xs[-2] = xs[-1]
    return xs


def queries(rng, es, n, nan=False):
    """query points: ends, ulp neighbours, beyond extremes, infinities, midpoints, random"""
    pool = []
    for e in es:
        b = C.bits(e)
        pool += [b, C.next_up(b), C.next_down(b)]
    fin = [e for e in es if e == e and abs(e) != float("inf")]
    lo = min(fin) if fin else 0.0
    hi = max(fin) if fin else 0.0
    pool += [C.bits(lo - 1.0), C.bits(hi + 1.0), C.bits(float("inf")), C.bits(float("-inf")), C.bits(0.0), C.bits(-0.0),
             C.bits(1.7976931348623157e308), C.bits(-1.7976931348623157e308)]
    for a, b in zip(fin, fin[1:]):
        pool.append(C.bits((a + b) / 2))
    out = []
    for _ in range(n):
        r = rng.random()
        if nan and r < 0.12:
            out.append(rng.choice([C.NAN_BITS, 0xFFF8000000000000, 0x7FF0000000000001]))
        elif r < 0.75:
            out.append(rng.choice(pool))
        else:
            out.append(C.bits(rng.uniform(lo - 2, hi + 2)))
    return out


def segs(rng, ty, n, style=None, pstyle=None):
    es = ends(rng, n, style)
    return es, [[C.bits(e)] + piece(rng, ty, pstyle) for e in es]


def tag_segs(rng, n, style=None):
    """Poly0 pieces whose constant identifies the segment"""
    es = ends(rng, n, style)
    return es, [[C.bits(e), C.bits(float(10 * (i + 1)))] for i, e in enumerate(es)]
