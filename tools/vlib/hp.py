"""high-precision helpers for the search oracles (mpmath from the pre-installed tooling venv when importable)"""
import sys
try:
    import mpmath
except ImportError:
    try:
        sys.path.append("/opt/veriftools/pyvenv/lib/python3.11/site-packages")
        import mpmath
    except ImportError:
        mpmath = None


def available():
    return mpmath is not None


def mpf(x):
    """exact conversion of a float or Fraction"""
    from fractions import Fraction
    if isinstance(x, Fraction):
        return mpmath.mpf(x.numerator) / mpmath.mpf(x.denominator)
    return mpmath.mpf(x)
