"""Predicates identifying the input classes of known findings (see known_findings.json)."""
import math
from . import common as C


def c10_exp_overflow(case):
    """IntOfLogPoly4::evaluate at a v > 0 so small that the closed-form branch overflows binary64 before the final
    scaling by v: either e^x itself (x = -ln v > ln(f64::MAX) = 709.78...) or the intermediate product u*e^x
    (|u|/v >= 2^1022).  The exact result is finite there (about k + u), the implementation returns +-inf or NaN."""
    if case.get("op") != "k" or case.get("name") not in ("IntOfLogPoly4::evaluate", "Segment<IntOfLogPoly4>::evaluate"):
        return False
    args = case["args"]
    off = 1 if case["name"].startswith("Segment<") else 0
    u = C.fl(args[off + 5])
    v = C.fl(args[off + 6])
    if not (v > 0) or v == float("inf"):
        return False
    if -math.log(v) > 709.782712893384:
        return True
    return abs(u) / v >= 2.0 ** 1022 if u == u else False
