"""Predicates identifying the input classes of known findings (see known_findings.json)."""
import math
from . import common as C


def c10_exp_overflow(case):
    """IntOfLogPoly4::evaluate at a v > 0 so small that the closed-form branch overflows binary64 before the final
    scaling by v: either e^x itself (x = -ln v > ln(f64::MAX) = 709.78...) or the intermediate product u*e^x
    (|u|/v >= 2^1022).  The exact result is finite there (about k + u), the implementation returns +-inf or NaN."""
    if case.get("op") != "k" or case.get("name") not in ("IntOfLogPoly4::evaluate", "Segment<IntOfLogPoly4>::evaluate"):
        return False
    args = case["args"]
    off = 1 if case["name"].startswith("Segment<") else 0
    u = C.fl(args[off + 5])
    v = C.fl(args[off + 6])
    if not (v > 0) or v == float("inf"):
        return False
    if -math.log(v) > 709.782712893384:
        return True
    return abs(u) / v >= 2.0 ** 1022 if u == u else False


def c07_subnormal_quotient(case, desc=None):
    """PolyK::indefinite (or the Segment variant) with a coefficient c_i, i >= 1, whose quotient c_i/(i+1) is non-zero and
    below 2^-1022 in magnitude: the quotient is rounded on the subnormal grid (absolute error up to 2^-1075), so multiplying
    back by i+1 can be several units in the last place away from c_i.  Only the round-trip clause is covered."""
    if case.get("op") != "k":
        return False
    name = case.get("name", "")
    if not name.endswith("::indefinite") or "Log" in name:
        return False
    if desc is not None and "derivative(indefinite)" not in desc:
        return False
    args = case["args"]
    off = 1 if name.startswith("Segment<") else 0
    cs = [C.fl(b) for b in args[off:]]
    for i in range(1, len(cs)):
        # 0 < |c_i/(i+1)| < 2^-1022, decided without forming the (possibly underflowing) quotient
        if cs[i] == cs[i] and 0 < abs(cs[i]) < (i + 1) * 2.0 ** -1022:
            return True
    return False
