"""Predicates identifying the input classes of known findings (see known_findings.json)."""
import math
from . import common as C


def c10_exp_overflow(case):
    """IntOfLogPoly4 evaluated at a v for which -ln v exceeds ln(f64::MAX): exp overflows"""
    vs = []
    if case.get("op") == "k" and case.get("name") in ("IntOfLogPoly4::evaluate", "Segment<IntOfLogPoly4>::evaluate"):
        vs = [case["args"][-1]]
    for b in vs:
        v = C.fl(b)
        if v > 0 and -math.log(v) > 709.782712893384:
            return True
    return False
