"""The per-property check: proof obligations + correspondence + property search -> verdict."""
import json
import os
import sys
import time
import hashlib

from . import common as C


class Prop:
    """base class of a property module"""
    ID = "C00"
    MODULE = None              # props/<MODULE>.v
    THEOREMS = []              # names of the pinned property theorems (Print Assumptions is taken of each)
    EXTRA_TARGETS = []         # additional .vo files that are obligations of this property (generated Obl files)
    KERNELS = []               # generated kernels the property's model uses (translator failure => broken tie)
    TRUSTED = []
    ASSUMPTIONS = []
    RULE = ""

    def gen_obligations(self, tr):
        """write generated obligation files (gen/Obl_<ID>.v); returns number of generated obligations"""
        return 0

    def cases(self, rng, tier):
        return []

    def corpus_cases(self):
        d = os.path.join(C.CORPUS, self.ID)
        out = []
        if os.path.isdir(d):
            for f in sorted(os.listdir(d)):
                if f.endswith(".json"):
                    j = json.load(open(os.path.join(d, f)))
                    for c in (j if isinstance(j, list) else [j]):
                        c.setdefault("meta", {})["corpus"] = f
                        out.append(c)
        return out

    def coq_term(self, case, hres):
        raise NotImplementedError

    def oracle(self, case, hres):
        """independent check of the property on the implementation's result; returns None or a description"""
        return None

    def nontrivial_key(self, case, hres):
        """key identifying a distinct non-trivial case, or None when the case is trivial"""
        return json.dumps(strip_meta(case), sort_keys=True)

    def hyp_term(self, case, hres):
        """Coq term (list Z: [hypotheses hold, proved bound respected]) deciding the hypotheses of the property's binary64
        theorems on this input, or None"""
        return None

    def search_cases(self, rng):
        """extra cases for the failing-input search (thorough volume by default)"""
        return self.cases(rng, "thorough")

    def compare(self, case, hres, mres):
        """bit-exact comparison modulo NaN canonicalisation. returns None or description"""
        hr = hres["r"]
        if hr == "HARNESS_ERROR":
            return "harness error: %s" % hres.get("msg")
        if hr == "HANG":
            return "implementation did not terminate (or exhausted memory) on this input"
        if hr == "PANIC":
            hv = [-1]
        else:
            hv = [C.canon(x) for x in hr]
        if mres is None:
            return "model produced no result"
        mv = [C.canon(x) for x in mres]
        if hv != mv:
            return "implementation %s != model %s" % (short(hv), short(mv))
        return None


def short(v, n=12):
    s = [("0x%016x" % x if isinstance(x, int) and x >= 0 else str(x)) for x in v[:n]]
    return "[" + ", ".join(s) + (", ...(%d)" % len(v) if len(v) > n else "") + "]"


def strip_meta(case):
    return dict((k, v) for k, v in case.items() if k != "meta")


def load_known():
    p = os.path.join(C.VERIF, "known_findings.json")
    if os.path.exists(p):
        return json.load(open(p))
    return {"findings": [], "fixed": []}


def match_known(pid, case, desc, known):
    """a violation matches a known finding when the finding's predicate (by name) accepts the case"""
    from . import known_preds
    for kf in known.get("findings", []):
        if kf.get("property") != pid:
            continue
        pred = getattr(known_preds, kf.get("predicate", ""), None)
        if pred is None:
            continue
        try:
            hit = pred(case, desc)          # predicates may also look at what failed (the violated clause)
        except TypeError:
            hit = pred(case)
        if hit:
            return kf
    return None


def write_replay(pid, payload):
    os.makedirs(C.REPLAYS, exist_ok=True)
    h = hashlib.sha256(json.dumps(payload, sort_keys=True, default=str).encode()).hexdigest()[:12]
    path = os.path.join(C.REPLAYS, "%s-%s.json" % (pid, h))
    with open(path, "w") as fh:
        json.dump(payload, fh, indent=1, default=str)
    return path


def run_stream(prop, cases, tag, profile="debug"):
    """run implementation and model on the cases. returns dict with results"""
    out = dict(n=len(cases), mismatches=[], oracle_hits=[], nontrivial=set(), harness_error=None, coq_log="",
               hres=[], mres=[])
    if not cases:
        return out
    hcases = [strip_meta(c) for c in cases]
    try:
        hres = C.run_harness(hcases, profile=profile)
    except Exception as ex:
        out["harness_error"] = str(ex)
        return out
    out["hres"] = hres
    terms = []
    idx = []
    for i, (c, h) in enumerate(zip(cases, hres)):
        t = prop.coq_term(c, h)
        if t is not None:
            idx.append(i)
            terms.append(t)
    mres_list, log = C.run_coq_cases(terms, tag) if terms else ([], "")
    out["coq_log"] = log
    mres = [None] * len(cases)
    for k, i in enumerate(idx):
        mres[i] = mres_list[k]
    out["mres"] = mres
    has_model = set(idx)
    for i, (c, h) in enumerate(zip(cases, hres)):
        if i in has_model:
            d = prop.compare(c, h, mres[i])
            if d:
                out["mismatches"].append((i, d))
        if h.get("r") in ("HANG", "HARNESS_ERROR"):
            if h.get("r") == "HANG":
                out["oracle_hits"].append((i, "the implementation did not terminate within the per-case limit (or exhausted memory) on this input"))
            continue
        o = prop.oracle(c, h)
        if o:
            out["oracle_hits"].append((i, o))
        k = prop.nontrivial_key(c, h)
        if k is not None:
            out["nontrivial"].add(k)
    return out


def check_property(prop, tier, seed, replay=None):
    t0 = time.time()
    pid = prop.ID
    os.makedirs(C.EVIDENCE, exist_ok=True)
    os.makedirs(C.BUILD, exist_ok=True)
    lines = []          # VIOLATION / KNOWN-FINDING lines
    notes = []
    broken = []         # descriptions of broken obligations / ties
    rng = C.Rng(seed * 1000003 + int(pid[1:]))
    known = load_known()

    with C.Lock():
        tr = C.translate()
        # ---- the tie through the translator
        if tr.get("error"):
            broken.append("translator: " + tr["error"])
        for k in prop.KERNELS:
            if k in tr.get("failures", {}):
                broken.append("kernel %s no longer translates: %s" % (k, tr["failures"][k]))
            elif tr.get("kernels") is not None and k not in tr["kernels"] and k not in tr.get("approx", {}):
                broken.append("kernel %s missing from the source" % k)
        for d in tr.get("inventory_diff", []):
            if any(d.split(" ")[1].rstrip(":") == k for k in prop.KERNELS) or not prop.KERNELS:
                broken.append("inventory changed: " + d)
        n_gen = prop.gen_obligations(tr)
        # ---- hygiene
        forb = C.scan_forbidden()
        if forb:
            broken.append("forbidden declarations: " + "; ".join(forb))
        pin = os.path.join(C.COQ, "props", "STATEMENTS.sha256")
        pins = {}
        if os.path.exists(pin):
            for ln in open(pin):
                if ln.strip():
                    hsh, nm = ln.split()
                    pins[nm] = hsh
        for fn in ([prop.MODULE + ".v"] if prop.MODULE else []) + list(getattr(prop, "PINNED_EXTRA", [])):
            cur = C.sha256_file(os.path.join(C.COQ, "props", fn))
            if pins.get(fn) != cur:
                broken.append("props/%s does not match its pinned statement hash" % fn)
        # ---- proof obligations
        targets = (["props/%s.vo" % prop.MODULE] if prop.MODULE else []) + list(prop.EXTRA_TARGETS) + \
                  ["model/Run.vo", "model/Extra.vo", "model/Hyp.vo", "gen/Kernels.vo", "proofs/QuarticFloat.vo", "proofs/QuarticClosedFloat.vo", "props/C09F.vo", "props/C11F.vo", "props/C11L.vo", "proofs/SplineFloat.vo"]
        ok_make, mlog = C.coq_make(targets)
        checker_cmd = "cd coq && make -j%d %s" % (C.NCPU, " ".join(targets))
        obligations = len(prop.THEOREMS) + n_gen
        discharged = 0
        axioms_seen = {}
        if not ok_make:
            errs = [l for l in mlog.split("\n") if "Error" in l or l.startswith("File ")]
            broken.append("proof obligations do not check: " + " | ".join(errs[:6]))
            with open(os.path.join(C.BUILD, "make_%s.log" % pid), "w") as fh:
                fh.write(mlog)
        else:
            ass = C.print_assumptions(prop.MODULE, prop.THEOREMS, pid) if prop.MODULE else {}
            for nm in prop.THEOREMS:
                ax = ass.get(nm, ["<missing>"])
                bad = C.axioms_ok(ax)
                axioms_seen[nm] = ax
                if bad:
                    broken.append("theorem %s depends on non-allowlisted assumptions: %s" % (nm, ", ".join(bad)[:400]))
                else:
                    discharged += 1
            discharged += n_gen
        if any(b.startswith(("translator:", "kernel ", "inventory changed")) for b in broken):
            # the model could not be regenerated from the current source: whatever compiled is about a stale model
            discharged = 0
        chk_axioms = None
        if tier == "thorough" and ok_make and prop.MODULE and not replay:
            okc, chk_axioms, clog = C.coqchk(prop.MODULE)
            if okc is None:
                notes.append(clog)
                chk_axioms = ["<independent checker timed out: not completed for this module>"]
            elif not okc:
                broken.append("coqchk (independent checker) does not accept the development or reports unexpected axioms: %s | %s" % (chk_axioms, clog[-400:]))
        hb_ok, hb_err = C.build_harness("debug")
        if not hb_ok:
            broken.append("harness no longer builds against the crate: " + hb_err[-1500:])

    # ---- correspondence + oracle on the implementation
    stats = dict(evaluations=0, mismatches=0)
    samples = []
    all_nontrivial = set()
    oracle_hits = []
    mismatches = []
    dist = {}
    origin = {}          # id(case) -> (stream, index): lets a history-dependent failure be replayed with its prefix
    ran = []             # (cases, harness results) per stream
    if hb_ok:
        if replay:
            payload = json.load(open(replay))
            cases = payload.get("cases") or ([payload["case"]] if "case" in payload else [])
            for c in cases:
                c.setdefault("meta", {})
            streams = [("replay", cases)]
            if payload.get("purity") and cases:
                # the last case in this history against the same case evaluated on its own
                seq = C.run_harness([strip_meta(c) for c in cases])
                alone = C.run_harness([strip_meta(cases[-1])])
                a, b = seq[-1].get("r"), alone[0].get("r")
                print("REPLAY purity: in history %s / alone %s" % (a, b))
                if isinstance(a, list) and isinstance(b, list) and [C.canon(x) for x in a] != [C.canon(x) for x in b]:
                    print("VIOLATION property=%s replay=%s" % (pid, replay))
                    sys.exit(1)
        else:
            streams = [("corpus", prop.corpus_cases()), ("gen", prop.cases(rng, tier))]
        for tag, cases in streams:
            if not cases:
                continue
            res = run_stream(prop, cases, "%s_%s" % (pid, tag))
            stats["evaluations"] += res["n"]
            if res["harness_error"]:
                broken.append("harness run failed: " + res["harness_error"][-800:])
                continue
            if res["coq_log"]:
                broken.append("model execution failed: " + res["coq_log"][-800:])
            ran.append((cases, res["hres"]))
            for i, d in res["mismatches"]:
                mismatches.append((cases[i], res["hres"][i], d))
                origin[id(cases[i])] = (cases, i)
            for i, d in res["oracle_hits"]:
                oracle_hits.append((cases[i], res["hres"][i], d))
                origin[id(cases[i])] = (cases, i)
            all_nontrivial |= res["nontrivial"]
            for c in cases:
                key = c.get("meta", {}).get("class", c.get("op", "?"))
                dist[key] = dist.get(key, 0) + 1
            for c, h in list(zip(cases, res["hres"]))[:2]:
                samples.append(dict(case=strip_meta(c), result=h.get("r")))
            if replay:
                for c, h, m in zip(cases, res["hres"], res["mres"]):
                    print("REPLAY case=%s\n  implementation=%s\n  model=%s\n  oracle=%s" % (
                        json.dumps(strip_meta(c))[:600], h.get("r"), m, prop.oracle(c, h)))
    # ---- hidden state: every operation is a function of its input, so evaluating a sample of the cases again, in REVERSE
    # order and in one fresh process, must reproduce the first results bit for bit
    purity_hits = []
    if hb_ok and not replay:
        pool = [(c, h) for cases, hrs in ran for c, h in zip(cases, hrs)
                if isinstance(h.get("r"), list) and c.get("meta", {}).get("class") != "poison" and not c.get("prefail")]
        if pool:
            lim = 80 if tier == "quick" else 600
            if len(pool) > lim:
                step = len(pool) / float(lim)
                pool = [pool[int(k * step)] for k in range(lim)]
            pool = pool[::-1]
            try:
                again = C.run_harness([strip_meta(c) for c, _ in pool])
                for k, ((c, h), h2) in enumerate(zip(pool, again)):
                    if isinstance(h2.get("r"), list) and [C.canon(x) for x in h2["r"]] != [C.canon(x) for x in h["r"]]:
                        purity_hits.append((k, c, h, h2))
                stats["purity_reruns"] = len(pool)
            except Exception as ex:
                notes.append("purity re-run failed: %s" % ex)
            if purity_hits:
                k, c, h, h2 = purity_hits[0]
                broken.append("hidden state: %d of %d re-evaluated inputs gave a different result in a different evaluation order" % (len(purity_hits), len(pool)))
                pay = dict(property=pid, kind="failing-history", source="re-evaluation in reverse order",
                           description="the last case evaluates to %s here but to %s when evaluated in the original order: the result is not a function of the input (hidden state)" % (
                               short(h2["r"]), short(h["r"])),
                           cases=[dict(cc) for cc, _ in pool[:k + 1]], purity=True, expected_last=h["r"], broken=list(broken))
                path = write_replay(pid, pay)
                lines.append("VIOLATION property=%s replay=%s" % (pid, path))
    # ---- on how many generated inputs do the hypotheses of the binary64 theorems hold (decided inside Coq, lib/SafeDec.v)
    hyp = None
    if hb_ok and not replay and ok_make:
        hterms = []
        for cases, hrs in ran:
            for c, hr in zip(cases, hrs):
                try:
                    t = prop.hyp_term(c, hr)
                except Exception:
                    t = None
                if t:
                    hterms.append(t)
        lim = 32 if tier == "quick" else 320
        if len(hterms) > lim:
            step = len(hterms) / float(lim)
            hterms = [hterms[int(k * step)] for k in range(lim)]
        if hterms:
            hres_, hlog = C.run_coq_cases(hterms, "%s_hyp" % pid, shards=min(C.NCPU, len(hterms)))
            got = [r for r in hres_ if r]
            hyp = dict(checked=len(hterms), evaluated=len(got), hypotheses_hold=sum(1 for r in got if r[0] == 1))
            if any(len(r) > 1 for r in got):
                hyp["bound_respected"] = sum(1 for r in got if len(r) > 1 and r[0] == 1 and r[1] == 1)
                if any(len(r) > 1 and r[0] == 1 and r[1] == 0 for r in got):
                    broken.append("a proved error bound is violated on an input satisfying its hypotheses (model / proof chain inconsistent)")
            if hlog:
                notes.append("hypothesis decision failed to run on some inputs: " + hlog[-300:])
            if hyp["hypotheses_hold"] == 0:
                notes.append("the hypotheses of the binary64 theorems held on none of the sampled inputs")
    stats["mismatches"] = len(mismatches)
    if mismatches:
        c, h, d = mismatches[0]
        broken.append("correspondence: %d of %d cases differ, e.g. %s on %s" % (
            len(mismatches), stats["evaluations"], d, json.dumps(strip_meta(c))[:300]))

    # ---- verdict
    violations = len([l for l in lines if l.startswith("VIOLATION")])

    def report_hit(case, hres, desc, source):
        nonlocal violations
        kf = match_known(pid, case, desc, known)
        if kf:
            line = "KNOWN-FINDING: property=%s %s" % (pid, kf.get("what", desc))
            if line not in lines:
                lines.append(line)
            return False
        original = None
        history = None
        if not replay and hres.get("r") not in ("HANG", "HARNESS_ERROR") and id(case) in origin:
            # does the input fail on its own, in a fresh process?  if not, the failure depends on what was evaluated before
            # (hidden state): keep the shortest tried prefix of the stream that reproduces it
            try:
                alone = C.run_harness([strip_meta(case)])[0]
                if alone.get("r") not in ("HANG", "HARNESS_ERROR") and not prop.oracle(case, alone):
                    stream, i = origin[id(case)]
                    for n in (1, 2, 4, 8, 16, 32, 64, i):
                        pre = stream[max(0, i - n): i + 1]
                        rr = C.run_harness([strip_meta(c) for c in pre])
                        if prop.oracle(case, rr[-1]):
                            history = [dict(c) for c in pre]
                            break
                        if n >= i:
                            break
            except Exception as ex:
                notes.append("history search failed: %r" % ex)
        if not replay and history is None:
            try:
                from . import shrink as S
                sm = S.shrink(prop, case, strip_meta, orig_result=hres.get("r"))
                if sm is not None and not match_known(pid, sm[0], sm[2], known):
                    original = strip_meta(case)
                    case, hres, desc = sm
            except Exception as ex:      # shrinking is best effort
                notes.append("shrinking failed: %r" % ex)
        payload = dict(property=pid, kind="failing-input", source=source, description=desc,
                       case=dict(case), implementation_result=hres.get("r"), broken=broken)
        if original is not None:
            payload["shrunk_from"] = original
        if history is not None:
            payload["kind"] = "failing-history"
            payload["cases"] = history
            payload["note"] = ("the last case fails only after the preceding ones were evaluated in the same process: the result is not "
                               "a function of its input (hidden state)")
        path = write_replay(pid, payload)
        lines.append("VIOLATION property=%s replay=%s" % (pid, path))
        violations += 1
        return True

    reported = bool(purity_hits)
    for c, h, d in ([] if purity_hits else oracle_hits[:50]):
        if report_hit(c, h, d, "oracle on generated cases"):
            reported = True
            break
    if not reported and broken and not replay:
        # search the implementation for a concrete failing input
        found = False
        # (b) inputs on which model and implementation disagreed, checked against the direct oracle
        for c, h, d in mismatches:
            if h.get("r") in ("HANG", "HARNESS_ERROR"):
                continue
            o = prop.oracle(c, h)
            if o and report_hit(c, h, o, "correspondence disagreement"):
                found = True
                break
        if not found and hb_ok:
            # (d) structured generators at thorough volume, implementation + oracle only
            srng = C.Rng(seed * 7919 + 17)
            scases = prop.search_cases(srng)
            try:
                hres = C.run_harness([strip_meta(c) for c in scases]) if scases else []
                for c, h in zip(scases, hres):
                    if h.get("r") in ("HANG", "HARNESS_ERROR"):
                        continue
                    o = prop.oracle(c, h)
                    if o and report_hit(c, h, o, "property search"):
                        found = True
                        break
            except Exception as ex:
                notes.append("search failed to run: %s" % ex)
        if not found:
            path = write_replay(pid, dict(property=pid, kind="no-failing-input-found", broken=broken,
                                          note="the property is no longer shown to hold: the listed theorem / obligation / correspondence no longer checks"))
            lines.append("VIOLATION property=%s replay=%s no-failing-input-found" % (pid, path))
            violations += 1
    elif not reported and broken and replay:
        notes.append("replay: obligations broken: %s" % broken)

    wall = time.time() - t0
    trusted = list(prop.TRUSTED) + [
        "Coq 8.16.1 kernel incl. vm_compute (no native_compute), full .vo build via coq_makefile",
        "Flocq 4.1.0 BinarySingleNaN as the definition of IEEE-754 binary64",
        "translator tools/rs2coq.py (validated every run by bit-exact execution of generated kernels)",
        "correspondence harness (Rust) + driver (Python) for the hand-written skeleton",
        "axioms per theorem (Print Assumptions): " + json.dumps(axioms_seen),
        "coqchk -o (thorough tier only): " + (json.dumps(chk_axioms) if chk_axioms is not None else "not run in this tier"),
    ]
    ev = dict(
        property_id=pid, tier=tier, seed=seed, level="proof",
        coverage=dict(
            obligations=max(obligations, 1), discharged=discharged, checker_cmd=checker_cmd, trusted_base=trusted,
            evaluations=stats["evaluations"], distinct_nontrivial=len(all_nontrivial),
            rule=prop.RULE, samples=samples[:4] if samples else [dict(obligations=prop.THEOREMS)],
            correspondence_mismatches=stats["mismatches"], input_distribution=dist,
            theorems=prop.THEOREMS, generated_obligations=n_gen,
            source_hashes=tr.get("hashes", {}), broken=broken, notes=notes, hypothesis_coverage=hyp,
        ),
        assumptions=list(prop.ASSUMPTIONS),
        wall_s=round(wall, 2), violations=violations,
    )
    with open(os.path.join(C.EVIDENCE, "%s.json" % pid), "w") as fh:
        json.dump(ev, fh, indent=1)
    for l in lines:
        print(l)
    print("%s tier=%s seed=%d: obligations %d/%d, cases %d (nontrivial %d), mismatches %d, %s, %.1fs" % (
        pid, tier, seed, discharged, obligations, stats["evaluations"], len(all_nontrivial), stats["mismatches"],
        "VIOLATION" if violations else "ok", wall))
    if broken:
        for b in broken:
            print("  broken: " + b[:600])
    return 1 if violations else 0
