#!/usr/bin/env python3
"""Confirm a sub-agent's seeded change (compiles, 94 tests pass, demo fails with / passes without), store it under
/verif/seeded/<id>/ and run the checks of the given properties against it.
usage: seedcheck.py <PROP> <k> [--checks C02,C03] [--no-verify]"""
import argparse
import json
import os
import shutil
import subprocess
import sys
import time

VERIF = os.path.dirname(os.path.dirname(os.path.abspath(__file__)))


def sh(cmd, cwd=None, timeout=1800):
    e = dict(os.environ, CARGO_NET_OFFLINE="true")
    p = subprocess.run(cmd, cwd=cwd, shell=isinstance(cmd, str), stdout=subprocess.PIPE, stderr=subprocess.STDOUT, text=True, timeout=timeout, env=e)
    return p.returncode, p.stdout


def main():
    ap = argparse.ArgumentParser()
    ap.add_argument("prop")
    ap.add_argument("k")
    ap.add_argument("--checks", default=None)
    ap.add_argument("--no-verify", action="store_true")
    ap.add_argument("--src", default=None)
    a = ap.parse_args()
    sid = "%s-%s" % (a.prop, a.k)
    src = a.src or "/tmp/seeded-out/%s/%s" % (a.prop, a.k)
    dst = os.path.join(VERIF, "seeded", sid)
    os.makedirs(dst, exist_ok=True)
    for f in ("patch.diff", "demo.rs", "notes.md"):
        if os.path.exists(os.path.join(src, f)) and os.path.abspath(src) != os.path.abspath(dst):
            shutil.copy(os.path.join(src, f), os.path.join(dst, f))
    patch = os.path.join(dst, "patch.diff")
    ran = []
    verified = None
    if not a.no_verify:
        wt = "/tmp/wt-%s" % a.prop
        if not os.path.isdir(wt):
            sh("git -C /repo worktree add -q --detach %s HEAD && cp /repo/Cargo.lock %s/" % (wt, wt))
        sh("git checkout -- . && rm -rf tests", cwd=wt)
        os.makedirs(os.path.join(wt, "tests"), exist_ok=True)
        shutil.copy(os.path.join(dst, "demo.rs"), os.path.join(wt, "tests", "demo.rs"))
        rc0, o0 = sh("cargo test --offline --test demo 2>&1 | tail -5", cwd=wt)
        clean_ok = "test result: ok" in o0
        rc1, o1 = sh("git apply %s" % patch, cwd=wt)
        rc2, o2 = sh("cargo test --offline --lib 2>&1 | grep 'test result'", cwd=wt)
        suite_ok = "94 passed; 0 failed" in o2
        rc3, o3 = sh("cargo test --offline --test demo 2>&1 | tail -8", cwd=wt)
        demo_fails = "test result: FAILED" in o3 or "panicked" in o3
        sh("git checkout -- . && rm -rf tests", cwd=wt)
        verified = dict(demo_passes_on_clean=clean_ok, patch_applies=(rc1 == 0), suite_94_pass_with_patch=suite_ok, demo_fails_with_patch=demo_fails)
        ran += ["cargo test --offline --test demo (clean): %s" % ("ok" if clean_ok else o0[-300:]),
                "git apply patch.diff; cargo test --offline --lib: %s" % o2.strip(),
                "cargo test --offline --test demo (patched): %s" % ("FAILED as expected" if demo_fails else o3[-300:])]
        print(sid, "verification:", verified)
        if not (clean_ok and rc1 == 0 and suite_ok and demo_fails):
            print("NOT CONFIRMED - not kept")
            json.dump(dict(id=sid, property=a.prop, confirmed=False, verified=verified, ran=ran), open(os.path.join(dst, "meta.json"), "w"), indent=1)
            return 1
    checks = a.checks.split(",") if a.checks else [a.prop]
    results = {}
    rc, o = sh("git -C /repo status --porcelain")
    if o.strip():
        print("/repo not clean, refusing")
        return 2
    # evidence files must only ever record runs on the unchanged tree: keep them aside during the mutant runs
    evdir = os.path.join(VERIF, "evidence")
    saved = {}
    for c in checks:
        f = os.path.join(evdir, "%s.json" % c)
        if os.path.exists(f):
            saved[f] = open(f).read()
    try:
        rc, o = sh("git -C /repo apply %s" % patch)
        if rc != 0:
            print("patch does not apply to /repo:", o)
            return 2
        for c in checks:
            t0 = time.time()
            rc, o = sh("./check %s --tier quick" % c, cwd=VERIF, timeout=3000)
            lines = [l for l in o.split("\n") if l.startswith("VIOLATION") or l.startswith("KNOWN") or l.startswith(c + " tier") or l.startswith("  broken")]
            results[c] = dict(exit=rc, detected=(rc == 1 and any(l.startswith("VIOLATION") for l in lines)), lines=[l[:400] for l in lines][:6], secs=round(time.time() - t0, 1))
            print(" check", c, "->", "DETECTED" if results[c]["detected"] else "missed", lines[:2])
    finally:
        sh("git -C /repo checkout -- .")
        for f, txt in saved.items():
            open(f, "w").write(txt)
    meta = dict(id=sid, property=a.prop, confirmed=True if verified else None, verified=verified, ran=ran,
                needs=open(os.path.join(dst, "notes.md")).read()[:1500] if os.path.exists(os.path.join(dst, "notes.md")) else "",
                check_results=results, at=time.strftime("%Y-%m-%d %H:%M:%S"))
    old = os.path.join(dst, "meta.json")
    if os.path.exists(old):
        try:
            om = json.load(open(old))
            if verified is None:
                meta["verified"] = om.get("verified")
                meta["confirmed"] = om.get("confirmed")
                meta["ran"] = om.get("ran")
            cr = om.get("check_results", {})
            cr.update(results)
            meta["check_results"] = cr
        except Exception:
            pass
    json.dump(meta, open(old, "w"), indent=1)
    return 0


if __name__ == "__main__":
    sys.exit(main())
