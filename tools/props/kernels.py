"""helpers shared by the kernel-level properties (C01, C07, C08, C09, C14, C15 ...)"""
from vlib import common as C, gens as G

SCALARS = [0.0, -0.0, 1.0, -1.0, 2.0, 0.5, 3.0, 1e-300, -1e-300, 1e300, -1e300, 5e-324, 1.7976931348623157e308,
           float("inf"), float("-inf")]


def rand_arg(rng, style=None):
    r = rng.random()
    if style == "finite":
        if r < 0.25:
            return rng.choice([s for s in SCALARS if abs(s) != float("inf")])
    elif r < 0.2:
        return rng.choice(SCALARS)
    if r < 0.5:
        return rng.small_int(-9, 9)
    if r < 0.8:
        return rng.f64_loguniform(-40, 40)
    return rng.uniform(-3, 3)


def split_kernel(name):
    ix = name.rfind("::")
    return name[:ix], name[ix + 2:]


def value_arity(ty):
    return G.arity(ty.lstrip("&"))


def kernel_case(name, args, cls=None, libm=False):
    return dict(op="k", name=name, args=[C.bits(a) if isinstance(a, float) else a for a in args], libm=libm,
                meta={"class": cls or name})


def kernel_term(case, h):
    return "run_kernel %s %s %s %s" % (C.ztable(h.get("ln", [])), C.ztable(h.get("exp", [])), C.kname(case["name"]), C.zlist(case["args"]))


def fmul(a, b):
    return a * b


def expected_op(meth, n, xs, seg=False):
    """expected output numbers (floats) of a number-by-number operator on a value with n numbers"""
    off = 1 if seg else 0
    v = xs[off:off + n]
    out = None
    if meth in ("mul", "mul_assign"):
        s = xs[off + n]
        out = [c * s for c in v]
    elif meth == "neg":
        out = [-c for c in v]
    elif meth == "add":
        w = xs[off + n: off + 2 * n]
        out = [a + b for a, b in zip(v, w)]
    elif meth == "sub":
        w = xs[off + n: off + 2 * n]
        out = [a - b for a, b in zip(v, w)]
    elif meth == "translate":
        s = xs[off + n]
        out = [v[0] + s] + v[1:]
    if out is None:
        return None
    return ([xs[0]] if seg else []) + out
