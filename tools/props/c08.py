from vlib import common as C, gens as G
from vlib.driver import Prop
from props import kernels as K


def deriv_expected(cs):
    if len(cs) == 1:
        return [0.0]
    return [cs[1]] + [float(i) * cs[i] for i in range(2, len(cs))]


class P(Prop):
    ID = "C08"
    MODULE = "C08"
    THEOREMS = ["C08_shapes", "C08_lane_rounded", "C08_pow2_exact"] + ["C08_Poly%d_value" % k for k in range(9)] + \
               ["C08_is_derivative", "C08_map_length", "C08_map_nth", "C08_example"]
    KERNELS = ["Poly%d::derivative" % k for k in range(9)] + ["Segment<Poly%d>::derivative" % k for k in range(9)]
    RULE = ("PolyK::derivative / Segment<PolyK>::derivative kernels (K=0..8) checked lane by lane in Coq for all inputs; "
            "kernels and Piecewise::derivative (1..12 pieces, duplicate ends, equal pieces) run bit-exactly against the crate "
            "with coefficients over the whole finite range incl. values near f64::MAX/k. non-trivial = degree >= 2; distinct by input"
            " Also: every lane just below its own overflow threshold, breakpoints closer than 2.2e-16, tables of 2^20-1..2^20+5 (thorough ..2^21+1) linear pieces built and checked inside the harness.")
    TRUSTED = ["translator rs2coq", "Piecewise::derivative = map (Run.run_pw_map) tied by correspondence"]
    ASSUMPTIONS = ["IEEE-754 binary64 multiplication"]

    def coeff(self, rng):
        r = rng.random()
        if r < 0.15:
            return rng.choice([1.7976931348623157e308 / rng.choice([7.0, 7.5, 8.0, 3.0, 2.0]), -2.0 ** 1021, 2.0 ** 1020, 5e-324, 1e-310])
        return K.rand_arg(rng, "finite")

    def cases(self, rng, tier):
        per = 6 if tier == "quick" else 80
        out = []
        for k in range(9):
            for _ in range(per):
                out.append(K.kernel_case("Poly%d::derivative" % k, [self.coeff(rng) for _ in range(k + 1)], cls="poly"))
            for _ in range(max(1, per // 3)):
                out.append(K.kernel_case("Segment<Poly%d>::derivative" % k, [self.coeff(rng) for _ in range(k + 2)], cls="segment"))
            if k >= 2:
                # every lane just below ITS overflow threshold: i*c_i is finite, (i+1)*c_i (or any larger multiple formed on the way) is not
                for _ in range(max(2, per // 3)):
                    cs = [rng.uniform(-2, 2)] + [rng.choice([1.0, -1.0]) * rng.uniform(0.88, 0.999) * 1.7976931348623157e308 / float(i) for i in range(1, k + 1)]
                    for i in range(1, k + 1):
                        if rng.random() < 0.3:
                            cs[i] = rng.choice([0.0, rng.uniform(-3, 3)])
                    out.append(K.kernel_case("Poly%d::derivative" % k, cs, cls="poly/near_overflow"))
        for _ in range(60 if tier == "quick" else 800):
            ty = rng.choice(G.POLYS)
            n = rng.randint(1, 12)
            es, sg = G.segs(rng, ty, n)
            if n >= 2 and rng.random() < 0.3:
                i = rng.randrange(n - 1)
                sg[i + 1][1:] = sg[i][1:]
            cls = "piecewise"
            if n >= 2 and rng.random() < 0.25:
                # breakpoints in arbitrary order: differentiation may not reorder, merge or drop pieces whatever the ends are
                perm = list(range(n))
                rng.shuffle(perm)
                ends_ = [sg[j][0] for j in perm]
                for j in range(n):
                    sg[j][0] = ends_[j]
                cls = "piecewise/unordered_ends"
            out.append(dict(op="pw_derivative", ty=ty, segs=sg, meta={"class": cls}))
        for nbig in ((1 << 20) - 1, 1 << 20, (1 << 20) + 5) if tier == "quick" else ((1 << 20) - 1, 1 << 20, (1 << 20) + 5, 3 << 19, (1 << 21) + 1):
            out.append(dict(op="pw_derivative_big", n=nbig, meta={"class": "piecewise/big"}))
        # strictly increasing breakpoints that differ by less than 2.2e-16 (neighbouring doubles below 1, tables in units of 1e-17)
        for _ in range(8 if tier == "quick" else 80):
            ty = rng.choice(["Poly1", "Poly2", "Poly3"])
            n = rng.randint(2, 8)
            if rng.random() < 0.5:
                b0 = C.bits(rng.choice([0.75, 0.5, 0.3, -0.9, 0.999]))
                es_b = [b0]
                for _i in range(n - 1):
                    es_b.append(C.next_up(es_b[-1]) if C.fl(es_b[-1]) >= 0 else C.next_down(es_b[-1]))
                    if rng.random() < 0.3:
                        es_b[-1] = C.next_up(es_b[-1]) if C.fl(es_b[-1]) >= 0 else C.next_down(es_b[-1])
                es_b = sorted(es_b, key=lambda b: C.fl(b))
            else:
                unit = rng.choice([1e-17, 3e-19, 2.0 ** -60])
                es_b = [C.bits(unit * (i + 1) * rng.choice([1.0, 1.0, 1.5])) for i in range(n)]
                es_b = sorted(set(es_b), key=lambda b: C.fl(b))
            sg = [[e] + G.piece(rng, ty, "int") for e in es_b]
            out.append(dict(op="pw_derivative", ty=ty, segs=sg, meta={"class": "piecewise/close_ends"}))
        for ty in ("Poly0", "Poly3", "Poly8"):
            out.append(dict(op="pw_derivative", ty=ty, segs=[], meta={"class": "piecewise/empty"}))
        for n in (63, 64, 65, 66, 100, 128, 129, 200):
            es, sg = G.segs(rng, "Poly3", n, "ints", "int")
            out.append(dict(op="pw_derivative", ty="Poly3", segs=sg, meta={"class": "piecewise/long"}))
        for pat in ([1.0, None, 3.0], [1.0, None], [None], [None, None, 2.0], [float("inf"), None]):
            sg = [[C.NAN_BITS if e is None else C.bits(e)] + G.piece(rng, "Poly2", "int") for e in pat]
            out.append(dict(op="pw_derivative", ty="Poly2", segs=sg, meta={"class": "piecewise/nan_ends"}))
        return out

    def coq_term(self, case, h):
        if case["op"] == "k":
            return K.kernel_term(case, h)
        if case["op"] == "pw_derivative_big":
            return None
        return "run_pw_map [] [] %s %s []" % (C.kname("Segment<%s>::derivative" % case["ty"]), C.zlistlist(case["segs"]))

    def check_piece(self, inp, got, what):
        exp = deriv_expected([C.fl(b) for b in inp])
        if len(got) != len(exp):
            return "%s: derivative has %d coefficients, expected %d" % (what, len(got), len(exp))
        for i, (g, e) in enumerate(zip(got, exp)):
            if C.canon(g) != C.canon(C.bits(e)):
                return "%s: coefficient %d is %r, the correctly rounded (i+1)*c_(i+1) is %r" % (what, i, C.fl(g), e)
        return None

    def oracle(self, case, h):
        if h["r"] == "PANIC":
            return "derivative panicked: %s" % h.get("msg")
        if case["op"] == "pw_derivative_big":
            if h["r"][0] != case["n"]:
                return "Piecewise::derivative of %d linear pieces has %d pieces" % (case["n"], h["r"][0])
            if h["r"][1] != 0xFFFFFFFFFFFFFFFF:
                return "Piecewise::derivative of %d linear pieces (end i, i + 2i x): piece %d is not (end %d, 2*%d)" % (case["n"], h["r"][1], h["r"][1], h["r"][1])
            return None
        if case["op"] == "k":
            ty, _ = K.split_kernel(case["name"])
            if ty.startswith("Segment<"):
                if C.canon(h["r"][0]) != C.canon(case["args"][0]):
                    return "Segment::derivative changed the breakpoint"
                return self.check_piece(case["args"][1:], h["r"][1:], ty)
            return self.check_piece(case["args"], h["r"], ty)
        segs = case["segs"]
        r = h["r"]
        if r[0] != len(segs):
            return "Piecewise::derivative changed the number of pieces: %d -> %d" % (len(segs), r[0])
        n_in = G.arity(case["ty"])
        n_out = max(n_in - 1, 1)
        for i, sg in enumerate(segs):
            got = r[1 + i * (n_out + 1): 1 + (i + 1) * (n_out + 1)]
            if C.canon(got[0]) != C.canon(sg[0]):
                return "piece %d: breakpoint changed" % i
            o = self.check_piece(sg[1:], got[1:], "piece %d" % i)
            if o:
                return o
        return None

    def nontrivial_key(self, case, h):
        if case["op"] == "pw_derivative_big":
            return None
        if case["op"] == "k" and len(case["args"]) < 3:
            return None
        return super().nontrivial_key(case, h)


PROP = P()
