from vlib import common as C, gens as G
from vlib.driver import Prop
from props import kernels as K

INF = float("inf")
EPS = 2.220446049250313e-16


def abs_diff(a, b, eps):
    return abs(a - b) <= eps


def rel_eq(a, b, eps, mr):
    if a == b:
        return True
    if abs(a) == INF or abs(b) == INF:
        return False
    d = abs(a - b)
    if d <= eps:
        return True
    aa, ab = abs(a), abs(b)
    largest = ab if ab > aa else aa
    return d <= largest * mr


TYPES = G.ALL_TYPES + ["Segment<%s>" % t for t in G.ALL_TYPES]


def tolerances(rng):
    eps = rng.choice([0.0, EPS, 1e-3, 1e300, 1e-9, 0.5])
    rel = rng.choice([EPS, 1e-3, 0.9, 0.0, 1e-9])
    return eps, rel


def perturb_many(rng, a, eps, rel):
    """copy of a with SEVERAL positions moved, each well inside the absolute tolerance (their sum is not)"""
    b = list(a)
    idx = rng.sample(range(len(b)), min(len(b), rng.randint(2, 4)))
    for i in idx:
        b[i] = b[i] + eps * rng.choice([0.6, 0.75, -0.7, 0.9])
    return "many_in_abs", idx[0], b


def perturb(rng, a, eps, rel):
    """copy of a with one position moved just inside / outside a tolerance"""
    b = list(a)
    i = rng.randrange(len(b))
    x = b[i]
    kind = rng.choice(["equal", "in_abs", "out_abs", "in_rel", "out_rel", "ulp", "sign_zero", "big"])
    if kind == "in_abs":
        b[i] = x + eps * 0.5
    elif kind == "out_abs":
        b[i] = x + eps * 2.0 + 1e-300
    elif kind == "in_rel":
        b[i] = x * (1 + rel * 0.5)
    elif kind == "out_rel":
        b[i] = x * (1 + rel * 2.0) + (1.0 if x == 0 else 0.0)
    elif kind == "ulp":
        b[i] = C.fl(C.next_up(C.bits(x)))
    elif kind == "sign_zero":
        b[i] = -x if x == 0 else x
    elif kind == "big":
        b[i] = x + 0.5
    return kind, i, b


class P(Prop):
    ID = "C17"
    MODULE = "C17"
    THEOREMS = ["C17_number_by_number", "C17_length_mismatch", "C17_slice_pointwise", "C17_falsified_by_one", "C17_abs_reflexive",
                "C17_abs_of_equal", "C17_rel_of_eq", "C17_rel_reflexive", "C17_abs_symmetric", "C17_rel_symmetric", "C17_nan_never", "C17_example",
                "C17_impl_pairs", "C17_impl_symmetric", "C17_impl_reflexive", "C17_impl_falsified_by_one", "C17_impl_of_eq", "C17_slice_symmetric", "C17_slice_reflexive", "C17_slice_falsified_by_one", "C17_impl_example"]
    KERNELS = ["%s::%s" % (t, m) for t in TYPES for m in ("abs_diff_eq", "relative_eq")]
    RULE = ("all 112 abs_diff_eq / relative_eq impls (every polynomial, Log, IntOfLog, IntOfLogPoly4 and Segment of each) regenerated and "
            "proved number-by-number in Coq for all inputs, with the whole-value corollaries for every impl (pairwise form, symmetric, reflexive on "
            "finite values, falsified by any one failing position, implied by ==; slice rule symmetric); kernels, Piecewise (equal / different / prefix lengths) and PolyN run "
            "bit-exactly against the crate with tolerances {0, default, 1e-9, 1e-3, 0.5, 0.9, 1e300} chosen independently for epsilon "
            "and max_relative, perturbing each single position just inside / outside each tolerance, infinities, NaN, signed zeros; every "
            "piecewise value is also compared with itself (the same object); several positions moved at once, each inside the tolerance; "
            "the default tolerances of every type. "
            "non-trivial = the two values differ in at least one number; distinct by input")
    TRUSTED = ["translator rs2coq (boolean fragment)", "transcription of approx 0.5.1's f64 AbsDiffEq / RelativeEq and slice rule"]
    ASSUMPTIONS = ["the external crate approx 0.5.1 behaves as transcribed (tied by correspondence)"]

    def cases(self, rng, tier):
        per = 3 if tier == "quick" else 40
        out = []
        for ty in TYPES:
            n = G.arity(ty)
            for _ in range(per):
                eps, rel = tolerances(rng)
                a = [rng.choice([rng.uniform(-3, 3), rng.small_int(-4, 4), 1000.0, 0.0, rng.f64_loguniform(-20, 20)]) for _ in range(n)]
                if rng.random() < 0.08:
                    a[rng.randrange(n)] = rng.choice([INF, -INF])
                kind, i, b = perturb(rng, a, eps, rel) if (n < 2 or rng.random() < 0.8) else perturb_many(rng, a, eps, rel)
                out.append(dict(op="approx", ty=ty, a=[C.bits(x) for x in a], b=[C.bits(x) for x in b], eps=C.bits(eps), rel=C.bits(rel),
                                meta={"class": "approx/" + kind}))
        # an infinite number in ONE lane (every lane of every type over a few runs): equal infinities are relatively equal, an infinity
        # is never relatively equal to anything else, and inf - inf is NaN for abs_diff_eq
        for ty in TYPES:
            n = G.arity(ty)
            for _ in range(2 if tier == "quick" else 12):
                eps, rel = tolerances(rng)
                a = [rng.choice([rng.uniform(-3, 3), 1.0, 0.0]) for _ in range(n)]
                i = rng.randrange(n)
                a[i] = rng.choice([INF, -INF])
                b = list(a)
                kind = rng.choice(["same_inf", "same_inf", "inf_vs_finite", "opposite_inf", "finite_vs_inf"])
                if kind == "inf_vs_finite":
                    b[i] = rng.choice([1.0, 1e300, -2.5])
                elif kind == "opposite_inf":
                    b[i] = -a[i]
                elif kind == "finite_vs_inf":
                    a[i], b[i] = rng.choice([1.0, 1e300]), a[i]
                out.append(dict(op="approx", ty=ty, a=[C.bits(x) for x in a], b=[C.bits(x) for x in b], eps=C.bits(eps), rel=C.bits(max(rel, 1e-3)),
                                meta={"class": "approx/infinite_lane/" + kind}))
        # several lanes, each acceptable for a DIFFERENT reason: a small number moved inside the absolute tolerance only, a large one
        # inside the relative tolerance only; and tolerances / differences whose squares leave the binary64 range
        for ty in TYPES:
            n = G.arity(ty)
            if n < 2:
                continue
            for _ in range(1 if tier == "quick" else 8):
                eps, rel = rng.choice([(1e-3, 1e-3), (EPS, EPS), (1e-9, 1e-3), (0.5, 1e-9)])
                i, j = rng.sample(range(n), 2)
                a = [rng.choice([1.0, -2.0, 0.5]) for _ in range(n)]
                a[i] = eps * rng.choice([0.1, 0.25])             # small: only the absolute test can accept a move of eps/2
                a[j] = rng.choice([1e6, -3e8, 1e12])             # large: only the relative test can accept a move of rel/2
                b = list(a)
                b[i] = a[i] + eps * 0.5
                b[j] = a[j] * (1 + rel * 0.5)
                out.append(dict(op="approx", ty=ty, a=[C.bits(x) for x in a], b=[C.bits(x) for x in b], eps=C.bits(eps), rel=C.bits(rel),
                                meta={"class": "approx/mixed_abs_rel"}))
            for _ in range(1 if tier == "quick" else 8):
                i = rng.randrange(n)
                a = [rng.choice([1.0, -2.0, 0.5]) for _ in range(n)]
                st = rng.choice(["tiny_distinct", "tiny_distinct", "huge_eps"])
                if st == "tiny_distinct":
                    eps = rng.choice([0.0, 1e-200, 5e-324])
                    a[i] = rng.choice([1e-170, 3e-310, 2e-200])
                    b = list(a)
                    b[i] = a[i] * rng.choice([3.0, -1.0, 0.25])
                else:
                    eps = rng.choice([1e300, 2e154, 1.5e200])
                    a[i] = 0.0
                    b = list(a)
                    b[i] = rng.choice([1.5, 4.0]) * eps if eps < 1e300 else 1.7e308
                out.append(dict(op="approx", ty=ty, a=[C.bits(x) for x in a], b=[C.bits(x) for x in b], eps=C.bits(eps), rel=C.bits(0.0),
                                meta={"class": "approx/" + st}))
        for _ in range(40 if tier == "quick" else 600):
            ty = rng.choice(G.ALL_TYPES)
            n = G.arity(ty)
            eps, rel = tolerances(rng)
            la = rng.randint(0, 6)
            sa = [[rng.uniform(-3, 3) for _ in range(n + 1)] for _ in range(la)]
            if la and rng.random() < 0.25:
                # open-ended last piece / a non-finite number somewhere: inf - inf is NaN, so such a value is not even
                # abs_diff_eq to itself
                if rng.random() < 0.6:
                    sa[-1][0] = INF
                else:
                    sa[rng.randrange(la)][rng.randrange(n + 1)] = rng.choice([INF, -INF, float("nan")])
            shape = rng.choice(["same", "same", "prefix", "longer", "perturbed"])
            sb = [list(s) for s in sa]
            if shape == "prefix" and la > 0:
                sb = sb[:rng.randint(0, la - 1)]
            elif shape == "longer":
                sb = sb + [[rng.uniform(-3, 3) for _ in range(n + 1)]]
            elif shape == "perturbed" and la > 0:
                j = rng.randrange(la)
                kind, i, sb[j] = perturb(rng, sb[j], eps, rel)
            out.append(dict(op="approx_pw", ty=ty, a=[[C.bits(x) for x in s] for s in sa], b=[[C.bits(x) for x in s] for s in sb],
                            eps=C.bits(eps), rel=C.bits(rel), meta={"class": "piecewise/" + shape}))
        for _ in range(15 if tier == "quick" else 200):
            eps, rel = tolerances(rng)
            la = rng.randint(0, 6)
            a = [rng.uniform(-3, 3) for _ in range(la)]
            b = list(a)
            shape = rng.choice(["same", "shorter", "longer", "perturbed"])
            if shape == "shorter" and la:
                b = b[:-1]
            elif shape == "longer":
                b = b + [1.0]
            elif shape == "perturbed" and la:
                kind, i, b = perturb(rng, b, eps, rel) if (la < 2 or rng.random() < 0.5) else perturb_many(rng, b, eps, rel)
            out.append(dict(op="approx_polyn", a=[C.bits(x) for x in a], b=[C.bits(x) for x in b], eps=C.bits(eps), rel=C.bits(rel),
                            meta={"class": "polyn/" + shape}))
        # the DEFAULT tolerances of every comparable type (value types, segments, piecewise of each, PolyN)
        for ty in TYPES + ["Piecewise<%s>" % t for t in G.ALL_TYPES] + ["PolyN"]:
            out.append(dict(op="approx_defaults", ty=ty, meta={"class": "defaults"}))
        return out

    def coq_term(self, case, h):
        op = case["op"]
        if op == "approx":
            ka = C.kname("%s::abs_diff_eq" % case["ty"])
            kr = C.kname("%s::relative_eq" % case["ty"])
            a, b = case["a"], case["b"]
            return "(run_bkernel %s %s ++ run_bkernel %s %s ++ run_bkernel %s %s)" % (
                ka, C.zlist(a + b + [case["eps"]]), kr, C.zlist(a + b + [case["eps"], case["rel"]]), ka, C.zlist(a + a + [case["eps"]]))
        if op == "approx_pw":
            ka = C.kname("Segment<%s>::abs_diff_eq" % case["ty"])
            kr = C.kname("Segment<%s>::relative_eq" % case["ty"])
            return "run_approx_pw %s %s %s %s %d %d" % (ka, kr, C.zlistlist(case["a"]), C.zlistlist(case["b"]), case["eps"], case["rel"])
        if op == "approx_polyn":
            return "run_approx_polyn %s %s %d %d" % (C.zlist(case["a"]), C.zlist(case["b"]), case["eps"], case["rel"])
        return None

    def oracle(self, case, h):
        if h["r"] == "PANIC":
            return "approx comparison panicked: %s" % h.get("msg")
        op = case["op"]
        if op == "approx_defaults":
            if any(C.fl(b) != EPS for b in h["r"]):
                return "default tolerances of %s are not those of its numbers (f64::EPSILON): %r" % (case.get("ty"), [C.fl(b) for b in h["r"]])
            return None
        eps, rel = C.fl(case["eps"]), C.fl(case["rel"])
        if op == "approx":
            a = [C.fl(x) for x in case["a"]]
            b = [C.fl(x) for x in case["b"]]
            ea = all(abs_diff(x, y, eps) for x, y in zip(a, b))
            er = all(rel_eq(x, y, eps, rel) for x, y in zip(a, b))
            if bool(h["r"][0]) != ea:
                return "%s::abs_diff_eq = %s but the number-by-number relation is %s (eps=%r)" % (case["ty"], bool(h["r"][0]), ea, eps)
            if bool(h["r"][1]) != er:
                return "%s::relative_eq = %s but the number-by-number relation is %s (eps=%r, max_relative=%r)" % (case["ty"], bool(h["r"][1]), er, eps, rel)
            return None
        if op == "approx_pw":
            fa = [[C.fl(x) for x in s] for s in case["a"]]
            fb = [[C.fl(x) for x in s] for s in case["b"]]
            same = len(fa) == len(fb)
            ea = same and all(abs_diff(x, y, eps) for s, t in zip(fa, fb) for x, y in zip(s, t))
            er = same and all(rel_eq(x, y, eps, rel) for s, t in zip(fa, fb) for x, y in zip(s, t))
        else:
            fa = [C.fl(x) for x in case["a"]]
            fb = [C.fl(x) for x in case["b"]]
            same = len(fa) == len(fb)
            ea = same and all(abs_diff(x, y, eps) for x, y in zip(fa, fb))
            er = same and all(rel_eq(x, y, eps, rel) for x, y in zip(fa, fb))
        if op == "approx_pw" and len(h["r"]) >= 5:
            sa_ = all(abs_diff(x, x, eps) for s in fa for x in s)
            sr_ = all(rel_eq(x, x, eps, rel) for s in fa for x in s)
            if bool(h["r"][3]) != sa_:
                return "Piecewise abs_diff_eq of a value with ITSELF = %s but number-by-number it is %s (eps=%r)" % (bool(h["r"][3]), sa_, eps)
            if bool(h["r"][4]) != sr_:
                return "Piecewise relative_eq of a value with ITSELF = %s but number-by-number it is %s" % (bool(h["r"][4]), sr_)
        if bool(h["r"][0]) != ea:
            return "%s abs_diff_eq = %s but number-by-number (with equal lengths) is %s" % (op, bool(h["r"][0]), ea)
        if bool(h["r"][1]) != er:
            return "%s relative_eq = %s but number-by-number (with equal lengths) is %s (lengths %d vs %d)" % (op, bool(h["r"][1]), er, len(fa), len(fb))
        return None

    def nontrivial_key(self, case, h):
        if case["op"] == "approx_defaults" or case.get("a") == case.get("b"):
            return None
        return super().nontrivial_key(case, h)


PROP = P()
