from fractions import Fraction
from vlib import common as C, gens as G, hp
from vlib.driver import Prop
from props import kernels as K
from props.c01 import fr, finite

U = 2.0 ** -53


def logq(ps):
    """q_n = p_n, q_i = p_i - (i+1) q_(i+1)   (exact rationals)"""
    q = [Fraction(0)] * len(ps)
    nxt = Fraction(0)
    for i in range(len(ps) - 1, -1, -1):
        q[i] = ps[i] - (i + 1) * nxt
        nxt = q[i]
    return q


def quartic_mag(form, t):
    """C10's magnitude sum of the quartic representation (k, c1..c4, u) at t: |k| + sum |t c_j x^j| + |u t x^5 R(x)|, x = -ln t"""
    from props.c10 import exact_and_mag
    return exact_and_mag(form, t)[1]


def antideriv_mp(ps, t):
    """(t*q(ln t), magnitude sum) in high precision"""
    mp = hp.mpmath
    q = logq(ps)
    l = mp.log(hp.mpf(t))
    s = mp.mpf(0)
    m = mp.mpf(0)
    for i, qi in enumerate(q):
        term = hp.mpf(qi) * l ** i
        s += term
        m += abs(term)
    return hp.mpf(t) * s, abs(hp.mpf(t)) * m


class P(Prop):
    ID = "C09"
    MODULE = "C09"
    THEOREMS = ([("C09_Log%d_%s" % (k, w)) for k in range(9) if k != 4 for w in ("indefinite", "integral", "knot", "deriv", "area")] +
                ["C09_IntOfLog%d_evaluate" % k for k in range(9) if k != 4] + ["C09_Log4_indefinite", "C09_Log4_integral_shape", "C09_Log4_knot", "C09_Log4_evaluate_closed", "C09_Log4_evaluate_series", "C09_Log4_deriv"] +
                ["C09_IntOfLog%d_float" % k for k in range(9) if k != 4] + ["C09_Log%d_integral_float" % k for k in range(9) if k != 4] +
                ["C09_float_hypotheses_hold", "C09_Log4_knot_float_series", "C09_Log4_knot_float_closed", "C09_Log4_knot_hypotheses_hold"])
    PINNED_EXTRA = ["C09F.v"]
    KERNELS = (["Log<Poly%d>::indefinite" % k for k in range(9)] + ["Log<Poly%d>::integral" % k for k in range(9)] +
               ["IntOfLog<Poly%d>::evaluate" % k for k in range(9)] + ["IntOfLogPoly4::evaluate"])
    RULE = ("Log<PolyK>::integral(knot) followed by evaluation at points a,b > 0 (all nine degrees; K=4 through IntOfLogPoly4), "
            "run bit-exactly model vs crate (libm values shared through tables) and compared with the exact antiderivative "
            "t*q(ln t) (q from exact rationals, ln in 400-bit arithmetic): F(knot.x)=knot.y and F(b)-F(a)=integral within "
            "64(K+3)2^-53 times the magnitudes. Points deliberately away from 1: v in 2^+-40, tiny, huge. "
            "non-trivial = knot.x != 1 and a,b != 1; distinct by input")
    TRUSTED = ["translator rs2coq", "mpmath only produces candidate failing inputs (search oracle)"]
    ASSUMPTIONS = ["libm ln/exp: arbitrary oracles in the float model; real ln/exp in the R-level theorems"]

    def cases(self, rng, tier):
        per = 8 if tier == "quick" else 100
        out = []
        for k in range(9):
            for _ in range(per):
                cs = [rng.choice([rng.small_int(-5, 5), rng.uniform(-3, 3), rng.f64_loguniform(-10, 10)]) for _ in range(k + 1)]
                pos = lambda: rng.choice([rng.uniform(0.05, 10), rng.f64_loguniform(-40, 40, signed=False), 0.3, 2.0, 1e-12, 1e-20, 7.0, 1.0])
                knot = [pos(), rng.choice([0.0, 2.0, rng.uniform(-5, 5)])]
                ts = [pos(), pos(), knot[0]]
                c = dict(op="integral_eval", ty="Log<Poly%d>" % k, cs=[C.bits(x) for x in cs], knot=[C.bits(x) for x in knot],
                         ts=[C.bits(t) for t in ts], libm=True, meta={"class": "log_integral/%d" % k})
                out.append(c)
            if k == 4:
                # the quartic representation: arguments close to 1 (series window, tail term dominant for pure ln^4) and
                # extremely small ones (closed-form branch close to the overflow threshold of exp)
                for _ in range(per):
                    style = rng.choice(["near_one", "near_one", "tiny", "switch"])
                    if rng.random() < 0.5:
                        cs = [0.0, 0.0, 0.0, 0.0, rng.choice([1.0, -2.0, rng.uniform(-3, 3)])]
                    else:
                        cs = [rng.choice([0.0, rng.uniform(-3, 3), rng.small_int(-5, 5)]) for _ in range(5)]
                    if style == "near_one":
                        near = lambda: 1.0 + rng.choice([-1, 1]) * rng.choice([rng.uniform(1e-4, 1.2e-2), 2.0 ** -rng.randint(7, 40), rng.uniform(1e-3, 0.3)])
                        vnear = lambda: 1.0 + rng.choice([-1, 1]) * rng.choice([2.0 ** -rng.randint(20, 50), rng.uniform(1e-12, 9e-9), 6e-9])
                        knot = [rng.choice([1.0, near(), vnear(), vnear()]), rng.choice([0.0, 2.0, rng.uniform(-5, 5)])]
                        ts = [near(), near(), knot[0]]
                    elif style == "tiny":
                        tiny = lambda: rng.choice([1.0, rng.uniform(1, 9)]) * 10.0 ** -rng.randint(290, 306)
                        knot = [rng.choice([1.0, tiny()]), rng.choice([0.0, 5.0])]
                        ts = [tiny(), tiny(), knot[0]]
                    else:
                        import math
                        from props.c10 import threshold_args
                        thr = threshold_args()
                        sw = lambda: rng.choice(thr) if rng.random() < 0.7 else math.exp(-rng.choice([-1.71, 1.72]) + rng.uniform(-1e-3, 1e-3))
                        knot = [rng.choice([1.0, sw()]), rng.choice([0.0, 2.0])]
                        ts = [sw(), sw(), knot[0]]
                    out.append(dict(op="integral_eval", ty="Log<Poly4>", cs=[C.bits(x) for x in cs], knot=[C.bits(x) for x in knot],
                                    ts=[C.bits(t) for t in ts], libm=True, meta={"class": "log_integral/4/" + style}))
            # the zero integrand (zeros of either sign) through a knot with a non-zero ordinate: F is the constant knot.y
            for _ in range(max(1, per // 4)):
                cs = [rng.choice([0.0, 0.0, -0.0]) for _ in range(k + 1)]
                knot = [rng.choice([2.0, 0.5, 7.0, 1.0]), rng.choice([7.0, -2.5, 1.0])]
                ts = [rng.uniform(0.05, 10), rng.uniform(0.05, 10), knot[0]]
                out.append(dict(op="integral_eval", ty="Log<Poly%d>" % k, cs=[C.bits(x) for x in cs], knot=[C.bits(x) for x in knot],
                                ts=[C.bits(t) for t in ts], libm=True, meta={"class": "log_integral/zero_integrand"}))
            # arguments (and anchors) with |ln| far beyond 64: 1e+-20 .. 1e+-100
            if k != 4:
                for _ in range(max(2, per // 3)):
                    cs = [rng.choice([rng.small_int(-5, 5), rng.uniform(-3, 3)]) for _ in range(k + 1)]
                    far = lambda: 10.0 ** (rng.choice([1, -1]) * rng.uniform(20, 100))
                    knot = [rng.choice([1.0, 10.0, far()]), rng.choice([0.0, 2.0])]
                    ts = [far(), far(), rng.choice([10.0, knot[0]])]
                    if rng.random() < 0.5:
                        sg = rng.choice([1, -1])
                        ts = [10.0 ** (sg * rng.uniform(30, 100)), 10.0 ** (sg * rng.uniform(30, 100)), knot[0]]
                    out.append(dict(op="integral_eval", ty="Log<Poly%d>" % k, cs=[C.bits(x) for x in cs], knot=[C.bits(x) for x in knot],
                                    ts=[C.bits(t) for t in ts], libm=True, meta={"class": "log_integral/far_arguments"}))
            for _ in range(max(1, per // 4)):
                cs = [rng.uniform(-3, 3) for _ in range(k + 1)]
                out.append(dict(op="integral_eval", ty="Log<Poly%d>" % k, cs=[C.bits(x) for x in cs], knot=None,
                                ts=[C.bits(rng.uniform(0.1, 9)) for _ in range(2)], libm=True, meta={"class": "log_indefinite/%d" % k}))
        return out

    def hyp_term(self, case, h):
        # hypotheses of C09_LogK_integral_float: `safe` for every number of the returned form at the computed ln(knot.x)
        k = int(case["ty"][8])
        if not case.get("knot"):
            return None
        lt = dict((a, b) for a, b in h.get("ln", []))
        lb = lt.get(case["knot"][0])
        if lb is None:
            return None
        if k == 4:
            # C09_Log4_knot_float_series / _closed: the branch the implementation's own window test selects at x^ = -(ln_f knot.x)
            args = list(case["cs"]) + list(case["knot"])
            xh = lb ^ C.SIGN
            x = C.fl(xh)
            if x != x:
                return None
            if -1.71 < x < 1.72:
                return "hyp_safe [e_i4knot_series] %s" % C.zlist(args + [xh])
            if x == 0 or abs(x) == float("inf"):
                return None
            rh = 1.0 / x
            if rh == 0:
                return None
            et = dict((a, b) for a, b in h.get("exp", []))
            eb = et.get(C.bits(1.0 / rh))
            if eb is None:
                return None
            return "hyp_safe [e_i4knot_closed] %s" % C.zlist(args + [xh, C.bits(rh), eb])
        return "hyp_safe outs_LogInt%d %s" % (k, C.zlist(list(case["cs"]) + list(case["knot"]) + [lb]))

    def coq_term(self, case, h):
        k = int(case["ty"][8])
        kint = "Log<Poly%d>::%s" % (k, "integral" if case["knot"] else "indefinite")
        kev = "IntOfLogPoly4::evaluate" if k == 4 else "IntOfLog<Poly%d>::evaluate" % k
        return "run_integral_eval %s %s %s %s %s %s %s" % (
            C.ztable(h.get("ln", [])), C.ztable(h.get("exp", [])), C.kname(kint), C.kname(kev),
            C.zlist(case["cs"]), C.zlist(case["knot"] or []), C.zlist(case["ts"]))

    def oracle(self, case, h):
        if h["r"] == "PANIC":
            return "log integration panicked: %s" % h.get("msg")
        if not hp.available():
            return None
        mp = hp.mpmath
        k = int(case["ty"][8])
        nts = len(case["ts"])
        vals = h["r"][-nts:]
        if not all(finite(b) for b in h["r"]):
            # D3 class and overflow are C10's business; here only ordinary magnitudes are generated
            if any(C.fl(t) < 1e-300 for t in case["ts"]) or (case["knot"] and C.fl(case["knot"][0]) < 1e-300):
                return None
        old = mp.mp.prec
        mp.mp.prec = 400
        try:
            ps = [fr(b) for b in case["cs"]]
            ts = [C.fl(b) for b in case["ts"]]
            G_ = [antideriv_mp(ps, t) for t in ts]
            F_ = [hp.mpf(C.fl(v)) for v in vals]
            tolc = 64 * (k + 3) * U
            if case["knot"]:
                kx, ky = C.fl(case["knot"][0]), C.fl(case["knot"][1])
                gk, mk = antideriv_mp(ps, kx)
                # F(t) must be ky + G(t) - G(kx)
                form = [C.fl(b) for b in h["r"][:-nts]]
                for t, f_, (g, m) in zip(ts, F_, G_):
                    exact = hp.mpf(ky) + g - gk
                    tol = tolc * (abs(ky) + m + mk) + mp.mpf(2) ** -1060
                    if k == 4:
                        # the quartic degree has its own representation: its rounding bound is relative to the magnitudes
                        # of ITS terms (property C10: 1e-12 times their sum), which can dwarf t*|q_i||ln t|^i
                        tol = mp.mpf("1e-12") * (quartic_mag(form, t) + quartic_mag(form, kx) + abs(ky)) + mp.mpf(2) ** -1060
                    if not mp.isfinite(f_) or abs(f_ - exact) > tol:
                        what = "F(knot.x) != knot.y" if t == kx else "F(t) - F(knot.x) is not the integral of p(ln t)"
                        return "Log<Poly%d>.integral(Knot{%r,%r}) at t=%r: %s: got %s, exact %s (tolerance %s)" % (
                            k, kx, ky, t, what, mp.nstr(f_, 17), mp.nstr(exact, 17), mp.nstr(tol, 3))
            else:
                form = [C.fl(b) for b in h["r"][:-nts]]
                for i in range(len(ts)):
                    for j in range(i + 1, len(ts)):
                        exact = G_[j][0] - G_[i][0]
                        tol = tolc * (G_[i][1] + G_[j][1]) + mp.mpf(2) ** -1060
                        if k == 4:
                            tol = mp.mpf("1e-12") * (quartic_mag(form, ts[i]) + quartic_mag(form, ts[j])) + mp.mpf(2) ** -1060
                        if abs((F_[j] - F_[i]) - exact) > tol:
                            return "Log<Poly%d>.indefinite(): F(%r)-F(%r) = %s, exact integral %s" % (
                                k, ts[j], ts[i], mp.nstr(F_[j] - F_[i], 17), mp.nstr(exact, 17))
        finally:
            mp.mp.prec = old
        return None

    def nontrivial_key(self, case, h):
        if case["knot"] and C.fl(case["knot"][0]) == 1.0:
            return None
        if all(C.fl(t) == 1.0 for t in case["ts"]):
            return None
        return super().nontrivial_key(case, h)


PROP = P()
