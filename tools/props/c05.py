from fractions import Fraction
import math
from vlib import common as C
from props import c04
from props.c04 import pv, dpv


class P(c04.P):
    ID = "C05"
    MODULE = "C05"
    THEOREMS = ["C05_derivative_form", "C05_derivative_sign_up", "C05_no_overshoot_up", "C05_negation", "C05_no_overshoot_down",
                "C05_harmonic_in_region", "C05_end_slope_in_region", "C05_harmonic_equal", "C05_collinear_segment",
                "C05_no_overshoot_float", "C05_float_hypotheses_hold"]
    RULE = ("same streams as C04; oracle decides, for the RETURNED cubic and every real x of each knot interval (analytically from "
            "the derivative's roots and vertex, no x-sampling): monotone, within the knot ordinates, zero slope at extrema / "
            "plateau edges, straight line on collinear data, and agreement with the exact rational Kruger spline at knots, "
            "midpoints and quarter points, all within the construction's rounding bound")

    def extra_checks(self, i, p, pex, x0, y0, x1, y1, si, E, Ed):
        # agreement with the exact Kruger spline
        for t in (Fraction(1, 4), Fraction(1, 2), Fraction(3, 4)):
            x = x0 + t * (x1 - x0)
            if abs(pv(p, x) - pv(pex, x)) > 2 * E:
                return "cubic %d differs from the exact Kruger spline at x=%r: %r vs %r (tolerance %.3e)" % (
                    i, float(x), float(pv(p, x)), float(pv(pex, x)), float(2 * E))
        # sign of the derivative on the whole interval: minimum of sgn*p' over [x0,x1] is at an endpoint or at the vertex
        sgn = 1 if si >= 0 else -1
        cands = [x0, x1]
        if p[3] != 0:
            v = -p[2] / (3 * p[3])
            if x0 < v < x1:
                cands.append(v)
        worst = min(sgn * dpv(p, x) for x in cands)
        if worst < -2 * Ed:
            return "cubic %d is not monotone on its interval: derivative reaches %r against the data direction (tolerance %.3e)" % (i, float(sgn * worst), float(2 * Ed))
        # overshoot: extrema of p on the interval are at the ends or at roots of p' (approximated; values are exact)
        lo, hi = min(y0, y1), max(y0, y1)
        a, b, c = 3 * p[3], 2 * p[2], p[1]
        roots = []
        if a != 0:
            disc = b * b - 4 * a * c
            if disc >= 0:
                # sqrt(n/d) = isqrt(n*d*4^120) / (d*2^120): approximate stationary points (values at them are exact)
                sq = Fraction(math.isqrt((disc.numerator * disc.denominator) << 240), disc.denominator << 120)
                roots = [(-b + sq) / (2 * a), (-b - sq) / (2 * a)]
        elif b != 0:
            roots = [-c / b]
        for x in [x0, x1] + [r for r in roots if x0 < r < x1]:
            val = pv(p, x)
            if val > hi + 2 * E or val < lo - 2 * E:
                return "cubic %d overshoots the knot ordinates [%r, %r] at x=%r: %r (tolerance %.3e)" % (i, float(lo), float(hi), float(x), float(val), float(2 * E))
        return None


PROP = P()
