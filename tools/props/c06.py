from fractions import Fraction
from vlib import common as C, gens as G
from vlib.driver import Prop
from props import kernels as K
from props.c01 import fr, finite

U = Fraction(1, 2 ** 53)
EPS = 2.0 ** -52


def knots(rng, n):
    style = rng.choice(["inc", "inc", "repeat", "unordered", "eps", "eps", "offset", "mixed"])
    xs = []
    x = rng.choice([0.0, rng.uniform(-3, 3), 1.0])
    for i in range(n):
        if style == "inc":
            x += rng.uniform(0.1, 2.0)
        elif style == "repeat":
            x += rng.choice([0.0, 0.0, 1.0, 0.5])
        elif style == "unordered":
            x = rng.uniform(-5, 5)
        elif style == "eps":
            x += rng.choice([EPS / 2, EPS * (1 - 2.0 ** -53), EPS, EPS * (1 + 2.0 ** -52), 2 * EPS, EPS / 4, 2.5 * EPS, 0.0, 1.0])
        elif style == "offset":
            if i == 0:
                x = rng.choice([2.0 ** 30, -2.0 ** 20, 1e6])
            x += rng.choice([1.0, 0.25, 2.0 ** -10, 7.0])
        else:
            x = rng.choice([x + rng.uniform(0, 1), x - rng.uniform(0, 1), x, x + EPS, x + EPS / 2, 0.0, -0.0])
        xs.append(x)
    ysc = rng.choice([1.0, 1.0, 1.0, 1e-17, 1e-20, 2.0 ** -60, 1e-300])     # also ordinates far below machine epsilon
    ks = [[C.bits(x), C.bits(ysc * rng.choice([rng.small_int(-5, 5), rng.uniform(-4, 4), rng.f64_loguniform(-10, 10)]))] for x in xs]
    if ysc != 1.0:
        style += "+tiny_y"
    if rng.random() < 0.2:
        # a knot repeated verbatim (same x and same y), at the start, the end or inside; sometimes all knots identical
        j = rng.choice([0, len(ks) - 1, rng.randrange(len(ks))])
        ks.insert(j, list(ks[j]))
        style += "+verbatim"
        if rng.random() < 0.15:
            ks = [list(ks[0]) for _ in ks]
    return style, ks


class P(Prop):
    ID = "C06"
    MODULE = "C06"
    THEOREMS = ["C06_incr_shape", "C06_ends", "C06_sorted", "C06_dominates", "C06_rejects", "C06_segment_end", "C06_segment_left",
                "C06_segment_right", "C06_segment_narrow", "C06_interpolant", "C06_segment_float", "C06_segment_float_any", "C06_segment_right_float", "C06_float_hypotheses_hold", "C06_example"]
    KERNELS = ["linear::incr_linear", "linear::segment"]
    RULE = ("linear() on 2..12 finite knots: increasing, repeated, out-of-order abscissae, gaps in {eps/4, eps/2, eps(1-2^-53), eps, "
            "eps(1+2^-52), 2eps, 2.5eps} (incl. at offset 1.0), large offsets, knots repeated verbatim (x and y); bit-exact model vs crate (sign of a zero produced by "
            "f64::max of two zeros ignored); exact-rational oracle: count, ends = running maximum, every segment through its "
            "forced left knot, through the right knot when >= eps wide, constant otherwise. non-trivial = >= 3 knots and not "
            "strictly increasing with big gaps; distinct by input"
            " Also: prefix pairs of tables in consecutive calls; linear_eval: the interpolant evaluated by the crate at and between knots, ordinates up to 8e307 of opposite signs.")
    TRUSTED = ["translator rs2coq", "skeleton PwModel.linear (fold carrying prev_knot) tied by correspondence",
               "f64::max modelled as: NaN-aware, returns the first operand on ties"]
    ASSUMPTIONS = ["IEEE-754 arithmetic"]

    def cases(self, rng, tier):
        n = 150 if tier == "quick" else 2000
        out = []
        for _ in range(n):
            k = rng.randint(2, 12)
            style, ks = knots(rng, k)
            out.append(dict(op="linear", knots=ks, meta={"class": "linear/" + style}))
        for k in (13, 16, 17, 18, 31, 32, 33, 64, 65, 66, 100, 129):      # sizes around every plausible buffer / block cut-over
            style, ks = knots(rng, k)
            out.append(dict(op="linear", knots=ks, meta={"class": "linear/count"}))
        for _ in range(6 if tier == "quick" else 60):
            x0 = rng.choice([0.0, 1.0, -3.0])
            gap = rng.choice([1e10, 2.0 ** 40, 1e15])
            dy = rng.choice([1e-300, 2.0 ** -1000, 3e-305])
            ks = [[C.bits(x0), C.bits(0.0)], [C.bits(x0 + gap), C.bits(dy)], [C.bits(x0 + 3 * gap), C.bits(-dy)]]
            out.append(dict(op="linear", knots=ks, meta={"class": "linear/subnormal_slope"}))
        # the same table again with knots appended / dropped, one call right after the other (no state may survive a call)
        for _ in range(5 if tier == "quick" else 50):
            style, ks = knots(rng, rng.randint(4, 9))
            out.append(dict(op="linear", knots=ks, meta={"class": "linear/prefix_pair"}))
            out.append(dict(op="linear", knots=ks[:rng.randint(2, len(ks) - 1)], meta={"class": "linear/prefix_pair"}))
            out.append(dict(op="linear", knots=ks + [[C.bits(C.fl(ks[-1][0]) + 1.0), C.bits(2.0)]], meta={"class": "linear/prefix_pair"}))
        # ordinates near the top of the binary64 range of opposite signs, small abscissae: slope * x exceeds the range although every
        # value of the interpolant between the knots is an ordinary finite number (evaluated through the crate, at and between knots)
        for _ in range(6 if tier == "quick" else 60):
            x0 = rng.choice([1.0, 0.5, 0.75])
            x1 = x0 + rng.choice([2.0, 3.0])
            a, b = rng.uniform(3e307, 8e307), rng.uniform(3e307, 8e307)
            sgn = rng.choice([1.0, -1.0])
            ks = [[C.bits(x0), C.bits(-sgn * a)], [C.bits(x1), C.bits(sgn * b)]]
            xs = [x0, x1, 0.5 * (x0 + x1), x0 + 0.25 * (x1 - x0), x1 - 0.125 * (x1 - x0)]
            out.append(dict(op="linear_eval", knots=ks, xs=[C.bits(x) for x in xs], meta={"class": "linear_eval/huge_ordinates"}))
        for _ in range(6 if tier == "quick" else 60):
            style, ks = knots(rng, rng.randint(2, 6))
            if style.split("+")[0] != "inc":
                continue
            xsf = [C.fl(k_[0]) for k_ in ks]
            xs = list(xsf) + [0.5 * (p_ + q_) for p_, q_ in zip(xsf, xsf[1:])]
            out.append(dict(op="linear_eval", knots=ks, xs=[C.bits(x) for x in xs], meta={"class": "linear_eval/ordinary"}))
        for nk in (0, 1):
            style, ks = knots(rng, max(nk, 1))
            out.append(dict(op="linear", knots=ks[:nk], meta={"class": "linear/rejected"}))
        for _ in range(20 if tier == "quick" else 300):
            style, ks = knots(rng, 2)
            out.append(K.kernel_case("linear::segment", [C.fl(ks[0][0]), C.fl(ks[0][1]), C.fl(ks[1][0]), C.fl(ks[1][1])], cls="kernel/segment"))
            out.append(K.kernel_case("linear::incr_linear", [C.fl(ks[0][0]), C.fl(ks[0][1]), C.fl(ks[1][0]), C.fl(ks[1][1])], cls="kernel/incr"))
        return out

    def hyp_term(self, case, h):
        if case["op"] == "k" and case["name"] == "linear::segment":
            return "hyp_safe_run_dev (tl %s) %s" % (C.kname(case["name"]), C.zlist(case["args"]))
        return None

    def coq_term(self, case, h):
        if case["op"] == "k":
            return K.kernel_term(case, h)
        if case["op"] == "linear_eval":
            return None
        return "run_linear [] [] %s %s" % (C.kname("linear::incr_linear"), C.zlistlist(case["knots"]))

    def compare(self, case, hres, mres):
        # the sign of max(+0,-0) is unspecified in std: compare zeros modulo sign
        z = lambda v: 0 if v == C.SIGN else v
        if isinstance(hres.get("r"), list) and mres is not None:
            hres = dict(hres, r=[z(v) for v in hres["r"]])
            mres = [z(v) for v in mres]
        return Prop.compare(self, case, hres, mres)

    def oracle(self, case, h):
        if case["op"] == "linear_eval":
            if h["r"] == "PANIC":
                return "linear / evaluation panicked on finite knots: %s" % h.get("msg")
            ks = [(fr(k_[0]), fr(k_[1])) for k_ in case["knots"]]
            if any(q_[0] - p_[0] < Fraction(1, 2 ** 40) for p_, q_ in zip(ks, ks[1:])):
                return None
            for xb, rb in zip(case["xs"], h["r"]):
                x = fr(xb)
                # a shared knot is evaluated with the piece to its RIGHT (the last knot with the last piece)
                pairs = list(zip(ks, ks[1:]))
                seg = next(((p_, q_) for p_, q_ in pairs if p_[0] <= x < q_[0]), None)
                if seg is None and x == ks[-1][0]:
                    seg = pairs[-1]
                if seg is None:
                    continue
                (x0, y0), (x1, y1) = seg
                exp = y0 + (y1 - y0) * (x - x0) / (x1 - x0)
                tol = 64 * U * (abs(y0) + abs(y1)) * (1 + (abs(x0) + abs(x1)) / (x1 - x0)) + Fraction(1, 2 ** 1000)
                if not finite(rb) or abs(fr(rb) - exp) > tol:
                    return "linear(knots).evaluate(%r) = %r; the straight line between the knots (%r, %r) and (%r, %r) is %r there" % (
                        float(x), C.fl(rb), float(x0), float(y0), float(x1), float(y1), float(exp))
            return None
        if case["op"] != "linear":
            return None
        ks = case["knots"]
        if len(ks) < 2:
            return None if h["r"] == "PANIC" else "linear accepted %d knots" % len(ks)
        if h["r"] == "PANIC":
            return "linear panicked on %d finite knots: %s" % (len(ks), h.get("msg"))
        r = h["r"]
        if r[0] != len(ks) - 1:
            return "linear returned %d segments for %d knots" % (r[0], len(ks))
        segs = [r[1 + 3 * i: 4 + 3 * i] for i in range(r[0])]
        m = C.fl(ks[0][0])
        prev_end = None
        left_x, left_y = Fraction(m), fr(ks[0][1])
        for i, sg in enumerate(segs):
            x1, y1 = C.fl(ks[i + 1][0]), fr(ks[i + 1][1])
            m = max(m, x1)
            e = C.fl(sg[0])
            if e != m:
                return "segment %d: end %r is not the running maximum %r of the abscissae" % (i, e, m)
            if prev_end is not None and e < prev_end:
                return "ends decrease at segment %d" % i
            prev_end = e
            if not (finite(sg[1]) and finite(sg[2])):
                left_x, left_y = Fraction(m), y1
                continue
            c0, c1 = fr(sg[1]), fr(sg[2])
            rx = Fraction(m)
            tol = 8 * U * (abs(left_y) + abs(y1) + abs(c1) * (abs(left_x) + abs(rx)) + abs(c0)) + Fraction(1, 2 ** 1060)
            if abs(c0 + c1 * left_x - left_y) > tol:
                return "segment %d does not pass through its left knot (%r, %r): value %r" % (i, float(left_x), float(left_y), float(c0 + c1 * left_x))
            width = C.fl(C.bits(float(rx) - float(left_x)))
            if width >= EPS:
                amp = (abs(left_x) + abs(rx)) / Fraction(width) + 1
                # + gradual underflow: each operation may be off by half a unit of the smallest subnormal (2^-1075) in absolute
                # terms - e.g. a subnormal slope - and that error is amplified by the abscissae it is multiplied with
                tol2 = 16 * U * amp * (abs(left_y) + abs(y1)) + tol + Fraction(8, 2 ** 1075) * (abs(left_x) + abs(rx) + 1)
                if abs(c0 + c1 * rx - y1) > tol2:
                    return "segment %d is %r wide (>= eps) but does not pass through its right knot (%r, %r): value %r" % (
                        i, width, float(rx), float(y1), float(c0 + c1 * rx))
            else:
                if c1 != 0 or c0 != left_y:
                    return "segment %d is narrower than eps but is not the constant %r: [%r, %r]" % (i, float(left_y), float(c0), float(c1))
            left_x, left_y = rx, y1
        return None

    def nontrivial_key(self, case, h):
        if case["op"] == "linear_eval":
            return None
        if case["op"] == "linear" and (len(case["knots"]) < 3 or case["meta"]["class"].endswith("/inc")):
            return None
        return super().nontrivial_key(case, h)


PROP = P()
