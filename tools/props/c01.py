from fractions import Fraction
from vlib import common as C, gens as G
from vlib.driver import Prop
from props import kernels as K

U = Fraction(1, 2 ** 53)
LO, HI = Fraction(1, 2 ** 960), Fraction(2 ** 960)


def fr(b):
    return Fraction(C.fl(b))


def finite(b):
    x = C.fl(b)
    return x == x and abs(x) != float("inf")


def poly_exact(cs, x):
    p = Fraction(0)
    a = Fraction(0)
    xa = abs(x)
    for c in reversed(cs):
        p = p * x + c
        a = a * xa + abs(c)
    return p, a


def in_domain(cs, x):
    """partial terms neither overflow nor underflow: every nonzero monomial c_i x^i within 2^+-960, and the repeated squares
    x^2, x^4, x^8 (as far as the degree needs them) - the powers any evaluation scheme over binary64 has to form"""
    xa = abs(x)
    pw = Fraction(1)
    for i, c in enumerate(cs):
        if i > 0:
            pw *= xa
            if i >= 2 and (i & (i - 1)) == 0 and pw != 0 and not (LO <= pw <= HI):      # x itself is given, not formed
                return False
        t = abs(c) * pw
        if t != 0 and not (LO <= t <= HI):
            return False
    return True


def window_case(rng, n):
    """|x| so large / small that odd powers like x^3, x^5 leave the binary64 range although every monomial c_i x^i, every
    coefficient and the repeated squares the scheme needs stay inside it"""
    import math
    deg = n - 1
    top = 1
    while top * 2 <= max(deg, 1):
        top *= 2                       # largest repeated square needed
    e = rng.randint(int(960 / (top + 0.99)) + 1, int(955 / top)) if deg >= 3 else rng.randint(100, 300)
    m = max(0, e * deg - 980) + rng.randint(0, 20)
    if m > 930:
        e = 930 // deg
        m = max(0, e * deg - 980)
    sgn = rng.choice([1, -1])
    x = rng.choice([1.0, -1.0]) * math.ldexp(rng.choice([1.0, 1.25]), sgn * e)
    cs = [rng.choice([1.0, -1.0, 3.0, 0.5, rng.uniform(-2, 2)]) * math.ldexp(1.0, sgn * (m - e * i)) for i in range(n)]
    return cs, x


def subnormal_coef_case(rng, k):
    """a SUBNORMAL coefficient c_i (i >= 1) with |x| so large that the monomial c_i x^i is an ordinary normal number (and every
    other monomial and every power the scheme forms stays in range): flushing small coefficients to zero loses that term"""
    import math
    i = k if (k == 1 or rng.random() < 0.7) else k - 1
    s_ = rng.randint(1023, 1070)
    lo_e = -(-(s_ - 250) // i)
    hi_e = 940 // k
    if lo_e > hi_e:
        i = k
        lo_e = -(-(s_ - 250) // i)
    e = rng.randint(lo_e, max(lo_e, hi_e))
    x = rng.choice([1.0, -1.0]) * math.ldexp(1.0, e)
    ci = rng.choice([1.0, -1.0, 3.0, -5.0]) * math.ldexp(1.0, -s_)
    t = e * i - s_                                   # log2 of the monomial
    cs = [0.0] * (k + 1)
    cs[i] = ci
    for j in range(k + 1):
        if j != i and rng.random() < 0.4 and -1000 < t - e * j < 1000:
            cs[j] = rng.choice([1.0, -1.0, 0.5]) * math.ldexp(1.0, t - e * j - rng.randint(0, 3))
    return cs, x


def extreme_product_case(rng, k):
    """one coefficient near the top (or bottom) of the binary64 range and |x| at the other end, so that the monomial c_i x^i is an
    ordinary number and every power of x the scheme forms stays in range: intermediate scalings of c_i or x alone must not overflow"""
    import math
    i = rng.randint(1, k)
    if 300 // i + 1 > 940 // k:
        i = k
    big = rng.random() < 0.5
    e = rng.randint(300 // i + 1, min(1020, 940 // max(1, k))) if k > 1 else rng.randint(960, 1020)
    ex = -e if big else e                       # exponent of |x|
    x = rng.choice([1.0, -1.0]) * math.ldexp(rng.choice([1.0, 1.5]), ex)
    cs = [0.0] * (k + 1)
    cs[i] = rng.choice([1.0, -1.0, 3.0]) * math.ldexp(1.0, -ex * i + rng.randint(-3, 3))
    if abs(-ex * i) > 1020:
        cs[i] = rng.choice([1.0, -1.0]) * math.ldexp(1.0, 1020 if -ex * i > 0 else -1020)
    cs[0] = rng.choice([1.0, -2.0, 0.0, 0.5])
    return cs, x


def coeffs(rng, n):
    style = rng.choice(["int", "int", "log", "log", "cancel", "small", "sparse", "no_const", "even", "odd"])
    if style in ("even", "odd"):
        # every other coefficient exactly zero (even / odd functions), the rest ordinary - leading one included
        par = 0 if style == "even" else 1
        return style, [(rng.choice([1.0, -2.0, 3.0, 4.0, rng.uniform(-3, 3)]) if i % 2 == par else rng.choice([0.0, 0.0, -0.0])) for i in range(n)]
    if style == "no_const":
        # no constant term: the value is of the size of c1*x, so anything that drops the higher terms for small |x| shows
        return style, [rng.choice([0.0, -0.0])] + [rng.choice([1.0, -2.0, rng.uniform(-3, 3), rng.small_int(-5, 5)]) for _ in range(n - 1)]
    if style == "int":
        return style, [rng.small_int(-9, 9) for _ in range(n)]
    if style == "log":
        return style, [rng.f64_loguniform(-40, 40) for _ in range(n)]
    if style == "small":
        return style, [rng.uniform(-2, 2) for _ in range(n)]
    if style == "sparse":
        cs = [0.0] * n
        for _ in range(rng.randint(1, max(1, n // 2))):
            cs[rng.randrange(n)] = rng.choice([1.0, -1.0, 3.0, rng.uniform(-5, 5)])
        return style, cs
    # cancelling: alternate signs, similar magnitudes so that p(x) is small near x = 1
    base = rng.uniform(0.5, 2)
    cs = [base * (1 + rng.uniform(-1e-3, 1e-3)) * (1 if i % 2 == 0 else -1) for i in range(n)]
    return style, cs


def argument(rng, style):
    r = rng.random()
    if style == "no_const" and r < 0.6:
        return rng.choice([2.0 ** -53, -2.0 ** -60, 1e-17, -3e-19, 2.0 ** -100, 2.0 ** -40, -2.0 ** -52, 1e-12, 0.5, -3.0])
    if style == "int" and r < 0.7:
        return rng.small_int(-4, 4)
    if r < 0.15:
        return rng.choice([0.0, -0.0, 1.0, -1.0, 0.5, -2.0, 1e-30, -1e30, 1e5])
    if r < 0.55:
        return rng.uniform(-3, 3)
    if style == "cancel":
        return 1.0 + rng.uniform(-1e-2, 1e-2)
    return rng.f64_loguniform(-12, 12)


class P(Prop):
    ID = "C01"
    MODULE = "C01"
    THEOREMS = (["C01_Poly%d_%s" % (k, w) for k in range(9) for w in ("value", "exact", "bound")] +
                ["C01_PolyN_empty", "C01_PolyN_exact", "C01_PolyN_bound"] +
                ["C01_Log%d_%s" % (k, w) for k in range(9) for w in ("value", "float")] +
                ["C01_Poly%d_hypotheses_hold" % k for k in range(9)] + ["C01_log_propagation", "C01_example"])
    KERNELS = (["Poly%d::evaluate" % k for k in range(9)] + ["Log<Poly%d>::evaluate" % k for k in range(9)] +
               ["IntOfLogPoly4::evaluate", "IntOfLog<Poly2>::evaluate"])
    RULE = ("Poly0..8, Log<Poly0..8> evaluate kernels (regenerated) and PolyN (lengths 0..12, thorough ..64) run bit-exactly "
            "model vs crate; coefficient styles: small integers (exactness), log-uniform magnitudes 2^+-40, cancelling "
            "(p(x)~0), sparse, small reals; arguments {+-0,+-1,tiny,huge,fractional,near 1}. The implementation result is also "
            "compared with the exact rational value against 4(n+2)2^-53 sum|c_i||x|^i. non-trivial = degree>=1 and x not in {0,1}")
    TRUSTED = ["translator rs2coq", "skeleton polyn_eval (rev + fold_left with fma) tied by correspondence"]
    ASSUMPTIONS = ["hardware/LLVM implement IEEE-754 binary64 + * fma with round-to-nearest-even",
                   "libm ln: its value enters the theorems as an arbitrary oracle ln_f; the 1-ulp accuracy of ln is an assumption about the platform, tested against mpmath when available"]

    def cases(self, rng, tier):
        per = 10 if tier == "quick" else 150
        out = []
        for k in range(9):
            for _ in range(per):
                style, cs = coeffs(rng, k + 1)
                x = argument(rng, style)
                out.append(K.kernel_case("Poly%d::evaluate" % k, cs + [x], cls="poly/" + style))
            if k >= 3:
                for _ in range(max(6, per // 2)):
                    cs, x = window_case(rng, k + 1)
                    out.append(K.kernel_case("Poly%d::evaluate" % k, cs + [x], cls="poly/window"))
            if k >= 1:
                for _ in range(max(3, per // 4)):
                    cs, x = extreme_product_case(rng, k)
                    out.append(K.kernel_case("Poly%d::evaluate" % k, cs + [x], cls="poly/extreme_product"))
                for _ in range(max(3, per // 4)):
                    cs, x = subnormal_coef_case(rng, k)
                    out.append(K.kernel_case("Poly%d::evaluate" % k, cs + [x], cls="poly/subnormal_coef"))
            for _ in range(max(2, per // 3)):
                style, cs = coeffs(rng, k + 1)
                v = rng.choice([rng.uniform(0.01, 20), rng.f64_loguniform(-30, 30, signed=False), 1.0, 2.718281828459045, 5e-324, 1e-310,
                                1.0 + 2.0 ** -52, 1.0 - 2.0 ** -53, 1.0 + 2.0 ** -40])
                if rng.random() < 0.4:
                    # evaluation must be a function of (coefficients, argument) only: other forms evaluated at the same argument
                    # just before (they share ln/exp code) must not influence the result
                    other = rng.choice(["IntOfLogPoly4::evaluate", "IntOfLog<Poly2>::evaluate"])
                    oargs = [rng.uniform(-3, 3) for _ in range(G.arity(other.split("::")[0]))]
                    out.append(K.kernel_case(other, oargs + [v], cls="interleave", libm=True))
                out.append(K.kernel_case("Log<Poly%d>::evaluate" % k, cs + [v], cls="log/" + style, libm=True))
        # short PolyN at arguments beyond 2^128 / below 2^-128 (any fixed-degree kernel would form x^8 there)
        for _ in range(2 * per):
            n = rng.randint(2, 9)
            e = rng.choice([1, -1]) * rng.randint(128, max(130, 300 if n <= 3 else 960 // n))
            x = rng.choice([1.0, -1.0]) * 2.0 ** e
            cs = [rng.choice([3.0, -2.0, 1.0, 0.5]) * 2.0 ** (-e * i if abs(e * i) < 900 else 0) for i in range(n)]
            out.append(dict(op="polyn_eval", cs=[C.bits(c) for c in cs], xs=[C.bits(x), C.bits(-x)], meta={"class": "polyn/huge_arg"}))
        # polynomials with small integer roots, evaluated AT the roots (exact zero) and next to them (massive cancellation)
        for _ in range(3 * per):
            k = rng.randint(2, 8)
            roots = [rng.randint(-9, 9) for _ in range(k)]
            cs = [1]
            for r0 in roots:
                cs = [(cs[i - 1] if i > 0 else 0) - r0 * (cs[i] if i < len(cs) else 0) for i in range(len(cs) + 1)]
            cs = [float(c) for c in cs]
            r0 = float(rng.choice(roots))
            x = rng.choice([r0, r0, r0 + 2.0 ** -21, r0 - 2.0 ** -30, r0 * (1 + 2.0 ** -40)])
            out.append(K.kernel_case("Poly%d::evaluate" % k, cs + [x], cls="poly/roots"))
        maxlen = 12 if tier == "quick" else 64
        for _ in range(3 * per):
            n = rng.randint(0, maxlen)
            style, cs = coeffs(rng, n) if n else ("empty", [])
            xs = [argument(rng, style) for _ in range(3)]
            out.append(dict(op="polyn_eval", cs=[C.bits(c) for c in cs], xs=[C.bits(x) for x in xs], meta={"class": "polyn/" + style}))
        return out

    def hyp_term(self, case, h):
        # do the hypotheses of C01_PolyK_bound (`safe`) hold on this input?
        if case["op"] == "k" and case["name"].startswith("Poly") and case["meta"].get("class", "").startswith("poly/"):
            return "hyp_safe %s %s" % (C.kname(case["name"]), C.zlist(case["args"]))
        return None

    def coq_term(self, case, h):
        if case["op"] == "k":
            return K.kernel_term(case, h)
        return "run_polyn_eval %s %s" % (C.zlist(case["cs"]), C.zlist(case["xs"]))

    def check_value(self, csb, xb, rb, what):
        if not all(finite(b) for b in csb) or not finite(xb):
            return None
        cs = [fr(b) for b in csb]
        x = fr(xb)
        if not in_domain(cs, x):
            return None
        p, a = poly_exact(cs, x)
        if not finite(rb):
            return "%s: result %r although no partial term overflows (exact value %s)" % (what, C.fl(rb), float(p))
        n = max(len(cs) - 1, 0)
        bound = 4 * (n + 2) * U * a
        err = abs(fr(rb) - p)
        if err > bound:
            return "%s: |result - exact| = %.3e exceeds 4(n+2)2^-53 sum|c_i||x|^i = %.3e (result %r, exact %r)" % (
                what, float(err), float(bound), C.fl(rb), float(p))
        # exactness when everything is a small integer
        if all(c.denominator == 1 and abs(c) < 2 ** 10 for c in cs) and x.denominator == 1 and abs(x) < 2 ** 5 and len(cs) <= 9:
            if fr(rb) != p:
                return "%s: integer data must be evaluated exactly: got %r, exact %s" % (what, C.fl(rb), p)
        return None

    def oracle(self, case, h):
        if h["r"] == "PANIC":
            return "evaluation panicked: %s" % h.get("msg")
        if case["op"] == "polyn_eval":
            for xb, rb in zip(case["xs"], h["r"]):
                if not case["cs"]:
                    if rb not in (0, C.SIGN):
                        return "empty PolyN evaluated to %r, not 0" % C.fl(rb)
                    continue
                o = self.check_value(case["cs"], xb, rb, "PolyN(len %d) at x=%r" % (len(case["cs"]), C.fl(xb)))
                if o:
                    return o
            return None
        ty, meth = K.split_kernel(case["name"])
        args = case["args"]
        if case["meta"].get("class") == "interleave":
            return None
        if ty.startswith("Log<"):
            v = C.fl(args[-1])
            if not (v > 0) or v == float("inf"):
                return None
            lt = dict((a, b) for a, b in h.get("ln", []))
            lb = lt.get(args[-1])
            if lb is None:
                return None
            return self.check_value(args[:-1], lb, h["r"][0], "%s at v=%r (ln_f v = %r)" % (ty, v, C.fl(lb)))
        return self.check_value(args[:-1], args[-1], h["r"][0], "%s at x=%r" % (ty, C.fl(args[-1])))

    def nontrivial_key(self, case, h):
        if case.get("meta", {}).get("class") == "interleave":
            return None
        if case["op"] == "k":
            if len(case["args"]) < 3 or C.fl(case["args"][-1]) in (0.0, 1.0):
                return None
        elif len(case["cs"]) < 2:
            return None
        return super().nontrivial_key(case, h)


PROP = P()
