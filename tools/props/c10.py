import math
from vlib import common as C, gens as G, hp
from vlib.driver import Prop
from props import kernels as K
from props.c01 import finite

NAME = "IntOfLogPoly4::evaluate"


def exact_and_mag(form, v):
    """(exact value, sum of the magnitudes of the terms k, v*c_j*x^j, u*v*x^5*R(x)) at >= 1200 bits"""
    mp = hp.mpmath
    k, c, u = form[0], form[1:5], form[5]
    vv = hp.mpf(v)
    x = -mp.log(vv)
    tot = hp.mpf(k)
    mag = abs(hp.mpf(k))
    for j, cj in enumerate(c):
        t = vv * hp.mpf(cj) * x ** (j + 1)
        tot += t
        mag += abs(t)
    if abs(x) < 2:
        tail = sum(x ** (m + 5) / mp.factorial(m + 5) for m in range(0, 120))
    else:
        tail = mp.exp(x) - sum(x ** j / mp.factorial(j) for j in range(5))
    t = hp.mpf(u) * vv * tail
    return tot + t, mag + abs(t)


def threshold_args():
    """v with -(ln v) bit-equal to one of the two switch points (-1.71, 1.72) as computed by the platform's ln, plus the
    neighbouring doubles (the platform's ln is the one the crate calls)"""
    out = []
    for thr in (-1.71, 1.72):
        base = C.bits(math.exp(-thr))
        hits = [d for d in range(-400, 401) if -math.log(C.fl(base + d)) == thr]
        for d in hits:
            out += [C.fl(base + d - 1), C.fl(base + d), C.fl(base + d + 1)]
    return sorted(set(out))


class P(Prop):
    ID = "C10"
    MODULE = "C10"
    THEOREMS = ["C10_thr_values", "C10_form_series", "C10_form_closed", "C10_trunc", "C10_no_jump", "C10_at_one", "C10_series_accuracy_float", "C10_series_hypotheses_hold",
                "C10_closed_accuracy_float", "C10_closed_form_exact", "C10_closed_hypotheses_hold", "C10_recip_accuracy"]
    KERNELS = [NAME, "taylor::exp_5_taylor", "taylor::exp_5_tail_taylor", "taylor::exp_5_tail_anal"]
    RULE = ("IntOfLogPoly4::evaluate (and the exponential-tail kernels on their own) run bit-exactly model vs crate with libm values "
            "shared through tables; arguments: every k-th float within 4096 ulps of v=1 and of the two switch points e^1.71, e^-1.72 "
            "(both sides), a sweep of x=-ln v over [-40,40], v=2^(+-k) up to 2^(+-1000), round decimal v; forms (k,c,u): random, "
            "zeros, u-dominated, cancelling against k. Oracle: 1200-bit evaluation of k + v*sum c_j x^j + u*v*(e^x - sum_{j<5}x^j/j!), "
            "error <= 1e-12 * sum of term magnitudes; v=1 must give exactly k. non-trivial = v != 1 and u != 0; distinct by input")
    TRUSTED = ["translator rs2coq", "mpmath (search oracle only)"]
    ASSUMPTIONS = ["libm ln/exp accurate to about 1 ulp (assumption on the platform; the bit-exact model takes them as oracles)",
                   "the 1e-12 binary64 accuracy bound itself is established by the oracle sweep (a test), not by a theorem: only the exact form, "
                   "the truncation bound and the no-jump bound are proved (C10_accuracy is partial, see DESIGN section 6/10)"]

    def forms(self, rng):
        r = rng.random()
        if r < 0.2:
            return [rng.choice([0.0, 1.0, -3.0])] + [rng.choice([0.0, 1.0, -2.0, 0.5]) for _ in range(4)] + [rng.choice([1.0, -121.0, 0.0, 24.0])]
        if r < 0.4:
            return [0.0, 0.0, 0.0, 0.0, 0.0, rng.choice([1.0, -1.0, rng.uniform(-5, 5)])]
        if r < 0.6:
            cs = [rng.uniform(-3, 3) for _ in range(4)]
            return [rng.uniform(-1e-3, 1e-3)] + cs + [rng.uniform(-50, 50)]
        return [rng.uniform(-5, 5)] + [rng.f64_loguniform(-8, 8) for _ in range(4)] + [rng.f64_loguniform(-8, 8)]

    def args(self, rng, tier):
        vs = []
        one = C.bits(1.0)
        hi = C.bits(math.exp(1.71))
        lo = C.bits(math.exp(-1.72))
        step = 97 if tier == "quick" else 7
        for base in (one, hi, lo):
            for d in range(-4096, 4097, step):
                vs.append(C.fl(base + d))
            for d in (-3, -2, -1, 0, 1, 2, 3):
                vs.append(C.fl(base + d))
        n = 200 if tier == "quick" else 3000
        for i in range(n):
            x = -46 + 92.0 * i / n + rng.uniform(0, 92.0 / n)
            vs.append(math.exp(-x))
        for kexp in (1, 2, 3, 10, 50, 100, 300, 500, 700, 900, 1000, 1020):
            vs += [2.0 ** kexp, 2.0 ** -kexp]
        vs += threshold_args()
        vs += [10.0 ** e for e in range(-15, 16)] + [7.0, 0.5, 1e7, 1e-7, 1.0 - 2.0 ** -53, 1.0 + 2.0 ** -52, 4e-309, 1e-320, 5e-324]
        return vs

    def cases(self, rng, tier):
        out = []
        for v in self.args(rng, tier):
            form = self.forms(rng)
            out.append(K.kernel_case(NAME, form + [v], cls="evaluate", libm=True))
            if rng.random() < 0.25:
                # a different form at the bit-identical argument right afterwards: the value may depend on (form, v) only
                out.append(K.kernel_case(NAME, self.forms(rng) + [v], cls="evaluate/same_v", libm=True))
        # moderately close to 1 (|v-1| from 2^-8 down to 2^-45, beyond the ulp neighbourhood above): forms without a dominating
        # constant, so that a relative error of x = -ln v of the order (v-1)^2 is visible
        for _ in range(60 if tier == "quick" else 800):
            w = rng.choice([1.0, -1.0]) * rng.choice([2.0 ** -rng.randint(8, 45), 10.0 ** -rng.uniform(2.0, 9.0), rng.uniform(1.7e-6, 1e-4), rng.uniform(1e-4, 1.2e-2)])
            form = self.forms(rng)
            form[0] = rng.choice([0.0, 0.0, 0.0, form[0] * 1e-6])
            out.append(K.kernel_case(NAME, form + [1.0 + w], cls="evaluate/near_one_band", libm=True))
        # very small arguments with small coefficients: the terms are of ordinary size (u*v*e^x ~ u) but products such as u*v
        # are far below the normal range
        for _ in range(40 if tier == "quick" else 500):
            v = rng.uniform(1, 9.9) * 10.0 ** -rng.randint(290, 307)
            sc = 10.0 ** -rng.randint(6, 17)
            form = [rng.choice([0.0, sc * rng.uniform(-1, 1)])] + [rng.choice([0.0, sc * rng.uniform(-2, 2)]) for _ in range(4)] + [sc * rng.choice([1.0, -1.0, rng.uniform(-3, 3)])]
            out.append(K.kernel_case(NAME, form + [v], cls="evaluate/tiny_v_small_u", libm=True))
        # huge arguments with tiny u: u*R(x) is far below the normal range while the term u*v*x^5*R(x) is of ordinary size
        for _ in range(30 if tier == "quick" else 400):
            v = rng.uniform(1, 9.9) * 10.0 ** rng.randint(280, 305)
            u = rng.choice([1.0, -1.0, 3.0]) * 10.0 ** -rng.randint(296, 306)
            form = [rng.choice([0.0, 1.0])] + [rng.choice([0.0, u * rng.uniform(-2, 2)]) for _ in range(4)] + [u]
            out.append(K.kernel_case(NAME, form + [v], cls="evaluate/huge_v_tiny_u", libm=True))
        for _ in range(30 if tier == "quick" else 400):
            x = rng.choice([rng.uniform(-3, 3), rng.uniform(-40, 40), -1.71, 1.72, C.fl(C.next_up(C.bits(-1.71))), C.fl(C.next_down(C.bits(1.72))), 0.0, 1e-9])
            for nm in ("taylor::exp_5_taylor", "taylor::exp_5_tail_taylor", "taylor::exp_5_tail_anal"):
                out.append(K.kernel_case(nm, [x], cls="tail", libm=True))
        return out

    def hyp_term(self, case, h):
        # hypotheses of C10_series_accuracy_float: the implementation's own window test on x^ = -(ln_f v) and `safe` for the
        # libm-free series term at (k, c1..c4, u, v, x^); ln_f v is the value the platform returned in this run
        if case.get("op") != "k" or case.get("name") != NAME:
            return None
        lt = dict((a, b) for a, b in h.get("ln", []))
        lb = lt.get(case["args"][6])
        if lb is None:
            return None
        xh = lb ^ C.SIGN
        x = C.fl(xh)
        if x != x:
            return None
        if -1.71 < x < 1.72:
            return "hyp_safe [e_series] %s" % C.zlist(list(case["args"]) + [xh])
        # closed-form branch (C10_closed_accuracy_float): r^ = 1 (/) x^ and the exponential the platform returned for 1 (/) r^
        if x == 0 or x in (float("inf"), float("-inf")):
            return None
        rh = 1.0 / x
        if rh == 0:
            return None
        et = dict((a, b) for a, b in h.get("exp", []))
        eb = et.get(C.bits(1.0 / rh))
        if eb is None:
            return None
        return "hyp_safe [e_closed] %s" % C.zlist(list(case["args"]) + [xh, C.bits(rh), eb])

    def coq_term(self, case, h):
        return K.kernel_term(case, h)

    def oracle(self, case, h):
        if case["name"] != NAME or not hp.available():
            return None
        if h["r"] == "PANIC":
            return "IntOfLogPoly4::evaluate panicked: %s" % h.get("msg")
        args = [C.fl(b) for b in case["args"]]
        form, v = args[:6], args[6]
        if not (v > 0) or v == float("inf"):
            return None
        got = h["r"][0]
        if v == 1.0:
            if C.fl(got) != form[0]:
                return "value at v=1 is %r, not exactly k=%r" % (C.fl(got), form[0])
            return None
        mp = hp.mpmath
        old = mp.mp.prec
        mp.mp.prec = 1400
        try:
            exact, mag = exact_and_mag(form, v)
            if mag > mp.mpf(2) ** 1020 or (mag != 0 and mag < mp.mpf(2) ** -1000):
                return None          # outside the no-overflow / no-underflow domain of the property
            if not finite(got):
                return "evaluate(%r) = %r but the exact value %s is finite (term magnitudes %s)" % (v, C.fl(got), mp.nstr(exact, 17), mp.nstr(mag, 5))
            err = abs(hp.mpf(C.fl(got)) - exact)
            if err > mp.mpf("1e-12") * mag:
                return "evaluate at v=%r (x=%s): error %s exceeds 1e-12 * %s (result %r, exact %s)" % (
                    v, mp.nstr(-mp.log(hp.mpf(v)), 8), mp.nstr(err, 5), mp.nstr(mag, 5), C.fl(got), mp.nstr(exact, 17))
        finally:
            mp.mp.prec = old
        return None

    def nontrivial_key(self, case, h):
        if case["name"] == NAME and (C.fl(case["args"][6]) == 1.0 or C.fl(case["args"][5]) == 0.0):
            return None
        return super().nontrivial_key(case, h)


PROP = P()
