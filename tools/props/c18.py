import struct
from vlib import common as C, gens as G
from vlib.driver import Prop

SPECIAL = [0.0, -0.0, 5e-324, -5e-324, 2.2250738585072014e-308, 1.7976931348623157e308, -1.7976931348623157e308, 1.0, -1.0, 0.1,
           1e-310, 123456789.123456789, 2.0 ** -1074, 1.0 + 2.0 ** -52]


def shape(ty):
    if ty == "Knot":
        return "sh_knot"
    if ty.startswith("Piecewise<"):
        return "(sh_piecewise %s)" % shape(ty[10:-1])
    if ty.startswith("Segment<"):
        return "(sh_segment %s)" % shape(ty[8:-1])
    if ty.startswith("Poly"):
        return "(sh_poly %d)" % int(ty[4:])
    if ty.startswith("Log<"):
        return "(sh_log %s)" % shape(ty[4:-1])
    if ty.startswith("IntOfLog<"):
        return "(sh_intoflog %s)" % shape(ty[9:-1])
    if ty == "IntOfLogPoly4":
        return "sh_q4"
    raise ValueError(ty)


def vlist(items):
    acc = "VNil"
    for it in reversed(items):
        acc = "(VCons %s %s)" % (it, acc)
    return acc


def val(ty, nums):
    """Coq val term for a value of type ty given its flat numbers; returns (term, rest)"""
    if ty == "Knot":
        return vlist(["(VF %d)" % nums[0], "(VF %d)" % nums[1]]), nums[2:]
    if ty.startswith("Segment<"):
        inner, rest = val(ty[8:-1], nums[1:])
        return vlist(["(VF %d)" % nums[0], inner]), rest
    if ty.startswith("Poly"):
        k = int(ty[4:])
        if k == 0:
            return "(VF %d)" % nums[0], nums[1:]
        return vlist(["(VF %d)" % b for b in nums[:k + 1]]), nums[k + 1:]
    if ty.startswith("Log<"):
        return val(ty[4:-1], nums)
    if ty.startswith("IntOfLog<"):
        inner, rest = val(ty[9:-1], nums[1:])
        return vlist(["(VF %d)" % nums[0], inner]), rest
    if ty == "IntOfLogPoly4":
        return vlist(["(VF %d)" % nums[0], vlist(["(VF %d)" % b for b in nums[1:5]]), "(VF %d)" % nums[5]]), nums[6:]
    raise ValueError(ty)


def borsh_expected(ty, nums, segs=None):
    """independent borsh encoding in Python"""
    if segs is not None:
        out = list(struct.pack("<I", len(segs)))
        for s in segs:
            for b in s:
                out += list(struct.pack("<Q", b))
        return out
    out = []
    for b in nums:
        out += list(struct.pack("<Q", b))
    return out


class P(Prop):
    ID = "C18"
    MODULE = "C18"
    THEOREMS = ["C18_borsh_roundtrip", "C18_le_bytes", "C18_piecewise_poly3", "C18_example"]
    KERNELS = []
    RULE = ("every serialisable type (Knot, Poly0..8, Log<.>, IntOfLog<.>, IntOfLogPoly4, Segment<.> of each, Piecewise<.> of each with "
            "0..300 segments): the serde data-model calls of derive(Serialize) (recorded by a token-stream Serializer) and the borsh "
            "bytes are compared with the Coq wire model; round trips through serde_json text (finite contents), serde_cbor and borsh "
            "are executed on the crate and compared bit for bit; contents: subnormals, -0.0, extremes, +-inf (binary formats), random "
            "bit patterns; every type once with +-inf in every position and once with +-f64::MAX / its neighbour / smallest subnormal / "
            "-0.0 in every position and once with whole numbers (2^k, around 2^63 / 1e19, ...); piecewise serialisations preceded by "
            "a failed attempt (3-byte writer, or a NaN-carrying value borsh refuses); JSON is read back from borrowed text, from a "
            "reader and from the Value tree, CBOR from a slice and a reader, borsh from a slice and from readers returning 1..33 "
            "bytes per call; segment counts around 127/128, 255/256, 511/512. non-trivial = contains a number whose bits are not those of a small integer; distinct by input")
    TRUSTED = ["wire model (shapes of the derives) hand-written, tied by correspondence; the theorem covers the borsh byte codec",
               "float <-> text conversion (ryu, serde_json parser) and serde_cbor are exercised, not modelled"]
    ASSUMPTIONS = ["without the borsh feature only the serde part applies; the harness builds the crate with the feature on"]

    def whole(self, rng):
        """whole numbers of every magnitude (formats may choose an integer representation for them)"""
        k = rng.choice([0, 1, 10, 31, 32, 52, 53, 62, 63, 63, 64, 64, 70, 100, 1000])
        v = rng.choice([2.0 ** k, 2.0 ** k * rng.uniform(1.0, 1.99), 9.5e18, 9.3e18, 1e19, 1.8e19, 2.0 ** 63 * 1.01, 1e15 + 1])
        v = float(int(v)) if v < 2.0 ** 1000 else v
        return C.bits(rng.choice([1.0, -1.0]) * v)

    def num(self, rng, finite_only=False):
        r = rng.random()
        if r < 0.08:
            return self.whole(rng)
        if r < 0.3:
            return C.bits(rng.choice(SPECIAL))
        if r < 0.4 and not finite_only:
            return C.bits(rng.choice([float("inf"), float("-inf")]))
        if r < 0.7:
            b = rng.getrandbits(64)
            x = C.fl(b)
            if x != x or (finite_only and abs(x) == float("inf")):
                return C.bits(rng.uniform(-1, 1))
            return b
        return C.bits(rng.choice([rng.uniform(-3, 3), rng.f64_loguniform(-300, 300)]))

    def cases(self, rng, tier):
        out = []
        base = ["Knot"] + G.ALL_TYPES + ["Segment<%s>" % t for t in G.ALL_TYPES]
        per = 2 if tier == "quick" else 25
        for ty in base:
            n = 2 if ty == "Knot" else G.arity(ty)
            for _ in range(per):
                fin = rng.random() < 0.6
                out.append(dict(op="wire", ty=ty, v=[self.num(rng, fin) for _ in range(n)], meta={"class": "value/" + ty.split("<")[0]}))
            # every type once with infinities in every position (binary formats), once with the finite extremes (all formats)
            INF = [C.bits(float("inf")), C.bits(float("-inf"))]
            EXT = [C.bits(1.7976931348623157e308), C.bits(-1.7976931348623157e308), C.bits(5e-324), C.bits(-0.0),
                   C.bits(2.2250738585072014e-308), C.bits(1.7976931348623155e308)]
            out.append(dict(op="wire", ty=ty, v=[rng.choice(INF) for _ in range(n)], meta={"class": "value_inf/" + ty.split("<")[0]}))
            out.append(dict(op="wire", ty=ty, v=[self.whole(rng) for _ in range(n)], meta={"class": "value_whole/" + ty.split("<")[0]}))
            out.append(dict(op="wire", ty=ty, v=[rng.choice(EXT) for _ in range(n)], meta={"class": "value_extreme/" + ty.split("<")[0]}))
        # subnormal numbers in EVERY position of every value type (finite: goes through the text format as well)
        SUB = [C.bits(5e-324), C.bits(-5e-324), C.bits(3e-310), C.bits(-1.5e-315), C.bits(2.2250738585072009e-308), C.bits(1e-320)]
        for ty in base:
            n = 2 if ty == "Knot" else G.arity(ty)
            out.append(dict(op="wire", ty=ty, v=[rng.choice(SUB) for _ in range(n)], meta={"class": "value_subnormal/" + ty.split("<")[0]}))
            v = [C.bits(rng.uniform(-3, 3)) for _ in range(n)]
            v[rng.randrange(n)] = rng.choice(SUB)
            out.append(dict(op="wire", ty=ty, v=v, meta={"class": "value_subnormal/" + ty.split("<")[0]}))
        # ADJACENT pieces that compare equal (==) but differ in bits: zeros of opposite sign in the same position; exact repeats next to them
        for _ in range(12 if tier == "quick" else 150):
            t = rng.choice(G.ALL_TYPES)
            n = G.arity(t) + 1
            cnt = rng.randint(2, 6)
            proto = [C.bits(rng.choice([0.0, -0.0, 2.0, -1.5, 0.0])) for _ in range(n)]
            segs = []
            for i in range(cnt):
                sgm = list(proto)
                sgm[0] = C.bits(float(i + 1))
                for j in range(1, n):
                    if C.fl(sgm[j]) == 0.0 and rng.random() < 0.6:
                        sgm[j] = C.bits(rng.choice([0.0, -0.0]))
                segs.append(sgm)
            out.append(dict(op="wire", ty="Piecewise<%s>" % t, segs=segs, meta={"class": "piecewise/equal_but_for_zero_signs"}))
        for _ in range(40 if tier == "quick" else 500):
            t = rng.choice(G.ALL_TYPES)
            n = G.arity(t) + 1
            cnt = rng.choice([0, 1, 2, 3, 5, 8, rng.randint(0, 30), rng.choice([52, 103, 127, 128, 171, 254, 255, 255, 256, 257, 300, 511, 512])])
            fin = rng.random() < 0.6
            segs = [[self.num(rng, fin) for _ in range(n)] for _ in range(cnt)]
            if cnt and rng.random() < 0.3:
                pool = EXT if fin else EXT + INF
                for sgm in segs:
                    if rng.random() < 0.5:
                        sgm[rng.randrange(n)] = rng.choice(pool)
            case = dict(op="wire", ty="Piecewise<%s>" % t, segs=segs, meta={"class": "piecewise/%s" % ("long" if cnt > 50 else "short")})
            r = rng.random()
            if r < 0.12:
                # an attempt that fails half way (3-byte writer) just before the real one
                case["prefail"] = True
                case["meta"]["class"] += "+prefail"
            elif r < 0.2 and cnt >= 2:
                # a value borsh refuses (NaN in the LAST piece): not in the property's domain itself, but nothing it leaves
                # behind may influence the following serialisations
                poison = dict(op="wire", ty=case["ty"], segs=[list(sg) for sg in segs], meta={"class": "poison"})
                poison["segs"][-1][-1] = C.NAN_BITS
                out.append(poison)
            out.append(case)
        return out

    def coq_term(self, case, h):
        if case["meta"].get("class") == "poison":
            return None
        ty = case["ty"]
        if ty.startswith("Piecewise<"):
            inner = "Segment<%s>" % ty[10:-1]
            items = [val(inner, s)[0] for s in case["segs"]]
            v = vlist([vlist(items)])
        else:
            v, _ = val(ty, case["v"])
        return "run_wire %s %s" % (shape(ty), v)

    def compare(self, case, hres, mres):
        # the model predicts the token stream and the bytes; the three round-trip flags are for the oracle
        if isinstance(hres.get("r"), list) and mres is not None:
            hres = dict(hres, r=hres["r"][:-4])
        return Prop.compare(self, case, hres, mres)

    def oracle(self, case, h):
        if case.get("meta", {}).get("class") == "poison":
            return None
        if h["r"] == "PANIC":
            return "serialisation panicked: %s" % h.get("msg")
        r = h["r"]
        nt = r[0]
        nb = r[1 + nt]
        bytes_ = r[2 + nt: 2 + nt + nb]
        json_ok, cbor_ok, borsh_ok, chunked_ok = r[-4:]
        if json_ok == 0:
            return "serde_json text round trip does not return the same bits (directly: from_str / from_reader / Value; or nested in a flattened, untagged or internally tagged wrapper)"
        if cbor_ok == 0:
            return "serde_cbor round trip does not return the same bits (directly: from_slice / from_reader; or nested in a flattened, untagged or internally tagged wrapper)"
        if borsh_ok != 1:
            return "borsh round trip %s" % ("failed to serialise" if borsh_ok == 3 else "does not return the same bits")
        if chunked_ok == 2:
            return ("borsh: the value written twice and followed by a marker in ONE stream does not read back (both values bit for bit, then "
                    "the marker, then end of stream) through plain and short-count readers: the reader takes more or fewer bytes than its own")
        if chunked_ok != 1:
            return "borsh: reading the serialised bytes back through a reader that returns short counts does not return the same bits"
        if case["ty"].startswith("Piecewise<"):
            exp = borsh_expected(None, None, case["segs"])
        else:
            exp = borsh_expected(None, case["v"])
        if bytes_ != exp:
            return "borsh bytes are not the little-endian concatenation of the numbers (with u32 length prefix for Vec)"
        return None

    def nontrivial_key(self, case, h):
        nums = case.get("v") or [b for s in case.get("segs", []) for b in s]
        if not any((b & 0xFFFFFFFF) != 0 for b in nums):
            return None
        return super().nontrivial_key(case, h)


PROP = P()
