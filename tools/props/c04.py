from fractions import Fraction
import math
from vlib import common as C, gens as G
from vlib.driver import Prop
from props import kernels as K
from props.c01 import fr, finite

U = Fraction(1, 2 ** 53)


def knot_seq(rng, n):
    style = rng.choice(["monotone", "oscillating", "plateau", "collinear", "nearly_collinear", "uneven", "offset", "random", "zigzag", "gentle", "huge", "tiny_scale", "origin", "signed_zero_plateau", "tiny_osc", "slope_ratio", "slope_ratio", "odd_abscissa"])
    xs = []
    x = rng.choice([0.0, rng.uniform(-2, 2)])
    if style == "offset":
        x = rng.choice([2.0 ** 10, -2.0 ** 12, 1000.0, 2.0 ** 20])
    for i in range(n):
        if style == "uneven":
            x += rng.choice([2.0 ** -8, 1.0, 16.0, 0.125, 3.0])
        elif style == "offset":
            x += rng.choice([1.0, 0.5, 2.0])
        elif style == "gentle":
            x += rng.choice([86400.0, 3600.0])
        else:
            x += rng.uniform(0.2, 2.0) if rng.random() < 0.7 else float(rng.randint(1, 3))
        xs.append(x)
    if style == "huge":
        # ordinates near the top of the binary64 range over wide intervals: every term of the documented construction stays
        # finite (slopes ~1e297) while 2*dy or 3*dy would not
        x = 0.0
        xs = []
        for i in range(n):
            x += rng.choice([1e10, 2e10, 5e9])
            xs.append(x)
        ys = [rng.choice([1e300, -1e300, 3e300, 0.0, 2e299]) for _ in xs]
        big = rng.choice([6.5e307, 8e307, 1.1e308, 4e307])
        j = rng.choice([0, 0, n - 1, n - 1, rng.randint(0, n - 1)])
        ys[j] = rng.choice([-1.0, 1.0]) * big
        return style, [[C.bits(a), C.bits(b)] for a, b in zip(xs, ys)]
    if style == "tiny_scale":
        # the whole abscissa axis in a tiny unit: every dx is far below machine epsilon but the data are perfectly conditioned
        unit = rng.choice([1e-17, 2.0 ** -56, 2.0 ** -80, 3e-19])
        x = rng.choice([0.0, unit * rng.randint(-3, 3)])
        xs = []
        for i in range(n):
            x += unit * rng.choice([1.0, 2.0, 0.5, 3.0])
            xs.append(x)
    if style == "origin":
        # a knot exactly at 0.0 (first or interior), spacing not 1
        j = rng.choice([0, 0, rng.randrange(n - 1)])
        steps = [rng.choice([2.0, 0.5, 3.0, 1.5, 0.25]) for _ in range(n)]
        xs = [0.0] * n
        for i in range(j + 1, n):
            xs[i] = xs[i - 1] + steps[i]
        for i in range(j - 1, -1, -1):
            xs[i] = xs[i + 1] - steps[i]
    if style == "slope_ratio":
        # adjacent secant slopes of the same sign whose ratio is 2^27 .. 2^52: the harmonic mean is within a hair of twice the
        # flatter slope - but not equal to it; a knot at the origin so that the knot slope is a coefficient on its own
        j = rng.choice([0, rng.randrange(n)])
        steps = [rng.choice([1.0, 0.5, 2.0, 0.25]) for _ in range(n)]
        xs = [0.0] * n
        for i in range(j + 1, n):
            xs[i] = xs[i - 1] + steps[i]
        for i in range(j - 1, -1, -1):
            xs[i] = xs[i + 1] - steps[i]
        sg = rng.choice([1.0, -1.0])
        ys = [rng.choice([0.0, 1.0, -2.0])]
        sl = rng.choice([1.0, 2.0 ** 30, 0.75])
        for i in range(1, n):
            r = rng.random()
            if r < 0.45:
                sl = sl * 2.0 ** rng.randint(27, 52) if sl < 2.0 ** 40 else sl / 2.0 ** rng.randint(27, 52)
            elif r < 0.9:
                sl = sl / 2.0 ** rng.randint(27, 52) if sl > 2.0 ** -20 else sl * 2.0 ** rng.randint(27, 52)
            ys.append(ys[-1] + sg * sl * (xs[i] - xs[i - 1]))
        return style, [[C.bits(a), C.bits(b)] for a, b in zip(xs, ys)]
    if style == "odd_abscissa":
        # abscissae that are -0.0, subnormal or the least positive double (never the first knot only): every dx is ordinary
        base = [-3.0, -1.5, -0.5]
        mid = rng.choice([-0.0, 5e-324, 1e-310, -0.0, 2.0 ** -1030, 0.0])
        xs = (base[3 - rng.randint(1, 3):] + [mid] + [0.75, 2.0, 3.5, 5.0, 7.0, 8.0, 10.0, 11.0, 13.0])[:n]
        if rng.random() < 0.3 and n >= 4:
            xs = ([-2.0, -0.0, 5e-324 * rng.choice([1, 3, 2 ** 20]), 1.0, 2.5, 4.0, 5.0, 7.0, 8.0, 10.0, 11.0, 13.0])[:n]
        ys = [rng.choice([rng.uniform(-3, 3), float(rng.randint(-3, 3))]) for _ in xs]
        if xs[1] == 0 and len(xs) > 2 and abs(xs[2]) < 1e-300:
            ys[2] = ys[1]                     # a flat step over the tiny interval (dx subnormal): slopes stay finite
        return style, [[C.bits(a), C.bits(b)] for a, b in zip(xs, ys)]
    if style in ("signed_zero_plateau", "tiny_osc"):
        if style == "signed_zero_plateau":
            # plateaus AT zero whose ordinates are zeros of either sign (slopes +0.0 / -0.0), between ordinary pieces
            ys = [rng.choice([0.0, -0.0, 0.0, -0.0, 1.0, -2.0]) for _ in xs]
        else:
            # genuine sign changes whose slope product underflows to a signed zero
            sc = rng.choice([1e-170, 1e-165, 3e-180, 1e-200])
            ys = [sc * rng.choice([1.0, -1.0, 2.0, -0.5]) * (1 if i % 2 else -1) for i in range(len(xs))]
        return style, [[C.bits(a), C.bits(b)] for a, b in zip(xs, ys)]
    ys = []
    y = rng.uniform(-3, 3)
    s_lin = rng.choice([0.5, -2.0, 1.0 / 3.0, 1e-8, 3.0, 49.0, 12.25, 98.0, float(rng.randint(40, 120)), rng.uniform(-60, 60)])
    for i, x in enumerate(xs):
        if style == "monotone":
            y += rng.uniform(0.0, 2.0)
        elif style == "oscillating":
            y = rng.uniform(-4, 4)
        elif style == "zigzag":
            y = float(i % 2) * rng.choice([1.0, 1.0, 2.0])
        elif style == "plateau":
            if rng.random() < 0.5:
                y += rng.choice([1.0, -1.0, 0.5])
        elif style == "collinear":
            y = s_lin * x + 1.0
        elif style == "nearly_collinear":
            y = 0.5 * x + 1.0 + rng.choice([0.0, 1e-9, -1e-9, 1e-13])
        elif style == "gentle":
            y += rng.choice([1e-3, 2e-3, -1e-3, 5e-4])
        elif style == "offset":
            y = rng.uniform(-2, 2)
        else:
            y = rng.choice([rng.uniform(-5, 5), float(rng.randint(-3, 3))])
        ys.append(y)
    return style, [[C.bits(a), C.bits(b)] for a, b in zip(xs, ys)]


def kruger_exact(ks):
    """exact (rational) Kruger constrained spline: list of (end, [a,b,c,d]) and knot slopes"""
    n = len(ks)
    xs = [k[0] for k in ks]
    ys = [k[1] for k in ks]
    s = [(ys[i + 1] - ys[i]) / (xs[i + 1] - xs[i]) for i in range(n - 1)]
    f = [None] * n
    for j in range(1, n - 1):
        if s[j - 1] * s[j] <= 0:
            f[j] = Fraction(0)
        else:
            f[j] = 2 / (1 / s[j - 1] + 1 / s[j])
    f[0] = Fraction(3, 2) * s[0] - f[1] / 2
    f[n - 1] = Fraction(3, 2) * s[n - 2] - f[n - 2] / 2
    polys = []
    for i in range(n - 1):
        x0, y0, x1, y1 = xs[i], ys[i], xs[i + 1], ys[i + 1]
        dx = x1 - x0
        sl = s[i]
        f0dd = 2 * (3 * sl - (f[i + 1] + 2 * f[i])) / dx
        f1dd = 2 * ((2 * f[i + 1] + f[i]) - 3 * sl) / dx
        d = Fraction(1, 6) * (f1dd - f0dd) / dx
        c = Fraction(1, 2) * (x1 * f0dd - x0 * f1dd) / dx
        b = sl - c * (x1 + x0) - d * (x1 * x1 + x1 * x0 + x0 * x0)
        a = y0 - b * x0 - c * x0 * x0 - d * x0 * x0 * x0
        polys.append([a, b, c, d])
    return s, f, polys


def spline_float(ks):
    """the construction as documented (Kruger 7a-7c and the segment formulas), evaluated in binary64 without fused operations:
    returns the list of coefficient quadruples, used only to decide whether every term of the construction is finite"""
    n = len(ks)
    X = [k[0] for k in ks]
    Y = [k[1] for k in ks]
    inf = float("inf")

    def div(a, b):
        if b == 0:
            return float("nan") if (a == 0 or a != a) else math.copysign(inf, a) * math.copysign(1.0, b)
        return a / b
    s = [div(Y[i + 1] - Y[i], X[i + 1] - X[i]) for i in range(n - 1)]
    f = [0.0] * n
    for j in range(1, n - 1):
        a_, b_ = s[j - 1], s[j]
        flat = a_ == 0.0 or b_ == 0.0 or (a_ < 0.0 and b_ > 0.0) or (a_ > 0.0 and b_ < 0.0)
        f[j] = 0.0 if flat else div(2.0, div(1.0, a_) + div(1.0, b_))
    f[0] = div(1.5 * (Y[1] - Y[0]), X[1] - X[0]) - 0.5 * f[1]
    f[n - 1] = div(1.5 * (Y[n - 1] - Y[n - 2]), X[n - 1] - X[n - 2]) - 0.5 * f[n - 2]
    out = []
    for i in range(n - 1):
        x0, y0, x1, y1 = X[i], Y[i], X[i + 1], Y[i + 1]
        dx = x1 - x0
        sl = div(y1 - y0, dx)
        x0x0 = x0 * x0
        a0 = div(2.0 * (3.0 * sl - (f[i + 1] + 2.0 * f[i])), dx)
        a1 = div(2.0 * ((2.0 * f[i + 1] + f[i]) - 3.0 * sl), dx)
        d = div((1.0 / 6.0) * (a1 - a0), dx)
        c = div(0.5 * (x1 * a0 - x0 * a1), dx)
        b = sl - c * (x1 + x0) - d * (x1 * x1 + x1 * x0 + x0x0)
        a = y0 - b * x0 - c * x0x0 - d * x0x0 * x0
        out.append([a, b, c, d])
    return out


def pv(p, x):
    return p[0] + x * (p[1] + x * (p[2] + x * p[3]))


def dpv(p, x):
    return p[1] + x * (2 * p[2] + x * 3 * p[3])


class P(Prop):
    ID = "C04"
    MODULE = "C04"
    THEOREMS = ["C04_end", "C04_hermite", "C04_fdx_flat", "C04_fdx_harmonic", "C04_end_slopes", "C04_segments", "C04_interior_slopes", "C04_count",
                "C04_coefficient_float", "C04_cubic_deviation", "C04_interpolation_float", "C04_interior_is_composition", "C04_interior_float", "C04_ends_are_compositions", "C04_ends_float",
                "C04_float_hypotheses_hold", "C04_interior_hypotheses_hold", "C04_ends_hypotheses_hold"]
    KERNELS = ["spline::f_dx", "spline::segment", "spline::f_x0", "spline::f_xn"]
    RULE = ("constrained_spline on 3..12 (thorough ..100) knots with strictly increasing x: monotone, oscillating, zig-zag, plateaued, "
            "collinear, nearly collinear, unevenly spaced (gap ratios up to 2^12), offset up to 2^20, a knot exactly at 0, abscissae in units of 1e-17..2^-80 (every dx << eps), gentle slopes (~1e-8), ordinates up to 1.1e308 over wide intervals "
            "(non-finite output is a violation when the documented construction is finite in binary64); "
            "bit-exact model vs crate incl. the kernels f_dx / segment on their own; exact-rational oracle: end verbatim, "
            "interpolation, knot slopes = harmonic mean / end rule, derivative continuity, all within 256*2^-53*(magnitudes*"
            "(1+|x|/dx)^3). non-trivial = >= 4 knots and data not collinear; distinct by input"
            " Also: adjacent slope ratios 2^27..2^52, abscissae -0.0 / subnormal, tables of 2000..40001 (thorough ..262145) knots built and checked inside the harness, prefix pairs of tables in consecutive calls.")
    TRUSTED = ["translator rs2coq", "skeleton PwModel.constrained_spline (iterator plumbing) tied by correspondence"]
    ASSUMPTIONS = ["IEEE-754 arithmetic", "the deviation bound of the floating-point construction is checked by the exact oracle (a test), the theorems are over the reals"]
    CHECK_SHAPE = False

    def cases(self, rng, tier):
        n = 110 if tier == "quick" else 1500
        out = []
        for _ in range(n):
            k = rng.randint(3, 12 if tier == "quick" or rng.random() < 0.9 else 100)
            style, ks = knot_seq(rng, k)
            out.append(dict(op="spline", knots=ks, meta={"class": "spline/" + style}))
        # every knot count 3..40 once (buffer sizes, unrolled loops, odd / even handling)
        for k in range(3, 41):
            x, ks = 0.0, []
            for i in range(k):
                x += rng.choice([1.0, 0.5, 2.0])
                ks.append([C.bits(x), C.bits(float(i % 4) * 1.5 + 0.25 * i if i % 3 else float(i))])
            out.append(dict(op="spline", knots=ks, meta={"class": "spline/count"}))
        # tables far longer than a case file can carry: built and checked inside the harness (knot slopes against the harmonic mean)
        for nbig in (2000, 32767, 32768, 32769, 40001) if tier == "quick" else (2000, 32767, 32768, 32769, 40001, 65536, 65537, 100003, 262145):
            out.append(dict(op="spline_big", n=nbig, meta={"class": "spline/big"}))
        # the same table again with knots appended / dropped, one call right after the other (no state may survive a call)
        for _ in range(4 if tier == "quick" else 40):
            style, ks = knot_seq(rng, rng.randint(5, 9))
            if style in ("huge",):
                continue
            out.append(dict(op="spline", knots=ks, meta={"class": "spline/prefix_pair"}))
            out.append(dict(op="spline", knots=ks[:rng.randint(3, len(ks) - 1)], meta={"class": "spline/prefix_pair"}))
            out.append(dict(op="spline", knots=ks, meta={"class": "spline/prefix_pair"}))
        for nk in (0, 1, 2):
            style, ks = knot_seq(rng, 3)
            out.append(dict(op="spline", knots=ks[:nk], meta={"class": "spline/rejected"}))
        # malformed: non-increasing x (only bit-exact agreement is checked)
        for _ in range(6):
            style, ks = knot_seq(rng, 5)
            ks[2][0] = ks[1][0]
            out.append(dict(op="spline", knots=ks, meta={"class": "spline/malformed"}))
        for _ in range(20 if tier == "quick" else 300):
            style, ks = knot_seq(rng, 3)
            flat = [C.fl(v) for k in ks for v in k]
            out.append(K.kernel_case("spline::f_dx", flat, cls="kernel/f_dx"))
            out.append(K.kernel_case("spline::segment", [rng.uniform(-3, 3), flat[0], flat[1], rng.uniform(-3, 3), flat[2], flat[3]], cls="kernel/segment"))
        return out

    def hyp_term(self, case, h):
        # hypotheses of C04_coefficient_float / C04_cubic_deviation (safe_run on the four coefficients) + the proved bound
        # err_run against the exact deviation, in rational arithmetic
        if case["op"] == "k" and case["name"] == "spline::segment":
            return "hyp_safe_run_dev (tl %s) %s" % (C.kname(case["name"]), C.zlist(case["args"]))
        if case["op"] == "spline" and len(case["knots"]) >= 4 and case["meta"].get("class") not in ("spline/malformed", "spline/rejected") \
                and self.ID == "C04" and (sum(case["knots"][0]) % 24 == 0):
            # end to end (C04_interior_float): the first interior cubic of a generated spline, from its four knots
            flat = [b for kn in case["knots"][:4] for b in kn]
            return "hyp_safe_run_dev (map interior_e [1;2;3;4]%%nat) %s" % C.zlist(flat)
        if case["op"] == "spline" and len(case["knots"]) >= 3 and case["meta"].get("class") not in ("spline/malformed", "spline/rejected") \
                and self.ID == "C04" and (sum(case["knots"][0]) % 24 == 1):
            # both end cubics (C04_ends_float): first three / last three knots
            first = [b for kn in case["knots"][:3] for b in kn]
            return "hyp_safe_run_dev (map first_e [1;2;3;4]%%nat) %s" % C.zlist(first)
        return None

    def coq_term(self, case, h):
        if case["op"] == "k":
            return K.kernel_term(case, h)
        if case["op"] == "spline_big":
            return None
        return "run_spline [] [] %s %s %s %s %s" % (C.kname("spline::f_dx"), C.kname("spline::f_x0"), C.kname("spline::f_xn"),
                                                    C.kname("spline::segment"), C.zlistlist(case["knots"]))

    def oracle(self, case, h):
        if case["op"] == "spline_big":
            if h["r"] == "PANIC":
                return "constrained_spline panicked on %d admissible knots: %s" % (case["n"], h.get("msg"))
            if h["r"][0] != case["n"] - 1:
                return "constrained_spline returned %d cubics for %d knots" % (h["r"][0], case["n"])
            if h["r"][1] != 0xFFFFFFFFFFFFFFFF:
                return ("%d knots (x = i/2, strictly increasing ordinates, every secant slope about 1): the derivative of the cubics at interior knot %d "
                        "is not the harmonic mean of the adjacent secant slopes" % (case["n"], h["r"][1]))
            return None
        if case["op"] != "spline":
            return None
        ks = case["knots"]
        if len(ks) < 3:
            return None if h["r"] == "PANIC" else "constrained_spline accepted %d knots" % len(ks)
        xs = [C.fl(k[0]) for k in ks]
        if any(b <= a for a, b in zip(xs, xs[1:])):
            return None
        if h["r"] == "PANIC":
            return "constrained_spline panicked on %d admissible knots: %s" % (len(ks), h.get("msg"))
        r = h["r"]
        if r[0] != len(ks) - 1:
            return "constrained_spline returned %d cubics for %d knots" % (r[0], len(ks))
        segs = [r[1 + 5 * i: 6 + 5 * i] for i in range(r[0])]
        if not all(finite(b) for sg in segs for b in sg):
            # non-finite coefficients are a violation exactly when every term of the documented construction is finite
            ref = spline_float([(C.fl(k[0]), C.fl(k[1])) for k in ks])
            for i, sg in enumerate(segs):
                if not all(finite(b) for b in sg) and all(math.isfinite(v) for v in ref[i]):
                    return ("cubic %d has non-finite coefficients %s although every term of the documented construction is finite "
                            "(it gives %s): the cubic passes through neither knot" % (i, [C.fl(b) for b in sg[1:]], ref[i]))
            return None
        kq = [(fr(k[0]), fr(k[1])) for k in ks]
        s, f, polys = kruger_exact(kq)
        n = len(ks)
        for i, sg in enumerate(segs):
            if C.canon(sg[0]) != C.canon(ks[i + 1][0]):
                return "cubic %d: end is not the right abscissa verbatim" % i
            p = [fr(b) for b in sg[1:]]
            x0, y0 = kq[i]
            x1, y1 = kq[i + 1]
            dx = x1 - x0
            X = max(abs(x0), abs(x1))
            loc = range(max(0, i - 1), min(n - 1, i + 2))
            smax = max(abs(s[j]) for j in loc)
            dxmin = min(kq[j + 1][0] - kq[j][0] for j in loc)
            amp = (1 + X / dxmin) ** 3
            E = 256 * U * (max(abs(y0), abs(y1)) + smax * dx * amp) + Fraction(1, 2 ** 1000)
            # the derivative of cubic i at its knots is formed from the numbers of THIS interval only (its secant slope and its
            # two knot slopes, each a harmonic mean bounded by twice the flatter adjacent slope): a steep NEIGHBOUR does not enter
            sloc = max(abs(s[i]), abs(f[i]), abs(f[i + 1]))
            Ed = 256 * U * sloc * amp + Fraction(1, 2 ** 1000)
            for (x, y, nm) in ((x0, y0, "left"), (x1, y1, "right")):
                if abs(pv(p, x) - y) > E:
                    return "cubic %d misses its %s knot: p(%r) = %r, y = %r (tolerance %.3e)" % (i, nm, float(x), float(pv(p, x)), float(y), float(E))
            for (x, fx, nm) in ((x0, f[i], "left"), (x1, f[i + 1], "right")):
                if abs(dpv(p, x) - fx) > Ed:
                    return "cubic %d: derivative at its %s knot is %r, the prescribed knot slope is %r (tolerance %.3e)" % (
                        i, nm, float(dpv(p, x)), float(fx), float(Ed))
            o = self.extra_checks(i, p, polys[i], x0, y0, x1, y1, s[i], E, Ed)
            if o:
                return o
        return None

    def extra_checks(self, i, p, pex, x0, y0, x1, y1, si, E, Ed):
        return None

    def nontrivial_key(self, case, h):
        if case["op"] == "spline_big":
            return None
        if case["op"] == "spline" and (len(case["knots"]) < 4 or "collinear" == case["meta"]["class"].split("/")[1]):
            return None
        return super().nontrivial_key(case, h)


PROP = P()
