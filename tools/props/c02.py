from vlib import common as C, gens as G
from vlib.driver import Prop


class P(Prop):
    ID = "C02"
    MODULE = "C02"
    THEOREMS = ["C02_first", "C02_last", "C02_total", "C02_char", "C02_halfopen", "C02_idx", "C02_breakpoint",
                "C02_minus_infinity", "C02_plus_infinity", "C02_example"]
    KERNELS = ["Segment<Poly0>::evaluate", "Segment<Poly1>::evaluate", "Segment<Poly3>::evaluate", "Segment<Poly8>::evaluate",
               "Segment<IntOfLogPoly4>::evaluate"]
    RULE = ("segment lists of 1..12 (thorough ..200) pieces with non-decreasing non-NaN ends (increasing, duplicate, "
            "zero-width, +-0, +-inf, wide range) over Poly0 tags / Poly3 / Poly8 / IntOfLogPoly4; queries at ends, "
            "ulp-neighbours of ends, beyond extremes, +-inf, midpoints, random. non-trivial = at least 2 segments "
            "and the batch of queries selects at least 2 different segments; distinct by full input")
    TRUSTED = ["hand-written skeleton PwModel.pw_eval/select tied to Piecewise::evaluate by bit-exact correspondence"]
    ASSUMPTIONS = ["rustc/LLVM implement f64 comparison per IEEE-754", "generic instantiations not exercised by the harness behave like the exercised ones"]

    def cases(self, rng, tier):
        n = 120 if tier == "quick" else 1500
        out = []
        for i in range(n):
            ty = rng.choice(["Poly0", "Poly0", "Poly3", "Poly8", "IntOfLogPoly4"])
            maxn = 12 if tier == "quick" or rng.random() < 0.9 else 200
            k = rng.randint(1, maxn)
            if ty == "Poly0":
                es, sg = G.tag_segs(rng, k)
            else:
                es, sg = G.segs(rng, ty, k)
            xs = G.queries(rng, es, 12)
            out.append(dict(op="pw_eval", ty=ty, segs=sg, xs=xs, libm=G.uses_libm(ty), meta={"class": "pw_eval/" + ty}))
        # lengths around every plausible block / cut-over size, queried everywhere
        for k in (15, 16, 17, 18, 31, 32, 33, 63, 64, 65, 66, 100, 129):
            es, sg = G.tag_segs(rng, k, rng.choice(["inc", "ints", "dups"]))
            out.append(dict(op="pw_eval", ty="Poly0", segs=sg, xs=G.queries(rng, es, 24), meta={"class": "pw_eval/long"}))
        # the VALUE is the piece evaluated at x itself, bit for bit: signed zeros as arguments of pieces that tell them apart
        Z = [C.bits(0.0), C.bits(-0.0)]
        for _ in range(10 if tier == "quick" else 120):
            k = rng.randint(1, 4)
            es = sorted(rng.choice([-1.0, -0.0, 0.0, 1.0, 2.0]) for _ in range(k))
            sg = [[C.bits(e), C.bits(rng.choice([-0.0, -0.0, 0.0, 1.5])), C.bits(rng.choice([1.0, -3.0, 0.0, -0.0]))] for e in es]
            xs = [rng.choice(Z + [C.bits(-1.0), C.bits(0.5), C.bits(5e-324), C.bits(-5e-324)]) for _ in range(8)]
            out.append(dict(op="pw_eval", ty="Poly1", segs=sg, xs=xs, meta={"class": "pw_eval/signed_zero"}))
        # pieces whose VALUE is NaN or infinite (constant pieces with such a tag), queried exactly on every breakpoint: the value is
        # the selected piece's, whatever it is
        for _ in range(10 if tier == "quick" else 120):
            k = rng.randint(2, 8)
            es, sg = G.tag_segs(rng, k, rng.choice(["inc", "ints", "dups"]))
            sg = [list(s_) for s_ in sg]
            for s_ in sg:
                if rng.random() < 0.5:
                    s_[1] = rng.choice([C.NAN_BITS, C.NAN_BITS, C.bits(float("inf")), C.bits(float("-inf"))])
            xs = [C.bits(e) for e in es] + [C.next_down(C.bits(e)) for e in es] + [C.next_up(C.bits(e)) for e in es]
            out.append(dict(op="pw_eval", ty="Poly0", segs=sg, xs=xs, meta={"class": "pw_eval/nan_valued_pieces"}))
        # (nearly) equally spaced breakpoints - first + step*(n-1) == last exactly - queried one ulp below / above every knot, on the
        # knots and in between: any index ARITHMETIC in place of the comparison shows on the rounding of (x - first)/step
        for _ in range(14 if tier == "quick" else 160):
            n = rng.randint(3, 12)
            st = rng.choice([0.1, 1.0 / 3.0, 1.0 / 7.0, 0.7, 0.5, 1.0, 1e16, 2.5])
            first = rng.choice([0.0, -1.0, -0.5, 0.25, -st])
            es = [first + st * i for i in range(n)] if rng.random() < 0.7 else [first + i * st for i in range(n - 1)] + [first + st * (n - 1)]
            if rng.random() < 0.3 and n >= 4:
                # irregular inside, regular at the three probed places
                j = rng.randrange(2, n - 1)
                es[j] = es[j] + rng.choice([0.5, 0.25, 0.3]) * st
                if j == n - 2 and rng.random() < 0.5:
                    es[j] = es[n - 1]                 # a zero-width last piece
            sg = [[C.bits(e), C.bits(float(10 * (i + 1)))] for i, e in enumerate(es)]
            xs = []
            for e in es:
                b = C.bits(e)
                xs += [b, C.next_down(b), C.next_up(b), C.bits(e - 0.3 * st), C.bits(e + 0.4 * st)]
            xs += [C.bits(-5e-324), C.bits(5e-324), C.bits(-1e-17), C.bits(0.6), C.bits(2.2), C.bits(2.5)]
            out.append(dict(op="pw_eval", ty="Poly0", segs=sg, xs=xs, meta={"class": "pw_eval/regular_grid"}))
        out.append(dict(op="pw_eval", ty="Poly0", segs=[], xs=[0], meta={"class": "empty"}))
        return out

    def coq_term(self, case, h):
        ln = C.ztable(h.get("ln", []))
        ex = C.ztable(h.get("exp", []))
        return "run_pw_eval %s %s %s %s %s" % (ln, ex, C.kname("Segment<%s>::evaluate" % case["ty"]),
                                               C.zlistlist(case["segs"]), C.zlist(case["xs"]))

    def oracle(self, case, h):
        """selection rule recomputed independently: first end > x else last; value from the tag (Poly0)"""
        if case["op"] != "pw_eval":
            return None
        segs = case["segs"]
        if not segs:
            return None if h["r"] == "PANIC" else "empty piecewise did not panic"
        if h["r"] == "PANIC":
            return "panic on non-empty piecewise: %s" % h.get("msg")
        if case["ty"] == "Poly1":
            # exact: value = fma(c1, x, c0) of the selected piece at x itself
            for xb, rb in zip(case["xs"], h["r"]):
                x = C.fl(xb)
                sel = next((s for s in segs if C.fl(s[0]) > x), segs[-1])
                exp = C.bits(C.fma_exact(C.fl(sel[2]), x, C.fl(sel[1])))
                if C.canon(rb) != C.canon(exp):
                    return "at x=%r (bits 0x%016x) the selected piece %r evaluates to 0x%016x, got 0x%016x" % (x, xb, [C.fl(b) for b in sel], exp, rb)
            return None
        if case["ty"] != "Poly0":
            return None
        for xb, rb in zip(case["xs"], h["r"]):
            x = C.fl(xb)
            sel = None
            for s in segs:
                if C.fl(s[0]) > x:
                    sel = s
                    break
            if sel is None:
                sel = segs[-1]
            if C.canon(sel[1]) != C.canon(rb):
                return "x=%r (0x%016x): expected tag 0x%016x of the first segment with end > x, got 0x%016x" % (x, xb, sel[1], rb)
        return None

    def nontrivial_key(self, case, h):
        if len(case.get("segs", [])) < 2 or h["r"] == "PANIC":
            return None
        if len(set(h["r"])) < 2:
            return None
        return super().nontrivial_key(case, h)


PROP = P()
