from vlib import common as C, gens as G
from vlib.driver import Prop


class P(Prop):
    ID = "C02"
    MODULE = "C02"
    THEOREMS = ["C02_first", "C02_last", "C02_total", "C02_char", "C02_halfopen", "C02_idx", "C02_breakpoint",
                "C02_minus_infinity", "C02_plus_infinity", "C02_example"]
    KERNELS = ["Segment<Poly0>::evaluate", "Segment<Poly3>::evaluate", "Segment<Poly8>::evaluate",
               "Segment<IntOfLogPoly4>::evaluate"]
    RULE = ("segment lists of 1..12 (thorough ..200) pieces with non-decreasing non-NaN ends (increasing, duplicate, "
            "zero-width, +-0, +-inf, wide range) over Poly0 tags / Poly3 / Poly8 / IntOfLogPoly4; queries at ends, "
            "ulp-neighbours of ends, beyond extremes, +-inf, midpoints, random. non-trivial = at least 2 segments "
            "and the batch of queries selects at least 2 different segments; distinct by full input")
    TRUSTED = ["hand-written skeleton PwModel.pw_eval/select tied to Piecewise::evaluate by bit-exact correspondence"]
    ASSUMPTIONS = ["rustc/LLVM implement f64 comparison per IEEE-754", "generic instantiations not exercised by the harness behave like the exercised ones"]

    def cases(self, rng, tier):
        n = 120 if tier == "quick" else 1500
        out = []
        for i in range(n):
            ty = rng.choice(["Poly0", "Poly0", "Poly3", "Poly8", "IntOfLogPoly4"])
            maxn = 12 if tier == "quick" or rng.random() < 0.9 else 200
            k = rng.randint(1, maxn)
            if ty == "Poly0":
                es, sg = G.tag_segs(rng, k)
            else:
                es, sg = G.segs(rng, ty, k)
            xs = G.queries(rng, es, 12)
            out.append(dict(op="pw_eval", ty=ty, segs=sg, xs=xs, libm=G.uses_libm(ty), meta={"class": "pw_eval/" + ty}))
        out.append(dict(op="pw_eval", ty="Poly0", segs=[], xs=[0], meta={"class": "empty"}))
        return out

    def coq_term(self, case, h):
        ln = C.ztable(h.get("ln", []))
        ex = C.ztable(h.get("exp", []))
        return "run_pw_eval %s %s %s %s %s" % (ln, ex, C.kname("Segment<%s>::evaluate" % case["ty"]),
                                               C.zlistlist(case["segs"]), C.zlist(case["xs"]))

    def oracle(self, case, h):
        """selection rule recomputed independently: first end > x else last; value from the tag (Poly0)"""
        if case["op"] != "pw_eval":
            return None
        segs = case["segs"]
        if not segs:
            return None if h["r"] == "PANIC" else "empty piecewise did not panic"
        if h["r"] == "PANIC":
            return "panic on non-empty piecewise: %s" % h.get("msg")
        if case["ty"] != "Poly0":
            return None
        for xb, rb in zip(case["xs"], h["r"]):
            x = C.fl(xb)
            sel = None
            for s in segs:
                if C.fl(s[0]) > x:
                    sel = s
                    break
            if sel is None:
                sel = segs[-1]
            if C.canon(sel[1]) != C.canon(rb):
                return "x=%r (0x%016x): expected tag 0x%016x of the first segment with end > x, got 0x%016x" % (x, xb, sel[1], rb)
        return None

    def nontrivial_key(self, case, h):
        if len(case.get("segs", [])) < 2 or h["r"] == "PANIC":
            return None
        if len(set(h["r"])) < 2:
            return None
        return super().nontrivial_key(case, h)


PROP = P()
