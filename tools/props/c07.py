from fractions import Fraction
from vlib import common as C, gens as G
from vlib.driver import Prop
from props import kernels as K
from props.c01 import fr, finite, poly_exact, U

LO, HI = Fraction(1, 2 ** 900), Fraction(2 ** 900)


class P(Prop):
    ID = "C07"
    MODULE = "C07"
    THEOREMS = (["C07_shapes", "C07_lane_rounded"] +
                ["C07_Poly%d_%s" % (k, w) for k in range(8) for w in ("indefinite", "integral", "knot", "knot_float")] +
                ["C07_Poly%d_roundtrip_lanes" % k for k in range(8)] +
                ["C07_Poly%d_knot_hypotheses_hold" % k for k in range(8)] + ["C07_roundtrip_hypotheses_hold"] +
                ["C07_antiderivative", "C07_roundtrip_exact", "C07_roundtrip_one_ulp", "C07_divisors_ok",
                 "C07_roundtrip_refuted_when_subnormal", "C07_example"])
    KERNELS = (["Poly%d::indefinite" % k for k in range(8)] + ["Poly%d::integral" % k for k in range(8)] +
               ["Segment<Poly%d>::indefinite" % k for k in range(8)] + ["Segment<Poly%d>::integral" % k for k in range(8)] +
               ["Poly%d::derivative" % k for k in range(1, 9)])
    RULE = ("PolyK::indefinite/integral and the Segment variants (K=0..7): lanes checked in Coq for all inputs; kernels run "
            "bit-exactly against the crate on all finite coefficient styles and knots with x in {0, +-tiny (< 2^-52), +-1, "
            "+-huge, random}, sparse polynomials (exact zeros in arbitrary lanes), incl. the all-zero polynomial with non-zero knot.y; the exact rational oracle checks the "
            "coefficients (correctly rounded c_i/(i+1)), F(knot.x)=knot.y within the rounding bound, and the 1-ulp round trip "
            "derivative(indefinite p) on EVERY finite coefficient incl. a class whose quotients are subnormal (known finding D4). non-trivial = degree>=1 and knot.x not in {0,1}; distinct by input")
    TRUSTED = ["translator rs2coq"]
    ASSUMPTIONS = ["IEEE-754 binary64 division / fma"]

    def knot(self, rng):
        x = rng.choice([0.0, -0.0, 1.0, -1.0, 2.0 ** -60, -2.0 ** -60, 2.0 ** -53, 1e-300, 1e8, -3e5,
                        rng.uniform(-4, 4), rng.uniform(-4, 4), rng.f64_loguniform(-30, 20)])
        y = rng.choice([0.0, 3.0, -4.0, rng.uniform(-10, 10), rng.f64_loguniform(-20, 20)])
        return x, y

    def tiny_coeffs(self, rng, n):
        """coefficients around the bottom of the binary64 range: quotients c_i/(i+1) subnormal or barely normal"""
        out = []
        for _ in range(n):
            r = rng.random()
            if r < 0.4:
                out.append(C.fl(rng.randint(1, 40)) * rng.choice([1.0, -1.0]))       # a few units of the smallest subnormal
            elif r < 0.7:
                out.append(rng.choice([1.0, -1.0]) * 2.0 ** -1022 * rng.uniform(0.5, 12.0))
            elif r < 0.85:
                out.append(rng.choice([1.0, -1.0]) * 2.0 ** rng.randint(-1074, -1015))
            else:
                out.append(rng.uniform(-2, 2))
        return out

    def coeffs(self, rng, n):
        cs = self.coeffs0(rng, n)
        if n >= 2 and rng.random() < 0.3:
            # sparse polynomials: exact zeros in some lanes (any lane, incl. next to the leading one), the rest untouched
            for i in range(n):
                if rng.random() < 0.4:
                    cs[i] = rng.choice([0.0, 0.0, -0.0])
            if rng.random() < 0.5 and cs[-1] == 0:
                cs[-1] = rng.choice([8.0, -3.0, rng.uniform(-2, 2)])
        return cs

    def coeffs0(self, rng, n):
        r = rng.random()
        if r < 0.12:
            return [rng.choice([0.0, -0.0]) for _ in range(n)]
        if r < 0.3:
            return [rng.small_int(-9, 9) for _ in range(n)]
        if r < 0.45:
            return [2.0 ** rng.randint(40, 80)] + [rng.uniform(-2, 2) for _ in range(n - 1)]
        return [K.rand_arg(rng, "finite") for _ in range(n)]

    def cases(self, rng, tier):
        per = 6 if tier == "quick" else 90
        out = []
        for k in range(8):
            for _ in range(per):
                cs = self.coeffs(rng, k + 1)
                x, y = self.knot(rng)
                out.append(K.kernel_case("Poly%d::integral" % k, cs + [x, y], cls="integral"))
            for _ in range(max(2, per // 2)):
                out.append(K.kernel_case("Poly%d::indefinite" % k, self.coeffs(rng, k + 1), cls="indefinite"))
            for _ in range(max(2, per // 3)):
                out.append(K.kernel_case("Poly%d::indefinite" % k, self.tiny_coeffs(rng, k + 1), cls="indefinite/tiny"))
            for _ in range(max(1, per // 3)):
                cs = self.coeffs(rng, k + 1)
                x, y = self.knot(rng)
                e = rng.uniform(-5, 5)
                out.append(K.kernel_case("Segment<Poly%d>::integral" % k, [e] + cs + [x, y], cls="seg_integral"))
                out.append(K.kernel_case("Segment<Poly%d>::indefinite" % k, [e] + cs, cls="seg_indefinite"))
            # anchors at |x| = 2^100 .. 2^250 (either sign), coefficients scaled so that every term of F(knot.x) is an ordinary number
            for _ in range(max(2, per // 3)):
                import math
                e = rng.randint(100, min(250, 900 // (k + 1)))
                kx = rng.choice([1.0, -1.0]) * math.ldexp(1.0, e)
                cs = [rng.choice([3.0, -1.0, 1.0, 0.5]) * math.ldexp(1.0, -e * (i + 1) + rng.randint(-2, 2)) for i in range(k + 1)]
                out.append(K.kernel_case("Poly%d::integral" % k, cs + [kx, rng.choice([10.0, -3.0, 0.0])], cls="integral/huge_anchor"))
            # coefficient vectors with ratios far beyond 2^52 between entries (nothing is "negligible": each lane is divided on its own)
            for _ in range(max(2, per // 3)):
                cs = [rng.choice([2.0 ** 60, 3.0, 2.0 ** -40, 0.0, 1.0, -2.0 ** 70, 5e-20]) for _ in range(k + 1)]
                out.append(K.kernel_case("Poly%d::indefinite" % k, cs, cls="indefinite/wide_ratio"))
                out.append(K.kernel_case("Poly%d::integral" % k, cs + [rng.choice([2.0, -0.5]), 1.0], cls="integral/wide_ratio"))
            # the knot abscissa an exact root of the INTEGRAND (small integer roots), the antiderivative not zero there
            if k >= 1:
                for _ in range(max(2, per // 3)):
                    roots = [rng.randint(-6, 6) for _ in range(k)]
                    pc = [1]
                    for r0 in roots:
                        pc = [(pc[i - 1] if i > 0 else 0) - r0 * (pc[i] if i < len(pc) else 0) for i in range(len(pc) + 1)]
                    lead = rng.choice([1.0, 3.0, -2.0, 6.0])
                    cs = [lead * float(c) for c in pc]
                    out.append(K.kernel_case("Poly%d::integral" % k, cs + [float(rng.choice(roots)), rng.choice([5.0, -1.5, 0.0, rng.uniform(-9, 9)])], cls="integral/root_knot"))
            # round trip through the crate's own derivative: Poly(k+1)::derivative applied to the correctly rounded quotients
            # c_i/(i+1) (what indefinite returns - checked lane by lane above); quotients kept normal (outside the D4 class)
            for _ in range(max(3, per // 2)):
                st = rng.choice(["ordinary", "huge", "huge", "mixed", "ints"])
                if st == "ordinary":
                    cs = [K.rand_arg(rng, "finite") for _ in range(k + 1)]
                elif st == "ints":
                    cs = [rng.small_int(-9, 9) for _ in range(k + 1)]
                elif st == "huge":
                    cs = [rng.choice([1.0, -1.0]) * rng.uniform(0.5, 0.99) * 1.7976931348623157e308 for _ in range(k + 1)]
                else:
                    cs = [rng.choice([rng.uniform(-3, 3), rng.choice([1.0, -1.0]) * rng.uniform(0.86, 0.99) * 1.7976931348623157e308, 0.0, 2.0 ** rng.randint(-900, 900)])
                          for _ in range(k + 1)]
                cs = [c if (c == 0 or abs(c) >= 2.0 ** -1000) else 0.0 for c in cs]
                # ... and away from the very top of the range: (i+1) * round(c/(i+1)) may round up past f64::MAX for |c| within an ulp of it
                cs = [c if abs(c) <= 0.99 * 1.7976931348623157e308 else 0.99 * c for c in cs]
                q = [rng.choice([0.0, 2.5])] + [cs[i] / float(i + 1) for i in range(k + 1)]
                c_ = K.kernel_case("Poly%d::derivative" % (k + 1), q, cls="roundtrip/" + st)
                c_["meta"]["orig"] = [C.bits(c) for c in cs]
                out.append(c_)
        return out

    def hyp_term(self, case, h):
        # `safe` for the integral kernel itself (the composed term of C07_PolyK_knot_float contains it)
        if case["op"] == "k" and case["name"].endswith("::integral") and case["name"].startswith("Poly"):
            return "hyp_safe (tl %s) %s" % (C.kname(case["name"]), C.zlist(case["args"]))
        return None

    def coq_term(self, case, h):
        return K.kernel_term(case, h)

    def oracle(self, case, h):
        if h["r"] == "PANIC":
            return "integration panicked: %s" % h.get("msg")
        ty, meth = K.split_kernel(case["name"])
        args, r = case["args"], h["r"]
        if meth == "derivative":
            orig = case.get("meta", {}).get("orig")
            if not orig:
                return None
            # the arguments must BE the correctly rounded quotients of the recorded polynomial (a shrunk or edited case is not a round trip)
            if len(args) != len(orig) + 1 or any(C.bits(C.fl(ob) / float(i + 1)) != args[i + 1] for i, ob in enumerate(orig)):
                return None
            for i, ob in enumerate(orig):
                if not finite(r[i]):
                    return "%s::derivative applied to indefinite(p) returns coefficient %d as %r; p has %r there" % (ty, i, C.fl(r[i]), C.fl(ob))
                ulps = abs(C.ordered_key(r[i]) - C.ordered_key(ob))
                if ulps > 1 and not (C.fl(r[i]) == 0.0 and C.fl(ob) == 0.0):
                    return "%s::derivative applied to indefinite(p) returns coefficient %d as %r, %d ulps from %r" % (ty, i, C.fl(r[i]), ulps, C.fl(ob))
            return None
        seg = ty.startswith("Segment<")
        if seg:
            if C.canon(r[0]) != C.canon(args[0]):
                return "%s::%s changed the breakpoint" % (ty, meth)
            args, r = args[1:], r[1:]
        n = len(r) - 1                  # degree of the input + 1 = number of input coefficients
        cs = [C.fl(b) for b in args[:n]]
        if not all(finite(b) for b in args):
            return None
        # coefficients: c_i/(i+1) correctly rounded, lane 1 = c0 itself
        for i in range(n):
            exp = cs[i] / float(i + 1)
            if C.canon(r[i + 1]) != C.canon(C.bits(exp)):
                return "%s::%s coefficient %d is %r, the correctly rounded c_%d/%d is %r" % (ty, meth, i + 1, C.fl(r[i + 1]), i, i + 1, exp)
        if meth == "indefinite":
            if C.fl(r[0]) != 0.0:
                return "indefinite() has constant term %r, not 0" % C.fl(r[0])
            # round trip: derivative(indefinite p) within one ulp of p
            for i in range(1, n):
                back = float(i + 1) * C.fl(r[i + 1])
                if back == back and abs(back) != float("inf"):
                    ulps = abs(C.ordered_key(C.bits(back)) - C.ordered_key(C.bits(cs[i])))
                    if ulps > 1:
                        return "derivative(indefinite) returns coefficient %d as %r, %d ulps from %r" % (i, back, ulps, cs[i])
            return None
        # integral: F(knot.x) = knot.y within rounding, evaluated exactly from the RETURNED coefficients
        kx, ky = fr(args[n]), fr(args[n + 1])
        if not all(finite(b) for b in r):
            return None
        out = [fr(b) for b in r]
        terms = [abs(c) * abs(kx) ** i for i, c in enumerate(out)]
        if any(t != 0 and not (LO <= t <= HI) for t in terms) or (kx != 0 and not (LO <= abs(kx) <= HI)):
            return None
        val, mag = poly_exact(out, kx)
        bound = 4 * (n + 3) * U * (mag + abs(ky)) + Fraction(1, 2 ** 1070)
        if abs(val - ky) > bound:
            return "%s::integral: F(knot.x) = %r but knot.y = %r (difference %.3e, rounding bound %.3e)" % (
                ty, float(val), float(ky), float(abs(val - ky)), float(bound))
        return None

    def nontrivial_key(self, case, h):
        ty, meth = K.split_kernel(case["name"])
        if meth == "integral":
            kx = C.fl(case["args"][-2])
            if kx in (0.0, 1.0) or len(case["args"]) < 4:
                return None
        return super().nontrivial_key(case, h)


PROP = P()
