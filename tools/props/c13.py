from vlib import common as C, gens as G
from vlib.driver import Prop
from props.c03 import py_select


def q4_piece(rng):
    r = rng.random()
    if r < 0.12:
        # a pure constant (step functions, offsets): every number but k is zero
        return [C.bits(rng.choice([5.0, -2.0, rng.uniform(-3, 3)]))] + [C.bits(rng.choice([0.0, 0.0, -0.0])) for _ in range(5)]
    if r < 0.2:
        return [C.bits(rng.choice([0.0, -0.0])) for _ in range(6)]
    return [C.bits(G.coeff(rng, rng.choice(["int", "int", "small", "log"]))) for _ in range(6)]


def operand_pair(rng, maxn):
    shape = rng.choice(["indep", "interleaved", "nested", "identical", "dups", "single", "shared"])
    n1, n2 = rng.randint(1, maxn), rng.randint(1, maxn)
    if shape == "identical":
        e1 = G.ends(rng, n1)
        e2 = list(e1)
    elif shape == "interleaved":
        base = [float(i) for i in range(n1 + n2)]
        e1 = base[0::2][:n1] or [0.0]
        e2 = base[1::2][:n2] or [1.0]
    elif shape == "nested":
        e1 = [float(i) for i in range(n1)]
        lo, hi = 0.25, max(0.5, n1 - 1.25)
        e2 = sorted(rng.uniform(lo, hi) for _ in range(n2))
    elif shape == "dups":
        e1 = G.ends(rng, n1, "dups")
        e2 = G.ends(rng, n2, "dups")
    elif shape == "single":
        e1 = G.ends(rng, 1)
        e2 = G.ends(rng, n2)
        if rng.random() < 0.5:
            e1, e2 = e2, e1
    elif shape == "shared":
        pool = sorted(set(float(rng.randint(-4, 8)) for _ in range(n1 + n2)))
        e1 = sorted(rng.sample(pool, min(len(pool), n1)))
        e2 = sorted(rng.sample(pool, min(len(pool), n2)))
    else:
        e1 = G.ends(rng, n1)
        e2 = G.ends(rng, n2)
    f = [[C.bits(e)] + q4_piece(rng) for e in e1]
    g = [[C.bits(e)] + q4_piece(rng) for e in e2]
    return shape, f, g


class P(Prop):
    ID = "C13"
    MODULE = "C13"
    THEOREMS = ["C13_total", "C13_pointwise", "C13_sorted", "C13_empty", "C13_nan", "C13_example"]
    KERNELS = ["&IntOfLogPoly4::add", "&IntOfLogPoly4::sub"]
    RULE = ("&f + &g and &f - &g over Piecewise<IntOfLogPoly4> (the only piece type with reference operators): operand pairs "
            "of 1..8 (thorough ..40) pieces - independent, interleaved, nested, identical, duplicate, shared ends, one single "
            "piece; malformed stream: NaN ends, empty operands (both sides must panic). Each Rust copy (Add, Sub) has its own "
            "stream. non-trivial = both operands >= 2 pieces and result has >= 3 pieces; distinct by full input"
            " Also: pw_merge_eval - (f+-g)(x), f(x), g(x) all through the crate on constant staircases whose result has more than 64 pieces and on pieces whose log-coefficients cancel; exact ties at breakpoints beyond f64::MAX/2.")
    TRUSTED = ["skeleton PwModel.merge (one transcription) tied to BOTH Rust copies (Add and Sub impls) by separate correspondence streams"]
    ASSUMPTIONS = ["partial_cmp returns None exactly on NaN", "usize arithmetic: len()-1 on an empty operand panics (debug) or indexes out of bounds (release)"]

    def cases(self, rng, tier):
        n = 140 if tier == "quick" else 1600
        maxn = 8 if tier == "quick" else 40
        out = []
        for i in range(n):
            shape, f, g = operand_pair(rng, maxn if rng.random() < 0.15 else 8)
            op = "pw_add" if i % 2 == 0 else "pw_sub"
            out.append(dict(op=op, f=f, g=g, meta={"class": op + "/" + shape}))
        for n1, n2 in ((17, 3), (3, 18), (33, 32), (65, 64), (1, 70), (100, 2)):
            for op in ("pw_add", "pw_sub"):
                e1 = sorted(rng.uniform(0, 50) for _ in range(n1))
                e2 = sorted(rng.choice(e1 + [rng.uniform(0, 60)]) for _ in range(n2))
                f = [[C.bits(e)] + q4_piece(rng) for e in e1]
                g = [[C.bits(e)] + q4_piece(rng) for e in e2]
                out.append(dict(op=op, f=f, g=g, meta={"class": op + "/long"}))
        # the VALUE clause through the crate's own evaluation: constant staircases (every number but k zero, so that sums of values
        # are exact), operands of up to 64 pieces whose sum / difference has more than 64, arguments on every breakpoint, between
        # them and beyond both ends
        for n1, n2 in ((5, 7), (16, 17), (33, 34), (40, 40), (64, 64), (60, 10), (2, 64)):
            for sub in (False, True):
                # positive abscissae only: the pieces are log-integral forms, evaluated through ln
                e1 = [float(i + 1) for i in range(n1)]
                e2 = [i + 1.5 for i in range(n2)] if rng.random() < 0.7 else [float(2 * (i + 1)) for i in range(n2)]
                zero = [C.bits(0.0)] * 5
                f = [[C.bits(e), C.bits(float(1000 + i))] + zero for i, e in enumerate(e1)]
                g = [[C.bits(e), C.bits(float(7 * (i + 1)))] + zero for i, e in enumerate(e2)]
                pts = sorted(set(e1 + e2))
                xs = [pts[0] * 0.5] + pts + [p_ + 0.25 for p_ in pts] + [pts[-1] + 5.0]
                out.append(dict(op="pw_merge_eval", sub=sub, f=f, g=g, xs=[C.bits(x) for x in xs], meta={"class": "merge_eval/staircase"}))
        # pieces whose four log-coefficients cancel exactly in the sum / difference while the tail coefficient u does not: the value is
        # still f(x) +- g(x) (within the rounding of the evaluations), it is not the bare constant
        for _ in range(8 if tier == "quick" else 80):
            sub = rng.random() < 0.5
            n1, n2 = rng.randint(1, 5), rng.randint(1, 5)
            e1 = [float(i + 1) for i in range(n1)]
            e2 = [i + 1.5 for i in range(n2)]
            cf = [rng.choice([1.0, -2.0, 0.5, 3.0]) for _ in range(4)]
            f = [[C.bits(e), C.bits(float(5 + i))] + [C.bits(c) for c in cf] + [C.bits(rng.choice([1.0, 2.0, -4.0]))] for i, e in enumerate(e1)]
            g = [[C.bits(e), C.bits(float(2 * i))] + [C.bits(c if sub else -c) for c in cf] + [C.bits(rng.choice([1.0, 0.5, 8.0]))] for i, e in enumerate(e2)]
            pts = sorted(set(e1 + e2))
            xs = [0.5, 0.75] + pts + [p_ + 0.25 for p_ in pts] + [pts[-1] + 5.0, 30.0]
            out.append(dict(op="pw_merge_eval", sub=sub, f=f, g=g, xs=[C.bits(x) for x in xs], approx=True, meta={"class": "merge_eval/cancelling_coeffs"}))
        # exact ties at breakpoints beyond f64::MAX/2 (and ordinary ones): any arithmetic on the two equal ends can overflow
        for op in ("pw_add", "pw_sub"):
            for _ in range(3 if tier == "quick" else 30):
                pool = [-1.7e308, -1.2e308, -9e307, -1.0, 0.0, 2.5, 9e307, 1.0e308, 1.3e308, 1.7976931348623157e308]
                e1 = sorted(rng.sample(pool, rng.randint(2, 6)))
                e2 = sorted(set(rng.sample(e1, rng.randint(1, len(e1))) + rng.sample(pool, 2)))
                f = [[C.bits(e)] + q4_piece(rng) for e in e1]
                g = [[C.bits(e)] + q4_piece(rng) for e in e2]
                out.append(dict(op=op, f=f, g=g, meta={"class": op + "/huge_ties"}))
        # malformed stream
        for op in ("pw_add", "pw_sub"):
            shape, f, g = operand_pair(rng, 4)
            out.append(dict(op=op, f=[], g=g, meta={"class": op + "/empty_l"}))
            out.append(dict(op=op, f=f, g=[], meta={"class": op + "/empty_r"}))
            out.append(dict(op=op, f=[], g=[], meta={"class": op + "/empty_both"}))
            for _ in range(4):
                shape, f, g = operand_pair(rng, 5)
                tgt = rng.choice([f, g])
                tgt[rng.randrange(len(tgt))][0] = C.NAN_BITS
                out.append(dict(op=op, f=f, g=g, meta={"class": op + "/nan_end"}))
        return out

    def coq_term(self, case, h):
        if case["op"] == "pw_merge_eval":
            return None
        k = "&IntOfLogPoly4::add" if case["op"] == "pw_add" else "&IntOfLogPoly4::sub"
        return "run_merge [] [] %s %s %s" % (C.kname(k), C.zlistlist(case["f"]), C.zlistlist(case["g"]))

    def oracle(self, case, h):
        if case["op"] == "pw_merge_eval":
            if h["r"] == "PANIC":
                return "panic on well-formed operands: %s" % h.get("msg")
            r = h["r"][1:]
            for k, xb in enumerate(case["xs"]):
                hv, fv, gv = C.fl(r[3 * k]), C.fl(r[3 * k + 1]), C.fl(r[3 * k + 2])
                exp = fv - gv if case.get("sub") else fv + gv
                if exp != exp or not (C.fl(xb) > 0):
                    continue            # outside the domain of the log-integral pieces
                if case.get("approx"):
                    # non-constant pieces: the three evaluations round separately
                    if not (abs(hv - exp) <= 1e-9 * (abs(fv) + abs(gv) + 1.0)):
                        return "(f %s g)(%r) = %r but f(%r) = %r and g(%r) = %r (all evaluated by the crate; result has %d pieces)" % (
                            "-" if case.get("sub") else "+", C.fl(xb), hv, C.fl(xb), fv, C.fl(xb), gv, h["r"][0])
                    continue
                if hv != exp:
                    return "(f %s g)(%r) = %r but f(%r) = %r and g(%r) = %r (all evaluated by the crate; result has %d pieces)" % (
                        "-" if case.get("sub") else "+", C.fl(xb), hv, C.fl(xb), fv, C.fl(xb), gv, h["r"][0])
            return None
        f, g = case["f"], case["g"]
        wf = bool(f) and bool(g) and not any(C.is_nan_bits(s[0]) for s in f + g)
        if not wf:
            # documented rejections: empty operand must panic; a NaN end panics iff the comparison meets it
            if (not f or not g) and h["r"] != "PANIC":
                return "empty operand did not panic"
            return None
        if h["r"] == "PANIC":
            return "panic on well-formed operands: %s" % h.get("msg")
        r = h["r"]
        n = r[0]
        segs = [r[1 + 7 * i: 1 + 7 * (i + 1)] for i in range(n)]
        if n < 1 or n > len(f) + len(g) - 1:
            return "result has %d pieces for operands of %d and %d" % (n, len(f), len(g))
        fe = set(C.fl(s[0]) for s in f) | set(C.fl(s[0]) for s in g)
        prev = None
        for s in segs:
            e = C.fl(s[0])
            if e not in fe:
                return "result breakpoint %r is not a breakpoint of f or g" % e
            if prev is not None and e < prev:
                return "result breakpoints decrease: %r after %r" % (e, prev)
            prev = e
        xs = set()
        for s in f + g:
            b = s[0]
            xs |= {b, C.next_up(b), C.next_down(b)}
        xs |= {C.bits(float("inf")), C.bits(float("-inf"))}
        sign = 1.0 if case["op"] == "pw_add" else -1.0
        for xb in xs:
            x = C.fl(xb)
            pf, pg, pr = py_select(f, x), py_select(g, x), py_select(segs, x)
            for a, b, c in zip(pf[1:], pg[1:], pr[1:]):
                exp = C.bits(C.fl(a) + C.fl(b)) if sign > 0 else C.bits(C.fl(a) - C.fl(b))
                if C.canon(exp) != C.canon(c):
                    return "at x=%r the result piece is not %s of the pieces selected in f and g" % (x, "the sum" if sign > 0 else "the difference")
        return None

    def nontrivial_key(self, case, h):
        if h["r"] == "PANIC" or len(case["f"]) < 2 or len(case["g"]) < 2 or h["r"][0] < 3:
            return None
        return super().nontrivial_key(case, h)


PROP = P()
