from vlib import common as C, gens as G
from vlib.driver import Prop
from props.c03 import py_select, history


class P(Prop):
    ID = "C12"
    MODULE = "C12"
    THEOREMS = ["C12_runmax", "C12_sorted", "C12_empty", "C12_example"]
    KERNELS = ["Poly0::evaluate", "Poly3::evaluate"]
    RULE = ("evaluate_v on sequences of 0..60 (thorough ..1000) non-NaN arguments, sorted and unsorted, repeats, exact ends, "
            "+-inf, over 1..12 segments; plus a laziness probe (input iterator counting pulls). non-trivial = >= 2 segments "
            "selected; distinct by full input")
    TRUSTED = ["skeleton PwModel.ev_v tied to Piecewise::evaluate_v by bit-exact correspondence",
               "laziness of the Rust iterator is observed by a test (pull counter), not modelled"]
    ASSUMPTIONS = ["IEEE-754 comparisons"]

    def cases(self, rng, tier):
        n = 100 if tier == "quick" else 1200
        out = []
        for i in range(n):
            ty = rng.choice(["Poly0", "Poly0", "Poly3"])
            k = rng.randint(1, 12)
            es, sg = G.tag_segs(rng, k) if ty == "Poly0" else G.segs(rng, ty, k)
            hl = rng.randint(0, 60 if tier == "quick" or rng.random() < 0.9 else 1000)
            xs = history(rng, es, hl) if hl else []
            if rng.random() < 0.5:
                xs = sorted(xs, key=C.ordered_key)
            op = "evaluate_v" if rng.random() < 0.85 else "evaluate_v_lazy"
            out.append(dict(op=op, ty=ty, segs=sg, xs=xs, meta={"class": op + "/" + ty}))
        out.append(dict(op="evaluate_v", ty="Poly0", segs=[], xs=[0], meta={"class": "empty"}))
        return out

    def coq_term(self, case, h):
        if case["op"] != "evaluate_v":
            return None
        return "run_evaluate_v [] [] %s %s %s" % (C.kname("%s::evaluate" % case["ty"]),
                                                  C.zlistlist(case["segs"]), C.zlist(case["xs"]))

    def oracle(self, case, h):
        segs = case["segs"]
        if not segs:
            return None if h["r"] == "PANIC" else "evaluate_v on empty piecewise did not panic"
        if h["r"] == "PANIC":
            return "evaluate_v panicked: %s" % h.get("msg")
        if case["op"] == "evaluate_v_lazy":
            r = h["r"]
            if r[0] != 0:
                return "evaluate_v pulled %d inputs before the first output was requested" % r[0]
            for k in range((len(r) - 1) // 2):
                if r[2 + 2 * k] != k + 1:
                    return "after %d outputs %d inputs had been pulled (not lazy / not in order)" % (k + 1, r[2 + 2 * k])
            answers = r[1::2]
        else:
            answers = h["r"]
        if len(answers) != len(case["xs"]):
            return "evaluate_v yielded %d values for %d arguments" % (len(answers), len(case["xs"]))
        if case["ty"] != "Poly0":
            return None
        m = None
        for k, xb in enumerate(case["xs"]):
            x = C.fl(xb)
            m = x if m is None or x > m else m
            exp = py_select(segs, m)[1]
            if C.canon(answers[k]) != C.canon(exp):
                return "argument %d x=%r running max=%r: got tag 0x%016x, expected 0x%016x" % (k, x, m, answers[k], exp)
        return None

    def nontrivial_key(self, case, h):
        if h["r"] == "PANIC" or len(case["segs"]) < 2:
            return None
        a = h["r"][1::2] if case["op"] == "evaluate_v_lazy" else h["r"]
        if len(set(a)) < 2:
            return None
        return super().nontrivial_key(case, h)


PROP = P()
