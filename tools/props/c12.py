from vlib import common as C, gens as G
from vlib.driver import Prop
from props.c03 import py_select, history


class P(Prop):
    ID = "C12"
    MODULE = "C12"
    THEOREMS = ["C12_runmax", "C12_sorted", "C12_empty", "C12_online", "C12_online_firstn", "C12_example"]
    KERNELS = ["Poly0::evaluate", "Poly3::evaluate", "Segment<Poly0>::evaluate", "Segment<Poly3>::evaluate"]
    RULE = ("evaluate_v on sequences of 0..60 (thorough ..1000) non-NaN arguments, sorted and unsorted, repeats, exact ends, "
            "+-inf, over 1..12 segments; the evaluate_v_pt op also runs Piecewise::evaluate on each argument and the oracle demands "
            "bit equality wherever the argument is >= all earlier ones; a signed-zero class (runs of -0.0/+0.0 arguments, pieces with -0.0 coefficients); plus a laziness probe (input iterator counting pulls). non-trivial = >= 2 segments "
            "selected; distinct by full input"
            " Also: 70..300 dense sorted arguments followed by jumps, unsorted arguments over non-constant pieces against the piece of the running maximum evaluated at the argument, the iterator consumed in stages (next, then for_each / fold), equally spaced breakpoints queried one ulp around every knot.")
    TRUSTED = ["skeleton PwModel.ev_v tied to Piecewise::evaluate_v by bit-exact correspondence",
               "laziness: value k depends on the first k+1 arguments only is a theorem (C12_online); that the Rust adaptor pulls no input early is observed by a test (pull counter)"]
    ASSUMPTIONS = ["IEEE-754 comparisons"]

    def cases(self, rng, tier):
        n = 100 if tier == "quick" else 1200
        out = []
        for i in range(n):
            ty = rng.choice(["Poly0", "Poly0", "Poly3"])
            k = rng.randint(1, 12)
            es, sg = G.tag_segs(rng, k) if ty == "Poly0" else G.segs(rng, ty, k)
            hl = rng.randint(0, 60 if tier == "quick" or rng.random() < 0.9 else 1000)
            xs = history(rng, es, hl) if hl else []
            if rng.random() < 0.5:
                xs = sorted(xs, key=C.ordered_key)
            op = rng.choice(["evaluate_v"] * 3 + ["evaluate_v_pt"] * 3 + ["evaluate_v_lazy"])
            out.append(dict(op=op, ty=ty, segs=sg, xs=xs, meta={"class": op + "/" + ty}))
        # signed zeros: equal arguments with different bits, pieces whose value depends on the sign of a zero argument
        Z = [C.bits(0.0), C.bits(-0.0)]
        for i in range(max(30, n // 8)):
            k = rng.randint(1, 4)
            es = sorted(rng.choice([-1.0, -0.0, 0.0, 0.0, 1.0, 2.0, float("inf")]) for _ in range(k))
            sg = [[C.bits(e), C.bits(rng.choice([-0.0, -0.0, 0.0, 1.0])), C.bits(rng.choice([1.0, -3.0, 5e-324, -0.0, 0.0]))]
                  + [C.bits(rng.choice([-0.0, 0.0, 1.0, -3.0])) for _ in range(2)] for e in es]
            xs = [rng.choice(Z + Z + [C.bits(-1.0), C.bits(5e-324), C.bits(-5e-324), C.bits(1.0)]) for _ in range(rng.randint(2, 12))]
            if rng.random() < 0.7:
                xs = sorted(xs, key=lambda b: C.fl(b))       # stable: keeps -0/+0 in drawn order
            out.append(dict(op="evaluate_v_pt", ty="Poly3", segs=sg, xs=xs, meta={"class": "signed_zero"}))
        for k in (9, 10, 17, 18, 33, 65, 100):
            es, sg = G.tag_segs(rng, k, "ints")
            xs = sorted(G.queries(rng, es, 40), key=C.ordered_key)
            out.append(dict(op="evaluate_v_pt", ty="Poly0", segs=sg, xs=xs, meta={"class": "long"}))
        for k in (32, 33, 64, 100):
            es, sg = G.tag_segs(rng, k, "ints")
            for _ in range(3):
                a, b = rng.uniform(es[0], es[-1]), rng.uniform(es[0], es[-1])
                xs = [C.bits(max(a, b)), C.bits(min(a, b))][:rng.choice([1, 2, 2])]
                out.append(dict(op="evaluate_v", ty="Poly0", segs=sg, xs=xs, meta={"class": "long/few_args"}))
        MIN_, MAX_ = -1.7976931348623157e308, 1.7976931348623157e308
        for es in ([MIN_, 0.0, MAX_, float("inf")], [MIN_, MIN_, 1.0], [float("-inf"), MIN_, 0.0], [MAX_, float("inf")]):
            sg = [[C.bits(e), C.bits(float(i + 1))] for i, e in enumerate(es)]
            xs = [C.bits(v) for v in (float("-inf"), float("-inf"), MIN_, -7.0, 0.0, MAX_, float("inf"))]
            out.append(dict(op="evaluate_v_pt", ty="Poly0", segs=sg, xs=xs, meta={"class": "extreme_ends"}))
        # long DENSE runs (70..300 sorted arguments that stay in the current piece or step to the next one) followed by jumps over
        # several breakpoints and beyond the last end: any adaptive mode switched on by the shape of the input so far shows here
        for _ in range(8 if tier == "quick" else 60):
            k = rng.randint(4, 12)
            es, sg = G.tag_segs(rng, k, "ints")
            lo = es[0] - 1.0
            xs, cur = [], lo
            dense = rng.randint(70, 300)
            upto = rng.choice([es[0] - 0.5, es[1] if k > 1 else es[0], es[min(k - 1, 2)]])
            for j in range(dense):
                cur = min(cur + (upto - lo) / dense * rng.choice([0.0, 1.0, 2.0]), upto)
                xs.append(C.bits(cur))
            far = [e + rng.choice([0.0, 0.25, -0.25]) for e in es if e > cur + 1.5] + [es[-1] + 1.0, es[-1] + 100.0]
            xs += [C.bits(v) for v in sorted(rng.choice(far) for _ in range(rng.randint(1, 5)))]
            xs = sorted(xs, key=lambda b: C.fl(b))
            out.append(dict(op="evaluate_v_pt", ty="Poly0", segs=sg, xs=xs, meta={"class": "dense_then_jump"}))
        # UNSORTED arguments over non-constant pieces: the piece is chosen by the running maximum but evaluated AT the argument (the
        # harness selects that piece itself, through the public fields, and evaluates it at the argument)
        for _ in range(24 if tier == "quick" else 300):
            ty = rng.choice(["Poly1", "Poly3", "Poly2"])
            k = rng.randint(1, 8)
            es, sg = G.segs(rng, ty, k)
            xs = history(rng, es, rng.randint(2, 30))
            if rng.random() < 0.3:
                # steps back below the start of the current piece, and small arguments after the maximum passed the last end
                hi = max(e for e in es if e == e)
                xs = xs[:3] + [C.bits(hi + 1.0)] + [C.bits(rng.uniform(min(es) - 2, hi)) for _ in range(6)]
            out.append(dict(op="evaluate_v_rm", ty=ty, segs=sg, xs=xs, meta={"class": "unsorted_nonconstant/" + ty}))
        # the iterator consumed in STAGES: a few values through next(), the rest through for_each / fold (unsorted arguments, so that a
        # cursor that is not carried over shows)
        for _ in range(16 if tier == "quick" else 200):
            k = rng.randint(2, 10)
            es, sg = G.tag_segs(rng, k, rng.choice(["ints", "inc"]))
            xs = history(rng, es, rng.randint(3, 20))
            if rng.random() < 0.6:
                hi = sorted(es)[-1]
                xs = [C.bits(hi - 0.5), C.bits(hi + 1.0)][:rng.randint(1, 2)] + xs
            out.append(dict(op="evaluate_v_mixed", ty="Poly0", segs=sg, xs=xs, take=rng.randint(0, min(4, len(xs))), meta={"class": "evaluate_v_mixed"}))
        # (nearly) equally spaced breakpoints with a negative first one, arguments one ulp below / above the knots, tiny negative ones
        for _ in range(12 if tier == "quick" else 150):
            n = rng.randint(3, 10)
            st = rng.choice([1.0, 0.5, 0.1, 1.0 / 3.0, 1e16, 0.7])
            first = rng.choice([-1.0, -st, -2.0 * st, 0.0, -0.5])
            es = [first + st * i for i in range(n)]
            sg = [[C.bits(e), C.bits(float(100 * (i + 1)))] for i, e in enumerate(es)]
            xs = []
            for e in es:
                b = C.bits(e)
                xs += [C.next_down(b), b, C.next_up(b)]
            xs += [C.bits(-1e-17), C.bits(-5e-324), C.bits(5e-324), C.bits(1.0 - 2.0 ** -53), C.bits(0.6)]
            xs = sorted(xs, key=lambda b: C.fl(b))
            out.append(dict(op="evaluate_v_pt", ty="Poly0", segs=sg, xs=xs, meta={"class": "regular_grid"}))
        out.append(dict(op="evaluate_v", ty="Poly0", segs=[], xs=[0], meta={"class": "empty"}))
        return out

    def coq_term(self, case, h):
        if case["op"] in ("evaluate_v_lazy", "evaluate_v_rm"):
            return None
        t = "run_evaluate_v [] [] %s %s %s" % (C.kname("%s::evaluate" % case["ty"]),
                                               C.zlistlist(case["segs"]), C.zlist(case["xs"]))
        if case["op"] == "evaluate_v_mixed":
            t = "(%s ++ %s)" % (t, t)
        if case["op"] == "evaluate_v_pt":
            t = "(%s ++ run_pw_eval [] [] %s %s %s)" % (t, C.kname("Segment<%s>::evaluate" % case["ty"]),
                                                        C.zlistlist(case["segs"]), C.zlist(case["xs"]))
        return t

    def oracle(self, case, h):
        segs = case["segs"]
        if not segs:
            return None if h["r"] == "PANIC" else "evaluate_v on empty piecewise did not panic"
        if h["r"] == "PANIC":
            return "evaluate_v panicked: %s" % h.get("msg")
        if case["op"] == "evaluate_v_lazy":
            r = h["r"]
            if r[0] != 0:
                return "evaluate_v pulled %d inputs before the first output was requested" % r[0]
            for k in range((len(r) - 1) // 2):
                if r[2 + 2 * k] != k + 1:
                    return "after %d outputs %d inputs had been pulled (not lazy / not in order)" % (k + 1, r[2 + 2 * k])
            answers = r[1::2]
        elif case["op"] == "evaluate_v_rm":
            r = h["r"]
            if len(r) != 2 * len(case["xs"]):
                return "evaluate_v yielded %d values for %d arguments" % (len(r) // 2, len(case["xs"]))
            m = None
            for k, xb in enumerate(case["xs"]):
                x = C.fl(xb)
                m = x if m is None or x > m else m
                if C.canon(r[2 * k]) != C.canon(r[2 * k + 1]):
                    return ("argument %d x=%r (running maximum %r): evaluate_v gave %r (0x%016x); the piece selected by the running "
                            "maximum, evaluated at the argument, gives %r (0x%016x)" % (k, x, m, C.fl(r[2 * k]), r[2 * k], C.fl(r[2 * k + 1]), r[2 * k + 1]))
            return None
        elif case["op"] == "evaluate_v_pt":
            n = len(case["xs"])
            if len(h["r"]) != 2 * n:
                return "evaluate_v yielded %d values for %d arguments" % (len(h["r"]) - n, n)
            answers, direct = h["r"][:n], h["r"][n:]
            m = None
            for k, xb in enumerate(case["xs"]):
                x = C.fl(xb)
                if m is None or x >= m:
                    # the running maximum is this argument: the batch answer must be the individually evaluated one
                    if C.canon(answers[k]) != C.canon(direct[k]):
                        return ("argument %d x=%r (>= every earlier argument): evaluate_v gave 0x%016x, evaluating it "
                                "individually gives 0x%016x" % (k, x, answers[k], direct[k]))
                    m = x
        elif case["op"] == "evaluate_v_mixed":
            n = len(case["xs"])
            if len(h["r"]) != 2 * n:
                return "evaluate_v consumed in stages (next x %d, then for_each / fold) yielded %d and %d values for %d arguments" % (
                    case.get("take", 0), min(len(h["r"]), n), max(0, len(h["r"]) - n), n)
            a1, a2 = h["r"][:n], h["r"][n:]
            m = None
            for k, xb in enumerate(case["xs"]):
                x = C.fl(xb)
                m = x if m is None or x > m else m
                exp = py_select(segs, m)[1]
                for nm, a in (("for_each", a1), ("fold", a2)):
                    if C.canon(a[k]) != C.canon(exp):
                        return "evaluate_v: %d values taken with next(), the rest with %s: argument %d x=%r running max=%r: got tag 0x%016x, expected 0x%016x" % (
                            case.get("take", 0), nm, k, x, m, a[k], exp)
            return None
        else:
            answers = h["r"]
        if len(answers) != len(case["xs"]):
            return "evaluate_v yielded %d values for %d arguments" % (len(answers), len(case["xs"]))
        if case["ty"] != "Poly0":
            return None
        m = None
        for k, xb in enumerate(case["xs"]):
            x = C.fl(xb)
            m = x if m is None or x > m else m
            exp = py_select(segs, m)[1]
            if C.canon(answers[k]) != C.canon(exp):
                return "argument %d x=%r running max=%r: got tag 0x%016x, expected 0x%016x" % (k, x, m, answers[k], exp)
        return None

    def nontrivial_key(self, case, h):
        if h["r"] == "PANIC" or len(case["segs"]) < 2:
            return None
        a = h["r"][1::2] if case["op"] == "evaluate_v_lazy" else (h["r"][0::2] if case["op"] == "evaluate_v_rm" else h["r"][:len(case["xs"])])
        if len(set(a)) < 2:
            return None
        return super().nontrivial_key(case, h)


PROP = P()
