from vlib import common as C, gens as G
from vlib.driver import Prop
from props import c03, c12, c13, c15


class P(Prop):
    ID = "C16"
    MODULE = "C16"
    THEOREMS = ["C16_direct_any", "C16_evaluator_any", "C16_evaluate_v_any", "C16_nan_harmless", "C16_linear", "C16_spline",
                "C16_merge", "C16_example"]
    KERNELS = ["Segment<Poly0>::evaluate", "Segment<IntOfLogPoly4>::evaluate", "Segment<Log<Poly2>>::evaluate", "Segment<IntOfLog<Poly3>>::evaluate", "Segment<Poly3>::evaluate", "Poly0::evaluate", "linear::incr_linear", "spline::f_dx", "spline::segment",
               "spline::f_x0", "spline::f_xn", "&IntOfLogPoly4::add"]
    RULE = ("query histories over ALL of f64 (NaN with several payloads / signs, +-inf at every position) for direct evaluation, "
            "the stateful evaluator (answers and cursor state) and evaluate_v; every constructor / operator on well-formed "
            "finite input and on each documented-rejection input (0..2 knots, empty piecewise, NaN ends in + and -); debug "
            "build with overflow checks. non-trivial = history contains a NaN followed by a non-NaN query, or a rejection input")
    TRUSTED = ["panics = None in the Gallina model; harness maps catch_unwind failures to the same value",
               "panics not arising from program logic (allocation failure, stack exhaustion) are not modelled"]
    ASSUMPTIONS = ["debug-build integer overflow checks are observed by running the debug harness (a test)"]

    def __init__(self):
        self.c03 = c03.P()
        self.c03.NAN = True
        self.c12 = c12.P()
        self.c13 = c13.P()
        self.c15 = c15.P()

    def cases(self, rng, tier):
        n = 80 if tier == "quick" else 900
        out = []
        for i in range(n):
            k = rng.randint(1, 8) if rng.random() < 0.8 else rng.randint(9, 60)
            es, sg = G.tag_segs(rng, k)
            xs = c03.history(rng, es, rng.randint(2, 30), nan=True)
            r = rng.random()
            if r < 0.5:
                out.append(dict(op="evaluator", ty="Poly0", segs=sg, xs=xs, meta={"class": "evaluator+nan"}))
            elif r < 0.75:
                out.append(dict(op="pw_eval", ty="Poly0", segs=sg, xs=xs, meta={"class": "pw_eval+nan"}))
            else:
                out.append(dict(op="evaluate_v", ty="Poly0", segs=sg, xs=xs, meta={"class": "evaluate_v+nan"}))
        # the D2 witness
        sg = [[C.bits(float(i + 1)), C.bits(float(10 * (i + 1)))] for i in range(4)]
        out.append(dict(op="evaluator", ty="Poly0", segs=sg, xs=[C.bits(2.5), C.NAN_BITS, C.bits(2.5)], meta={"class": "D2 witness"}))
        # rejections and well-formed constructor inputs
        for op, lo in (("linear", 2), ("spline", 3)):
            for nk in range(0, 7):
                x = rng.uniform(-3, 3)
                ks = []
                for _ in range(nk):
                    x += rng.uniform(0.1, 2.0)
                    ks.append([C.bits(x), C.bits(rng.uniform(-5, 5))])
                out.append(dict(op=op, knots=ks, meta={"class": "%s/%d knots" % (op, nk)}))
        for ty in ("IntOfLogPoly4", "Log<Poly2>", "IntOfLog<Poly3>", "Poly3"):
            es, sg = G.segs(rng, ty, 3, "ints")
            bad = [C.NAN_BITS, 0xFFF8000000000000, C.bits(-1.0), C.bits(float("-inf")), C.bits(0.0), C.bits(-0.0), C.bits(float("inf")), C.bits(2.0)]
            out.append(dict(op="pw_eval", ty=ty, segs=sg, xs=bad, libm=True, meta={"class": "pw_eval/undefined_log"}))
            out.append(dict(op="evaluator", ty=ty, segs=sg, xs=bad, libm=True, meta={"class": "evaluator/undefined_log"}))
        H = 1e308
        for ks in ([(-H, -H), (H, H), (1.5 * H, 0.0)], [(-H, H), (0.0, -H), (H, H)], [(-1.7e308, 1.0), (-1.0, 2.0), (1.7e308, -1.7e308)],
                   [(0.0, 0.0), (1.0, H), (2.0, -H), (3.0, H)]):
            kk = [[C.bits(a), C.bits(b)] for a, b in ks]
            out.append(dict(op="spline", knots=kk, meta={"class": "spline/huge"}))
            out.append(dict(op="linear", knots=kk, meta={"class": "linear/huge"}))
        # integration through an anchor at which the antiderivative overflows (or is inf - inf): the result has non-finite numbers,
        # it is not a panic
        from props import kernels as K_
        for k in range(8):
            for _ in range(2 if tier == "quick" else 20):
                cs = [rng.choice([1.0, -2.0, 1e300, -3e299, 1e150, 0.0]) for _ in range(k + 1)]
                kn = [rng.choice([1e80, -1e80, 1e10, 1e300, 2.0, -1e155]), rng.choice([0.0, 1e300, -5.0])]
                out.append(K_.kernel_case("Poly%d::integral" % k, cs + kn, cls="integral/overflow_at_anchor"))
                out.append(dict(op="pw_integral_all", ty="Poly%d" % k, segs=[[C.bits(rng.choice([1e10, 1e80, 5.0]))] + [C.bits(c) for c in cs],
                                                                           [C.bits(1e90)] + [C.bits(c) for c in cs]],
                                knot=[C.bits(kn[0]), C.bits(kn[1])], meta={"class": "pw_integral/overflow_at_anchor"}))
        out.append(dict(op="spline", knots=[[C.bits(0.0), C.bits(0.0)], [C.bits(1e80), C.bits(1e300)], [C.bits(2e80), C.bits(-1e300)], [C.bits(3e80), C.bits(1e300)]],
                        meta={"class": "spline/huge"}))
        for ty in ("Poly0",):
            out.append(dict(op="pw_eval", ty=ty, segs=[], xs=[0], meta={"class": "empty"}))
            out.append(dict(op="evaluator", ty=ty, segs=[], xs=[0], meta={"class": "empty"}))
            out.append(dict(op="evaluate_v", ty=ty, segs=[], xs=[0], meta={"class": "empty"}))
        # every operation on well-formed input: reuse the structured streams of the operator properties
        out += self.c13.cases(rng, "quick")
        out += [c for c in self.c15.cases(rng, "quick") if c["op"] == "pw_translate_polyn"]
        for cs in ([], [1.5], [0.0, 2.0, -1.0]):
            out.append(dict(op="polyn_translate", cs=[C.bits(c) for c in cs], s=C.bits(2.5), meta={"class": "polyn_translate/%d" % len(cs)}))
        return out

    def coq_term(self, case, h):
        op = case["op"]
        if op == "evaluator":
            return self.c03.coq_term(case, h)
        if op == "evaluate_v":
            return self.c12.coq_term(case, h)
        if op in ("pw_add", "pw_sub"):
            return self.c13.coq_term(case, h)
        if op == "pw_eval":
            return "run_pw_eval %s %s %s %s %s" % (C.ztable(h.get("ln", [])), C.ztable(h.get("exp", [])),
                                                   C.kname("Segment<%s>::evaluate" % case["ty"]),
                                                   C.zlistlist(case["segs"]), C.zlist(case["xs"]))
        if op == "pw_translate_polyn":
            return self.c15.coq_term(case, h)
        if op == "polyn_translate":
            return "run_polyn_translate %s %d" % (C.zlist(case["cs"]), case["s"])
        if op == "k":
            from props import kernels as K_
            return K_.kernel_term(case, h)
        if op == "linear":
            return "run_linear [] [] %s %s" % (C.kname("linear::incr_linear"), C.zlistlist(case["knots"]))
        if op == "spline":
            return "run_spline [] [] %s %s %s %s %s" % (C.kname("spline::f_dx"), C.kname("spline::f_x0"), C.kname("spline::f_xn"),
                                                        C.kname("spline::segment"), C.zlistlist(case["knots"]))
        return None

    def oracle(self, case, h):
        op = case["op"]
        if op == "evaluator":
            return self.c03.oracle(case, h)
        if op in ("pw_add", "pw_sub"):
            return self.c13.oracle(case, h)
        if op == "pw_translate_polyn":
            return self.c15.oracle(case, h)
        if op == "polyn_translate":
            return "PolyN::translate panicked on %d coefficients: %s" % (len(case["cs"]), h.get("msg")) if h["r"] == "PANIC" else None
        if op in ("pw_eval", "evaluate_v"):
            if not case["segs"]:
                return None if h["r"] == "PANIC" else "empty piecewise did not panic"
            if h["r"] == "PANIC":
                return "%s panicked on a non-empty piecewise: %s" % (op, h.get("msg"))
            return None
        if op in ("linear", "spline"):
            need = 2 if op == "linear" else 3
            if len(case["knots"]) < need:
                return None if h["r"] == "PANIC" else "%s accepted %d knots" % (op, len(case["knots"]))
            if h["r"] == "PANIC":
                return "%s panicked on %d well-formed knots: %s" % (op, len(case["knots"]), h.get("msg"))
            if h["r"][0] != len(case["knots"]) - 1:
                return "%s returned %d segments for %d knots" % (op, h["r"][0], len(case["knots"]))
            return None
        if op in ("k", "pw_integral_all", "pw_merge_eval") and h["r"] == "PANIC":
            return "%s %s panicked on well-formed finite input: %s" % (op, case.get("name") or case.get("ty") or "", h.get("msg"))
        return None

    def nontrivial_key(self, case, h):
        op = case["op"]
        if op in ("evaluator", "pw_eval", "evaluate_v") and case["segs"]:
            xs = case["xs"]
            ok = any(C.is_nan_bits(a) and not C.is_nan_bits(b) for a, b in zip(xs, xs[1:]))
            if not ok:
                return None
        return Prop.nontrivial_key(self, case, h)


PROP = P()
