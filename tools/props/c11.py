from fractions import Fraction
from vlib import common as C, gens as G, hp
from vlib.driver import Prop
from props import kernels as K
from props.c01 import fr, finite, poly_exact
from props.c09 import logq, quartic_mag

U = Fraction(1, 2 ** 53)
INTEGRABLE = ["Poly%d" % k for k in range(8)] + ["Log<Poly%d>" % k for k in range(9)]


def int_type(ty):
    if ty.startswith("Poly"):
        return "Poly%d" % (int(ty[4:]) + 1)
    k = int(ty[8])
    return "IntOfLogPoly4" if k == 4 else "IntOfLog<Poly%d>" % k


def split_segs(r, n):
    cnt = r[0]
    return [r[1 + i * (n + 1): 1 + (i + 1) * (n + 1)] for i in range(cnt)], 1 + cnt * (n + 1)


def eval_piece_exact(ity, nums, t):
    """exact (Fraction / mpmath) value and magnitude of an integral piece at t"""
    if ity.startswith("Poly"):
        v, m = poly_exact([fr(b) for b in nums], fr(C.bits(t)) if not isinstance(t, Fraction) else t)
        return v, m
    mp = hp.mpmath
    tt = hp.mpf(t)
    if ity == "IntOfLogPoly4":
        form = [C.fl(b) for b in nums]
        k, c, u = form[0], form[1:5], form[5]
        x = -mp.log(tt)
        s = hp.mpf(k)
        for j, cj in enumerate(c):
            s += tt * hp.mpf(cj) * x ** (j + 1)
        s += hp.mpf(u) * tt * (mp.exp(x) - sum(x ** j / mp.factorial(j) for j in range(5)))
        return s, quartic_mag(form, t)
    k = hp.mpf(C.fl(nums[0]))
    l = mp.log(tt)
    s = mp.mpf(0)
    m = mp.mpf(0)
    for i, b in enumerate(nums[1:]):
        term = hp.mpf(C.fl(b)) * l ** i
        s += term
        m += abs(term)
    return k + tt * s, abs(k) + abs(tt) * m


class P(Prop):
    ID = "C11"
    MODULE = "C11"
    THEOREMS = (["C11_%s%d%s" % (t, k, w) for t, ks in (("P", range(8)), ("L", range(9))) for k in ks
                 for w in ("_S1", "_S2", "_S3", "", "_first", "_indefinite")] + ["C11_indefinite_empty"] +
                ["C11_P%d_knot_float" % k for k in range(8)] + ["C11_knot_float_hypotheses_hold"] +
                ["C11_L%d_knot_float" % k for k in range(9) if k != 4] + ["C11_L4_knot_float_series", "C11_L4_knot_float_closed",
                                                                            "C11_log_knot_float_hypotheses_hold", "C11_L4_hypotheses_hold"])
    PINNED_EXTRA = ["C11F.v", "C11L.v"]
    KERNELS = (["Segment<%s>::integral" % t for t in INTEGRABLE] + ["Segment<%s>::indefinite" % t for t in INTEGRABLE] +
               ["Segment<%s>::evaluate" % int_type(t) for t in INTEGRABLE])
    RULE = ("Piecewise::integral / indefinite and both segment-integration iterators on 1..10 pieces over Poly0..7 and "
            "Log<Poly0..8> (positive breakpoints for logs), duplicate breakpoints, knots inside / at the edge of / beyond the "
            "first piece and far right of it; bit-exact model vs crate; oracle: same breakpoints, the three entry points agree, "
            "first piece through k0, adjacent pieces agree at every interior breakpoint within the rounding bound (exact "
            "rationals for polynomials, 400-bit arithmetic for logs). non-trivial = >= 3 pieces; distinct by input"
            " Also: both iterators consumed through nth / skip / step_by, 513..1025 (thorough ..1500) pieces, log pieces with breakpoints within 1% of 1.")
    TRUSTED = ["translator rs2coq", "skeleton PwModel.integral_iter / pw_indefinite (one model for by-value and by-ref iterators) tied by correspondence"]
    ASSUMPTIONS = ["libm ln/exp as oracles", "IEEE-754 arithmetic"]

    def cases(self, rng, tier):
        n = 110 if tier == "quick" else 1400
        out = []
        for i in range(n):
            ty = rng.choice(INTEGRABLE)
            log = ty.startswith("Log")
            k = rng.randint(1, 10)
            if log:
                x = rng.uniform(0.05, 2.0)
                es = []
                for _ in range(k):
                    x = x * rng.choice([1.0, 1.0 + rng.uniform(0.01, 1.5), 2.0]) if rng.random() < 0.85 else x
                    es.append(x)
            else:
                es = G.ends(rng, k, rng.choice(["inc", "dups", "ints", "zero_width"]))
            sg = [[C.bits(e)] + [C.bits(rng.choice([rng.small_int(-4, 4), rng.uniform(-2, 2)])) for _ in range(G.arity(ty))] for e in es]
            if rng.random() < 0.25:
                # low-degree pieces stored in a high-degree type: the upper coefficients are exactly zero
                keep = rng.randint(1, max(1, G.arity(ty) - 1))
                for sgm in sg:
                    for j in range(1 + keep, len(sgm)):
                        sgm[j] = C.bits(rng.choice([0.0, 0.0, -0.0]))
            first = es[0]
            if log:
                kx = rng.choice([first, first * 0.5, first * 0.9, first * 1.001, es[-1] * 2.0, 1.0, 16.0])
            else:
                kx = rng.choice([first, first - 1.0, first - 0.25, first + 2.0 ** -10, first + 1.5, es[-1] + 3.0, 0.0, 2.5])
            ky = rng.choice([0.0, 1.0, rng.uniform(-3, 3)])
            op = "pw_integral_all" if rng.random() < 0.75 else "pw_indefinite"
            c = dict(op=op, ty=ty, segs=sg, libm=log, meta={"class": op + "/" + ty.split("<")[0]})
            if op == "pw_integral_all":
                c["knot"] = [C.bits(kx), C.bits(ky)]
            out.append(c)
        # the two iterators consumed through nth / skip / step_by instead of a plain collect (same model: the list collect gives)
        for _ in range(16 if tier == "quick" else 200):
            ty = rng.choice(["Poly0", "Poly1", "Poly2", "Poly3", "Log<Poly1>", "Log<Poly2>"])
            log = ty.startswith("Log")
            k = rng.randint(1, 7)
            es = [0.5 * (i + 1) for i in range(k)]
            sg = [[C.bits(e)] + [C.bits(rng.choice([rng.small_int(-4, 4), rng.uniform(-2, 2)])) for _ in range(G.arity(ty))] for e in es]
            kn = [C.bits(rng.choice([0.25, 0.5, 1.0])), C.bits(rng.choice([0.0, 1.0, -2.0]))]
            out.append(dict(op="integral_iter_adaptors", ty=ty, segs=sg, knot=kn, libm=log, meta={"class": "integral/adaptors"}))
        for k in (513, 600, 1025) if tier == "quick" else (513, 600, 768, 769, 1025, 1500):
            ty = "Poly0"
            es = [float(i + 1) for i in range(k)]
            sg = [[C.bits(e), C.bits(float(i % 3 + 1))] for i, e in enumerate(es)]
            out.append(dict(op="pw_integral_all", ty=ty, segs=sg, knot=[C.bits(0.0), C.bits(1.0)], libm=False, meta={"class": "integral/very_long"}))
        for k in (17, 33, 65, 100):
            ty = rng.choice(["Poly1", "Poly2"])
            es = [float(i + 1) * 0.5 for i in range(k)]
            sg = [[C.bits(e)] + [C.bits(rng.small_int(-3, 3)) for _ in range(G.arity(ty))] for e in es]
            out.append(dict(op="pw_integral_all", ty=ty, segs=sg, knot=[C.bits(0.25), C.bits(1.0)], libm=False, meta={"class": "integral/long"}))
            out.append(dict(op="pw_indefinite", ty=ty, segs=sg, libm=False, meta={"class": "indefinite/long"}))
        for _ in range(12 if tier == "quick" else 150):
            ty = rng.choice(["Poly0", "Poly1", "Poly2", "Poly3", "Log<Poly1>", "Log<Poly2>"])
            log = ty.startswith("Log")
            k = rng.randint(2, 5)
            sc = rng.choice([2.0 ** -70, 1e-20, 1e-17, 2.0 ** -200])
            es = [float(2 ** i) for i in range(k)]
            sg = [[C.bits(e)] + [C.bits(sc * rng.choice([1.0, -2.0, 3.0, 0.5])) for _ in range(G.arity(ty))] for e in es]
            kn = [C.bits(rng.choice([1.0, 0.5, 2.0])), C.bits(sc * rng.choice([0.0, 1.0, -3.0]))]
            out.append(dict(op="pw_integral_all", ty=ty, segs=sg, knot=kn, libm=log, meta={"class": "integral/tiny_ordinates"}))
        for _ in range(6 if tier == "quick" else 60):
            ty = rng.choice(["Log<Poly1>", "Log<Poly2>", "Log<Poly3>"])
            es = [2.0 ** -1040, 2.0 ** -1030, 2.0 ** -1025][:rng.randint(2, 3)]
            sg = [[C.bits(e)] + [C.bits(rng.choice([1.0, -2.0, 3.0, 0.5])) for _ in range(G.arity(ty))] for e in es]
            kn = [C.bits(rng.choice([2.0 ** -1060, 2.0 ** -1045, 2.0 ** -1040])), C.bits(0.0)]
            out.append(dict(op="pw_integral_all", ty=ty, segs=sg, knot=kn, libm=True, meta={"class": "integral/subnormal_ends"}))
        # log pieces with breakpoints and the anchor within about 1% of 1 (|ln| tiny but not zero), the quartic degree in particular
        for _ in range(14 if tier == "quick" else 160):
            ty = rng.choice(["Log<Poly4>", "Log<Poly4>", "Log<Poly4>", "Log<Poly2>", "Log<Poly5>"])
            k = rng.randint(2, 5)
            es = sorted(set(1.0 + rng.choice([-1, 1]) * rng.choice([rng.uniform(1e-4, 1.2e-2), 2.0 ** -rng.randint(7, 30), rng.uniform(1e-7, 1e-4)]) for _ in range(k)))
            if rng.random() < 0.4:
                es.append(rng.choice([1.5, 2.0, 7.0]))
            sg = [[C.bits(e)] + [C.bits(rng.choice([rng.small_int(-4, 4), rng.uniform(-2, 2)])) for _ in range(G.arity(ty))] for e in es]
            kx = rng.choice([es[0], 0.5, 0.996, 1.0, 1.0 - 2.0 ** -12, es[0] * 0.999])
            kn = [C.bits(kx), C.bits(rng.choice([0.0, 1.0, rng.uniform(-3, 3)]))]
            out.append(dict(op="pw_integral_all", ty=ty, segs=sg, knot=kn, libm=True, meta={"class": "integral/near_one"}))
        out.append(dict(op="pw_indefinite", ty="Poly2", segs=[], meta={"class": "indefinite/empty"}))
        # indefinite() of functions whose FIRST piece is open-ended (end = +inf) or whose antiderivative overflows at its end:
        # the first piece must come back with additive constant zero, whatever its value at its breakpoint is
        for ty in ("Poly0", "Poly2", "Poly3", "Log<Poly1>", "Log<Poly2>"):
            for es in ([float("inf")], [1e80, float("inf")], [1e200]):
                sg = [[C.bits(e)] + [C.bits(rng.choice([1.0, -2.0, 3.0, 0.5])) for _ in range(G.arity(ty))] for e in es]
                out.append(dict(op="pw_indefinite", ty=ty, segs=sg, libm=ty.startswith("Log"), meta={"class": "indefinite/open_ended"}))
        return out

    def hyp_term(self, case, h):
        # hypotheses of C11_PK_knot_float on the first piece and the given knot
        ty = case["ty"]
        if case["op"] != "pw_integral_all" or not case["segs"]:
            return None
        if ty.startswith("Poly"):
            return "hyp_safe [e_segknot%d] %s" % (int(ty[4:]), C.zlist(list(case["segs"][0]) + list(case["knot"])))
        # log pieces (C11_LK_knot_float): the same with the logarithm of knot.x the platform returned in this run
        k = int(ty[8])
        lt = dict((a, b) for a, b in h.get("ln", []))
        lb = lt.get(case["knot"][0])
        if lb is None:
            return None
        args = list(case["segs"][0]) + list(case["knot"])
        if k != 4:
            return "hyp_safe [e_lsegknot%dx] %s" % (k, C.zlist(args + [lb]))
        xh = lb ^ C.SIGN
        x = C.fl(xh)
        if x != x:
            return None
        if -1.71 < x < 1.72:
            return "hyp_safe [e_l4knot_series] %s" % C.zlist(args + [xh])
        if x == 0 or abs(x) == float("inf"):
            return None
        rh = 1.0 / x
        if rh == 0:
            return None
        et = dict((a, b) for a, b in h.get("exp", []))
        eb = et.get(C.bits(1.0 / rh))
        if eb is None:
            return None
        return "hyp_safe [e_l4knot_closed] %s" % C.zlist(args + [xh, C.bits(rh), eb])

    def coq_term(self, case, h):
        ty = case["ty"]
        ln, ex = C.ztable(h.get("ln", [])), C.ztable(h.get("exp", []))
        kint = C.kname("Segment<%s>::integral" % ty)
        kev = C.kname("Segment<%s>::evaluate" % int_type(ty))
        if case["op"] in ("pw_integral_all", "integral_iter_adaptors"):
            return "run_pw_integral %s %s %s %s %s %s" % (ln, ex, kint, kev, C.zlistlist(case["segs"]), C.zlist(case["knot"]))
        kind = C.kname("Segment<%s>::indefinite" % ty)
        return "run_pw_indefinite %s %s %s %s %s %s" % (ln, ex, kint, kind, kev, C.zlistlist(case["segs"]))

    def compare(self, case, hres, mres):
        # one model run stands for all three entry points (Piecewise::integral, integral_iter, integral_iter_ref)
        if case["op"] == "integral_iter_adaptors" and isinstance(hres.get("r"), list) and mres is not None:
            mres = list(mres) * 4
        if case["op"] == "pw_integral_all" and isinstance(hres.get("r"), list) and mres is not None:
            mres = list(mres) * 6
        return Prop.compare(self, case, hres, mres)

    def oracle(self, case, h):
        if h["r"] == "PANIC":
            return "integration panicked: %s" % h.get("msg")
        ty = case["ty"]
        ity = int_type(ty)
        n = G.arity(ity)
        segs = case["segs"]
        r = h["r"]
        pieces, used = split_segs(r, n)
        if case["op"] == "pw_integral_all":
            p2, u2 = split_segs(r[used:], n)
            p3, _ = split_segs(r[used + u2:], n)
            if [list(map(C.canon, p)) for p in pieces] != [list(map(C.canon, p)) for p in p2]:
                return "Piecewise::integral and Segment::integral_iter (by value) produce different pieces"
            if [list(map(C.canon, p)) for p in p2] != [list(map(C.canon, p)) for p in p3]:
                return "Segment::integral_iter and integral_iter_ref produce different pieces"
            rest = r[used + u2:]
            p3b, u3 = split_segs(rest, n)
            rest = rest[u3:]
            for what in ("integral_iter over a filtered (unsized) iterator", "integral_iter over a from_fn generator",
                         "integral_iter_ref over a filtered (unsized) iterator"):
                px, ux = split_segs(rest, n)
                rest = rest[ux:]
                if [list(map(C.canon, p)) for p in px] != [list(map(C.canon, p)) for p in pieces]:
                    return "%s produces different pieces than Piecewise::integral" % what
        if case["op"] == "integral_iter_adaptors":
            rest = r[used:]
            for what in ("skip(i).next()", "step_by(2) interleaved with skip(1).step_by(2)", "by-reference nth(i)"):
                px, ux = split_segs(rest, n)
                rest = rest[ux:]
                if [list(map(C.canon, p)) for p in px] != [list(map(C.canon, p)) for p in pieces]:
                    return "integral_iter consumed through %s produces different pieces than through nth(i)" % what
        if len(pieces) != len(segs):
            return "result has %d pieces for %d input pieces (%s)" % (len(pieces), len(segs), case["op"])
        for i, (a, b) in enumerate(zip(segs, pieces)):
            if C.canon(a[0]) != C.canon(b[0]):
                return "breakpoint %d changed" % i
        if not segs:
            return None
        if case["op"] == "pw_indefinite":
            k0 = C.fl(pieces[0][1])
            if not (k0 == 0.0):
                return "indefinite(): first piece has additive constant %r, not 0" % k0
        if not all(finite(x) for p in pieces for x in p):
            return None
        log = ty.startswith("Log")
        if log and not hp.available():
            return None
        if log:
            hp.mpmath.mp.prec = 400

        def tol(m1, m2, extra=0):
            if ity == "IntOfLogPoly4":
                return hp.mpmath.mpf("1e-12") * (m1 + m2 + abs(extra))
            c = 16 * (n + 4)
            if log:
                return c * hp.mpmath.mpf(2) ** -53 * (m1 + m2 + abs(extra)) + hp.mpmath.mpf(2) ** -1060
            return c * U * (m1 + m2 + abs(extra)) + Fraction(1, 2 ** 1060)

        # first piece through k0
        if case["op"] in ("pw_integral_all", "integral_iter_adaptors"):
            kx, ky = C.fl(case["knot"][0]), C.fl(case["knot"][1])
            v, m = eval_piece_exact(ity, pieces[0][1:], kx)
            kyx = hp.mpf(ky) if log else Fraction(ky)
            if abs(v - kyx) > tol(m, 0, ky):
                return "first piece does not pass through the knot: F(%r) = %s, knot.y = %r" % (kx, float(v), ky)
        else:
            k0 = C.fl(pieces[0][1])
            if k0 != 0.0:
                return "indefinite(): first piece has additive constant %r, not 0" % k0
        # continuity at every interior breakpoint
        for i in range(len(pieces) - 1):
            e = C.fl(pieces[i][0])
            v1, m1 = eval_piece_exact(ity, pieces[i][1:], e)
            v2, m2 = eval_piece_exact(ity, pieces[i + 1][1:], e)
            if abs(v1 - v2) > tol(m1, m2):
                return "pieces %d and %d disagree at breakpoint %r: left %s right %s (tolerance %s)" % (
                    i, i + 1, e, float(v1), float(v2), float(tol(m1, m2)))
        # each piece is an antiderivative of its source piece
        for i, (src, p) in enumerate(zip(segs, pieces)):
            cs = [fr(b) for b in src[1:]]
            if ty.startswith("Poly"):
                for j, c in enumerate(cs):
                    exp = C.fl(src[1 + j]) / float(j + 1)
                    if C.canon(p[2 + j]) != C.canon(C.bits(exp)):
                        return "piece %d: coefficient %d is not the correctly rounded c_%d/%d" % (i, j + 1, j, j + 1)
            elif ity != "IntOfLogPoly4":
                q = logq(cs)
                scale = sum(abs(c) for c in cs) * 40320 + Fraction(1, 2 ** 1000)
                for j, qj in enumerate(q):
                    if abs(fr(p[2 + j]) - qj) > 64 * U * scale:
                        return "piece %d: log-integral coefficient %d is %r, exact recurrence value %r" % (i, j, C.fl(p[2 + j]), float(qj))
        return None

    def nontrivial_key(self, case, h):
        if len(case["segs"]) < 3:
            return None
        return super().nontrivial_key(case, h)


PROP = P()
