import struct
from vlib import common as C, gens as G
from vlib.driver import Prop


def f64_bytes(x):
    return list(struct.pack("<d", x))


def bits_bytes(b):
    return list(struct.pack("<Q", b))


def encode(ends_bits, pieces):
    out = []
    for e in ends_bits:
        out += [1] + bits_bytes(e)
    out += [0]
    for p in pieces:
        for c in p:
            out += bits_bytes(c)
    return out


def py_decode(bs, npiece):
    """independent decoder: (ends bits list, rest)"""
    pos = 0

    def u8():
        nonlocal pos
        if pos < len(bs):
            v = bs[pos]
            pos += 1
            return v
        return 0

    def u64():
        nonlocal pos
        chunk = bs[pos:pos + 8]
        pos = min(len(bs), pos + 8)
        chunk = chunk + [0] * (8 - len(chunk))
        return struct.unpack("<Q", bytes(chunk))[0]

    ends = []
    while True:
        k = u8()
        if k & 1 == 0:
            break
        ends.append(u64())
    return ends, u64


class Dec:
    """independent byte-stream decoder (arbitrary's Unstructured: zero padding when exhausted)"""

    def __init__(self, bs):
        self.bs = bs
        self.pos = 0

    def u8(self):
        if self.pos < len(self.bs):
            v = self.bs[self.pos]
            self.pos += 1
            return v
        return 0

    def u64(self):
        chunk = self.bs[self.pos:self.pos + 8]
        self.pos = min(len(self.bs), self.pos + 8)
        chunk = chunk + [0] * (8 - len(chunk))
        return struct.unpack("<Q", bytes(chunk))[0]

    def vec(self):
        out = []
        while self.u8() & 1:
            out.append(self.u64())
        return out

    def piecewise(self, piece):
        """None = error; else list of (end bits, piece)"""
        ends = self.vec()
        if not ends or any(not is_normal(e) for e in ends):
            return None
        out = []
        for e in sorted(ends, key=lambda b: C.fl(b)):
            p = piece()
            if p is None:
                return None
            out.append((e, p))
        return out


def encode_nested(outer_ends, inners):
    """inners: list of (ends, pieces) per outer end in the order the decoder draws them"""
    out = []
    for e in outer_ends:
        out += [1] + bits_bytes(e)
    out += [0]
    for ends, pieces in inners:
        out += encode(ends, pieces)
    return out


def is_normal(b):
    e = (b >> 52) & 0x7FF
    return 0 < e < 0x7FF


class P(Prop):
    ID = "C19"
    MODULE = "C19"
    THEOREMS = ["C19_wellformed", "C19_evaluable", "C19_wellformed_any_piece", "C19_nested", "C19_evaluable_any_piece",
                "C19_nested_inner_failure", "C19_example"]
    KERNELS = []
    RULE = ("byte strings of length 0..400: random, and structured encodings of end lists (normal ascending / descending / "
            "negative / mixed-sign / duplicate ends; lists containing NaN, +-inf, subnormal, +-0; empty list) truncated at every "
            "byte offset; Piecewise<Poly0|Poly1|Poly3>::arbitrary and the external Vec<f64> decoder alone run bit-exactly model vs "
            "crate; independent Python decoder as oracle (Err exactly on empty / non-normal, else sorted normal ends, pieces drawn "
            "in order); all three evaluation paths exercised on every returned value; nested Piecewise<Piecewise<Poly0|Poly1>> whose "
            "inner functions fail to generate (empty / non-normal inner ends) at the first, a middle or no piece. non-trivial = decodes to >= 2 ends; distinct by bytes")
    TRUSTED = ["hand transcription of arbitrary 1.4.2 (fill_buffer zero padding, bool = low bit, LE integers, Vec = while bool) tied by correspondence",
               "insertion sort stands for std's stable sort (equal normal keys have equal bits)"]
    ASSUMPTIONS = ["derive(Arbitrary) for PolyK draws the fields in order with Arbitrary::arbitrary (observed by correspondence)"]

    def cases(self, rng, tier):
        n = 150 if tier == "quick" else 2500
        out = []
        specials = [C.NAN_BITS, C.bits(float("inf")), C.bits(float("-inf")), 0, C.SIGN, 1, C.SIGN | 1, C.bits(1e-310), C.bits(-2e-308)]
        for i in range(n):
            ty = rng.choice(["Poly0", "Poly0", "Poly1", "Poly3"])
            npiece = G.arity(ty)
            style = rng.choice(["random", "normal", "normal", "descending", "negative", "mixed", "dups", "special", "empty", "truncated", "truncated"])
            if style == "random":
                bs = [rng.randrange(256) for _ in range(rng.randint(0, 400))]
                if rng.random() < 0.5:
                    bs = [b | 1 if j % 9 == 0 else b for j, b in enumerate(bs)]
            else:
                k = rng.randint(1, 8) if rng.random() < 0.9 else rng.choice([16, 17, 33, 65, 100])
                if style == "empty":
                    ends = []
                elif style == "negative":
                    ends = [C.bits(-rng.uniform(0.1, 10)) for _ in range(k)]
                elif style == "descending":
                    ends = [C.bits(x) for x in sorted((rng.uniform(-5, 5) for _ in range(k)), reverse=True)]
                elif style == "mixed":
                    ends = [C.bits(rng.choice([-1, 1]) * rng.f64_loguniform(-20, 20, signed=False)) for _ in range(k)]
                elif style == "dups":
                    pool = [C.bits(float(rng.randint(-3, 3)) or 1.0) for _ in range(3)]
                    ends = [rng.choice(pool) for _ in range(k)]
                elif style == "special":
                    ends = [C.bits(rng.uniform(-5, 5)) for _ in range(k)]
                    ends[rng.randrange(k)] = rng.choice(specials)
                else:
                    ends = [C.bits(x) for x in sorted(rng.uniform(-5, 5) for _ in range(k))]
                    if style == "normal" and rng.random() < 0.5:
                        rng.shuffle(ends)
                pieces = [[C.bits(rng.uniform(-3, 3)) for _ in range(npiece)] for _ in ends]
                bs = encode(ends, pieces)
                if style == "truncated":
                    bs = bs[:rng.randint(0, len(bs))]
            r = rng.random()
            if r < 0.7:
                out.append(dict(op="arbitrary", ty=ty, bytes=bs, meta={"class": "arbitrary/" + style}))
                if rng.random() < 0.5:
                    # the trait's second entry point on the same bytes (Unstructured::arbitrary_take_rest, fuzz targets)
                    out.append(dict(op="arbitrary_rest", ty=ty, bytes=bs, meta={"class": "arbitrary_take_rest/" + style}))
            elif r < 0.8:
                out.append(dict(op="arb_vec_f64", bytes=bs, meta={"class": "vec/" + style}))
            else:
                xs = [C.bits(rng.uniform(-6, 6)) for _ in range(6)] + [C.bits(float("inf")), C.NAN_BITS]
                if rng.random() < 0.5:
                    xs.insert(rng.randrange(len(xs)), C.bits(float("-inf")))
                    xs.insert(0, C.bits(float("-inf")))
                dec_ends, _ = py_decode(bs, npiece)
                good = [e for e in dec_ends if is_normal(e)]
                if good and rng.random() < 0.7:
                    # queries on the breakpoints themselves; the very first query of the fresh evaluator is the smallest one
                    srt = sorted(good, key=lambda b: C.fl(b))
                    xs = [srt[0]] + [rng.choice(srt + [C.next_up(e) for e in srt] + [C.next_down(e) for e in srt]) for _ in range(5)] + xs[:4]
                if good and rng.random() < 0.5:
                    # NaN queries in the MIDDLE of the history, followed by moves forward across breakpoints
                    srt = sorted(good, key=lambda b: C.fl(b))
                    mid = [C.bits(C.fl(srt[0]) - 1.0), C.NAN_BITS, C.next_up(srt[-1]), C.NAN_BITS] + [rng.choice(srt) for _ in range(3)]
                    xs = mid + xs[:5]
                out.append(dict(op="arb_eval", ty=ty, bytes=bs, xs=xs, meta={"class": "eval/" + style}))
        # nested functions: the piece decoder of the outer function is fallible
        for i in range(max(40, n // 4)):
            ty = rng.choice(["Poly0", "Poly1"])
            npiece = G.arity(ty)
            k = rng.randint(1, 5)
            outer = [C.bits(x) for x in (rng.uniform(-5, 5) for _ in range(k))]
            style = rng.choice(["ok", "ok", "first_fails", "some_fails", "truncated", "outer_bad"])
            if style == "outer_bad":
                outer[rng.randrange(k)] = rng.choice(specials)
            inners = []
            fail_at = 0 if style == "first_fails" else (rng.randrange(k) if style == "some_fails" else None)
            for j in range(k):
                m = rng.randint(1, 3)
                ie = [C.bits(rng.uniform(-5, 5)) for _ in range(m)]
                if j == fail_at:
                    ie = [] if rng.random() < 0.5 else ie[:-1] + [rng.choice(specials)]
                inners.append((ie, [[C.bits(rng.uniform(-3, 3)) for _ in range(npiece)] for _ in ie]))
            bs = encode_nested(outer, inners)
            if style == "truncated":
                bs = bs[:rng.randint(0, len(bs))]
            if rng.random() < 0.7:
                out.append(dict(op="arbitrary_nested", ty=ty, bytes=bs, meta={"class": "nested/" + style}))
            else:
                xs = [C.bits(rng.uniform(-6, 6)) for _ in range(5)] + [C.bits(float("inf")), C.NAN_BITS]
                out.append(dict(op="arb_eval_nested", ty=ty, bytes=bs, xs=xs, meta={"class": "nested_eval/" + style}))
        return out

    def coq_term(self, case, h):
        if case["op"] in ("arbitrary", "arbitrary_rest"):
            # arbitrary_take_rest is not overridden: the trait's default forwards to arbitrary, same model
            return "run_arbitrary %d %s" % (G.arity(case["ty"]), C.zlist(case["bytes"]))
        if case["op"] == "arb_vec_f64":
            return "run_arb_vec %s" % C.zlist(case["bytes"])
        if case["op"] == "arbitrary_nested":
            return "run_arbitrary_nested %d %s" % (G.arity(case["ty"]), C.zlist(case["bytes"]))
        return None

    def oracle(self, case, h):
        if h["r"] == "PANIC":
            return "Arbitrary / evaluation of an Arbitrary value panicked: %s" % h.get("msg")
        op = case["op"]
        bs = case["bytes"]
        if op == "arb_vec_f64":
            return None
        npiece = G.arity(case["ty"])
        if op in ("arbitrary_nested", "arb_eval_nested"):
            return self.oracle_nested(case, h, npiece)
        ends, u64 = py_decode(bs, npiece)
        bad = (not ends) or any(not is_normal(e) for e in ends)
        r = h["r"]
        if op == "arb_eval":
            if r[0] == 0:
                return None if bad else "arbitrary rejected a well-formed end list"
            vals = r[1:]
            for i in range(0, len(vals), 2):
                if C.canon(vals[i]) != C.canon(vals[i + 1]):
                    return "evaluation paths disagree on an Arbitrary-generated function: 0x%016x vs 0x%016x" % (vals[i], vals[i + 1])
            return None
        if bad:
            return None if r[0] == 0 else "arbitrary returned a function for %s ends" % ("empty" if not ends else "non-normal")
        if r[0] != 1:
            return "arbitrary failed on a non-empty all-normal end list"
        n = r[1]
        segs = [r[2 + i * (npiece + 1): 2 + (i + 1) * (npiece + 1)] for i in range(n)]
        if n < 1:
            return "arbitrary returned no segments"
        srt = sorted(ends, key=lambda b: C.fl(b))
        got = [s[0] for s in segs]
        if [C.fl(b) for b in got] != [C.fl(b) for b in srt]:
            return "breakpoints %r are not the decoded ends in non-decreasing order %r" % ([C.fl(b) for b in got], [C.fl(b) for b in srt])
        for s in segs:
            if not is_normal(s[0]):
                return "breakpoint %r is not a normal number" % C.fl(s[0])
            exp = [u64() for _ in range(npiece)]
            if [C.canon(x) for x in s[1:]] != [C.canon(x) for x in exp]:
                return "pieces are not drawn in order from the remaining bytes"
        return None

    def oracle_nested(self, case, h, npiece):
        d = Dec(case["bytes"])
        exp = d.piecewise(lambda: d.piecewise(lambda: [d.u64() for _ in range(npiece)]))
        r = h["r"]
        if case["op"] == "arb_eval_nested":
            if r[0] == 0:
                return None if exp is None else "arbitrary rejected a well-formed nested function"
            vals = r[1:]
            for i in range(0, len(vals), 2):
                if C.canon(vals[i]) != C.canon(vals[i + 1]):
                    return "evaluation paths disagree on an Arbitrary-generated nested function: 0x%016x vs 0x%016x" % (vals[i], vals[i + 1])
            return None
        if r[0] == 0:
            return None if exp is None else "arbitrary rejected a well-formed nested function"
        # structural checks on whatever was returned
        n = r[1]
        if n < 1:
            return "arbitrary returned a function with no segments"
        pos = 2
        got = []
        for _ in range(n):
            e = r[pos]
            m = r[pos + 1]
            pos += 2
            inner = []
            for _ in range(m):
                inner.append((r[pos], r[pos + 1: pos + 1 + npiece]))
                pos += 1 + npiece
            if m < 1:
                return "arbitrary returned an inner function with no segments"
            got.append((e, inner))
        for lvl in [got] + [g[1] for g in got]:
            es = [C.fl(x[0]) for x in lvl]
            if any(not is_normal(x[0]) for x in lvl):
                return "a breakpoint is not a normal number"
            if any(b < a for a, b in zip(es, es[1:])):
                return "breakpoints %r are not in non-decreasing order" % es
        if exp is None:
            return "arbitrary returned a function although a piece failed to generate (or the ends are empty / not normal)"
        want = [(e, [(ie, [C.canon(c) for c in p]) for ie, p in inner]) for e, inner in exp]
        have = [(e, [(ie, [C.canon(c) for c in p]) for ie, p in inner]) for e, inner in got]
        if [(C.fl(e), [(C.fl(ie), p) for ie, p in inner]) for e, inner in want] != [(C.fl(e), [(C.fl(ie), p) for ie, p in inner]) for e, inner in have]:
            return "the nested function is not the one the bytes encode (pieces are drawn in order after sorting the ends)"
        return None

    def nontrivial_key(self, case, h):
        ends, _ = py_decode(case["bytes"], 1)
        if len(ends) < 2:
            return None
        return super().nontrivial_key(case, h)


PROP = P()
