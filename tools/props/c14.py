from vlib import common as C, gens as G
from vlib.driver import Prop
from props import kernels as K

POLYS = G.POLYS
KERNELS = []
for p in POLYS:
    KERNELS += [p + "::" + m for m in ("mul", "mul_assign", "neg", "add", "translate")]
for p in POLYS:
    KERNELS += ["Log<%s>::%s" % (p, m) for m in ("mul", "mul_assign", "translate")]
for p in POLYS:
    KERNELS += ["IntOfLog<%s>::%s" % (p, m) for m in ("mul", "mul_assign", "neg", "add", "translate")]
KERNELS += ["IntOfLogPoly4::" + m for m in ("mul", "neg", "add", "sub", "translate")] + ["&IntOfLogPoly4::add", "&IntOfLogPoly4::sub"]


class P(Prop):
    ID = "C14"
    MODULE = "C14"
    THEOREMS = ["C14_shapes", "C14_mul_assign", "C14_polyn_translate", "C14_value_scale", "C14_value_neg", "C14_value_add",
                "C14_value_sub", "C14_value_translate", "C14_example",
                "C14_value_log_scale", "C14_value_log_neg", "C14_value_log_add", "C14_value_log_translate",
                "C14_value_intoflog_scale", "C14_value_intoflog_neg", "C14_value_intoflog_add", "C14_value_intoflog_translate",
                "C14_value_quartic_scale", "C14_value_quartic_neg", "C14_value_quartic_add", "C14_value_quartic_sub",
                "C14_value_quartic_translate"]
    KERNELS = KERNELS
    RULE = ("all 124 operator kernels (Mul, MulAssign, Neg, Add, Sub, Translate on Poly0..8, Log<.>, IntOfLog<.>, IntOfLogPoly4 "
            "incl. the reference-operand impls) are regenerated from the source and checked lane by lane inside Coq for ALL inputs; "
            "the generated kernels and PolyN::translate are additionally executed bit-exactly against the crate on scalars "
            "{0,-0,+-1,tiny,huge,+-inf,random}. non-trivial = not all inputs zero; distinct by full input")
    TRUSTED = ["translator rs2coq (kernels regenerated each run; validated by bit-exact execution against the crate)"]
    ASSUMPTIONS = ["hardware/LLVM implement IEEE-754 binary64 + - * with round-to-nearest-even (no fast-math)"]

    def cases(self, rng, tier):
        per = 2 if tier == "quick" else 30
        out = []
        tr = C.translate()
        for name in KERNELS:
            k = tr.get("kernels", {}).get(name)
            ar = k["arity"] if k else None
            if ar is None:
                ty, meth = K.split_kernel(name)
                n = K.value_arity(ty)
                ar = {"mul": n + 1, "mul_assign": n + 1, "neg": n, "add": 2 * n, "sub": 2 * n, "translate": n + 1}[meth]
            for _ in range(per):
                out.append(K.kernel_case(name, [K.rand_arg(rng) for _ in range(ar)], cls=name.split("::")[-1]))
            if name.endswith("::add") or name.endswith("::sub"):
                for _ in range(max(2, per)):
                    n = ar // 2
                    a = [rng.choice([1.5, -2.0, 3.0, 0.25, rng.uniform(-3, 3)]) for _ in range(n)]
                    b = list(a)
                    b[rng.choice([n - 1, 0, rng.randrange(n)])] = rng.choice([8.5, -1.0, 0.0])
                    out.append(K.kernel_case(name, a + b, cls="addsub/mostly_equal"))
                for _ in range(max(1, per // 2)):
                    n = ar // 2
                    a = [rng.choice([1.2e308, -1.1e308, 1.7976931348623157e308, 1e292]) for _ in range(n)]
                    b = [rng.choice([1.1e308, -1.2e308, 1e292, 1.7976931348623157e308]) for _ in range(n)]
                    out.append(K.kernel_case(name, a + b, cls="addsub/overflow"))
            if name.endswith("::add") or name.endswith("::sub"):
                # b = -a (for add; +a for sub) up to ONE unit in the last place in some lanes: the exact, tiny, result must survive
                for _ in range(max(2, per)):
                    n = ar // 2
                    a = [rng.choice([1.0, 1.0 + 2.0 ** -52, -3.0, 0.75, 2.0 ** 40, rng.uniform(-3, 3)]) for _ in range(n)]
                    sgn = -1.0 if name.endswith("::add") else 1.0
                    b = []
                    for v_ in a:
                        r_ = rng.random()
                        nb = C.fl(C.next_up(C.bits(abs(v_)))) if r_ < 0.4 else (C.fl(C.next_down(C.bits(abs(v_)))) if r_ < 0.7 else abs(v_))
                        b.append(sgn * (nb if v_ >= 0 else -nb))
                    out.append(K.kernel_case(name, a + b, cls="addsub/one_ulp_apart"))
            if name.endswith("::mul") or name.endswith("::mul_assign") or name.endswith("::neg"):
                # coefficient vectors whose entries SUM to exactly zero (x-1, (x-1)^4, c - c x^k), sparse vectors, all-equal vectors
                n = (ar - 1) if not name.endswith("::neg") else ar
                for _ in range(max(2, per)):
                    st = rng.choice(["zero_sum", "zero_sum", "sparse", "binomial"])
                    if st == "binomial" and n >= 2:
                        import math
                        cs = [float((-1) ** i * math.comb(n - 1, i)) for i in range(n)]
                    elif st == "sparse":
                        cs = [rng.choice([0.0, 0.0, -0.0, rng.uniform(-3, 3), 2.0]) for _ in range(n)]
                    else:
                        cs = [0.0] * n
                        i, j = (rng.sample(range(n), 2) if n >= 2 else (0, 0))
                        v_ = rng.choice([2.0, 1.5, -3.0, rng.uniform(0.5, 4)])
                        cs[i] = v_
                        if n >= 2:
                            cs[j] = -v_
                    args = cs + ([rng.choice([3.0, 0.5, -2.5, 0.0, rng.uniform(-4, 4)])] if not name.endswith("::neg") else [])
                    out.append(K.kernel_case(name, args, cls=name.split("::")[-1] + "/" + st))
            if name.endswith("::translate"):
                # shifts of the order of one unit in the last place of the constant (0.3 .. 3 ulps): the sum must still be the
                # correctly rounded one
                for _ in range(max(2, per)):
                    args = [rng.choice([1.5, -3.0, 3.0 * 2.0 ** 100, rng.uniform(0.5, 4), 1e-20]) for _ in range(ar - 1)]
                    k0 = args[0]
                    ulp = abs(C.fl(C.next_up(C.bits(abs(k0)))) - abs(k0))
                    args.append(ulp * rng.choice([0.3, 0.51, 0.75, 1.25, 1.5, 2.5, -0.75, -1.25]))
                    out.append(K.kernel_case(name, args, cls="translate/ulp_band"))
                    # near-cancellation: the shift is minus the constant up to a few units in the last place
                    args2 = list(args[:-1])
                    args2.append(-(k0 + ulp * rng.choice([1.0, -1.0, 2.0, 3.0, -2.0])))
                    out.append(K.kernel_case(name, args2, cls="translate/cancel"))
        for _ in range(10 if tier == "quick" else 200):
            n = rng.randint(0, 8)
            out.append(dict(op="polyn_translate", cs=[C.bits(K.rand_arg(rng)) for _ in range(n)], s=C.bits(K.rand_arg(rng)),
                            meta={"class": "polyn_translate"}))
        return out

    def coq_term(self, case, h):
        if case["op"] == "k":
            return K.kernel_term(case, h)
        if case["op"] == "polyn_translate":
            return "run_polyn_translate %s %d" % (C.zlist(case["cs"]), case["s"])
        return None

    def oracle(self, case, h):
        if h["r"] == "PANIC":
            return "operator panicked: %s" % h.get("msg")
        if case["op"] == "polyn_translate":
            cs = [C.fl(b) for b in case["cs"]]
            v = C.fl(case["s"])
            exp = [v] if not cs else [cs[0] + v] + cs[1:]
        else:
            ty, meth = K.split_kernel(case["name"])
            n = K.value_arity(ty)
            exp = K.expected_op(meth, n, [C.fl(b) for b in case["args"]])
        got = h["r"]
        if len(got) != len(exp):
            return "operator returned %d numbers, expected %d" % (len(got), len(exp))
        for i, (g, e) in enumerate(zip(got, exp)):
            if C.canon(g) != C.canon(C.bits(e)):
                return "number %d is 0x%016x (%r), the correctly rounded result is 0x%016x (%r)" % (i, g, C.fl(g), C.bits(e), e)
        return None

    def nontrivial_key(self, case, h):
        nums = case.get("args") or case.get("cs") or []
        if all(C.fl(b) == 0 for b in nums):
            return None
        return super().nontrivial_key(case, h)


PROP = P()
