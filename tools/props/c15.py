from vlib import common as C, gens as G
from vlib.driver import Prop
from props import kernels as K

SEG_KERNELS = []
for t in G.ALL_TYPES:
    SEG_KERNELS.append("Segment<%s>::mul" % t)
    if t != "IntOfLogPoly4":
        SEG_KERNELS.append("Segment<%s>::mul_assign" % t)
    SEG_KERNELS.append("Segment<%s>::translate" % t)
NEG_TYPES = G.POLYS + G.INTLOGS + ["IntOfLogPoly4"]
MULASSIGN_TYPES = G.POLYS + G.LOGS + G.INTLOGS


class P(Prop):
    ID = "C15"
    MODULE = "C15"
    THEOREMS = ["C15_segment_shapes", "C15_mul_assign", "C15_map_length", "C15_map_nth", "C15_neg_ends", "C15_example",
                "C15_select_commutes", "C15_value_commutes", "C15_value_scale", "C15_value_neg", "C15_value_translate"]
    KERNELS = SEG_KERNELS + [t + "::neg" for t in NEG_TYPES]
    RULE = ("83 Segment<T> operator kernels checked lane by lane in Coq for all inputs (end lane = the input itself); "
            "Piecewise *, *=, neg, translate run bit-exactly against the model (map over segments) on 1..12 pieces over every "
            "piece type for which the operator exists, scalars {0,-0,+-1,tiny,huge,random}, duplicate / equal pieces. "
            "non-trivial = >= 2 pieces; distinct by full input")
    TRUSTED = ["translator rs2coq", "skeleton Run.run_pw_map/run_pw_neg (Piecewise operators = map) tied by correspondence"]
    ASSUMPTIONS = ["IEEE-754 binary64 arithmetic"]

    def cases(self, rng, tier):
        out = []
        per = 1 if tier == "quick" else 12
        for name in SEG_KERNELS:
            ty, meth = K.split_kernel(name)
            n = G.arity(ty)
            for _ in range(per):
                out.append(K.kernel_case(name, [K.rand_arg(rng) for _ in range(n + 1)], cls="seg/" + meth))
        npw = 120 if tier == "quick" else 1500
        for _ in range(npw):
            op = rng.choice(["pw_mul", "pw_mul_assign", "pw_neg", "pw_translate"])
            if op == "pw_neg":
                ty = rng.choice(NEG_TYPES)
            elif op == "pw_mul_assign":
                ty = rng.choice(MULASSIGN_TYPES)
            else:
                ty = rng.choice(G.ALL_TYPES)
            k = rng.randint(1, 12)
            es, sg = G.segs(rng, ty, k)
            if k >= 2 and rng.random() < 0.3:          # adjacent equal pieces / duplicate ends
                i = rng.randrange(k - 1)
                sg[i + 1][1:] = sg[i][1:]
            s = rng.choice([0.0, -0.0, 1.0, -1.0, 2.0, 1e-300, 1e300, 1e-17, rng.uniform(-3, 3), rng.f64_loguniform(-30, 30)])
            out.append(dict(op=op, ty=ty, segs=sg, s=C.bits(s), meta={"class": op + "/" + ty.split("<")[0]}))
        for _ in range(8 if tier == "quick" else 100):
            ty = rng.choice(["IntOfLog<Poly1>", "IntOfLog<Poly3>", "IntOfLogPoly4", "Poly2", "Log<Poly2>"])
            k = rng.randint(1, 4)
            es, sg = G.segs(rng, ty, k)
            c = rng.choice([-1.0, 2.5, -3.0])
            j = rng.randrange(k)
            sg[j][1] = C.bits(-c * (1 + rng.choice([1, -1, 2, 3]) * 2.0 ** -52))       # the constant nearly cancels the shift
            out.append(dict(op="pw_translate", ty=ty, segs=sg, s=C.bits(c), meta={"class": "pw_translate/cancel"}))
        for _ in range(6 if tier == "quick" else 60):
            ty = rng.choice(["Poly3", "Poly2"])
            k = rng.randint(1, 3)
            es, sg = G.segs(rng, ty, k)
            sg[0][-1] = C.bits(2.0 ** -1000)
            out.append(dict(op=rng.choice(["pw_mul", "pw_neg", "pw_mul_assign"]), ty=ty, segs=sg, s=C.bits(2.0 ** -60), meta={"class": "scale/subnormal_product"}))
        # scalars that are not ordered numbers: NaN (several payloads), +-inf - every route must still apply the operation to every piece
        for _ in range(16 if tier == "quick" else 200):
            op = rng.choice(["pw_mul", "pw_mul_assign", "pw_mul_assign", "pw_translate"])
            ty = rng.choice(MULASSIGN_TYPES) if op == "pw_mul_assign" else rng.choice(G.ALL_TYPES)
            k = rng.randint(1, 5)
            es, sg = G.segs(rng, ty, k)
            sb = rng.choice([C.NAN_BITS, C.NAN_BITS, 0xFFF8000000000000, 0x7FF0000000000001, C.bits(float("inf")), C.bits(float("-inf"))])
            out.append(dict(op=op, ty=ty, segs=sg, s=sb, meta={"class": op + "/unordered_scalar"}))
        # pieces with exact zeros BELOW non-zero coefficients (even / odd polynomials, antiderivatives: constant 0), sums to zero
        for _ in range(24 if tier == "quick" else 300):
            op = rng.choice(["pw_mul", "pw_mul_assign", "pw_mul_assign", "pw_neg"])
            ty = rng.choice(NEG_TYPES) if op == "pw_neg" else (rng.choice(MULASSIGN_TYPES) if op == "pw_mul_assign" else rng.choice(G.ALL_TYPES))
            k = rng.randint(1, 4)
            es, sg = G.segs(rng, ty, k)
            sg = [list(s_) for s_ in sg]
            for s_ in sg:
                st = rng.choice(["even", "odd", "const0", "zero_sum"])
                m = len(s_) - 1
                for j in range(m):
                    if (st == "even" and j % 2 == 1) or (st == "odd" and j % 2 == 0) or (st == "const0" and j == 0):
                        s_[1 + j] = C.bits(rng.choice([0.0, 0.0, -0.0]))
                if st == "zero_sum" and m >= 2:
                    vals = [0.0] * m
                    a_, b_ = rng.sample(range(m), 2)
                    vals[a_], vals[b_] = 2.5, -2.5
                    for j in range(m):
                        s_[1 + j] = C.bits(vals[j])
            out.append(dict(op=op, ty=ty, segs=sg, s=C.bits(rng.choice([2.0, -0.5, 3.25, 0.0, rng.uniform(-3, 3)])), meta={"class": op + "/sparse_pieces"}))
        # EVERY piece type with a non-finite shift and a non-finite scale
        for ty in G.ALL_TYPES:
            es, sg = G.segs(rng, ty, rng.randint(1, 3))
            sb = rng.choice([C.NAN_BITS, C.bits(float("inf")), C.bits(float("-inf"))])
            out.append(dict(op="pw_translate", ty=ty, segs=sg, s=sb, meta={"class": "pw_translate/unordered_scalar_all_types"}))
            if ty in MULASSIGN_TYPES:
                out.append(dict(op="pw_mul_assign", ty=ty, segs=sg, s=sb, meta={"class": "pw_mul_assign/unordered_scalar_all_types"}))
        for k in (17, 33, 64, 65, 100):
            for op in ("pw_mul", "pw_mul_assign", "pw_neg", "pw_translate"):
                ty = "Poly2"
                es, sg = G.segs(rng, ty, k, rng.choice(["ints", "dups", "inc"]))
                out.append(dict(op=op, ty=ty, segs=sg, s=C.bits(rng.choice([2.0, -0.5, 0.0, 3.25])), meta={"class": op + "/long"}))
        # Piecewise<PolyN>: pieces of different lengths, including the empty polynomial (the zero function)
        for _ in range(12 if tier == "quick" else 150):
            k = rng.randint(1, 8)
            es = G.ends(rng, k)
            sg = [[C.bits(e)] + [C.bits(G.coeff(rng)) for _ in range(rng.choice([0, 0, 1, 2, 5]))] for e in es]
            s = rng.choice([0.0, 3.5, -1.0, 1e300, rng.uniform(-3, 3)])
            out.append(dict(op="pw_translate_polyn", ty="PolyN", segs=sg, s=C.bits(s), meta={"class": "pw_translate/PolyN"}))
        return out

    def coq_term(self, case, h):
        op = case["op"]
        if op == "k":
            return K.kernel_term(case, h)
        ty = case["ty"]
        if op == "pw_mul":
            return "run_pw_map [] [] %s %s [%d]" % (C.kname("Segment<%s>::mul" % ty), C.zlistlist(case["segs"]), case["s"])
        if op == "pw_mul_assign":
            return "run_pw_map [] [] %s %s [%d]" % (C.kname("Segment<%s>::mul_assign" % ty), C.zlistlist(case["segs"]), case["s"])
        if op == "pw_translate":
            return "run_pw_map [] [] %s %s [%d]" % (C.kname("Segment<%s>::translate" % ty), C.zlistlist(case["segs"]), case["s"])
        if op == "pw_neg":
            return "run_pw_neg [] [] %s %s" % (C.kname("%s::neg" % ty), C.zlistlist(case["segs"]))
        if op == "pw_translate_polyn":
            return "run_pw_translate_polyn %s %d" % (C.zlistlist(case["segs"]), case["s"])
        return None

    def oracle(self, case, h):
        if h["r"] == "PANIC":
            return "operator panicked: %s" % h.get("msg")
        op = case["op"]
        if op == "k":
            ty, meth = K.split_kernel(case["name"])
            n = G.arity(ty) - 1
            exp = K.expected_op(meth, n, [C.fl(b) for b in case["args"]], seg=True)
            got = h["r"]
            if len(got) != len(exp):
                return "segment operator returned %d numbers, expected %d" % (len(got), len(exp))
            for i, (g, e) in enumerate(zip(got, exp)):
                if C.canon(g) != C.canon(C.bits(e)):
                    return "number %d of the segment is 0x%016x, expected 0x%016x%s" % (i, g, C.bits(e), " (the breakpoint must be untouched)" if i == 0 else "")
            return None
        segs = case["segs"]
        r = h["r"]
        if op == "pw_translate_polyn":
            if r[0] != len(segs):
                return "translate changed the number of pieces: %d -> %d" % (len(segs), r[0])
            pos = 1
            s = C.fl(case["s"])
            for i, sg in enumerate(segs):
                e, m = r[pos], r[pos + 1]
                got = r[pos + 2: pos + 2 + m]
                pos += 2 + m
                cs = [C.fl(b) for b in sg[1:]]
                exp = [cs[0] + s] + cs[1:] if cs else [s]      # the empty polynomial is the zero function: 0 + c = c
                if C.canon(e) != C.canon(sg[0]):
                    return "translate: piece %d breakpoint changed" % i
                if [C.canon(g) for g in got] != [C.canon(C.bits(x)) for x in exp]:
                    return "translate(%r): PolyN piece %d %r became %r, expected %r (f+c must add c at every x)" % (
                        s, i, cs, [C.fl(g) for g in got], exp)
            return None
        n = G.arity(case["ty"])
        if r[0] != len(segs):
            return "%s changed the number of pieces: %d -> %d" % (op, len(segs), r[0])
        meth = {"pw_mul": "mul", "pw_mul_assign": "mul", "pw_neg": "neg", "pw_translate": "translate"}[op]
        s = C.fl(case["s"])
        for i, sg in enumerate(segs):
            got = r[1 + i * (n + 1): 1 + (i + 1) * (n + 1)]
            xs = [C.fl(b) for b in sg] + [s]
            exp = K.expected_op(meth, n, xs, seg=True)
            for j, (g, e) in enumerate(zip(got, exp)):
                if C.canon(g) != C.canon(C.bits(e)):
                    return "%s: piece %d number %d is 0x%016x, expected 0x%016x%s" % (op, i, j, g, C.bits(e), " (breakpoint changed)" if j == 0 else "")
        return None

    def nontrivial_key(self, case, h):
        if case["op"] != "k" and len(case["segs"]) < 2:
            return None
        return super().nontrivial_key(case, h)


PROP = P()
