from vlib import common as C, gens as G
from vlib.driver import Prop


def py_select(segs, x):
    """direct-evaluation rule, independently in Python: first end > x, else last"""
    for s in segs:
        if C.fl(s[0]) > x:
            return s
    return segs[-1]


def history(rng, es, n, nan=False):
    fin = [e for e in es if e == e and abs(e) != float("inf")] or [0.0]
    style = rng.choice(["walk", "jumps", "repeat", "ends", "mixed", "mixed"])
    pool = G.queries(rng, es, 4 * n, nan=False)
    out = []
    cur = rng.choice(fin)
    for k in range(n):
        if style == "walk":
            cur = cur + rng.choice([-1, 1, 1]) * rng.choice([0.25, 0.5, 1.0, 0.0])
            b = C.bits(cur)
        elif style == "jumps":
            b = rng.choice(pool)
        elif style == "repeat":
            b = out[-1] if out and rng.random() < 0.6 else rng.choice(pool)
        elif style == "ends":
            e = C.bits(rng.choice(es))
            b = rng.choice([e, C.next_up(e), C.next_down(e)])
        else:
            r = rng.random()
            if r < 0.3 and out:
                b = rng.choice([out[-1], C.next_up(out[-1]), C.next_down(out[-1])])
            else:
                b = rng.choice(pool)
        if nan and rng.random() < 0.15:
            b = rng.choice([C.NAN_BITS, 0xFFF8000000000000, 0x7FF0000000000001])
        out.append(b)
    return out


class P(Prop):
    ID = "C03"
    MODULE = "C03"
    THEOREMS = ["C03_history", "C03_memoryless", "C03_example"]
    KERNELS = ["Segment<Poly0>::evaluate", "Segment<Poly3>::evaluate"]
    RULE = ("evaluator histories of 1..40 (thorough ..400) non-NaN queries over 1..10 segments (tags / Poly3), styles: random "
            "walk, long jumps, repeats, exact ends and ulp-neighbours, +-inf; the cursor state (tail length, last argument) "
            "is compared after every query through the cfg hook. non-trivial = history contains a forward and a backward "
            "move and selects >= 2 segments; distinct by full input"
            " Also: evaluator_direct (the evaluator's answer against Piecewise::evaluate on the same argument, bit for bit) over pieces with signed-zero constants, 16..70 pieces with runs of equal ends, infinite first / last breakpoints with infinite first queries.")
    TRUSTED = ["hand-written skeleton PwModel.step/run tied to PiecewiseEvaluator by bit-exact correspondence of answers AND states"]
    ASSUMPTIONS = ["IEEE-754 comparisons", "cfg hook verif_state reports the real tail length / last_evaluation"]
    NAN = False

    def cases(self, rng, tier):
        n = 120 if tier == "quick" else 1500
        out = []
        for i in range(n):
            ty = rng.choice(["Poly0", "Poly0", "Poly0", "Poly3"])
            k = rng.randint(1, 10)
            es, sg = G.tag_segs(rng, k) if ty == "Poly0" else G.segs(rng, ty, k)
            hl = rng.randint(1, 40 if tier == "quick" or rng.random() < 0.9 else 400)
            xs = history(rng, es, hl, nan=self.NAN)
            out.append(dict(op="evaluator", ty=ty, segs=sg, xs=xs, meta={"class": "evaluator/" + ty}))
        # long functions: forward runs followed by backward jumps over many breakpoints (and back again)
        for k in (17, 18, 19, 33, 40, 65, 100):
            es, sg = G.tag_segs(rng, k, "ints")
            lo, hi = es[0], es[-1]
            xs = []
            for _ in range(10):
                a = rng.uniform(lo - 1, hi + 1)
                b = rng.uniform(lo - 1, hi + 1)
                xs += [C.bits(max(a, b)), C.bits(min(a, b)), C.bits(min(a, b) + rng.choice([0.0, 0.5, 1.0, 2.5])), C.bits(rng.choice(es))]
            out.append(dict(op="evaluator", ty="Poly0", segs=sg, xs=xs, meta={"class": "evaluator/long"}))
        # infinite breakpoints (first end -inf, or every end +inf) and histories that START with an infinite query
        for _ in range(10 if tier == "quick" else 120):
            k = rng.randint(2, 6)
            es, sg = G.tag_segs(rng, k)
            sg = [list(s_) for s_ in sg]
            st = rng.choice(["first_neg_inf", "first_neg_inf", "all_pos_inf", "two_neg_inf", "last_pos_inf"])
            if st == "first_neg_inf":
                sg[0][0] = C.bits(float("-inf"))
            elif st == "two_neg_inf":
                sg[0][0] = sg[1][0] = C.bits(float("-inf"))
            elif st == "all_pos_inf":
                for s_ in sg:
                    s_[0] = C.bits(float("inf"))
            else:
                sg[-1][0] = C.bits(float("inf"))
            first = C.bits(rng.choice([float("-inf"), float("-inf"), float("inf")]))
            es2 = [C.fl(s_[0]) for s_ in sg]
            xs = [first] + history(rng, es2, rng.randint(0, 6), nan=self.NAN)
            if rng.random() < 0.3:
                xs = history(rng, es2, 2, nan=self.NAN) + xs
            out.append(dict(op="evaluator", ty="Poly0", segs=sg, xs=xs, meta={"class": "evaluator/infinite_ends/" + st}))
        # the answer itself, bit for bit, against direct evaluation by the crate on the same argument (pieces whose value depends on
        # the sign of a zero argument; repeated arguments that compare equal but differ in bits: +0.0 / -0.0)
        for _ in range(16 if tier == "quick" else 200):
            ty = rng.choice(["Poly1", "Poly3", "Poly1"])
            k = rng.randint(1, 4)
            es, sg = G.segs(rng, ty, k)
            sg = [list(s_) for s_ in sg]
            nco = G.arity(ty)
            for s_ in sg:
                s_[1] = C.bits(rng.choice([-0.0, 0.0, -0.0]))           # constant term a zero of either sign
                s_[2] = C.bits(rng.choice([1.0, -1.0, 2.0]))
            j = rng.randrange(k)
            sg[j][0] = C.bits(rng.choice([0.5, 1.0, 3.0]))             # some piece contains 0
            for i in range(j):
                sg[i][0] = C.bits(-1.0 - (j - i))
            for i in range(j + 1, k):
                sg[i][0] = C.bits(C.fl(sg[i - 1][0]) + 1.0)
            z = [C.bits(0.0), C.bits(-0.0)]
            xs = [rng.choice(z + z + [C.bits(0.25), C.bits(-1.5), C.bits(5e-324), C.bits(-5e-324)]) for _ in range(rng.randint(2, 8))]
            xs[rng.randrange(len(xs) - 1) + 1] = z[rng.randrange(2)]
            xs[0] = z[rng.randrange(2)] if rng.random() < 0.7 else xs[0]
            out.append(dict(op="evaluator_direct", ty=ty, segs=sg, xs=xs, meta={"class": "evaluator_direct/signed_zero"}))
        for k in (16, 17, 24, 33, 40, 64, 70):
            # long functions with RUNS of equal breakpoints, queried exactly on them (and around), forwards and backwards
            es = []
            x = 0.0
            while len(es) < k:
                x += rng.choice([1.0, 2.0, 0.5])
                es += [x] * rng.choice([1, 1, 2, 3, 5])
            es = es[:k]
            sg = [[C.bits(e), C.bits(float(1000 + i))] for i, e in enumerate(es)]
            pts = sorted(set(es))
            xs = [C.bits(rng.choice(pts)) for _ in range(30)] + [C.bits(p_) for p_ in pts] + [C.next_down(C.bits(p_)) for p_ in pts[::3]]
            out.append(dict(op="evaluator_direct", ty="Poly0", segs=sg, xs=xs, meta={"class": "evaluator_direct/long_equal_ends"}))
        for _ in range(10 if tier == "quick" else 150):
            ty = rng.choice(["Poly3", "Poly1", "Log<Poly2>"])
            k = rng.randint(1, 6)
            es, sg = G.segs(rng, ty, k)
            xs = history(rng, es, rng.randint(2, 20), nan=False)
            if ty.startswith("Log"):
                xs = [b for b in xs if C.fl(b) > 0] or [C.bits(1.5)]
            out.append(dict(op="evaluator_direct", ty=ty, segs=sg, xs=xs, libm=ty.startswith("Log"), meta={"class": "evaluator_direct/" + ty}))
        return out

    def coq_term(self, case, h):
        if case["op"] != "evaluator":
            return None
        return "run_evaluator %s %s %s %s %s" % (C.ztable(h.get("ln", [])), C.ztable(h.get("exp", [])),
                                                 C.kname("Segment<%s>::evaluate" % case["ty"]),
                                                 C.zlistlist(case["segs"]), C.zlist(case["xs"]))

    def oracle(self, case, h):
        if case["op"] == "evaluator_direct":
            if h["r"] == "PANIC":
                return "evaluator panicked: %s" % h.get("msg")
            r = h["r"]
            for k, xb in enumerate(case["xs"]):
                x = C.fl(xb)
                if x != x:
                    continue
                if C.canon(r[2 * k]) != C.canon(r[2 * k + 1]):
                    return "query %d x=%r (history %s): evaluator answered %r (0x%016x), direct evaluation of the same function gives %r (0x%016x)" % (
                        k, x, [C.fl(b) for b in case["xs"][:k]], C.fl(r[2 * k]), r[2 * k], C.fl(r[2 * k + 1]), r[2 * k + 1])
            return None
        if case["op"] != "evaluator":
            return None
        segs = case["segs"]
        if not segs:
            return None if h["r"] == "PANIC" else "evaluator on empty segments did not panic"
        if h["r"] == "PANIC":
            return "evaluator panicked: %s" % h.get("msg")
        if case["ty"] != "Poly0":
            return None
        r = h["r"][2:]
        for k, xb in enumerate(case["xs"]):
            x = C.fl(xb)
            ans = r[3 * k]
            if x != x:
                continue            # the answer to a NaN query itself is unconstrained by C03/C16
            exp = py_select(segs, x)[1]
            if C.canon(ans) != C.canon(exp):
                return "query %d x=%r: evaluator answered 0x%016x, direct evaluation selects tag 0x%016x" % (k, x, ans, exp)
        return None

    def nontrivial_key(self, case, h):
        if case["op"] != "evaluator" or h["r"] == "PANIC" or len(case["segs"]) < 2:
            return None
        xs = [C.fl(b) for b in case["xs"]]
        fw = any(b > a for a, b in zip(xs, xs[1:]))
        bw = any(b < a for a, b in zip(xs, xs[1:]))
        answers = set(h["r"][2::3])
        if not (fw and bw and len(answers) >= 2):
            return None
        return super().nontrivial_key(case, h)


PROP = P()
