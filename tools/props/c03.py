from vlib import common as C, gens as G
from vlib.driver import Prop


def py_select(segs, x):
    """direct-evaluation rule, independently in Python: first end > x, else last"""
    for s in segs:
        if C.fl(s[0]) > x:
            return s
    return segs[-1]


def history(rng, es, n, nan=False):
    fin = [e for e in es if e == e and abs(e) != float("inf")] or [0.0]
    style = rng.choice(["walk", "jumps", "repeat", "ends", "mixed", "mixed"])
    pool = G.queries(rng, es, 4 * n, nan=False)
    out = []
    cur = rng.choice(fin)
    for k in range(n):
        if style == "walk":
            cur = cur + rng.choice([-1, 1, 1]) * rng.choice([0.25, 0.5, 1.0, 0.0])
            b = C.bits(cur)
        elif style == "jumps":
            b = rng.choice(pool)
        elif style == "repeat":
            b = out[-1] if out and rng.random() < 0.6 else rng.choice(pool)
        elif style == "ends":
            e = C.bits(rng.choice(es))
            b = rng.choice([e, C.next_up(e), C.next_down(e)])
        else:
            r = rng.random()
            if r < 0.3 and out:
                b = rng.choice([out[-1], C.next_up(out[-1]), C.next_down(out[-1])])
            else:
                b = rng.choice(pool)
        if nan and rng.random() < 0.15:
            b = rng.choice([C.NAN_BITS, 0xFFF8000000000000, 0x7FF0000000000001])
        out.append(b)
    return out


class P(Prop):
    ID = "C03"
    MODULE = "C03"
    THEOREMS = ["C03_history", "C03_memoryless", "C03_example"]
    KERNELS = ["Segment<Poly0>::evaluate", "Segment<Poly3>::evaluate"]
    RULE = ("evaluator histories of 1..40 (thorough ..400) non-NaN queries over 1..10 segments (tags / Poly3), styles: random "
            "walk, long jumps, repeats, exact ends and ulp-neighbours, +-inf; the cursor state (tail length, last argument) "
            "is compared after every query through the cfg hook. non-trivial = history contains a forward and a backward "
            "move and selects >= 2 segments; distinct by full input")
    TRUSTED = ["hand-written skeleton PwModel.step/run tied to PiecewiseEvaluator by bit-exact correspondence of answers AND states"]
    ASSUMPTIONS = ["IEEE-754 comparisons", "cfg hook verif_state reports the real tail length / last_evaluation"]
    NAN = False

    def cases(self, rng, tier):
        n = 120 if tier == "quick" else 1500
        out = []
        for i in range(n):
            ty = rng.choice(["Poly0", "Poly0", "Poly0", "Poly3"])
            k = rng.randint(1, 10)
            es, sg = G.tag_segs(rng, k) if ty == "Poly0" else G.segs(rng, ty, k)
            hl = rng.randint(1, 40 if tier == "quick" or rng.random() < 0.9 else 400)
            xs = history(rng, es, hl, nan=self.NAN)
            out.append(dict(op="evaluator", ty=ty, segs=sg, xs=xs, meta={"class": "evaluator/" + ty}))
        # long functions: forward runs followed by backward jumps over many breakpoints (and back again)
        for k in (17, 18, 19, 33, 40, 65, 100):
            es, sg = G.tag_segs(rng, k, "ints")
            lo, hi = es[0], es[-1]
            xs = []
            for _ in range(10):
                a = rng.uniform(lo - 1, hi + 1)
                b = rng.uniform(lo - 1, hi + 1)
                xs += [C.bits(max(a, b)), C.bits(min(a, b)), C.bits(min(a, b) + rng.choice([0.0, 0.5, 1.0, 2.5])), C.bits(rng.choice(es))]
            out.append(dict(op="evaluator", ty="Poly0", segs=sg, xs=xs, meta={"class": "evaluator/long"}))
        return out

    def coq_term(self, case, h):
        if case["op"] != "evaluator":
            return None
        return "run_evaluator %s %s %s %s %s" % (C.ztable(h.get("ln", [])), C.ztable(h.get("exp", [])),
                                                 C.kname("Segment<%s>::evaluate" % case["ty"]),
                                                 C.zlistlist(case["segs"]), C.zlist(case["xs"]))

    def oracle(self, case, h):
        if case["op"] != "evaluator":
            return None
        segs = case["segs"]
        if not segs:
            return None if h["r"] == "PANIC" else "evaluator on empty segments did not panic"
        if h["r"] == "PANIC":
            return "evaluator panicked: %s" % h.get("msg")
        if case["ty"] != "Poly0":
            return None
        r = h["r"][2:]
        for k, xb in enumerate(case["xs"]):
            x = C.fl(xb)
            ans = r[3 * k]
            if x != x:
                continue            # the answer to a NaN query itself is unconstrained by C03/C16
            exp = py_select(segs, x)[1]
            if C.canon(ans) != C.canon(exp):
                return "query %d x=%r: evaluator answered 0x%016x, direct evaluation selects tag 0x%016x" % (k, x, ans, exp)
        return None

    def nontrivial_key(self, case, h):
        if case["op"] != "evaluator" or h["r"] == "PANIC" or len(case["segs"]) < 2:
            return None
        xs = [C.fl(b) for b in case["xs"]]
        fw = any(b > a for a, b in zip(xs, xs[1:]))
        bw = any(b < a for a, b in zip(xs, xs[1:]))
        answers = set(h["r"][2::3])
        if not (fw and bw and len(answers) >= 2):
            return None
        return super().nontrivial_key(case, h)


PROP = P()
