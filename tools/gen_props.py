#!/usr/bin/env python3
"""One-off generators of the per-degree (static, pinned) theorem instances in coq/props/*.v.
The output is committed; it is NOT regenerated at check time (only gen/Kernels.v is)."""
import sys


def cvars(K, pre="c"):
    return ["%s%d" % (pre, i) for i in range(K + 1)]


def gen_c01():
    out = []
    out.append('''(* C01 - polynomial and log-polynomial evaluation equals the mathematical value.
   e_PolyK is the expression tree regenerated from `impl Evaluate for PolyK` (whatever scheme it uses). *)
From Coq Require Import List ZArith Reals Lra Lia.
From Flocq Require Import Core BinarySingleNaN.
Require Import PP.FloatModel PP.Expr PP.FloatOps PP.FloatFacts PP.RealOps PP.ErrorBound PP.PolyFacts PP.Model.PwModel
  PP.Proofs.KernelBounds PP.Proofs.PolyNProofs PP.Gen.Kernels.
Import ListNotations.
Local Open Scope R_scope.

(* fev env e  = the binary64 value of the term on inputs env;  polyval cs x = sum_i c_i x^i over the reals;
   polyabs cs x = sum_i |c_i| |x|^i;  u = 2^-53;
   safe env e       = no intermediate result underflows or overflows (standard model applies);
   exact_safe env e = every intermediate exact result is representable. *)
''')
    for K in range(9):
        cs = cvars(K)
        vs = " ".join(cs)
        lst = "[" + "; ".join(cs) + "]"
        env = "[" + "; ".join(cs + ["x"]) + "]"
        blst = "[" + "; ".join("B2R " + c for c in cs) + "]"
        n = K + 2
        out.append('''Definition e_Poly{K} : expr := hd (Lit 0) k_Poly{K}__evaluate.
Theorem C01_Poly{K}_value : forall {vs} x : R, eval ROps {env} e_Poly{K} = polyval {lst} x.
Proof. intros. unfold e_Poly{K}, k_Poly{K}__evaluate. cbn [hd]. reval. cbn [polyval]. ring. Qed.
Lemma C01_Poly{K}_abs : forall {vs} x : R, absval {env} e_Poly{K} = polyabs {lst} x.
Proof. intros. unfold e_Poly{K}, k_Poly{K}__evaluate, polyabs. cbn [hd absval nth map polyval]. ring. Qed.
Theorem C01_Poly{K}_exact : forall {vs} x : F, exact_safe {env} e_Poly{K} ->
  B2R (fev {env} e_Poly{K}) = polyval {blst} (B2R x).
Proof. intros. apply kernel_exact; [vm_compute; reflexivity|assumption|unfold rval; cbn [map]; apply C01_Poly{K}_value]. Qed.
Theorem C01_Poly{K}_bound : forall {vs} x : F, safe {env} e_Poly{K} ->
  Rabs (B2R (fev {env} e_Poly{K}) - polyval {blst} (B2R x)) <= 4 * INR {n} * u * polyabs {blst} (B2R x).
Proof.
  intros. apply kernel_bound; [vm_compute; reflexivity|assumption|vm_compute; lia|lia|unfold rval; cbn [map]; apply C01_Poly{K}_value|cbn [map]; apply C01_Poly{K}_abs].
Qed.
'''.format(K=K, vs=vs, env=env, lst=lst, blst=blst, n=n))
    out.append('''(* ---- the dynamic-degree polynomial: any length (up to 2^40), empty = 0 ---- *)
Theorem C01_PolyN_empty : forall x : F, polyn_eval fzero ffma [] x = fzero.
Proof. reflexivity. Qed.
Theorem C01_PolyN_exact : forall (c : F) (r : list F) (x : F),
  safe_h (fun v => generic_format radix2 fexp64 v /\\ Rabs v < bpow radix2 emax) c r x ->
  B2R (polyn_eval fzero ffma (c :: r) x) = polyval (map B2R (c :: r)) (B2R x).
Proof. intros. rewrite polyn_eval_horner. now apply horner_exact. Qed.
Theorem C01_PolyN_bound : forall (c : F) (r : list F) (x : F),
  INR (length r) <= 1099511627776 -> safe_h (fun v => nounder v /\\ noover v) c r x ->
  Rabs (B2R (polyn_eval fzero ffma (c :: r) x) - polyval (map B2R (c :: r)) (B2R x))
    <= 4 * (INR (length r) + 2) * u * polyabs (map B2R (c :: r)) (B2R x).
Proof. exact polyn_bound. Qed.

(* ---- Log wrappers: the same polynomial, evaluated at the libm value of ln v ---- *)
''')
    for K in range(9):
        cs = cvars(K)
        vs = " ".join(cs)
        lst = "[" + "; ".join(cs) + "]"
        envv = "[" + "; ".join(cs + ["v"]) + "]"
        envl = "[" + "; ".join(cs + ["ln_f v"]) + "]"
        sub = "[" + "; ".join("Var %d" % i for i in range(K + 1)) + "; Ln (Var %d)]" % (K + 1)
        out.append('''Definition e_Log{K} : expr := hd (Lit 0) k_Log_Poly{K}__evaluate.
Theorem C01_Log{K}_value : forall {vs} v : R, eval ROps {envv} e_Log{K} = polyval {lst} (ln v).
Proof. intros. unfold e_Log{K}, k_Log_Poly{K}__evaluate. cbn [hd]. reval. cbn [polyval]. ring. Qed.
(* for ANY libm oracle ln_f the Log wrapper computes, bit for bit, the polynomial at ln_f v *)
Theorem C01_Log{K}_float : forall (ln_f exp_f : F -> F) ({vs} v : F),
  eval (FOpsG ln_f exp_f) {envv} e_Log{K} = fev {envl} e_Poly{K}.
Proof.
  intros. change e_Log{K} with (subst {sub} e_Poly{K}).
  rewrite eval_subst by (vm_compute; reflexivity). cbn [map eval nth FOpsG o_ln o_default].
  apply eval_oracle_free. vm_compute. reflexivity.
Qed.
'''.format(K=K, vs=vs, lst=lst, envv=envv, envl=envl, sub=sub))
    out.append('''(* propagation of the error of ln through the polynomial: with l = ln_f v the computed logarithm,
   |p(l) - p(ln v)| <= |l - ln v| * sum_i i |c_i| M^(i-1)  for any M >= |l|, |ln v|;  together with
   C01_PolyK_bound at x := l this is the bound of the property (evaluation bound + propagated error of ln) *)
Theorem C01_log_propagation : forall (cs : list R) (l lnv M : R), Rabs l <= M -> Rabs lnv <= M ->
  Rabs (polyval cs l - polyval cs lnv) <= Rabs (l - lnv) * dpoly (map Rabs cs) M.
Proof. exact polyval_lipschitz. Qed.

(* non-vacuity: 1 + 2x + 3x^2 + 4x^3 at x = 2 is exactly 49 *)
Example C01_example :
  map to_bits (evals FOps0 (map of_bits [4607182418800017408; 4611686018427387904; 4613937818241073152; 4616189618054758400; 4611686018427387904]%Z) k_Poly3__evaluate)
  = [4632092954238910464%Z].
Proof. vm_compute. reflexivity. Qed.
''')
    return "\n".join(out)



import struct


def fbits(x):
    return struct.unpack("<Q", struct.pack("<d", float(x)))[0]


def gen_c08():
    out = []
    out.append('''(* C08 - differentiation yields the exact formal derivative, piece by piece. *)
From Coq Require Import List ZArith Reals Lra Lia.
From Flocq Require Import Core BinarySingleNaN.
Require Import PP.FloatModel PP.Expr PP.FloatOps PP.FloatFacts PP.RealOps PP.Shapes PP.PolyFacts PP.Model.PwModel PP.Gen.Kernels.
Import ListNotations.
Local Open Scope R_scope.

(* lanes: derivative of [c0..cK] is [c1; 2*c2; ...; K*cK], each product ONE binary64 multiplication by the
   literal factor (so it is the correctly rounded product); degree 0 gives the constant 0;
   for a Segment the breakpoint lane is the input itself. *)
Definition C08_table : list (list expr * list lane) := [''')
    rows = []
    for K in range(9):
        if K == 0:
            lanes = "[LLit 0]"
        else:
            lanes = "[" + "; ".join(["LVar 1"] + ["LMulLit %d %d" % (i + 1, fbits(i + 1)) for i in range(1, K)]) + "]"
        rows.append("  (k_Poly%d__derivative, %s)" % (K, lanes))
        rows.append("  (k_Segment_Poly%d__derivative, spec_segment %s)" % (K, lanes))
    out.append(";\n".join(rows))
    out.append('''].
Theorem C08_shapes :
  List.Forall (fun p => forall env, evals FOps0 env (fst p) = map (lane_sem env) (snd p)) C08_table.
Proof. apply table_ok_sem. vm_compute. reflexivity. Qed.

(* one binary64 multiplication is the correctly rounded product (at most half an ulp off) when it does not overflow *)
Theorem C08_lane_rounded : forall (c : F) (b : Z), is_finite c = true -> is_finite (of_bits b) = true ->
  noover (B2R c * B2R (of_bits b)) ->
  B2R (fmul c (of_bits b)) = rnd (B2R c * B2R (of_bits b)) /\\ is_finite (fmul c (of_bits b)) = true.
Proof. intros. now apply mul_correct. Qed.

Ltac list_ring := repeat match goal with
  | |- _ :: _ = _ :: _ => apply f_equal2; [try (simpl; ring)|]
  | |- [] = [] => reflexivity end.
''')
    for K in range(9):
        cs = cvars(K)
        out.append('''Theorem C08_Poly{K}_value : forall {vs} : R, evals ROps {lst} k_Poly{K}__derivative = {rhs}.
Proof. intros. unfold k_Poly{K}__derivative. reval. norm_lits. cbn [deriv_coeffs deriv_from]. list_ring. Qed.'''.format(
            K=K, vs=" ".join(cs), lst="[" + "; ".join(cs) + "]",
            rhs=("[0]" if K == 0 else "deriv_coeffs [" + "; ".join(cs) + "]")))
    out.append('''
(* hence the returned polynomial is p' at every x *)
Theorem C08_is_derivative : forall (cs : list R) (x : R), derivable_pt_lim (polyval cs) x (polyval (deriv_coeffs cs) x).
Proof. intros. rewrite <- dpoly_deriv_coeffs. apply derivable_polyval. Qed.

(* differentiating a piecewise function is `map` over its segments (model: Run.run_pw_map with the
   Segment<T>::derivative kernel, tied by correspondence): number of pieces and order are preserved *)
Theorem C08_map_length : forall (A B : Type) (f : A -> B) (l : list A), length (map f l) = length l.
Proof. intros. apply map_length. Qed.
Theorem C08_map_nth : forall (A B : Type) (f : A -> B) (l : list A) (i : nat), nth_error (map f l) i = option_map f (nth_error l i).
Proof. intros. apply nth_error_map. Qed.

Example C08_example :
  run_kernel [] [] k_Poly3__derivative [4607182418800017408; 4611686018427387904; 4613937818241073152; 4616189618054758400]%Z
  = [4611686018427387904; 4618441417868443648; 4622945017495814144]%Z.
Proof. vm_compute. reflexivity. Qed.
''')
    return "\n".join(out)



def gen_c07():
    out = []
    out.append('''(* C07 - polynomial integration yields the antiderivative through the given knot. *)
From Coq Require Import List ZArith Reals Lra Lia.
From Flocq Require Import Core BinarySingleNaN.
Require Import PP.FloatModel PP.Expr PP.FloatOps PP.FloatFacts PP.RealOps PP.Shapes PP.ErrorBound PP.PolyFacts PP.Model.PwModel
  PP.Proofs.KernelBounds PP.Gen.Kernels PP.Props.C01.
Import ListNotations.
Local Open Scope R_scope.

(* indefinite(): lanes [0; c0; c1/2; ...; cK/(K+1)], each quotient ONE binary64 division by the literal
   (correctly rounded), the constant term the literal 0 and lane 1 the input c0 itself.
   integral(knot): the same lanes except the constant term. *)
Definition C07_table : list (list expr * list lane) := [''')
    rows = []
    for K in range(8):
        lanes = ["LLit 0", "LVar 0"] + ["LDivLit %d %d" % (i, fbits(i + 1)) for i in range(1, K + 1)]
        rows.append("  (k_Poly%d__indefinite, [%s])" % (K, "; ".join(lanes)))
        rows.append("  (k_Segment_Poly%d__indefinite, spec_segment [%s])" % (K, "; ".join(lanes)))
        rows.append("  (tl k_Poly%d__integral, [%s])" % (K, "; ".join(lanes[1:])))
        seglanes = ["LVar 1"] + ["LDivLit %d %d" % (i + 1, fbits(i + 1)) for i in range(1, K + 1)]
        rows.append("  (tl (tl k_Segment_Poly%d__integral), [%s])" % (K, "; ".join(seglanes)))
        rows.append("  ([hd (Lit 0) k_Segment_Poly%d__integral], [LVar 0])" % K)
    out.append(";\n".join(rows))
    out.append('''].
Theorem C07_shapes :
  List.Forall (fun p => forall env, evals FOps0 env (fst p) = map (lane_sem env) (snd p)) C07_table.
Proof. apply table_ok_sem. vm_compute. reflexivity. Qed.

(* one binary64 division by a literal is the correctly rounded quotient *)
Theorem C07_lane_rounded : forall (c : F) (b : Z), is_finite c = true -> B2R (of_bits b) <> 0 ->
  noover (B2R c / B2R (of_bits b)) ->
  B2R (fdiv c (of_bits b)) = rnd (B2R c / B2R (of_bits b)) /\\ is_finite (fdiv c (of_bits b)) = true.
Proof. intros. now apply div_correct. Qed.

Ltac list_field := repeat match goal with
  | |- _ :: _ = _ :: _ => apply f_equal2; [try (simpl; field; lra)|]
  | |- [] = [] => reflexivity end.
''')
    for K in range(8):
        cs = cvars(K)
        vs = " ".join(cs)
        lst = "[" + "; ".join(cs) + "]"
        env = "[" + "; ".join(cs + ["kx", "ky"]) + "]"
        fenv = "[" + "; ".join(cs + ["kx", "ky"]) + "]"
        # composite: evaluate(integral(p, knot), knot.x)
        sub = "(k_Poly%d__integral ++ [Var %d])" % (K, K + 1)
        out.append('''Theorem C07_Poly{K}_indefinite : forall {vs} : R, evals ROps {lst} k_Poly{K}__indefinite = antider {lst}.
Proof. intros. unfold k_Poly{K}__indefinite. reval. norm_lits. unfold antider. cbn [antider_from]. list_field. Qed.
(* integral(knot) is the antiderivative shifted vertically: F(t) = A(t) + (knot.y - A(knot.x)) for every t *)
Theorem C07_Poly{K}_integral : forall {vs} kx ky t : R,
  polyval (evals ROps {env} k_Poly{K}__integral) t = polyval (antider {lst}) t + (ky - polyval (antider {lst}) kx).
Proof. intros. unfold k_Poly{K}__integral. reval. norm_lits. unfold antider. cbn [antider_from polyval]. simpl INR. field. Qed.
Theorem C07_Poly{K}_knot : forall {vs} kx ky : R, polyval (evals ROps {env} k_Poly{K}__integral) kx = ky.
Proof. intros. rewrite C07_Poly{K}_integral. ring. Qed.
(* the value of the returned polynomial at knot.x, computed in binary64 by Poly{K1}::evaluate, is knot.y within rounding *)
Definition e_knot{K} : expr := subst {sub} e_Poly{K1}.
Theorem C07_Poly{K}_knot_float : forall {vs} kx ky : F, safe {fenv} e_knot{K} ->
  Rabs (B2R (fev {fenv} e_knot{K}) - B2R ky) <= 2 * INR (depth e_knot{K}) * u * absval (map B2R {fenv}) e_knot{K}.
Proof.
  intros {vs} kx ky Hs.
  assert (Hv : rval {fenv} e_knot{K} = B2R ky).
  {{ unfold rval, e_knot{K}. rewrite eval_subst by (vm_compute; reflexivity). cbn [map app].
    change (map (eval ROps [{benv}]) (k_Poly{K}__integral ++ [Var {kxi}]))
      with (evals ROps [{benv}] k_Poly{K}__integral ++ [B2R kx]).
    unfold k_Poly{K}__integral. reval. norm_lits.
    cbn [app]. rewrite C01_Poly{K1}_value. cbn [polyval]. simpl INR. field. }}
  rewrite <- Hv. apply eval_apriori_lin; [vm_compute; reflexivity|exact Hs|].
  assert (Hd : INR (depth e_knot{K}) <= 100) by (vm_compute depth; simpl INR; lra).
  assert (Hu := u_pos). rewrite u_val in *. assert (0 <= INR (depth e_knot{K})) by apply pos_INR. nra.
Qed.
'''.format(K=K, K1=K + 1, vs=vs, lst=lst, env=env, fenv=fenv, sub=sub, kxi=K + 1,
              benv="; ".join("B2R " + c for c in cs + ["kx", "ky"])))
    out.append('''
(* consequently: derivative and differences of the result *)
Theorem C07_antiderivative : forall (cs : list R) (k x : R),
  derivable_pt_lim (fun t => polyval (antider cs) t + k) x (polyval cs x).
Proof.
  intros. replace (polyval cs x) with (polyval cs x + 0) by ring.
  apply derivable_pt_lim_plus; [|apply derivable_pt_lim_const].
  assert (H := derivable_polyval (antider cs) x). rewrite dpoly_deriv_coeffs, deriv_antider in H. exact H.
Qed.
Theorem C07_roundtrip_exact : forall cs : list R, deriv_coeffs (antider cs) = cs.
Proof. exact deriv_antider. Qed.

Example C07_example :
  run_kernel [] [] k_Poly2__integral [4607182418800017408; 4611686018427387904; 4613937818241073152; 4607182418800017408; 4621819117588971520]%Z
  = [4619567317775286272; 4607182418800017408; 4607182418800017408; 4607182418800017408]%Z.
Proof. vm_compute. reflexivity. Qed.
''')
    return "\n".join(out)



def gen_c09():
    out = []
    out.append('''(* C09 - integrals of log-polynomials are true antiderivatives, for every degree.
   (The quartic degree has its own representation IntOfLogPoly4; its statements are at the end.) *)
From Coq Require Import List ZArith Reals Lra Lia.
From Coquelicot Require Import Coquelicot.
Require Import PP.Expr PP.RealOps PP.PolyFacts PP.ExpTail PP.Gen.Kernels.
Import ListNotations.
Local Open Scope R_scope.

(* logq p = q with q_n = p_n, q_i = p_i - (i+1) q_(i+1): the coefficients of the antiderivative t * q(ln t) *)
Ltac list_ring := repeat match goal with
  | |- _ :: _ = _ :: _ => apply f_equal2; [try (simpl; ring)|]
  | |- [] = [] => reflexivity end.
''')
    for K in range(9):
        if K == 4:
            continue
        cs = cvars(K)
        qs = cvars(K, "q")
        vs = " ".join(cs)
        lst = "[" + "; ".join(cs) + "]"
        env = "[" + "; ".join(cs + ["kx", "ky"]) + "]"
        qenv = "[" + "; ".join(["k"] + qs + ["v"]) + "]"
        qlst = "[" + "; ".join(qs) + "]"
        out.append('''Theorem C09_Log{K}_indefinite : forall {vs} : R, evals ROps {lst} k_Log_Poly{K}__indefinite = 0 :: logq {lst}.
Proof. intros. unfold k_Log_Poly{K}__indefinite. reval. norm_lits. unfold logq. cbn [logq_from]. list_ring. Qed.
Theorem C09_IntOfLog{K}_evaluate : forall k {qvs} v : R, evals ROps {qenv} k_IntOfLog_Poly{K}__evaluate = [k + v * polyval {qlst} (ln v)].
Proof. intros. unfold k_IntOfLog_Poly{K}__evaluate. reval. cbn [polyval]. f_equal. ring. Qed.
(* F = integral(knot), evaluated at t:  F(t) = (knot.y - knot.x*q(ln knot.x)) + t*q(ln t) *)
Definition F_Log{K} ({vs} kx ky t : R) : R :=
  hd 0 (evals ROps (evals ROps {env} k_Log_Poly{K}__integral ++ [t]) k_IntOfLog_Poly{K}__evaluate).
Theorem C09_Log{K}_integral : forall {vs} kx ky t : R,
  F_Log{K} {vs} kx ky t = (ky - kx * polyval (logq {lst}) (ln kx)) + t * polyval (logq {lst}) (ln t).
Proof.
  intros. unfold F_Log{K}, k_Log_Poly{K}__integral. reval. norm_lits. cbn [app].
  unfold k_IntOfLog_Poly{K}__evaluate. reval. cbn [hd]. unfold logq. cbn [logq_from polyval]. simpl INR. ring.
Qed.
Theorem C09_Log{K}_knot : forall {vs} kx ky : R, F_Log{K} {vs} kx ky kx = ky.
Proof. intros. rewrite C09_Log{K}_integral. ring. Qed.
Theorem C09_Log{K}_deriv : forall {vs} kx ky t : R, 0 < t ->
  is_derive (F_Log{K} {vs} kx ky) t (polyval {lst} (ln t)).
Proof.
  intros {vs} kx ky t Ht.
  apply (is_derive_ext (fun t => (ky - kx * polyval (logq {lst}) (ln kx)) + t * polyval (logq {lst}) (ln t))).
  - intros; symmetry; apply C09_Log{K}_integral.
  - evar_last. apply @is_derive_plus; [apply @is_derive_const|apply is_derive_logpoly; exact Ht].
    unfold plus, zero; cbn. ring.
Qed.
Theorem C09_Log{K}_area : forall {vs} kx ky a b : R, 0 < a -> 0 < b ->
  is_RInt (fun t => polyval {lst} (ln t)) a b (F_Log{K} {vs} kx ky b - F_Log{K} {vs} kx ky a).
Proof. intros. rewrite !C09_Log{K}_integral. apply is_RInt_logpoly; assumption. Qed.
'''.format(K=K, vs=vs, lst=lst, env=env, qenv=qenv, qlst=qlst, qvs=" ".join(qs)))
    out.append('''
(* ---- the quartic degree: IntOfLogPoly4 ---- *)
(* the closed form of the representation, over the reals (x = -ln v):
   F(v) = k + v*(a x + b x^2 + c x^3 + d x^4) + u*v*x^5*R5(x),  R5(x) = (e^x - sum_{j<5} x^j/j!)/x^5 *)
Theorem C09_Log4_indefinite : forall c0 c1 c2 c3 c4 : R,
  evals ROps [c0; c1; c2; c3; c4] k_Log_Poly4__indefinite =
  [0; - c0; (- c0 + c1) / 2; ((- c0 + c1) / 2 - c2) / 3; (((- c0 + c1) / 2 - c2) / 3 + c3) / 4;
   ((((- c0 + c1) / 2 - c2) / 3 + c3) / 4 - c4) * 24].
Proof. intros. unfold k_Log_Poly4__indefinite. reval. norm_lits. repeat (apply f_equal2; [try (field; lra)|]). reflexivity. Qed.
(* G4: the exact antiderivative in the quartic representation (closed form of the tail) *)
Theorem C09_Log4_deriv : forall c0 c1 c2 c3 c4 k t : R, 0 < t ->
  is_derive (quartic_closed k (- c0) ((- c0 + c1) / 2) (((- c0 + c1) / 2 - c2) / 3) ((((- c0 + c1) / 2 - c2) / 3 + c3) / 4)
                            (((((- c0 + c1) / 2 - c2) / 3 + c3) / 4 - c4) * 24)) t
            (polyval [c0; c1; c2; c3; c4] (ln t)).
Proof. intros. apply quartic_closed_deriv. exact H. Qed.
''')
    return "\n".join(out)



def destr(var, names):
    """intro pattern destructing a list into exactly len(names) elements"""
    pat = "[|x_ r_]"
    for n in reversed(names):
        pat = "[|%s %s]" % (n, pat)
    return "destruct %s as %s; cbn [length] in *; try discriminate; try lia" % (var, pat)


def gen_c11():
    out = []
    out.append('''(* C11 - piecewise integration is continuous at breakpoints and is the true integral.
   Generic theorems about the knot-threading iteration (proofs/IntegralProofs.v) instantiated, per piece type,
   with the real-number semantics of the regenerated Segment<T> kernels. *)
From Coq Require Import List ZArith Reals Lra Lia.
Require Import PP.Expr PP.RealOps PP.PolyFacts PP.Model.PwModel PP.Proofs.IntegralProofs PP.Gen.Kernels.
Import ListNotations.
Local Open Scope R_scope.

(* a segment is (end, numbers of the piece); segment-level kernels take [end; numbers...; extra inputs] *)
Definition kseg (k : list expr) (s : R * list R) (extra : list R) : R * list R :=
  let o := evals ROps (fst s :: snd s ++ extra) k in (hd 0 o, tl o).
Definition kev (k : list expr) (F : R * list R) (t : R) : R := hd 0 (evals ROps (fst F :: snd F ++ [t]) k).

Ltac kred := unfold kseg, kev; cbn [fst snd app hd tl]; reval; norm_lits; cbn [fst snd app hd tl]; reval.
''')
    types = []
    for K in range(8):
        types.append(("Poly%d" % K, "P%d" % K, K + 1, "k_Segment_Poly%d__integral" % K, "k_Segment_Poly%d__indefinite" % K,
                      "k_Segment_Poly%d__evaluate" % (K + 1)))
    for K in range(9):
        ev = "k_Segment_IntOfLogPoly4__evaluate" if K == 4 else "k_Segment_IntOfLog_Poly%d__evaluate" % K
        types.append(("Log<Poly%d>" % K, "L%d" % K, K + 1, "k_Segment_Log_Poly%d__integral" % K, "k_Segment_Log_Poly%d__indefinite" % K, ev))
    for (tn, tag, n, kint, kind, kevn) in types:
        names = ["c%d" % i for i in range(n)]
        d = destr("cs", names)
        fin = "field" if tn.startswith("Poly") or tn == "Log<Poly4>" else "ring"
        out.append('''(* ---------------- {tn} ---------------- *)
Definition wf_{tag} (s : R * list R) : Prop := length (snd s) = {n}%nat.
Definition sint_{tag} (s : R * list R) (k : R * R) := kseg {kint} s [fst k; snd k].
Definition sind_{tag} (s : R * list R) := kseg {kind} s [].
Definition evI_{tag} := kev {kevn}.
Lemma C11_{tag}_S1 : forall s k, wf_{tag} s -> fst (sint_{tag} s k) = fst s.
Proof. intros [e cs] [kx ky] H. unfold wf_{tag} in H. cbn [snd] in H. {d}. unfold sint_{tag}, {kint}. kred. reflexivity. Qed.
Lemma C11_{tag}_S1i : forall s, wf_{tag} s -> fst (sind_{tag} s) = fst s.
Proof. intros [e cs] H. unfold wf_{tag} in H. cbn [snd] in H. {d}. unfold sind_{tag}, {kind}. kred. reflexivity. Qed.
Lemma C11_{tag}_S2 : forall s k, wf_{tag} s -> evI_{tag} (sint_{tag} s k) (fst k) = snd k.
Proof.
  intros [e cs] [kx ky] H. unfold wf_{tag} in H. cbn [snd] in H. {d}.
  unfold evI_{tag}, sint_{tag}, {kint}. kred. unfold {kevn}. kred. {fin}.
Qed.
Lemma C11_{tag}_S3 : forall s k, wf_{tag} s -> exists c, forall t, evI_{tag} (sint_{tag} s k) t = evI_{tag} (sind_{tag} s) t + c.
Proof.
  intros [e cs] [kx ky] H. unfold wf_{tag} in H. cbn [snd] in H. {d}.
  exists (ky - evI_{tag} (sind_{tag} (e, [{lst}])) kx). intros t.
  unfold evI_{tag}, sint_{tag}, sind_{tag}, {kint}, {kind}. kred. unfold {kevn}. kred. {fin}.
Qed.
(* same breakpoints; first piece through the knot; adjacent pieces agree at every interior breakpoint; every piece is
   the indefinite integral of its source piece plus a constant; the telescoped value formula *)
Theorem C11_{tag} : forall (segs : list (R * list R)) (k0 : R * R), List.Forall wf_{tag} segs ->
  let r := integral_iter sint_{tag} evI_{tag} segs k0 in
  map fst r = map fst segs /\\
  (forall l F G r', r = l ++ F :: G :: r' -> evI_{tag} G (fst F) = evI_{tag} F (fst F)) /\\
  List.Forall2 (fun s F => exists c, forall t, evI_{tag} F t = evI_{tag} (sind_{tag} s) t + c) segs r /\\
  List.Forall2 (fun (sk : (R * list R) * (R * R)) F => forall t,
                  evI_{tag} F t = snd (snd sk) + (evI_{tag} (sind_{tag} (fst sk)) t - evI_{tag} (sind_{tag} (fst sk)) (fst (snd sk))))
               (combine segs (knot_seq _ _ sind_{tag} evI_{tag} segs k0)) r.
Proof.
  intros segs k0 H. cbv zeta. repeat split.
  - apply iter_ends with (wf := wf_{tag}); [exact C11_{tag}_S1|exact H].
  - apply iter_continuous with (wf := wf_{tag}); [exact C11_{tag}_S2|exact H].
  - exact (@iter_antiderivative _ _ sint_{tag} sind_{tag} evI_{tag} wf_{tag} C11_{tag}_S3 segs k0 H).
  - exact (@iter_telescope _ _ sint_{tag} sind_{tag} evI_{tag} wf_{tag} C11_{tag}_S1 C11_{tag}_S2 C11_{tag}_S3 segs k0 H).
Qed.
Theorem C11_{tag}_first : forall s r k0, wf_{tag} s ->
  match integral_iter sint_{tag} evI_{tag} (s :: r) k0 with F :: _ => evI_{tag} F (fst k0) = snd k0 | [] => False end.
Proof. intros. apply iter_first with (wf := wf_{tag}); [exact C11_{tag}_S2|assumption]. Qed.
Theorem C11_{tag}_indefinite : forall s s2 r, wf_{tag} s -> wf_{tag} s2 -> List.Forall wf_{tag} r ->
  match pw_indefinite sint_{tag} sind_{tag} evI_{tag} (s :: s2 :: r) with
  | F0 :: F1 :: _ => F0 = sind_{tag} s /\\ evI_{tag} F1 (fst F0) = evI_{tag} F0 (fst F0)
  | _ => False end.
Proof.
  intros s s2 r Hs Hs2 Hr. split; [reflexivity|].
  apply indefinite_continuous with (wf := wf_{tag}) (r := r); [exact C11_{tag}_S2|exact Hs|exact Hs2|exact Hr].
Qed.
'''.format(tn=tn, tag=tag, n=n, kint=kint, kind=kind, kevn=kevn, d=d, fin=fin, lst="; ".join(names)))
    out.append('''
Theorem C11_indefinite_empty : forall (P PI : Type) si sd (ev : R * PI -> R -> R), @pw_indefinite R P PI si sd ev [] = [].
Proof. reflexivity. Qed.
''')
    return "\n".join(out)


if __name__ == "__main__":
    which = sys.argv[1]
    text = {"C01": gen_c01, "C08": gen_c08, "C07": gen_c07, "C09": gen_c09, "C11": gen_c11}[which]()
    open("/verif/coq/props/%s.v" % which, "w").write(text)
    print("wrote", which, len(text))
