#!/usr/bin/env python3
"""One-off generators of the per-degree (static, pinned) theorem instances in coq/props/*.v.
The output is committed; it is NOT regenerated at check time (only gen/Kernels.v is)."""
import sys


def cvars(K, pre="c"):
    return ["%s%d" % (pre, i) for i in range(K + 1)]


def gen_c01():
    out = []
    out.append('''(* C01 - polynomial and log-polynomial evaluation equals the mathematical value.
   e_PolyK is the expression tree regenerated from `impl Evaluate for PolyK` (whatever scheme it uses). *)
From Coq Require Import List ZArith Reals Lra Lia.
From Flocq Require Import Core BinarySingleNaN.
Require Import PP.FloatModel PP.Expr PP.FloatOps PP.FloatFacts PP.RealOps PP.ErrorBound PP.PolyFacts PP.Model.PwModel
  PP.Proofs.KernelBounds PP.Proofs.PolyNProofs PP.Gen.Kernels.
Import ListNotations.
Local Open Scope R_scope.

(* fev env e  = the binary64 value of the term on inputs env;  polyval cs x = sum_i c_i x^i over the reals;
   polyabs cs x = sum_i |c_i| |x|^i;  u = 2^-53;
   safe env e       = no intermediate result underflows or overflows (standard model applies);
   exact_safe env e = every intermediate exact result is representable. *)
''')
    for K in range(9):
        cs = cvars(K)
        vs = " ".join(cs)
        lst = "[" + "; ".join(cs) + "]"
        env = "[" + "; ".join(cs + ["x"]) + "]"
        blst = "[" + "; ".join("B2R " + c for c in cs) + "]"
        n = K + 2
        out.append('''Definition e_Poly{K} : expr := hd (Lit 0) k_Poly{K}__evaluate.
Theorem C01_Poly{K}_value : forall {vs} x : R, eval ROps {env} e_Poly{K} = polyval {lst} x.
Proof. intros. unfold e_Poly{K}, k_Poly{K}__evaluate. cbn [hd]. reval. cbn [polyval]. ring. Qed.
Lemma C01_Poly{K}_abs : forall {vs} x : R, absval {env} e_Poly{K} = polyabs {lst} x.
Proof. intros. unfold e_Poly{K}, k_Poly{K}__evaluate, polyabs. cbn [hd absval nth map polyval]. ring. Qed.
Theorem C01_Poly{K}_exact : forall {vs} x : F, exact_safe {env} e_Poly{K} ->
  B2R (fev {env} e_Poly{K}) = polyval {blst} (B2R x).
Proof. intros. apply kernel_exact; [vm_compute; reflexivity|assumption|unfold rval; cbn [map]; apply C01_Poly{K}_value]. Qed.
Theorem C01_Poly{K}_bound : forall {vs} x : F, safe {env} e_Poly{K} ->
  Rabs (B2R (fev {env} e_Poly{K}) - polyval {blst} (B2R x)) <= 4 * INR {n} * u * polyabs {blst} (B2R x).
Proof.
  intros. apply kernel_bound; [vm_compute; reflexivity|assumption|vm_compute; lia|lia|unfold rval; cbn [map]; apply C01_Poly{K}_value|cbn [map]; apply C01_Poly{K}_abs].
Qed.
'''.format(K=K, vs=vs, env=env, lst=lst, blst=blst, n=n))
    out.append('''(* ---- the dynamic-degree polynomial: any length (up to 2^40), empty = 0 ---- *)
Theorem C01_PolyN_empty : forall x : F, polyn_eval fzero ffma [] x = fzero.
Proof. reflexivity. Qed.
Theorem C01_PolyN_exact : forall (c : F) (r : list F) (x : F),
  safe_h (fun v => generic_format radix2 fexp64 v /\\ Rabs v < bpow radix2 emax) c r x ->
  B2R (polyn_eval fzero ffma (c :: r) x) = polyval (map B2R (c :: r)) (B2R x).
Proof. intros. rewrite polyn_eval_horner. now apply horner_exact. Qed.
Theorem C01_PolyN_bound : forall (c : F) (r : list F) (x : F),
  INR (length r) <= 1099511627776 -> safe_h (fun v => nounder v /\\ noover v) c r x ->
  Rabs (B2R (polyn_eval fzero ffma (c :: r) x) - polyval (map B2R (c :: r)) (B2R x))
    <= 4 * (INR (length r) + 2) * u * polyabs (map B2R (c :: r)) (B2R x).
Proof. exact polyn_bound. Qed.

(* ---- Log wrappers: the same polynomial, evaluated at the libm value of ln v ---- *)
''')
    for K in range(9):
        cs = cvars(K)
        vs = " ".join(cs)
        lst = "[" + "; ".join(cs) + "]"
        envv = "[" + "; ".join(cs + ["v"]) + "]"
        envl = "[" + "; ".join(cs + ["ln_f v"]) + "]"
        sub = "[" + "; ".join("Var %d" % i for i in range(K + 1)) + "; Ln (Var %d)]" % (K + 1)
        out.append('''Definition e_Log{K} : expr := hd (Lit 0) k_Log_Poly{K}__evaluate.
Theorem C01_Log{K}_value : forall {vs} v : R, eval ROps {envv} e_Log{K} = polyval {lst} (ln v).
Proof. intros. unfold e_Log{K}, k_Log_Poly{K}__evaluate. cbn [hd]. reval. cbn [polyval]. ring. Qed.
(* for ANY libm oracle ln_f the Log wrapper computes, bit for bit, the polynomial at ln_f v *)
Theorem C01_Log{K}_float : forall (ln_f exp_f : F -> F) ({vs} v : F),
  eval (FOpsG ln_f exp_f) {envv} e_Log{K} = fev {envl} e_Poly{K}.
Proof.
  intros. change e_Log{K} with (subst {sub} e_Poly{K}).
  rewrite eval_subst by (vm_compute; reflexivity). cbn [map eval nth FOpsG o_ln o_default].
  apply eval_oracle_free. vm_compute. reflexivity.
Qed.
'''.format(K=K, vs=vs, lst=lst, envv=envv, envl=envl, sub=sub))
    out.append('''(* propagation of the error of ln through the polynomial: with l = ln_f v the computed logarithm,
   |p(l) - p(ln v)| <= |l - ln v| * sum_i i |c_i| M^(i-1)  for any M >= |l|, |ln v|;  together with
   C01_PolyK_bound at x := l this is the bound of the property (evaluation bound + propagated error of ln) *)
Theorem C01_log_propagation : forall (cs : list R) (l lnv M : R), Rabs l <= M -> Rabs lnv <= M ->
  Rabs (polyval cs l - polyval cs lnv) <= Rabs (l - lnv) * dpoly (map Rabs cs) M.
Proof. exact polyval_lipschitz. Qed.

(* non-vacuity: 1 + 2x + 3x^2 + 4x^3 at x = 2 is exactly 49 *)
Example C01_example :
  map to_bits (evals FOps0 (map of_bits [4607182418800017408; 4611686018427387904; 4613937818241073152; 4616189618054758400; 4611686018427387904]%Z) k_Poly3__evaluate)
  = [4632092954238910464%Z].
Proof. vm_compute. reflexivity. Qed.
''')
    return "\n".join(out)


if __name__ == "__main__":
    which = sys.argv[1]
    text = {"C01": gen_c01}[which]()
    open("/verif/coq/props/%s.v" % which, "w").write(text)
    print("wrote", which, len(text))
