#!/usr/bin/env python3
"""(re)generate MANIFEST.json from the property modules that exist under tools/props"""
import importlib
import json
import os
import sys

ROOT = os.path.dirname(os.path.dirname(os.path.abspath(__file__)))
sys.path.insert(0, os.path.join(ROOT, "tools"))

TEXT = {
 "C02": "Theorems C02_first/last/total/char/halfopen/idx/breakpoint/+-infinity about the Gallina transcription of Piecewise::evaluate, for every segment list and every x (unbounded), tied to the code by bit-exact differential execution (model run by vm_compute on Flocq binary64 vs the crate).",
 "C03": "Theorem C03_history: for every well-formed segment list and every finite history of non-NaN queries (induction over the unbounded history, invariant on the cursor state) the evaluator's answers equal direct evaluation; C03_memoryless as corollary. Model step function tied to PiecewiseEvaluator by bit-exact comparison of answers and cursor states after every query.",
 "C12": "Theorems C12_runmax (any non-NaN sequence: segment chosen at the running maximum), C12_sorted (non-decreasing: equals pointwise evaluation), C12_empty; induction over the unbounded argument list. Laziness of the Rust iterator is observed by a pull-counting test only.",
 "C13": "Theorems C13_total (fuel suffices, <= len f+len g-1 pieces, breakpoints drawn from the operands), C13_pointwise (per-x loop invariant, no sortedness needed), C13_sorted, C13_empty, C13_nan about one Gallina transcription of the merge loop, tied to both Rust copies (Add, Sub) by separate bit-exact correspondence streams.",
 "C16": "Theorems: all three evaluation paths are total on every f64 argument for any non-empty segment list; C16_nan_harmless: on every history over all of f64 the evaluator equals direct evaluation (after the fix commit f62b1ba); totality and documented rejections of linear, constrained_spline, + and -. Debug-build panics not arising from the modelled logic are only observed by running the harness.",
}
NOTE = ("Coq 8.16.1 kernel + vm_compute; Flocq binary64 model of f64; stdlib Reals axioms and classic (via Flocq) as printed by "
        "Print Assumptions in evidence; hand-written skeleton tied to the code by correspondence (differential testing), generated "
        "kernels by the translator tools/rs2coq.py")
TECH = {}


def main():
    props = [json.loads(l) for l in open(os.path.join(ROOT, "properties.jsonl"))]
    have = {}
    for f in sorted(os.listdir(os.path.join(ROOT, "tools", "props"))):
        if f.startswith("c") and f.endswith(".py"):
            m = importlib.import_module("props." + f[:-3])
            have[m.PROP.ID] = m.PROP
    extra = {}
    p = os.path.join(ROOT, "tools", "manifest_text.json")
    if os.path.exists(p):
        extra = json.load(open(p))
    checks = []
    for pr in props:
        pid = pr["id"]
        if pid not in have:
            continue
        t = extra.get(pid, {})
        checks.append(dict(
            property_id=pid, quick_cmd="./check %s --tier quick" % pid, thorough_cmd="./check %s --tier thorough" % pid,
            evidence_file="evidence/%s.json" % pid, replay_cmd_template="./check %s --replay {path}" % pid, engine="coq",
            level_claimed=dict(category="proof", text=t.get("text") or TEXT.get(pid, "see DESIGN.md"), design_ref="DESIGN.md section 6 " + pid),
            level_note=t.get("note") or NOTE,
            technique=t.get("technique") or "Coq proof (Gallina model, kernels regenerated from source) + bit-exact correspondence check"))
    na = [dict(property_id=pr["id"], reason=extra.get(pr["id"], {}).get("na") or
               "not yet claimed: machinery for this property is still being built (planned, see DESIGN.md section 6)")
          for pr in props if pr["id"] not in have]
    man = dict(
        version=1, setup_cmd="./check --setup",
        hooks=dict(guard="piecewise_polynomial_verif",
                   enable='RUSTFLAGS="--cfg piecewise_polynomial_verif" (set in harness/.cargo/config.toml)',
                   baseline_off_cmd="cd /repo && cargo test --workspace --no-fail-fast --offline",
                   source_commits=["3563312"], add_only=True),
        engines=[dict(name="coq", path="coq/", serves_properties=sorted(have),
                      kind_free_text="Coq 8.16.1 development (Flocq binary64 model, hand-written skeleton, kernels regenerated from source by tools/rs2coq.py) + Rust correspondence harness")],
        checks=checks,
        notes="See DESIGN.md (section 11 is current). Fix commits in /repo: 0918b8c (C09/C11 IntOfLog::evaluate), f62b1ba (C16 NaN query), 985a9bd (C04/C05 f_dx sign test). known_findings.json lists the known findings D3 (C10) and D4 (C07) and the fixes.",
        not_applicable=na)
    json.dump(man, open(os.path.join(ROOT, "MANIFEST.json"), "w"), indent=1)
    print("claimed:", sorted(have), "not claimed:", [x["property_id"] for x in na])


if __name__ == "__main__":
    main()
