#!/usr/bin/env python3
"""rs2coq: translate the straight-line arithmetic method bodies ("kernels") of
piecewise-polynomial-rust from the CURRENT source tree into deep-embedded Coq
expression trees (PP.Expr.expr).

The translator is a small lexer + recursive-descent parser for the Rust subset the
kernels use, plus a symbolic interpreter that executes each (type, method) on symbolic
inputs Var 0 .. Var n-1 and records the expression tree of every output number.
Everything is inlined (no sharing) - the floating-point meaning of a tree is the
meaning of the code, because every operation is deterministic.

It FAILS CLOSED: any construct outside the subset raises TranslateError for that
kernel, which the driver reports as "model no longer tied to the source".
"""
import copy
import hashlib
import json
import os
import re
import struct
import sys

# ----------------------------------------------------------------------------
# Lexer
# ----------------------------------------------------------------------------


class TranslateError(Exception):
    pass


class NoImpl(TranslateError):
    """a trait method is not implemented for the value's type (in Rust: the generic impl's bound fails)"""


TOK_RE = re.compile(r"""
    (?P<ws>\s+)
  | (?P<lcomment>//[^\n]*)
  | (?P<bcomment>/\*.*?\*/)
  | (?P<str>"(?:[^"\\]|\\.)*")
  | (?P<life>'[A-Za-z_][A-Za-z0-9_]*(?!'))
  | (?P<chr>'(?:[^'\\]|\\.)')
  | (?P<num>[0-9][0-9_]*(?:\.[0-9][0-9_]*)?(?:[eE][+-]?[0-9]+)?(?:f64|usize|u64|i32|u32)?)
  | (?P<id>[A-Za-z_][A-Za-z0-9_]*)
  | (?P<op>::|->|=>|==|!=|<=|>=|&&|\|\||\+=|-=|\*=|/=|\.\.=|\.\.|[-+*/%=<>!&|.,;:(){}\[\]#?@^~$])
""", re.X | re.S)


class Tok:
    __slots__ = ("kind", "val", "line")

    def __init__(self, kind, val, line):
        self.kind, self.val, self.line = kind, val, line

    def __repr__(self):
        return "%s:%r@%d" % (self.kind, self.val, self.line)


def lex(src):
    toks = []
    pos = 0
    line = 1
    n = len(src)
    while pos < n:
        # tuple-field access: after '.', lex digits only (self.0.evaluate, (self.0).0[1])
        if toks and toks[-1].kind == "op" and toks[-1].val == "." and src[pos].isdigit():
            m = re.compile(r"[0-9]+").match(src, pos)
            toks.append(Tok("num", m.group(0), line))
            pos = m.end()
            continue
        m = TOK_RE.match(src, pos)
        if not m:
            raise TranslateError("lex error at line %d: %r" % (line, src[pos:pos + 20]))
        kind = m.lastgroup
        text = m.group(0)
        if kind == "num":
            # "1." followed by ident / '.' is not part of the float (e.g. `0..n`); our regex
            # requires a digit after '.', so nothing to undo here.
            toks.append(Tok("num", text, line))
        elif kind in ("id", "op", "str", "life", "chr"):
            toks.append(Tok(kind, text, line))
        line += text.count("\n")
        pos = m.end()
    toks.append(Tok("eof", "", line))
    return toks


# ----------------------------------------------------------------------------
# Item-level parser: structs, impls, fns (bodies kept as token slices)
# ----------------------------------------------------------------------------


class Fn:
    def __init__(self, name, params, body, file, line, impl=None):
        self.name = name          # str
        self.params = params      # list of (pattern_tokens, type_tokens) ; self handled via self_kind
        self.self_kind = None     # None | 'value' | 'ref' | 'mut'
        self.body = body          # token list (including braces) or None
        self.file = file
        self.line = line
        self.impl = impl
        self._ast = None


class Impl:
    def __init__(self, generics, trait, trait_args, self_ty, file, line):
        self.generics = generics      # list of generic param names
        self.trait = trait            # str or None
        self.trait_args = trait_args  # list of type asts
        self.self_ty = self_ty        # type ast
        self.fns = {}
        self.file = file
        self.line = line


class Struct:
    def __init__(self, name, generics, fields, tuple_like):
        self.name = name
        self.generics = generics
        self.fields = fields          # list of (fieldname, type ast)
        self.tuple_like = tuple_like


class P:
    """token cursor"""

    def __init__(self, toks, file="?"):
        self.t = toks
        self.i = 0
        self.file = file

    def peek(self, k=0):
        return self.t[min(self.i + k, len(self.t) - 1)]

    def next(self):
        tok = self.t[self.i]
        self.i += 1
        return tok

    def at(self, val, kind=None):
        tok = self.peek()
        return tok.val == val and (kind is None or tok.kind == kind) and tok.kind != "str"

    def accept(self, val):
        if self.at(val):
            self.i += 1
            return True
        return False

    def expect(self, val):
        tok = self.next()
        if tok.val != val or tok.kind == "str":
            raise TranslateError("%s:%d: expected %r, got %r" % (self.file, tok.line, val, tok.val))
        return tok

    def ident(self):
        tok = self.next()
        if tok.kind != "id":
            raise TranslateError("%s:%d: expected identifier, got %r" % (self.file, tok.line, tok.val))
        return tok.val

    def skip_balanced(self, open_, close):
        """cursor is AT the opening token; returns tokens including both delimiters"""
        start = self.i
        depth = 0
        while True:
            tok = self.next()
            if tok.kind == "eof":
                raise TranslateError("%s: unbalanced %s" % (self.file, open_))
            if tok.kind == "op" and tok.val == open_:
                depth += 1
            elif tok.kind == "op" and tok.val == close:
                depth -= 1
                if depth == 0:
                    return self.t[start:self.i]


def parse_generics(p):
    """at '<' : returns list of generic param names (lifetimes dropped); consumes through '>'"""
    names = []
    if not p.at("<"):
        return names
    p.next()
    depth = 1
    expect_name = True
    while depth > 0:
        tok = p.next()
        if tok.kind == "eof":
            raise TranslateError("unbalanced generics")
        if tok.val == "<" and tok.kind == "op":
            depth += 1
        elif tok.val == ">" and tok.kind == "op":
            depth -= 1
        elif tok.val == "->":
            pass
        elif depth == 1 and tok.val == "," and tok.kind == "op":
            expect_name = True
        elif depth == 1 and expect_name and tok.kind == "id":
            names.append(tok.val)
            expect_name = False
        elif depth == 1 and expect_name and tok.kind == "life":
            expect_name = False
    return names


def parse_type(p):
    """type ast: ('ref', mut, ty) | ('path', name, [args]) | ('array', ty, n) | ('tuple', [tys]) | ('other',)"""
    if p.accept("&"):
        if p.peek().kind == "life":
            p.next()
        mut = p.accept("mut")
        return ("ref", mut, parse_type(p))
    if p.at("["):
        p.next()
        ty = parse_type(p)
        n = None
        if p.accept(";"):
            tok = p.next()
            n = int(tok.val) if tok.kind == "num" else tok.val
        p.expect("]")
        return ("array", ty, n)
    if p.at("("):
        p.next()
        tys = []
        while not p.at(")"):
            tys.append(parse_type(p))
            if not p.accept(","):
                break
        p.expect(")")
        return ("tuple", tys)
    if p.at("impl") or p.at("dyn"):
        # impl Iterator<...> + 'a : swallow conservatively
        p.next()
        ty = parse_type(p)
        while p.accept("+"):
            if p.peek().kind == "life":
                p.next()
            else:
                parse_type(p)
        return ("other",)
    if p.at("<"):
        # qualified path  <Self::Epsilon as AbsDiffEq>::default_epsilon  / <I as IntoIterator>::IntoIter
        p.skip_balanced("<", ">")
        while p.accept("::"):
            p.ident()
        return ("other",)
    name = p.ident()
    segs = [name]
    args = []
    while True:
        if p.at("::"):
            p.next()
            if p.at("<"):
                args = parse_type_args(p)
            else:
                segs.append(p.ident())
            continue
        if p.at("<"):
            args = parse_type_args(p)
            continue
        break
    return ("path", "::".join(segs), args)


def parse_type_args(p):
    p.expect("<")
    args = []
    while not p.at(">"):
        if p.peek().kind == "life":
            p.next()
        else:
            # associated type binding  Epsilon = f64 / Output = T
            if p.peek().kind == "id" and p.peek(1).val == "=" and p.peek(1).kind == "op":
                p.next()
                p.next()
                parse_type(p)
            else:
                args.append(parse_type(p))
        if not p.accept(","):
            break
    p.expect(">")
    return args


def skip_attrs(p):
    """returns True if a #[cfg(test)] attribute was among the skipped attributes"""
    is_test = False
    while p.at("#"):
        p.next()
        p.accept("!")
        toks = p.skip_balanced("[", "]")
        text = "".join(t.val for t in toks)
        if text.replace(" ", "") in ("[cfg(test)]", "[test]"):
            is_test = True
    return is_test


def skip_where(p):
    if p.at("where"):
        while not (p.at("{") or p.at(";")):
            if p.at("<"):
                p.skip_balanced("<", ">")
            else:
                p.next()


def parse_fn(p, file, impl=None):
    line = p.peek().line
    p.expect("fn")
    name = p.ident()
    parse_generics(p)
    p.expect("(")
    fn = Fn(name, [], None, file, line, impl)
    while not p.at(")"):
        # self forms
        if p.at("self"):
            p.next()
            fn.self_kind = "value"
        elif p.at("mut") and p.peek(1).val == "self":
            p.next()
            p.next()
            fn.self_kind = "value"
        elif p.at("&") and (p.peek(1).val == "self" or (p.peek(1).val == "mut" and p.peek(2).val == "self")
                            or (p.peek(1).kind == "life")):
            p.next()
            if p.peek().kind == "life":
                p.next()
            if p.accept("mut"):
                fn.self_kind = "mut"
            else:
                fn.self_kind = "ref"
            p.expect("self")
        else:
            pat = parse_pattern(p)
            p.expect(":")
            ty = parse_type(p)
            fn.params.append((pat, ty))
        if not p.accept(","):
            break
    p.expect(")")
    if p.accept("->"):
        parse_type(p)
        while p.accept("+"):
            if p.peek().kind == "life":
                p.next()
            else:
                parse_type(p)
    skip_where(p)
    if p.at("{"):
        fn.body = p.skip_balanced("{", "}")
    else:
        p.expect(";")
    return fn


def parse_pattern(p):
    """('id', name, mut) | ('wild',) | ('tuple', [pats]) | ('ref', pat) | ('struct', name, [(field, pat)])"""
    if p.accept("&"):
        p.accept("mut")
        return ("ref", parse_pattern(p))
    if p.at("("):
        p.next()
        pats = []
        while not p.at(")"):
            pats.append(parse_pattern(p))
            if not p.accept(","):
                break
        p.expect(")")
        return ("tuple", pats)
    mut = p.accept("mut")
    name = p.ident()
    if name == "_":
        return ("wild",)
    if p.at("{") and name[0].isupper():
        p.next()
        fields = []
        while not p.at("}"):
            f = p.ident()
            if p.accept(":"):
                fields.append((f, parse_pattern(p)))
            else:
                fields.append((f, ("id", f, False)))
            if not p.accept(","):
                break
        p.expect("}")
        return ("struct", name, fields)
    return ("id", name, mut)


class Module:
    def __init__(self, file):
        self.file = file
        self.structs = {}
        self.impls = []
        self.fns = {}       # free functions (incl. nested modules, by bare name; and 'mod::name')
        self.consts = {}


def parse_items(p, mod, file, modpath=""):
    while p.peek().kind != "eof" and not p.at("}"):
        is_test = skip_attrs(p)
        if p.peek().kind == "eof" or p.at("}"):
            break
        if is_test:
            skip_item(p)
            continue
        p.accept("pub")
        if p.at("("):  # pub(crate)
            p.skip_balanced("(", ")")
        if p.at("use") or p.at("extern"):
            while not p.accept(";"):
                p.next()
        elif p.at("mod"):
            p.next()
            name = p.ident()
            if p.accept(";"):
                continue
            p.expect("{")
            parse_items(p, mod, file, modpath + name + "::")
            p.expect("}")
        elif p.at("struct"):
            p.next()
            name = p.ident()
            gens = parse_generics(p)
            if p.at("("):
                p.next()
                fields = []
                k = 0
                while not p.at(")"):
                    skip_attrs(p)
                    p.accept("pub")
                    fields.append((str(k), parse_type(p)))
                    k += 1
                    if not p.accept(","):
                        break
                p.expect(")")
                skip_where(p)
                p.expect(";")
                mod.structs[name] = Struct(name, gens, fields, True)
            else:
                skip_where(p)
                p.expect("{")
                fields = []
                while not p.at("}"):
                    skip_attrs(p)
                    p.accept("pub")
                    f = p.ident()
                    p.expect(":")
                    fields.append((f, parse_type(p)))
                    if not p.accept(","):
                        break
                p.expect("}")
                mod.structs[name] = Struct(name, gens, fields, False)
        elif p.at("trait"):
            p.next()
            p.ident()
            parse_generics(p)
            while not p.at("{"):
                p.next()
            p.skip_balanced("{", "}")
        elif p.at("impl"):
            line = p.peek().line
            p.next()
            gens = parse_generics(p)
            first = parse_type(p)
            trait = None
            targs = []
            if p.accept("for"):
                trait = first[1] if first[0] == "path" else "?"
                targs = first[2] if first[0] == "path" else []
                self_ty = parse_type(p)
            else:
                self_ty = first
            skip_where(p)
            impl = Impl(gens, trait, targs, self_ty, file, line)
            p.expect("{")
            while not p.at("}"):
                t2 = skip_attrs(p)
                p.accept("pub")
                if p.at("type"):
                    while not p.accept(";"):
                        p.next()
                elif p.at("const"):
                    while not p.accept(";"):
                        p.next()
                elif p.at("fn"):
                    fn = parse_fn(p, file, impl)
                    if not t2:
                        impl.fns[fn.name] = fn
                else:
                    raise TranslateError("%s:%d: unexpected token %r in impl" % (file, p.peek().line, p.peek().val))
            p.expect("}")
            mod.impls.append(impl)
        elif p.at("fn"):
            fn = parse_fn(p, file)
            mod.fns[modpath + fn.name] = fn
            mod.fns.setdefault(fn.name, fn)
        elif p.at("const") or p.at("static"):
            p.next()
            name = p.ident()
            p.expect(":")
            parse_type(p)
            p.expect("=")
            toks = []
            while not p.at(";"):
                toks.append(p.next())
            p.expect(";")
            mod.consts[name] = toks
        else:
            raise TranslateError("%s:%d: unsupported item starting with %r" % (file, p.peek().line, p.peek().val))


def skip_item(p):
    """skip one item (used for #[cfg(test)] items)"""
    while True:
        if p.at("{"):
            p.skip_balanced("{", "}")
            return
        if p.at(";"):
            p.next()
            return
        if p.at("("):
            p.skip_balanced("(", ")")
            continue
        if p.peek().kind == "eof":
            return
        p.next()


# ----------------------------------------------------------------------------
# Expression / statement parser (function bodies)
# ----------------------------------------------------------------------------
# AST nodes are tuples:
#  ('num', text) ('path', [segs]) ('field', e, name) ('index', e, e) ('call', f, [args])
#  ('mcall', recv, name, [args]) ('unary', op, e) ('binary', op, a, b) ('assign', op, lhs, rhs)
#  ('if', c, then_block, else_block|None) ('block', [stmts], tail|None) ('array', [e]) ('tuple', [e])
#  ('struct', name, [(f, e)]) ('closure', [pats], body) ('ref', mut, e) ('deref', e) ('let', pat, e)
#  ('paren', e) ('macro', name) ('cast', e, ty)

BINOP_PREC = {
    "||": 1, "&&": 2,
    "==": 3, "!=": 3, "<": 3, ">": 3, "<=": 3, ">=": 3,
    "+": 5, "-": 5, "*": 6, "/": 6, "%": 6,
}


def parse_block(p):
    p.expect("{")
    stmts = []
    tail = None
    while not p.at("}"):
        skip_attrs(p)
        if p.accept(";"):
            continue
        if p.at("let"):
            p.next()
            pat = parse_pattern(p)
            if p.accept(":"):
                parse_type(p)
            p.expect("=")
            e = parse_expr(p)
            if p.at("else"):
                raise TranslateError("%s:%d: let-else not supported in kernels" % (p.file, p.peek().line))
            p.expect(";")
            stmts.append(("let", pat, e))
            continue
        if p.at("const"):
            p.next()
            name = p.ident()
            p.expect(":")
            parse_type(p)
            p.expect("=")
            e = parse_expr(p)
            p.expect(";")
            stmts.append(("let", ("id", name, False), e))
            continue
        e = parse_expr(p, stmt=True)
        if p.accept(";"):
            stmts.append(e)
        elif p.at("}"):
            tail = e
        elif e[0] in ("if", "block", "for", "loop", "match"):
            stmts.append(e)
        else:
            raise TranslateError("%s:%d: expected ';' or '}' after expression, got %r" % (p.file, p.peek().line, p.peek().val))
    p.expect("}")
    return ("block", stmts, tail)


def parse_expr(p, stmt=False, nostruct=False):
    lhs = parse_binary(p, 0, nostruct)
    if p.peek().kind == "op" and p.peek().val in ("=", "+=", "-=", "*=", "/="):
        op = p.next().val
        rhs = parse_expr(p, nostruct=nostruct)
        return ("assign", op, lhs, rhs)
    return lhs


def parse_binary(p, minprec, nostruct):
    lhs = parse_unary(p, nostruct)
    while True:
        tok = p.peek()
        if tok.kind != "op" or tok.val not in BINOP_PREC:
            break
        prec = BINOP_PREC[tok.val]
        if prec < minprec or prec == 0:
            break
        if prec <= minprec - 1:
            break
        if prec < minprec + 0 and minprec > 0:
            break
        p.next()
        rhs = parse_binary(p, prec + 1, nostruct)
        lhs = ("binary", tok.val, lhs, rhs)
    return lhs


def parse_unary(p, nostruct):
    if p.at("-"):
        p.next()
        return ("unary", "-", parse_unary(p, nostruct))
    if p.at("!"):
        p.next()
        return ("unary", "!", parse_unary(p, nostruct))
    if p.at("*"):
        p.next()
        return ("deref", parse_unary(p, nostruct))
    if p.at("&") or p.at("&&"):
        two = p.next().val == "&&"
        mut = p.accept("mut")
        e = ("ref", mut, parse_unary(p, nostruct))
        return ("ref", False, e) if two else e
    return parse_postfix(p, nostruct)


def parse_postfix(p, nostruct):
    e = parse_primary(p, nostruct)
    while True:
        if p.at("."):
            p.next()
            tok = p.next()
            if tok.kind == "num":
                e = ("field", e, tok.val)
            elif tok.kind == "id":
                if p.at("::"):
                    p.next()
                    parse_type_args(p)
                if p.at("("):
                    args = parse_args(p)
                    e = ("mcall", e, tok.val, args)
                else:
                    e = ("field", e, tok.val)
            else:
                raise TranslateError("%s:%d: bad field %r" % (p.file, tok.line, tok.val))
        elif p.at("["):
            p.next()
            ix = parse_expr(p)
            if p.at("..") or ix[0] == "range":
                raise TranslateError("%s:%d: slicing not supported in kernels" % (p.file, p.peek().line))
            p.expect("]")
            e = ("index", e, ix)
        elif p.at("("):
            args = parse_args(p)
            e = ("call", e, args)
        elif p.at("?"):
            raise TranslateError("%s:%d: '?' not supported in kernels" % (p.file, p.peek().line))
        elif p.at("as"):
            p.next()
            ty = parse_type(p)
            e = ("cast", e, ty)
        else:
            return e


def parse_args(p):
    p.expect("(")
    args = []
    while not p.at(")"):
        args.append(parse_expr(p))
        if not p.accept(","):
            break
    p.expect(")")
    return args


def parse_primary(p, nostruct):
    tok = p.peek()
    if tok.kind == "num":
        p.next()
        return ("num", tok.val)
    if tok.kind == "op" and tok.val == "(":
        p.next()
        if p.accept(")"):
            return ("tuple", [])
        e = parse_expr(p)
        if p.at(","):
            es = [e]
            while p.accept(","):
                if p.at(")"):
                    break
                es.append(parse_expr(p))
            p.expect(")")
            return ("tuple", es)
        p.expect(")")
        return ("paren", e)
    if tok.kind == "op" and tok.val == "[":
        p.next()
        es = []
        while not p.at("]"):
            es.append(parse_expr(p))
            if p.at(";"):
                raise TranslateError("%s:%d: [e; n] not supported" % (p.file, tok.line))
            if not p.accept(","):
                break
        p.expect("]")
        return ("array", es)
    if tok.kind == "op" and tok.val == "{":
        return parse_block(p)
    if tok.kind == "op" and tok.val in ("|", "||"):
        pats = []
        if p.next().val == "|":
            while not p.at("|"):
                pats.append(parse_pattern(p))
                if p.accept(":"):
                    parse_type(p)
                if not p.accept(","):
                    break
            p.expect("|")
        body = parse_expr(p)
        return ("closure", pats, body)
    if tok.kind == "id":
        if tok.val == "if":
            p.next()
            c = parse_expr(p, nostruct=True)
            tb = parse_block(p)
            eb = None
            if p.accept("else"):
                if p.at("if"):
                    eb = ("block", [], parse_primary(p, nostruct))
                else:
                    eb = parse_block(p)
            return ("if", c, tb, eb)
        if tok.val == "return":
            p.next()
            if p.at(";") or p.at("}"):
                return ("return", ("tuple", []))
            return ("return", parse_expr(p, nostruct=nostruct))
        if tok.val in ("match", "loop", "while", "for", "break", "continue", "unsafe", "move"):
            raise TranslateError("%s:%d: control flow %r not supported in kernels" % (p.file, tok.line, tok.val))
        # path, possibly followed by struct literal or macro
        segs = [p.ident()]
        while p.at("::"):
            p.next()
            if p.at("<"):
                parse_type_args(p)
            else:
                segs.append(p.ident())
        if p.at("!"):
            raise TranslateError("%s:%d: macro %s! not supported in kernels" % (p.file, tok.line, segs[-1]))
        if p.at("{") and not nostruct and segs[-1][0].isupper():
            p.next()
            fields = []
            while not p.at("}"):
                f = p.ident()
                if p.accept(":"):
                    fields.append((f, parse_expr(p)))
                else:
                    fields.append((f, ("path", [f])))
                if not p.accept(","):
                    break
            p.expect("}")
            return ("struct", segs[-1], fields)
        return ("path", segs)
    if tok.kind == "op" and tok.val == "<":
        p.skip_balanced("<", ">")
        segs = ["<qualified>"]
        while p.accept("::"):
            segs.append(p.ident())
        return ("path", segs)
    raise TranslateError("%s:%d: unexpected token %r in expression" % (p.file, tok.line, tok.val))


# ----------------------------------------------------------------------------
# Symbolic values
# ----------------------------------------------------------------------------
# scalar expression trees (immutable tuples):
#   ('Var', n) ('Lit', bits) ('Add',a,b) ('Sub',a,b) ('Mul',a,b) ('Div',a,b) ('Fma',a,b,c)
#   ('Neg',a) ('Max',a,b) ('Ln',a) ('Exp',a) ('If', c, t, e)
# boolean trees: ('Lt',a,b) ('Le',a,b) ('And',c,d)  ('Or',c,d) ('Not',c)  ('True',) ('False',)


def f64_bits(x):
    return struct.unpack("<Q", struct.pack("<d", x))[0]


def lit(x):
    return ("Lit", f64_bits(float(x)))


class SArray:
    def __init__(self, items):
        self.items = list(items)


class SStruct:
    def __init__(self, ty, fields):
        self.ty = ty                  # struct name
        self.fields = fields          # ordered dict name -> value


class STuple:
    def __init__(self, items):
        self.items = list(items)


class SIter:
    """result of X.iter_mut() / X.iter() / zip: only usable by for_each"""

    def __init__(self, kind, arrays):
        self.kind = kind
        self.arrays = arrays


class SClosure:
    def __init__(self, pats, body, env):
        self.pats, self.body, self.env = pats, body, env


class Returned:
    """value produced by a `return` statement: propagates to the enclosing function call"""

    def __init__(self, value):
        self.value = value


class Place:
    """a mutable location: container object + key"""

    def __init__(self, get, set_):
        self.get, self.set = get, set_


def is_scalar(v):
    return isinstance(v, tuple) and len(v) > 0 and v[0] in (
        "Var", "Lit", "Add", "Sub", "Mul", "Div", "Fma", "Neg", "Max", "Min", "Abs", "Ln", "Exp", "If")


def is_bool(v):
    return isinstance(v, tuple) and len(v) > 0 and v[0] in ("Lt", "Le", "Eqf", "And", "Or", "Not", "True", "False",
                                                             "AbsDiffEq", "RelEq", "BAll")


def type_str(v):
    if is_scalar(v):
        return "f64"
    if isinstance(v, SArray):
        return "[f64;%d]" % len(v.items)
    if isinstance(v, SStruct):
        inner = [type_str(x) for x in v.fields.values() if isinstance(x, SStruct)]
        return v.ty + ("<" + ",".join(inner) + ">" if inner and v.ty in GENERIC_WRAPPERS else "")
    return "?"


GENERIC_WRAPPERS = ("Log", "IntOfLog", "Segment")


def flatten(v):
    if is_scalar(v):
        return [v]
    if isinstance(v, SArray):
        out = []
        for x in v.items:
            out += flatten(x)
        return out
    if isinstance(v, SStruct):
        out = []
        for x in v.fields.values():
            out += flatten(x)
        return out
    if isinstance(v, STuple):
        out = []
        for x in v.items:
            out += flatten(x)
        return out
    if is_bool(v):
        return [v]
    raise TranslateError("cannot flatten value of kind %s" % type(v).__name__)


# ----------------------------------------------------------------------------
# The crate: all modules, lookup tables
# ----------------------------------------------------------------------------

SRC_FILES = ["poly.rs", "log_poly.rs", "piecewise.rs", "spline.rs", "linear.rs"]

OP_TRAIT = {"+": ("Add", "add"), "-": ("Sub", "sub"), "*": ("Mul", "mul"), "/": ("Div", "div")}
ASSIGN_TRAIT = {"+=": ("AddAssign", "add_assign"), "-=": ("SubAssign", "sub_assign"),
                "*=": ("MulAssign", "mul_assign"), "/=": ("DivAssign", "div_assign")}


class Crate:
    def __init__(self, srcdir):
        self.srcdir = srcdir
        self.mods = {}
        self.hashes = {}
        for f in SRC_FILES:
            path = os.path.join(srcdir, f)
            with open(path, "r", encoding="utf-8") as fh:
                src = fh.read()
            self.hashes[f] = hashlib.sha256(src.encode()).hexdigest()
            mod = Module(f)
            p = P(lex(src), f)
            parse_items(p, mod, f)
            self.mods[f] = mod
        self.structs = {}
        for m in self.mods.values():
            self.structs.update(m.structs)

    # ---- type matching of impl self types against runtime values
    def ty_matches(self, ty, v, generics, is_ref=None):
        if ty[0] == "ref":
            return self.ty_matches(ty[2], v, generics)
        if ty[0] == "path":
            name = ty[1]
            if name in generics:
                return True
            if name == "f64":
                return is_scalar(v)
            if name == "Self":
                return True
            if not isinstance(v, SStruct) or v.ty != name:
                return False
            if ty[2]:
                inner = [x for x in v.fields.values() if isinstance(x, SStruct) or isinstance(x, SArray)]
                # generic wrappers have exactly one type parameter: the piece type
                st = self.structs.get(name)
                if st and st.generics:
                    gfields = [fn for fn, fty in st.fields if fty[0] == "path" and fty[1] in st.generics]
                    if len(gfields) == 1 and len(ty[2]) == 1:
                        return self.ty_matches(ty[2][0], v.fields[gfields[0]], generics)
                return False
            return True
        if ty[0] == "array":
            return isinstance(v, SArray)
        return False

    def find_method(self, v, name, want_ref=False, trait=None):
        cands = []
        for m in self.mods.values():
            for impl in m.impls:
                if name not in impl.fns:
                    continue
                if trait is not None and impl.trait != trait:
                    continue
                if self.ty_matches(impl.self_ty, v, impl.generics):
                    cands.append(impl)
        if not cands:
            return None
        # specificity: non-generic self type beats generic; ref impl only when asked for
        def score(impl):
            is_ref = impl.self_ty[0] == "ref"
            generic = 1 if self._is_generic_ty(impl.self_ty, impl.generics) else 0
            return (0 if is_ref == want_ref else 1, generic)
        cands.sort(key=score)
        best = [c for c in cands if score(c) == score(cands[0])]
        if len(best) > 1:
            # same impl header repeated is a genuine ambiguity for us
            raise TranslateError("ambiguous method %s for %s (%d impls)" % (name, type_str(v), len(best)))
        return best[0].fns[name]

    def _is_generic_ty(self, ty, generics):
        if ty[0] == "ref":
            return self._is_generic_ty(ty[2], generics)
        if ty[0] == "path":
            if ty[1] in generics:
                return True
            return any(self._is_generic_ty(a, generics) for a in ty[2])
        return False

    def find_fn(self, segs, file):
        name = segs[-1]
        qual = "::".join(segs)
        mod = self.mods[file]
        if qual in mod.fns:
            return mod.fns[qual]
        if name in mod.fns:
            return mod.fns[name]
        for m in self.mods.values():
            if qual in m.fns:
                return m.fns[qual]
        return None


def fn_ast(fn):
    if fn._ast is None:
        if fn.body is None:
            raise TranslateError("%s:%d: fn %s has no body" % (fn.file, fn.line, fn.name))
        p = P(fn.body + [Tok("eof", "", fn.line)], fn.file)
        fn._ast = parse_block(p)
    return fn._ast


# ----------------------------------------------------------------------------
# Symbolic interpreter
# ----------------------------------------------------------------------------

F64_CONSTS = {"EPSILON": 2.220446049250313e-16, "MAX": 1.7976931348623157e308, "MIN_POSITIVE": 2.2250738585072014e-308,
              "INFINITY": float("inf"), "NEG_INFINITY": float("-inf")}


class Env:
    def __init__(self, parent=None):
        self.vars = {}
        self.parent = parent

    def lookup(self, name):
        e = self
        while e is not None:
            if name in e.vars:
                return e
            e = e.parent
        return None


class Interp:
    def __init__(self, crate):
        self.c = crate
        self.depth = 0

    # -------- calls
    def call_fn(self, fn, self_val, args):
        self.depth += 1
        if self.depth > 40:
            raise TranslateError("call depth exceeded (recursion?) in %s" % fn.name)
        try:
            env = Env()
            if fn.self_kind is not None:
                if fn.self_kind == "value":
                    self_val = copy.deepcopy(self_val)
                env.vars["self"] = self_val
            elif self_val is not None:
                raise TranslateError("fn %s takes no self" % fn.name)
            if len(args) != len(fn.params):
                raise TranslateError("%s:%d: fn %s expects %d args, got %d" % (fn.file, fn.line, fn.name, len(fn.params), len(args)))
            for (pat, ty), a in zip(fn.params, args):
                if not (ty[0] == "ref"):
                    a = copy.deepcopy(a)
                self.bind(pat, a, env)
            env.vars["__file__"] = fn.file
            r = self.eval_block(fn_ast(fn), env)
            return r.value if isinstance(r, Returned) else r
        finally:
            self.depth -= 1

    def bind(self, pat, v, env):
        k = pat[0]
        if k == "id":
            env.vars[pat[1]] = v
        elif k == "wild":
            pass
        elif k == "ref":
            self.bind(pat[1], v, env)
        elif k == "tuple":
            if not isinstance(v, STuple) or len(v.items) != len(pat[1]):
                raise TranslateError("tuple pattern mismatch")
            for q, x in zip(pat[1], v.items):
                self.bind(q, x, env)
        elif k == "struct":
            if not isinstance(v, SStruct) or v.ty != pat[1]:
                raise TranslateError("struct pattern mismatch")
            for f, q in pat[2]:
                self.bind(q, v.fields[f], env)
        else:
            raise TranslateError("unsupported pattern %r" % (pat,))

    def file_of(self, env):
        e = env.lookup("__file__")
        return e.vars["__file__"] if e else "poly.rs"

    # -------- blocks / statements
    def eval_block(self, blk, env):
        env = Env(env)
        return self.eval_stmts(list(blk[1]), blk[2], env)

    def eval_stmts(self, stmts, tail, env):
        """statements with support for the early-return idiom `if c { return e; }` (turned into a conditional whose
        else-branch is the rest of the block); Returned marks a value that leaves the enclosing function"""
        for ix, s in enumerate(stmts):
            if s[0] == "let":
                v = self.eval(s[2], env)
                if self.is_place_expr(s[2]):
                    v = copy.deepcopy(v)
                self.bind(s[1], v, env)
            elif s[0] == "return":
                return Returned(self.eval(s[1], env))
            elif s[0] == "if" and s[3] is None and self.block_returns(s[2]):
                c = self.eval(s[1], env)
                if not is_bool(c):
                    raise TranslateError("if condition is not a comparison")
                t = self.eval_block(s[2], env)
                if not isinstance(t, Returned):
                    raise TranslateError("early-return block does not return on every path")
                # the rest of the block is the else branch; mutations made in either branch must not leak into the other
                env2 = copy.deepcopy(env)
                f = self.eval_stmts(stmts[ix + 1:], tail, env2)
                fval = f.value if isinstance(f, Returned) else f
                return Returned(self.select(c, t.value, fval)) if isinstance(f, Returned) or True else None
            else:
                r = self.eval(s, env)
                if isinstance(r, Returned):
                    return r
        if tail is not None:
            if tail[0] == "return":
                return Returned(self.eval(tail[1], env))
            return self.eval(tail, env)
        return STuple([])

    def block_returns(self, blk):
        if blk[2] is not None and blk[2][0] == "return":
            return True
        return bool(blk[1]) and blk[1][-1][0] == "return"

    def is_place_expr(self, e):
        return e[0] in ("path", "field", "index", "deref", "paren")

    # -------- places
    def place(self, e, env):
        k = e[0]
        if k == "paren":
            return self.place(e[1], env)
        if k == "deref":
            return self.place(e[1], env)
        if k == "ref":
            return self.place(e[2], env)
        if k == "path" and len(e[1]) == 1:
            name = e[1][0]
            scope = env.lookup(name)
            if scope is None:
                raise TranslateError("unbound variable %s" % name)
            if isinstance(scope.vars[name], Place):
                return scope.vars[name]
            return Place(lambda: scope.vars[name], lambda v: scope.vars.__setitem__(name, v))
        if k == "field":
            base = self.eval(e[1], env)
            if isinstance(base, SStruct):
                if e[2] not in base.fields:
                    raise TranslateError("no field %s on %s" % (e[2], base.ty))
                return Place(lambda: base.fields[e[2]], lambda v: base.fields.__setitem__(e[2], v))
            if isinstance(base, STuple):
                i = int(e[2])
                return Place(lambda: base.items[i], lambda v: base.items.__setitem__(i, v))
            raise TranslateError("field access .%s on non-struct (%s)" % (e[2], type_str(base)))
        if k == "index":
            base = self.eval(e[1], env)
            ix = self.eval(e[2], env)
            i = self.const_index(ix)
            if not isinstance(base, SArray):
                raise TranslateError("indexing a non-array")
            if i < 0 or i >= len(base.items):
                raise TranslateError("constant index %d out of bounds (len %d): the code would panic" % (i, len(base.items)))
            return Place(lambda: base.items[i], lambda v: base.items.__setitem__(i, v))
        raise TranslateError("not a place expression: %s" % e[0])

    def const_index(self, v):
        if isinstance(v, int):
            return v
        raise TranslateError("non-constant index")

    # -------- expressions
    def eval(self, e, env):
        k = e[0]
        if k == "num":
            t = e[1].replace("_", "")
            for suf in ("f64",):
                if t.endswith(suf):
                    return lit(float(t[:-3]))
            for suf in ("usize", "u64", "i32", "u32"):
                if t.endswith(suf):
                    return int(t[:-len(suf)])
            if "." in t or "e" in t or "E" in t:
                return lit(float(t))
            return int(t)
        if k == "paren":
            return self.eval(e[1], env)
        if k == "path":
            segs = e[1]
            if len(segs) == 1:
                scope = env.lookup(segs[0])
                if scope is not None:
                    v = scope.vars[segs[0]]
                    return v.get() if isinstance(v, Place) else v
                for m in self.c.mods.values():
                    if segs[0] in m.consts:
                        p = P(m.consts[segs[0]] + [Tok("eof", "", 0)], m.file)
                        return self.eval(parse_expr(p), Env())
                return ("fnref", segs)
            if segs[0] == "f64" and segs[1] in F64_CONSTS:
                return lit(F64_CONSTS[segs[1]])
            return ("fnref", segs)
        if k in ("field", "index"):
            return self.place(e, env).get()
        if k == "deref":
            return self.eval(e[1], env)
        if k == "ref":
            return self.eval(e[2], env)
        if k == "unary":
            v = self.eval(e[2], env)
            if e[1] == "-":
                if isinstance(v, int):
                    return -v
                if is_scalar(v):
                    if v[0] == "Lit":
                        # rustc folds the negation of a literal into the literal
                        return ("Lit", v[1] ^ (1 << 63))
                    return ("Neg", v)
                if isinstance(v, SStruct):
                    fn = self.c.find_method(v, "neg", trait="Neg")
                    if fn is None:
                        raise NoImpl("no Neg impl for %s" % type_str(v))
                    return self.call_fn(fn, v, [])
            if e[1] == "!" and is_bool(v):
                return ("Not", v)
            raise TranslateError("unsupported unary %s on %s" % (e[1], type_str(v)))
        if k == "binary":
            return self.eval_binary(e, env)
        if k == "assign":
            return self.eval_assign(e, env)
        if k == "if":
            c = self.eval(e[1], env)
            if not is_bool(c):
                raise TranslateError("if condition is not a comparison")
            if e[3] is None:
                raise TranslateError("if without else in a kernel")
            t = self.eval_block(e[2], env)
            f = self.eval_block(e[3], env)
            return self.select(c, t, f)
        if k == "block":
            return self.eval_block(e, env)
        if k == "array":
            return SArray([self.eval(x, env) for x in e[1]])
        if k == "tuple":
            return STuple([self.eval(x, env) for x in e[1]])
        if k == "struct":
            st = self.c.structs.get(e[1])
            if st is None:
                raise TranslateError("unknown struct %s" % e[1])
            given = dict((f, self.eval(x, env)) for f, x in e[2])
            fields = {}
            for fname, _ in st.fields:
                if fname not in given:
                    raise TranslateError("struct literal %s missing field %s" % (e[1], fname))
                fields[fname] = copy.deepcopy(given[fname])
            return SStruct(e[1], fields)
        if k == "closure":
            return SClosure(e[1], e[2], env)
        if k == "call":
            return self.eval_call(e, env)
        if k == "mcall":
            return self.eval_mcall(e, env)
        if k == "cast":
            raise TranslateError("casts are not supported in kernels")
        raise TranslateError("unsupported expression kind %s" % k)

    def select(self, c, t, f):
        """If on possibly structured values: distribute field-wise"""
        if is_scalar(t) and is_scalar(f):
            return ("If", c, t, f)
        if isinstance(t, SStruct) and isinstance(f, SStruct) and t.ty == f.ty:
            return SStruct(t.ty, dict((n, self.select(c, t.fields[n], f.fields[n])) for n in t.fields))
        if isinstance(t, SArray) and isinstance(f, SArray) and len(t.items) == len(f.items):
            return SArray([self.select(c, a, b) for a, b in zip(t.items, f.items)])
        raise TranslateError("if branches of different shape")

    def eval_binary(self, e, env):
        op = e[1]
        if op in ("&&", "||"):
            a = self.eval(e[2], env)
            b = self.eval(e[3], env)
            if not (is_bool(a) and is_bool(b)):
                raise TranslateError("%s on non-boolean" % op)
            return ("And" if op == "&&" else "Or", a, b)
        a = self.eval(e[2], env)
        b = self.eval(e[3], env)
        if isinstance(a, int) and isinstance(b, int):
            return {"+": a + b, "-": a - b, "*": a * b}.get(op)
        if op in ("<", "<=", ">", ">="):
            if not (is_scalar(a) and is_scalar(b)):
                raise TranslateError("comparison of non-scalars")
            return {"<": ("Lt", a, b), "<=": ("Le", a, b), ">": ("Lt", b, a), ">=": ("Le", b, a)}[op]
        if op in ("==", "!="):
            if is_scalar(a) and is_scalar(b):
                return ("Eqf", a, b) if op == "==" else ("Not", ("Eqf", a, b))
            if isinstance(a, SArray) and isinstance(b, SArray) and len(a.items) == len(b.items) and \
                    all(is_scalar(x) and is_scalar(y) for x, y in zip(a.items, b.items)):
                acc = ("True",)
                for x, y in reversed(list(zip(a.items, b.items))):
                    acc = ("And", ("Eqf", x, y), acc)
                return acc if op == "==" else ("Not", acc)
            raise TranslateError("== / != on values other than f64 or [f64; N] is not supported in kernels")
        if op not in OP_TRAIT:
            raise TranslateError("operator %s not supported" % op)
        if is_scalar(a) and is_scalar(b):
            return ({"+": "Add", "-": "Sub", "*": "Mul", "/": "Div"}[op], a, b)
        trait, meth = OP_TRAIT[op]
        if isinstance(a, SStruct):
            want_ref = e[2][0] == "ref"
            fn = self.c.find_method(a, meth, want_ref=want_ref, trait=trait)
            if fn is None:
                raise NoImpl("no %s impl for %s" % (trait, type_str(a)))
            return self.call_fn(fn, a, [b])
        raise TranslateError("operator %s on %s, %s" % (op, type_str(a), type_str(b)))

    def eval_assign(self, e, env):
        op = e[1]
        pl = self.place(e[2], env)
        rhs = self.eval(e[3], env)
        cur = pl.get() if op != "=" else None
        if op == "=":
            val = copy.deepcopy(rhs) if self.is_place_expr(e[3]) else rhs
            tgt = e[2]
            while tgt[0] == "paren":
                tgt = tgt[1]
            if tgt[0] == "deref":
                # `*r = v` through a reference: overwrite the referenced object in place
                cur = pl.get()
                if isinstance(cur, SStruct) and isinstance(val, SStruct) and cur.ty == val.ty:
                    cur.fields = copy.deepcopy(val.fields)
                    return STuple([])
                if isinstance(cur, SArray) and isinstance(val, SArray):
                    cur.items = copy.deepcopy(val.items)
                    return STuple([])
            pl.set(val)
            return STuple([])
        if is_scalar(cur) and is_scalar(rhs):
            node = {"+=": "Add", "-=": "Sub", "*=": "Mul", "/=": "Div"}[op]
            pl.set((node, cur, rhs))
            return STuple([])
        if isinstance(cur, SStruct):
            trait, meth = ASSIGN_TRAIT[op]
            fn = self.c.find_method(cur, meth, trait=trait)
            if fn is None:
                raise NoImpl("no %s impl for %s" % (trait, type_str(cur)))
            self.call_fn(fn, cur, [rhs])
            return STuple([])
        raise TranslateError("compound assignment %s on %s" % (op, type_str(cur)))

    def eval_call(self, e, env):
        f = e[1]
        args = [self.eval(a, env) for a in e[2]]
        if f[0] == "path":
            segs = f[1]
            name = segs[-1]
            # tuple struct constructor
            st = self.c.structs.get(name)
            if len(segs) == 1 and st is not None and st.tuple_like:
                if len(args) != len(st.fields):
                    raise TranslateError("constructor %s arity" % name)
                return SStruct(name, dict((fn_, copy.deepcopy(a)) for (fn_, _), a in zip(st.fields, args)))
            if segs == ["Default", "default"]:
                raise TranslateError("Default::default() not supported in kernels")
            if len(segs) == 1 and env.lookup(name) is not None:
                raise TranslateError("calling a local value")
            # associated fn  Knot::new
            if len(segs) == 2 and segs[0] in self.c.structs:
                for m in self.c.mods.values():
                    for impl in m.impls:
                        if impl.trait is None and impl.self_ty[0] == "path" and impl.self_ty[1] == segs[0] and name in impl.fns:
                            return self.call_fn(impl.fns[name], None, args)
            fn = self.c.find_fn(segs, self.file_of(env))
            if fn is None:
                raise TranslateError("unknown function %s" % "::".join(segs))
            # &mut arguments are passed by reference (python object identity): handled by not copying
            return self.call_fn(fn, None, args)
        raise TranslateError("unsupported call form")

    SCALAR_METHODS = ("mul_add", "neg", "recip", "max", "ln", "exp")

    def eval_mcall(self, e, env):
        name = e[2]
        recv_ast = e[1]
        # iterator idioms
        if name == "for_each":
            it = self.eval(recv_ast, env)
            if not isinstance(it, SIter) or len(e[3]) != 1:
                raise TranslateError("unsupported for_each receiver")
            clo = self.eval(e[3][0], env)
            if not isinstance(clo, SClosure):
                raise TranslateError("for_each needs a closure")
            return self.run_for_each(it, clo)
        if name in ("iter_mut", "iter"):
            arr = self.eval(recv_ast, env)
            if not isinstance(arr, SArray):
                raise TranslateError(".%s() on non-array" % name)
            return SIter(name, [arr])
        if name == "zip":
            a = self.eval(recv_ast, env)
            b = self.eval(e[3][0], env)
            if not (isinstance(a, SIter) and isinstance(b, SIter)):
                raise TranslateError("zip of non-iterators")
            return SIter("zip", a.arrays + b.arrays)
        recv = self.eval(recv_ast, env)
        args = [self.eval(a, env) for a in e[3]]
        if is_scalar(recv):
            if name == "mul_add" and len(args) == 2:
                return ("Fma", recv, args[0], args[1])
            if name == "neg" and not args:
                return ("Neg", recv)
            if name == "recip" and not args:
                return ("Div", lit(1.0), recv)
            if name == "max" and len(args) == 1:
                return ("Max", recv, args[0])
            if name == "min" and len(args) == 1:
                return ("Min", recv, args[0])
            if name == "abs" and not args:
                return ("Abs", recv)
            if name == "ln" and not args:
                return ("Ln", recv)
            if name == "exp" and not args:
                return ("Exp", recv)
            if name in ("abs_diff_eq", "relative_eq"):
                return self.approx_prim(name, recv, args)
            raise TranslateError("unsupported f64 method .%s()" % name)
        if isinstance(recv, SArray):
            if name in ("abs_diff_eq", "relative_eq"):
                return self.approx_prim(name, recv, args)
            raise TranslateError("unsupported array method .%s()" % name)
        if isinstance(recv, SStruct):
            fn = self.c.find_method(recv, name)
            if fn is None:
                raise NoImpl("no method %s for %s" % (name, type_str(recv)))
            return self.call_fn(fn, recv, args)
        raise TranslateError("method .%s() on unsupported receiver" % name)

    def approx_prim(self, name, a, args):
        b = args[0]
        tol = args[1:]
        if is_scalar(a) and is_scalar(b):
            return ("AbsDiffEq", a, b, tol[0]) if name == "abs_diff_eq" else ("RelEq", a, b, tol[0], tol[1])
        if isinstance(a, SArray) and isinstance(b, SArray):
            if len(a.items) != len(b.items):
                return ("False",)
            parts = [self.approx_prim(name, x, [y] + tol) for x, y in zip(a.items, b.items)]
            return ("BAll", parts)
        raise TranslateError("approx on mismatched shapes")

    def run_for_each(self, it, clo):
        n = len(it.arrays[0].items)
        for arr in it.arrays:
            if len(arr.items) != n:
                raise TranslateError("zip of arrays of different length")
        for i in range(n):
            env = Env(clo.env)
            places = [Place((lambda a=arr, i=i: a.items[i]), (lambda v, a=arr, i=i: a.items.__setitem__(i, v)))
                      for arr in it.arrays]
            if len(it.arrays) == 1:
                if len(clo.pats) != 1:
                    raise TranslateError("closure arity")
                self.bind_place(clo.pats[0], places[0], env)
            else:
                if len(clo.pats) != 1 or clo.pats[0][0] != "tuple" or len(clo.pats[0][1]) != len(places):
                    raise TranslateError("zip closure must destructure a tuple")
                for q, pl in zip(clo.pats[0][1], places):
                    self.bind_place(q, pl, env)
            self.eval(clo.body, env)
        return STuple([])

    def bind_place(self, pat, pl, env):
        if pat[0] == "id":
            env.vars[pat[1]] = pl
        elif pat[0] == "ref":
            self.bind_place(pat[1], pl, env)
        else:
            raise TranslateError("unsupported closure pattern")


# ----------------------------------------------------------------------------
# Kernel enumeration
# ----------------------------------------------------------------------------

POLY_DEG = list(range(9))


class VarGen:
    def __init__(self):
        self.n = 0

    def fresh(self):
        v = ("Var", self.n)
        self.n += 1
        return v


def mk_value(crate, tyname, vg):
    """build a symbolic value of a named type; tyname like 'Poly3', 'Log<Poly3>', 'Knot', 'f64'"""
    if tyname == "f64":
        return vg.fresh()
    m = re.match(r"^(\w+)(?:<(.+)>)?$", tyname)
    name, arg = m.group(1), m.group(2)
    st = crate.structs.get(name)
    if st is None:
        raise TranslateError("unknown type %s" % tyname)
    fields = {}
    for fname, fty in st.fields:
        fields[fname] = mk_of_ty(crate, fty, st, arg, vg)
    return SStruct(name, fields)


def mk_of_ty(crate, ty, st, arg, vg):
    if ty[0] == "path":
        if ty[1] == "f64":
            return vg.fresh()
        if ty[1] in st.generics:
            if arg is None:
                raise TranslateError("generic %s needs an argument" % st.name)
            return mk_value(crate, arg, vg)
        if ty[1] == "Vec":
            raise TranslateError("Vec fields are skeleton territory")
        return mk_value(crate, ty[1], vg)
    if ty[0] == "array":
        return SArray([mk_of_ty(crate, ty[1], st, arg, vg) for _ in range(ty[2])])
    raise TranslateError("unsupported field type")


def piece_types():
    polys = ["Poly%d" % d for d in POLY_DEG]
    return polys, ["Log<%s>" % p for p in polys], ["IntOfLog<%s>" % p for p in polys]


def enumerate_kernels(crate):
    """returns (kernels, failures). kernels: name -> dict(arity, outs, file, line)"""
    polys, logs, intlogs = piece_types()
    base_types = polys + logs + intlogs + ["IntOfLogPoly4"]
    seg_types = ["Segment<%s>" % t for t in base_types]
    all_types = base_types + seg_types
    methods = [
        ("evaluate", ["f64"]), ("derivative", []), ("indefinite", []), ("integral", ["Knot"]),
        ("translate", ["f64"]), ("mul", ["f64"]), ("mul_assign", ["f64"]), ("neg", []),
        ("add", ["Self"]), ("sub", ["Self"]),
    ]
    kernels = {}
    failures = {}
    it = Interp(crate)
    for ty in all_types:
        for meth, argtys in methods:
            vg = VarGen()
            try:
                selfv = mk_value(crate, ty, vg)
            except TranslateError as ex:
                failures["%s::%s" % (ty, meth)] = str(ex)
                continue
            fn = None
            try:
                fn = crate.find_method(selfv, meth)
            except TranslateError as ex:
                failures["%s::%s" % (ty, meth)] = str(ex)
                continue
            if fn is None:
                continue          # the impl does not exist for this type: inventory decides if that is expected
            name = "%s::%s" % (ty, meth)
            try:
                args = []
                for a in argtys:
                    args.append(mk_value(crate, ty if a == "Self" else a, vg))
                ret = it.call_fn(fn, selfv, args)
                if fn.self_kind == "mut":
                    out = selfv
                else:
                    out = ret
                kernels[name] = dict(arity=vg.n, outs=flatten(out), file=fn.file, line=fn.line)
            except NoImpl:
                continue      # bound of the generic impl not satisfied: this instance does not exist in Rust either
            except TranslateError as ex:
                failures[name] = str(ex)
            except RecursionError:
                failures[name] = "recursion limit"
    # reference-operand impls that exist only for IntOfLogPoly4:  &a + &b, &a - &b
    for meth, trait in (("add", "Add"), ("sub", "Sub")):
        vg = VarGen()
        name = "&IntOfLogPoly4::%s" % meth
        try:
            a = mk_value(crate, "IntOfLogPoly4", vg)
            b = mk_value(crate, "IntOfLogPoly4", vg)
            fn = crate.find_method(a, meth, want_ref=True, trait=trait)
            if fn is not None and fn.impl.self_ty[0] == "ref":
                ret = it.call_fn(fn, a, [b])
                kernels[name] = dict(arity=vg.n, outs=flatten(ret), file=fn.file, line=fn.line)
        except TranslateError as ex:
            failures[name] = str(ex)
    # free-function kernels
    free = [
        ("spline::f_dx", "spline.rs", "f_dx", ["Knot", "Knot", "Knot"]),
        ("spline::segment", "spline.rs", "segment", ["f64", "Knot", "f64", "Knot"]),
        ("linear::segment", "linear.rs", "segment", ["Knot", "Knot"]),
        ("taylor::exp_5_taylor", "log_poly.rs", "taylor::exp_5_taylor", ["f64"]),
        ("taylor::exp_5_tail_taylor", "log_poly.rs", "taylor::exp_5_tail_taylor", ["f64"]),
        ("taylor::exp_5_tail_anal", "log_poly.rs", "taylor::exp_5_tail_anal", ["f64"]),
    ]
    for name, file, fname, argtys in free:
        vg = VarGen()
        try:
            fn = crate.mods[file].fns.get(fname)
            if fn is None:
                failures[name] = "function not found"
                continue
            args = [mk_value(crate, a, vg) for a in argtys]
            ret = it.call_fn(fn, None, args)
            kernels[name] = dict(arity=vg.n, outs=flatten(ret), file=fn.file, line=fn.line)
        except TranslateError as ex:
            failures[name] = str(ex)
    # linear::incr_linear(prev_knot: &mut Knot, current: Knot) -> Segment ; outputs: segment ++ new prev_knot
    vg = VarGen()
    try:
        fn = crate.mods["linear.rs"].fns.get("incr_linear")
        if fn is None:
            failures["linear::incr_linear"] = "function not found"
        else:
            prev = mk_value(crate, "Knot", vg)
            cur = mk_value(crate, "Knot", vg)
            ret = it.call_fn(fn, None, [prev, cur])
            kernels["linear::incr_linear"] = dict(arity=vg.n, outs=flatten(ret) + flatten(prev), file=fn.file, line=fn.line)
    except TranslateError as ex:
        failures["linear::incr_linear"] = str(ex)
    # the two end-slope expressions of constrained_spline, extracted by name
    for nm, free_vars in (("f_x0", ["y1", "y0", "x1", "x0", "f_x1"]), ("f_xn", ["yn", "ym", "xn", "xm", "f_xm"])):
        kname = "spline::%s" % nm
        try:
            fn = crate.mods["spline.rs"].fns.get("constrained_spline")
            if fn is None:
                failures[kname] = "constrained_spline not found"
                continue
            expr_ast = extract_let(fn, nm)
            vg = VarGen()
            env = Env()
            for v in free_vars:
                env.vars[v] = vg.fresh()
            env.vars["__file__"] = "spline.rs"
            out = it.eval(expr_ast, env)
            kernels[kname] = dict(arity=vg.n, outs=flatten(out), file=fn.file, line=fn.line)
        except TranslateError as ex:
            failures[kname] = str(ex)
    return kernels, failures


def extract_let(fn, name):
    """find `let <name> = <expr>;` at the top level of fn's body and parse <expr>"""
    toks = fn.body
    depth = 0
    for i, t in enumerate(toks):
        if t.kind == "op" and t.val == "{":
            depth += 1
        elif t.kind == "op" and t.val == "}":
            depth -= 1
        elif depth == 1 and t.kind == "id" and t.val == "let" and toks[i + 1].val == name and toks[i + 2].val == "=":
            j = i + 3
            sub = []
            d2 = 0
            while not (toks[j].val == ";" and toks[j].kind == "op" and d2 == 0):
                if toks[j].kind == "op" and toks[j].val in "([{":
                    d2 += 1
                if toks[j].kind == "op" and toks[j].val in ")]}":
                    d2 -= 1
                sub.append(toks[j])
                j += 1
            p = P(sub + [Tok("eof", "", t.line)], fn.file)
            e = parse_expr(p)
            if p.peek().kind != "eof":
                raise TranslateError("trailing tokens in let %s" % name)
            return e
    raise TranslateError("let %s not found in %s" % (name, fn.name))


# ----------------------------------------------------------------------------
# approx kernels (boolean): abs_diff_eq / relative_eq for every type
# ----------------------------------------------------------------------------

def enumerate_approx(crate):
    polys, logs, intlogs = piece_types()
    base_types = polys + logs + intlogs + ["IntOfLogPoly4"]
    seg_types = ["Segment<%s>" % t for t in base_types]
    kernels, failures = {}, {}
    it = Interp(crate)
    for ty in base_types + seg_types:
        for meth, ntol in (("abs_diff_eq", 1), ("relative_eq", 2)):
            name = "%s::%s" % (ty, meth)
            vg = VarGen()
            try:
                a = mk_value(crate, ty, vg)
                b = mk_value(crate, ty, vg)
                tol = [vg.fresh() for _ in range(ntol)]
                fn = crate.find_method(a, meth)
                if fn is None:
                    continue
                ret = it.call_fn(fn, a, [b] + tol)
                if not is_bool(ret):
                    raise TranslateError("approx method did not return a boolean tree")
                kernels[name] = dict(arity=vg.n, out=ret, file=fn.file, line=fn.line, n=len(flatten(a)))
            except TranslateError as ex:
                failures[name] = str(ex)
    return kernels, failures


# ----------------------------------------------------------------------------
# Coq emission
# ----------------------------------------------------------------------------

def coq_name(kname):
    s = kname.replace("&", "ref_").replace("::", "__").replace("<", "_").replace(">", "").replace(",", "_")
    return "k_" + s


def emit_expr(e):
    k = e[0]
    if k == "Var":
        return "(Var %d)" % e[1]
    if k == "Lit":
        return "(Lit %d)" % e[1]
    if k in ("Add", "Sub", "Mul", "Div", "Max", "Min"):
        return "(%s %s %s)" % (k, emit_expr(e[1]), emit_expr(e[2]))
    if k == "Fma":
        return "(Fma %s %s %s)" % (emit_expr(e[1]), emit_expr(e[2]), emit_expr(e[3]))
    if k in ("Neg", "Ln", "Exp", "Abs"):
        return "(%s %s)" % (k, emit_expr(e[1]))
    if k == "If":
        return "(If %s %s %s)" % (emit_bexpr(e[1]), emit_expr(e[2]), emit_expr(e[3]))
    raise TranslateError("cannot emit %r" % (k,))


def emit_bexpr(b):
    k = b[0]
    if k in ("Lt", "Le", "Eqf"):
        return "(%s %s %s)" % (k, emit_expr(b[1]), emit_expr(b[2]))
    if k in ("And", "Or"):
        return "(B%s %s %s)" % (k, emit_bexpr(b[1]), emit_bexpr(b[2]))
    if k == "Not":
        return "(BNot %s)" % emit_bexpr(b[1])
    if k == "True":
        return "BTrue"
    if k == "False":
        return "BFalse"
    if k == "AbsDiffEq":
        return "(BAbsDiffEq %s %s %s)" % tuple(emit_expr(x) for x in b[1:])
    if k == "RelEq":
        return "(BRelEq %s %s %s %s)" % tuple(emit_expr(x) for x in b[1:])
    if k == "BAll":
        if not b[1]:
            return "BTrue"
        acc = emit_bexpr(b[1][-1])
        for x in reversed(b[1][:-1]):
            acc = "(BAnd %s %s)" % (emit_bexpr(x), acc)
        return acc
    raise TranslateError("cannot emit boolean %r" % (k,))


def expr_size(e):
    if not isinstance(e, tuple):
        return 0
    return 1 + sum(expr_size(x) for x in e[1:] if isinstance(x, tuple))


def emit_kernels_v(crate, kernels, approx, failures):
    out = []
    out.append("(* GENERATED by tools/rs2coq.py from the current /repo sources - do not edit. *)")
    for f in SRC_FILES:
        out.append("(* source %s sha256 %s *)" % (f, crate.hashes[f]))
    out.append("From Coq Require Import ZArith List String.")
    out.append("Require Import PP.Expr.")
    out.append("Import ListNotations.")
    out.append("Open Scope Z_scope.")
    out.append("")
    names = sorted(kernels)
    for name in names:
        k = kernels[name]
        out.append("(* %s  (%s:%d)  arity %d, %d outputs *)" % (name, k["file"], k["line"], k["arity"], len(k["outs"])))
        out.append("Definition %s : list expr := [" % coq_name(name))
        out.append(";\n".join("  " + emit_expr(o) for o in k["outs"]))
        out.append("].")
        out.append("Definition %s_arity : nat := %d." % (coq_name(name), k["arity"]))
        out.append("")
    for name in sorted(approx):
        k = approx[name]
        out.append("(* %s  (%s:%d) *)" % (name, k["file"], k["line"]))
        out.append("Definition %s : bexpr := %s." % (coq_name(name), emit_bexpr(k["out"])))
        out.append("Definition %s_arity : nat := %d." % (coq_name(name), k["arity"]))
        out.append("")
    out.append("Definition kernel_table : list (string * (nat * list expr)) := [")
    out.append(";\n".join('  ("%s"%%string, (%d%%nat, %s))' % (n, kernels[n]["arity"], coq_name(n)) for n in names))
    out.append("].")
    out.append("Definition approx_table : list (string * (nat * bexpr)) := [")
    out.append(";\n".join('  ("%s"%%string, (%d%%nat, %s))' % (n, approx[n]["arity"], coq_name(n)) for n in sorted(approx)))
    out.append("].")
    return "\n".join(out) + "\n"


def translate(srcdir):
    crate = Crate(srcdir)
    kernels, failures = enumerate_kernels(crate)
    approx, fail2 = enumerate_approx(crate)
    failures.update(fail2)
    return crate, kernels, approx, failures


def main():
    import argparse
    ap = argparse.ArgumentParser()
    ap.add_argument("--src", default="/repo/src")
    ap.add_argument("--out", default=None, help="Kernels.v output path")
    ap.add_argument("--inventory", default=None, help="write inventory json")
    ap.add_argument("--list", action="store_true")
    a = ap.parse_args()
    crate, kernels, approx, failures = translate(a.src)
    if a.list:
        for n in sorted(kernels):
            k = kernels[n]
            print("%-40s arity=%2d outs=%2d size=%d" % (n, k["arity"], len(k["outs"]), sum(expr_size(o) for o in k["outs"])))
        for n in sorted(approx):
            print("%-40s arity=%2d (approx)" % (n, approx[n]["arity"]))
    for n, msg in sorted(failures.items()):
        print("FAIL %s: %s" % (n, msg), file=sys.stderr)
    if a.out:
        text = emit_kernels_v(crate, kernels, approx, failures)
        old = None
        if os.path.exists(a.out):
            with open(a.out) as fh:
                old = fh.read()
        if old != text:
            with open(a.out, "w") as fh:
                fh.write(text)
    if a.inventory:
        inv = dict(kernels=dict((n, [kernels[n]["arity"], len(kernels[n]["outs"])]) for n in sorted(kernels)),
                   approx=dict((n, approx[n]["arity"]) for n in sorted(approx)))
        with open(a.inventory, "w") as fh:
            json.dump(inv, fh, indent=1, sort_keys=True)
    return 1 if failures else 0


if __name__ == "__main__":
    sys.exit(main())
