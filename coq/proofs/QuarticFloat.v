(* C10, binary64 level, series branch: IntOfLogPoly4::evaluate as run by the crate equals - bit for bit, for any libm -
   a libm-free polynomial term e_series in (k, c1..c4, u, v, x^) evaluated at x^ = -(ln_f v), whenever the implementation's own
   test thr_lo < x^ < thr_hi selects the series; the a-priori error analysis then bounds its deviation from the exact series
   form AT x^ by 4*n*u times the sum of the magnitudes of the terms. *)
From Coq Require Import List ZArith Reals Lra Lia Bool.
From Flocq Require Import Core BinarySingleNaN.
Require Import PP.FloatModel PP.Expr PP.FloatOps PP.FloatFacts PP.RealOps PP.ErrorBound PP.PolyFacts PP.ExpTail PP.Gen.Kernels
  PP.Proofs.QuarticForm PP.Proofs.KernelBounds.
Import ListNotations.
Local Open Scope R_scope.

(* ---- abstracting the logarithm: every occurrence of  -(ln (Var 6))  becomes the fresh variable 7 ---- *)
Fixpoint abs_x (e : expr) : expr :=
  match e with
  | Neg (Ln (Var 6)) => Var 7
  | Var _ | Lit _ => e
  | Add a b => Add (abs_x a) (abs_x b) | Sub a b => Sub (abs_x a) (abs_x b)
  | Mul a b => Mul (abs_x a) (abs_x b) | Div a b => Div (abs_x a) (abs_x b)
  | Fma a b c => Fma (abs_x a) (abs_x b) (abs_x c)
  | Neg a => Neg (abs_x a) | Max a b => Max (abs_x a) (abs_x b)
  | Min a b => Min (abs_x a) (abs_x b) | Abs a => Abs (abs_x a)
  | Ln a => Ln (abs_x a) | Exp a => Exp (abs_x a)
  | If c t f => If (babs_x c) (abs_x t) (abs_x f)
  end
with babs_x (c : bexpr) : bexpr :=
  match c with
  | Lt a b => Lt (abs_x a) (abs_x b) | Le a b => Le (abs_x a) (abs_x b) | Eqf a b => Eqf (abs_x a) (abs_x b)
  | BAnd c d => BAnd (babs_x c) (babs_x d) | BOr c d => BOr (babs_x c) (babs_x d)
  | BNot c => BNot (babs_x c) | BTrue => BTrue | BFalse => BFalse
  | BAbsDiffEq a b e => BAbsDiffEq (abs_x a) (abs_x b) (abs_x e)
  | BRelEq a b e r => BRelEq (abs_x a) (abs_x b) (abs_x e) (abs_x r)
  end.

Definition e_Q4x : expr := Eval vm_compute in abs_x e_Q4.
Definition sigma_x : list expr := [Var 0; Var 1; Var 2; Var 3; Var 4; Var 5; Var 6; Neg (Ln (Var 6))].
(* the regenerated kernel IS that template with x := -(ln v) *)
Lemma e_Q4_subst : e_Q4 = subst sigma_x e_Q4x.
Proof. vm_compute. reflexivity. Qed.

(* ---- selecting the `then` branch of every conditional ---- *)
Fixpoint then_of (e : expr) : expr :=
  match e with
  | Var _ | Lit _ => e
  | Add a b => Add (then_of a) (then_of b) | Sub a b => Sub (then_of a) (then_of b)
  | Mul a b => Mul (then_of a) (then_of b) | Div a b => Div (then_of a) (then_of b)
  | Fma a b c => Fma (then_of a) (then_of b) (then_of c)
  | Neg a => Neg (then_of a) | Max a b => Max (then_of a) (then_of b)
  | Min a b => Min (then_of a) (then_of b) | Abs a => Abs (then_of a)
  | Ln a => Ln (then_of a) | Exp a => Exp (then_of a)
  | If c t f => then_of t
  end.
Section Then.
Context {T : Type} (O : Ops T) (env : list T).
Fixpoint ifs_true (e : expr) : bool :=
  match e with
  | Var _ | Lit _ => true
  | Add a b | Sub a b | Mul a b | Div a b | Max a b | Min a b => ifs_true a && ifs_true b
  | Fma a b c => ifs_true a && ifs_true b && ifs_true c
  | Neg a | Abs a | Ln a | Exp a => ifs_true a
  | If c t f => beval O env c && ifs_true t
  end.
Lemma then_of_eval e : ifs_true e = true -> eval O env e = eval O env (then_of e).
Proof.
  induction e; cbn [ifs_true then_of]; intros H;
    repeat match goal with H : _ && _ = true |- _ => apply andb_true_iff in H; destruct H end;
    try reflexivity.
  all: try (change (eval O env (Add e1 e2)) with (o_add O (eval O env e1) (eval O env e2)); rewrite IHe1, IHe2 by assumption; reflexivity).
  all: try (change (eval O env (Sub e1 e2)) with (o_sub O (eval O env e1) (eval O env e2)); rewrite IHe1, IHe2 by assumption; reflexivity).
  all: try (change (eval O env (Mul e1 e2)) with (o_mul O (eval O env e1) (eval O env e2)); rewrite IHe1, IHe2 by assumption; reflexivity).
  all: try (change (eval O env (Div e1 e2)) with (o_div O (eval O env e1) (eval O env e2)); rewrite IHe1, IHe2 by assumption; reflexivity).
  all: try (change (eval O env (Fma e1 e2 e3)) with (o_fma O (eval O env e1) (eval O env e2) (eval O env e3)); rewrite IHe1, IHe2, IHe3 by assumption; reflexivity).
  all: try (change (eval O env (Neg e)) with (o_neg O (eval O env e)); rewrite IHe by assumption; reflexivity).
  all: try (change (eval O env (Max e1 e2)) with (o_max O (eval O env e1) (eval O env e2)); rewrite IHe1, IHe2 by assumption; reflexivity).
  all: try (change (eval O env (Min e1 e2)) with (o_min O (eval O env e1) (eval O env e2)); rewrite IHe1, IHe2 by assumption; reflexivity).
  all: try (change (eval O env (Abs e)) with (o_abs O (eval O env e)); rewrite IHe by assumption; reflexivity).
  all: try (change (eval O env (Ln e)) with (o_ln O (eval O env e)); rewrite IHe by assumption; reflexivity).
  all: try (change (eval O env (Exp e)) with (o_exp O (eval O env e)); rewrite IHe by assumption; reflexivity).
  (* If *)
  change (eval O env (If c e1 e2)) with (if beval O env c then eval O env e1 else eval O env e2).
  rewrite H. now apply IHe1.
Qed.
End Then.

Definition e_series : expr := Eval vm_compute in then_of e_Q4x.
Lemma e_series_supported : supported e_series = true.  Proof. vm_compute. reflexivity. Qed.

(* exact series form and the sum of the magnitudes of its terms *)
Definition series_form (k c1 c2 c3 c4 u v x : R) : R :=
  k + v * (c1 * x + c2 * x ^ 2 + c3 * x ^ 3 + c4 * x ^ 4) + u * v * x ^ 5 * S16 x.
Definition series_mag (k c1 c2 c3 c4 u v x : R) : R :=
  Rabs k + Rabs v * (Rabs c1 * Rabs x + Rabs c2 * Rabs x ^ 2 + Rabs c3 * Rabs x ^ 3 + Rabs c4 * Rabs x ^ 4)
  + Rabs u * Rabs v * Rabs x ^ 5 * S16 (Rabs x).

Lemma e_series_value k c1 c2 c3 c4 u v x : eval ROps [k; c1; c2; c3; c4; u; v; x] e_series = series_form k c1 c2 c3 c4 u v x.
Proof. unfold e_series, series_form, S16. reval. norm_lits. cbn [polyval]. field. Qed.

Lemma e_series_abs k c1 c2 c3 c4 u v x : absval [k; c1; c2; c3; c4; u; v; x] e_series = series_mag k c1 c2 c3 c4 u v x.
Proof.
  unfold e_series, series_mag, S16. cbn [absval nth]. norm_lits. cbn [polyval].
  repeat match goal with |- context [Rabs (IZR ?z)] => rewrite (Rabs_pos_eq (IZR z)) by (apply IZR_le; lia) end.
  rewrite ?Rabs_R0. field.
Qed.

Theorem series_branch_float (ln_f exp_f : F -> F) (k c1 c2 c3 c4 u v : F) :
  let xh := fneg (ln_f v) in
  let env := [k; c1; c2; c3; c4; u; v; xh] in
  flt (of_bits 13833752011390226268) xh && flt xh (of_bits 4610425010531724165) = true ->
  safe env e_series ->
  eval (FOpsG ln_f exp_f) [k; c1; c2; c3; c4; u; v] e_Q4 = fev env e_series /\
  Rabs (B2R (fev env e_series) - series_form (B2R k) (B2R c1) (B2R c2) (B2R c3) (B2R c4) (B2R u) (B2R v) (B2R xh))
  <= 4 * INR 16 * FloatFacts.u * series_mag (B2R k) (B2R c1) (B2R c2) (B2R c3) (B2R c4) (B2R u) (B2R v) (B2R xh).
Proof.
  intros xh env Hc Hs. split.
  - rewrite e_Q4_subst. rewrite eval_subst by (vm_compute; reflexivity).
    change (map (eval (FOpsG ln_f exp_f) [k; c1; c2; c3; c4; u; v]) sigma_x) with env.
    rewrite (then_of_eval (FOpsG ln_f exp_f) env e_Q4x).
    + change (then_of e_Q4x) with e_series. apply eval_oracle_free. exact e_series_supported.
    + unfold e_Q4x. cbn [ifs_true]. cbn [beval eval nth FOpsG o_lt o_lit env]. rewrite Hc. reflexivity.
  - apply kernel_bound; [exact e_series_supported|exact Hs|vm_compute; lia|lia| |].
    + unfold rval. cbn [map env]. apply e_series_value.
    + cbn [map env]. apply e_series_abs.
Qed.
