From Coq Require Import List Bool ZArith Lia.
Require Import PP.FloatModel PP.FloatOrder PP.Model.PwModel PP.Proofs.SelectProofs.
Import ListNotations.
Local Open Scope nat_scope.

(* non-decreasing ends on binary64 *)
Definition sorted_ends {P : Type} (segs : list (seg F P)) : Prop :=
  forall (i j : nat) a b, (i <= j)%nat -> nth_error segs i = Some a -> nth_error segs j = Some b ->
                  fle (send a) (send b) = true.

Section C02.
Variable P : Type.
Variable ev : seg F P -> F -> F.
Notation fseg := (seg F P).

Lemma pw_eval_select (segs : list fseg) x s :
  segs <> [] -> select flt segs x = Some s -> pw_eval flt ev segs x = Some (ev s x).
Proof. intros Hne H. unfold pw_eval. destruct segs; [congruence|]. now rewrite H. Qed.

Lemma C02_first_proof (l r : list fseg) (s : fseg) (x : F) :
  Forall (fun t => flt x (send t) = false) l -> flt x (send s) = true ->
  pw_eval flt ev (l ++ s :: r) x = Some (ev s x).
Proof.
  intros Hl Hs. apply pw_eval_select; [destruct l; discriminate|]. now apply select_first.
Qed.

Lemma C02_last_proof (l : list fseg) (z : fseg) (x : F) :
  Forall (fun t => flt x (send t) = false) (l ++ [z]) ->
  pw_eval flt ev (l ++ [z]) x = Some (ev z x).
Proof.
  intros H. apply pw_eval_select; [destruct l; discriminate|].
  rewrite select_last by exact H. apply last_opt_snoc.
Qed.

Lemma C02_total_proof (segs : list fseg) (x : F) : segs <> [] -> pw_eval flt ev segs x <> None.
Proof.
  intros H. unfold pw_eval. destruct segs as [|a t]; [congruence|].
  destruct (select flt (a :: t) x) eqn:E; [discriminate|].
  exfalso. revert E. apply select_total. discriminate.
Qed.

Lemma nohit_fle (x : F) (l : list fseg) : ok x -> Forall (fun t => ok (send t)) l ->
  Forall (fun t => flt x (send t) = false) l -> Forall (fun t => fle (send t) x = true) l.
Proof.
  intros Hx Hok H. induction H as [|a r Ha _ IH]; [constructor|]. inversion Hok; subst.
  constructor; [|auto]. rewrite f_le_lt by assumption. now rewrite Ha.
Qed.

Lemma C02_char_proof (segs : list fseg) (x v : F) :
  ok x -> Forall (fun t => ok (send t)) segs ->
  pw_eval flt ev segs x = Some v ->
  exists l s r, segs = l ++ s :: r /\ v = ev s x /\
    Forall (fun t => fle (send t) x = true) l /\
    (flt x (send s) = true \/ (r = [] /\ fle (send s) x = true)).
Proof.
  intros Hx Hok H. unfold pw_eval in H. destruct segs as [|a t] eqn:Es; [discriminate|]. rewrite <- Es in *.
  destruct (select flt segs x) as [s|] eqn:E; [|discriminate]. cbn in H. inversion H; subst v.
  destruct (select_char _ _ _ E) as (l & r & Hs & Hl & Hc).
  exists l, s, r. split; [exact Hs|]. split; [reflexivity|].
  assert (Hokl : Forall (fun t => ok (send t)) l /\ ok (send s)).
  { rewrite Hs in Hok. apply Forall_app in Hok. destruct Hok as [H1 H2]. inversion H2; subst. tauto. }
  split; [apply nohit_fle; tauto|].
  destruct Hc as [Hc|[Hr Hn]]; [now left|right]. split; [exact Hr|].
  rewrite Hs in Hn. apply Forall_app in Hn. destruct Hn as [_ Hn]. inversion Hn; subst.
  rewrite f_le_lt by tauto. match goal with H : flt x (send s) = false |- _ => now rewrite H end.
Qed.

Lemma fle_nohit (x : F) (l : list fseg) : ok x -> Forall (fun t => ok (send t)) l ->
  Forall (fun t => fle (send t) x = true) l -> Forall (fun t => flt x (send t) = false) l.
Proof.
  intros Hx Hok H. induction H as [|a r Ha _ IH]; [constructor|]. inversion Hok; subst.
  constructor; [|auto]. rewrite f_le_lt in Ha by assumption. now apply negb_true_iff in Ha.
Qed.

Lemma C02_halfopen_proof (l r : list fseg) (s : fseg) (x : F) :
  ok x -> Forall (fun t => ok (send t)) (l ++ s :: r) ->
  sorted_ends (l ++ s :: r) ->
  Forall (fun t => fle (send t) x = true) l -> flt x (send s) = true ->
  pw_eval flt ev (l ++ s :: r) x = Some (ev s x) /\ Forall (fun t => flt x (send t) = true) r.
Proof.
  intros Hx Hok Hsort Hl Hs.
  assert (Hok' := Hok). apply Forall_app in Hok'. destruct Hok' as [Hokl Hoksr]. inversion Hoksr as [|? ? Hoks Hokr]; subst.
  split; [apply C02_first_proof; [apply fle_nohit; assumption|exact Hs]|].
  apply Forall_forall. intros t Hin.
  assert (Hokt : ok (send t)) by (rewrite Forall_forall in Hokr; auto).
  destruct (In_nth_error _ _ Hin) as (k & Hk).
  assert (Hle : fle (send s) (send t) = true).
  { apply (Hsort (length l) (length l + S k) s t); [lia| |].
    - rewrite nth_error_app2 by lia. now rewrite Nat.sub_diag.
    - rewrite nth_error_app2 by lia. replace (length l + S k - length l) with (S k) by lia. exact Hk. }
  (* x < s.end <= t.end *)
  rewrite f_le_lt in Hle by assumption. apply negb_true_iff in Hle.
  destruct (flt x (send t)) eqn:E; [reflexivity|].
  rewrite <- Hs. symmetry. eapply f_nlt_trans with (b := send t); eauto.
Qed.

Lemma C02_breakpoint_proof (l r : list fseg) (s : fseg) (x : F) :
  flt x (send s) = false -> r <> [] -> select_idx flt (l ++ s :: r) x <> Some (length l).
Proof. apply select_idx_not. Qed.

Lemma C02_idx_proof (segs : list fseg) (x : F) :
  pw_eval flt ev segs x =
  match select_idx flt segs x with
  | Some i => option_map (fun s => ev s x) (nth_error segs i)
  | None => None end.
Proof.
  unfold pw_eval. destruct segs as [|a t] eqn:E; [reflexivity|]. rewrite <- E.
  rewrite select_idx_spec. destruct (select_idx flt segs x); reflexivity.
Qed.

Definition minus_inf : F := of_bits 18442240474082181120.
Definition plus_inf : F := of_bits 9218868437227405312.

Lemma flt_minus_inf (e : F) : ok e -> e <> minus_inf -> flt minus_inf e = true.
Proof.
  intros Hok Hne. destruct e as [s|s| |s m e B]; try reflexivity; try discriminate.
  destruct s; [exfalso; apply Hne; reflexivity|reflexivity].
Qed.
Lemma flt_plus_inf (e : F) : flt plus_inf e = false.
Proof. destruct e as [s|s| |s m e B]; try reflexivity; destruct s; reflexivity. Qed.

Lemma C02_minus_infinity_proof (s : fseg) (r : list fseg) :
  ok (send s) -> send s <> minus_inf ->
  pw_eval flt ev (s :: r) minus_inf = Some (ev s minus_inf).
Proof.
  intros Hok Hne. apply (C02_first_proof [] r s); [constructor|]. now apply flt_minus_inf.
Qed.
Lemma C02_plus_infinity_proof (l : list fseg) (z : fseg) :
  pw_eval flt ev (l ++ [z]) plus_inf = Some (ev z plus_inf).
Proof.
  apply C02_last_proof. apply Forall_forall. intros t _. apply flt_plus_inf.
Qed.
End C02.
