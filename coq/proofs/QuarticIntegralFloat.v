(* C09, binary64 level, the QUARTIC degree without the Segment wrapper: the IntOfLogPoly4 returned by the regenerated
   Log<Poly4>::integral, evaluated by the regenerated IntOfLogPoly4::evaluate at knot.x, for ANY libm - the statement of
   proofs/QuarticKnotFloat.v for the bare constructor (inputs: 0..4 c0..c4, 5 kx, 6 ky; fresh: 7 x^, 8 r^, 9 E^). *)
From Coq Require Import List ZArith Reals Lra Lia Bool Arith.
From Flocq Require Import Core BinarySingleNaN.
Require Import PP.FloatModel PP.Expr PP.FloatOps PP.FloatFacts PP.RealOps PP.ErrorBound PP.PolyFacts PP.Gen.Kernels
  PP.Proofs.KernelBounds PP.Proofs.QuarticForm PP.Proofs.QuarticFloat PP.Proofs.QuarticClosedFloat PP.Proofs.QuarticKnotFloat.
Import ListNotations.
Local Open Scope R_scope.

Definition e_i4knot : expr := subst (k_Log_Poly4__integral ++ [Var 5]) e_Q4.
Definition e_i4knot_x : expr := Eval vm_compute in abs_nl 5 7 e_i4knot.
Definition e_i4knot_xre : expr := Eval vm_compute in abs_eg 8 9 (abs_rg 7 8 e_i4knot_x).
Definition x5_of : expr := Neg (Ln (Var 5)).
Definition r5_of : expr := Div (Lit one_bits) x5_of.
Definition E5_of : expr := Exp (Div (Lit one_bits) r5_of).
Definition sigma7 : list expr := [Var 0; Var 1; Var 2; Var 3; Var 4; Var 5; Var 6].
Lemma e_i4knot_subst_x : e_i4knot = subst (sigma7 ++ [x5_of]) e_i4knot_x.
Proof. vm_compute. reflexivity. Qed.
Lemma e_i4knot_subst_xre : e_i4knot = subst (sigma7 ++ [x5_of; r5_of; E5_of]) e_i4knot_xre.
Proof. vm_compute. reflexivity. Qed.

Definition e_i4knot_series : expr := Eval vm_compute in then_of e_i4knot_x.
Definition e_i4knot_closed : expr := Eval vm_compute in else_of e_i4knot_xre.
Lemma e_i4knot_series_supported : supported e_i4knot_series = true.  Proof. vm_compute. reflexivity. Qed.
Lemma e_i4knot_closed_supported : supported e_i4knot_closed = true.  Proof. vm_compute. reflexivity. Qed.

Lemma e_i4knot_series_value c0 c1 c2 c3 c4 kx ky x : eval ROps [c0; c1; c2; c3; c4; kx; ky; x] e_i4knot_series = ky.
Proof. unfold e_i4knot_series. reval. norm_lits. field. Qed.
Lemma e_i4knot_closed_value c0 c1 c2 c3 c4 kx ky x r E : eval ROps [c0; c1; c2; c3; c4; kx; ky; x; r; E] e_i4knot_closed = ky.
Proof. unfold e_i4knot_closed. reval. norm_lits. field. Qed.

Theorem i4knot_series_float (ln_f exp_f : F -> F) (c0 c1 c2 c3 c4 kx ky : F) :
  let xh := fneg (ln_f kx) in
  let env := [c0; c1; c2; c3; c4; kx; ky; xh] in
  window xh = true ->
  safe env e_i4knot_series ->
  eval (FOpsG ln_f exp_f) (evals (FOpsG ln_f exp_f) [c0; c1; c2; c3; c4; kx; ky] k_Log_Poly4__integral ++ [kx]) e_Q4
    = fev env e_i4knot_series /\
  Rabs (B2R (fev env e_i4knot_series) - B2R ky) <= 2 * INR (depth e_i4knot_series) * u * absval (map B2R env) e_i4knot_series.
Proof.
  intros xh env Hc Hs. split.
  - change (evals (FOpsG ln_f exp_f) [c0; c1; c2; c3; c4; kx; ky] k_Log_Poly4__integral ++ [kx])
      with (map (eval (FOpsG ln_f exp_f) [c0; c1; c2; c3; c4; kx; ky]) (k_Log_Poly4__integral ++ [Var 5])).
    rewrite <- eval_subst by (vm_compute; reflexivity). fold e_i4knot.
    rewrite e_i4knot_subst_x. rewrite eval_subst by (vm_compute; reflexivity).
    change (map (eval (FOpsG ln_f exp_f) [c0; c1; c2; c3; c4; kx; ky]) (sigma7 ++ [x5_of])) with env.
    rewrite (then_of_eval (FOpsG ln_f exp_f) env e_i4knot_x).
    + change (then_of e_i4knot_x) with e_i4knot_series. apply eval_oracle_free. exact e_i4knot_series_supported.
    + unfold window in Hc. unfold e_i4knot_x. cbn [ifs_true]. cbn [beval eval nth FOpsG o_lt o_lit env]. rewrite Hc. reflexivity.
  - assert (Hv : rval env e_i4knot_series = B2R ky) by (unfold rval, env; cbn [map]; apply e_i4knot_series_value).
    rewrite <- Hv. apply eval_apriori_lin; [exact e_i4knot_series_supported|exact Hs|].
    assert (Hd : INR (depth e_i4knot_series) <= 200) by (vm_compute depth; simpl INR; lra).
    assert (Hu := u_pos). rewrite u_val in *. assert (0 <= INR (depth e_i4knot_series)) by apply pos_INR. nra.
Qed.

Theorem i4knot_closed_float (ln_f exp_f : F -> F) (c0 c1 c2 c3 c4 kx ky : F) :
  let xh := fneg (ln_f kx) in
  let rh := fdiv (of_bits one_bits) xh in
  let Eh := exp_f (fdiv (of_bits one_bits) rh) in
  let env := [c0; c1; c2; c3; c4; kx; ky; xh; rh; Eh] in
  window xh = false ->
  safe env e_i4knot_closed ->
  eval (FOpsG ln_f exp_f) (evals (FOpsG ln_f exp_f) [c0; c1; c2; c3; c4; kx; ky] k_Log_Poly4__integral ++ [kx]) e_Q4
    = fev env e_i4knot_closed /\
  Rabs (B2R (fev env e_i4knot_closed) - B2R ky) <= 2 * INR (depth e_i4knot_closed) * u * absval (map B2R env) e_i4knot_closed.
Proof.
  intros xh rh Eh env Hc Hs. split.
  - change (evals (FOpsG ln_f exp_f) [c0; c1; c2; c3; c4; kx; ky] k_Log_Poly4__integral ++ [kx])
      with (map (eval (FOpsG ln_f exp_f) [c0; c1; c2; c3; c4; kx; ky]) (k_Log_Poly4__integral ++ [Var 5])).
    rewrite <- eval_subst by (vm_compute; reflexivity). fold e_i4knot.
    rewrite e_i4knot_subst_xre. rewrite eval_subst by (vm_compute; reflexivity).
    change (map (eval (FOpsG ln_f exp_f) [c0; c1; c2; c3; c4; kx; ky]) (sigma7 ++ [x5_of; r5_of; E5_of])) with env.
    rewrite (else_of_eval (FOpsG ln_f exp_f) env e_i4knot_xre).
    + change (else_of e_i4knot_xre) with e_i4knot_closed. apply eval_oracle_free. exact e_i4knot_closed_supported.
    + unfold window in Hc. unfold e_i4knot_xre. cbn [ifs_false]. cbn [beval eval nth FOpsG o_lt o_lit env]. rewrite Hc. reflexivity.
  - assert (Hv : rval env e_i4knot_closed = B2R ky) by (unfold rval, env; cbn [map]; apply e_i4knot_closed_value).
    rewrite <- Hv. apply eval_apriori_lin; [exact e_i4knot_closed_supported|exact Hs|].
    assert (Hd : INR (depth e_i4knot_closed) <= 200) by (vm_compute depth; simpl INR; lra).
    assert (Hu := u_pos). rewrite u_val in *. assert (0 <= INR (depth e_i4knot_closed)) by apply pos_INR. nra.
Qed.
