(* C11: Segment::integral_iter / Piecewise::integral / indefinite thread a knot through the pieces.
   Generic in the piece type; the three per-piece facts S1-S3 are discharged per type from the
   generated kernels in props/C11.v. *)
From Coq Require Import List Reals Lra Lia.
Require Import PP.Model.PwModel.
Import ListNotations.
Local Open Scope R_scope.

Section Integ.
Variables (P PI : Type).
Notation segT := (R * P)%type.
Notation segI := (R * PI)%type.
Variable seg_integral : segT -> (R * R) -> segI.
Variable seg_indef : segT -> segI.
Variable evI : segI -> R -> R.
Variable wf : segT -> Prop.
Hypothesis S1 : forall s k, wf s -> fst (seg_integral s k) = fst s.
Hypothesis S1' : forall s, wf s -> fst (seg_indef s) = fst s.
Hypothesis S2 : forall s k, wf s -> evI (seg_integral s k) (fst k) = snd k.
Hypothesis S3 : forall s k, wf s -> exists c, forall t, evI (seg_integral s k) t = evI (seg_indef s) t + c.

Notation iter := (integral_iter seg_integral evI).
Definition A (s : segT) (t : R) : R := evI (seg_indef s) t.     (* the indefinite integral of piece s *)

Lemma iter_ends segs k : Forall wf segs -> map fst (iter segs k) = map fst segs.
Proof.
  intros H. revert k. induction H as [|s r Hs _ IH]; intros k; cbn; [reflexivity|].
  rewrite S1 by exact Hs. f_equal. apply IH.
Qed.
Lemma iter_length segs k : length (iter segs k) = length segs.
Proof. revert k. induction segs as [|s r IH]; intros k; cbn; [reflexivity|]. now rewrite IH. Qed.

(* each piece: F_i(t) = y_i + (A_i(t) - A_i(x_i)) where (x_i, y_i) is the knot it was anchored at *)
Lemma piece_formula s k t : wf s -> evI (seg_integral s k) t = snd k + (A s t - A s (fst k)).
Proof.
  intros Hs. destruct (S3 s k Hs) as (c & Hc). unfold A.
  assert (E := S2 s k Hs). rewrite Hc in E. rewrite Hc. lra.
Qed.

(* the knots the iteration anchors the pieces at *)
Fixpoint knot_seq (segs : list segT) (k : R * R) : list (R * R) :=
  match segs with
  | [] => []
  | s :: r => k :: knot_seq r (fst s, snd k + (A s (fst s) - A s (fst k)))
  end.

Theorem iter_telescope segs k : Forall wf segs ->
  Forall2 (fun (sk : segT * (R * R)) F => forall t, evI F t = snd (snd sk) + (A (fst sk) t - A (fst sk) (fst (snd sk))))
          (combine segs (knot_seq segs k)) (iter segs k).
Proof.
  intros H. revert k. induction H as [|s r Hs _ IH]; intros k; cbn; [constructor|].
  constructor.
  - cbn. intros t. now apply piece_formula.
  - rewrite S1 by exact Hs. rewrite (piece_formula s k (fst s) Hs). apply IH.
Qed.

Theorem iter_first s r k : wf s -> match iter (s :: r) k with F :: _ => evI F (fst k) = snd k | [] => False end.
Proof. intros Hs. cbn. now apply S2. Qed.

(* adjacent pieces agree at the breakpoint between them *)
Theorem iter_continuous segs k : Forall wf segs ->
  forall l F G r', iter segs k = l ++ F :: G :: r' -> evI G (fst F) = evI F (fst F).
Proof.
  intros H. revert k. induction H as [|s r Hs Hr IH]; intros k l F G r' E.
  - destruct l; discriminate.
  - cbn in E. destruct l as [|F0 l'].
    + cbn in E. inversion E as [[EF EG]]. subst F.
      destruct r as [|s2 r2]; [discriminate|]. cbn in EG. inversion EG as [[EG1 EG2]]. subst G.
      inversion Hr; subst. rewrite S2 by assumption. reflexivity.
    + cbn in E. inversion E as [[E0 E1]]. eapply IH. exact E1.
Qed.

(* every piece differs from the indefinite integral of its source piece by a constant *)
Theorem iter_antiderivative segs k : Forall wf segs ->
  Forall2 (fun s F => exists c, forall t, evI F t = A s t + c) segs (iter segs k).
Proof.
  intros H. revert k. induction H as [|s r Hs _ IH]; intros k; cbn; [constructor|].
  constructor; [now apply S3|apply IH].
Qed.

(* Piecewise::indefinite: first piece untranslated (additive constant as produced by indefinite()),
   the rest threaded from the knot (end_0, F_0(end_0)) *)
Theorem indefinite_shape s r : wf s -> Forall wf r ->
  pw_indefinite seg_integral seg_indef evI (s :: r) =
  seg_indef s :: iter r (fst (seg_indef s), evI (seg_indef s) (fst (seg_indef s))).
Proof. reflexivity. Qed.
Theorem indefinite_continuous s s2 r : wf s -> wf s2 -> Forall wf r ->
  match pw_indefinite seg_integral seg_indef evI (s :: s2 :: r) with
  | F0 :: F1 :: _ => evI F1 (fst F0) = evI F0 (fst F0)
  | _ => False end.
Proof. intros Hs Hs2 Hr. cbn. now rewrite S2. Qed.
Theorem indefinite_empty : pw_indefinite seg_integral seg_indef evI [] = [].
Proof. reflexivity. Qed.
End Integ.
