(* C13: the two-cursor merge of &f + &g / &f - &g combines, at every x, exactly the pieces that
   direct evaluation of f and of g selects at x. *)
From Coq Require Import List Bool Arith Lia Sorted.
Require Import PP.Model.PwModel PP.Proofs.SelectProofs.
Import ListNotations.
Set Implicit Arguments.

Section M.
Variables (A P : Type) (lt : A -> A -> bool) (cmp : A -> A -> option comparison) (ok : A -> Prop) (op : P -> P -> P).
Hypothesis cmp_ok : forall a b, ok a -> ok b -> exists c, cmp a b = Some c.
Hypothesis cmp_lt : forall a b, cmp a b = Some Lt -> lt a b = true.
Hypothesis cmp_gt : forall a b, cmp a b = Some Gt -> lt b a = true.
Hypothesis cmp_eq : forall a b, cmp a b = Some Eq -> lt a b = false /\ lt b a = false.
Hypothesis lt_trans : forall a b c, ok a -> ok b -> ok c -> lt a b = true -> lt b c = true -> lt a c = true.
Hypothesis nlt_trans : forall a b c, ok a -> ok b -> ok c -> lt a b = false -> lt b c = false -> lt a c = false.

Notation seg := (seg A P).
Notation select := (@PwModel.select A P lt).
Notation loop := (@PwModel.loop A P cmp op).
Notation merge := (@PwModel.merge A P cmp op).
Notation nohit := (@SelectProofs.nohit A P lt).

Definition sel_poly (l : list seg) (x : A) (p : P) := exists s, select l x = Some s /\ spoly s = p.
Inductive Inv (f g : list seg) (x : A) (i j : nat) (acc : list seg) : Prop :=
 | Found pre s post pf pg : acc = pre ++ s :: post -> nohit x pre -> lt x (send s) = true ->
     sel_poly f x pf -> sel_poly g x pg -> spoly s = op pf pg -> Inv f g x i j acc
 | NotYet : nohit x acc -> nohit x (firstn i f) -> nohit x (firstn j g) -> Inv f g x i j acc.

Lemma nohit_snoc x (l : list seg) i a : nth_error l i = Some a -> nohit x (firstn i l) -> lt x (send a) = false -> nohit x (firstn (i + 1) l).
Proof.
  intros Hn H Ha. replace (i + 1) with (S i) by lia.
  revert i Hn H. induction l as [|b r IH]; intros [|i] Hn H; cbn in *; try discriminate.
  - inversion Hn; subst. constructor; [exact Ha|constructor].
  - inversion H as [|? ? Hb Hr]; subst. constructor; [exact Hb|]. apply IH; assumption.
Qed.
Lemma nohit_min x (l : list seg) i m : nohit x (firstn (i + 1) l) -> nohit x (firstn (Nat.min m (i + 1)) l).
Proof.
  intros H. unfold SelectProofs.nohit in *. rewrite Forall_forall in *. intros s Hin. apply H.
  rewrite <- (firstn_skipn (Nat.min m (i+1)) (firstn (i+1) l)). rewrite firstn_firstn.
  rewrite Nat.min_l by lia. apply in_or_app. now left.
Qed.

Definition allok (l : list seg) := Forall (fun s : seg => ok (send s)) l.

Theorem loop_pointwise f g x : allok f -> allok g -> ok x ->
  forall fuel i j acc r, Inv f g x i j acc -> loop fuel f g i j acc = Some r ->
  exists s pf pg, select r x = Some s /\ sel_poly f x pf /\ sel_poly g x pg /\ spoly s = op pf pg.
Proof.
  intros Hf Hg Hx. induction fuel as [|fuel IH]; intros i j acc r HI; cbn [PwModel.loop]; [discriminate|].
  destruct (nth_error f i) as [a|] eqn:Ea; [|discriminate].
  destruct (nth_error g j) as [b|] eqn:Eb; [|discriminate].
  assert (Hoka : ok (send a)) by (unfold allok in Hf; rewrite Forall_forall in Hf; apply Hf; eapply nth_error_In; eauto).
  assert (Hokb : ok (send b)) by (unfold allok in Hg; rewrite Forall_forall in Hg; apply Hg; eapply nth_error_In; eauto).
  destruct (cmp (send a) (send b)) as [c|] eqn:Ec; [|discriminate].
  set (al := length f - 1 <=? i). set (bl := length g - 1 <=? j).
  destruct HI as [pre s post pf pg Eacc Hpre Hs Hpf Hpg Hop | Hacc Hfi Hgj].
  - assert (HF : forall i' j' e, Inv f g x i' j' (acc ++ [(e, op (spoly a) (spoly b))])).
    { intros. eapply Found with (pre := pre) (s := s) (post := post ++ [_]); eauto.
      rewrite Eacc, <- app_assoc. reflexivity. }
    assert (Hdone : forall e, exists s0 pf0 pg0, select (acc ++ [(e, op (spoly a) (spoly b))]) x = Some s0 /\
                      sel_poly f x pf0 /\ sel_poly g x pg0 /\ spoly s0 = op pf0 pg0).
    { intros e. exists s, pf, pg. repeat split; auto.
      rewrite Eacc, <- app_assoc. cbn [app]. now apply select_first. }
    destruct c; cbn zeta.
    + destruct (al && bl) eqn:El.
      * intros H; inversion H; subst r. apply Hdone.
      * apply IH, HF.
    + destruct al eqn:Eal.
      * destruct (true && bl) eqn:El.
        -- intros H; inversion H; subst r. apply Hdone.
        -- apply IH, HF.
      * cbn [andb]. apply IH, HF.
    + destruct bl eqn:Ebl.
      * destruct (al && true) eqn:El.
        -- intros H; inversion H; subst r. apply Hdone.
        -- apply IH, HF.
      * rewrite andb_false_r. apply IH, HF.
  - assert (Hal : al = true -> length f - 1 <= i) by (unfold al; intros H; now apply Nat.leb_le in H).
    assert (Hbl : bl = true -> length g - 1 <= j) by (unfold bl; intros H; now apply Nat.leb_le in H).
    assert (Hemit : forall e i' j',
       (lt x e = true -> select f x = Some a /\ select g x = Some b) ->
       (lt x e = false -> nohit x (firstn i' f) /\ nohit x (firstn j' g)) ->
       Inv f g x i' j' (acc ++ [(e, op (spoly a) (spoly b))])).
    { intros e i' j' H1 H2. destruct (lt x e) eqn:E.
      - destruct (H1 eq_refl) as [Sa Sb].
        eapply Found with (pre := acc) (s := (e, op (spoly a) (spoly b))) (post := []) (pf := spoly a) (pg := spoly b); auto.
        + exists a; auto. + exists b; auto.
      - destruct (H2 eq_refl) as [N1 N2]. apply NotYet; auto.
        apply Forall_app. split; [exact Hacc|constructor; [exact E|constructor]]. }
    assert (Hfinal : forall e, al = true -> bl = true ->
       exists s pf pg, select (acc ++ [(e, op (spoly a) (spoly b))]) x = Some s /\ sel_poly f x pf /\ sel_poly g x pg /\ spoly s = op pf pg).
    { intros e Ha Hb. exists (e, op (spoly a) (spoly b)), (spoly a), (spoly b).
      assert (Sa : select f x = Some a) by (eapply select_at; eauto).
      assert (Sb : select g x = Some b) by (eapply select_at; eauto).
      repeat split; [|exists a; auto|exists b; auto].
      unfold PwModel.select. rewrite find_app_nohit by exact Hacc. cbn.
      destruct (lt x e); [reflexivity|]. apply last_opt_snoc. }
    destruct c; cbn zeta.
    + destruct (cmp_eq Ec) as [Eab Eba].
      destruct (al && bl) eqn:El.
      * apply andb_true_iff in El. destruct El as [El1 El2]. intros Hr; inversion Hr; subst r. now apply Hfinal.
      * apply IH, Hemit.
        -- intros Hxe. cbn in Hxe. split; [eapply select_at; eauto|].
           eapply select_at; eauto. left.
           destruct (lt x (send b)) eqn:E; [reflexivity|]. rewrite <- Hxe. symmetry. eapply nlt_trans with (b := send b); eauto.
        -- intros Hxe. cbn in Hxe. split; apply nohit_min; eapply nohit_snoc; eauto.
    + assert (Hab := cmp_lt Ec).
      destruct al eqn:Eal.
      * destruct (true && bl) eqn:El.
        -- cbn in El. intros H; inversion H; subst r. now apply Hfinal.
        -- apply IH, Hemit.
           ++ intros Hxe. split; eapply select_at; eauto.
           ++ intros Hxe. split; [exact Hfi|eapply nohit_snoc; eauto].
      * cbn [andb]. apply IH, Hemit.
        -- intros Hxe. split; eapply select_at; eauto.
        -- intros Hxe. split; [eapply nohit_snoc; eauto|exact Hgj].
    + assert (Hba := cmp_gt Ec).
      destruct bl eqn:Ebl.
      * destruct (al && true) eqn:El.
        -- rewrite andb_true_r in El. intros H; inversion H; subst r. now apply Hfinal.
        -- apply IH, Hemit.
           ++ intros Hxe. split; eapply select_at; eauto.
           ++ intros Hxe. split; [eapply nohit_snoc; eauto|exact Hgj].
      * rewrite andb_false_r. apply IH, Hemit.
        -- intros Hxe. split; eapply select_at; eauto.
        -- intros Hxe. split; [exact Hfi|eapply nohit_snoc; eauto].
Qed.

(* ---- totality, length bound, provenance of the breakpoints ---- *)
Definition ends_from (f g r : list seg) :=
  Forall (fun s : seg => exists t, (In t f \/ In t g) /\ send s = send t) r.

Theorem loop_total f g : allok f -> allok g ->
  forall fuel i j acc,
  i <= length f - 1 -> j <= length g - 1 -> f <> [] -> g <> [] ->
  (length f - 1 - i) + (length g - 1 - j) + 1 <= fuel ->
  ends_from f g acc ->
  exists r, loop fuel f g i j acc = Some r /\
            length acc + 1 <= length r <= length acc + (length f - 1 - i) + (length g - 1 - j) + 1 /\
            ends_from f g r /\ (exists tl, r = acc ++ tl).
Proof.
  intros Hf Hg. induction fuel as [|fuel IH]; intros i j acc Hi Hj Hfne Hgne Hfuel Hacc; [lia|].
  cbn [PwModel.loop].
  assert (Hlf : 0 < length f) by (destruct f; [congruence|cbn; lia]).
  assert (Hlg : 0 < length g) by (destruct g; [congruence|cbn; lia]).
  destruct (nth_error f i) as [a|] eqn:Ea; [|apply nth_error_None in Ea; lia].
  destruct (nth_error g j) as [b|] eqn:Eb; [|apply nth_error_None in Eb; lia].
  assert (Hoka : ok (send a)) by (unfold allok in Hf; rewrite Forall_forall in Hf; apply Hf; eapply nth_error_In; eauto).
  assert (Hokb : ok (send b)) by (unfold allok in Hg; rewrite Forall_forall in Hg; apply Hg; eapply nth_error_In; eauto).
  destruct (cmp_ok Hoka Hokb) as (c & Ec). rewrite Ec.
  assert (Ina : In a f) by (eapply nth_error_In; eauto).
  assert (Inb : In b g) by (eapply nth_error_In; eauto).
  assert (Hacc' : forall e, (e = send a \/ e = send b) -> ends_from f g (acc ++ [(e, op (spoly a) (spoly b))])).
  { intros e He. apply Forall_app. split; [exact Hacc|]. constructor; [|constructor].
    destruct He as [->| ->]; [exists a|exists b]; cbn; auto. }
  set (al := length f - 1 <=? i). set (bl := length g - 1 <=? j).
  assert (Hal : al = true <-> length f - 1 <= i) by (unfold al; apply Nat.leb_le).
  assert (Hbl : bl = true <-> length g - 1 <= j) by (unfold bl; apply Nat.leb_le).
  assert (Hdone : forall e, (e = send a \/ e = send b) -> al = true -> bl = true ->
     exists r, Some (acc ++ [(e, op (spoly a) (spoly b))]) = Some r /\
            length acc + 1 <= length r <= length acc + (length f - 1 - i) + (length g - 1 - j) + 1 /\
            ends_from f g r /\ (exists tl, r = acc ++ tl)).
  { intros e He _ _. eexists. split; [reflexivity|]. rewrite app_length. cbn. split; [lia|]. split; [now apply Hacc'|eauto]. }
  assert (Hstep : forall e i' j', (e = send a \/ e = send b) ->
     i' <= length f - 1 -> j' <= length g - 1 ->
     (length f - 1 - i') + (length g - 1 - j') + 1 <= (length f - 1 - i) + (length g - 1 - j) ->
     exists r, loop fuel f g i' j' (acc ++ [(e, op (spoly a) (spoly b))]) = Some r /\
            length acc + 1 <= length r <= length acc + (length f - 1 - i) + (length g - 1 - j) + 1 /\
            ends_from f g r /\ (exists tl, r = acc ++ tl)).
  { intros e i' j' He Hi' Hj' Hm.
    destruct (IH i' j' (acc ++ [(e, op (spoly a) (spoly b))]) Hi' Hj' Hfne Hgne) as (r & Hr & Hlen & Hends & tl & Htl); [lia|now apply Hacc'|].
    exists r. split; [exact Hr|]. rewrite app_length in Hlen. cbn in Hlen. split; [lia|]. split; [exact Hends|].
    exists ((e, op (spoly a) (spoly b)) :: tl). rewrite Htl, <- app_assoc. reflexivity. }
  destruct c; cbn zeta.
  - destruct al eqn:Eal, bl eqn:Ebl; cbn [andb].
    + apply Hdone; auto.
    + apply Hstep; [auto|lia|lia|]. assert (~ length g - 1 <= j) by (intros H; apply Hbl in H; discriminate). lia.
    + apply Hstep; [auto|lia|lia|]. assert (~ length f - 1 <= i) by (intros H; apply Hal in H; discriminate). lia.
    + apply Hstep; [auto|lia|lia|].
      assert (Hn1 : ~ length f - 1 <= i) by (intros H; apply Hal in H; discriminate).
      assert (Hn2 : ~ length g - 1 <= j) by (intros H; apply Hbl in H; discriminate). lia.
  - destruct al eqn:Eal.
    + destruct bl eqn:Ebl; cbn [andb].
      * apply Hdone; auto.
      * assert (~ length g - 1 <= j) by (intros H; apply Hbl in H; discriminate).
        apply Hstep; [auto|lia|lia|lia].
    + cbn [andb]. assert (~ length f - 1 <= i) by (intros H; apply Hal in H; discriminate).
      apply Hstep; [auto|lia|lia|lia].
  - destruct bl eqn:Ebl.
    + destruct al eqn:Eal; cbn [andb].
      * apply Hdone; auto.
      * assert (~ length f - 1 <= i) by (intros H; apply Hal in H; discriminate).
        apply Hstep; [auto|lia|lia|lia].
    + rewrite andb_false_r. assert (~ length g - 1 <= j) by (intros H; apply Hbl in H; discriminate).
      apply Hstep; [auto|lia|lia|lia].
Qed.

Theorem merge_total f g : f <> [] -> g <> [] -> allok f -> allok g ->
  exists r, merge f g = Some r /\ 1 <= length r <= length f + length g - 1 /\ ends_from f g r.
Proof.
  intros Hf Hg Hokf Hokg.
  assert (Hlf : 0 < length f) by (destruct f; [congruence|cbn; lia]).
  assert (Hlg : 0 < length g) by (destruct g; [congruence|cbn; lia]).
  destruct (@loop_total f g Hokf Hokg (length f + length g) 0 0 []) as (r & Hr & Hlen & Hends & _);
    try lia; try assumption; [constructor|].
  exists r. split; [|split; [cbn in Hlen; lia|exact Hends]].
  unfold PwModel.merge. destruct f; [congruence|]. destruct g; [congruence|]. exact Hr.
Qed.

Theorem merge_pointwise f g r x : allok f -> allok g -> ok x -> merge f g = Some r ->
  exists s pf pg, select r x = Some s /\ sel_poly f x pf /\ sel_poly g x pg /\ spoly s = op pf pg.
Proof.
  intros Hf Hg Hx Hm. unfold PwModel.merge in Hm.
  destruct f as [|a f']; [discriminate|]. destruct g as [|b g']; [discriminate|].
  eapply loop_pointwise; eauto. apply NotYet; constructor.
Qed.

(* ---- sorted operands give a sorted result ---- *)
Hypothesis lt_irrefl : forall a, ok a -> lt a a = false.
Definition leE (a b : seg) : Prop := lt (send b) (send a) = false.      (* a.end <= b.end *)
Definition sortedL (l : list seg) :=
  forall i j a b, i <= j -> nth_error l i = Some a -> nth_error l j = Some b -> lt (send b) (send a) = false.
Definition le_all (acc : list seg) (e : A) := Forall (fun s : seg => lt e (send s) = false) acc.

Lemma lt_asym a b : ok a -> ok b -> lt a b = true -> lt b a = false.
Proof.
  intros Ha Hb H. destruct (lt b a) eqn:E; [|reflexivity].
  rewrite <- (lt_irrefl Ha). symmetry. eapply lt_trans; eauto.
Qed.
Lemma le_all_trans acc e e' : allok acc -> ok e -> ok e' -> le_all acc e -> lt e' e = false -> le_all acc e'.
Proof.
  intros Hok He He' H Hle. unfold le_all in *. rewrite Forall_forall in *. intros s Hin.
  unfold allok in Hok. rewrite Forall_forall in Hok. eapply nlt_trans with (b := e); eauto.
Qed.
Lemma le_all_snoc acc e e' (p : P) : le_all acc e' -> lt e' e = false -> le_all (acc ++ [(e, p)]) e'.
Proof. intros H1 H2. apply Forall_app. split; [exact H1|constructor; [exact H2|constructor]]. Qed.
Lemma sorted_snoc acc e (p : P) : StronglySorted leE acc -> le_all acc e -> StronglySorted leE (acc ++ [(e, p)]).
Proof.
  induction 1 as [|a l Hl IH Ha]; intros Hle; cbn.
  - constructor; constructor.
  - inversion Hle; subst. constructor; [now apply IH|].
    apply Forall_app. split; [exact Ha|constructor; [|constructor]]. exact H1.
Qed.

Theorem loop_sorted f g : allok f -> allok g -> sortedL f -> sortedL g -> f <> [] -> g <> [] ->
  forall fuel i j acc r,
  i <= length f - 1 -> j <= length g - 1 ->
  allok acc -> StronglySorted leE acc ->
  (i = length f - 1 \/ forall a, nth_error f i = Some a -> le_all acc (send a)) ->
  (j = length g - 1 \/ forall b, nth_error g j = Some b -> le_all acc (send b)) ->
  (forall a b, nth_error f i = Some a -> nth_error g j = Some b -> le_all acc (send a) \/ le_all acc (send b)) ->
  loop fuel f g i j acc = Some r -> StronglySorted leE r.
Proof.
  intros Hf Hg Sf Sg Hfne Hgne.
  assert (Hlf : 0 < length f) by (destruct f; [congruence|cbn; lia]).
  assert (Hlg : 0 < length g) by (destruct g; [congruence|cbn; lia]).
  induction fuel as [|fuel IH]; intros i j acc r Hi Hj Hoka Hsa I1 I2 I3; cbn [PwModel.loop]; [discriminate|].
  destruct (nth_error f i) as [a|] eqn:Ea; [|discriminate].
  destruct (nth_error g j) as [b|] eqn:Eb; [|discriminate].
  assert (Hoa : ok (send a)) by (unfold allok in Hf; rewrite Forall_forall in Hf; apply Hf; eapply nth_error_In; eauto).
  assert (Hob : ok (send b)) by (unfold allok in Hg; rewrite Forall_forall in Hg; apply Hg; eapply nth_error_In; eauto).
  destruct (cmp (send a) (send b)) as [c|] eqn:Ec; [|discriminate].
  set (al := length f - 1 <=? i). set (bl := length g - 1 <=? j).
  assert (Hal : al = true <-> length f - 1 <= i) by (unfold al; apply Nat.leb_le).
  assert (Hbl : bl = true <-> length g - 1 <= j) by (unfold bl; apply Nat.leb_le).
  specialize (I3 a b eq_refl eq_refl).
  (* facts about the successor elements *)
  assert (Nf : forall a', nth_error f (i + 1) = Some a' -> lt (send a') (send a) = false)
    by (intros a' H; apply (Sf i (i + 1) a a'); [lia|exact Ea|exact H]).
  assert (Ng : forall b', nth_error g (j + 1) = Some b' -> lt (send b') (send b) = false)
    by (intros b' H; apply (Sg j (j + 1) b b'); [lia|exact Eb|exact H]).
  assert (Okf : forall k a', nth_error f k = Some a' -> ok (send a'))
    by (intros k a' H; unfold allok in Hf; rewrite Forall_forall in Hf; apply Hf; eapply nth_error_In; eauto).
  assert (Okg : forall k b', nth_error g k = Some b' -> ok (send b'))
    by (intros k b' H; unfold allok in Hg; rewrite Forall_forall in Hg; apply Hg; eapply nth_error_In; eauto).
  (* generic continuation after emitting e with le_all acc e *)
  assert (Hcont : forall e i' j', ok e -> le_all acc e -> i' <= length f - 1 -> j' <= length g - 1 ->
     (i' = length f - 1 \/ forall a', nth_error f i' = Some a' -> lt (send a') e = false) ->
     (j' = length g - 1 \/ forall b', nth_error g j' = Some b' -> lt (send b') e = false) ->
     (forall a' b', nth_error f i' = Some a' -> nth_error g j' = Some b' -> lt (send a') e = false \/ lt (send b') e = false) ->
     loop fuel f g i' j' (acc ++ [(e, op (spoly a) (spoly b))]) = Some r -> StronglySorted leE r).
  { intros e i' j' Hoe Hle Hi' Hj' J1 J2 J3. apply IH; auto.
    - apply Forall_app. split; [exact Hoka|constructor; [exact Hoe|constructor]].
    - now apply sorted_snoc.
    - destruct J1 as [J1|J1]; [now left|right]. intros a' Ha'. apply le_all_snoc; [|now apply J1].
      apply le_all_trans with (e := e); eauto.
    - destruct J2 as [J2|J2]; [now left|right]. intros b' Hb'. apply le_all_snoc; [|now apply J2].
      apply le_all_trans with (e := e); eauto.
    - intros a' b' Ha' Hb'. destruct (J3 a' b' Ha' Hb') as [J|J]; [left|right];
        (apply le_all_snoc; [|exact J]); apply le_all_trans with (e := e); eauto. }
  assert (Hfin : forall e, le_all acc e -> Some (acc ++ [(e, op (spoly a) (spoly b))]) = Some r -> StronglySorted leE r).
  { intros e Hle H. inversion H; subst r. now apply sorted_snoc. }
  destruct c; cbn zeta.
  - (* Eq: emit a.end, which is equivalent to b.end *)
    destruct (cmp_eq Ec) as [Eab Eba].
    assert (Hle : le_all acc (send a)).
    { destruct I3 as [I|I]; [exact I|]. apply le_all_trans with (e := send b); auto. }
    destruct (al && bl) eqn:El; [now apply Hfin|].
    apply Hcont; [assumption|assumption|lia|lia| | | ].
    + destruct (Nat.le_gt_cases (length f - 1) i); [left; lia|right].
      rewrite Nat.min_r by lia. exact Nf.
    + destruct (Nat.le_gt_cases (length g - 1) j); [left; lia|right].
      rewrite Nat.min_r by lia. intros b' Hb'. eapply nlt_trans with (b := send b); eauto.
    + intros a' b' Ha' Hb'.
      destruct (Nat.le_gt_cases (length f - 1) i) as [Hfi|Hfi].
      * (* a is last; then b is not last *)
        assert (Hbn : ~ length g - 1 <= j).
        { intros Hgj. apply andb_false_iff in El. destruct El as [El|El];
            [apply Hal in Hfi; congruence|apply Hbl in Hgj; congruence]. }
        right. rewrite Nat.min_r in Hb' by lia. eapply nlt_trans with (b := send b); eauto.
      * left. rewrite Nat.min_r in Ha' by lia. now apply Nf.
  - (* Lt: a.end < b.end *)
    assert (Hab := cmp_lt Ec). assert (Hba := lt_asym Hoa Hob Hab).
    destruct al eqn:Eal.
    + (* a last: emit b.end *)
      assert (Hle : le_all acc (send b)).
      { destruct I3 as [I|I]; [|exact I]. apply le_all_trans with (e := send a); auto. }
      destruct (true && bl) eqn:El; [now apply Hfin|]. cbn in El.
      assert (Hbn : ~ length g - 1 <= j) by (intros H; apply Hbl in H; congruence).
      assert (Hia : i = length f - 1) by (assert (length f - 1 <= i) by (now apply Hal); lia).
      apply Hcont; [assumption|assumption|lia|lia| | | ].
      * left. exact Hia.
      * right. exact Ng.
      * intros a' b' _ Hb'. right. now apply Ng.
    + (* a not last: emit a.end, advance i *)
      assert (Han : ~ length f - 1 <= i) by (intros H; apply Hal in H; congruence).
      assert (Hle : le_all acc (send a)).
      { destruct I1 as [I|I]; [lia|]. now apply I. }
      cbn [andb]. apply Hcont; [assumption|assumption|lia|lia| | | ].
      * right. exact Nf.
      * right. intros b' Hb'. rewrite Eb in Hb'. inversion Hb'; subst b'. exact Hba.
      * intros a' b' Ha' _. left. now apply Nf.
  - (* Gt: b.end < a.end *)
    assert (Hba := cmp_gt Ec). assert (Hab := lt_asym Hob Hoa Hba).
    destruct bl eqn:Ebl.
    + assert (Hle : le_all acc (send a)).
      { destruct I3 as [I|I]; [exact I|]. apply le_all_trans with (e := send b); auto. }
      destruct (al && true) eqn:El; [now apply Hfin|]. rewrite andb_true_r in El.
      assert (Han : ~ length f - 1 <= i) by (intros H; apply Hal in H; congruence).
      assert (Hjb : j = length g - 1) by (assert (length g - 1 <= j) by (now apply Hbl); lia).
      apply Hcont; [assumption|assumption|lia|lia| | | ].
      * right. exact Nf.
      * left. exact Hjb.
      * intros a' b' Ha' _. left. now apply Nf.
    + assert (Hbn : ~ length g - 1 <= j) by (intros H; apply Hbl in H; congruence).
      assert (Hle : le_all acc (send b)).
      { destruct I2 as [I|I]; [lia|]. now apply I. }
      rewrite andb_false_r. apply Hcont; [assumption|assumption|lia|lia| | | ].
      * right. intros a' Ha'. rewrite Ea in Ha'. inversion Ha'; subst a'. exact Hab.
      * right. exact Ng.
      * intros a' b' _ Hb'. right. now apply Ng.
Qed.

Lemma strongly_sorted_nth (l : list seg) : allok l -> StronglySorted leE l -> sortedL l.
Proof.
  intros Hok Hs. induction Hs as [|a l Hl IH Ha]; intros i j x y Hij Hx Hy.
  - destruct i; discriminate.
  - inversion Hok; subst. destruct i as [|i]; destruct j as [|j]; cbn in Hx, Hy; try lia.
    + inversion Hx; inversion Hy; subst. now apply lt_irrefl.
    + inversion Hx; subst. rewrite Forall_forall in Ha. apply Ha. eapply nth_error_In; eauto.
    + apply (IH H2 i j); [lia|assumption|assumption].
Qed.

Theorem merge_sorted f g r : allok f -> allok g -> sortedL f -> sortedL g -> merge f g = Some r -> sortedL r.
Proof.
  intros Hf Hg Sf Sg Hm.
  assert (Hfne : f <> []) by (intros ->; discriminate).
  assert (Hgne : g <> []) by (intros ->; destruct f; discriminate).
  destruct (merge_total Hfne Hgne Hf Hg) as (r' & Hr' & _ & Hends). rewrite Hm in Hr'. inversion Hr'; subst r'.
  assert (Hokr : allok r).
  { unfold allok. rewrite Forall_forall. intros s Hin. unfold ends_from in Hends. rewrite Forall_forall in Hends.
    destruct (Hends s Hin) as (t & [Ht|Ht] & ->); [unfold allok in Hf; rewrite Forall_forall in Hf; auto|unfold allok in Hg; rewrite Forall_forall in Hg; auto]. }
  apply strongly_sorted_nth; [exact Hokr|].
  unfold PwModel.merge in Hm. destruct f as [|a f']; [discriminate|]. destruct g as [|b g']; [discriminate|].
  eapply (@loop_sorted (a :: f') (b :: g') Hf Hg Sf Sg Hfne Hgne _ 0 0 []); try exact Hm; try (cbn; lia).
  - constructor.
  - constructor.
  - right. intros; constructor.
  - right. intros; constructor.
  - intros. left. constructor.
Qed.

(* the documented rejections: empty operand, NaN breakpoint met by the comparison *)
Theorem merge_empty_l g : merge [] g = None. Proof. reflexivity. Qed.
Theorem merge_empty_r f : merge f [] = None. Proof. destruct f; reflexivity. Qed.
End M.
