From Coq Require Import List Bool ZArith Lia.
Require Import PP.FloatModel PP.FloatOrder PP.Model.PwModel PP.Proofs.SelectProofs PP.Proofs.C02Proofs PP.Proofs.EvalVProofs.
Import ListNotations.
Local Open Scope nat_scope.

Section C12.
Variable P : Type.
Variable evp : P -> F -> F.
Notation fseg := (seg F P).

Lemma sorted_conv (segs : list fseg) :
  Forall (fun t => ok (send t)) segs -> sorted_ends segs -> EvalVProofs.sorted flt segs.
Proof.
  intros Hok Hs i j a b Hij Ha Hb.
  assert (H := Hs i j a b Hij Ha Hb). rewrite Forall_forall in Hok.
  rewrite f_le_lt in H by (apply Hok; eapply nth_error_In; eauto). now apply negb_true_iff in H.
Qed.

Lemma answers_of (l : list (F * fseg)) (sel : list (option fseg)) :
  map (fun p => Some (snd p)) l = sel ->
  map Some (map (fun p : F * fseg => evp (spoly (snd p)) (fst p)) l) =
  map (fun xm : F * option fseg => option_map (fun s => evp (spoly s) (fst xm)) (snd xm)) (combine (map fst l) sel).
Proof.
  intros <-. induction l as [|[x s] r IH]; cbn; [reflexivity|]. f_equal. exact IH.
Qed.

Theorem ev_v_runmax_F (segs : list fseg) (xs : list F) :
  segs <> [] -> Forall (fun t => ok (send t)) segs -> sorted_ends segs -> Forall ok xs ->
  exists l, ev_v_answers flt evp segs xs = Some l /\
    map Some l = map (fun xm : F * F => option_map (fun s => evp (spoly s) (fst xm)) (select flt segs (snd xm)))
                     (combine xs (prefix_max flt xs)).
Proof.
  intros Hne Hok Hs Hxs.
  destruct (@ev_v_runmax F P flt ok f_lt_trans f_nlt_trans f_lt_irrefl segs xs Hne Hok (sorted_conv segs Hok Hs) Hxs)
    as (l & Hl & Hf & Hm).
  unfold ev_v_answers. rewrite Hl. cbn. eexists. split; [reflexivity|].
  rewrite (answers_of l _ Hm), Hf.
  clear. generalize (prefix_max flt xs). induction xs as [|x r IH]; intros [|m ms]; cbn; try reflexivity.
  f_equal. apply IH.
Qed.

Theorem ev_v_sorted_F (segs : list fseg) (xs : list F) :
  segs <> [] -> Forall (fun t => ok (send t)) segs -> sorted_ends segs -> Forall ok xs -> nondecr flt xs ->
  exists l, ev_v_answers flt evp segs xs = Some l /\
    map Some l = map (pw_eval flt (fun s x => evp (spoly s) x) segs) xs.
Proof.
  intros Hne Hok Hs Hxs Hnd.
  destruct (@ev_v_sorted F P flt ok f_lt_trans f_nlt_trans f_lt_irrefl segs xs Hne Hok (sorted_conv segs Hok Hs) Hxs Hnd)
    as (l & Hl & Hf & Hm).
  unfold ev_v_answers. rewrite Hl. cbn. eexists. split; [reflexivity|].
  rewrite (answers_of l _ Hm), Hf.
  clear - Hne. induction xs as [|x r IH]; cbn; [reflexivity|]. f_equal; [|exact IH].
  unfold pw_eval. destruct segs; [congruence|reflexivity].
Qed.

Theorem ev_v_empty (xs : list F) : ev_v_answers flt evp [] xs = None.
Proof. reflexivity. Qed.
End C12.
