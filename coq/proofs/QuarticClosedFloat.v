(* C10, binary64 level, CLOSED-FORM branch: IntOfLogPoly4::evaluate as run by the crate equals - bit for bit, for any libm -
   a libm-free, division-by-variable-free polynomial term e_closed in (k, c1..c4, u, v, x^, r^, E^) evaluated at
     x^ = -(ln_f v),   r^ = 1 (/) x^   (one correctly rounded division),   E^ = exp_f (1 (/) r^)   (the platform's exp),
   whenever the implementation's own test thr_lo < x^ < thr_hi FAILS; the a-priori error analysis then bounds its deviation from
   the exact closed form AT (x^, r^, E^),
     k + v*(c1 x + c2 x^2 + c3 x^3 + c4 x^4) + u*v*x^5*((E - 1) r^5 - r^4 - r^3/2 - r^2/6 - r/24),
   by 4*n*u times the sum of the magnitudes of its terms. *)
From Coq Require Import List ZArith Reals Lra Lia Bool.
From Flocq Require Import Core BinarySingleNaN.
Require Import PP.FloatModel PP.Expr PP.FloatOps PP.FloatFacts PP.RealOps PP.ErrorBound PP.PolyFacts PP.ExpTail PP.Gen.Kernels
  PP.Proofs.QuarticForm PP.Proofs.KernelBounds PP.Proofs.QuarticFloat.
Import ListNotations.
Local Open Scope R_scope.

Definition one_bits : Z := 4607182418800017408.

(* ---- abstracting the reciprocal: every occurrence of  1 / (Var 7)  becomes the fresh variable 8 ---- *)
Fixpoint abs_r (e : expr) : expr :=
  match e with
  | Div (Lit z) (Var 7) => if Z.eqb z one_bits then Var 8 else e
  | Var _ | Lit _ => e
  | Add a b => Add (abs_r a) (abs_r b) | Sub a b => Sub (abs_r a) (abs_r b)
  | Mul a b => Mul (abs_r a) (abs_r b) | Div a b => Div (abs_r a) (abs_r b)
  | Fma a b c => Fma (abs_r a) (abs_r b) (abs_r c)
  | Neg a => Neg (abs_r a) | Max a b => Max (abs_r a) (abs_r b)
  | Min a b => Min (abs_r a) (abs_r b) | Abs a => Abs (abs_r a)
  | Ln a => Ln (abs_r a) | Exp a => Exp (abs_r a)
  | If c t f => If c (abs_r t) (abs_r f)
  end.
(* ---- abstracting the exponential: every occurrence of  exp (1 / (Var 8))  becomes the fresh variable 9 ---- *)
Fixpoint abs_e (e : expr) : expr :=
  match e with
  | Exp (Div (Lit z) (Var 8)) => if Z.eqb z one_bits then Var 9 else e
  | Var _ | Lit _ => e
  | Add a b => Add (abs_e a) (abs_e b) | Sub a b => Sub (abs_e a) (abs_e b)
  | Mul a b => Mul (abs_e a) (abs_e b) | Div a b => Div (abs_e a) (abs_e b)
  | Fma a b c => Fma (abs_e a) (abs_e b) (abs_e c)
  | Neg a => Neg (abs_e a) | Max a b => Max (abs_e a) (abs_e b)
  | Min a b => Min (abs_e a) (abs_e b) | Abs a => Abs (abs_e a)
  | Ln a => Ln (abs_e a) | Exp a => Exp (abs_e a)
  | If c t f => If c (abs_e t) (abs_e f)
  end.

Definition e_Q4xre : expr := Eval vm_compute in abs_e (abs_r e_Q4x).
Definition x_of : expr := Neg (Ln (Var 6)).
Definition r_of : expr := Div (Lit one_bits) x_of.
Definition E_of : expr := Exp (Div (Lit one_bits) r_of).
Definition sigma_xre : list expr := [Var 0; Var 1; Var 2; Var 3; Var 4; Var 5; Var 6; x_of; r_of; E_of].
(* the regenerated kernel IS that template with x := -(ln v), r := 1/x, E := exp (1/r) *)
Lemma e_Q4_subst3 : e_Q4 = subst sigma_xre e_Q4xre.
Proof. vm_compute. reflexivity. Qed.

(* ---- selecting the `else` branch of every conditional ---- *)
Fixpoint else_of (e : expr) : expr :=
  match e with
  | Var _ | Lit _ => e
  | Add a b => Add (else_of a) (else_of b) | Sub a b => Sub (else_of a) (else_of b)
  | Mul a b => Mul (else_of a) (else_of b) | Div a b => Div (else_of a) (else_of b)
  | Fma a b c => Fma (else_of a) (else_of b) (else_of c)
  | Neg a => Neg (else_of a) | Max a b => Max (else_of a) (else_of b)
  | Min a b => Min (else_of a) (else_of b) | Abs a => Abs (else_of a)
  | Ln a => Ln (else_of a) | Exp a => Exp (else_of a)
  | If c t f => else_of f
  end.
Section Else.
Context {T : Type} (O : Ops T) (env : list T).
Fixpoint ifs_false (e : expr) : bool :=
  match e with
  | Var _ | Lit _ => true
  | Add a b | Sub a b | Mul a b | Div a b | Max a b | Min a b => ifs_false a && ifs_false b
  | Fma a b c => ifs_false a && ifs_false b && ifs_false c
  | Neg a | Abs a | Ln a | Exp a => ifs_false a
  | If c t f => negb (beval O env c) && ifs_false f
  end.
Lemma else_of_eval e : ifs_false e = true -> eval O env e = eval O env (else_of e).
Proof.
  induction e; cbn [ifs_false else_of]; intros H;
    repeat match goal with H : _ && _ = true |- _ => apply andb_true_iff in H; destruct H end;
    try reflexivity.
  all: try (change (eval O env (Add e1 e2)) with (o_add O (eval O env e1) (eval O env e2)); rewrite IHe1, IHe2 by assumption; reflexivity).
  all: try (change (eval O env (Sub e1 e2)) with (o_sub O (eval O env e1) (eval O env e2)); rewrite IHe1, IHe2 by assumption; reflexivity).
  all: try (change (eval O env (Mul e1 e2)) with (o_mul O (eval O env e1) (eval O env e2)); rewrite IHe1, IHe2 by assumption; reflexivity).
  all: try (change (eval O env (Div e1 e2)) with (o_div O (eval O env e1) (eval O env e2)); rewrite IHe1, IHe2 by assumption; reflexivity).
  all: try (change (eval O env (Fma e1 e2 e3)) with (o_fma O (eval O env e1) (eval O env e2) (eval O env e3)); rewrite IHe1, IHe2, IHe3 by assumption; reflexivity).
  all: try (change (eval O env (Neg e)) with (o_neg O (eval O env e)); rewrite IHe by assumption; reflexivity).
  all: try (change (eval O env (Max e1 e2)) with (o_max O (eval O env e1) (eval O env e2)); rewrite IHe1, IHe2 by assumption; reflexivity).
  all: try (change (eval O env (Min e1 e2)) with (o_min O (eval O env e1) (eval O env e2)); rewrite IHe1, IHe2 by assumption; reflexivity).
  all: try (change (eval O env (Abs e)) with (o_abs O (eval O env e)); rewrite IHe by assumption; reflexivity).
  all: try (change (eval O env (Ln e)) with (o_ln O (eval O env e)); rewrite IHe by assumption; reflexivity).
  all: try (change (eval O env (Exp e)) with (o_exp O (eval O env e)); rewrite IHe by assumption; reflexivity).
  (* If *)
  change (eval O env (If c e1 e2)) with (if beval O env c then eval O env e1 else eval O env e2).
  apply negb_true_iff in H. rewrite H. now apply IHe2.
Qed.
End Else.

Definition e_closed : expr := Eval vm_compute in else_of e_Q4xre.
Lemma e_closed_supported : supported e_closed = true.  Proof. vm_compute. reflexivity. Qed.

(* the exact closed form at (x, r, E) and the sum of the magnitudes of its terms *)
Definition closed_tail (r E : R) : R := (E - 1) * r ^ 5 - r ^ 4 - r ^ 3 / 2 - r ^ 2 / 6 - r / 24.
Definition closed_tail_mag (r E : R) : R := (Rabs E + 1) * Rabs r ^ 5 + Rabs r ^ 4 + Rabs r ^ 3 / 2 + Rabs r ^ 2 / 6 + Rabs r / 24.
Definition closed_form (k c1 c2 c3 c4 u v x r E : R) : R :=
  k + v * (c1 * x + c2 * x ^ 2 + c3 * x ^ 3 + c4 * x ^ 4) + u * v * x ^ 5 * closed_tail r E.
Definition closed_mag (k c1 c2 c3 c4 u v x r E : R) : R :=
  Rabs k + Rabs v * (Rabs c1 * Rabs x + Rabs c2 * Rabs x ^ 2 + Rabs c3 * Rabs x ^ 3 + Rabs c4 * Rabs x ^ 4)
  + Rabs u * Rabs v * Rabs x ^ 5 * closed_tail_mag r E.

Lemma e_closed_value k c1 c2 c3 c4 u v x r E :
  eval ROps [k; c1; c2; c3; c4; u; v; x; r; E] e_closed = closed_form k c1 c2 c3 c4 u v x r E.
Proof. unfold e_closed, closed_form, closed_tail. reval. norm_lits. field. Qed.

Lemma e_closed_abs k c1 c2 c3 c4 u v x r E :
  absval [k; c1; c2; c3; c4; u; v; x; r; E] e_closed = closed_mag k c1 c2 c3 c4 u v x r E.
Proof.
  unfold e_closed, closed_mag, closed_tail_mag. cbn [absval nth]. norm_lits.
  repeat match goal with |- context [Rabs (IZR ?z)] => rewrite (Rabs_pos_eq (IZR z)) by (apply IZR_le; lia) end.
  repeat match goal with |- context [Rabs (- ?z)] => rewrite (Rabs_Ropp z) end.
  repeat match goal with |- context [Rabs (IZR ?z)] => rewrite (Rabs_pos_eq (IZR z)) by (apply IZR_le; lia) end.
  rewrite ?Rabs_R0. replace (Rabs (-1)) with 1 by (unfold Rabs; destruct (Rcase_abs (-1)); lra). field.
Qed.

(* when E really is exp x and r really is 1/x, the closed form is the property's closed form with the exponential tail *)
Lemma closed_tail_exact x : x <> 0 -> x ^ 5 * closed_tail (/ x) (exp x) = exp x - T4 x.
Proof. intros Hx. unfold closed_tail, T4. cbn [polyval]. field. exact Hx. Qed.

Theorem closed_branch_float (ln_f exp_f : F -> F) (k c1 c2 c3 c4 u v : F) :
  let xh := fneg (ln_f v) in
  let rh := fdiv (of_bits one_bits) xh in
  let Eh := exp_f (fdiv (of_bits one_bits) rh) in
  let env := [k; c1; c2; c3; c4; u; v; xh; rh; Eh] in
  flt (of_bits 13833752011390226268) xh && flt xh (of_bits 4610425010531724165) = false ->
  safe env e_closed ->
  eval (FOpsG ln_f exp_f) [k; c1; c2; c3; c4; u; v] e_Q4 = fev env e_closed /\
  Rabs (B2R (fev env e_closed) - closed_form (B2R k) (B2R c1) (B2R c2) (B2R c3) (B2R c4) (B2R u) (B2R v) (B2R xh) (B2R rh) (B2R Eh))
  <= 4 * INR 16 * FloatFacts.u * closed_mag (B2R k) (B2R c1) (B2R c2) (B2R c3) (B2R c4) (B2R u) (B2R v) (B2R xh) (B2R rh) (B2R Eh).
Proof.
  intros xh rh Eh env Hc Hs. split.
  - rewrite e_Q4_subst3. rewrite eval_subst by (vm_compute; reflexivity).
    change (map (eval (FOpsG ln_f exp_f) [k; c1; c2; c3; c4; u; v]) sigma_xre) with env.
    rewrite (else_of_eval (FOpsG ln_f exp_f) env e_Q4xre).
    + change (else_of e_Q4xre) with e_closed. apply eval_oracle_free. exact e_closed_supported.
    + unfold e_Q4xre. cbn [ifs_false]. cbn [beval eval nth FOpsG o_lt o_lit env]. rewrite Hc. reflexivity.
  - apply kernel_bound; [exact e_closed_supported|exact Hs|vm_compute; lia|lia| |].
    + unfold rval. cbn [map env]. apply e_closed_value.
    + cbn [map env]. apply e_closed_abs.
Qed.
