From Coq Require Import List Bool ZArith Lia.
Require Import PP.FloatModel PP.FloatOrder PP.Model.PwModel PP.Proofs.SelectProofs PP.Proofs.C02Proofs PP.Proofs.EvaluatorProofs.
Import ListNotations.
Local Open Scope nat_scope.

Section C03.
Variable P : Type.
Variable ev : seg F P -> F -> F.
Notation fseg := (seg F P).

Lemma split_last_app (l : list fseg) front last : split_last l = Some (front, last) -> l = front ++ [last].
Proof.
  revert front last. induction l as [|a r IH]; intros front last H; [discriminate|].
  cbn in H. destruct r as [|b r'].
  - inversion H; subst. reflexivity.
  - destruct (split_last (b :: r')) as [[f z]|] eqn:E; [|discriminate]. inversion H; subst.
    rewrite (IH f last eq_refl). reflexivity.
Qed.
Lemma split_last_some (l : list fseg) : l <> [] -> exists front last, split_last l = Some (front, last).
Proof.
  induction l as [|a r IH]; intros H; [congruence|]. destruct r as [|b r'].
  - exists [], a. reflexivity.
  - destruct IH as (f & z & E); [discriminate|]. exists (a :: f), z. cbn in *. now rewrite E.
Qed.

Lemma is_nanb_cases (x : F) : ok x \/ is_nanb x = true.
Proof. unfold ok. destruct (is_nanb x); auto. Qed.
Lemma nan_flt (x e : F) : is_nanb x = true -> flt x e = false.
Proof. intros H. apply (f_nan_cmp x e). now left. Qed.

Lemma sorted_of_sorted_ends (front : list fseg) (last : fseg) :
  Forall (fun t => ok (send t)) (front ++ [last]) -> sorted_ends (front ++ [last]) ->
  EvaluatorProofs.sorted flt front.
Proof.
  intros Hok Hs i j d Hij Hj.
  assert (Hi : i < length front) by lia.
  assert (Ni : nth_error (front ++ [last]) i = Some (nth i front d)).
  { rewrite nth_error_app1 by lia. now apply nth_error_nth'. }
  assert (Nj : nth_error (front ++ [last]) j = Some (nth j front d)).
  { rewrite nth_error_app1 by lia. now apply nth_error_nth'. }
  assert (H := Hs i j _ _ Hij Ni Nj).
  rewrite Forall_forall in Hok.
  assert (Oi : ok (send (nth i front d))) by (apply Hok; apply in_or_app; left; now apply nth_In).
  assert (Oj : ok (send (nth j front d))) by (apply Hok; apply in_or_app; left; now apply nth_In).
  rewrite f_le_lt in H by assumption. now apply negb_true_iff in H.
Qed.

Lemma map_ev_combine (front : list fseg) (last : fseg) (s : st F P) (xs : list F) :
  map Some (map (fun xr : F * (fseg * st F P) => ev (fst (snd xr)) (fst xr))
                (combine xs (run flt fle is_nanb front last s xs))) =
  map (fun p : F * option fseg => option_map (fun g => ev g (fst p)) (snd p))
      (combine xs (map (fun r => Some (fst r)) (run flt fle is_nanb front last s xs))).
Proof.
  revert s. induction xs as [|x r IH]; intros s; cbn; [reflexivity|].
  destruct (step flt fle is_nanb front last s x) as [g s']. cbn. f_equal. apply IH.
Qed.

(* every history over all of f64 (NaN included): the evaluator's answers are those of direct evaluation *)
Theorem evaluator_all (segs : list fseg) (xs : list F) :
  segs <> [] -> Forall (fun t => ok (send t)) segs -> sorted_ends segs ->
  exists l, evaluator_answers flt fle is_nanb ev segs xs = Some l /\
            map Some l = map (pw_eval flt ev segs) xs.
Proof.
  intros Hne Hok Hs. destruct (split_last_some segs Hne) as (front & last & E).
  assert (Hsegs := split_last_app _ _ _ E). unfold evaluator_answers. rewrite E.
  eexists. split; [reflexivity|].
  rewrite map_ev_combine.
  assert (Hokf : Forall (fun t : fseg => ok (send t)) front /\ ok (send last)).
  { rewrite Hsegs in Hok. apply Forall_app in Hok. destruct Hok as [H1 H2]. inversion H2; subst; tauto. }
  assert (Hsort : EvaluatorProofs.sorted flt front) by (apply sorted_of_sorted_ends with (last := last); rewrite <- Hsegs; assumption).
  assert (Hall : Forall (fun x => ok x \/ is_nanb x = true) xs) by (apply Forall_forall; intros; apply is_nanb_cases).
  rewrite (@history F P flt fle is_nanb ok f_le_lt f_lt_trans f_nlt_trans f_lt_irrefl
             (fun a H => H) nan_flt front last xs (proj1 Hokf) (proj2 Hokf) Hsort Hall).
  rewrite <- Hsegs.
  clear - Hne. induction xs as [|x r IH]; cbn; [reflexivity|]. f_equal; [|exact IH].
  unfold pw_eval. destruct segs; [congruence|reflexivity].
Qed.
End C03.

Section C03b.
Variable P : Type.
Variable ev : seg F P -> F -> F.
Notation fseg := (seg F P).

Lemma answer_at (f : F -> option F) (l : list F) (h : list F) (x : F) :
  map Some l = map f (h ++ [x]) -> option_map Some (nth_error l (length h)) = Some (f x).
Proof.
  intros H. rewrite <- nth_error_map, H, nth_error_map, nth_error_app2 by lia.
  rewrite Nat.sub_diag. reflexivity.
Qed.

(* the answer to a query does not depend on the queries made before it *)
Theorem evaluator_memoryless (segs : list fseg) (h1 h2 : list F) (x : F) l1 l2 :
  segs <> [] -> Forall (fun t => ok (send t)) segs -> sorted_ends segs ->
  evaluator_answers flt fle is_nanb ev segs (h1 ++ [x]) = Some l1 ->
  evaluator_answers flt fle is_nanb ev segs (h2 ++ [x]) = Some l2 ->
  nth_error l1 (length h1) = nth_error l2 (length h2) /\
  option_map Some (nth_error l1 (length h1)) = Some (pw_eval flt ev segs x).
Proof.
  intros Hne Hok Hs E1 E2.
  destruct (evaluator_all P ev segs (h1 ++ [x]) Hne Hok Hs) as (m1 & F1 & M1).
  destruct (evaluator_all P ev segs (h2 ++ [x]) Hne Hok Hs) as (m2 & F2 & M2).
  rewrite E1 in F1. rewrite E2 in F2. inversion F1; subst m1. inversion F2; subst m2.
  apply answer_at in M1. apply answer_at in M2. split; [|exact M1].
  rewrite <- M2 in M1. destruct (nth_error l1 (length h1)), (nth_error l2 (length h2)); cbn in M1; congruence.
Qed.

Theorem evaluator_empty (xs : list F) : evaluator_answers flt fle is_nanb ev [] xs = None.
Proof. reflexivity. Qed.
End C03b.
