From Coq Require Import List Bool ZArith Lia.
Require Import PP.FloatModel PP.FloatOrder PP.Model.PwModel PP.Proofs.SelectProofs PP.Proofs.C02Proofs PP.Proofs.MergeProofs.
Import ListNotations.
Local Open Scope nat_scope.

Section C13.
Variable P : Type.
Variable op : P -> P -> P.
Notation fseg := (seg F P).
Notation fmerge := (@merge F P fcmp op).

Theorem merge_total_F (f g : list fseg) :
  f <> [] -> g <> [] -> Forall (fun t => ok (send t)) f -> Forall (fun t => ok (send t)) g ->
  exists r, fmerge f g = Some r /\ 1 <= length r <= length f + length g - 1 /\
            Forall (fun s : fseg => exists t, (In t f \/ In t g) /\ send s = send t) r.
Proof. intros. apply (@merge_total F P fcmp ok op fcmp_ok); assumption. Qed.

Theorem merge_pointwise_F (f g r : list fseg) (x : F) :
  Forall (fun t => ok (send t)) f -> Forall (fun t => ok (send t)) g -> ok x ->
  fmerge f g = Some r ->
  exists s sf sg, select flt r x = Some s /\ select flt f x = Some sf /\ select flt g x = Some sg /\
                  spoly s = op (spoly sf) (spoly sg).
Proof.
  intros Hf Hg Hx Hm.
  destruct (@merge_pointwise F P flt fcmp ok op fcmp_lt fcmp_gt fcmp_eq f_lt_trans f_nlt_trans f g r x Hf Hg Hx Hm)
    as (s & pf & pg & Hs & (sf & Hsf & Epf) & (sg & Hsg & Epg) & Hop).
  exists s, sf, sg. subst pf pg. auto.
Qed.

Theorem merge_nan_F (f g : list fseg) a b f' g' :
  f = a :: f' -> g = b :: g' -> (is_nanb (send a) = true \/ is_nanb (send b) = true) -> fmerge f g = None.
Proof.
  intros -> -> H. unfold merge. cbn [loop length Nat.add nth_error].
  assert (E : fcmp (send a) (send b) = None) by (apply fcmp_nan; exact H).
  cbn. rewrite E. reflexivity.
Qed.

Lemma sortedL_of_sorted_ends (l : list fseg) :
  Forall (fun t => ok (send t)) l -> sorted_ends l -> @sortedL F P flt l.
Proof.
  intros Hok Hs i j a b Hij Ha Hb. assert (H := Hs i j a b Hij Ha Hb). rewrite Forall_forall in Hok.
  rewrite f_le_lt in H by (apply Hok; eapply nth_error_In; eauto). now apply negb_true_iff in H.
Qed.
Lemma sorted_ends_of_sortedL (l : list fseg) :
  Forall (fun t => ok (send t)) l -> @sortedL F P flt l -> sorted_ends l.
Proof.
  intros Hok Hs i j a b Hij Ha Hb. assert (H := Hs i j a b Hij Ha Hb). rewrite Forall_forall in Hok.
  rewrite f_le_lt by (apply Hok; eapply nth_error_In; eauto). now rewrite H.
Qed.

Theorem merge_sorted_F (f g r : list fseg) :
  Forall (fun t => ok (send t)) f -> Forall (fun t => ok (send t)) g ->
  sorted_ends f -> sorted_ends g -> fmerge f g = Some r -> sorted_ends r.
Proof.
  intros Hf Hg Sf Sg Hm.
  assert (Hfne : f <> []) by (intros ->; discriminate).
  assert (Hgne : g <> []) by (intros ->; destruct f; discriminate).
  destruct (merge_total_F f g Hfne Hgne Hf Hg) as (r' & Hr' & _ & Hends). rewrite Hm in Hr'. inversion Hr'; subst r'.
  apply sorted_ends_of_sortedL.
  - rewrite Forall_forall in *. intros s Hin. destruct (Hends s Hin) as (t & [Ht|Ht] & ->); auto.
  - apply (@merge_sorted F P flt fcmp ok op fcmp_ok fcmp_lt fcmp_gt fcmp_eq f_lt_trans f_nlt_trans f_lt_irrefl f g r Hf Hg);
      [apply sortedL_of_sorted_ends; assumption|apply sortedL_of_sorted_ends; assumption|exact Hm].
Qed.
End C13.
