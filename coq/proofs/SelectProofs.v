(* C02: direct evaluation selects the first segment whose end is strictly greater than x,
   else the last one.  Generic in the carrier; instantiated with binary64 in props/C02.v. *)
From Coq Require Import List Bool Arith Lia.
Require Import PP.Model.PwModel.
Import ListNotations.
Set Implicit Arguments.

Section Sel.
Variables (A P : Type) (lt : A -> A -> bool).
Notation seg := (seg A P).
Notation select := (@PwModel.select A P lt).

Definition nohit (x : A) (l : list seg) := Forall (fun s => lt x (send s) = false) l.

Lemma find_nohit x l : nohit x l -> find (fun s : seg => lt x (send s)) l = None.
Proof. induction 1 as [|a r H _ IH]; cbn; [reflexivity|]. now rewrite H. Qed.
Lemma find_app_nohit x l1 l2 : nohit x l1 ->
  find (fun s : seg => lt x (send s)) (l1 ++ l2) = find (fun s => lt x (send s)) l2.
Proof. induction 1 as [|a r H _ IH]; cbn; [reflexivity|]. now rewrite H. Qed.
Lemma last_opt_snoc (l : list seg) a : last_opt (l ++ [a]) = Some a.
Proof. induction l as [|b r IH]; cbn; [reflexivity|]. destruct (r ++ [a]) eqn:E; [destruct r; discriminate|]. exact IH. Qed.
Lemma last_opt_some (l : list seg) : l <> [] -> exists a, last_opt l = Some a /\ exists l', l = l' ++ [a].
Proof.
  intros H. destruct (exists_last H) as (l' & a & ->). exists a. split; [apply last_opt_snoc|eauto].
Qed.

Theorem select_first l s r x :
  nohit x l -> lt x (send s) = true -> select (l ++ s :: r) x = Some s.
Proof. intros Hl Hs. unfold PwModel.select. rewrite find_app_nohit by exact Hl. cbn. now rewrite Hs. Qed.

Theorem select_last segs x :
  nohit x segs -> select segs x = last_opt segs.
Proof. intros H. unfold PwModel.select. now rewrite find_nohit. Qed.

Theorem select_total segs x : segs <> [] -> select segs x <> None.
Proof.
  intros H. unfold PwModel.select. destruct (find _ segs); [discriminate|].
  destruct (last_opt_some H) as (a & -> & _). discriminate.
Qed.

(* the selected segment is an element, everything before it misses, and it hits or is last *)
Theorem select_char segs x s : select segs x = Some s ->
  exists l r, segs = l ++ s :: r /\ nohit x l /\ (lt x (send s) = true \/ (r = [] /\ nohit x segs)).
Proof.
  unfold PwModel.select. destruct (find _ segs) as [s'|] eqn:E.
  - intros H; inversion H; subst s'. clear H.
    induction segs as [|a t IH]; [discriminate|]. cbn in E.
    destruct (lt x (send a)) eqn:Ha.
    + inversion E; subst a. exists [], t. split; [reflexivity|]. split; [constructor|now left].
    + destruct (IH E) as (l & r & -> & Hl & Hc). exists (a :: l), r. split; [reflexivity|]. split; [constructor; assumption|].
      destruct Hc as [Hc|[Hr Hn]]; [now left|]. right. split; [exact Hr|constructor; assumption].
  - intros Hlast.
    assert (Hn : nohit x segs).
    { clear Hlast. induction segs as [|a t IH]; [constructor|]. cbn in E.
      destruct (lt x (send a)) eqn:Ha; [discriminate|]. constructor; [exact Ha|apply IH, E]. }
    assert (Hne : segs <> []) by (intros ->; discriminate).
    destruct (last_opt_some Hne) as (a & Ha & l' & ->). rewrite Hlast in Ha. inversion Ha; subst a.
    exists l', []. split; [reflexivity|]. split; [|right; split; [reflexivity|exact Hn]].
    unfold nohit in *. apply Forall_app in Hn. tauto.
Qed.

(* selection by index *)
Lemma select_at l x i a : nth_error l i = Some a -> nohit x (firstn i l) ->
  (lt x (send a) = true \/ length l - 1 <= i) -> select l x = Some a.
Proof.
  intros Hn Hpre Hc.
  assert (Hsplit : l = firstn i l ++ a :: skipn (S i) l).
  { clear -Hn. revert i Hn. induction l as [|b r IH]; intros [|i] H; cbn in *; try discriminate.
    - now inversion H. - f_equal. now apply IH. }
  assert (Hlen : i < length l) by (apply nth_error_Some; congruence).
  destruct (lt x (send a)) eqn:Ha.
  - rewrite Hsplit. now apply select_first.
  - destruct Hc as [Hc|Hc]; [discriminate|].
    assert (Hs : skipn (S i) l = []) by (apply skipn_all2; lia).
    rewrite Hs in Hsplit. rewrite select_last.
    + rewrite Hsplit. apply last_opt_snoc.
    + rewrite Hsplit. apply Forall_app. split; [exact Hpre|constructor; [exact Ha|constructor]].
Qed.

(* the index of the selected segment *)
Definition select_idx (segs : list seg) (x : A) : option nat :=
  match find_index (fun s => lt x (send s)) segs with
  | Some i => Some i
  | None => match segs with [] => None | _ => Some (length segs - 1) end
  end.

Lemma find_index_find (p : seg -> bool) l :
  find p l = match find_index p l with Some i => nth_error l i | None => None end.
Proof.
  induction l as [|a r IH]; cbn; [reflexivity|]. destruct (p a); [reflexivity|].
  rewrite IH. destruct (find_index p r); reflexivity.
Qed.
Lemma find_index_none (p : seg -> bool) l : find_index p l = None -> Forall (fun s => p s = false) l.
Proof.
  induction l as [|a r IH]; cbn; [constructor|]. destruct (p a) eqn:E; [discriminate|].
  destruct (find_index p r); [discriminate|]. constructor; auto.
Qed.
Lemma find_index_some (p : seg -> bool) l i : find_index p l = Some i ->
  Forall (fun s => p s = false) (firstn i l) /\ exists a, nth_error l i = Some a /\ p a = true.
Proof.
  revert i. induction l as [|a r IH]; cbn; intros i H; [discriminate|].
  destruct (p a) eqn:E.
  - inversion H; subst. cbn. split; [constructor|eauto].
  - destruct (find_index p r) as [j|]; [|discriminate]. inversion H; subst. cbn.
    destruct (IH j eq_refl) as [H1 H2]. split; [constructor; assumption|exact H2].
Qed.
Lemma last_opt_nth (l : list seg) : last_opt l = nth_error l (length l - 1).
Proof.
  induction l as [|a r IH]; [reflexivity|]. destruct r as [|b r']; [reflexivity|].
  change (last_opt (a :: b :: r')) with (last_opt (b :: r')). rewrite IH. cbn [length].
  replace (S (S (length r')) - 1) with (S (S (length r') - 1)) by lia. reflexivity.
Qed.
Theorem select_idx_spec segs x :
  select segs x = match select_idx segs x with Some i => nth_error segs i | None => None end.
Proof.
  unfold PwModel.select, select_idx. rewrite find_index_find.
  destruct (find_index _ segs) as [i|] eqn:E.
  - destruct (find_index_some _ _ E) as (_ & a & Ha & _). now rewrite Ha.
  - destruct segs as [|a t]; [reflexivity|]. apply last_opt_nth.
Qed.
(* a segment whose end is not above x is never selected unless it is the last one *)
Theorem select_idx_not l s r x : lt x (send s) = false -> r <> [] ->
  select_idx (l ++ s :: r) x <> Some (length l).
Proof.
  intros Hs Hr. unfold select_idx.
  destruct (find_index _ (l ++ s :: r)) as [i|] eqn:E.
  - destruct (find_index_some _ _ E) as (_ & a & Ha & Hp). intros Hi. inversion Hi; subst i.
    rewrite nth_error_app2 in Ha by lia. rewrite Nat.sub_diag in Ha. cbn in Ha. inversion Ha; subst a. congruence.
  - destruct (l ++ s :: r) eqn:El; [destruct l; discriminate|]. rewrite <- El.
    rewrite app_length. cbn [length]. destruct r; [congruence|]. cbn [length]. intros Hi. inversion Hi. lia.
Qed.
End Sel.
