(* C15, value level: an operation applied to every piece with the breakpoints kept (Piecewise * s, -f, translate: `map` over the
   segments, model Run.run_pw_map) commutes with piece selection and hence with evaluation at EVERY argument - breakpoints,
   arguments beyond the last breakpoint and NaN included - whatever the comparison `lt` is. *)
From Coq Require Import List Bool Arith.
Require Import PP.Model.PwModel.
Import ListNotations.

Section PwMap.
Variables (A P : Type) (lt : A -> A -> bool) (g : P -> P).

Definition mapseg (s : A * P) : A * P := (fst s, g (snd s)).

Lemma find_mapseg (segs : list (A * P)) (x : A) :
  find (fun s => lt x (send s)) (map mapseg segs) = option_map mapseg (find (fun s => lt x (send s)) segs).
Proof.
  induction segs as [|s r IH]; cbn [map find]; [reflexivity|].
  change (send (mapseg s)) with (send s). destruct (lt x (send s)); [reflexivity | exact IH].
Qed.

Lemma last_opt_mapseg (segs : list (A * P)) : last_opt (map mapseg segs) = option_map mapseg (last_opt segs).
Proof.
  induction segs as [|s r IH]; [reflexivity|]. destruct r as [|s' r']; [reflexivity|].
  change (last_opt (map mapseg (s :: s' :: r'))) with (last_opt (map mapseg (s' :: r'))).
  change (last_opt (s :: s' :: r')) with (last_opt (s' :: r')). exact IH.
Qed.

Theorem select_mapseg (segs : list (A * P)) (x : A) : select lt (map mapseg segs) x = option_map mapseg (select lt segs x).
Proof.
  unfold select. rewrite find_mapseg. destruct (find (fun s => lt x (send s)) segs); [reflexivity|]. apply last_opt_mapseg.
Qed.

(* if the piece-level operation g acts on values as h (at this x), the piecewise operation acts as h too; the empty function
   panics (None) before and after *)
Theorem pw_eval_mapseg (R : Type) (ev : A * P -> A -> R) (h : R -> R) (segs : list (A * P)) (x : A) :
  (forall s, In s segs -> ev (mapseg s) x = h (ev s x)) ->
  pw_eval lt ev (map mapseg segs) x = option_map h (pw_eval lt ev segs x).
Proof.
  intros H. destruct segs as [|s0 r]; [reflexivity|].
  assert (S := select_mapseg (s0 :: r) x). unfold pw_eval. cbn [map] in *. rewrite S.
  destruct (select lt (s0 :: r) x) as [s|] eqn:E; [|reflexivity]. cbn [option_map]. f_equal. apply H.
  unfold select in E. destruct (find (fun s => lt x (send s)) (s0 :: r)) as [s1|] eqn:Ef.
  - injection E as <-. apply (find_some _ _ Ef).
  - clear Ef H. revert E. generalize (s0 :: r). intros l. induction l as [|a l IH]; [discriminate|].
    destruct l as [|b l']; [intros E; injection E as <-; now left|]. intros E. right. apply IH. exact E.
Qed.
End PwMap.
Arguments mapseg {A P} g s.
Arguments select_mapseg {A P} lt g segs x.
Arguments pw_eval_mapseg {A P} lt g {R} ev h segs x _.

(* real-valued instances for polynomial pieces (coefficient lists), any comparison lt used for the piece selection *)
From Coq Require Import Reals.
Require Import PP.PolyFacts.
Section PwValue.
Variable lt : R -> R -> bool.
Definition pev (s : R * list R) (x : R) : R := polyval (snd s) x.

Theorem pw_scale_value (segs : list (R * list R)) (s x : R) :
  pw_eval lt pev (map (mapseg (map (fun c => (c * s)%R))) segs) x = option_map (Rmult s) (pw_eval lt pev segs x).
Proof. apply (pw_eval_mapseg lt _ pev (Rmult s)). intros p _. unfold pev, mapseg. cbn [snd]. apply polyval_scale. Qed.

Theorem pw_neg_value (segs : list (R * list R)) (x : R) :
  pw_eval lt pev (map (mapseg (map Ropp)) segs) x = option_map Ropp (pw_eval lt pev segs x).
Proof. apply (pw_eval_mapseg lt _ pev Ropp). intros p _. unfold pev, mapseg. cbn [snd]. apply polyval_neg. Qed.

Definition translate_coeffs (c : R) (cs : list R) : list R := match cs with [] => [c] | c0 :: r => (c0 + c)%R :: r end.
Theorem pw_translate_value (segs : list (R * list R)) (c x : R) :
  pw_eval lt pev (map (mapseg (translate_coeffs c)) segs) x = option_map (fun y => (y + c)%R) (pw_eval lt pev segs x).
Proof.
  apply (pw_eval_mapseg lt _ pev (fun y => (y + c)%R)). intros p _. unfold pev, mapseg. cbn [snd]. destruct (snd p) as [|c0 r]; cbn [translate_coeffs].
  - cbn [polyval]. ring.
  - apply polyval_translate.
Qed.
End PwValue.
