(* one correctly rounded reciprocal: r^ = 1 (/) x^ is within 2^-53 |1/x^| of 1/x^ for every finite x^ with 1 <= |x^| <= 2^1021
   (the range in which the closed-form branch of IntOfLogPoly4::evaluate forms it: |x^| >= 1.71) *)
From Coq Require Import ZArith Reals Lra Lia.
From Flocq Require Import Core BinarySingleNaN.
Require Import PP.FloatModel PP.FloatOps PP.FloatFacts.
Local Open Scope R_scope.

Lemma one_bits_val : B2R (of_bits 4607182418800017408) = 1 /\ is_finite (of_bits 4607182418800017408) = true.
Proof. split; [vm_compute B2R; lra|vm_compute; reflexivity]. Qed.

Lemma format_one : generic_format radix2 fexp64 1.
Proof.
  replace 1 with (B2R (of_bits 4607182418800017408)) by apply one_bits_val.
  apply generic_format_B2R.
Qed.

Theorem recip_accuracy (xh : F) : is_finite xh = true -> 1 <= Rabs (B2R xh) <= bpow radix2 1021 ->
  let rh := fdiv (of_bits 4607182418800017408) xh in
  is_finite rh = true /\ Rabs (B2R rh - / B2R xh) <= u * Rabs (/ B2R xh).
Proof.
  intros Fx [Hlo Hhi] rh.
  destruct one_bits_val as [V1 F1].
  assert (Hx0 : B2R xh <> 0) by (intros E; rewrite E, Rabs_R0 in Hlo; lra).
  assert (Hinv : Rabs (/ B2R xh) <= 1).
  { rewrite Rabs_inv. rewrite <- Rinv_1. apply Rinv_le_contravar; lra. }
  assert (Hno : noover (B2R (of_bits 4607182418800017408) / B2R xh)).
  { unfold noover. rewrite V1. unfold Rdiv. rewrite Rmult_1_l.
    apply Rle_lt_trans with 1.
    - apply Rabs_le_inv in Hinv.
      assert (H1 : rnd (- (1)) <= rnd (/ B2R xh)) by (unfold rnd; apply round_le; [apply fexp_correct; reflexivity|apply valid_rnd_N|lra]).
      assert (H2 : rnd (/ B2R xh) <= rnd 1) by (unfold rnd; apply round_le; [apply fexp_correct; reflexivity|apply valid_rnd_N|lra]).
      rewrite (rnd_exact (- (1))) in H1 by (apply generic_format_opp; exact format_one).
      rewrite (rnd_exact 1) in H2 by exact format_one.
      apply Rabs_le. lra.
    - change 1 with (bpow radix2 0). apply bpow_lt. reflexivity. }
  destruct (div_correct (of_bits 4607182418800017408) xh F1 Hx0 Hno) as [E Fin].
  split; [exact Fin|].
  unfold rh. rewrite E, V1. unfold Rdiv. rewrite Rmult_1_l.
  assert (Hnu : nounder (/ B2R xh)).
  { right. unfold tiny. rewrite Rabs_inv.
    apply Rle_trans with (/ bpow radix2 1021).
    - rewrite <- bpow_opp. apply bpow_le. lia.
    - apply Rinv_le_contravar; [lra|exact Hhi]. }
  destruct (rnd_model _ Hnu) as (d & Hd & ->).
  replace (/ B2R xh * (1 + d) - / B2R xh) with (/ B2R xh * d) by ring.
  rewrite Rabs_mult, Rmult_comm. apply Rmult_le_compat_r; [apply Rabs_pos|exact Hd].
Qed.
