(* The real-number form of IntOfLogPoly4::evaluate (regenerated kernel): both branches, exactly. Shared by C09 and C10. *)
From Coq Require Import List ZArith Reals Lra Lia Bool.
From Coquelicot Require Import Coquelicot.
Require Import PP.Expr PP.RealOps PP.PolyFacts PP.ExpTail PP.Gen.Kernels.
Import ListNotations.
Local Open Scope R_scope.

Definition e_Q4 : expr := hd (Lit 0) k_IntOfLogPoly4__evaluate.
(* the two switch points, read from the regenerated term (the literals -1.71 and 1.72 as binary64) *)
Definition thr_lo : R := litR 13833752011390226268.
Definition thr_hi : R := litR 4610425010531724165.
Lemma thr_values : -1.7100000000001 < thr_lo < -1.7099999999999 /\ 1.7199999999999 < thr_hi < 1.7200000000001.
Proof. unfold thr_lo, thr_hi. norm_lits. split; split; lra. Qed.

(* the 16-term series sum_{m<16} x^m/(m+5)! *)
Definition S16 (x : R) : R :=
  polyval [/120; /720; /5040; /40320; /362880; /3628800; /39916800; /479001600; /6227020800; /87178291200;
           /1307674368000; /20922789888000; /355687428096000; /6402373705728000; /121645100408832000; /2432902008176640000] x.

(* series branch: exactly k + v*sum c_j x^j + u*v*x^5*S16(x) with x = -ln v *)
Theorem form_series : forall k c1 c2 c3 c4 u v : R,
  let x := - ln v in thr_lo < x -> x < thr_hi ->
  eval ROps [k; c1; c2; c3; c4; u; v] e_Q4 = k + v * (c1 * x + c2 * x ^ 2 + c3 * x ^ 3 + c4 * x ^ 4) + u * v * x ^ 5 * S16 x.
Proof.
  intros k c1 c2 c3 c4 u v x H1 H2. unfold thr_lo, thr_hi in *. unfold e_Q4, k_IntOfLogPoly4__evaluate. cbn [hd]. reval. fold x.
  destruct (Rlt_dec (litR 13833752011390226268) x) as [_|N]; [|contradiction].
  destruct (Rlt_dec x (litR 4610425010531724165)) as [_|N]; [|contradiction].
  cbn [andb]. norm_lits. unfold S16. cbn [polyval]. field.
Qed.

(* closed-form branch: exactly the closed form k + v*sum c_j x^j + u*v*(e^x - sum_{j<5} x^j/j!) *)
Theorem form_closed : forall k c1 c2 c3 c4 u v : R,
  let x := - ln v in ~ (thr_lo < x /\ x < thr_hi) -> x <> 0 ->
  eval ROps [k; c1; c2; c3; c4; u; v] e_Q4 = quartic_closed k c1 c2 c3 c4 u v.
Proof.
  intros k c1 c2 c3 c4 u v x H Hx. unfold thr_lo, thr_hi in *. unfold e_Q4, k_IntOfLogPoly4__evaluate. cbn [hd]. reval. fold x.
  assert (E : (if Rlt_dec (litR 13833752011390226268) x then true else false) && (if Rlt_dec x (litR 4610425010531724165) then true else false) = false).
  { destruct (Rlt_dec (litR 13833752011390226268) x); destruct (Rlt_dec x (litR 4610425010531724165)); try reflexivity. exfalso. apply H. split; assumption. }
  rewrite E. norm_lits. replace (1 / (1 / x)) with x by (field; exact Hx). unfold quartic_closed, T4. fold x. field. exact Hx.
Qed.

