(* C03 / C16: the stateful evaluator answers every query like direct evaluation, for every history. *)
From Coq Require Import List Bool Arith Lia.
Require Import PP.Model.PwModel PP.Proofs.SelectProofs.
Import ListNotations.
Set Implicit Arguments.

Section Ev.
Variables (A P : Type) (lt le : A -> A -> bool) (isnan : A -> bool) (ok : A -> Prop).
Hypothesis le_lt : forall a b, ok a -> ok b -> le a b = negb (lt b a).
Hypothesis lt_trans : forall a b c, ok a -> ok b -> ok c -> lt a b = true -> lt b c = true -> lt a c = true.
Hypothesis nlt_trans : forall a b c, ok a -> ok b -> ok c -> lt a b = false -> lt b c = false -> lt a c = false.
Hypothesis lt_irrefl : forall a, ok a -> lt a a = false.
Hypothesis ok_notnan : forall a, ok a -> isnan a = false.
Hypothesis nan_lt : forall x e, isnan x = true -> lt x e = false.

Notation seg := (seg A P).
Notation st := (st A P).
Notation select := (@PwModel.select A P lt).
Notation step := (@PwModel.step A P lt le isnan).
Notation run := (@PwModel.run A P lt le isnan).
Notation init := (@PwModel.init A P).

Definition sorted (l : list seg) :=
  forall i j d, i <= j -> j < length l -> lt (send (nth j l d)) (send (nth i l d)) = false.
Definition allok (l : list seg) := Forall (fun s : seg => ok (send s)) l.

Record Inv (front : list seg) (s : st) : Prop := {
  inv_pre : exists pre, front = pre ++ tail s /\ Forall (fun g : seg => lt (lastx s) (send g) = false) pre;
  inv_hd  : match tail s with [] => True | a :: _ => lt (send a) (lastx s) = false end;
  inv_ok  : ok (lastx s) }.

Lemma dropwhile_spec (p : seg -> bool) l : exists d, l = d ++ dropwhile p l /\ Forall (fun g => p g = true) d /\
  match dropwhile p l with [] => True | a :: _ => p a = false end.
Proof.
  induction l as [|a r IH]; cbn.
  - exists []; auto.
  - destruct (p a) eqn:Hp.
    + destruct IH as (d & E & F & H). exists (a :: d). cbn. split; [f_equal; exact E|]. split; [constructor; auto|exact H].
    + exists []. cbn. auto.
Qed.

Lemma rfind_idx_some (p : seg -> bool) l i : rfind_idx p l = Some i ->
  exists l1 g l2, l = l1 ++ g :: l2 /\ length l1 = i /\ p g = true /\ Forall (fun h => p h = false) l2.
Proof.
  revert i; induction l as [|a r IH]; cbn; intros i H; [discriminate|].
  destruct (rfind_idx p r) as [j|] eqn:E.
  - inversion H; subst. destruct (IH j eq_refl) as (l1 & g & l2 & E1 & L & Pg & F).
    exists (a :: l1), g, l2. cbn. subst r. auto.
  - destruct (p a) eqn:Pa; [|discriminate]. inversion H; subst.
    exists [], a, r. cbn. repeat split; auto.
    clear -E. induction r as [|b r IH]; [constructor|]. cbn in E.
    destruct (rfind_idx p r); [discriminate|]. destruct (p b) eqn:Pb; [discriminate|]. constructor; auto.
Qed.

Lemma rfind_idx_none (p : seg -> bool) l : rfind_idx p l = None -> Forall (fun h => p h = false) l.
Proof.
  induction l as [|b r IH]; [constructor|]. cbn.
  destruct (rfind_idx p r); [discriminate|]. destruct (p b) eqn:Pb; [discriminate|]. constructor; auto.
Qed.

Lemma find_app_false (p : seg -> bool) l1 l2 : Forall (fun g => p g = false) l1 -> find p (l1 ++ l2) = find p l2.
Proof. induction 1 as [|a r Ha _ IH]; cbn; [reflexivity|]. now rewrite Ha. Qed.

Lemma find_app_gen (p : seg -> bool) l1 l2 :
  find p (l1 ++ l2) = match find p l1 with Some s => Some s | None => find p l2 end.
Proof. induction l1 as [|a r IH]; cbn; [reflexivity|]. destruct (p a); [reflexivity|exact IH]. Qed.

Lemma select_front front last x :
  select (front ++ [last]) x = match find (fun s : seg => lt x (send s)) front with Some s => Some s | None => Some last end.
Proof.
  unfold PwModel.select. rewrite last_opt_snoc, find_app_gen.
  destruct (find _ front); [reflexivity|]. cbn. destruct (lt x (send last)); reflexivity.
Qed.

Lemma answer_ok front last x pre t :
  front = pre ++ t -> Forall (fun g : seg => lt x (send g) = false) pre ->
  match t with [] => True | a :: _ => lt x (send a) = true end ->
  select (front ++ [last]) x = Some (hd_or last t).
Proof.
  intros -> Hpre Hhd. rewrite select_front, find_app_false by exact Hpre.
  destruct t as [|a r]; cbn; [reflexivity|]. now rewrite Hhd.
Qed.

Lemma lt_asym a b : ok a -> ok b -> lt a b = true -> lt b a = false.
Proof.
  intros Ha Hb H. destruct (lt b a) eqn:E; [|reflexivity].
  rewrite <- (lt_irrefl Ha). symmetry. eapply lt_trans; eauto.
Qed.

Theorem step_correct front last s x :
  allok front -> ok (send last) -> sorted front -> ok x -> Inv front s ->
  let '(g, s') := step front last s x in
  Inv front s' /\ select (front ++ [last]) x = Some g.
Proof.
  intros Hok Hokl Hsort Hx [ (pre & Hfront & Hpre) Hhd Hokx ].
  assert (Hokpre : allok pre) by (unfold allok in *; rewrite Hfront in Hok; apply Forall_app in Hok; tauto).
  assert (Hoktl : allok (tail s)) by (unfold allok in *; rewrite Hfront in Hok; apply Forall_app in Hok; tauto).
  unfold PwModel.step. rewrite (ok_notnan Hx). rewrite (le_lt Hokx Hx). destruct (lt x (lastx s)) eqn:Hdir; cbn [negb].
  - (* backward: x < last *)
    assert (Hinf : firstn (length front - length (tail s)) front = pre).
    { rewrite Hfront, app_length. replace (length pre + length (tail s) - length (tail s)) with (length pre + 0) by lia.
      rewrite firstn_app_2. cbn. apply app_nil_r. }
    rewrite Hinf.
    assert (Htl : match tail s with [] => True | a :: _ => lt x (send a) = true end).
    { destruct (tail s) as [|a r] eqn:Et; [exact I|]. inversion Hoktl; subst.
      destruct (lt x (send a)) eqn:E; [reflexivity|].
      rewrite <- Hdir. symmetry. eapply nlt_trans with (b := send a); eauto. }
    destruct (rfind_idx _ pre) as [ix|] eqn:Erf.
    + destruct (rfind_idx_some _ _ Erf) as (p1 & g & p2 & Epre & Lix & Pg & Fp2).
      assert (Hokg : ok (send g)).
      { unfold allok in Hokpre. rewrite Epre in Hokpre. apply Forall_app in Hokpre. destruct Hokpre as [_ H]. now inversion H. }
      assert (Hokp2 : allok p2).
      { unfold allok in Hokpre. rewrite Epre in Hokpre. apply Forall_app in Hokpre. destruct Hokpre as [_ H]. now inversion H. }
      assert (Hokp1 : allok p1).
      { unfold allok in Hokpre. rewrite Epre in Hokpre. apply Forall_app in Hokpre. tauto. }
      rewrite (le_lt Hokg Hx) in Pg. apply negb_true_iff in Pg.
      assert (Eskip : skipn (ix + 1) front = p2 ++ tail s).
      { rewrite Hfront, Epre. rewrite <- app_assoc. cbn [app].
        replace (ix + 1) with (length (p1 ++ [g])) by (rewrite app_length; cbn; lia).
        replace (p1 ++ g :: p2 ++ tail s) with ((p1 ++ [g]) ++ p2 ++ tail s) by (rewrite <- app_assoc; reflexivity).
        rewrite skipn_app, skipn_all, Nat.sub_diag. reflexivity. }
      rewrite Eskip.
      assert (Hnewpre : Forall (fun h : seg => lt x (send h) = false) (p1 ++ [g])).
      { apply Forall_app. split; [|constructor; [exact Pg|constructor]].
        apply Forall_forall. intros h Hin.
        assert (Hokh : ok (send h)) by (unfold allok in Hokp1; rewrite Forall_forall in Hokp1; auto).
        destruct (In_nth _ _ g Hin) as (i & Hi & Hnth).
        assert (Hs := Hsort i (length p1) g).
        assert (nth i front g = h).
        { rewrite Hfront, Epre, <- app_assoc, app_nth1 by lia. exact Hnth. }
        assert (nth (length p1) front g = g).
        { rewrite Hfront, Epre, <- app_assoc, app_nth2 by lia. now rewrite Nat.sub_diag. }
        rewrite H, H0 in Hs.
        assert (lt (send g) (send h) = false).
        { apply Hs; [lia|]. rewrite Hfront, Epre, !app_length. cbn. lia. }
        eapply nlt_trans with (b := send g); eauto. }
      assert (Hnewhd : match p2 ++ tail s with [] => True | a :: _ => lt x (send a) = true end).
      { destruct p2 as [|h r]; cbn; [exact Htl|]. inversion Fp2; subst. inversion Hokp2; subst.
        rewrite (le_lt H3 Hx) in H1. now apply negb_false_iff in H1. }
      split.
      * constructor; cbn.
        -- exists (p1 ++ [g]). split; [|exact Hnewpre].
           rewrite Hfront, Epre, <- !app_assoc. reflexivity.
        -- destruct (p2 ++ tail s) as [|a r] eqn:E; [exact I|].
           assert (ok (send a)).
           { assert (allok (p2 ++ tail s)) by (apply Forall_app; split; assumption). rewrite E in H. now inversion H. }
           apply lt_asym; auto.
        -- exact Hx.
      * apply answer_ok with (pre := p1 ++ [g]); auto.
        rewrite Hfront, Epre, <- !app_assoc. reflexivity.
    + apply rfind_idx_none in Erf.
      assert (Hnewhd : match front with [] => True | a :: _ => lt x (send a) = true end).
      { rewrite Hfront. destruct pre as [|h r]; cbn; [exact Htl|]. inversion Erf; subst. inversion Hokpre; subst.
        rewrite (le_lt H3 Hx) in H1. now apply negb_false_iff in H1. }
      split.
      * constructor; cbn.
        -- exists []. split; [reflexivity|constructor].
        -- destruct front as [|a r] eqn:E; [exact I|]. inversion Hok; subst. apply lt_asym; auto.
        -- exact Hx.
      * apply answer_ok with (pre := []); auto.
  - (* forward: x >= last *)
    destruct (dropwhile_spec (fun g : seg => negb (lt x (send g))) (tail s)) as (d & Ed & Fd & Hd).
    set (t' := dropwhile _ (tail s)) in *.
    assert (Hoktl' : allok t').
    { unfold allok in *. rewrite Ed in Hoktl. apply Forall_app in Hoktl. tauto. }
    assert (Hnewpre : Forall (fun g : seg => lt x (send g) = false) (pre ++ d)).
    { apply Forall_app. split.
      - apply Forall_forall. intros g Hin. rewrite Forall_forall in Hpre.
        assert (ok (send g)) by (unfold allok in Hokpre; rewrite Forall_forall in Hokpre; auto).
        eapply nlt_trans with (b := lastx s); eauto.
      - eapply Forall_impl; [|exact Fd]. cbn. intros g H. now apply negb_true_iff in H. }
    assert (Hnewhd : match t' with [] => True | a :: _ => lt x (send a) = true end).
    { destruct t' as [|a r]; [exact I|]. now apply negb_false_iff in Hd. }
    split.
    + constructor; cbn.
      * exists (pre ++ d). split; [|exact Hnewpre]. rewrite <- app_assoc, <- Ed. exact Hfront.
      * fold t'. destruct t' as [|a r]; [exact I|]. inversion Hoktl'; subst. apply lt_asym; auto.
      * exact Hx.
    + apply answer_ok with (pre := pre ++ d); auto. rewrite <- app_assoc, <- Ed. exact Hfront.
Qed.

Theorem init_inv front last : allok front -> ok (send last) -> Inv front (init front last).
Proof.
  intros Hok Hl. constructor; cbn.
  - exists []. split; [reflexivity|constructor].
  - destruct front as [|a r]; [exact I|]. inversion Hok; subst. now apply lt_irrefl.
  - destruct front as [|a r]; [exact Hl|]. now inversion Hok.
Qed.

(* a NaN query leaves the state untouched and is answered from the last segment,
   which is what direct evaluation returns for NaN (no end compares greater) *)
Lemma step_nan front last s x : isnan x = true -> step front last s x = (last, s).
Proof. intros H. unfold PwModel.step. now rewrite H. Qed.
Lemma select_nan front last x : isnan x = true -> select (front ++ [last]) x = Some last.
Proof.
  intros H. rewrite select_last; [apply last_opt_snoc|].
  apply Forall_forall. intros g _. now apply nan_lt.
Qed.

(* every history over ok-or-NaN arguments: answers are those of direct evaluation *)
Theorem history front last xs :
  allok front -> ok (send last) -> sorted front -> Forall (fun x => ok x \/ isnan x = true) xs ->
  map (fun r => Some (fst r)) (run front last (init front last) xs) = map (select (front ++ [last])) xs.
Proof.
  intros Hok Hl Hs Hxs. generalize (@init_inv front last Hok Hl). generalize (init front last).
  induction Hxs as [|x r Hx _ IH]; intros s HI; cbn; [reflexivity|].
  destruct Hx as [Hx|Hx].
  - generalize (@step_correct front last s x Hok Hl Hs Hx HI). destruct (step front last s x) as [g s'].
    intros [HI' Hsel]. cbn. rewrite Hsel. f_equal. apply IH, HI'.
  - rewrite (@step_nan front last s x Hx). cbn. rewrite (@select_nan front last x Hx). f_equal. apply IH, HI.
Qed.

End Ev.
