(* Last-place facts used by C07 (round trip derivative . indefinite) and C08 (power-of-two factors are exact).
   All statements are about binary64 values (Flocq), for every finite input. *)
From Coq Require Import ZArith Reals Lra Bool Psatz Lia.
From Flocq Require Import Core Relative BinarySingleNaN Mult_error.
Require Import PP.FloatModel PP.FloatFacts.
Local Open Scope R_scope.

Notation fmt := (generic_format radix2 fexp64).
Notation ulp64 := (ulp radix2 fexp64).

Lemma fmt_B2R (c : F) : fmt (B2R c).
Proof. apply generic_format_B2R. Qed.

Lemma rnd_le a b : a <= b -> rnd a <= rnd b.
Proof. intros H. unfold rnd. apply round_le; [apply fexp_correct; reflexivity|apply valid_rnd_N|exact H]. Qed.

Lemma rnd_opp a : rnd (- a) = - rnd a.
Proof. unfold rnd. cbn [round_mode]. apply round_NE_opp. Qed.

(* ---- multiplication by a power of two is exact (no overflow) ---- *)
Theorem fmul_pow2_exact (c p : F) (e : Z) :
  is_finite c = true -> is_finite p = true -> B2R p = bpow radix2 e -> (0 <= e)%Z ->
  Rabs (B2R c * bpow radix2 e) < bpow radix2 emax ->
  B2R (fmul c p) = B2R c * bpow radix2 e /\ is_finite (fmul c p) = true.
Proof.
  intros Fc Fp Hp He Hlt.
  assert (Ex : rnd (B2R c * bpow radix2 e) = B2R c * bpow radix2 e).
  { apply rnd_exact. apply (mult_bpow_pos_exact_FLT radix2 (3 - emax - prec) prec); [apply fmt_B2R|exact He]. }
  destruct (mul_correct c p Fc Fp) as [E Fin].
  - unfold noover. rewrite Hp, Ex. exact Hlt.
  - split; [|exact Fin]. rewrite E, Hp. exact Ex.
Qed.

(* ---- x in format, 0 < x: x - ulp x is in format ---- *)
Lemma fmt_minus_ulp x : fmt x -> 0 < x -> fmt (x - ulp64 x).
Proof.
  intros Fx Hx.
  assert (Hu : ulp64 x = bpow radix2 (cexp radix2 fexp64 x)) by (apply ulp_neq_0; lra).
  set (m := Ztrunc (scaled_mantissa radix2 fexp64 x)).
  set (e := cexp radix2 fexp64 x).
  assert (Ex : x = F2R (Float radix2 m e)) by exact Fx.
  assert (El : x - ulp64 x = F2R (Float radix2 (m - 1) e)).
  { rewrite Hu. fold e. rewrite Ex at 1. unfold F2R. cbn [Fnum Fexp]. rewrite minus_IZR. ring. }
  rewrite El. apply generic_format_F2R. intros Hm.
  rewrite <- El.
  assert (Hmpos : (1 <= m)%Z).
  { assert (0 < F2R (Float radix2 m e)) by (rewrite <- Ex; exact Hx). apply gt_0_F2R in H. lia. }
  assert (Hl : 0 < x - ulp64 x).
  { rewrite El. apply F2R_gt_0. cbn. lia. }
  unfold e, cexp.
  assert (Mexp : Monotone_exp fexp64) by (apply fexp_monotone).
  apply Mexp. apply mag_le; [exact Hl|].
  assert (0 <= ulp64 x) by apply ulp_ge_0. lra.
Qed.

(* ---- the key step: a real within less than one ulp of a format number rounds to within one ulp of it ---- *)
Lemma rnd_near_pos x y : fmt x -> 0 < x -> Rabs (y - x) < ulp64 x -> Rabs (rnd y - x) <= ulp64 x.
Proof.
  intros Fx Hx Hy. apply Rabs_def2 in Hy. destruct Hy as [Hy1 Hy2].
  assert (Vexp : Valid_exp fexp64) by (apply fexp_correct; reflexivity).
  apply Rabs_le. split.
  - (* lower *)
    assert (L : rnd (x - ulp64 x) = x - ulp64 x) by (apply rnd_exact; now apply fmt_minus_ulp).
    assert (rnd (x - ulp64 x) <= rnd y) by (apply rnd_le; lra). lra.
  - assert (S : rnd (x + ulp64 x) = x + ulp64 x).
    { apply rnd_exact. rewrite <- succ_eq_pos by lra. now apply generic_format_succ. }
    assert (rnd y <= rnd (x + ulp64 x)) by (apply rnd_le; lra). lra.
Qed.

Lemma rnd_near x y : fmt x -> x <> 0 -> Rabs (y - x) < ulp64 x -> Rabs (rnd y - x) <= ulp64 x.
Proof.
  intros Fx Hx Hy. destruct (Rlt_or_le 0 x) as [Hp|Hn]; [now apply rnd_near_pos|].
  assert (Hneg : 0 < - x) by lra.
  assert (Fo : fmt (- x)) by now apply generic_format_opp.
  assert (H := rnd_near_pos (- x) (- y) Fo Hneg).
  rewrite ulp_opp in H. rewrite rnd_opp in H.
  replace (- y - - x) with (- (y - x)) in H by ring. rewrite Rabs_Ropp in H.
  replace (- rnd y - - x) with (- (rnd y - x)) in H by ring. rewrite Rabs_Ropp in H. now apply H.
Qed.

(* u * |x| < ulp x for every non-zero x *)
Lemma u_lt_ulp x : x <> 0 -> u * Rabs x < ulp64 x.
Proof.
  intros Hx. rewrite ulp_neq_0 by exact Hx. unfold cexp.
  destruct (mag radix2 x) as [ex Hex]. cbn [mag_val]. specialize (Hex Hx). destruct Hex as [_ Hex].
  assert (Hle : bpow radix2 (ex - prec) <= bpow radix2 (fexp64 ex)).
  { apply bpow_le. unfold SpecFloat.fexp. lia. }
  assert (Hu0 : u = bpow radix2 (- prec)).
  { unfold u. change (/ 2) with (bpow radix2 (-1)). rewrite <- bpow_plus. reflexivity. }
  assert (Hu : u * bpow radix2 ex = bpow radix2 (ex - prec)).
  { rewrite Hu0, <- bpow_plus. f_equal. lia. }
  assert (0 < u) by apply u_pos.
  apply Rlt_le_trans with (u * bpow radix2 ex); [apply Rmult_lt_compat_l; assumption|]. rewrite Hu. exact Hle.
Qed.

(* ---- the round trip n * (c / n), as computed by derivative . indefinite on one coefficient ---- *)
Theorem roundtrip_one_ulp (c n : F) :
  is_finite c = true -> is_finite n = true -> B2R n <> 0 ->
  nounder (B2R c / B2R n) -> noover (B2R c / B2R n) ->
  noover (B2R (fdiv c n) * B2R n) ->
  Rabs (B2R (fmul (fdiv c n) n) - B2R c) <= ulp64 (B2R c) /\ is_finite (fmul (fdiv c n) n) = true.
Proof.
  intros Fc Fn Hn Hu Ho Ho2.
  destruct (div_correct c n Fc Hn Ho) as [Eq Fq].
  destruct (mul_correct (fdiv c n) n Fq Fn Ho2) as [Er Fr].
  split; [|exact Fr]. rewrite Er, Eq.
  destruct (rnd_model _ Hu) as (d & Hd & Ed). rewrite Ed.
  replace (B2R c / B2R n * (1 + d) * B2R n) with (B2R c * (1 + d)) by (field; exact Hn).
  destruct (Req_dec (B2R c) 0) as [Z|NZ].
  - rewrite Z, Rmult_0_l. unfold rnd. rewrite round_0 by apply valid_rnd_N. rewrite Rminus_0_r, Rabs_R0. apply ulp_ge_0.
  - apply rnd_near; [apply fmt_B2R|exact NZ|].
    replace (B2R c * (1 + d) - B2R c) with (B2R c * d) by ring. rewrite Rabs_mult.
    apply Rle_lt_trans with (u * Rabs (B2R c)); [|now apply u_lt_ulp].
    rewrite Rmult_comm. apply Rmult_le_compat_r; [apply Rabs_pos|exact Hd].
Qed.

(* a finite non-zero float has a non-zero value *)
Lemma strict_nonzero (n : F) : is_finite_strict n = true -> B2R n <> 0 /\ is_finite n = true.
Proof.
  destruct n as [s|s| |s m e Hb]; try discriminate. intros _. split; [|reflexivity].
  cbn. intros H. apply eq_0_F2R in H. destruct s; discriminate.
Qed.

Theorem roundtrip_one_ulp_lit (c n : F) :
  is_finite c = true -> is_finite_strict n = true ->
  nounder (B2R c / B2R n) -> noover (B2R c / B2R n) -> noover (B2R (fdiv c n) * B2R n) ->
  Rabs (B2R (fmul (fdiv c n) n) - B2R c) <= ulp64 (B2R c) /\ is_finite (fmul (fdiv c n) n) = true.
Proof. intros Fc Sn. destruct (strict_nonzero n Sn) as [Hn Fn]. now apply roundtrip_one_ulp. Qed.

(* the literals 2.0, 4.0, 8.0 *)
Definition bits_two : Z := 4611686018427387904.
Definition bits_four : Z := 4616189618054758400.
Definition bits_eight : Z := 4620693217682128896.
Ltac lit_value := unfold of_bits; cbn -[bpow]; unfold F2R; cbn [Fnum Fexp cond_Zopp Z.opp];
  change (IZR 4503599627370496) with (bpow radix2 52); rewrite <- bpow_plus; reflexivity.
Lemma B2R_two : B2R (of_bits bits_two) = bpow radix2 1. Proof. unfold bits_two. lit_value. Qed.
Lemma B2R_four : B2R (of_bits bits_four) = bpow radix2 2. Proof. unfold bits_four. lit_value. Qed.
Lemma B2R_eight : B2R (of_bits bits_eight) = bpow radix2 3. Proof. unfold bits_eight. lit_value. Qed.

Theorem fmul_pow2_lits (c : F) (b : Z) (e : Z) :
  (b, e) = (bits_two, 1%Z) \/ (b, e) = (bits_four, 2%Z) \/ (b, e) = (bits_eight, 3%Z) ->
  is_finite c = true -> Rabs (B2R c * bpow radix2 e) < bpow radix2 emax ->
  B2R (fmul c (of_bits b)) = B2R c * bpow radix2 e /\ is_finite (fmul c (of_bits b)) = true.
Proof.
  intros [H|[H|H]] Fc Hlt; inversion H; subst b e; (apply fmul_pow2_exact; [exact Fc|reflexivity| |lia|exact Hlt]).
  - apply B2R_two. - apply B2R_four. - apply B2R_eight.
Qed.

(* ---- outside the no-underflow hypothesis the one-ulp claim is false: c = 2^-1073 (two units of the smallest
   subnormal), divisor 4.0: c/4 = half the smallest subnormal, rounds to even = 0, times 4 = 0: two units off ---- *)
Definition c_sub2 : F := of_bits 2.
Lemma roundtrip_subnormal_refuted :
  is_finite c_sub2 = true /\ is_finite_strict (of_bits bits_four) = true /\
  ~ (Rabs (B2R (fmul (fdiv c_sub2 (of_bits bits_four)) (of_bits bits_four)) - B2R c_sub2) <= ulp64 (B2R c_sub2)).
Proof.
  split; [reflexivity|]. split; [reflexivity|].
  assert (E : fmul (fdiv c_sub2 (of_bits bits_four)) (of_bits bits_four) = B754_zero false) by (vm_compute; reflexivity).
  rewrite E. cbn [B2R].
  assert (Ec : B2R c_sub2 = bpow radix2 (-1073)).
  { unfold c_sub2, of_bits. cbn -[bpow]. unfold F2R. cbn [Fnum Fexp cond_Zopp].
    change (IZR 2) with (bpow radix2 1). rewrite <- bpow_plus. reflexivity. }
  rewrite Ec. rewrite ulp_bpow. change (fexp64 (-1073 + 1)) with (-1074)%Z.
  intros H. rewrite Rminus_0_l, Rabs_Ropp, Rabs_pos_eq in H by apply bpow_ge_0.
  apply le_bpow in H. lia.
Qed.
