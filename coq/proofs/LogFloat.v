(* abstracting a logarithm of an input: every `Ln (Var n)` becomes the fresh variable m.  Used to state binary64 theorems
   about kernels that call the platform's ln: the kernel is the libm-free template evaluated at the computed logarithm. *)
From Coq Require Import List ZArith Bool Arith.
Require Import PP.Expr.
Import ListNotations.

Fixpoint abs_ln (n m : nat) (e : expr) : expr :=
  match e with
  | Ln (Var k) => if Nat.eqb k n then Var m else e
  | Var _ | Lit _ => e
  | Add a b => Add (abs_ln n m a) (abs_ln n m b) | Sub a b => Sub (abs_ln n m a) (abs_ln n m b)
  | Mul a b => Mul (abs_ln n m a) (abs_ln n m b) | Div a b => Div (abs_ln n m a) (abs_ln n m b)
  | Fma a b c => Fma (abs_ln n m a) (abs_ln n m b) (abs_ln n m c)
  | Neg a => Neg (abs_ln n m a) | Max a b => Max (abs_ln n m a) (abs_ln n m b)
  | Min a b => Min (abs_ln n m a) (abs_ln n m b) | Abs a => Abs (abs_ln n m a)
  | Ln a => Ln (abs_ln n m a) | Exp a => Exp (abs_ln n m a)
  | If c t f => If (babs_ln n m c) (abs_ln n m t) (abs_ln n m f)
  end
with babs_ln (n m : nat) (c : bexpr) : bexpr :=
  match c with
  | Lt a b => Lt (abs_ln n m a) (abs_ln n m b) | Le a b => Le (abs_ln n m a) (abs_ln n m b) | Eqf a b => Eqf (abs_ln n m a) (abs_ln n m b)
  | BAnd c d => BAnd (babs_ln n m c) (babs_ln n m d) | BOr c d => BOr (babs_ln n m c) (babs_ln n m d)
  | BNot c => BNot (babs_ln n m c) | BTrue => BTrue | BFalse => BFalse
  | BAbsDiffEq a b e => BAbsDiffEq (abs_ln n m a) (abs_ln n m b) (abs_ln n m e)
  | BRelEq a b e r => BRelEq (abs_ln n m a) (abs_ln n m b) (abs_ln n m e) (abs_ln n m r)
  end.
