(* From the generic a-priori bound to the forms the properties state. *)
From Coq Require Import ZArith Reals Lra Psatz List Bool Arith Lia.
From Flocq Require Import Core BinarySingleNaN.
Require Import PP.FloatModel PP.Expr PP.FloatOps PP.FloatFacts PP.RealOps PP.ErrorBound PP.PolyFacts.
Import ListNotations.
Local Open Scope R_scope.

Lemma u_val : u = / 9007199254740992.
Proof.
  unfold u, prec. change (-53 + 1)%Z with (-52)%Z. cbn [bpow]. change (Z.pow_pos radix2 52) with 4503599627370496%Z.
  replace 9007199254740992 with (2 * 4503599627370496) by lra.
  rewrite Rinv_mult. reflexivity.
Qed.

(* |fl - P| <= 4 n u A  when the term computes P exactly over the reals, its magnitudes are A and
   its rounding depth is at most 2n *)
Lemma kernel_bound env e (P A : R) (n : nat) :
  supported e = true -> safe env e -> (depth e <= 2 * n)%nat -> (n <= 4096)%nat ->
  rval env e = P -> absval (map B2R env) e = A ->
  Rabs (B2R (fev env e) - P) <= 4 * INR n * u * A.
Proof.
  intros Hs Hsafe Hd Hn <- <-.
  assert (Hdn : INR (depth e) <= 2 * INR n) by (apply le_INR in Hd; rewrite mult_INR in Hd; simpl (INR 2) in Hd; lra).
  assert (Hn' : INR n <= 4096) by (apply le_INR in Hn; rewrite (INR_IZR_INZ 4096) in Hn; exact Hn).
  assert (H0 : 0 <= INR (depth e)) by apply pos_INR.
  assert (Hu := u_pos).
  assert (Hlin : 2 * INR (depth e) * u <= 1) by (rewrite u_val in *; nra).
  eapply Rle_trans; [apply eval_apriori_lin; assumption|].
  destruct (eval_apriori env e Hs Hsafe) as (_ & _ & R0).
  assert (A0 : 0 <= absval (map B2R env) e) by (eapply Rle_trans; [apply Rabs_pos|exact R0]).
  apply Rmult_le_compat_r; [exact A0|]. nra.
Qed.

Lemma kernel_exact env e (P : R) :
  supported e = true -> exact_safe env e -> rval env e = P -> B2R (fev env e) = P /\ is_finite (fev env e) = true.
Proof. intros Hs He <-. destruct (eval_exact env e Hs He). auto. Qed.

(* ---- consequences of the running error bound (lib/ErrorRun.v) ---- *)
Require Import PP.ErrorRun.

Lemma running_bound env e (P : R) : safe_run env e -> rval env e = P ->
  Rabs (B2R (fev env e) - P) <= err_run env e /\ is_finite (fev env e) = true.
Proof. intros Hs <-. destruct (eval_running env e Hs). auto. Qed.

(* a polynomial with perturbed coefficients: |p^(X) - p(X)| <= sum e_i |X|^i *)
Lemma polyval_dev (a b e : list R) (X : R) :
  Forall2 (fun d ei => Rabs d <= ei) (zip_with Rminus a b) e -> length a = length b -> length a = length e ->
  Rabs (polyval a X - polyval b X) <= polyval e (Rabs X).
Proof.
  revert b e. induction a as [|a0 ar IH]; intros [|b0 br] [|e0 er] H Hab Hae; try discriminate.
  - cbn. rewrite Rminus_diag_eq by reflexivity. rewrite Rabs_R0. lra.
  - cbn [zip_with] in H. inversion H; subst. cbn [polyval].
    replace (a0 + X * polyval ar X - (b0 + X * polyval br X)) with ((a0 - b0) + X * (polyval ar X - polyval br X)) by ring.
    eapply Rle_trans; [apply Rabs_triang|]. rewrite Rabs_mult.
    assert (IHs : Rabs (polyval ar X - polyval br X) <= polyval er (Rabs X)) by (apply IH; [assumption|cbn in *; congruence|cbn in *; congruence]).
    assert (Rabs X * Rabs (polyval ar X - polyval br X) <= Rabs X * polyval er (Rabs X)) by (apply Rmult_le_compat_l; [apply Rabs_pos|exact IHs]).
    lra.
Qed.
