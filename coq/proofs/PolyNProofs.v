(* C01 for the dynamic-degree polynomial: Horner with fused multiply-add, any length. *)
From Coq Require Import ZArith Reals Lra Psatz List Bool Arith Lia.
From Flocq Require Import Core BinarySingleNaN.
Require Import PP.FloatModel PP.Expr PP.FloatOps PP.FloatFacts PP.RealOps PP.ErrorBound PP.PolyFacts PP.Model.PwModel PP.Proofs.KernelBounds.
Import ListNotations.
Local Open Scope R_scope.

Fixpoint horner_ne (c : F) (r : list F) (x : F) : F :=
  match r with [] => c | c' :: r' => ffma (horner_ne c' r' x) x c end.

Lemma polyn_eval_horner c r x : polyn_eval fzero ffma (c :: r) x = horner_ne c r x.
Proof.
  unfold polyn_eval. revert c. induction r as [|c' r' IH]; intros c; [reflexivity|].
  specialize (IH c'). cbn [horner_ne]. rewrite <- IH. clear IH.
  replace (rev (c :: c' :: r')) with (rev (c' :: r') ++ [c]) by reflexivity.
  destruct (rev (c' :: r')) as [|first rest] eqn:E.
  - exfalso. apply (f_equal (@length F)) in E. rewrite rev_length in E. discriminate.
  - cbn [app]. rewrite fold_left_app. reflexivity.
Qed.
Lemma polyn_eval_nil x : polyn_eval fzero ffma [] x = fzero.
Proof. reflexivity. Qed.

Fixpoint safe_h (cond : R -> Prop) (c : F) (r : list F) (x : F) : Prop :=
  match r with
  | [] => is_finite c = true
  | c' :: r' => safe_h cond c' r' x /\ is_finite c = true /\ is_finite x = true /\
                cond (B2R (horner_ne c' r' x) * B2R x + B2R c)
  end.

Theorem horner_apriori c r x : safe_h (fun v => nounder v /\ noover v) c r x ->
  is_finite (horner_ne c r x) = true /\
  Rabs (B2R (horner_ne c r x) - polyval (map B2R (c :: r)) (B2R x)) <= th (length r) * polyabs (map B2R (c :: r)) (B2R x) /\
  Rabs (polyval (map B2R (c :: r)) (B2R x)) <= polyabs (map B2R (c :: r)) (B2R x).
Proof.
  revert c. induction r as [|c' r' IH]; intros c Hs.
  - cbn [safe_h] in Hs. cbn [horner_ne length map]. split; [exact Hs|].
    assert (EP : polyval [B2R c] (B2R x) = B2R c) by (cbn; ring).
    assert (EA : polyabs [B2R c] (B2R x) = Rabs (B2R c)) by (unfold polyabs; cbn; ring).
    rewrite EP, EA, th_0, Rminus_diag_eq by reflexivity. rewrite Rabs_R0. split; lra.
  - destruct Hs as (Hs' & Fc & Fx & Hu & Ho). destruct (IH c' Hs') as (F1 & E1 & R1).
    cbn [horner_ne]. destruct (fma_correct _ _ _ F1 Fx Fc Ho) as [Ec Ff]. destruct (rnd_model _ Hu) as (d & Hd & Ed).
    split; [exact Ff|]. rewrite Ec, Ed.
    set (P' := polyval (map B2R (c' :: r')) (B2R x)) in *. set (A' := polyabs (map B2R (c' :: r')) (B2R x)) in *.
    assert (Ex : Rabs (B2R x - B2R x) <= th 0 * Rabs (B2R x)) by (rewrite Rminus_diag_eq by reflexivity; rewrite Rabs_R0, th_0; lra).
    assert (Ecc : Rabs (B2R c - B2R c) <= th 0 * Rabs (B2R c)) by (rewrite Rminus_diag_eq by reflexivity; rewrite Rabs_R0, th_0; lra).
    destruct (step_prod _ _ _ _ _ _ _ _ E1 R1 Ex (Rle_refl _)) as [Hp1 Hp2].
    destruct (step_sum _ _ _ _ _ _ _ _ Hp1 Hp2 Ecc (Rle_refl _)) as [Hs1 Hs2].
    rewrite Nat.add_0_r, Nat.max_0_r in Hs1.
    assert (EP : polyval (map B2R (c :: c' :: r')) (B2R x) = P' * B2R x + B2R c) by (unfold P'; cbn; ring).
    assert (EA : polyabs (map B2R (c :: c' :: r')) (B2R x) = A' * Rabs (B2R x) + Rabs (B2R c)) by (unfold A', polyabs; cbn; ring).
    rewrite EP, EA. cbn [length]. split; [|exact Hs2]. now apply step_round.
Qed.

Theorem horner_exact c r x : safe_h (fun v => generic_format radix2 fexp64 v /\ Rabs v < bpow radix2 emax) c r x ->
  is_finite (horner_ne c r x) = true /\ B2R (horner_ne c r x) = polyval (map B2R (c :: r)) (B2R x).
Proof.
  revert c. induction r as [|c' r' IH]; intros c Hs.
  - cbn in *. split; [exact Hs|ring].
  - destruct Hs as (Hs' & Fc & Fx & G & B). destruct (IH c' Hs') as (F1 & E1).
    cbn [horner_ne]. destruct (exact_noover _ G B) as [Ho Er]. destruct (fma_correct _ _ _ F1 Fx Fc Ho) as [Ec Ff].
    split; [exact Ff|]. rewrite Ec, Er, E1. cbn. ring.
Qed.

(* the form of the property: 4(n+2) 2^-53 sum |c_i||x|^i, for every length up to 2^40 *)
Theorem polyn_bound c r x : INR (length r) <= 1099511627776 ->
  safe_h (fun v => nounder v /\ noover v) c r x ->
  Rabs (B2R (polyn_eval fzero ffma (c :: r) x) - polyval (map B2R (c :: r)) (B2R x))
    <= 4 * (INR (length r) + 2) * u * polyabs (map B2R (c :: r)) (B2R x).
Proof.
  intros Hn Hs. rewrite polyn_eval_horner. destruct (horner_apriori c r x Hs) as (_ & E & R0).
  eapply Rle_trans; [exact E|].
  assert (A0 : 0 <= polyabs (map B2R (c :: r)) (B2R x)) by (eapply Rle_trans; [apply Rabs_pos|exact R0]).
  apply Rmult_le_compat_r; [exact A0|].
  assert (Hu := u_pos). assert (H0 : 0 <= INR (length r)) by apply pos_INR.
  assert (Hl : 2 * INR (length r) * u <= 1) by (rewrite u_val in *; nra).
  eapply Rle_trans; [apply th_lin; exact Hl|]. nra.
Qed.
