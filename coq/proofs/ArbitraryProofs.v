(* C19: whatever the bytes, the Arbitrary pipeline fails with an error or yields a well-formed piecewise function. *)
From Coq Require Import ZArith List Bool Sorted Permutation Lia.
Require Import PP.FloatModel PP.FloatOrder PP.Model.PwModel PP.Model.Extra PP.Proofs.C02Proofs.
Import ListNotations.

Definition leF (a b : F) : Prop := flt b a = false.          (* a <= b on non-NaN floats *)

Lemma normal_ok a : is_normalb a = true -> ok a.
Proof. unfold ok. destruct a; try discriminate; reflexivity. Qed.

Lemma leF_trans a b c : ok a -> ok b -> ok c -> leF a b -> leF b c -> leF a c.
Proof. unfold leF. intros Ha Hb Hc H1 H2. eapply f_nlt_trans with (b := b); eauto. Qed.

Lemma insert_spec x l : ok x -> Forall ok l -> StronglySorted leF l ->
  exists l', insert_f x l = Some l' /\ StronglySorted leF l' /\ Permutation (x :: l) l' /\ Forall ok l'.
Proof.
  intros Hx Hl Hs. induction Hs as [|y r Hr IH Hy].
  - exists [x]. cbn. repeat split; auto; repeat constructor; auto.
  - inversion Hl as [|? ? Hoy Hor]; subst. cbn [insert_f].
    destruct (fcmp_ok x y Hx Hoy) as (c & Ec). rewrite Ec.
    assert (Hins : leF x y -> exists l', Some (x :: y :: r) = Some l' /\ StronglySorted leF l' /\ Permutation (x :: y :: r) l' /\ Forall ok l').
    { intros Hxy. exists (x :: y :: r). split; [reflexivity|]. split; [|split; [apply Permutation_refl|constructor; assumption]].
      constructor; [constructor; assumption|]. constructor; [exact Hxy|].
      rewrite Forall_forall in *. intros z Hz. apply leF_trans with (b := y); auto. }
    destruct c.
    + apply Hins. unfold leF. apply (fcmp_eq _ _ Ec).
    + apply Hins. unfold leF. apply f_lt_trans_asym; auto. now apply fcmp_lt.
    + destruct (IH Hor) as (l' & El & Sl & Pl & Ol). rewrite El. cbn. exists (y :: l').
      split; [reflexivity|]. split; [|split].
      * constructor; [exact Sl|]. apply fcmp_gt in Ec.
        assert (Hyx : leF y x) by (unfold leF; apply f_lt_trans_asym; auto).
        rewrite Forall_forall in *. intros z Hz. apply (Permutation_in _ (Permutation_sym Pl)) in Hz.
        destruct Hz as [->|Hz]; [exact Hyx|now apply Hy].
      * apply perm_trans with (y :: x :: r); [apply perm_swap|now constructor].
      * constructor; assumption.
Qed.

Theorem isort_spec l : Forall ok l ->
  exists s, isort_f l = Some s /\ StronglySorted leF s /\ Permutation l s /\ Forall ok s.
Proof.
  induction 1 as [|x r Hx Hr IH].
  - exists []. cbn. repeat split; auto; constructor.
  - destruct IH as (s & Es & Ss & Ps & Os). cbn [isort_f]. rewrite Es.
    destruct (insert_spec x s Hx Os Ss) as (l' & El & Sl & Pl & Ol).
    exists l'. split; [exact El|]. split; [exact Sl|]. split; [|exact Ol].
    apply perm_trans with (x :: s); [now constructor|exact Pl].
Qed.

Lemma draw_pieces_g_spec {P : Type} (piece : decoder P) ends bs :
  match draw_pieces_g piece ends bs with
  | ArbErr => exists bs', piece bs' = ArbErr
  | ArbPanic => exists bs', piece bs' = ArbPanic
  | ArbOk (l, _) => map fst l = ends /\ Forall (fun s => exists b b', piece b = ArbOk (snd s, b')) l
  end.
Proof.
  revert bs. induction ends as [|e r IH]; intros bs; cbn [draw_pieces_g]; [split; [reflexivity|constructor]|].
  destruct (piece bs) as [| |[p bs']] eqn:Ep; [now exists bs|now exists bs|].
  specialize (IH bs'). destruct (draw_pieces_g piece r bs') as [| |[l bs'']]; [exact IH|exact IH|].
  destruct IH as [IH1 IH2]. split; [cbn; now rewrite IH1|]. constructor; [|exact IH2]. cbn. now exists bs, bs'.
Qed.

(* sortedness in the index form used by C02/C03/C12/C13 *)
Lemma strongly_sorted_ends {P : Type} (segs : list (seg F P)) :
  Forall (fun s => ok (send s)) segs -> StronglySorted leF (map fst segs) -> sorted_ends segs.
Proof.
  intros Hok Hs. remember (map fst segs) as es eqn:E. revert segs Hok E.
  induction Hs as [|e r Hr IH He]; intros segs Hok E i j a b Hij Ha Hb.
  - destruct segs; [destruct i; discriminate|discriminate].
  - destruct segs as [|s0 rest]; [discriminate|]. cbn in E. inversion E; subst e r. inversion Hok; subst.
    destruct i as [|i]; destruct j as [|j]; cbn in Ha, Hb; try lia.
    + inversion Ha; inversion Hb; subst. rewrite f_le_lt by assumption. now rewrite f_lt_irrefl.
    + inversion Ha; subst.
      assert (Hin : In (fst b) (map fst rest)) by (apply in_map; eapply nth_error_In; eauto).
      rewrite Forall_forall in He. specialize (He _ Hin). unfold leF in He.
      assert (ok (send b)) by (rewrite Forall_forall in H2; apply H2; eapply nth_error_In; eauto).
      rewrite f_le_lt by assumption. unfold send. now rewrite He.
    + apply (IH rest H2 eq_refl i j); [lia|assumption|assumption].
Qed.

(* the main statement: for EVERY byte string and EVERY piece decoder *)
Theorem arb_wellformed_g {P : Type} (piece : decoder P) (bs : list Z) :
  match arb_piecewise_g piece bs with
  | ArbErr => True
  | ArbPanic => exists bs', piece bs' = ArbPanic
  | ArbOk (segs, _) => segs <> [] /\ Forall (fun s => is_normalb (fst s) = true) segs /\ sorted_ends segs /\
                  Permutation (map of_bits (fst (get_vec_f64 bs))) (map fst segs) /\
                  Forall (fun s => exists b b', piece b = ArbOk (snd s, b')) segs
  end.
Proof.
  unfold arb_piecewise_g. destruct (get_vec_f64 bs) as [ends rest]. cbn [fst].
  set (fe := map of_bits ends).
  destruct fe as [|e0 fe'] eqn:Efe; [exact I|]. cbn [orb].
  destruct (forallb is_normalb (e0 :: fe')) eqn:En; cbn [negb]; [|exact I].
  assert (Hn : Forall (fun a => is_normalb a = true) (e0 :: fe')) by (apply Forall_forall; rewrite forallb_forall in En; exact En).
  assert (Hok : Forall ok (e0 :: fe')) by (eapply Forall_impl; [|exact Hn]; intros a; apply normal_ok).
  destruct (isort_spec (e0 :: fe') Hok) as (s & Es & Ss & Ps & Os). rewrite Es.
  assert (Hne : s <> []) by (intros ->; apply Permutation_sym, Permutation_nil in Ps; discriminate).
  assert (Hns : Forall (fun a => is_normalb a = true) s).
  { rewrite Forall_forall in *. intros a Ha. apply Hn. apply (Permutation_in _ (Permutation_sym Ps)). exact Ha. }
  assert (D := draw_pieces_g_spec piece s rest).
  destruct (draw_pieces_g piece s rest) as [| |[l r']]; [exact I|exact D|].
  destruct D as [Dl Dp].
  split; [|split; [|split; [|split]]].
  - intros E. subst l. cbn in Dl. congruence.
  - rewrite Forall_forall. intros sg Hin. rewrite Forall_forall in Hns. apply Hns.
    rewrite <- Dl. now apply in_map.
  - apply strongly_sorted_ends.
    + rewrite Forall_forall. intros sg Hin. rewrite Forall_forall in Os. apply Os.
      rewrite <- Dl. now apply in_map.
    + rewrite Dl. exact Ss.
  - rewrite Dl. exact Ps.
  - exact Dp.
Qed.

(* Piecewise<PolyK>: the piece decoder never fails and never panics *)
Theorem arb_wellformed (n : nat) (bs : list Z) :
  match arb_piecewise n bs with
  | ArbErr => True
  | ArbPanic => False
  | ArbOk segs => segs <> [] /\ Forall (fun s => is_normalb (fst s) = true) segs /\ sorted_ends segs /\
                  Permutation (map of_bits (fst (get_vec_f64 bs))) (map fst segs)
  end.
Proof.
  unfold arb_piecewise. assert (W := arb_wellformed_g (poly_piece n) bs).
  destruct (arb_piecewise_g (poly_piece n) bs) as [| |[segs r]]; cbn [drop_rest]; [exact I| |].
  - destruct W as (b & Hb). discriminate.
  - destruct W as (H1 & H2 & H3 & H4 & _). auto.
Qed.

Lemma arb_ok_inv (n : nat) bs segs : arb_piecewise n bs = ArbOk segs -> exists r, arb_piecewise_g (poly_piece n) bs = ArbOk (segs, r).
Proof.
  unfold arb_piecewise. destruct (arb_piecewise_g (poly_piece n) bs) as [| |[s r]]; cbn; try discriminate.
  intros E. inversion E. now exists r.
Qed.

Definition wellformed {P : Type} (segs : list (F * P)) : Prop :=
  segs <> [] /\ Forall (fun s => is_normalb (fst s) = true) segs /\ sorted_ends segs.

(* Piecewise<Piecewise<PolyK>>: an inner failure fails the whole function; a returned value is well-formed at both levels *)
Theorem arb_nested_wellformed (n : nat) (bs : list Z) :
  match arb_nested n bs with
  | ArbErr => True
  | ArbPanic => False
  | ArbOk segs => wellformed segs /\ Forall (fun s => wellformed (snd s)) segs
  end.
Proof.
  unfold arb_nested. assert (W := arb_wellformed_g (arb_piecewise_g (poly_piece n)) bs).
  destruct (arb_piecewise_g (arb_piecewise_g (poly_piece n)) bs) as [| |[segs r]]; cbn [drop_rest]; [exact I| |].
  - destruct W as (b & Hb). assert (W2 := arb_wellformed_g (poly_piece n) b). rewrite Hb in W2.
    destruct W2 as (b2 & Hb2). discriminate.
  - destruct W as (H1 & H2 & H3 & _ & H5). split; [repeat split; assumption|].
    eapply Forall_impl; [|exact H5]. intros sg (b & b' & Hb). cbn beta.
    assert (W2 := arb_wellformed_g (poly_piece n) b). rewrite Hb in W2.
    destruct W2 as (I1 & I2 & I3 & _). repeat split; assumption.
Qed.
