(* C09 / C11, binary64 level, QUARTIC log pieces: the piece returned by the regenerated Segment<Log<Poly4>>::integral (an
   IntOfLogPoly4), evaluated by the regenerated Segment<IntOfLogPoly4>::evaluate at knot.x, for ANY libm.
   Both kernels compute x^ = -(ln_f knot.x) from the same number and run the same window test on it, so the composition is - bit
   for bit - one of two libm-free terms: the series term (window test true) in (end, c0..c4, kx, ky, x^), or the closed-form
   term (window test false) in (end, c0..c4, kx, ky, x^, r^ = 1 (/) x^, E^ = exp_f (1 (/) r^)).  Over the reals either term is
   exactly ky (the constant k is ky minus the very expression the evaluator adds back), so the a-priori analysis bounds the jump
   |F(kx) - ky| by 2*depth*2^-53 times the sum of the magnitudes of the terms, whatever ln_f and exp_f returned. *)
From Coq Require Import List ZArith Reals Lra Lia Bool Arith.
From Flocq Require Import Core BinarySingleNaN.
Require Import PP.FloatModel PP.Expr PP.FloatOps PP.FloatFacts PP.RealOps PP.ErrorBound PP.PolyFacts PP.Gen.Kernels
  PP.Proofs.KernelBounds PP.Proofs.QuarticFloat PP.Proofs.QuarticClosedFloat.
Import ListNotations.
Local Open Scope R_scope.

(* ---- the three abstractions of QuarticFloat / QuarticClosedFloat with the variable indices as parameters ---- *)
Fixpoint abs_nl (n m : nat) (e : expr) : expr :=
  match e with
  | Neg (Ln (Var k)) => if Nat.eqb k n then Var m else e
  | Var _ | Lit _ => e
  | Add a b => Add (abs_nl n m a) (abs_nl n m b) | Sub a b => Sub (abs_nl n m a) (abs_nl n m b)
  | Mul a b => Mul (abs_nl n m a) (abs_nl n m b) | Div a b => Div (abs_nl n m a) (abs_nl n m b)
  | Fma a b c => Fma (abs_nl n m a) (abs_nl n m b) (abs_nl n m c)
  | Neg a => Neg (abs_nl n m a) | Max a b => Max (abs_nl n m a) (abs_nl n m b)
  | Min a b => Min (abs_nl n m a) (abs_nl n m b) | Abs a => Abs (abs_nl n m a)
  | Ln a => Ln (abs_nl n m a) | Exp a => Exp (abs_nl n m a)
  | If c t f => If (babs_nl n m c) (abs_nl n m t) (abs_nl n m f)
  end
with babs_nl (n m : nat) (c : bexpr) : bexpr :=
  match c with
  | Lt a b => Lt (abs_nl n m a) (abs_nl n m b) | Le a b => Le (abs_nl n m a) (abs_nl n m b) | Eqf a b => Eqf (abs_nl n m a) (abs_nl n m b)
  | BAnd c d => BAnd (babs_nl n m c) (babs_nl n m d) | BOr c d => BOr (babs_nl n m c) (babs_nl n m d)
  | BNot c => BNot (babs_nl n m c) | BTrue => BTrue | BFalse => BFalse
  | BAbsDiffEq a b e => BAbsDiffEq (abs_nl n m a) (abs_nl n m b) (abs_nl n m e)
  | BRelEq a b e r => BRelEq (abs_nl n m a) (abs_nl n m b) (abs_nl n m e) (abs_nl n m r)
  end.
Fixpoint abs_rg (n m : nat) (e : expr) : expr :=
  match e with
  | Div (Lit z) (Var k) => if Z.eqb z one_bits && Nat.eqb k n then Var m else e
  | Var _ | Lit _ => e
  | Add a b => Add (abs_rg n m a) (abs_rg n m b) | Sub a b => Sub (abs_rg n m a) (abs_rg n m b)
  | Mul a b => Mul (abs_rg n m a) (abs_rg n m b) | Div a b => Div (abs_rg n m a) (abs_rg n m b)
  | Fma a b c => Fma (abs_rg n m a) (abs_rg n m b) (abs_rg n m c)
  | Neg a => Neg (abs_rg n m a) | Max a b => Max (abs_rg n m a) (abs_rg n m b)
  | Min a b => Min (abs_rg n m a) (abs_rg n m b) | Abs a => Abs (abs_rg n m a)
  | Ln a => Ln (abs_rg n m a) | Exp a => Exp (abs_rg n m a)
  | If c t f => If c (abs_rg n m t) (abs_rg n m f)
  end.
Fixpoint abs_eg (n m : nat) (e : expr) : expr :=
  match e with
  | Exp (Div (Lit z) (Var k)) => if Z.eqb z one_bits && Nat.eqb k n then Var m else e
  | Var _ | Lit _ => e
  | Add a b => Add (abs_eg n m a) (abs_eg n m b) | Sub a b => Sub (abs_eg n m a) (abs_eg n m b)
  | Mul a b => Mul (abs_eg n m a) (abs_eg n m b) | Div a b => Div (abs_eg n m a) (abs_eg n m b)
  | Fma a b c => Fma (abs_eg n m a) (abs_eg n m b) (abs_eg n m c)
  | Neg a => Neg (abs_eg n m a) | Max a b => Max (abs_eg n m a) (abs_eg n m b)
  | Min a b => Min (abs_eg n m a) (abs_eg n m b) | Abs a => Abs (abs_eg n m a)
  | Ln a => Ln (abs_eg n m a) | Exp a => Exp (abs_eg n m a)
  | If c t f => If c (abs_eg n m t) (abs_eg n m f)
  end.

(* inputs: 0 end, 1..5 c0..c4, 6 kx, 7 ky; fresh: 8 x^, 9 r^, 10 E^ *)
Definition e_l4ev : expr := hd (Lit 0) k_Segment_IntOfLogPoly4__evaluate.
Definition e_l4knot : expr := subst (k_Segment_Log_Poly4__integral ++ [Var 6]) e_l4ev.
Definition e_l4knot_x : expr := Eval vm_compute in abs_nl 6 8 e_l4knot.
Definition e_l4knot_xre : expr := Eval vm_compute in abs_eg 9 10 (abs_rg 8 9 e_l4knot_x).
Definition x6_of : expr := Neg (Ln (Var 6)).
Definition r6_of : expr := Div (Lit one_bits) x6_of.
Definition E6_of : expr := Exp (Div (Lit one_bits) r6_of).
Definition sigma8 : list expr := [Var 0; Var 1; Var 2; Var 3; Var 4; Var 5; Var 6; Var 7].
Lemma e_l4knot_subst_x : e_l4knot = subst (sigma8 ++ [x6_of]) e_l4knot_x.
Proof. vm_compute. reflexivity. Qed.
Lemma e_l4knot_subst_xre : e_l4knot = subst (sigma8 ++ [x6_of; r6_of; E6_of]) e_l4knot_xre.
Proof. vm_compute. reflexivity. Qed.

Definition e_l4knot_series : expr := Eval vm_compute in then_of e_l4knot_x.
Definition e_l4knot_closed : expr := Eval vm_compute in else_of e_l4knot_xre.
Lemma e_l4knot_series_supported : supported e_l4knot_series = true.  Proof. vm_compute. reflexivity. Qed.
Lemma e_l4knot_closed_supported : supported e_l4knot_closed = true.  Proof. vm_compute. reflexivity. Qed.

Lemma e_l4knot_series_value e c0 c1 c2 c3 c4 kx ky x : eval ROps [e; c0; c1; c2; c3; c4; kx; ky; x] e_l4knot_series = ky.
Proof. unfold e_l4knot_series. reval. norm_lits. field. Qed.
Lemma e_l4knot_closed_value e c0 c1 c2 c3 c4 kx ky x r E : eval ROps [e; c0; c1; c2; c3; c4; kx; ky; x; r; E] e_l4knot_closed = ky.
Proof. unfold e_l4knot_closed. reval. norm_lits. field. Qed.

Definition window (xh : F) : bool := flt (of_bits 13833752011390226268) xh && flt xh (of_bits 4610425010531724165).

Theorem l4knot_series_float (ln_f exp_f : F -> F) (e c0 c1 c2 c3 c4 kx ky : F) :
  let xh := fneg (ln_f kx) in
  let env := [e; c0; c1; c2; c3; c4; kx; ky; xh] in
  window xh = true ->
  safe env e_l4knot_series ->
  eval (FOpsG ln_f exp_f) (evals (FOpsG ln_f exp_f) [e; c0; c1; c2; c3; c4; kx; ky] k_Segment_Log_Poly4__integral ++ [kx]) e_l4ev
    = fev env e_l4knot_series /\
  Rabs (B2R (fev env e_l4knot_series) - B2R ky) <= 2 * INR (depth e_l4knot_series) * u * absval (map B2R env) e_l4knot_series.
Proof.
  intros xh env Hc Hs. split.
  - change (evals (FOpsG ln_f exp_f) [e; c0; c1; c2; c3; c4; kx; ky] k_Segment_Log_Poly4__integral ++ [kx])
      with (map (eval (FOpsG ln_f exp_f) [e; c0; c1; c2; c3; c4; kx; ky]) (k_Segment_Log_Poly4__integral ++ [Var 6])).
    rewrite <- eval_subst by (vm_compute; reflexivity). fold e_l4knot.
    rewrite e_l4knot_subst_x. rewrite eval_subst by (vm_compute; reflexivity).
    change (map (eval (FOpsG ln_f exp_f) [e; c0; c1; c2; c3; c4; kx; ky]) (sigma8 ++ [x6_of])) with env.
    rewrite (then_of_eval (FOpsG ln_f exp_f) env e_l4knot_x).
    + change (then_of e_l4knot_x) with e_l4knot_series. apply eval_oracle_free. exact e_l4knot_series_supported.
    + unfold window in Hc. unfold e_l4knot_x. cbn [ifs_true]. cbn [beval eval nth FOpsG o_lt o_lit env]. rewrite Hc. reflexivity.
  - assert (Hv : rval env e_l4knot_series = B2R ky) by (unfold rval, env; cbn [map]; apply e_l4knot_series_value).
    rewrite <- Hv. apply eval_apriori_lin; [exact e_l4knot_series_supported|exact Hs|].
    assert (Hd : INR (depth e_l4knot_series) <= 200) by (vm_compute depth; simpl INR; lra).
    assert (Hu := u_pos). rewrite u_val in *. assert (0 <= INR (depth e_l4knot_series)) by apply pos_INR. nra.
Qed.

Theorem l4knot_closed_float (ln_f exp_f : F -> F) (e c0 c1 c2 c3 c4 kx ky : F) :
  let xh := fneg (ln_f kx) in
  let rh := fdiv (of_bits one_bits) xh in
  let Eh := exp_f (fdiv (of_bits one_bits) rh) in
  let env := [e; c0; c1; c2; c3; c4; kx; ky; xh; rh; Eh] in
  window xh = false ->
  safe env e_l4knot_closed ->
  eval (FOpsG ln_f exp_f) (evals (FOpsG ln_f exp_f) [e; c0; c1; c2; c3; c4; kx; ky] k_Segment_Log_Poly4__integral ++ [kx]) e_l4ev
    = fev env e_l4knot_closed /\
  Rabs (B2R (fev env e_l4knot_closed) - B2R ky) <= 2 * INR (depth e_l4knot_closed) * u * absval (map B2R env) e_l4knot_closed.
Proof.
  intros xh rh Eh env Hc Hs. split.
  - change (evals (FOpsG ln_f exp_f) [e; c0; c1; c2; c3; c4; kx; ky] k_Segment_Log_Poly4__integral ++ [kx])
      with (map (eval (FOpsG ln_f exp_f) [e; c0; c1; c2; c3; c4; kx; ky]) (k_Segment_Log_Poly4__integral ++ [Var 6])).
    rewrite <- eval_subst by (vm_compute; reflexivity). fold e_l4knot.
    rewrite e_l4knot_subst_xre. rewrite eval_subst by (vm_compute; reflexivity).
    change (map (eval (FOpsG ln_f exp_f) [e; c0; c1; c2; c3; c4; kx; ky]) (sigma8 ++ [x6_of; r6_of; E6_of])) with env.
    rewrite (else_of_eval (FOpsG ln_f exp_f) env e_l4knot_xre).
    + change (else_of e_l4knot_xre) with e_l4knot_closed. apply eval_oracle_free. exact e_l4knot_closed_supported.
    + unfold window in Hc. unfold e_l4knot_xre. cbn [ifs_false]. cbn [beval eval nth FOpsG o_lt o_lit env]. rewrite Hc. reflexivity.
  - assert (Hv : rval env e_l4knot_closed = B2R ky) by (unfold rval, env; cbn [map]; apply e_l4knot_closed_value).
    rewrite <- Hv. apply eval_apriori_lin; [exact e_l4knot_closed_supported|exact Hs|].
    assert (Hd : INR (depth e_l4knot_closed) <= 200) by (vm_compute depth; simpl INR; lra).
    assert (Hu := u_pos). rewrite u_val in *. assert (0 <= INR (depth e_l4knot_closed)) by apply pos_INR. nra.
Qed.
