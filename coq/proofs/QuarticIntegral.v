(* Log<Poly4>::integral is, syntactically, Log<Poly4>::indefinite with the additive constant shifted by
   knot.y - IntOfLogPoly4::evaluate(indefinite)(knot.x); hence F(knot.x) = knot.y over the reals. *)
From Coq Require Import List ZArith Reals Lra Lia Bool.
Require Import PP.Expr PP.RealOps PP.ErrorBound PP.PolyFacts PP.ExpTail PP.Gen.Kernels PP.Proofs.QuarticForm.
Import ListNotations.
Local Open Scope R_scope.
(* syntactic: integral = indefinite, with the constant shifted by knot.y - evaluate(indefinite)(knot.x) *)
Theorem Log4_integral_shape :
  k_Log_Poly4__integral =
  Add (hd (Lit 0) k_Log_Poly4__indefinite) (Sub (Var 6) (subst (k_Log_Poly4__indefinite ++ [Var 5]) e_Q4)) :: tl k_Log_Poly4__indefinite.
Proof. vm_compute. reflexivity. Qed.
Theorem Log4_knot : forall c0 c1 c2 c3 c4 kx ky : R,
  eval ROps (evals ROps [c0; c1; c2; c3; c4; kx; ky] k_Log_Poly4__integral ++ [kx]) e_Q4 = ky.
Proof.
  intros. rewrite Log4_integral_shape. unfold evals. cbn [map].
  change (eval ROps [c0; c1; c2; c3; c4; kx; ky] (Add (hd (Lit 0) k_Log_Poly4__indefinite) (Sub (Var 6) (subst (k_Log_Poly4__indefinite ++ [Var 5]) e_Q4))))
    with (eval ROps [c0; c1; c2; c3; c4; kx; ky] (hd (Lit 0) k_Log_Poly4__indefinite) + (ky - eval ROps [c0; c1; c2; c3; c4; kx; ky] (subst (k_Log_Poly4__indefinite ++ [Var 5]) e_Q4))).
  rewrite eval_subst by (vm_compute; reflexivity).
  set (ind := map (eval ROps [c0; c1; c2; c3; c4; kx; ky]) (k_Log_Poly4__indefinite ++ [Var 5])).
  set (tlr := map (eval ROps [c0; c1; c2; c3; c4; kx; ky]) (tl k_Log_Poly4__indefinite)).
  (* e_Q4 = v*cr + k: affine in its first input *)
  assert (Aff : forall k k' q1 q2 q3 q4 u v, eval ROps [k; q1; q2; q3; q4; u; v] e_Q4 = k - k' + eval ROps [k'; q1; q2; q3; q4; u; v] e_Q4).
  { intros. unfold e_Q4, k_IntOfLogPoly4__evaluate. cbn [hd]. reval.
    match goal with |- v * ?A + k = _ => generalize A; intros; ring end. }
  unfold ind, tlr, k_Log_Poly4__indefinite. cbn [map app tl hd]. 
  rewrite (Aff _ (eval ROps [c0; c1; c2; c3; c4; kx; ky] (Lit 0))).
  change (eval ROps [c0; c1; c2; c3; c4; kx; ky] (Var 5)) with kx.
  match goal with |- context [eval ROps ?l e_Q4] => generalize (eval ROps l e_Q4) end. intros r. ring.
Qed.
