(* C06: linear() forces breakpoints to be the running maximum of the abscissae. *)
From Coq Require Import List Bool ZArith Lia Reals Lra.
From Flocq Require Import Core BinarySingleNaN.
Require Import PP.FloatModel PP.FloatOrder PP.Model.PwModel.
Import ListNotations.

Section Lin.
Variables (A S1 : Type) (send : S1 -> A) (mx : A -> A -> A) (incr : knot A -> knot A -> S1 * knot A).
Hypothesis H_end : forall p c, send (fst (incr p c)) = mx (fst p) (fst c).
Hypothesis H_prev : forall p c, snd (incr p c) = (mx (fst p) (fst c), snd c).

Fixpoint runmax (m : A) (xs : list A) : list A :=
  match xs with [] => [] | x :: r => let m' := mx m x in m' :: runmax m' r end.

Theorem linear_go_ends prev ks : map send (linear_go incr prev ks) = runmax (fst prev) (map fst ks).
Proof.
  revert prev. induction ks as [|k r IH]; intros prev; cbn; [reflexivity|].
  destruct (incr prev k) as [s prev'] eqn:E. cbn.
  assert (H1 := H_end prev k). assert (H2 := H_prev prev k). rewrite E in H1, H2. cbn in H1, H2.
  rewrite H1. f_equal. rewrite IH, H2. reflexivity.
Qed.
End Lin.

(* f64::max on non-NaN operands is an upper bound of both, and one of them *)
Lemma fmax_ok a b : ok a -> ok b -> ok (fmax a b).
Proof. unfold fmax, ok. intros Ha Hb. rewrite Ha, Hb. destruct (flt a b); assumption. Qed.
Lemma fmax_ge_l a b : ok a -> ok b -> fle a (fmax a b) = true.
Proof.
  unfold fmax, ok. intros Ha Hb. rewrite Ha, Hb. destruct (flt a b) eqn:E.
  - rewrite f_le_lt by assumption. rewrite (f_lt_trans_asym a b); auto.
  - rewrite f_le_lt by assumption. now rewrite f_lt_irrefl.
Qed.
Lemma fmax_ge_r a b : ok a -> ok b -> fle b (fmax a b) = true.
Proof.
  unfold fmax, ok. intros Ha Hb. rewrite Ha, Hb. destruct (flt a b) eqn:E.
  - rewrite f_le_lt by assumption. now rewrite f_lt_irrefl.
  - rewrite f_le_lt by assumption. now rewrite E.
Qed.

(* the running maximum is non-decreasing: every finite (non-NaN) abscissa list gives sorted breakpoints *)
Fixpoint nondecr_from (m : F) (l : list F) : Prop :=
  match l with [] => True | x :: r => fle m x = true /\ nondecr_from x r end.
Theorem runmax_sorted m xs : ok m -> Forall ok xs -> nondecr_from m (runmax F fmax m xs).
Proof.
  intros Hm Hxs. revert m Hm. induction Hxs as [|x r Hx _ IH]; intros m Hm; cbn; [exact I|].
  split; [now apply fmax_ge_l|]. apply IH. now apply fmax_ok.
Qed.
(* and it dominates every abscissa seen so far *)
Theorem runmax_dominates m xs : ok m -> Forall ok xs ->
  Forall2 (fun x e => fle x e = true) xs (runmax F fmax m xs).
Proof.
  intros Hm Hxs. revert m Hm. induction Hxs as [|x r Hx _ IH]; intros m Hm; cbn; [constructor|].
  constructor; [now apply fmax_ge_r|]. apply IH. now apply fmax_ok.
Qed.
