(* C04/C05: the plumbing of constrained_spline: which slopes and knots each cubic is built from. *)
From Coq Require Import List Bool Arith Lia.
Require Import PP.Model.PwModel.
Import ListNotations.
Set Implicit Arguments.

Section Sp.
Variables (A S3 : Type).
Variable f_dx : knot A -> knot A -> knot A -> A.
Variables f_end0 f_endn : A -> A -> A -> A -> A -> A.
Variable segment3 : A -> knot A -> A -> knot A -> S3.

Lemma f_mid_nth (ks : list (knot A)) j k0 k1 k2 :
  nth_error ks j = Some k0 -> nth_error ks (S j) = Some k1 -> nth_error ks (S (S j)) = Some k2 ->
  nth_error (f_mid f_dx ks) j = Some (f_dx k0 k1 k2).
Proof.
  revert ks. induction j as [|j IH]; intros ks H0 H1 H2.
  - destruct ks as [|a [|b [|c r]]]; cbn in *; try discriminate. inversion H0; inversion H1; inversion H2; subst. reflexivity.
  - destruct ks as [|a r]; [discriminate|]. cbn [nth_error] in H0, H1, H2.
    assert (E : nth_error (f_mid f_dx r) j = Some (f_dx k0 k1 k2)) by (apply IH; assumption).
    destruct r as [|b [|c r']].
    + destruct j; discriminate.
    + cbn in H1. destruct j; discriminate.
    + change (f_mid f_dx (a :: b :: c :: r')) with (f_dx a b c :: f_mid f_dx (b :: c :: r')). cbn [nth_error]. exact E.
Qed.

Lemma zip_segments_nth (fs : list A) (ks : list (knot A)) i f0 f1 k0 k1 :
  nth_error fs i = Some f0 -> nth_error fs (S i) = Some f1 ->
  nth_error ks i = Some k0 -> nth_error ks (S i) = Some k1 ->
  nth_error (zip_segments segment3 fs ks) i = Some (segment3 f0 k0 f1 k1).
Proof.
  revert fs ks. induction i as [|i IH]; intros fs ks F0 F1 K0 K1.
  - destruct fs as [|a [|b fr]]; destruct ks as [|c [|d kr]]; cbn in *; try discriminate.
    inversion F0; inversion F1; inversion K0; inversion K1; subst. reflexivity.
  - destruct fs as [|a fr]; [discriminate|]. destruct ks as [|c kr]; [discriminate|]. cbn [nth_error] in F0, F1, K0, K1.
    assert (E := IH fr kr F0 F1 K0 K1).
    destruct fr as [|b fr']; [destruct i; discriminate|]. destruct kr as [|d kr']; [destruct i; discriminate|].
    change (zip_segments segment3 (a :: b :: fr') (c :: d :: kr')) with (segment3 a c b d :: zip_segments segment3 (b :: fr') (d :: kr')).
    cbn [nth_error]. exact E.
Qed.

(* the slope list f_all = f_x0 :: f_mid ++ [f_xn] of a spline over >= 3 knots *)
Definition f_all (ks : list (knot A)) (d : A) : list A :=
  match ks with
  | k0 :: k1 :: _ :: _ =>
      let fm := f_mid f_dx ks in
      let kn := last ks k0 in let km := last (removelast ks) k0 in
      f_end0 (snd k1) (snd k0) (fst k1) (fst k0) (hd (fst k0) fm)
        :: fm ++ [f_endn (snd kn) (snd km) (fst kn) (fst km) (last fm (fst k0))]
  | _ => []
  end.

(* segment i of the result is built from knots i, i+1 and slopes i, i+1 of f_all:
   the two cubics meeting at an interior knot are given the SAME slope there *)
Lemma spline_is_zip (ks : list (knot A)) r d :
  constrained_spline f_dx f_end0 f_endn segment3 ks = Some r -> r = zip_segments segment3 (f_all ks d) ks.
Proof.
  unfold constrained_spline, f_all. destruct ks as [|a [|b [|c rest]]]; try discriminate.
  intros H. injection H as H. symmetry. exact H.
Qed.
Theorem spline_segment_nth (ks : list (knot A)) r i f0 f1 k0 k1 d :
  constrained_spline f_dx f_end0 f_endn segment3 ks = Some r ->
  nth_error (f_all ks d) i = Some f0 -> nth_error (f_all ks d) (S i) = Some f1 ->
  nth_error ks i = Some k0 -> nth_error ks (S i) = Some k1 ->
  nth_error r i = Some (segment3 f0 k0 f1 k1).
Proof.
  intros H F0 F1 K0 K1. rewrite (spline_is_zip ks d H). now apply zip_segments_nth.
Qed.
End Sp.
