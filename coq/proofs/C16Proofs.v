From Coq Require Import List Bool ZArith Lia.
Require Import PP.FloatModel PP.FloatOrder PP.Model.PwModel PP.Proofs.SelectProofs PP.Proofs.C02Proofs
  PP.Proofs.C03Proofs PP.Proofs.EvalVProofs PP.Proofs.BuildersProofs.
Import ListNotations.
Local Open Scope nat_scope.

Section C16.
Variable P : Type.
Notation fseg := (seg F P).

Lemma run_length (front : list fseg) last s xs : length (run flt fle is_nanb front last s xs) = length xs.
Proof. revert s. induction xs as [|x r IH]; intros s; cbn; [reflexivity|]. destruct (step _ _ _ _ _ _ _). cbn. now rewrite IH. Qed.

Theorem evaluator_any (ev : fseg -> F -> F) (segs : list fseg) (xs : list F) :
  segs <> [] -> exists l, evaluator_answers flt fle is_nanb ev segs xs = Some l /\ length l = length xs.
Proof.
  intros Hne. destruct (split_last_some P segs Hne) as (front & last & E). unfold evaluator_answers. rewrite E.
  eexists. split; [reflexivity|]. rewrite map_length, combine_length, run_length. lia.
Qed.

Theorem evaluate_v_any (evp : P -> F -> F) (segs : list fseg) (xs : list F) :
  segs <> [] -> exists l, ev_v_answers flt evp segs xs = Some l /\ length l = length xs.
Proof.
  intros Hne. assert (Hp : 0 < length segs) by (destruct segs; [congruence|cbn; lia]).
  destruct (@ev_v_total F P flt segs Hne xs 0 Hp) as (l & Hl & Hlen).
  unfold ev_v_answers, ev_v. destruct segs; [congruence|]. rewrite Hl. cbn. eexists. split; [reflexivity|].
  now rewrite map_length.
Qed.
End C16.
