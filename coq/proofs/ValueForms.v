(* value-level pointwise laws (C14) for the log forms: Log<P> (value polyval cs (ln v)), IntOfLog<P> (value k + v * polyval cs (ln v),
   the real value of the regenerated evaluator by C09_IntOfLogK_evaluate) and the quartic log-integral form (quartic_closed, the
   real value of IntOfLogPoly4::evaluate by C09_Log4_evaluate_closed / _series). *)
From Coq Require Import Reals Lra List.
Require Import PP.PolyFacts PP.ExpTail.
Import ListNotations.
Local Open Scope R_scope.

Definition log_val (cs : list R) (v : R) : R := polyval cs (ln v).
Definition intoflog_val (k : R) (cs : list R) (v : R) : R := k + v * polyval cs (ln v).

Lemma log_scale cs s v : log_val (map (fun c => c * s) cs) v = s * log_val cs v.
Proof. apply polyval_scale. Qed.
Lemma log_neg cs v : log_val (map Ropp cs) v = - log_val cs v.
Proof. apply polyval_neg. Qed.
Lemma log_add a b v : length a = length b -> log_val (zip_with Rplus a b) v = log_val a v + log_val b v.
Proof. apply polyval_add. Qed.
Lemma log_translate c r x v : log_val ((c + x) :: r) v = log_val (c :: r) v + x.
Proof. apply polyval_translate. Qed.

Lemma intoflog_scale k cs s v : intoflog_val (k * s) (map (fun c => c * s) cs) v = s * intoflog_val k cs v.
Proof. unfold intoflog_val. rewrite polyval_scale. ring. Qed.
Lemma intoflog_neg k cs v : intoflog_val (- k) (map Ropp cs) v = - intoflog_val k cs v.
Proof. unfold intoflog_val. rewrite polyval_neg. ring. Qed.
Lemma intoflog_add k1 k2 a b v : length a = length b ->
  intoflog_val (k1 + k2) (zip_with Rplus a b) v = intoflog_val k1 a v + intoflog_val k2 b v.
Proof. intros H. unfold intoflog_val. rewrite (polyval_add a b _ H). ring. Qed.
(* translate touches the additive constant only *)
Lemma intoflog_translate k cs c v : intoflog_val (k + c) cs v = intoflog_val k cs v + c.
Proof. unfold intoflog_val. ring. Qed.

Lemma quartic_scale k a b c d u s v :
  quartic_closed (k * s) (a * s) (b * s) (c * s) (d * s) (u * s) v = s * quartic_closed k a b c d u v.
Proof. unfold quartic_closed. ring. Qed.
Lemma quartic_neg k a b c d u v : quartic_closed (- k) (- a) (- b) (- c) (- d) (- u) v = - quartic_closed k a b c d u v.
Proof. unfold quartic_closed. ring. Qed.
Lemma quartic_add k a b c d u k' a' b' c' d' u' v :
  quartic_closed (k + k') (a + a') (b + b') (c + c') (d + d') (u + u') v = quartic_closed k a b c d u v + quartic_closed k' a' b' c' d' u' v.
Proof. unfold quartic_closed. ring. Qed.
Lemma quartic_sub k a b c d u k' a' b' c' d' u' v :
  quartic_closed (k - k') (a - a') (b - b') (c - c') (d - d') (u - u') v = quartic_closed k a b c d u v - quartic_closed k' a' b' c' d' u' v.
Proof. unfold quartic_closed. ring. Qed.
Lemma quartic_translate k a b c d u x v : quartic_closed (k + x) a b c d u v = quartic_closed k a b c d u v + x.
Proof. unfold quartic_closed. ring. Qed.
