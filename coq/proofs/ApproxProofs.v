(* scalar facts about the transcribed approx relations on binary64 *)
From Coq Require Import ZArith Reals Lra Bool List.
From Flocq Require Import Core BinarySingleNaN.
Require Import PP.FloatModel PP.FloatOrder PP.FloatOps PP.FloatFacts.
Local Open Scope R_scope.

Lemma finite_zero_value (z : F) : is_finite z = true -> B2R z = 0 -> exists s, z = B754_zero s.
Proof.
  destruct z as [s|s| |s m e B]; intros Fz Hz; try discriminate; [eauto|].
  exfalso. cbn in Hz. apply eq_0_F2R in Hz. destruct s; discriminate.
Qed.

(* the difference of two finite numbers with the same real value is a zero *)
Lemma fsub_same_value a b : is_finite a = true -> is_finite b = true -> B2R a = B2R b ->
  exists s, fsub a b = B754_zero s.
Proof.
  intros Fa Fb E.
  assert (Ho : noover (B2R a - B2R b)).
  { unfold noover. rewrite E, Rminus_diag_eq by reflexivity. unfold rnd. rewrite round_0 by apply valid_rnd_N.
    rewrite Rabs_R0. apply bpow_gt_0. }
  destruct (sub_correct a b Fa Fb Ho) as [Ev Ff].
  apply finite_zero_value; [exact Ff|]. rewrite Ev, E, Rminus_diag_eq by reflexivity. unfold rnd. apply round_0. apply valid_rnd_N.
Qed.

Lemma fle_zero_l s eps : fle fzero eps = true -> fle (B754_zero s) eps = true.
Proof. unfold fle, fzero, Bleb. destruct eps as [s'|s'| |s' m e B]; destruct s; auto. Qed.

(* abs_diff_eq: equal finite numbers are approximately equal for every tolerance >= 0; in particular reflexive *)
Theorem absdiffeq_of_equal a b eps : is_finite a = true -> is_finite b = true -> B2R a = B2R b ->
  fle fzero eps = true -> f_absdiffeq a b eps = true.
Proof.
  intros Fa Fb E He. unfold f_absdiffeq. destruct (fsub_same_value a b Fa Fb E) as (s & ->).
  unfold fabs. cbn [Babs]. now apply fle_zero_l.
Qed.
Theorem absdiffeq_refl a eps : is_finite a = true -> fle fzero eps = true -> f_absdiffeq a a eps = true.
Proof. intros. now apply absdiffeq_of_equal. Qed.

(* relative_eq: == implies it (its first test), so it is reflexive on every non-NaN number, infinities included *)
Theorem releq_of_eq a b eps rel : feq a b = true -> f_releq a b eps rel = true.
Proof. intros H. unfold f_releq. now rewrite H. Qed.
Lemma feq_refl a : is_nanb a = false -> feq a a = true.
Proof.
  unfold feq, Beqb, SpecFloat.SFeqb. intros H.
  assert (E : SpecFloat.SFcompare (B2SF a) (B2SF a) = Some Eq).
  { destruct a as [s|s| |s m e B]; try discriminate; cbn; try (destruct s; reflexivity).
    rewrite Z.compare_refl. destruct s; rewrite Pos.compare_cont_refl; reflexivity. }
  now rewrite E.
Qed.
Theorem releq_refl a eps rel : is_nanb a = false -> f_releq a a eps rel = true.
Proof. intros. apply releq_of_eq. now apply feq_refl. Qed.
(* a NaN is never approximately equal to anything *)
Theorem absdiffeq_nan a b eps : is_nanb a = true \/ is_nanb b = true -> f_absdiffeq a b eps = false.
Proof.
  intros H. unfold f_absdiffeq.
  assert (fsub a b = B754_nan) by (destruct H as [H|H]; destruct a; try discriminate; destruct b; try discriminate; reflexivity).
  rewrite H0. reflexivity.
Qed.

(* ---- symmetry of abs_diff_eq: |a - b| and |b - a| are the same binary64 number ---- *)
Lemma round_NE_opp_64 r : rnd (- r) = - rnd r.
Proof. unfold rnd. apply round_NE_opp. Qed.

Lemma fabs_fsub_sym a b : fabs (fsub a b) = fabs (fsub b a).
Proof.
  unfold fabs, fsub.
  destruct a as [sa|sa| |sa ma ea Ha], b as [sb|sb| |sb mb eb Hb];
    try (destruct sa; destruct sb; reflexivity); try (destruct sa; reflexivity); try (destruct sb; reflexivity); try reflexivity.
  set (x := B754_finite sa ma ea Ha). set (y := B754_finite sb mb eb Hb).
  generalize (Bminus_correct prec emax _ _ mode_NE x y eq_refl eq_refl).
  generalize (Bminus_correct prec emax _ _ mode_NE y x eq_refl eq_refl).
  replace (B2R y - B2R x) with (- (B2R x - B2R y)) by ring.
  change (round radix2 fexp64 (round_mode mode_NE) (- (B2R x - B2R y))) with (rnd (- (B2R x - B2R y))).
  rewrite round_NE_opp_64, Rabs_Ropp. fold (rnd (B2R x - B2R y)).
  destruct (Rlt_bool (Rabs (rnd (B2R x - B2R y))) (bpow radix2 emax)).
  - intros (R1 & F1 & _) (R2 & F2 & _).
    apply B2R_Bsign_inj.
    + destruct (Bminus mode_NE x y); try discriminate; reflexivity.
    + destruct (Bminus mode_NE y x); try discriminate; reflexivity.
    + rewrite !B2R_Babs, R1, R2, Rabs_Ropp. reflexivity.
    + assert (S : forall z : F, is_finite z = true -> Bsign (Babs z) = false) by (intros z; destruct z; try discriminate; reflexivity).
      rewrite (S _ F1), (S _ F2). reflexivity.
  - intros (H1 & _) (H2 & _).
    assert (I1 : exists s, Bminus mode_NE y x = B754_infinity s).
    { destruct (Bminus mode_NE y x) as [s|s| |s m e B]; cbn in H1; unfold binary_overflow in H1; cbn in H1; try discriminate; eauto. }
    assert (I2 : exists s, Bminus mode_NE x y = B754_infinity s).
    { destruct (Bminus mode_NE x y) as [s|s| |s m e B]; cbn in H2; unfold binary_overflow in H2; cbn in H2; try discriminate; eauto. }
    destruct I1 as (s1 & ->). destruct I2 as (s2 & ->). reflexivity.
Qed.

Theorem absdiffeq_sym a b eps : f_absdiffeq a b eps = f_absdiffeq b a eps.
Proof. unfold f_absdiffeq. now rewrite fabs_fsub_sym. Qed.
