(* scalar facts about the transcribed approx relations on binary64 *)
From Coq Require Import ZArith Reals Lra Bool List.
From Flocq Require Import Core BinarySingleNaN.
Require Import PP.FloatModel PP.FloatOrder PP.FloatOps PP.FloatFacts.
Local Open Scope R_scope.

Lemma finite_zero_value (z : F) : is_finite z = true -> B2R z = 0 -> exists s, z = B754_zero s.
Proof.
  destruct z as [s|s| |s m e B]; intros Fz Hz; try discriminate; [eauto|].
  exfalso. cbn in Hz. apply eq_0_F2R in Hz. destruct s; discriminate.
Qed.

(* the difference of two finite numbers with the same real value is a zero *)
Lemma fsub_same_value a b : is_finite a = true -> is_finite b = true -> B2R a = B2R b ->
  exists s, fsub a b = B754_zero s.
Proof.
  intros Fa Fb E.
  assert (Ho : noover (B2R a - B2R b)).
  { unfold noover. rewrite E, Rminus_diag_eq by reflexivity. unfold rnd. rewrite round_0 by apply valid_rnd_N.
    rewrite Rabs_R0. apply bpow_gt_0. }
  destruct (sub_correct a b Fa Fb Ho) as [Ev Ff].
  apply finite_zero_value; [exact Ff|]. rewrite Ev, E, Rminus_diag_eq by reflexivity. unfold rnd. apply round_0. apply valid_rnd_N.
Qed.

Lemma fle_zero_l s eps : fle fzero eps = true -> fle (B754_zero s) eps = true.
Proof. unfold fle, fzero, Bleb. destruct eps as [s'|s'| |s' m e B]; destruct s; auto. Qed.

(* abs_diff_eq: equal finite numbers are approximately equal for every tolerance >= 0; in particular reflexive *)
Theorem absdiffeq_of_equal a b eps : is_finite a = true -> is_finite b = true -> B2R a = B2R b ->
  fle fzero eps = true -> f_absdiffeq a b eps = true.
Proof.
  intros Fa Fb E He. unfold f_absdiffeq. destruct (fsub_same_value a b Fa Fb E) as (s & ->).
  unfold fabs. cbn [Babs]. now apply fle_zero_l.
Qed.
Theorem absdiffeq_refl a eps : is_finite a = true -> fle fzero eps = true -> f_absdiffeq a a eps = true.
Proof. intros. now apply absdiffeq_of_equal. Qed.

(* relative_eq: == implies it (its first test), so it is reflexive on every non-NaN number, infinities included *)
Theorem releq_of_eq a b eps rel : feq a b = true -> f_releq a b eps rel = true.
Proof. intros H. unfold f_releq. now rewrite H. Qed.
Lemma feq_refl a : is_nanb a = false -> feq a a = true.
Proof.
  unfold feq, Beqb, SpecFloat.SFeqb. intros H.
  assert (E : SpecFloat.SFcompare (B2SF a) (B2SF a) = Some Eq).
  { destruct a as [s|s| |s m e B]; try discriminate; cbn; try (destruct s; reflexivity).
    rewrite Z.compare_refl. destruct s; rewrite Pos.compare_cont_refl; reflexivity. }
  now rewrite E.
Qed.
Theorem releq_refl a eps rel : is_nanb a = false -> f_releq a a eps rel = true.
Proof. intros. apply releq_of_eq. now apply feq_refl. Qed.
(* a NaN is never approximately equal to anything *)
Theorem absdiffeq_nan a b eps : is_nanb a = true \/ is_nanb b = true -> f_absdiffeq a b eps = false.
Proof.
  intros H. unfold f_absdiffeq.
  assert (fsub a b = B754_nan) by (destruct H as [H|H]; destruct a; try discriminate; destruct b; try discriminate; reflexivity).
  rewrite H0. reflexivity.
Qed.

(* ---- symmetry of abs_diff_eq: |a - b| and |b - a| are the same binary64 number ---- *)
Lemma round_NE_opp_64 r : rnd (- r) = - rnd r.
Proof. unfold rnd. apply round_NE_opp. Qed.

Lemma fabs_fsub_sym a b : fabs (fsub a b) = fabs (fsub b a).
Proof.
  unfold fabs, fsub.
  destruct a as [sa|sa| |sa ma ea Ha], b as [sb|sb| |sb mb eb Hb];
    try (destruct sa; destruct sb; reflexivity); try (destruct sa; reflexivity); try (destruct sb; reflexivity); try reflexivity.
  set (x := B754_finite sa ma ea Ha). set (y := B754_finite sb mb eb Hb).
  generalize (Bminus_correct prec emax _ _ mode_NE x y eq_refl eq_refl).
  generalize (Bminus_correct prec emax _ _ mode_NE y x eq_refl eq_refl).
  replace (B2R y - B2R x) with (- (B2R x - B2R y)) by ring.
  change (round radix2 fexp64 (round_mode mode_NE) (- (B2R x - B2R y))) with (rnd (- (B2R x - B2R y))).
  rewrite round_NE_opp_64, Rabs_Ropp. fold (rnd (B2R x - B2R y)).
  destruct (Rlt_bool (Rabs (rnd (B2R x - B2R y))) (bpow radix2 emax)).
  - intros (R1 & F1 & _) (R2 & F2 & _).
    apply B2R_Bsign_inj.
    + destruct (Bminus mode_NE x y); try discriminate; reflexivity.
    + destruct (Bminus mode_NE y x); try discriminate; reflexivity.
    + rewrite !B2R_Babs, R1, R2, Rabs_Ropp. reflexivity.
    + assert (S : forall z : F, is_finite z = true -> Bsign (Babs z) = false) by (intros z; destruct z; try discriminate; reflexivity).
      rewrite (S _ F1), (S _ F2). reflexivity.
  - intros (H1 & _) (H2 & _).
    assert (I1 : exists s, Bminus mode_NE y x = B754_infinity s).
    { destruct (Bminus mode_NE y x) as [s|s| |s m e B]; cbn in H1; unfold binary_overflow in H1; cbn in H1; try discriminate; eauto. }
    assert (I2 : exists s, Bminus mode_NE x y = B754_infinity s).
    { destruct (Bminus mode_NE x y) as [s|s| |s m e B]; cbn in H2; unfold binary_overflow in H2; cbn in H2; try discriminate; eauto. }
    destruct I1 as (s1 & ->). destruct I2 as (s2 & ->). reflexivity.
Qed.

Theorem absdiffeq_sym a b eps : f_absdiffeq a b eps = f_absdiffeq b a eps.
Proof. unfold f_absdiffeq. now rewrite fabs_fsub_sym. Qed.

(* ---- symmetry of the scalar relative_eq ---- *)
Lemma feq_sym a b : feq a b = feq b a.
Proof.
  unfold feq, Beqb, SpecFloat.SFeqb.
  change (SpecFloat.SFcompare (B2SF a) (B2SF b)) with (fcmp a b). change (SpecFloat.SFcompare (B2SF b) (B2SF a)) with (fcmp b a).
  rewrite (fcmp_swap a b). destruct (fcmp a b) as [[| |]|]; reflexivity.
Qed.

(* two non-negative (or NaN-free absolute) values that compare equal are the same float *)
Lemma fabs_cmp_eq a b : fcmp (fabs a) (fabs b) = Some Eq -> fabs a = fabs b.
Proof.
  unfold fcmp, fabs.
  destruct a as [sa|sa| |sa ma ea Ha], b as [sb|sb| |sb mb eb Hb];
    try (cbn; intros H; (discriminate H || reflexivity)).
  change (Babs (B754_finite sa ma ea Ha)) with (B754_finite false ma ea Ha).
  change (Babs (B754_finite sb mb eb Hb)) with (B754_finite false mb eb Hb).
  intros H. rewrite Bcompare_correct in H by reflexivity. inversion H as [E].
  apply Rcompare_Eq_inv in E. apply B2R_inj; [reflexivity|reflexivity|exact E].
Qed.

Lemma largest_sym a b : is_nanb a = false -> is_nanb b = false ->
  (if flt (fabs a) (fabs b) then fabs b else fabs a) = (if flt (fabs b) (fabs a) then fabs a else fabs b).
Proof.
  intros Na Nb.
  assert (Oa : ok (fabs a)) by (unfold ok; destruct a; try discriminate; reflexivity).
  assert (Ob : ok (fabs b)) by (unfold ok; destruct b; try discriminate; reflexivity).
  destruct (fcmp_ok _ _ Oa Ob) as (c & Hc). destruct c.
  - destruct (fcmp_eq _ _ Hc) as [L1 L2]. rewrite L1, L2. now apply fabs_cmp_eq.
  - assert (L := fcmp_lt _ _ Hc). rewrite L. now rewrite (f_lt_trans_asym _ _ Oa Ob L).
  - assert (L := fcmp_gt _ _ Hc). rewrite L. now rewrite (f_lt_trans_asym _ _ Ob Oa L).
Qed.

Lemma fsub_nan_l b : fsub fnan b = fnan.  Proof. destruct b; reflexivity. Qed.
Lemma fsub_nan_r a : fsub a fnan = fnan.  Proof. destruct a; reflexivity. Qed.

Theorem releq_sym a b eps rel : f_releq a b eps rel = f_releq b a eps rel.
Proof.
  unfold f_releq. rewrite (feq_sym b a), (orb_comm (is_infb b)), (fabs_fsub_sym b a).
  destruct (feq a b); [reflexivity|]. destruct (is_infb a || is_infb b); [reflexivity|].
  destruct (is_nanb a) eqn:Na.
  - destruct a; try discriminate. rewrite fsub_nan_l. cbn [fabs Babs].
    assert (N : forall z, fle fnan z = false) by (intros z; apply f_nan_cmp; now left). change B754_nan with fnan. now rewrite !N.
  - destruct (is_nanb b) eqn:Nb.
    + destruct b; try discriminate. rewrite fsub_nan_r. cbn [fabs Babs].
      assert (N : forall z, fle fnan z = false) by (intros z; apply f_nan_cmp; now left). change B754_nan with fnan. now rewrite !N.
    + now rewrite (largest_sym a b Na Nb).
Qed.
