(* Terms of the constrained-spline construction used by the binary64 theorems of C04/C05 and by the hypothesis-coverage run:
   coef_e i = i-th output of the regenerated spline::segment (0 = end, 1..4 = a,b,c,d); interior_e i = the same coefficient of the
   cubic between knots 1 and 2 of FOUR consecutive knots (x0,y0)..(x3,y3) = Var 0..7, with both knot slopes substituted by the
   regenerated f_dx: segment(f_dx(k0,k1,k2), k1, f_dx(k1,k2,k3), k2) as ONE term. *)
From Coq Require Import List ZArith.
Require Import PP.Expr PP.ErrorBound PP.Gen.Kernels.
Import ListNotations.

Definition coef_e (i : nat) : expr := nth i k_spline__segment (Lit 0).
Definition e_fdx : expr := hd (Lit 0) k_spline__f_dx.
Definition fdx_b : expr := subst [Var 2; Var 3; Var 4; Var 5; Var 6; Var 7] e_fdx.
Definition interior_e (i : nat) : expr := subst [e_fdx; Var 2; Var 3; fdx_b; Var 4; Var 5] (coef_e i).

(* the two END cubics, from three knots (x0,y0),(x1,y1),(x2,y2) = Var 0..5:
   first:  segment(f_x0(y1,y0,x1,x0, f_dx(k0,k1,k2)), k0, f_dx(k0,k1,k2), k1)
   last :  segment(f_dx(k0,k1,k2), k1, f_xn(y2,y1,x2,x1, f_dx(k0,k1,k2)), k2)      (k0,k1,k2 the LAST three knots) *)
Definition e_fx0 : expr := hd (Lit 0) k_spline__f_x0.
Definition e_fxn : expr := hd (Lit 0) k_spline__f_xn.
Definition fx0_c : expr := subst [Var 3; Var 1; Var 2; Var 0; e_fdx] e_fx0.
Definition fxn_c : expr := subst [Var 5; Var 3; Var 4; Var 2; e_fdx] e_fxn.
Definition first_e (i : nat) : expr := subst [fx0_c; Var 0; Var 1; e_fdx; Var 2; Var 3] (coef_e i).
Definition last_e (i : nat) : expr := subst [e_fdx; Var 2; Var 3; fxn_c; Var 4; Var 5] (coef_e i).
