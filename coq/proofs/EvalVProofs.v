(* C12: evaluate_v uses, for each argument, the segment direct evaluation selects at the running
   maximum of the arguments seen so far; for non-decreasing arguments that is pointwise evaluation. *)
From Coq Require Import List Bool Arith Lia.
Require Import PP.Model.PwModel PP.Proofs.SelectProofs.
Import ListNotations.
Set Implicit Arguments.

Section EvV.
Variables (A P : Type) (lt : A -> A -> bool) (ok : A -> Prop).
Hypothesis lt_trans : forall a b c, ok a -> ok b -> ok c -> lt a b = true -> lt b c = true -> lt a c = true.
Hypothesis nlt_trans : forall a b c, ok a -> ok b -> ok c -> lt a b = false -> lt b c = false -> lt a c = false.
Hypothesis lt_irrefl : forall a, ok a -> lt a a = false.

Notation seg := (seg A P).
Notation select := (@PwModel.select A P lt).
Notation hit := (fun x => fun s : seg => lt x (send s)).

Definition allok (l : list seg) := Forall (fun s : seg => ok (send s)) l.
(* non-decreasing ends: no later end is strictly below an earlier one *)
Definition sorted (l : list seg) :=
  forall i j a b, i <= j -> nth_error l i = Some a -> nth_error l j = Some b -> lt (send b) (send a) = false.

Definition idx (segs : list seg) (x : A) : nat :=
  match find_index (hit x) segs with Some i => i | None => length segs - 1 end.

Lemma find_index_spec (p : seg -> bool) l :
  match find_index p l with
  | Some i => (exists a, nth_error l i = Some a /\ p a = true) /\
              (forall j a, j < i -> nth_error l j = Some a -> p a = false)
  | None => forall j a, nth_error l j = Some a -> p a = false
  end.
Proof.
  induction l as [|b r IH]; cbn.
  - intros j a H. destruct j; discriminate.
  - destruct (p b) eqn:Pb.
    + split; [exists b; auto|]. intros j a Hj. lia.
    + destruct (find_index p r) as [i|]; cbn.
      * destruct IH as [(a & Ha & Pa) Hlt]. split; [exists a; auto|].
        intros j c Hj Hc. destruct j as [|j]; cbn in Hc; [inversion Hc; subst; exact Pb|]. apply (Hlt j); [lia|exact Hc].
      * intros j a Ha. destruct j as [|j]; cbn in Ha; [inversion Ha; subst; exact Pb|]. eapply IH; eauto.
Qed.

Lemma nth_error_skipn (l : list seg) n j : nth_error (skipn n l) j = nth_error l (n + j).
Proof. revert l. induction n as [|n IH]; intros l; [reflexivity|]. destruct l; [destruct j; reflexivity|]. cbn. apply IH. Qed.

Lemma idx_lt segs x : segs <> [] -> idx segs x < length segs.
Proof.
  intros Hne. unfold idx. generalize (find_index_spec (hit x) segs).
  destruct (find_index (hit x) segs) as [i|].
  - intros [(a & Ha & _) _]. apply nth_error_Some. congruence.
  - intros _. destruct segs; [congruence|]. cbn. lia.
Qed.

Lemma idx_select segs x : segs <> [] -> select segs x = nth_error segs (idx segs x).
Proof.
  intros Hne. rewrite select_idx_spec. unfold select_idx, idx.
  destruct (find_index (hit x) segs); [reflexivity|]. destruct segs; [congruence|reflexivity].
Qed.

(* equivalence of arguments (neither below the other) gives the same hits *)
Lemma hit_equiv x y e : ok x -> ok y -> ok e -> lt x y = false -> lt y x = false -> lt x e = lt y e.
Proof.
  intros Hx Hy He Hxy Hyx. destruct (lt y e) eqn:E.
  - destruct (lt x e) eqn:E2; [reflexivity|]. rewrite <- E. symmetry. eapply nlt_trans with (b := x); eauto.
  - eapply nlt_trans with (b := y); eauto.
Qed.
(* x <= y and y hits e  ==>  x hits e *)
Lemma hit_mono x y e : ok x -> ok y -> ok e -> lt y x = false -> lt y e = true -> lt x e = true.
Proof.
  intros Hx Hy He Hyx Hye. destruct (lt x e) eqn:E; [reflexivity|].
  rewrite <- Hye. symmetry. eapply nlt_trans with (b := x); eauto.
Qed.

Lemma allok_nth segs i a : allok segs -> nth_error segs i = Some a -> ok (send a).
Proof. intros H Hn. unfold allok in H. rewrite Forall_forall in H. apply H. eapply nth_error_In; eauto. Qed.

(* one step of evaluate_v: the cursor becomes max(prev, idx x) *)
Lemma step_idx segs prev x :
  segs <> [] -> allok segs -> sorted segs -> ok x -> prev < length segs ->
  exists s, ev_v_step lt segs prev x = Some (Nat.max prev (idx segs x), s) /\
            nth_error segs (Nat.max prev (idx segs x)) = Some s.
Proof.
  intros Hne Hok Hs Hx Hp.
  assert (Hi := idx_lt x Hne).
  unfold ev_v_step.
  assert (Hgoal : match find_index (hit x) (skipn prev segs) with Some i => i + prev | None => length segs - 1 end
                  = Nat.max prev (idx segs x)).
  { generalize (find_index_spec (hit x) (skipn prev segs)).
    generalize (find_index_spec (hit x) segs). unfold idx in *.
    destruct (find_index (hit x) (skipn prev segs)) as [i|] eqn:Ei;
    destruct (find_index (hit x) segs) as [j|] eqn:Ej.
    - intros [(b & Hb & Pb) Hlj] [(a & Ha & Pa) Hli]. rewrite nth_error_skipn in Ha.
      destruct (Nat.le_gt_cases prev j) as [Hpj|Hpj].
      + (* j >= prev : j is the first hit at or after prev *)
        assert (j <= prev + i).
        { destruct (Nat.le_gt_cases j (prev + i)); [assumption|]. rewrite (Hlj (prev + i) a) in Pa; [discriminate|lia|exact Ha]. }
        assert (prev + i <= j).
        { destruct (Nat.le_gt_cases (prev + i) j); [assumption|].
          assert (Hq : nth_error (skipn prev segs) (j - prev) = Some b) by (rewrite nth_error_skipn; replace (prev + (j - prev)) with j by lia; exact Hb).
          rewrite (Hli (j - prev) b) in Pb; [discriminate|lia|exact Hq]. }
        lia.
      + (* j < prev : sortedness makes prev itself a hit *)
        destruct (nth_error segs prev) as [c|] eqn:Ec; [|apply nth_error_None in Ec; lia].
        assert (Hc : lt x (send c) = true).
        { assert (Hbc : lt (send c) (send b) = false) by (apply (Hs j prev b c); [lia|assumption|assumption]).
          destruct (lt x (send c)) eqn:E; [reflexivity|].
          rewrite <- Pb. symmetry. eapply nlt_trans with (b := send c); eauto using allok_nth. }
        assert (i = 0).
        { destruct i as [|i]; [reflexivity|]. assert (Hq : nth_error (skipn prev segs) 0 = Some c) by (rewrite nth_error_skipn, Nat.add_0_r; exact Ec).
          rewrite (Hli 0 c) in Hc; [discriminate|lia|exact Hq]. }
        lia.
    - intros Hnone [(a & Ha & Pa) _]. rewrite nth_error_skipn in Ha. rewrite (Hnone _ _ Ha) in Pa. discriminate.
    - intros [(b & Hb & Pb) Hlj] Hnone.
      destruct (Nat.le_gt_cases prev j) as [Hpj|Hpj].
      + assert (Hq : nth_error (skipn prev segs) (j - prev) = Some b) by (rewrite nth_error_skipn; replace (prev + (j - prev)) with j by lia; exact Hb).
        rewrite (Hnone _ _ Hq) in Pb. discriminate.
      + destruct (nth_error segs prev) as [c|] eqn:Ec; [|apply nth_error_None in Ec; lia].
        assert (Hc : lt x (send c) = true).
        { assert (Hbc : lt (send c) (send b) = false) by (apply (Hs j prev b c); [lia|assumption|assumption]).
          destruct (lt x (send c)) eqn:E; [reflexivity|].
          rewrite <- Pb. symmetry. eapply nlt_trans with (b := send c); eauto using allok_nth. }
        assert (Hq : nth_error (skipn prev segs) 0 = Some c) by (rewrite nth_error_skipn, Nat.add_0_r; exact Ec).
        rewrite (Hnone _ _ Hq) in Hc. discriminate.
    - intros _ _. lia. }
  rewrite Hgoal.
  destruct (nth_error segs (Nat.max prev (idx segs x))) as [s|] eqn:En.
  - exists s. split; reflexivity.
  - apply nth_error_None in En. lia.
Qed.

(* cursor positions: running maximum of the selection indices *)
Fixpoint scan (prev : nat) (is : list nat) : list nat :=
  match is with [] => [] | i :: r => let p := Nat.max prev i in p :: scan p r end.

Theorem run_idx segs : segs <> [] -> allok segs -> sorted segs ->
  forall xs prev, Forall ok xs -> prev < length segs ->
  exists l, ev_v_run lt segs prev xs = Some l /\ map fst l = xs /\
            map (fun p => Some (snd p)) l = map (nth_error segs) (scan prev (map (idx segs) xs)).
Proof.
  intros Hne Hok Hs. induction xs as [|x r IH]; intros prev Hxs Hp.
  - exists []. cbn. auto.
  - inversion Hxs as [|? ? Hx Hr]; subst.
    destruct (step_idx Hne Hok Hs Hx Hp) as (s & Hstep & Hnth). cbn [ev_v_run]. rewrite Hstep.
    assert (Hp' : Nat.max prev (idx segs x) < length segs) by (assert (Hi := idx_lt x Hne); lia).
    destruct (IH (Nat.max prev (idx segs x)) Hr Hp') as (l & Hl & Hf & Hm).
    rewrite Hl. exists ((x, s) :: l). cbn. split; [reflexivity|]. split; [now rewrite Hf|]. now rewrite Hm, Hnth.
Qed.

(* ---- from indices to the running maximum of the arguments ---- *)
Definition rmax (m x : A) : A := if lt m x then x else m.
Fixpoint pmax (m : A) (xs : list A) : list A :=
  match xs with [] => [] | x :: r => let m' := rmax m x in m' :: pmax m' r end.
Definition prefix_max (xs : list A) : list A :=
  match xs with [] => [] | x :: r => x :: pmax x r end.

Lemma idx_mono segs x y : segs <> [] -> allok segs -> ok x -> ok y -> lt y x = false -> idx segs x <= idx segs y.
Proof.
  intros Hne Hok Hx Hy Hyx. assert (Hiy := idx_lt y Hne). unfold idx in *.
  generalize (find_index_spec (hit y) segs). generalize (find_index_spec (hit x) segs).
  destruct (find_index (hit x) segs) as [i|]; destruct (find_index (hit y) segs) as [j|]; try lia.
  - intros [_ Hli] [(b & Hb & Pb) _].
    destruct (Nat.le_gt_cases i j); [assumption|].
    assert (lt x (send b) = true) by (eapply hit_mono with (y := y); eauto using allok_nth).
    rewrite (Hli j b) in H0; [discriminate|lia|exact Hb].
  - intros [(a & Ha & _) _] _. assert (i < length segs) by (apply nth_error_Some; congruence). lia.
  - intros Hnone [(b & Hb & Pb) _].
    assert (lt x (send b) = true) by (eapply hit_mono with (y := y); eauto using allok_nth).
    rewrite (Hnone j b Hb) in H. discriminate.
Qed.

Lemma idx_rmax segs m x : segs <> [] -> allok segs -> ok m -> ok x ->
  Nat.max (idx segs m) (idx segs x) = idx segs (rmax m x).
Proof.
  intros Hne Hok Hm Hx. unfold rmax. destruct (lt m x) eqn:E.
  - assert (lt x m = false).
    { destruct (lt x m) eqn:E2; [|reflexivity]. rewrite <- (lt_irrefl Hm). symmetry. eapply lt_trans; eauto. }
    assert (idx segs m <= idx segs x) by (apply idx_mono; auto). lia.
  - assert (idx segs x <= idx segs m) by (apply idx_mono; auto). lia.
Qed.
Lemma rmax_ok m x : ok m -> ok x -> ok (rmax m x).
Proof. intros. unfold rmax. destruct (lt m x); assumption. Qed.

Lemma scan_pmax segs m xs : segs <> [] -> allok segs -> ok m -> Forall ok xs ->
  scan (idx segs m) (map (idx segs) xs) = map (idx segs) (pmax m xs).
Proof.
  intros Hne Hok. revert m. induction xs as [|x r IH]; intros m Hm Hxs; [reflexivity|].
  inversion Hxs; subst. cbn. rewrite idx_rmax by assumption. f_equal. apply IH; [apply rmax_ok; assumption|assumption].
Qed.
Lemma scan0 segs xs : segs <> [] -> allok segs -> Forall ok xs ->
  scan 0 (map (idx segs) xs) = map (idx segs) (prefix_max xs).
Proof.
  intros Hne Hok Hxs. destruct xs as [|x r]; [reflexivity|]. inversion Hxs; subst. cbn.
  f_equal. apply scan_pmax; assumption.
Qed.

(* evaluate_v on ANY non-NaN sequence: argument k is evaluated with the segment that direct
   evaluation selects at the running maximum of x_0..x_k *)
Theorem ev_v_runmax segs xs : segs <> [] -> allok segs -> sorted segs -> Forall ok xs ->
  exists l, ev_v lt segs xs = Some l /\ map fst l = xs /\
            map (fun p => Some (snd p)) l = map (select segs) (prefix_max xs).
Proof.
  intros Hne Hok Hs Hxs.
  assert (Hp : 0 < length segs) by (destruct segs; [congruence|cbn; lia]).
  destruct (run_idx Hne Hok Hs Hxs Hp) as (l & Hl & Hf & Hm).
  exists l. split; [unfold ev_v; destruct segs; [congruence|exact Hl]|]. split; [exact Hf|].
  rewrite Hm, scan0 by assumption. rewrite map_map. apply map_ext. intros a. symmetry. now apply idx_select.
Qed.

(* non-decreasing arguments: the running maximum is equivalent to the argument itself *)
Fixpoint nondecr (xs : list A) : Prop :=
  match xs with
  | [] => True
  | x :: r => match r with [] => True | y :: _ => lt y x = false end /\ nondecr r
  end.

Lemma select_equiv segs x y : allok segs -> ok x -> ok y -> lt x y = false -> lt y x = false ->
  select segs x = select segs y.
Proof.
  intros Hok Hx Hy H1 H2. unfold PwModel.select.
  assert (E : forall l, allok l -> find (hit x) l = find (hit y) l).
  { induction l as [|a r IH]; intros Hl; [reflexivity|]. inversion Hl; subst. cbn.
    rewrite (@hit_equiv x y (send a)) by assumption. destruct (lt y (send a)); [reflexivity|]. now apply IH. }
  now rewrite E.
Qed.

Lemma pmax_nondecr segs m x r : allok segs -> ok m -> Forall ok (x :: r) -> nondecr (x :: r) ->
  lt x m = false -> lt m x = false \/ lt m x = true ->
  map (select segs) (pmax m (x :: r)) = map (select segs) (x :: r).
Proof.
  intros Hok. revert m x. induction r as [|y r IH]; intros m x Hm Hxs Hnd Hxm _.
  - cbn. f_equal. inversion Hxs; subst. unfold rmax. destruct (lt m x) eqn:E; [reflexivity|]. now apply select_equiv.
  - inversion Hxs as [|? ? Hx Hr]; subst. destruct Hnd as [Hyx Hnd].
    cbn [pmax map]. f_equal.
    + unfold rmax. destruct (lt m x) eqn:E; [reflexivity|]. now apply select_equiv.
    + apply IH; auto.
      * apply rmax_ok; assumption.
      * (* y >= rmax m x *)
        inversion Hr; subst. unfold rmax. destruct (lt m x) eqn:E; [exact Hyx|].
        eapply nlt_trans with (b := x); eauto.
      * destruct (lt (rmax m x) y); auto.
Qed.

Theorem ev_v_sorted segs xs : segs <> [] -> allok segs -> sorted segs -> Forall ok xs -> nondecr xs ->
  exists l, ev_v lt segs xs = Some l /\ map fst l = xs /\
            map (fun p => Some (snd p)) l = map (select segs) xs.
Proof.
  intros Hne Hok Hs Hxs Hnd. destruct (ev_v_runmax Hne Hok Hs Hxs) as (l & Hl & Hf & Hm).
  exists l. split; [exact Hl|]. split; [exact Hf|]. rewrite Hm.
  destruct xs as [|x r]; [reflexivity|]. cbn [prefix_max map]. f_equal.
  destruct r as [|y r]; [reflexivity|].
  inversion Hxs as [|? ? Hx Hr]; subst. destruct Hnd as [Hyx Hnd].
  apply pmax_nondecr; auto. destruct (lt x y); auto.
Qed.

(* evaluate_v never indexes out of bounds: any ends, any arguments (NaN included) *)
Theorem ev_v_total (segs : list seg) : segs <> [] -> forall xs prev, prev < length segs ->
  exists l, ev_v_run lt segs prev xs = Some l /\ length l = length xs.
Proof.
  intros Hne. induction xs as [|x r IH]; intros prev Hp; [exists []; auto|].
  cbn [ev_v_run]. unfold ev_v_step.
  set (prev' := match find_index (hit x) (skipn prev segs) with Some i => i + prev | None => length segs - 1 end).
  assert (Hp' : prev' < length segs).
  { unfold prev'. generalize (find_index_spec (hit x) (skipn prev segs)).
    destruct (find_index (hit x) (skipn prev segs)) as [i|].
    - intros [(a & Ha & _) _]. rewrite nth_error_skipn in Ha.
      assert (prev + i < length segs) by (apply nth_error_Some; congruence). lia.
    - intros _. destruct segs; [congruence|cbn; lia]. }
  destruct (nth_error segs prev') as [s|] eqn:En; [|apply nth_error_None in En; lia].
  destruct (IH prev' Hp') as (l & Hl & Hlen). rewrite Hl. exists ((x, s) :: l). cbn. auto.
Qed.
End EvV.
