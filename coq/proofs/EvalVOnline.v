(* C12, "lazily, in order": the k-th value evaluate_v yields depends on the first k+1 arguments only.  In the model: the answers to
   xs ++ ys are the answers to xs followed by further values, for every xs and ys - so a consumer that stops after k values has
   observed exactly what it would have observed had the input ended there.  (That the Rust iterator also PULLS no more than k+1
   inputs is an operational fact about the iterator adaptor, observed by the pull-counting test.) *)
From Coq Require Import List Bool ZArith Lia.
Require Import PP.FloatModel PP.FloatOrder PP.Model.PwModel.
Import ListNotations.
Local Open Scope nat_scope.

Section Online.
Variables A P : Type.
Variable lt : A -> A -> bool.
Notation fseg := (seg A P).

Lemma ev_v_run_app (segs : list fseg) (xs ys : list A) : forall (p : nat) (l : list (A * fseg)),
  ev_v_run lt segs p (xs ++ ys) = Some l ->
  exists l1 l2, ev_v_run lt segs p xs = Some l1 /\ l = l1 ++ l2 /\ length l1 = length xs.
Proof.
  induction xs as [|x r IH]; intros p l H.
  - exists [], l. cbn. auto.
  - cbn [app ev_v_run] in *. destruct (ev_v_step lt segs p x) as [[p' s]|]; [|discriminate].
    destruct (ev_v_run lt segs p' (r ++ ys)) as [l'|] eqn:E; [|discriminate].
    cbn in H. injection H as <-.
    destruct (IH p' l' E) as (l1 & l2 & H1 & -> & Hl).
    exists ((x, s) :: l1), l2. rewrite H1. cbn. repeat split; auto.
Qed.

Theorem ev_v_online (R : Type) (evp : P -> A -> R) (segs : list fseg) (xs ys : list A) (l : list R) :
  ev_v_answers lt evp segs (xs ++ ys) = Some l ->
  exists l1 l2, ev_v_answers lt evp segs xs = Some l1 /\ l = l1 ++ l2 /\ length l1 = length xs.
Proof.
  unfold ev_v_answers, ev_v. destruct segs as [|s0 r]; [discriminate|].
  destruct (ev_v_run lt (s0 :: r) 0 (xs ++ ys)) as [l'|] eqn:E; [|discriminate].
  cbn. intros H. injection H as <-.
  destruct (ev_v_run_app (s0 :: r) xs ys 0 l' E) as (l1 & l2 & H1 & -> & Hl).
  rewrite H1. cbn. eexists _, _. split; [reflexivity|]. rewrite map_app. split; [reflexivity|]. rewrite map_length. exact Hl.
Qed.

(* and conversely the answers to a prefix never fail when the whole succeeds; in particular firstn k of the whole = the whole of the prefix *)
Corollary ev_v_online_firstn (R : Type) (evp : P -> A -> R) (segs : list fseg) (xs ys : list A) (l : list R) :
  ev_v_answers lt evp segs (xs ++ ys) = Some l -> ev_v_answers lt evp segs xs = Some (firstn (length xs) l).
Proof.
  intros H. destruct (ev_v_online R evp segs xs ys l H) as (l1 & l2 & H1 & -> & Hl).
  rewrite H1. f_equal. rewrite <- Hl. rewrite firstn_app, Nat.sub_diag, firstn_all. cbn. now rewrite app_nil_r.
Qed.
End Online.
