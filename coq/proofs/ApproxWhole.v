(* whole-value consequences of the number-by-number characterisation of the regenerated approx impls *)
From Coq Require Import List Arith Bool Lia.
From Flocq Require Import Core BinarySingleNaN.
Require Import PP.FloatModel PP.FloatOrder PP.Expr PP.FloatOps PP.ApproxShapes PP.Proofs.ApproxProofs.
Import ListNotations.

(* ---- whole-value consequences: two values xs, ys of n numbers each, then the tolerances ---- *)
Lemma scalar_rel_sym k a b e r : scalar_rel k a b e r = scalar_rel k b a e r.
Proof. destruct k; [apply absdiffeq_sym | apply releq_sym]. Qed.

Definition env2 (xs ys : list F) (eps rel : F) : list F := xs ++ ys ++ [eps; rel].

Lemma forallb_ext_in {A : Type} (p q : A -> bool) l : (forall x, In x l -> p x = q x) -> forallb p l = forallb q l.
Proof.
  induction l as [|a r IH]; intros H; cbn [forallb]; [reflexivity|].
  rewrite (H a (or_introl eq_refl)), IH; [reflexivity|]. intros x Hx. apply H. now right.
Qed.

Lemma forallb_seq_combine {A : Type} (r : A -> A -> bool) (d : A) xs : forall ys, length xs = length ys ->
  forallb (fun i => r (nth i xs d) (nth i ys d)) (seq 0 (length xs)) = forallb (fun p => r (fst p) (snd p)) (combine xs ys).
Proof.
  induction xs as [|x xs IH]; intros [|y ys] H; cbn [length] in H; try discriminate; [reflexivity|].
  cbn [length seq forallb combine fst snd nth]. f_equal. rewrite <- seq_shift, forallb_map'. cbn [nth].
  apply IH. now injection H.
Qed.

Theorem env2_pairs k n xs ys eps rel : length xs = n -> length ys = n ->
  forallb (fun i => scalar_rel k (nth i (env2 xs ys eps rel) fnan) (nth (n + i) (env2 xs ys eps rel) fnan)
                               (nth (2 * n) (env2 xs ys eps rel) fnan) (nth (2 * n + 1) (env2 xs ys eps rel) fnan)) (seq 0 n)
  = forallb (fun p => scalar_rel k (fst p) (snd p) eps rel) (combine xs ys).
Proof.
  intros Hx Hy. subst n. rewrite <- (forallb_seq_combine (fun a b => scalar_rel k a b eps rel) fnan xs ys (eq_sym Hy)).
  apply forallb_ext_in. intros i Hi. apply in_seq in Hi. unfold env2.
  assert (E1 : nth i (xs ++ ys ++ [eps; rel]) fnan = nth i xs fnan) by (apply app_nth1; lia).
  assert (E2 : nth (length xs + i) (xs ++ ys ++ [eps; rel]) fnan = nth i ys fnan).
  { rewrite app_nth2 by lia. replace (length xs + i - length xs)%nat with i by lia. apply app_nth1. lia. }
  assert (E3 : nth (2 * length xs) (xs ++ ys ++ [eps; rel]) fnan = eps).
  { rewrite app_nth2 by lia. rewrite app_nth2 by lia. replace (2 * length xs - length xs - length ys)%nat with 0%nat by lia. reflexivity. }
  assert (E4 : nth (2 * length xs + 1) (xs ++ ys ++ [eps; rel]) fnan = rel).
  { rewrite app_nth2 by lia. rewrite app_nth2 by lia. replace (2 * length xs + 1 - length xs - length ys)%nat with 1%nat by lia. reflexivity. }
  now rewrite E1, E2, E3, E4.
Qed.

Lemma forallb_combine_sym {A : Type} (r : A -> A -> bool) : (forall a b, r a b = r b a) -> forall xs ys,
  forallb (fun p => r (fst p) (snd p)) (combine xs ys) = forallb (fun p => r (fst p) (snd p)) (combine ys xs).
Proof.
  intros S. induction xs as [|x xs IH]; intros [|y ys]; cbn [combine forallb fst snd]; try reflexivity.
  now rewrite (S x y), IH.
Qed.

Lemma forallb_combine_refl {A : Type} (r : A -> A -> bool) xs : (forall a, In a xs -> r a a = true) ->
  forallb (fun p => r (fst p) (snd p)) (combine xs xs) = true.
Proof.
  induction xs as [|x xs IH]; intros H; cbn [combine forallb fst snd]; [reflexivity|].
  rewrite (H x (or_introl eq_refl)), IH; [reflexivity|]. intros a Ha. apply H. now right.
Qed.

Definition table_sem (t : list (rel_kind * nat * bexpr)) : Prop :=
  Forall (fun e => forall env, beval FOps0 env (snd e) =
     forallb (fun i => scalar_rel (fst (fst e)) (nth i env fnan) (nth (snd (fst e) + i) env fnan)
                                  (nth (2 * snd (fst e)) env fnan) (nth (2 * snd (fst e) + 1) env fnan)) (seq 0 (snd (fst e)))) t.

Theorem table_pairs t : table_sem t ->
  Forall (fun e => forall xs ys eps rel, length xs = snd (fst e) -> length ys = snd (fst e) ->
    beval FOps0 (env2 xs ys eps rel) (snd e) = forallb (fun p => scalar_rel (fst (fst e)) (fst p) (snd p) eps rel) (combine xs ys)) t.
Proof.
  unfold table_sem. rewrite !Forall_forall. intros H e He xs ys eps rel Hx Hy. rewrite (H e He). now apply env2_pairs.
Qed.

Theorem table_symmetric t : table_sem t ->
  Forall (fun e => forall xs ys eps rel, length xs = snd (fst e) -> length ys = snd (fst e) ->
    beval FOps0 (env2 xs ys eps rel) (snd e) = beval FOps0 (env2 ys xs eps rel) (snd e)) t.
Proof.
  intros H. assert (P := table_pairs t H). rewrite Forall_forall in *. intros e He xs ys eps rel Hx Hy.
  rewrite (P e He xs ys eps rel Hx Hy), (P e He ys xs eps rel Hy Hx).
  apply (forallb_combine_sym (fun a b => scalar_rel (fst (fst e)) a b eps rel)). intros a b. apply scalar_rel_sym.
Qed.

Theorem table_reflexive t : table_sem t ->
  Forall (fun e => forall xs eps rel, length xs = snd (fst e) -> (forall a, In a xs -> is_finite a = true) -> fle fzero eps = true ->
    beval FOps0 (env2 xs xs eps rel) (snd e) = true) t.
Proof.
  intros H. assert (P := table_pairs t H). rewrite Forall_forall in *. intros e He xs eps rel Hx Hf He0.
  rewrite (P e He xs xs eps rel Hx Hx). apply (forallb_combine_refl (fun a b => scalar_rel (fst (fst e)) a b eps rel)).
  intros a Ha. destruct (fst (fst e)); cbn [scalar_rel].
  - apply absdiffeq_refl; [now apply Hf | exact He0].
  - apply releq_refl. specialize (Hf a Ha). destruct a; try discriminate; reflexivity.
Qed.

Theorem table_falsified_by_one t : table_sem t ->
  Forall (fun e => forall xs ys eps rel i, length xs = snd (fst e) -> length ys = snd (fst e) -> (i < snd (fst e))%nat ->
    scalar_rel (fst (fst e)) (nth i xs fnan) (nth i ys fnan) eps rel = false ->
    beval FOps0 (env2 xs ys eps rel) (snd e) = false) t.
Proof.
  intros H. assert (P := table_pairs t H). rewrite Forall_forall in *. intros e He xs ys eps rel i Hx Hy Hi Hr.
  rewrite (P e He xs ys eps rel Hx Hy).
  destruct (forallb _ (combine xs ys)) eqn:E; [|reflexivity]. rewrite forallb_forall in E.
  assert (Hin : In (nth i xs fnan, nth i ys fnan) (combine xs ys)).
  { rewrite <- combine_nth by lia. apply nth_In. rewrite combine_length. lia. }
  specialize (E _ Hin). cbn [fst snd] in E. rewrite E in Hr. discriminate.
Qed.

(* implied by == : the derived PartialEq of every type is the lane-by-lane f64 == (C19), so x == y gives feq on every pair *)
Lemma forallb_combine_all {A : Type} (r : A -> A -> bool) xs ys : (forall p, In p (combine xs ys) -> r (fst p) (snd p) = true) ->
  forallb (fun p => r (fst p) (snd p)) (combine xs ys) = true.
Proof. intros H. apply forallb_forall. exact H. Qed.

Theorem table_of_eq t : table_sem t ->
  Forall (fun e => forall xs ys eps rel, length xs = snd (fst e) -> length ys = snd (fst e) ->
    (forall p, In p (combine xs ys) -> feq (fst p) (snd p) = true) ->
    match fst (fst e) with
    | RRel => True
    | RAbs => fle fzero eps = true /\ forall p, In p (combine xs ys) -> is_finite (fst p) = true /\ is_finite (snd p) = true
    end ->
    beval FOps0 (env2 xs ys eps rel) (snd e) = true) t.
Proof.
  intros H. assert (P := table_pairs t H). rewrite Forall_forall in *. intros e He xs ys eps rel Hx Hy Heq Hk.
  rewrite (P e He xs ys eps rel Hx Hy). apply forallb_forall. intros p Hp. specialize (Heq p Hp).
  destruct (fst (fst e)); cbn [scalar_rel].
  - destruct Hk as [He0 Hf]. destruct (Hf p Hp) as [Fa Fb]. apply absdiffeq_of_equal; try assumption.
    unfold feq in Heq. rewrite (Beqb_correct _ _ _ _ Fa Fb) in Heq.
    destruct (Raux.Req_bool_spec (B2R (fst p)) (B2R (snd p))) as [E|E]; [exact E | discriminate].
  - now apply releq_of_eq.
Qed.
