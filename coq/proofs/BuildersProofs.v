(* plumbing facts about linear() and constrained_spline(): when they panic, how many segments they return *)
From Coq Require Import List Bool Arith Lia.
Require Import PP.Model.PwModel.
Import ListNotations.
Set Implicit Arguments.

Section B.
Variables (A S1 S3 : Type).
Variable incr : knot A -> knot A -> (S1 * knot A).
Variable f_dx : knot A -> knot A -> knot A -> A.
Variables f_end0 f_endn : A -> A -> A -> A -> A -> A.
Variable segment3 : A -> knot A -> A -> knot A -> S3.

Lemma linear_go_length prev ks : length (linear_go incr prev ks) = length ks.
Proof. revert prev. induction ks as [|k r IH]; intros prev; cbn; [reflexivity|]. destruct (incr prev k). cbn. now rewrite IH. Qed.

Theorem linear_total ks : 2 <= length ks -> exists r, linear incr ks = Some r /\ length r = length ks - 1.
Proof.
  intros H. destruct ks as [|k0 [|k1 r]]; cbn in H; try lia.
  eexists. split; [reflexivity|]. rewrite linear_go_length. cbn. lia.
Qed.
Theorem linear_rejects ks : length ks < 2 -> linear incr ks = None.
Proof. intros H. destruct ks as [|k0 [|k1 r]]; cbn in *; try reflexivity; lia. Qed.

Lemma f_mid_length ks : length (f_mid f_dx ks) = length ks - 2.
Proof.
  induction ks as [|k0 r IH]; [reflexivity|]. destruct r as [|k1 [|k2 r']]; try reflexivity.
  change (f_mid f_dx (k0 :: k1 :: k2 :: r')) with (f_dx k0 k1 k2 :: f_mid f_dx (k1 :: k2 :: r')).
  cbn [length] in *. rewrite IH. lia.
Qed.
Lemma zip_segments_length fs ks : length fs = length ks -> length (zip_segments segment3 fs ks) = length ks - 1.
Proof.
  revert ks. induction fs as [|f0 fr IH]; intros ks H; destruct ks as [|k0 kr]; try discriminate; [reflexivity|].
  destruct fr as [|f1 fr']; destruct kr as [|k1 kr']; try discriminate; [reflexivity|].
  change (zip_segments segment3 (f0 :: f1 :: fr') (k0 :: k1 :: kr')) with
         (segment3 f0 k0 f1 k1 :: zip_segments segment3 (f1 :: fr') (k1 :: kr')).
  cbn [length] in *. rewrite IH by (cbn [length]; lia). cbn [length]. lia.
Qed.

Theorem spline_total ks : 3 <= length ks ->
  exists r, constrained_spline f_dx f_end0 f_endn segment3 ks = Some r /\ length r = length ks - 1.
Proof.
  intros H. unfold constrained_spline.
  destruct ks as [|k0 [|k1 [|k2 r]]]; cbn [length] in H; try lia.
  eexists. split; [reflexivity|].
  rewrite zip_segments_length; [reflexivity|].
  cbn [length]. rewrite app_length, f_mid_length. cbn [length]. lia.
Qed.
Theorem spline_rejects ks : length ks < 3 -> constrained_spline f_dx f_end0 f_endn segment3 ks = None.
Proof.
  intros H. destruct ks as [|k0 [|k1 [|k2 r]]]; cbn in H; try lia; try reflexivity.
Qed.
End B.
