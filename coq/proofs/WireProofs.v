(* C18: the borsh codec round-trips every well-shaped value of every shape, bit for bit. *)
From Coq Require Import ZArith List Bool Lia.
Require Import PP.Model.Wire.
Import ListNotations.
Local Open Scope Z_scope.

Lemma le_bytes_length n z : length (le_bytes n z) = n.
Proof. revert z. induction n as [|n IH]; intros z; cbn; [reflexivity|]. now rewrite IH. Qed.

Lemma le_int_le_bytes n z : 0 <= z < 256 ^ Z.of_nat n -> le_int (le_bytes n z) = z.
Proof.
  revert z. induction n as [|n IH]; intros z Hz.
  - cbn in *. lia.
  - cbn [le_bytes le_int fold_right]. fold (le_int (le_bytes n (z / 256))).
    rewrite IH.
    + assert (H := Z.div_mod z 256 ltac:(lia)). lia.
    + rewrite Nat2Z.inj_succ, Z.pow_succ_r in Hz by lia. split; [apply Z.div_pos; lia|].
      apply Z.div_lt_upper_bound; lia.
Qed.

Lemma take_bytes_app n (l r : list Z) : length l = n -> take_bytes n (l ++ r) = Some (l, r).
Proof.
  intros H. unfold take_bytes. rewrite app_length.
  assert (E : Nat.leb n (length l + length r) = true) by (apply Nat.leb_le; lia). rewrite E.
  subst n. rewrite firstn_app, Nat.sub_diag, firstn_all, skipn_app, Nat.sub_diag, skipn_all. cbn. now rewrite app_nil_r.
Qed.

Lemma dec_f64_enc b rest : 0 <= b < 2 ^ 64 -> dec_f64 (le_bytes 8 b ++ rest) = Some (VF b, rest).
Proof.
  intros Hb. unfold dec_f64. rewrite take_bytes_app by apply le_bytes_length.
  rewrite le_int_le_bytes; [reflexivity|]. change (256 ^ Z.of_nat 8) with (2 ^ 64). exact Hb.
Qed.

Lemma vlen_nonneg v : 0 <= vlen v.
Proof. induction v; cbn [vlen]; lia. Qed.

(* items: if every item of a well-shaped cons-list round-trips, so does the list given its length *)
Lemma dec_n_enc (f : list Z -> option (val * list Z)) (e : val -> list Z) (P : val -> Prop) v rest :
  (forall h r, P h -> f (e h ++ r) = Some (h, r)) -> wf_seq P v ->
  dec_n f (Z.to_nat (vlen v)) (enc_list e v ++ rest) = Some (v, rest).
Proof.
  intros Hf. induction v as [b| |h _ t IHt]; intros Hw; cbn in Hw; try contradiction.
  - reflexivity.
  - destruct Hw as [Hh Ht]. cbn [vlen enc_list].
    assert (Hl := vlen_nonneg t).
    replace (Z.to_nat (1 + vlen t)) with (S (Z.to_nat (vlen t))) by lia.
    cbn [dec_n]. rewrite <- app_assoc, (Hf h _ Hh), (IHt Ht). reflexivity.
Qed.

Lemma tuple_is_seq n v : wf_tuple n v -> wf_seq (fun x => match x with VF b => 0 <= b < 2 ^ 64 | _ => False end) v /\ vlen v = Z.of_nat n.
Proof.
  revert v. induction n as [|n IH]; intros v H; destruct v as [b| |h t]; cbn in H; try contradiction.
  - split; [exact I|reflexivity].
  - destruct h as [b| |]; try contradiction. destruct H as [Hb Ht]. destruct (IH t Ht) as [Hs Hl].
    split; [cbn; auto|]. cbn [vlen]. lia.
Qed.

Scheme shape_mind := Induction for shape Sort Prop
  with fields_mind := Induction for fields Sort Prop.
Combined Scheme shape_fields_ind from shape_mind, fields_mind.

Theorem roundtrip_both :
  (forall s v rest, wf s v -> dec s (enc s v ++ rest) = Some (v, rest)) /\
  (forall fs v rest, wf_fields fs v -> dec_fields fs (enc_fields fs v ++ rest) = Some (v, rest)).
Proof.
  apply shape_fields_ind.
  - (* SF64 *) intros v rest H. destruct v as [b| |]; cbn in H; try contradiction. cbn. now apply dec_f64_enc.
  - (* SNewtype *) intros nm s IH v rest H. cbn in *. now apply IH.
  - (* STuple *) intros n v rest H. cbn [wf] in H. destruct (tuple_is_seq n v H) as [Hs Hl]. cbn [dec enc].
    rewrite <- (Nat2Z.id n), <- Hl.
    apply dec_n_enc with (P := fun x => match x with VF b => 0 <= b < 2 ^ 64 | _ => False end); [|exact Hs].
    intros h r Hh. destruct h as [b| |]; try contradiction. now apply dec_f64_enc.
  - (* SStruct *) intros nm fs IH v rest H. cbn in *. now apply IH.
  - (* SSeq *) intros s IH v rest [Hw Hl]. cbn [dec enc]. rewrite <- app_assoc.
    rewrite take_bytes_app by apply le_bytes_length.
    rewrite le_int_le_bytes by (change (256 ^ Z.of_nat 4) with (2 ^ 32); generalize (vlen_nonneg v); lia).
    apply dec_n_enc with (P := wf s); [|exact Hw]. intros h r Hh. now apply IH.
  - (* FNil *) intros v rest H. destruct v; cbn in H; try contradiction. reflexivity.
  - (* FCons *) intros id s IHs r IHr v rest H. destruct v as [b| |h t]; cbn in H; try contradiction.
    destruct H as [Hh Ht]. cbn [dec_fields enc_fields]. rewrite <- app_assoc, (IHs h _ Hh), (IHr t _ Ht). reflexivity.
Qed.

Theorem borsh_roundtrip s v rest : wf s v -> dec s (enc s v ++ rest) = Some (v, rest).
Proof. apply roundtrip_both. Qed.
