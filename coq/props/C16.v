(* C16 - evaluation never panics on well-formed input; NaN queries are harmless. *)
From Coq Require Import List Bool ZArith.
Require Import PP.FloatModel PP.FloatOrder PP.Model.PwModel PP.Proofs.C02Proofs PP.Proofs.C03Proofs
  PP.Proofs.C13Proofs PP.Proofs.C16Proofs PP.Proofs.BuildersProofs.
Import ListNotations.

(* In the model a panic is the value None.  All three evaluation paths accept EVERY f64 argument
   (NaN and infinities included) on any non-empty segment list - no hypothesis on the ends at all. *)
Theorem C16_direct_any : forall (P : Type) (ev : seg F P -> F -> F) (segs : list (seg F P)) (x : F),
  segs <> [] -> pw_eval flt ev segs x <> None.
Proof. exact C02_total_proof. Qed.
Theorem C16_evaluator_any : forall (P : Type) (ev : seg F P -> F -> F) (segs : list (seg F P)) (xs : list F),
  segs <> [] -> exists l, evaluator_answers flt fle is_nanb ev segs xs = Some l /\ length l = length xs.
Proof. exact evaluator_any. Qed.
Theorem C16_evaluate_v_any : forall (P : Type) (evp : P -> F -> F) (segs : list (seg F P)) (xs : list F),
  segs <> [] -> exists l, ev_v_answers flt evp segs xs = Some l /\ length l = length xs.
Proof. exact evaluate_v_any. Qed.

(* every history over all of f64: the evaluator's answers stay bit-identical to direct evaluation;
   in particular a NaN query changes nothing for the queries after it *)
Theorem C16_nan_harmless : forall (P : Type) (ev : seg F P -> F -> F) (segs : list (seg F P)) (xs : list F),
  segs <> [] -> Forall (fun t => ok (send t)) segs -> sorted_ends segs ->
  exists l, evaluator_answers flt fle is_nanb ev segs xs = Some l /\
            map Some l = map (pw_eval flt ev segs) xs.
Proof. exact evaluator_all. Qed.

(* the documented rejections are the only panics of the constructors and of + / - *)
Theorem C16_linear : forall (A S1 : Type) (incr : knot A -> knot A -> S1 * knot A) (ks : list (knot A)),
  (2 <= length ks -> exists r, linear incr ks = Some r /\ length r = length ks - 1)%nat /\
  (length ks < 2 -> linear incr ks = None)%nat.
Proof. intros. split; [apply linear_total|apply linear_rejects]. Qed.
Theorem C16_spline : forall (A S3 : Type) f_dx f0 fn (seg3 : A -> knot A -> A -> knot A -> S3) (ks : list (knot A)),
  (3 <= length ks -> exists r, constrained_spline f_dx f0 fn seg3 ks = Some r /\ length r = length ks - 1)%nat /\
  (length ks < 3 -> constrained_spline f_dx f0 fn seg3 ks = None)%nat.
Proof. intros. split; [apply spline_total|apply spline_rejects]. Qed.
Theorem C16_merge : forall (P : Type) (op : P -> P -> P) (f g : list (seg F P)),
  f <> [] -> g <> [] -> Forall (fun t => ok (send t)) f -> Forall (fun t => ok (send t)) g ->
  exists r, merge fcmp op f g = Some r /\ (1 <= length r <= length f + length g - 1)%nat /\
            Forall (fun s : seg F P => exists t, (In t f \/ In t g) /\ send s = send t) r.
Proof. exact merge_total_F. Qed.

(* the D2 witness, now a regression example: ends 1,2,3,4, queries 2.5, NaN, 2.5 *)
Example C16_example :
  let segs := [(of_bits 4607182418800017408, 10%Z); (of_bits 4611686018427387904, 20%Z);
               (of_bits 4613937818241073152, 30%Z); (of_bits 4616189618054758400, 40%Z)] in
  evaluator_answers flt fle is_nanb (fun s _ => snd s) segs
    (map of_bits [4612811918334230528; 9221120237041090560; 4612811918334230528]%Z) = Some [30; 40; 30]%Z.
Proof. vm_compute. reflexivity. Qed.
