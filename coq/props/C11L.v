(* C11, binary64 level, LOG pieces: the jump of a piecewise log-polynomial integral at a breakpoint, for ANY libm.
   Piecewise::integral threads the knot (x, y) := (end_i, value of piece i at end_i) into Segment::integral of piece i+1.
   For every degree K <> 4: the piece returned by the regenerated Segment<Log<PolyK>>::integral, evaluated by the regenerated
   Segment<IntOfLog<PolyK>>::evaluate at knot.x, is - bit for bit - a libm-free term in (end, c_0..c_K, knot.x, knot.y, L^) at
   L^ = ln_f knot.x (both kernels take the logarithm of the same number, so ONE computed logarithm enters), and that value is
   knot.y within 2*depth*2^-53 times the sum of the magnitudes of the terms - whatever ln_f returned, for all finite inputs on
   which no operation under/overflows (`safe`, decidable).  That difference IS the jump of F at the breakpoint (and, for the
   first piece, the deviation from k0).  The quartic degree has its own representation; its two theorems (one per branch of the window test) are at the end. *)
From Coq Require Import List ZArith Reals Lra Lia Bool.
From Flocq Require Import Core BinarySingleNaN.
Require Import PP.FloatModel PP.Expr PP.FloatOps PP.FloatFacts PP.RealOps PP.ErrorBound PP.SafeDec PP.PolyFacts PP.Gen.Kernels
  PP.Proofs.KernelBounds PP.Proofs.LogFloat PP.Proofs.QuarticFloat PP.Proofs.QuarticClosedFloat PP.Proofs.QuarticKnotFloat.
Import ListNotations.
Local Open Scope R_scope.

Definition e_lsegev0 : expr := hd (Lit 0) k_Segment_IntOfLog_Poly0__evaluate.
Definition e_lsegknot0 : expr := subst (k_Segment_Log_Poly0__integral ++ [Var 2]) e_lsegev0.
Definition e_lsegknot0x : expr := Eval vm_compute in abs_ln 2 4 e_lsegknot0.
Theorem C11_L0_knot_float : forall (ln_f exp_f : F -> F) (e c0 kx ky : F),
  let env := [e; c0; kx; ky; ln_f kx] in
  safe env e_lsegknot0x ->
  eval (FOpsG ln_f exp_f) (evals (FOpsG ln_f exp_f) [e; c0; kx; ky] k_Segment_Log_Poly0__integral ++ [kx]) e_lsegev0 = fev env e_lsegknot0x /\
  Rabs (B2R (fev env e_lsegknot0x) - B2R ky) <= 2 * INR (depth e_lsegknot0x) * u * absval (map B2R env) e_lsegknot0x.
Proof.
  intros ln_f exp_f e c0 kx ky env Hs. split.
  - change (evals (FOpsG ln_f exp_f) [e; c0; kx; ky] k_Segment_Log_Poly0__integral ++ [kx])
      with (map (eval (FOpsG ln_f exp_f) [e; c0; kx; ky]) (k_Segment_Log_Poly0__integral ++ [Var 2])).
    rewrite <- eval_subst by (vm_compute; reflexivity). fold e_lsegknot0.
    change e_lsegknot0 with (subst [Var 0; Var 1; Var 2; Var 3; Ln (Var 2)] e_lsegknot0x).
    rewrite eval_subst by (vm_compute; reflexivity). cbn [map eval nth FOpsG o_ln o_default].
    apply eval_oracle_free. vm_compute. reflexivity.
  - assert (Hv : rval env e_lsegknot0x = B2R ky).
    { unfold rval, env. cbn [map]. unfold e_lsegknot0x. reval. norm_lits. ring. }
    rewrite <- Hv. apply eval_apriori_lin; [vm_compute; reflexivity|exact Hs|].
    assert (Hd : INR (depth e_lsegknot0x) <= 100) by (vm_compute depth; simpl INR; lra).
    assert (Hu := u_pos). rewrite u_val in *. assert (0 <= INR (depth e_lsegknot0x)) by apply pos_INR. nra.
Qed.

Definition e_lsegev1 : expr := hd (Lit 0) k_Segment_IntOfLog_Poly1__evaluate.
Definition e_lsegknot1 : expr := subst (k_Segment_Log_Poly1__integral ++ [Var 3]) e_lsegev1.
Definition e_lsegknot1x : expr := Eval vm_compute in abs_ln 3 5 e_lsegknot1.
Theorem C11_L1_knot_float : forall (ln_f exp_f : F -> F) (e c0 c1 kx ky : F),
  let env := [e; c0; c1; kx; ky; ln_f kx] in
  safe env e_lsegknot1x ->
  eval (FOpsG ln_f exp_f) (evals (FOpsG ln_f exp_f) [e; c0; c1; kx; ky] k_Segment_Log_Poly1__integral ++ [kx]) e_lsegev1 = fev env e_lsegknot1x /\
  Rabs (B2R (fev env e_lsegknot1x) - B2R ky) <= 2 * INR (depth e_lsegknot1x) * u * absval (map B2R env) e_lsegknot1x.
Proof.
  intros ln_f exp_f e c0 c1 kx ky env Hs. split.
  - change (evals (FOpsG ln_f exp_f) [e; c0; c1; kx; ky] k_Segment_Log_Poly1__integral ++ [kx])
      with (map (eval (FOpsG ln_f exp_f) [e; c0; c1; kx; ky]) (k_Segment_Log_Poly1__integral ++ [Var 3])).
    rewrite <- eval_subst by (vm_compute; reflexivity). fold e_lsegknot1.
    change e_lsegknot1 with (subst [Var 0; Var 1; Var 2; Var 3; Var 4; Ln (Var 3)] e_lsegknot1x).
    rewrite eval_subst by (vm_compute; reflexivity). cbn [map eval nth FOpsG o_ln o_default].
    apply eval_oracle_free. vm_compute. reflexivity.
  - assert (Hv : rval env e_lsegknot1x = B2R ky).
    { unfold rval, env. cbn [map]. unfold e_lsegknot1x. reval. norm_lits. ring. }
    rewrite <- Hv. apply eval_apriori_lin; [vm_compute; reflexivity|exact Hs|].
    assert (Hd : INR (depth e_lsegknot1x) <= 100) by (vm_compute depth; simpl INR; lra).
    assert (Hu := u_pos). rewrite u_val in *. assert (0 <= INR (depth e_lsegknot1x)) by apply pos_INR. nra.
Qed.

Definition e_lsegev2 : expr := hd (Lit 0) k_Segment_IntOfLog_Poly2__evaluate.
Definition e_lsegknot2 : expr := subst (k_Segment_Log_Poly2__integral ++ [Var 4]) e_lsegev2.
Definition e_lsegknot2x : expr := Eval vm_compute in abs_ln 4 6 e_lsegknot2.
Theorem C11_L2_knot_float : forall (ln_f exp_f : F -> F) (e c0 c1 c2 kx ky : F),
  let env := [e; c0; c1; c2; kx; ky; ln_f kx] in
  safe env e_lsegknot2x ->
  eval (FOpsG ln_f exp_f) (evals (FOpsG ln_f exp_f) [e; c0; c1; c2; kx; ky] k_Segment_Log_Poly2__integral ++ [kx]) e_lsegev2 = fev env e_lsegknot2x /\
  Rabs (B2R (fev env e_lsegknot2x) - B2R ky) <= 2 * INR (depth e_lsegknot2x) * u * absval (map B2R env) e_lsegknot2x.
Proof.
  intros ln_f exp_f e c0 c1 c2 kx ky env Hs. split.
  - change (evals (FOpsG ln_f exp_f) [e; c0; c1; c2; kx; ky] k_Segment_Log_Poly2__integral ++ [kx])
      with (map (eval (FOpsG ln_f exp_f) [e; c0; c1; c2; kx; ky]) (k_Segment_Log_Poly2__integral ++ [Var 4])).
    rewrite <- eval_subst by (vm_compute; reflexivity). fold e_lsegknot2.
    change e_lsegknot2 with (subst [Var 0; Var 1; Var 2; Var 3; Var 4; Var 5; Ln (Var 4)] e_lsegknot2x).
    rewrite eval_subst by (vm_compute; reflexivity). cbn [map eval nth FOpsG o_ln o_default].
    apply eval_oracle_free. vm_compute. reflexivity.
  - assert (Hv : rval env e_lsegknot2x = B2R ky).
    { unfold rval, env. cbn [map]. unfold e_lsegknot2x. reval. norm_lits. ring. }
    rewrite <- Hv. apply eval_apriori_lin; [vm_compute; reflexivity|exact Hs|].
    assert (Hd : INR (depth e_lsegknot2x) <= 100) by (vm_compute depth; simpl INR; lra).
    assert (Hu := u_pos). rewrite u_val in *. assert (0 <= INR (depth e_lsegknot2x)) by apply pos_INR. nra.
Qed.

Definition e_lsegev3 : expr := hd (Lit 0) k_Segment_IntOfLog_Poly3__evaluate.
Definition e_lsegknot3 : expr := subst (k_Segment_Log_Poly3__integral ++ [Var 5]) e_lsegev3.
Definition e_lsegknot3x : expr := Eval vm_compute in abs_ln 5 7 e_lsegknot3.
Theorem C11_L3_knot_float : forall (ln_f exp_f : F -> F) (e c0 c1 c2 c3 kx ky : F),
  let env := [e; c0; c1; c2; c3; kx; ky; ln_f kx] in
  safe env e_lsegknot3x ->
  eval (FOpsG ln_f exp_f) (evals (FOpsG ln_f exp_f) [e; c0; c1; c2; c3; kx; ky] k_Segment_Log_Poly3__integral ++ [kx]) e_lsegev3 = fev env e_lsegknot3x /\
  Rabs (B2R (fev env e_lsegknot3x) - B2R ky) <= 2 * INR (depth e_lsegknot3x) * u * absval (map B2R env) e_lsegknot3x.
Proof.
  intros ln_f exp_f e c0 c1 c2 c3 kx ky env Hs. split.
  - change (evals (FOpsG ln_f exp_f) [e; c0; c1; c2; c3; kx; ky] k_Segment_Log_Poly3__integral ++ [kx])
      with (map (eval (FOpsG ln_f exp_f) [e; c0; c1; c2; c3; kx; ky]) (k_Segment_Log_Poly3__integral ++ [Var 5])).
    rewrite <- eval_subst by (vm_compute; reflexivity). fold e_lsegknot3.
    change e_lsegknot3 with (subst [Var 0; Var 1; Var 2; Var 3; Var 4; Var 5; Var 6; Ln (Var 5)] e_lsegknot3x).
    rewrite eval_subst by (vm_compute; reflexivity). cbn [map eval nth FOpsG o_ln o_default].
    apply eval_oracle_free. vm_compute. reflexivity.
  - assert (Hv : rval env e_lsegknot3x = B2R ky).
    { unfold rval, env. cbn [map]. unfold e_lsegknot3x. reval. norm_lits. ring. }
    rewrite <- Hv. apply eval_apriori_lin; [vm_compute; reflexivity|exact Hs|].
    assert (Hd : INR (depth e_lsegknot3x) <= 100) by (vm_compute depth; simpl INR; lra).
    assert (Hu := u_pos). rewrite u_val in *. assert (0 <= INR (depth e_lsegknot3x)) by apply pos_INR. nra.
Qed.

Definition e_lsegev5 : expr := hd (Lit 0) k_Segment_IntOfLog_Poly5__evaluate.
Definition e_lsegknot5 : expr := subst (k_Segment_Log_Poly5__integral ++ [Var 7]) e_lsegev5.
Definition e_lsegknot5x : expr := Eval vm_compute in abs_ln 7 9 e_lsegknot5.
Theorem C11_L5_knot_float : forall (ln_f exp_f : F -> F) (e c0 c1 c2 c3 c4 c5 kx ky : F),
  let env := [e; c0; c1; c2; c3; c4; c5; kx; ky; ln_f kx] in
  safe env e_lsegknot5x ->
  eval (FOpsG ln_f exp_f) (evals (FOpsG ln_f exp_f) [e; c0; c1; c2; c3; c4; c5; kx; ky] k_Segment_Log_Poly5__integral ++ [kx]) e_lsegev5 = fev env e_lsegknot5x /\
  Rabs (B2R (fev env e_lsegknot5x) - B2R ky) <= 2 * INR (depth e_lsegknot5x) * u * absval (map B2R env) e_lsegknot5x.
Proof.
  intros ln_f exp_f e c0 c1 c2 c3 c4 c5 kx ky env Hs. split.
  - change (evals (FOpsG ln_f exp_f) [e; c0; c1; c2; c3; c4; c5; kx; ky] k_Segment_Log_Poly5__integral ++ [kx])
      with (map (eval (FOpsG ln_f exp_f) [e; c0; c1; c2; c3; c4; c5; kx; ky]) (k_Segment_Log_Poly5__integral ++ [Var 7])).
    rewrite <- eval_subst by (vm_compute; reflexivity). fold e_lsegknot5.
    change e_lsegknot5 with (subst [Var 0; Var 1; Var 2; Var 3; Var 4; Var 5; Var 6; Var 7; Var 8; Ln (Var 7)] e_lsegknot5x).
    rewrite eval_subst by (vm_compute; reflexivity). cbn [map eval nth FOpsG o_ln o_default].
    apply eval_oracle_free. vm_compute. reflexivity.
  - assert (Hv : rval env e_lsegknot5x = B2R ky).
    { unfold rval, env. cbn [map]. unfold e_lsegknot5x. reval. norm_lits. ring. }
    rewrite <- Hv. apply eval_apriori_lin; [vm_compute; reflexivity|exact Hs|].
    assert (Hd : INR (depth e_lsegknot5x) <= 100) by (vm_compute depth; simpl INR; lra).
    assert (Hu := u_pos). rewrite u_val in *. assert (0 <= INR (depth e_lsegknot5x)) by apply pos_INR. nra.
Qed.

Definition e_lsegev6 : expr := hd (Lit 0) k_Segment_IntOfLog_Poly6__evaluate.
Definition e_lsegknot6 : expr := subst (k_Segment_Log_Poly6__integral ++ [Var 8]) e_lsegev6.
Definition e_lsegknot6x : expr := Eval vm_compute in abs_ln 8 10 e_lsegknot6.
Theorem C11_L6_knot_float : forall (ln_f exp_f : F -> F) (e c0 c1 c2 c3 c4 c5 c6 kx ky : F),
  let env := [e; c0; c1; c2; c3; c4; c5; c6; kx; ky; ln_f kx] in
  safe env e_lsegknot6x ->
  eval (FOpsG ln_f exp_f) (evals (FOpsG ln_f exp_f) [e; c0; c1; c2; c3; c4; c5; c6; kx; ky] k_Segment_Log_Poly6__integral ++ [kx]) e_lsegev6 = fev env e_lsegknot6x /\
  Rabs (B2R (fev env e_lsegknot6x) - B2R ky) <= 2 * INR (depth e_lsegknot6x) * u * absval (map B2R env) e_lsegknot6x.
Proof.
  intros ln_f exp_f e c0 c1 c2 c3 c4 c5 c6 kx ky env Hs. split.
  - change (evals (FOpsG ln_f exp_f) [e; c0; c1; c2; c3; c4; c5; c6; kx; ky] k_Segment_Log_Poly6__integral ++ [kx])
      with (map (eval (FOpsG ln_f exp_f) [e; c0; c1; c2; c3; c4; c5; c6; kx; ky]) (k_Segment_Log_Poly6__integral ++ [Var 8])).
    rewrite <- eval_subst by (vm_compute; reflexivity). fold e_lsegknot6.
    change e_lsegknot6 with (subst [Var 0; Var 1; Var 2; Var 3; Var 4; Var 5; Var 6; Var 7; Var 8; Var 9; Ln (Var 8)] e_lsegknot6x).
    rewrite eval_subst by (vm_compute; reflexivity). cbn [map eval nth FOpsG o_ln o_default].
    apply eval_oracle_free. vm_compute. reflexivity.
  - assert (Hv : rval env e_lsegknot6x = B2R ky).
    { unfold rval, env. cbn [map]. unfold e_lsegknot6x. reval. norm_lits. ring. }
    rewrite <- Hv. apply eval_apriori_lin; [vm_compute; reflexivity|exact Hs|].
    assert (Hd : INR (depth e_lsegknot6x) <= 100) by (vm_compute depth; simpl INR; lra).
    assert (Hu := u_pos). rewrite u_val in *. assert (0 <= INR (depth e_lsegknot6x)) by apply pos_INR. nra.
Qed.

Definition e_lsegev7 : expr := hd (Lit 0) k_Segment_IntOfLog_Poly7__evaluate.
Definition e_lsegknot7 : expr := subst (k_Segment_Log_Poly7__integral ++ [Var 9]) e_lsegev7.
Definition e_lsegknot7x : expr := Eval vm_compute in abs_ln 9 11 e_lsegknot7.
Theorem C11_L7_knot_float : forall (ln_f exp_f : F -> F) (e c0 c1 c2 c3 c4 c5 c6 c7 kx ky : F),
  let env := [e; c0; c1; c2; c3; c4; c5; c6; c7; kx; ky; ln_f kx] in
  safe env e_lsegknot7x ->
  eval (FOpsG ln_f exp_f) (evals (FOpsG ln_f exp_f) [e; c0; c1; c2; c3; c4; c5; c6; c7; kx; ky] k_Segment_Log_Poly7__integral ++ [kx]) e_lsegev7 = fev env e_lsegknot7x /\
  Rabs (B2R (fev env e_lsegknot7x) - B2R ky) <= 2 * INR (depth e_lsegknot7x) * u * absval (map B2R env) e_lsegknot7x.
Proof.
  intros ln_f exp_f e c0 c1 c2 c3 c4 c5 c6 c7 kx ky env Hs. split.
  - change (evals (FOpsG ln_f exp_f) [e; c0; c1; c2; c3; c4; c5; c6; c7; kx; ky] k_Segment_Log_Poly7__integral ++ [kx])
      with (map (eval (FOpsG ln_f exp_f) [e; c0; c1; c2; c3; c4; c5; c6; c7; kx; ky]) (k_Segment_Log_Poly7__integral ++ [Var 9])).
    rewrite <- eval_subst by (vm_compute; reflexivity). fold e_lsegknot7.
    change e_lsegknot7 with (subst [Var 0; Var 1; Var 2; Var 3; Var 4; Var 5; Var 6; Var 7; Var 8; Var 9; Var 10; Ln (Var 9)] e_lsegknot7x).
    rewrite eval_subst by (vm_compute; reflexivity). cbn [map eval nth FOpsG o_ln o_default].
    apply eval_oracle_free. vm_compute. reflexivity.
  - assert (Hv : rval env e_lsegknot7x = B2R ky).
    { unfold rval, env. cbn [map]. unfold e_lsegknot7x. reval. norm_lits. ring. }
    rewrite <- Hv. apply eval_apriori_lin; [vm_compute; reflexivity|exact Hs|].
    assert (Hd : INR (depth e_lsegknot7x) <= 100) by (vm_compute depth; simpl INR; lra).
    assert (Hu := u_pos). rewrite u_val in *. assert (0 <= INR (depth e_lsegknot7x)) by apply pos_INR. nra.
Qed.

Definition e_lsegev8 : expr := hd (Lit 0) k_Segment_IntOfLog_Poly8__evaluate.
Definition e_lsegknot8 : expr := subst (k_Segment_Log_Poly8__integral ++ [Var 10]) e_lsegev8.
Definition e_lsegknot8x : expr := Eval vm_compute in abs_ln 10 12 e_lsegknot8.
Theorem C11_L8_knot_float : forall (ln_f exp_f : F -> F) (e c0 c1 c2 c3 c4 c5 c6 c7 c8 kx ky : F),
  let env := [e; c0; c1; c2; c3; c4; c5; c6; c7; c8; kx; ky; ln_f kx] in
  safe env e_lsegknot8x ->
  eval (FOpsG ln_f exp_f) (evals (FOpsG ln_f exp_f) [e; c0; c1; c2; c3; c4; c5; c6; c7; c8; kx; ky] k_Segment_Log_Poly8__integral ++ [kx]) e_lsegev8 = fev env e_lsegknot8x /\
  Rabs (B2R (fev env e_lsegknot8x) - B2R ky) <= 2 * INR (depth e_lsegknot8x) * u * absval (map B2R env) e_lsegknot8x.
Proof.
  intros ln_f exp_f e c0 c1 c2 c3 c4 c5 c6 c7 c8 kx ky env Hs. split.
  - change (evals (FOpsG ln_f exp_f) [e; c0; c1; c2; c3; c4; c5; c6; c7; c8; kx; ky] k_Segment_Log_Poly8__integral ++ [kx])
      with (map (eval (FOpsG ln_f exp_f) [e; c0; c1; c2; c3; c4; c5; c6; c7; c8; kx; ky]) (k_Segment_Log_Poly8__integral ++ [Var 10])).
    rewrite <- eval_subst by (vm_compute; reflexivity). fold e_lsegknot8.
    change e_lsegknot8 with (subst [Var 0; Var 1; Var 2; Var 3; Var 4; Var 5; Var 6; Var 7; Var 8; Var 9; Var 10; Var 11; Ln (Var 10)] e_lsegknot8x).
    rewrite eval_subst by (vm_compute; reflexivity). cbn [map eval nth FOpsG o_ln o_default].
    apply eval_oracle_free. vm_compute. reflexivity.
  - assert (Hv : rval env e_lsegknot8x = B2R ky).
    { unfold rval, env. cbn [map]. unfold e_lsegknot8x. reval. norm_lits. ring. }
    rewrite <- Hv. apply eval_apriori_lin; [vm_compute; reflexivity|exact Hs|].
    assert (Hd : INR (depth e_lsegknot8x) <= 100) by (vm_compute depth; simpl INR; lra).
    assert (Hu := u_pos). rewrite u_val in *. assert (0 <= INR (depth e_lsegknot8x)) by apply pos_INR. nra.
Qed.

(* non-vacuity: a cubic log piece with end 2.5, coefficients (1.1, -2.3, 0.7, 3.25), knot (0.75, -1.2) and ln_f 0.75 := the correctly
   rounded logarithm *)
Example C11_log_knot_float_hypotheses_hold : safe (map of_bits [4612811918334230528; 4607632778762754458; 13835733595226269286; 4604480259023595110; 4614500768194494464; 4604930618986332160; 13831455175580267315; 13822226076269861778]%Z) e_lsegknot3x.
Proof. apply safe1_sound; vm_compute; reflexivity. Qed.

(* ---- the quartic degree: Segment<Log<Poly4>>::integral returns an IntOfLogPoly4, evaluated by Segment<IntOfLogPoly4>::evaluate.
   Both kernels compute x^ = -(ln_f knot.x) and run the same window test on it; per branch the composition is one libm-free
   term whose real value is exactly knot.y (proofs/QuarticKnotFloat.v). ---- *)
Theorem C11_L4_knot_float_series : forall (ln_f exp_f : F -> F) (e c0 c1 c2 c3 c4 kx ky : F),
  let xh := fneg (ln_f kx) in
  let env := [e; c0; c1; c2; c3; c4; kx; ky; xh] in
  flt (of_bits 13833752011390226268) xh && flt xh (of_bits 4610425010531724165) = true ->
  safe env e_l4knot_series ->
  eval (FOpsG ln_f exp_f) (evals (FOpsG ln_f exp_f) [e; c0; c1; c2; c3; c4; kx; ky] k_Segment_Log_Poly4__integral ++ [kx])
       (hd (Lit 0) k_Segment_IntOfLogPoly4__evaluate) = fev env e_l4knot_series /\
  Rabs (B2R (fev env e_l4knot_series) - B2R ky) <= 2 * INR (depth e_l4knot_series) * u * absval (map B2R env) e_l4knot_series.
Proof. exact l4knot_series_float. Qed.

Theorem C11_L4_knot_float_closed : forall (ln_f exp_f : F -> F) (e c0 c1 c2 c3 c4 kx ky : F),
  let xh := fneg (ln_f kx) in
  let rh := fdiv (of_bits 4607182418800017408) xh in
  let Eh := exp_f (fdiv (of_bits 4607182418800017408) rh) in
  let env := [e; c0; c1; c2; c3; c4; kx; ky; xh; rh; Eh] in
  flt (of_bits 13833752011390226268) xh && flt xh (of_bits 4610425010531724165) = false ->
  safe env e_l4knot_closed ->
  eval (FOpsG ln_f exp_f) (evals (FOpsG ln_f exp_f) [e; c0; c1; c2; c3; c4; kx; ky] k_Segment_Log_Poly4__integral ++ [kx])
       (hd (Lit 0) k_Segment_IntOfLogPoly4__evaluate) = fev env e_l4knot_closed /\
  Rabs (B2R (fev env e_l4knot_closed) - B2R ky) <= 2 * INR (depth e_l4knot_closed) * u * absval (map B2R env) e_l4knot_closed.
Proof. exact l4knot_closed_float. Qed.

(* non-vacuity: end 9, c = (1.1, -2.3, 0.7, 3.25, -0.5), knot (1.25, -1.2) [series] and knot (7, -1.2) [closed form], with the
   logarithms / exponential glibc returns *)
Example C11_L4_hypotheses_hold :
  (let xh := of_bits 13820579650861701666 in
   flt (of_bits 13833752011390226268) xh && flt xh (of_bits 4610425010531724165) = true /\
   safe (map of_bits [4621256167635550208; 4607632778762754458; 13835733595226269286; 4604480259023595110; 4614500768194494464;
                      13826050856027422720; 4608308318706860032; 13831455175580267315]%Z ++ [xh]) e_l4knot_series) /\
  (let xh := of_bits 13834814456249604695 in
   let rh := fdiv (of_bits 4607182418800017408) xh in
   flt (of_bits 13833752011390226268) xh && flt xh (of_bits 4610425010531724165) = false /\
   safe (map of_bits [4621256167635550208; 4607632778762754458; 13835733595226269286; 4604480259023595110; 4614500768194494464;
                      13826050856027422720; 4619567317775286272; 13831455175580267315]%Z ++ [xh; rh; of_bits 4594314991293244563]) e_l4knot_closed).
Proof.
  cbv zeta. split; split; [vm_compute; reflexivity|apply safe1_sound; vm_compute; reflexivity|vm_compute; reflexivity|apply safe1_sound; vm_compute; reflexivity].
Qed.
