(* C05 - the constrained spline never overshoots and is flat at data extrema. *)
From Coq Require Import List ZArith Reals Lra Lia Psatz Bool.
Require Import PP.Expr PP.RealOps PP.PolyFacts PP.Hermite PP.Gen.Kernels PP.Props.C04.
Import ListNotations.
Local Open Scope R_scope.

(* derivative of the returned cubic in normalised form: t = (x-x0)/(x1-x0), s the secant slope *)
Theorem C05_derivative_form : forall f0 x0 y0 f1 x1 y1 x : R, x1 - x0 <> 0 ->
  let t := (x - x0) / (x1 - x0) in let s := (y1 - y0) / (x1 - x0) in
  polyval (deriv_coeffs (cubic f0 x0 y0 f1 x1 y1)) x
  = f0 * (1 - 4 * t + 3 * t ^ 2) + f1 * (3 * t ^ 2 - 2 * t) + s * (6 * t * (1 - t)).
Proof.
  intros f0 x0 y0 f1 x1 y1 x H. cbv zeta. unfold cubic, k_spline__segment. reval. norm_lits. cbn [tl polyval deriv_coeffs deriv_from].
  simpl INR. field. exact H.
Qed.

(* Fritsch-Carlson region: end slopes between 0 and 3 times the secant slope => derivative of one sign
   at EVERY real x of the interval *)
Theorem C05_derivative_sign_up : forall f0 x0 y0 f1 x1 y1 x : R, x0 < x1 ->
  let s := (y1 - y0) / (x1 - x0) in
  0 <= f0 <= 3 * s -> 0 <= f1 <= 3 * s -> x0 <= x <= x1 ->
  0 <= polyval (deriv_coeffs (cubic f0 x0 y0 f1 x1 y1)) x.
Proof.
  intros f0 x0 y0 f1 x1 y1 x Hx s H0 H1 Hin.
  rewrite C05_derivative_form by lra. fold s.
  set (t := (x - x0) / (x1 - x0)).
  assert (Ht : 0 <= t <= 1).
  { unfold t. split; [apply Rmult_le_pos; [lra|left; apply Rinv_0_lt_compat; lra]|].
    apply (Rmult_le_reg_r (x1 - x0)); [lra|]. unfold Rdiv. rewrite Rmult_assoc, Rinv_l by lra. lra. }
  destruct (Req_dec s 0) as [Es|Ns].
  - assert (f0 = 0) by lra. assert (f1 = 0) by lra. subst f0 f1. rewrite Es. lra.
  - assert (Ps : 0 < s) by lra.
    replace (f0 * (1 - 4 * t + 3 * t ^ 2) + f1 * (3 * t ^ 2 - 2 * t) + s * (6 * t * (1 - t)))
      with (s * K (f0 / s) (f1 / s) t) by (unfold K; field; exact Ns).
    apply Rmult_le_pos; [lra|]. apply K_nonneg; [exact Ht| |].
    + split; [apply Rmult_le_pos; [lra|left; now apply Rinv_0_lt_compat]|].
      apply (Rmult_le_reg_r s); [exact Ps|]. unfold Rdiv. rewrite Rmult_assoc, Rinv_l by exact Ns. lra.
    + split; [apply Rmult_le_pos; [lra|left; now apply Rinv_0_lt_compat]|].
      apply (Rmult_le_reg_r s); [exact Ps|]. unfold Rdiv. rewrite Rmult_assoc, Rinv_l by exact Ns. lra.
Qed.

(* hence monotone on the interval and between the two knot ordinates: no overshoot, for every real x *)
Theorem C05_no_overshoot_up : forall f0 x0 y0 f1 x1 y1 : R, x0 < x1 ->
  let s := (y1 - y0) / (x1 - x0) in
  0 <= f0 <= 3 * s -> 0 <= f1 <= 3 * s ->
  let p := polyval (cubic f0 x0 y0 f1 x1 y1) in
  (forall a b, x0 <= a -> a <= b -> b <= x1 -> p a <= p b) /\ (forall x, x0 <= x <= x1 -> y0 <= p x <= y1).
Proof.
  intros f0 x0 y0 f1 x1 y1 Hx s H0 H1 p.
  assert (Hmono : forall a b, x0 <= a -> a <= b -> b <= x1 -> p a <= p b).
  { apply (nondecreasing_of_derivative p (polyval (deriv_coeffs (cubic f0 x0 y0 f1 x1 y1)))).
    - intros x _. unfold p. rewrite <- dpoly_deriv_coeffs. apply derivable_polyval.
    - intros x Hin. now apply C05_derivative_sign_up. }
  split; [exact Hmono|]. intros x Hin.
  destruct (C04_hermite f0 x0 y0 f1 x1 y1) as (E0 & E1 & _); [lra|]. fold p in E0, E1.
  rewrite <- E0, <- E1. split; apply Hmono; lra.
Qed.

(* the mirrored statement for decreasing data follows by negating ordinates and slopes:
   the cubic is linear in (f0, y0, f1, y1) *)
Theorem C05_negation : forall f0 x0 y0 f1 x1 y1 x : R, x1 - x0 <> 0 ->
  polyval (cubic (- f0) x0 (- y0) (- f1) x1 (- y1)) x = - polyval (cubic f0 x0 y0 f1 x1 y1) x.
Proof.
  intros f0 x0 y0 f1 x1 y1 x H. unfold cubic, k_spline__segment. reval. norm_lits. cbn [tl polyval]. field. exact H.
Qed.
Theorem C05_no_overshoot_down : forall f0 x0 y0 f1 x1 y1 : R, x0 < x1 ->
  let s := (y1 - y0) / (x1 - x0) in
  3 * s <= f0 <= 0 -> 3 * s <= f1 <= 0 ->
  forall x, x0 <= x <= x1 -> y1 <= polyval (cubic f0 x0 y0 f1 x1 y1) x <= y0.
Proof.
  intros f0 x0 y0 f1 x1 y1 Hx s H0 H1 x Hin.
  destruct (C05_no_overshoot_up (- f0) x0 (- y0) (- f1) x1 (- y1) Hx) as [_ Hb].
  - replace ((- y1 - - y0) / (x1 - x0)) with (- s) by (unfold s; field; lra). lra.
  - replace ((- y1 - - y0) / (x1 - x0)) with (- s) by (unfold s; field; lra). lra.
  - specialize (Hb x Hin). rewrite C05_negation in Hb by lra. lra.
Qed.

(* the Kruger slopes lie in the Fritsch-Carlson region *)
Theorem C05_harmonic_in_region : forall s0 s1 : R, 0 < s0 -> 0 < s1 ->
  let h := 2 * s0 * s1 / (s0 + s1) in 0 <= h <= 2 * s0 /\ 0 <= h <= 2 * s1.
Proof.
  intros s0 s1 H0 H1 h. assert (Hs : 0 < s0 + s1) by lra.
  assert (Hh : h * (s0 + s1) = 2 * s0 * s1) by (unfold h; field; lra).
  assert (0 <= h) by (unfold h; apply Rmult_le_pos; [apply Rmult_le_pos; lra|left; now apply Rinv_0_lt_compat]).
  assert (E0 : (2 * s0 - h) * (s0 + s1) = 2 * s0 * s0) by (replace ((2 * s0 - h) * (s0 + s1)) with (2 * s0 * (s0 + s1) - h * (s0 + s1)) by ring; rewrite Hh; ring).
  assert (E1 : (2 * s1 - h) * (s0 + s1) = 2 * s1 * s1) by (replace ((2 * s1 - h) * (s0 + s1)) with (2 * s1 * (s0 + s1) - h * (s0 + s1)) by ring; rewrite Hh; ring).
  assert (G0 : 0 <= 2 * s0 - h).
  { apply (Rmult_le_reg_r (s0 + s1)); [exact Hs|]. rewrite Rmult_0_l, E0. nra. }
  assert (G1 : 0 <= 2 * s1 - h).
  { apply (Rmult_le_reg_r (s0 + s1)); [exact Hs|]. rewrite Rmult_0_l, E1. nra. }
  repeat split; lra.
Qed.
Theorem C05_end_slope_in_region : forall s d : R, 0 <= s -> 0 <= d <= 2 * s ->
  let e := 3 / 2 * s - 1 / 2 * d in 0 <= e <= 3 * s.
Proof. intros s d H0 H1 e. unfold e. lra. Qed.

(* slope zero at a data extremum or plateau edge: exactly, over the reals (C04_fdx_flat); collinear knots
   reproduce the straight line: equal secant slopes s give knot slopes s (harmonic mean of s and s, 3/2 s - s/2)
   and the cubic with f0 = f1 = secant slope is the line *)
Theorem C05_harmonic_equal : forall s : R, s <> 0 -> 2 * s * s / (s + s) = s.
Proof. intros. field. lra. Qed.
Theorem C05_collinear_segment : forall x0 y0 x1 y1 : R, x1 - x0 <> 0 ->
  let s := (y1 - y0) / (x1 - x0) in
  forall x, polyval (cubic s x0 y0 s x1 y1) x = y0 + s * (x - x0).
Proof.
  intros x0 y0 x1 y1 H s x. unfold s, cubic, k_spline__segment. reval. norm_lits. cbn [tl polyval]. field. exact H.
Qed.

(* ---- binary64: the returned cubic overshoots the knot ordinates by at most the construction's running error bound ---- *)
From Flocq Require Import Core BinarySingleNaN.
Require Import PP.FloatModel PP.ErrorBound PP.ErrorRun PP.SafeDec PP.Proofs.SplineFloat.
From Coq Require Import QArith Qreals.
Local Open Scope R_scope.
Theorem C05_no_overshoot_float : forall (f0 x0 y0 f1 x1 y1 : F),
  let env := [f0; x0; y0; f1; x1; y1] in
  (forall i, (1 <= i <= 4)%nat -> safe_run env (coef_e i)) -> B2R x0 < B2R x1 ->
  let s := (B2R y1 - B2R y0) / (B2R x1 - B2R x0) in
  0 <= B2R f0 <= 3 * s -> 0 <= B2R f1 <= 3 * s ->
  let ch := map (fun i => B2R (fev env (coef_e i))) [1; 2; 3; 4]%nat in
  let er := map (fun i => err_run env (coef_e i)) [1; 2; 3; 4]%nat in
  forall x, B2R x0 <= x <= B2R x1 ->
  B2R y0 - polyval er (Rabs x) <= polyval ch x <= B2R y1 + polyval er (Rabs x).
Proof.
  intros f0 x0 y0 f1 x1 y1 env Hs Hx s H0 H1 ch er x Hin.
  assert (D := C04_cubic_deviation f0 x0 y0 f1 x1 y1 x Hs). cbv zeta in D. fold env ch er in D.
  destruct (C05_no_overshoot_up (B2R f0) (B2R x0) (B2R y0) (B2R f1) (B2R x1) (B2R y1) Hx H0 H1) as [_ B].
  specialize (B x Hin). apply Rabs_le_inv in D. lra.
Qed.

(* non-vacuity: the input of C04_float_hypotheses_hold, (f0, x0, y0, f1, x1, y1) = (0.8, 0.3, 1.0, 1.9, 2.1, 3.6), also meets the
   remaining hypotheses of C05_no_overshoot_float: x0 < x1 and both slopes in [0, 3s] (decided in rational arithmetic) *)
Example C05_float_hypotheses_hold :
  let f0 := of_bits 4605380978949069210 in let x0 := of_bits 4599075939470750515 in let y0 := of_bits 4607182418800017408 in
  let f1 := of_bits 4611235658464650854 in let x1 := of_bits 4611911198408756429 in let y1 := of_bits 4615288898129284301 in
  (forall i, (1 <= i <= 4)%nat -> safe_run [f0; x0; y0; f1; x1; y1] (coef_e i)) /\
  B2R x0 < B2R x1 /\
  (let s := (B2R y1 - B2R y0) / (B2R x1 - B2R x0) in 0 <= B2R f0 <= 3 * s /\ 0 <= B2R f1 <= 3 * s).
Proof.
  cbv zeta. split; [exact (proj1 C04_float_hypotheses_hold)|].
  rewrite <- !F2Q_correct.
  assert (D : ~ (F2Q (of_bits 4611911198408756429) - F2Q (of_bits 4599075939470750515) == 0)%Q) by (vm_compute; discriminate).
  assert (E : 3 * ((Q2R (F2Q (of_bits 4615288898129284301)) - Q2R (F2Q (of_bits 4607182418800017408))) / (Q2R (F2Q (of_bits 4611911198408756429)) - Q2R (F2Q (of_bits 4599075939470750515)))) =
              Q2R (3 * ((F2Q (of_bits 4615288898129284301) - F2Q (of_bits 4607182418800017408)) / (F2Q (of_bits 4611911198408756429) - F2Q (of_bits 4599075939470750515))))).
  { rewrite Q2R_mult, Q2R_div, !Q2R_minus by exact D. replace (Q2R 3) with 3; [reflexivity|unfold Q2R; cbn [Qnum Qden]; lra]. }
  rewrite E. rewrite <- Q2R_0.
  split; [apply Qlt_Rlt; vm_compute; reflexivity|].
  split; split; apply Qle_Rle; vm_compute; discriminate.
Qed.
