(* C09, binary64 level (partial: relative to the COMPUTED logarithm).  Kept apart from C09.v, whose real-analysis imports
   (Coquelicot) are not needed here.
   For ANY libm (ln_f arbitrary) the evaluator IntOfLog<PolyK>::evaluate and the constructor Log<PolyK>::integral, as run by the
   crate, are - bit for bit - libm-free templates evaluated at the computed logarithm (x^ = ln_f v, resp. ln_f knot.x); the
   a-priori error analysis bounds every number they produce by (a small multiple of) 2^-53 times the sum of the magnitudes of
   its terms, for all finite inputs on which no operation under/overflows (`safe`, decidable: lib/SafeDec.v).
   Not proved: the step from the computed to the exact logarithm (accuracy of the platform's ln) - 400-bit oracle.
   The quartic degree has its own representation; its evaluator is treated in C10 (C10_series_accuracy_float). *)
From Coq Require Import List ZArith Reals Lra Lia Bool.
From Flocq Require Import Core BinarySingleNaN.
Require Import PP.FloatModel PP.Expr PP.FloatOps PP.FloatFacts PP.RealOps PP.ErrorBound PP.SafeDec PP.PolyFacts PP.Gen.Kernels
  PP.Proofs.KernelBounds PP.Proofs.LogFloat PP.Proofs.QuarticForm PP.Proofs.QuarticFloat PP.Proofs.QuarticClosedFloat PP.Proofs.QuarticKnotFloat
  PP.Proofs.QuarticIntegralFloat.
Import ListNotations.
Local Open Scope R_scope.

Definition e_IOL0 : expr := hd (Lit 0) k_IntOfLog_Poly0__evaluate.
Definition e_IOL0x : expr := Eval vm_compute in abs_ln 2 3 e_IOL0.
Lemma e_IOL0x_value : forall k q0 v x : R, eval ROps [k; q0; v; x] e_IOL0x = k + v * polyval [q0] x.
Proof. intros. unfold e_IOL0x. reval. cbn [polyval]. ring. Qed.
Lemma e_IOL0x_abs : forall k q0 v x : R, absval [k; q0; v; x] e_IOL0x = Rabs k + Rabs v * polyabs [q0] x.
Proof. intros. unfold e_IOL0x, polyabs. cbn [absval nth map polyval]. ring. Qed.
Theorem C09_IntOfLog0_float : forall (ln_f exp_f : F -> F) (k q0 v : F),
  let env := [k; q0; v; ln_f v] in
  safe env e_IOL0x ->
  eval (FOpsG ln_f exp_f) [k; q0; v] e_IOL0 = fev env e_IOL0x /\
  Rabs (B2R (fev env e_IOL0x) - (B2R k + B2R v * polyval [B2R q0] (B2R (ln_f v))))
  <= 4 * INR 3 * FloatFacts.u * (Rabs (B2R k) + Rabs (B2R v) * polyabs [B2R q0] (B2R (ln_f v))).
Proof.
  intros ln_f exp_f k q0 v env Hs. split.
  - change e_IOL0 with (subst [Var 0; Var 1; Var 2; Ln (Var 2)] e_IOL0x).
    rewrite eval_subst by (vm_compute; reflexivity). cbn [map eval nth FOpsG o_ln o_default].
    apply eval_oracle_free. vm_compute. reflexivity.
  - apply kernel_bound; [vm_compute; reflexivity|exact Hs|vm_compute; lia|lia|unfold rval; cbn [map env]; apply e_IOL0x_value|cbn [map env]; apply e_IOL0x_abs].
Qed.

Definition e_IOL1 : expr := hd (Lit 0) k_IntOfLog_Poly1__evaluate.
Definition e_IOL1x : expr := Eval vm_compute in abs_ln 3 4 e_IOL1.
Lemma e_IOL1x_value : forall k q0 q1 v x : R, eval ROps [k; q0; q1; v; x] e_IOL1x = k + v * polyval [q0; q1] x.
Proof. intros. unfold e_IOL1x. reval. cbn [polyval]. ring. Qed.
Lemma e_IOL1x_abs : forall k q0 q1 v x : R, absval [k; q0; q1; v; x] e_IOL1x = Rabs k + Rabs v * polyabs [q0; q1] x.
Proof. intros. unfold e_IOL1x, polyabs. cbn [absval nth map polyval]. ring. Qed.
Theorem C09_IntOfLog1_float : forall (ln_f exp_f : F -> F) (k q0 q1 v : F),
  let env := [k; q0; q1; v; ln_f v] in
  safe env e_IOL1x ->
  eval (FOpsG ln_f exp_f) [k; q0; q1; v] e_IOL1 = fev env e_IOL1x /\
  Rabs (B2R (fev env e_IOL1x) - (B2R k + B2R v * polyval [B2R q0; B2R q1] (B2R (ln_f v))))
  <= 4 * INR 4 * FloatFacts.u * (Rabs (B2R k) + Rabs (B2R v) * polyabs [B2R q0; B2R q1] (B2R (ln_f v))).
Proof.
  intros ln_f exp_f k q0 q1 v env Hs. split.
  - change e_IOL1 with (subst [Var 0; Var 1; Var 2; Var 3; Ln (Var 3)] e_IOL1x).
    rewrite eval_subst by (vm_compute; reflexivity). cbn [map eval nth FOpsG o_ln o_default].
    apply eval_oracle_free. vm_compute. reflexivity.
  - apply kernel_bound; [vm_compute; reflexivity|exact Hs|vm_compute; lia|lia|unfold rval; cbn [map env]; apply e_IOL1x_value|cbn [map env]; apply e_IOL1x_abs].
Qed.

Definition e_IOL2 : expr := hd (Lit 0) k_IntOfLog_Poly2__evaluate.
Definition e_IOL2x : expr := Eval vm_compute in abs_ln 4 5 e_IOL2.
Lemma e_IOL2x_value : forall k q0 q1 q2 v x : R, eval ROps [k; q0; q1; q2; v; x] e_IOL2x = k + v * polyval [q0; q1; q2] x.
Proof. intros. unfold e_IOL2x. reval. cbn [polyval]. ring. Qed.
Lemma e_IOL2x_abs : forall k q0 q1 q2 v x : R, absval [k; q0; q1; q2; v; x] e_IOL2x = Rabs k + Rabs v * polyabs [q0; q1; q2] x.
Proof. intros. unfold e_IOL2x, polyabs. cbn [absval nth map polyval]. ring. Qed.
Theorem C09_IntOfLog2_float : forall (ln_f exp_f : F -> F) (k q0 q1 q2 v : F),
  let env := [k; q0; q1; q2; v; ln_f v] in
  safe env e_IOL2x ->
  eval (FOpsG ln_f exp_f) [k; q0; q1; q2; v] e_IOL2 = fev env e_IOL2x /\
  Rabs (B2R (fev env e_IOL2x) - (B2R k + B2R v * polyval [B2R q0; B2R q1; B2R q2] (B2R (ln_f v))))
  <= 4 * INR 5 * FloatFacts.u * (Rabs (B2R k) + Rabs (B2R v) * polyabs [B2R q0; B2R q1; B2R q2] (B2R (ln_f v))).
Proof.
  intros ln_f exp_f k q0 q1 q2 v env Hs. split.
  - change e_IOL2 with (subst [Var 0; Var 1; Var 2; Var 3; Var 4; Ln (Var 4)] e_IOL2x).
    rewrite eval_subst by (vm_compute; reflexivity). cbn [map eval nth FOpsG o_ln o_default].
    apply eval_oracle_free. vm_compute. reflexivity.
  - apply kernel_bound; [vm_compute; reflexivity|exact Hs|vm_compute; lia|lia|unfold rval; cbn [map env]; apply e_IOL2x_value|cbn [map env]; apply e_IOL2x_abs].
Qed.

Definition e_IOL3 : expr := hd (Lit 0) k_IntOfLog_Poly3__evaluate.
Definition e_IOL3x : expr := Eval vm_compute in abs_ln 5 6 e_IOL3.
Lemma e_IOL3x_value : forall k q0 q1 q2 q3 v x : R, eval ROps [k; q0; q1; q2; q3; v; x] e_IOL3x = k + v * polyval [q0; q1; q2; q3] x.
Proof. intros. unfold e_IOL3x. reval. cbn [polyval]. ring. Qed.
Lemma e_IOL3x_abs : forall k q0 q1 q2 q3 v x : R, absval [k; q0; q1; q2; q3; v; x] e_IOL3x = Rabs k + Rabs v * polyabs [q0; q1; q2; q3] x.
Proof. intros. unfold e_IOL3x, polyabs. cbn [absval nth map polyval]. ring. Qed.
Theorem C09_IntOfLog3_float : forall (ln_f exp_f : F -> F) (k q0 q1 q2 q3 v : F),
  let env := [k; q0; q1; q2; q3; v; ln_f v] in
  safe env e_IOL3x ->
  eval (FOpsG ln_f exp_f) [k; q0; q1; q2; q3; v] e_IOL3 = fev env e_IOL3x /\
  Rabs (B2R (fev env e_IOL3x) - (B2R k + B2R v * polyval [B2R q0; B2R q1; B2R q2; B2R q3] (B2R (ln_f v))))
  <= 4 * INR 6 * FloatFacts.u * (Rabs (B2R k) + Rabs (B2R v) * polyabs [B2R q0; B2R q1; B2R q2; B2R q3] (B2R (ln_f v))).
Proof.
  intros ln_f exp_f k q0 q1 q2 q3 v env Hs. split.
  - change e_IOL3 with (subst [Var 0; Var 1; Var 2; Var 3; Var 4; Var 5; Ln (Var 5)] e_IOL3x).
    rewrite eval_subst by (vm_compute; reflexivity). cbn [map eval nth FOpsG o_ln o_default].
    apply eval_oracle_free. vm_compute. reflexivity.
  - apply kernel_bound; [vm_compute; reflexivity|exact Hs|vm_compute; lia|lia|unfold rval; cbn [map env]; apply e_IOL3x_value|cbn [map env]; apply e_IOL3x_abs].
Qed.

Definition e_IOL5 : expr := hd (Lit 0) k_IntOfLog_Poly5__evaluate.
Definition e_IOL5x : expr := Eval vm_compute in abs_ln 7 8 e_IOL5.
Lemma e_IOL5x_value : forall k q0 q1 q2 q3 q4 q5 v x : R, eval ROps [k; q0; q1; q2; q3; q4; q5; v; x] e_IOL5x = k + v * polyval [q0; q1; q2; q3; q4; q5] x.
Proof. intros. unfold e_IOL5x. reval. cbn [polyval]. ring. Qed.
Lemma e_IOL5x_abs : forall k q0 q1 q2 q3 q4 q5 v x : R, absval [k; q0; q1; q2; q3; q4; q5; v; x] e_IOL5x = Rabs k + Rabs v * polyabs [q0; q1; q2; q3; q4; q5] x.
Proof. intros. unfold e_IOL5x, polyabs. cbn [absval nth map polyval]. ring. Qed.
Theorem C09_IntOfLog5_float : forall (ln_f exp_f : F -> F) (k q0 q1 q2 q3 q4 q5 v : F),
  let env := [k; q0; q1; q2; q3; q4; q5; v; ln_f v] in
  safe env e_IOL5x ->
  eval (FOpsG ln_f exp_f) [k; q0; q1; q2; q3; q4; q5; v] e_IOL5 = fev env e_IOL5x /\
  Rabs (B2R (fev env e_IOL5x) - (B2R k + B2R v * polyval [B2R q0; B2R q1; B2R q2; B2R q3; B2R q4; B2R q5] (B2R (ln_f v))))
  <= 4 * INR 8 * FloatFacts.u * (Rabs (B2R k) + Rabs (B2R v) * polyabs [B2R q0; B2R q1; B2R q2; B2R q3; B2R q4; B2R q5] (B2R (ln_f v))).
Proof.
  intros ln_f exp_f k q0 q1 q2 q3 q4 q5 v env Hs. split.
  - change e_IOL5 with (subst [Var 0; Var 1; Var 2; Var 3; Var 4; Var 5; Var 6; Var 7; Ln (Var 7)] e_IOL5x).
    rewrite eval_subst by (vm_compute; reflexivity). cbn [map eval nth FOpsG o_ln o_default].
    apply eval_oracle_free. vm_compute. reflexivity.
  - apply kernel_bound; [vm_compute; reflexivity|exact Hs|vm_compute; lia|lia|unfold rval; cbn [map env]; apply e_IOL5x_value|cbn [map env]; apply e_IOL5x_abs].
Qed.

Definition e_IOL6 : expr := hd (Lit 0) k_IntOfLog_Poly6__evaluate.
Definition e_IOL6x : expr := Eval vm_compute in abs_ln 8 9 e_IOL6.
Lemma e_IOL6x_value : forall k q0 q1 q2 q3 q4 q5 q6 v x : R, eval ROps [k; q0; q1; q2; q3; q4; q5; q6; v; x] e_IOL6x = k + v * polyval [q0; q1; q2; q3; q4; q5; q6] x.
Proof. intros. unfold e_IOL6x. reval. cbn [polyval]. ring. Qed.
Lemma e_IOL6x_abs : forall k q0 q1 q2 q3 q4 q5 q6 v x : R, absval [k; q0; q1; q2; q3; q4; q5; q6; v; x] e_IOL6x = Rabs k + Rabs v * polyabs [q0; q1; q2; q3; q4; q5; q6] x.
Proof. intros. unfold e_IOL6x, polyabs. cbn [absval nth map polyval]. ring. Qed.
Theorem C09_IntOfLog6_float : forall (ln_f exp_f : F -> F) (k q0 q1 q2 q3 q4 q5 q6 v : F),
  let env := [k; q0; q1; q2; q3; q4; q5; q6; v; ln_f v] in
  safe env e_IOL6x ->
  eval (FOpsG ln_f exp_f) [k; q0; q1; q2; q3; q4; q5; q6; v] e_IOL6 = fev env e_IOL6x /\
  Rabs (B2R (fev env e_IOL6x) - (B2R k + B2R v * polyval [B2R q0; B2R q1; B2R q2; B2R q3; B2R q4; B2R q5; B2R q6] (B2R (ln_f v))))
  <= 4 * INR 9 * FloatFacts.u * (Rabs (B2R k) + Rabs (B2R v) * polyabs [B2R q0; B2R q1; B2R q2; B2R q3; B2R q4; B2R q5; B2R q6] (B2R (ln_f v))).
Proof.
  intros ln_f exp_f k q0 q1 q2 q3 q4 q5 q6 v env Hs. split.
  - change e_IOL6 with (subst [Var 0; Var 1; Var 2; Var 3; Var 4; Var 5; Var 6; Var 7; Var 8; Ln (Var 8)] e_IOL6x).
    rewrite eval_subst by (vm_compute; reflexivity). cbn [map eval nth FOpsG o_ln o_default].
    apply eval_oracle_free. vm_compute. reflexivity.
  - apply kernel_bound; [vm_compute; reflexivity|exact Hs|vm_compute; lia|lia|unfold rval; cbn [map env]; apply e_IOL6x_value|cbn [map env]; apply e_IOL6x_abs].
Qed.

Definition e_IOL7 : expr := hd (Lit 0) k_IntOfLog_Poly7__evaluate.
Definition e_IOL7x : expr := Eval vm_compute in abs_ln 9 10 e_IOL7.
Lemma e_IOL7x_value : forall k q0 q1 q2 q3 q4 q5 q6 q7 v x : R, eval ROps [k; q0; q1; q2; q3; q4; q5; q6; q7; v; x] e_IOL7x = k + v * polyval [q0; q1; q2; q3; q4; q5; q6; q7] x.
Proof. intros. unfold e_IOL7x. reval. cbn [polyval]. ring. Qed.
Lemma e_IOL7x_abs : forall k q0 q1 q2 q3 q4 q5 q6 q7 v x : R, absval [k; q0; q1; q2; q3; q4; q5; q6; q7; v; x] e_IOL7x = Rabs k + Rabs v * polyabs [q0; q1; q2; q3; q4; q5; q6; q7] x.
Proof. intros. unfold e_IOL7x, polyabs. cbn [absval nth map polyval]. ring. Qed.
Theorem C09_IntOfLog7_float : forall (ln_f exp_f : F -> F) (k q0 q1 q2 q3 q4 q5 q6 q7 v : F),
  let env := [k; q0; q1; q2; q3; q4; q5; q6; q7; v; ln_f v] in
  safe env e_IOL7x ->
  eval (FOpsG ln_f exp_f) [k; q0; q1; q2; q3; q4; q5; q6; q7; v] e_IOL7 = fev env e_IOL7x /\
  Rabs (B2R (fev env e_IOL7x) - (B2R k + B2R v * polyval [B2R q0; B2R q1; B2R q2; B2R q3; B2R q4; B2R q5; B2R q6; B2R q7] (B2R (ln_f v))))
  <= 4 * INR 10 * FloatFacts.u * (Rabs (B2R k) + Rabs (B2R v) * polyabs [B2R q0; B2R q1; B2R q2; B2R q3; B2R q4; B2R q5; B2R q6; B2R q7] (B2R (ln_f v))).
Proof.
  intros ln_f exp_f k q0 q1 q2 q3 q4 q5 q6 q7 v env Hs. split.
  - change e_IOL7 with (subst [Var 0; Var 1; Var 2; Var 3; Var 4; Var 5; Var 6; Var 7; Var 8; Var 9; Ln (Var 9)] e_IOL7x).
    rewrite eval_subst by (vm_compute; reflexivity). cbn [map eval nth FOpsG o_ln o_default].
    apply eval_oracle_free. vm_compute. reflexivity.
  - apply kernel_bound; [vm_compute; reflexivity|exact Hs|vm_compute; lia|lia|unfold rval; cbn [map env]; apply e_IOL7x_value|cbn [map env]; apply e_IOL7x_abs].
Qed.

Definition e_IOL8 : expr := hd (Lit 0) k_IntOfLog_Poly8__evaluate.
Definition e_IOL8x : expr := Eval vm_compute in abs_ln 10 11 e_IOL8.
Lemma e_IOL8x_value : forall k q0 q1 q2 q3 q4 q5 q6 q7 q8 v x : R, eval ROps [k; q0; q1; q2; q3; q4; q5; q6; q7; q8; v; x] e_IOL8x = k + v * polyval [q0; q1; q2; q3; q4; q5; q6; q7; q8] x.
Proof. intros. unfold e_IOL8x. reval. cbn [polyval]. ring. Qed.
Lemma e_IOL8x_abs : forall k q0 q1 q2 q3 q4 q5 q6 q7 q8 v x : R, absval [k; q0; q1; q2; q3; q4; q5; q6; q7; q8; v; x] e_IOL8x = Rabs k + Rabs v * polyabs [q0; q1; q2; q3; q4; q5; q6; q7; q8] x.
Proof. intros. unfold e_IOL8x, polyabs. cbn [absval nth map polyval]. ring. Qed.
Theorem C09_IntOfLog8_float : forall (ln_f exp_f : F -> F) (k q0 q1 q2 q3 q4 q5 q6 q7 q8 v : F),
  let env := [k; q0; q1; q2; q3; q4; q5; q6; q7; q8; v; ln_f v] in
  safe env e_IOL8x ->
  eval (FOpsG ln_f exp_f) [k; q0; q1; q2; q3; q4; q5; q6; q7; q8; v] e_IOL8 = fev env e_IOL8x /\
  Rabs (B2R (fev env e_IOL8x) - (B2R k + B2R v * polyval [B2R q0; B2R q1; B2R q2; B2R q3; B2R q4; B2R q5; B2R q6; B2R q7; B2R q8] (B2R (ln_f v))))
  <= 4 * INR 11 * FloatFacts.u * (Rabs (B2R k) + Rabs (B2R v) * polyabs [B2R q0; B2R q1; B2R q2; B2R q3; B2R q4; B2R q5; B2R q6; B2R q7; B2R q8] (B2R (ln_f v))).
Proof.
  intros ln_f exp_f k q0 q1 q2 q3 q4 q5 q6 q7 q8 v env Hs. split.
  - change e_IOL8 with (subst [Var 0; Var 1; Var 2; Var 3; Var 4; Var 5; Var 6; Var 7; Var 8; Var 9; Var 10; Ln (Var 10)] e_IOL8x).
    rewrite eval_subst by (vm_compute; reflexivity). cbn [map eval nth FOpsG o_ln o_default].
    apply eval_oracle_free. vm_compute. reflexivity.
  - apply kernel_bound; [vm_compute; reflexivity|exact Hs|vm_compute; lia|lia|unfold rval; cbn [map env]; apply e_IOL8x_value|cbn [map env]; apply e_IOL8x_abs].
Qed.

(* Log<Poly0>::integral: the numbers (k, q0..q0) of the returned form, as computed in binary64, are the libm-free template
   evaluated at the computed logarithm ln_f kx, each within th(depth)*absval of its exact value there *)
Definition outs_LogInt0 : list expr := Eval vm_compute in map (abs_ln 1 3) k_Log_Poly0__integral.
Theorem C09_Log0_integral_float : forall (ln_f exp_f : F -> F) (c0 kx ky : F),
  let env := [c0; kx; ky; ln_f kx] in
  Forall (safe env) outs_LogInt0 ->
  evals (FOpsG ln_f exp_f) [c0; kx; ky] k_Log_Poly0__integral = map (fev env) outs_LogInt0 /\
  Forall (fun e => Rabs (B2R (fev env e) - rval env e) <= th (depth e) * absval (map B2R env) e) outs_LogInt0.
Proof.
  intros ln_f exp_f c0 kx ky env Hs. split.
  - change k_Log_Poly0__integral with (map (subst [Var 0; Var 1; Var 2; Ln (Var 1)]) outs_LogInt0).
    unfold evals. rewrite map_map. apply map_ext_in. intros e He.
    rewrite eval_subst by (revert e He; apply Forall_forall; vm_compute; repeat constructor).
    cbn [map eval nth FOpsG o_ln o_default]. apply eval_oracle_free.
    revert e He. apply Forall_forall. vm_compute. repeat constructor.
  - apply Forall_forall. intros e He. rewrite Forall_forall in Hs.
    apply eval_apriori; [|now apply Hs]. revert e He. apply Forall_forall. vm_compute. repeat constructor.
Qed.

(* Log<Poly1>::integral: the numbers (k, q0..q1) of the returned form, as computed in binary64, are the libm-free template
   evaluated at the computed logarithm ln_f kx, each within th(depth)*absval of its exact value there *)
Definition outs_LogInt1 : list expr := Eval vm_compute in map (abs_ln 2 4) k_Log_Poly1__integral.
Theorem C09_Log1_integral_float : forall (ln_f exp_f : F -> F) (c0 c1 kx ky : F),
  let env := [c0; c1; kx; ky; ln_f kx] in
  Forall (safe env) outs_LogInt1 ->
  evals (FOpsG ln_f exp_f) [c0; c1; kx; ky] k_Log_Poly1__integral = map (fev env) outs_LogInt1 /\
  Forall (fun e => Rabs (B2R (fev env e) - rval env e) <= th (depth e) * absval (map B2R env) e) outs_LogInt1.
Proof.
  intros ln_f exp_f c0 c1 kx ky env Hs. split.
  - change k_Log_Poly1__integral with (map (subst [Var 0; Var 1; Var 2; Var 3; Ln (Var 2)]) outs_LogInt1).
    unfold evals. rewrite map_map. apply map_ext_in. intros e He.
    rewrite eval_subst by (revert e He; apply Forall_forall; vm_compute; repeat constructor).
    cbn [map eval nth FOpsG o_ln o_default]. apply eval_oracle_free.
    revert e He. apply Forall_forall. vm_compute. repeat constructor.
  - apply Forall_forall. intros e He. rewrite Forall_forall in Hs.
    apply eval_apriori; [|now apply Hs]. revert e He. apply Forall_forall. vm_compute. repeat constructor.
Qed.

(* Log<Poly2>::integral: the numbers (k, q0..q2) of the returned form, as computed in binary64, are the libm-free template
   evaluated at the computed logarithm ln_f kx, each within th(depth)*absval of its exact value there *)
Definition outs_LogInt2 : list expr := Eval vm_compute in map (abs_ln 3 5) k_Log_Poly2__integral.
Theorem C09_Log2_integral_float : forall (ln_f exp_f : F -> F) (c0 c1 c2 kx ky : F),
  let env := [c0; c1; c2; kx; ky; ln_f kx] in
  Forall (safe env) outs_LogInt2 ->
  evals (FOpsG ln_f exp_f) [c0; c1; c2; kx; ky] k_Log_Poly2__integral = map (fev env) outs_LogInt2 /\
  Forall (fun e => Rabs (B2R (fev env e) - rval env e) <= th (depth e) * absval (map B2R env) e) outs_LogInt2.
Proof.
  intros ln_f exp_f c0 c1 c2 kx ky env Hs. split.
  - change k_Log_Poly2__integral with (map (subst [Var 0; Var 1; Var 2; Var 3; Var 4; Ln (Var 3)]) outs_LogInt2).
    unfold evals. rewrite map_map. apply map_ext_in. intros e He.
    rewrite eval_subst by (revert e He; apply Forall_forall; vm_compute; repeat constructor).
    cbn [map eval nth FOpsG o_ln o_default]. apply eval_oracle_free.
    revert e He. apply Forall_forall. vm_compute. repeat constructor.
  - apply Forall_forall. intros e He. rewrite Forall_forall in Hs.
    apply eval_apriori; [|now apply Hs]. revert e He. apply Forall_forall. vm_compute. repeat constructor.
Qed.

(* Log<Poly3>::integral: the numbers (k, q0..q3) of the returned form, as computed in binary64, are the libm-free template
   evaluated at the computed logarithm ln_f kx, each within th(depth)*absval of its exact value there *)
Definition outs_LogInt3 : list expr := Eval vm_compute in map (abs_ln 4 6) k_Log_Poly3__integral.
Theorem C09_Log3_integral_float : forall (ln_f exp_f : F -> F) (c0 c1 c2 c3 kx ky : F),
  let env := [c0; c1; c2; c3; kx; ky; ln_f kx] in
  Forall (safe env) outs_LogInt3 ->
  evals (FOpsG ln_f exp_f) [c0; c1; c2; c3; kx; ky] k_Log_Poly3__integral = map (fev env) outs_LogInt3 /\
  Forall (fun e => Rabs (B2R (fev env e) - rval env e) <= th (depth e) * absval (map B2R env) e) outs_LogInt3.
Proof.
  intros ln_f exp_f c0 c1 c2 c3 kx ky env Hs. split.
  - change k_Log_Poly3__integral with (map (subst [Var 0; Var 1; Var 2; Var 3; Var 4; Var 5; Ln (Var 4)]) outs_LogInt3).
    unfold evals. rewrite map_map. apply map_ext_in. intros e He.
    rewrite eval_subst by (revert e He; apply Forall_forall; vm_compute; repeat constructor).
    cbn [map eval nth FOpsG o_ln o_default]. apply eval_oracle_free.
    revert e He. apply Forall_forall. vm_compute. repeat constructor.
  - apply Forall_forall. intros e He. rewrite Forall_forall in Hs.
    apply eval_apriori; [|now apply Hs]. revert e He. apply Forall_forall. vm_compute. repeat constructor.
Qed.

(* Log<Poly5>::integral: the numbers (k, q0..q5) of the returned form, as computed in binary64, are the libm-free template
   evaluated at the computed logarithm ln_f kx, each within th(depth)*absval of its exact value there *)
Definition outs_LogInt5 : list expr := Eval vm_compute in map (abs_ln 6 8) k_Log_Poly5__integral.
Theorem C09_Log5_integral_float : forall (ln_f exp_f : F -> F) (c0 c1 c2 c3 c4 c5 kx ky : F),
  let env := [c0; c1; c2; c3; c4; c5; kx; ky; ln_f kx] in
  Forall (safe env) outs_LogInt5 ->
  evals (FOpsG ln_f exp_f) [c0; c1; c2; c3; c4; c5; kx; ky] k_Log_Poly5__integral = map (fev env) outs_LogInt5 /\
  Forall (fun e => Rabs (B2R (fev env e) - rval env e) <= th (depth e) * absval (map B2R env) e) outs_LogInt5.
Proof.
  intros ln_f exp_f c0 c1 c2 c3 c4 c5 kx ky env Hs. split.
  - change k_Log_Poly5__integral with (map (subst [Var 0; Var 1; Var 2; Var 3; Var 4; Var 5; Var 6; Var 7; Ln (Var 6)]) outs_LogInt5).
    unfold evals. rewrite map_map. apply map_ext_in. intros e He.
    rewrite eval_subst by (revert e He; apply Forall_forall; vm_compute; repeat constructor).
    cbn [map eval nth FOpsG o_ln o_default]. apply eval_oracle_free.
    revert e He. apply Forall_forall. vm_compute. repeat constructor.
  - apply Forall_forall. intros e He. rewrite Forall_forall in Hs.
    apply eval_apriori; [|now apply Hs]. revert e He. apply Forall_forall. vm_compute. repeat constructor.
Qed.

(* Log<Poly6>::integral: the numbers (k, q0..q6) of the returned form, as computed in binary64, are the libm-free template
   evaluated at the computed logarithm ln_f kx, each within th(depth)*absval of its exact value there *)
Definition outs_LogInt6 : list expr := Eval vm_compute in map (abs_ln 7 9) k_Log_Poly6__integral.
Theorem C09_Log6_integral_float : forall (ln_f exp_f : F -> F) (c0 c1 c2 c3 c4 c5 c6 kx ky : F),
  let env := [c0; c1; c2; c3; c4; c5; c6; kx; ky; ln_f kx] in
  Forall (safe env) outs_LogInt6 ->
  evals (FOpsG ln_f exp_f) [c0; c1; c2; c3; c4; c5; c6; kx; ky] k_Log_Poly6__integral = map (fev env) outs_LogInt6 /\
  Forall (fun e => Rabs (B2R (fev env e) - rval env e) <= th (depth e) * absval (map B2R env) e) outs_LogInt6.
Proof.
  intros ln_f exp_f c0 c1 c2 c3 c4 c5 c6 kx ky env Hs. split.
  - change k_Log_Poly6__integral with (map (subst [Var 0; Var 1; Var 2; Var 3; Var 4; Var 5; Var 6; Var 7; Var 8; Ln (Var 7)]) outs_LogInt6).
    unfold evals. rewrite map_map. apply map_ext_in. intros e He.
    rewrite eval_subst by (revert e He; apply Forall_forall; vm_compute; repeat constructor).
    cbn [map eval nth FOpsG o_ln o_default]. apply eval_oracle_free.
    revert e He. apply Forall_forall. vm_compute. repeat constructor.
  - apply Forall_forall. intros e He. rewrite Forall_forall in Hs.
    apply eval_apriori; [|now apply Hs]. revert e He. apply Forall_forall. vm_compute. repeat constructor.
Qed.

(* Log<Poly7>::integral: the numbers (k, q0..q7) of the returned form, as computed in binary64, are the libm-free template
   evaluated at the computed logarithm ln_f kx, each within th(depth)*absval of its exact value there *)
Definition outs_LogInt7 : list expr := Eval vm_compute in map (abs_ln 8 10) k_Log_Poly7__integral.
Theorem C09_Log7_integral_float : forall (ln_f exp_f : F -> F) (c0 c1 c2 c3 c4 c5 c6 c7 kx ky : F),
  let env := [c0; c1; c2; c3; c4; c5; c6; c7; kx; ky; ln_f kx] in
  Forall (safe env) outs_LogInt7 ->
  evals (FOpsG ln_f exp_f) [c0; c1; c2; c3; c4; c5; c6; c7; kx; ky] k_Log_Poly7__integral = map (fev env) outs_LogInt7 /\
  Forall (fun e => Rabs (B2R (fev env e) - rval env e) <= th (depth e) * absval (map B2R env) e) outs_LogInt7.
Proof.
  intros ln_f exp_f c0 c1 c2 c3 c4 c5 c6 c7 kx ky env Hs. split.
  - change k_Log_Poly7__integral with (map (subst [Var 0; Var 1; Var 2; Var 3; Var 4; Var 5; Var 6; Var 7; Var 8; Var 9; Ln (Var 8)]) outs_LogInt7).
    unfold evals. rewrite map_map. apply map_ext_in. intros e He.
    rewrite eval_subst by (revert e He; apply Forall_forall; vm_compute; repeat constructor).
    cbn [map eval nth FOpsG o_ln o_default]. apply eval_oracle_free.
    revert e He. apply Forall_forall. vm_compute. repeat constructor.
  - apply Forall_forall. intros e He. rewrite Forall_forall in Hs.
    apply eval_apriori; [|now apply Hs]. revert e He. apply Forall_forall. vm_compute. repeat constructor.
Qed.

(* Log<Poly8>::integral: the numbers (k, q0..q8) of the returned form, as computed in binary64, are the libm-free template
   evaluated at the computed logarithm ln_f kx, each within th(depth)*absval of its exact value there *)
Definition outs_LogInt8 : list expr := Eval vm_compute in map (abs_ln 9 11) k_Log_Poly8__integral.
Theorem C09_Log8_integral_float : forall (ln_f exp_f : F -> F) (c0 c1 c2 c3 c4 c5 c6 c7 c8 kx ky : F),
  let env := [c0; c1; c2; c3; c4; c5; c6; c7; c8; kx; ky; ln_f kx] in
  Forall (safe env) outs_LogInt8 ->
  evals (FOpsG ln_f exp_f) [c0; c1; c2; c3; c4; c5; c6; c7; c8; kx; ky] k_Log_Poly8__integral = map (fev env) outs_LogInt8 /\
  Forall (fun e => Rabs (B2R (fev env e) - rval env e) <= th (depth e) * absval (map B2R env) e) outs_LogInt8.
Proof.
  intros ln_f exp_f c0 c1 c2 c3 c4 c5 c6 c7 c8 kx ky env Hs. split.
  - change k_Log_Poly8__integral with (map (subst [Var 0; Var 1; Var 2; Var 3; Var 4; Var 5; Var 6; Var 7; Var 8; Var 9; Var 10; Ln (Var 9)]) outs_LogInt8).
    unfold evals. rewrite map_map. apply map_ext_in. intros e He.
    rewrite eval_subst by (revert e He; apply Forall_forall; vm_compute; repeat constructor).
    cbn [map eval nth FOpsG o_ln o_default]. apply eval_oracle_free.
    revert e He. apply Forall_forall. vm_compute. repeat constructor.
  - apply Forall_forall. intros e He. rewrite Forall_forall in Hs.
    apply eval_apriori; [|now apply Hs]. revert e He. apply Forall_forall. vm_compute. repeat constructor.
Qed.

(* non-vacuity *)
Example C09_float_hypotheses_hold :
  safe (map of_bits [4602678819172646912; 4609434218613702656; 13835058055282163712; 4598175219545276416; 4613937818241073152; 4608308318706860032; 4597207614006925858]%Z) e_IOL3x /\
  Forall (safe (map of_bits [4609434218613702656; 13835058055282163712; 4598175219545276416; 4613937818241073152; 4608308318706860032; 4604930618986332160; 4597207614006925858]%Z)) outs_LogInt3.
Proof.
  split; [apply safe1_sound; vm_compute; reflexivity|].
  match goal with |- Forall _ ?l => assert (H : forallb (safeb (map of_bits [4609434218613702656; 13835058055282163712; 4598175219545276416; 4613937818241073152; 4608308318706860032; 4604930618986332160; 4597207614006925858]%Z)) l = true) by (vm_compute; reflexivity) end.
  apply Forall_forall. intros e He. apply safeb_sound. rewrite forallb_forall in H. now apply H.
Qed.

(* ---- the quartic degree: F(knot.x) = knot.y at binary64, for ANY libm.  Log<Poly4>::integral returns an IntOfLogPoly4 whose
   constant is knot.y minus the very expression IntOfLogPoly4::evaluate adds back at knot.x; both compute x^ = -(ln_f knot.x) and
   run the same window test on it, so per branch the composition is one libm-free term whose real value is exactly knot.y
   (proofs/QuarticIntegralFloat.v). ---- *)
Theorem C09_Log4_knot_float_series : forall (ln_f exp_f : F -> F) (c0 c1 c2 c3 c4 kx ky : F),
  let xh := fneg (ln_f kx) in
  let env := [c0; c1; c2; c3; c4; kx; ky; xh] in
  flt (of_bits 13833752011390226268) xh && flt xh (of_bits 4610425010531724165) = true ->
  safe env e_i4knot_series ->
  eval (FOpsG ln_f exp_f) (evals (FOpsG ln_f exp_f) [c0; c1; c2; c3; c4; kx; ky] k_Log_Poly4__integral ++ [kx])
       (hd (Lit 0) k_IntOfLogPoly4__evaluate) = fev env e_i4knot_series /\
  Rabs (B2R (fev env e_i4knot_series) - B2R ky) <= 2 * INR (depth e_i4knot_series) * FloatFacts.u * absval (map B2R env) e_i4knot_series.
Proof. exact i4knot_series_float. Qed.

Theorem C09_Log4_knot_float_closed : forall (ln_f exp_f : F -> F) (c0 c1 c2 c3 c4 kx ky : F),
  let xh := fneg (ln_f kx) in
  let rh := fdiv (of_bits 4607182418800017408) xh in
  let Eh := exp_f (fdiv (of_bits 4607182418800017408) rh) in
  let env := [c0; c1; c2; c3; c4; kx; ky; xh; rh; Eh] in
  flt (of_bits 13833752011390226268) xh && flt xh (of_bits 4610425010531724165) = false ->
  safe env e_i4knot_closed ->
  eval (FOpsG ln_f exp_f) (evals (FOpsG ln_f exp_f) [c0; c1; c2; c3; c4; kx; ky] k_Log_Poly4__integral ++ [kx])
       (hd (Lit 0) k_IntOfLogPoly4__evaluate) = fev env e_i4knot_closed /\
  Rabs (B2R (fev env e_i4knot_closed) - B2R ky) <= 2 * INR (depth e_i4knot_closed) * FloatFacts.u * absval (map B2R env) e_i4knot_closed.
Proof. exact i4knot_closed_float. Qed.

(* non-vacuity: c = (1.1, -2.3, 0.7, 3.25, -0.5), knot (1.25, -1.2) [series] and knot (7, -1.2) [closed form], with the logarithms /
   exponential glibc returns *)
Example C09_Log4_knot_hypotheses_hold :
  (let xh := of_bits 13820579650861701666 in
   flt (of_bits 13833752011390226268) xh && flt xh (of_bits 4610425010531724165) = true /\
   safe (map of_bits [4607632778762754458; 13835733595226269286; 4604480259023595110; 4614500768194494464;
                      13826050856027422720; 4608308318706860032; 13831455175580267315]%Z ++ [xh]) e_i4knot_series) /\
  (let xh := of_bits 13834814456249604695 in
   let rh := fdiv (of_bits 4607182418800017408) xh in
   flt (of_bits 13833752011390226268) xh && flt xh (of_bits 4610425010531724165) = false /\
   safe (map of_bits [4607632778762754458; 13835733595226269286; 4604480259023595110; 4614500768194494464;
                      13826050856027422720; 4619567317775286272; 13831455175580267315]%Z ++ [xh; rh; of_bits 4594314991293244563]) e_i4knot_closed).
Proof.
  cbv zeta. split; split; [vm_compute; reflexivity|apply safe1_sound; vm_compute; reflexivity|vm_compute; reflexivity|apply safe1_sound; vm_compute; reflexivity].
Qed.
