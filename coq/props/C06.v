(* C06 - linear() interpolates the knots and forces breakpoints to be non-decreasing. *)
From Coq Require Import List ZArith Reals Lra Lia Bool.
From Flocq Require Import Core BinarySingleNaN.
Require Import PP.FloatModel PP.FloatOrder PP.Expr PP.FloatOps PP.FloatFacts PP.RealOps PP.Shapes PP.Model.PwModel PP.Model.Run
  PP.Proofs.LinearProofs PP.Proofs.BuildersProofs PP.Gen.Kernels.
Import ListNotations.

(* ---- breakpoints (binary64, bit level) ---- *)
(* incr_linear(prev, cur): the segment's end and the new prev.x are max(prev.x, cur.x); the new prev.y is cur.y *)
Theorem C06_incr_shape :
  length k_linear__incr_linear = 5%nat /\
  lane_ok (LMax 0 2) (nth 0 k_linear__incr_linear (Lit 0)) = true /\
  lane_ok (LMax 0 2) (nth 3 k_linear__incr_linear (Lit 0)) = true /\
  lane_ok (LVar 3) (nth 4 k_linear__incr_linear (Lit 0)) = true.
Proof. vm_compute. repeat split; reflexivity. Qed.

Lemma incr_end : forall p c : F * F, fst (fst (incr_k [] [] k_linear__incr_linear p c)) = fmax (fst p) (fst c).
Proof.
  intros p c. unfold incr_k, kap, evals. cbn [fst]. change fnan with (eval (FOps [] []) [fst p; snd p; fst c; snd c] (Lit 9221120237041090560)) at 1.
  rewrite map_nth. destruct C06_incr_shape as (_ & H & _). apply (lane_ok_sem _ _ [fst p; snd p; fst c; snd c]) in H. exact H.
Qed.
Lemma incr_prev : forall p c : F * F, snd (incr_k [] [] k_linear__incr_linear p c) = (fmax (fst p) (fst c), snd c).
Proof.
  intros p c. unfold incr_k, kap, evals. cbn [snd].
  change fnan with (eval (FOps [] []) [fst p; snd p; fst c; snd c] (Lit 9221120237041090560)).
  rewrite !map_nth. destruct C06_incr_shape as (_ & _ & H3 & H4).
  apply (lane_ok_sem _ _ [fst p; snd p; fst c; snd c]) in H3. apply (lane_ok_sem _ _ [fst p; snd p; fst c; snd c]) in H4.
  apply f_equal2; [exact H3|exact H4].
Qed.

(* at least two knots: one segment per consecutive knot pair, ends = running maximum of the abscissae *)
Theorem C06_ends : forall (k0 k1 : F * F) (rest : list (F * F)),
  exists r, linear (incr_k [] [] k_linear__incr_linear) (k0 :: k1 :: rest) = Some r /\
            length r = S (length rest) /\
            map fst r = runmax F fmax (fst k0) (map fst (k1 :: rest)).
Proof.
  intros. eexists. split; [reflexivity|]. split.
  - rewrite linear_go_length. reflexivity.
  - apply (linear_go_ends F (F * list F) fst fmax (incr_k [] [] k_linear__incr_linear) incr_end incr_prev).
Qed.
(* hence always non-decreasing, and never below the abscissa of the right knot of the pair *)
Theorem C06_sorted : forall (m : F) (xs : list F), ok m -> Forall ok xs -> nondecr_from m (runmax F fmax m xs).
Proof. exact runmax_sorted. Qed.
Theorem C06_dominates : forall (m : F) (xs : list F), ok m -> Forall ok xs ->
  Forall2 (fun x e => fle x e = true) xs (runmax F fmax m xs).
Proof. exact runmax_dominates. Qed.
Theorem C06_rejects : forall (ks : list (F * F)), (length ks < 2)%nat -> linear (incr_k [] [] k_linear__incr_linear) ks = None.
Proof. intros. now apply linear_rejects. Qed.

(* ---- the segment between two knots, over the reals (eps = 2^-52 exactly) ---- *)
Local Open Scope R_scope.
Definition eps : R := litR 4372995238176751616.
Lemma eps_val : eps = / 4503599627370496.
Proof. unfold eps. norm_lits. lra. Qed.
Definition seg_c0 (x0 y0 x1 y1 : R) : R := nth 1 (evals ROps [x0; y0; x1; y1] k_linear__segment) 0.
Definition seg_c1 (x0 y0 x1 y1 : R) : R := nth 2 (evals ROps [x0; y0; x1; y1] k_linear__segment) 0.
Theorem C06_segment_end : forall x0 y0 x1 y1 : R, nth 0 (evals ROps [x0; y0; x1; y1] k_linear__segment) 0 = x1.
Proof. intros. unfold k_linear__segment. reval. reflexivity. Qed.
(* every segment passes through its left knot *)
Theorem C06_segment_left : forall x0 y0 x1 y1 : R, seg_c0 x0 y0 x1 y1 + seg_c1 x0 y0 x1 y1 * x0 = y0.
Proof. intros. unfold seg_c0, seg_c1, k_linear__segment. reval. cbn [nth]. norm_lits. ring. Qed.
(* at least machine epsilon wide: through the right knot too, with the secant slope *)
Theorem C06_segment_right : forall x0 y0 x1 y1 : R, eps <= x1 - x0 ->
  seg_c1 x0 y0 x1 y1 = (y1 - y0) / (x1 - x0) /\ seg_c0 x0 y0 x1 y1 + seg_c1 x0 y0 x1 y1 * x1 = y1.
Proof.
  intros x0 y0 x1 y1 H. assert (He := eps_val). unfold eps in *.
  unfold seg_c0, seg_c1, k_linear__segment. reval. cbn [nth].
  destruct (Rlt_dec (x1 - x0) (litR 4372995238176751616)) as [Hl|Hl]; [lra|].
  assert (x1 - x0 <> 0) by lra. norm_lits. split; [reflexivity|field; assumption].
Qed.
(* narrower than machine epsilon: constant at the left ordinate *)
Theorem C06_segment_narrow : forall x0 y0 x1 y1 : R, x1 - x0 < eps ->
  seg_c1 x0 y0 x1 y1 = 0 /\ seg_c0 x0 y0 x1 y1 = y0.
Proof.
  intros x0 y0 x1 y1 H. unfold eps in *.
  unfold seg_c0, seg_c1, k_linear__segment. reval. cbn [nth].
  destruct (Rlt_dec (x1 - x0) (litR 4372995238176751616)) as [Hl|Hl]; [|lra].
  norm_lits. split; [reflexivity|ring].
Qed.
(* so between two knots at least eps apart the segment is the straight-line interpolant *)
Theorem C06_interpolant : forall x0 y0 x1 y1 x : R, eps <= x1 - x0 ->
  seg_c0 x0 y0 x1 y1 + seg_c1 x0 y0 x1 y1 * x = y0 + (y1 - y0) / (x1 - x0) * (x - x0).
Proof.
  intros x0 y0 x1 y1 x H. destruct (C06_segment_right x0 y0 x1 y1 H) as [H1 _].
  assert (H0 := C06_segment_left x0 y0 x1 y1). rewrite H1 in *. lra.
Qed.

Example C06_example :
  run_linear [] [] k_linear__incr_linear
    [[0; 0]; [4607182418800017408; 4607182418800017408]; [4602678819172646912; 4613937818241073152]; [4611686018427387904; 0]]%Z
  = [3; 4607182418800017408; 0; 4607182418800017408;
        4607182418800017408; 4607182418800017408; 0;
        4611686018427387904; 4618441417868443648; 13837309855095848960]%Z.
Proof. vm_compute. reflexivity. Qed.

(* ---- binary64: deviation of the returned segment from the exact construction ---- *)
Require Import PP.ErrorBound PP.ErrorRun PP.SafeDec PP.PolyFacts PP.Proofs.KernelBounds.
Definition lin_e (i : nat) : expr := nth i k_linear__segment (Lit 0).
(* safe_run additionally requires that the binary64 test `dx < EPSILON` and the exact one agree (otherwise both
   branches are within the bound of each other only up to dx ~ eps, which the property excludes by its gap condition) *)
Theorem C06_segment_float : forall (x0 y0 x1 y1 : F),
  let env := [x0; y0; x1; y1] in
  safe_run env (lin_e 1) -> safe_run env (lin_e 2) ->
  let c0 := B2R (fev env (lin_e 1)) in let c1 := B2R (fev env (lin_e 2)) in
  Rabs ((c0 + c1 * B2R x0) - B2R y0) <= err_run env (lin_e 1) + err_run env (lin_e 2) * Rabs (B2R x0).
Proof.
  intros x0 y0 x1 y1 env S1 S2 c0 c1.
  destruct (eval_running env (lin_e 1) S1) as [_ E1]. destruct (eval_running env (lin_e 2) S2) as [_ E2].
  assert (L := C06_segment_left (B2R x0) (B2R y0) (B2R x1) (B2R y1)).
  change (rval env (lin_e 1)) with (seg_c0 (B2R x0) (B2R y0) (B2R x1) (B2R y1)) in E1.
  change (rval env (lin_e 2)) with (seg_c1 (B2R x0) (B2R y0) (B2R x1) (B2R y1)) in E2.
  fold c0 in E1. fold c1 in E2. rewrite <- L.
  replace (c0 + c1 * B2R x0 - (seg_c0 (B2R x0) (B2R y0) (B2R x1) (B2R y1) + seg_c1 (B2R x0) (B2R y0) (B2R x1) (B2R y1) * B2R x0))
    with ((c0 - seg_c0 (B2R x0) (B2R y0) (B2R x1) (B2R y1)) + (c1 - seg_c1 (B2R x0) (B2R y0) (B2R x1) (B2R y1)) * B2R x0) by ring.
  eapply Rle_trans; [apply Rabs_triang|]. rewrite Rabs_mult.
  assert (Rabs (c1 - seg_c1 (B2R x0) (B2R y0) (B2R x1) (B2R y1)) * Rabs (B2R x0) <= err_run env (lin_e 2) * Rabs (B2R x0))
    by (apply Rmult_le_compat_r; [apply Rabs_pos|exact E2]).
  lra.
Qed.

(* the same at ANY real abscissa X: the binary64 segment is within err_0 + err_1*|X| of the exact segment *)
Theorem C06_segment_float_any : forall (x0 y0 x1 y1 : F) (X : R),
  let env := [x0; y0; x1; y1] in
  safe_run env (lin_e 1) -> safe_run env (lin_e 2) ->
  let c0 := B2R (fev env (lin_e 1)) in let c1 := B2R (fev env (lin_e 2)) in
  Rabs ((c0 + c1 * X) - (seg_c0 (B2R x0) (B2R y0) (B2R x1) (B2R y1) + seg_c1 (B2R x0) (B2R y0) (B2R x1) (B2R y1) * X))
  <= err_run env (lin_e 1) + err_run env (lin_e 2) * Rabs X.
Proof.
  intros x0 y0 x1 y1 X env S1 S2 c0 c1.
  destruct (eval_running env (lin_e 1) S1) as [_ E1]. destruct (eval_running env (lin_e 2) S2) as [_ E2].
  change (rval env (lin_e 1)) with (seg_c0 (B2R x0) (B2R y0) (B2R x1) (B2R y1)) in E1.
  change (rval env (lin_e 2)) with (seg_c1 (B2R x0) (B2R y0) (B2R x1) (B2R y1)) in E2.
  fold c0 in E1. fold c1 in E2.
  replace (c0 + c1 * X - (seg_c0 (B2R x0) (B2R y0) (B2R x1) (B2R y1) + seg_c1 (B2R x0) (B2R y0) (B2R x1) (B2R y1) * X))
    with ((c0 - seg_c0 (B2R x0) (B2R y0) (B2R x1) (B2R y1)) + (c1 - seg_c1 (B2R x0) (B2R y0) (B2R x1) (B2R y1)) * X) by ring.
  eapply Rle_trans; [apply Rabs_triang|]. rewrite Rabs_mult.
  assert (Rabs (c1 - seg_c1 (B2R x0) (B2R y0) (B2R x1) (B2R y1)) * Rabs X <= err_run env (lin_e 2) * Rabs X)
    by (apply Rmult_le_compat_r; [apply Rabs_pos|exact E2]).
  lra.
Qed.
(* hence, for knots at least machine epsilon apart: through the right knot, and the straight-line interpolant at every x,
   within that bound *)
Theorem C06_segment_right_float : forall (x0 y0 x1 y1 : F),
  let env := [x0; y0; x1; y1] in
  safe_run env (lin_e 1) -> safe_run env (lin_e 2) -> eps <= B2R x1 - B2R x0 ->
  let c0 := B2R (fev env (lin_e 1)) in let c1 := B2R (fev env (lin_e 2)) in
  Rabs ((c0 + c1 * B2R x1) - B2R y1) <= err_run env (lin_e 1) + err_run env (lin_e 2) * Rabs (B2R x1) /\
  forall x : R, Rabs ((c0 + c1 * x) - (B2R y0 + (B2R y1 - B2R y0) / (B2R x1 - B2R x0) * (x - B2R x0)))
                <= err_run env (lin_e 1) + err_run env (lin_e 2) * Rabs x.
Proof.
  intros x0 y0 x1 y1 env S1 S2 He c0 c1. split.
  - destruct (C06_segment_right _ (B2R y0) _ (B2R y1) He) as [_ R]. rewrite <- R.
    apply (C06_segment_float_any x0 y0 x1 y1 (B2R x1) S1 S2).
  - intros x. rewrite <- (C06_interpolant _ (B2R y0) _ (B2R y1) x He).
    apply (C06_segment_float_any x0 y0 x1 y1 x S1 S2).
Qed.

(* non-vacuity: the knots (0.3, 1.0), (2.1, 3.6) satisfy the hypotheses of C06_segment_float *)
Example C06_float_hypotheses_hold :
  let env := map of_bits [4599075939470750515; 4607182418800017408; 4611911198408756429; 4615288898129284301]%Z in safe_run env (lin_e 1) /\ safe_run env (lin_e 2).
Proof. cbv zeta. split; apply srun_sound; vm_compute; reflexivity. Qed.
