(* C04 - the constrained spline interpolates its knots with a continuous first derivative. *)
From Coq Require Import List ZArith Reals Lra Lia Bool.
Require Import PP.FloatModel PP.Expr PP.FloatOps PP.RealOps PP.Shapes PP.PolyFacts PP.Model.PwModel
  PP.Proofs.BuildersProofs PP.Proofs.SplineProofs PP.Gen.Kernels.
Import ListNotations.
Local Open Scope R_scope.

(* spline::segment(f0, (x0,y0), f1, (x1,y1)) returns [end; a; b; c; d]; over the reals: *)
Definition cubic (f0 x0 y0 f1 x1 y1 : R) : list R := tl (evals ROps [f0; x0; y0; f1; x1; y1] k_spline__segment).

(* the end of every cubic is the right abscissa VERBATIM (bit-identical: the output lane is the input itself) *)
Theorem C04_end : lane_ok (LVar 4) (hd (Lit 0) k_spline__segment) = true /\ length k_spline__segment = 5%nat.
Proof. vm_compute. split; reflexivity. Qed.

(* Hermite conditions: through both knots, with the prescribed slopes at both knots *)
Theorem C04_hermite : forall f0 x0 y0 f1 x1 y1 : R, x1 - x0 <> 0 ->
  let p := cubic f0 x0 y0 f1 x1 y1 in
  polyval p x0 = y0 /\ polyval p x1 = y1 /\
  polyval (deriv_coeffs p) x0 = f0 /\ polyval (deriv_coeffs p) x1 = f1.
Proof.
  intros f0 x0 y0 f1 x1 y1 H. cbv zeta. unfold cubic, k_spline__segment. reval. norm_lits. cbn [tl polyval deriv_coeffs deriv_from].
  simpl INR. repeat split; field; exact H.
Qed.

(* the slope prescribed at an interior knot: 0 when the adjacent secant slopes differ in sign or one is zero,
   else their harmonic mean *)
Definition fdx (x0 y0 x1 y1 x2 y2 : R) : R := hd 0 (evals ROps [x0; y0; x1; y1; x2; y2] k_spline__f_dx).
Theorem C04_fdx_flat : forall x0 y0 x1 y1 x2 y2 : R,
  (y1 - y0) / (x1 - x0) * ((y2 - y1) / (x2 - x1)) <= 0 -> fdx x0 y0 x1 y1 x2 y2 = 0.
Proof.
  intros. unfold fdx, k_spline__f_dx. reval. cbn [hd]. norm_lits.
  destruct (Rle_dec _ _) as [Hl|Hl]; [reflexivity|]. exfalso. apply Hl. lra.
Qed.
Theorem C04_fdx_harmonic : forall x0 y0 x1 y1 x2 y2 : R,
  let s01 := (y1 - y0) / (x1 - x0) in let s12 := (y2 - y1) / (x2 - x1) in
  0 < s01 * s12 -> fdx x0 y0 x1 y1 x2 y2 = 2 * s01 * s12 / (s01 + s12).
Proof.
  intros x0 y0 x1 y1 x2 y2 s01 s12 H. unfold fdx, k_spline__f_dx. reval. cbn [hd]. norm_lits. fold s01 s12.
  destruct (Rle_dec _ _) as [Hl|Hl]; [exfalso; lra|].
  assert (s01 <> 0) by (intros E; rewrite E in H; lra).
  assert (s12 <> 0) by (intros E; rewrite E in H; lra).
  assert (s01 + s12 <> 0) by nra.
  field. repeat split; assumption.
Qed.
(* end knots: 3/2 of the end secant slope minus half the neighbouring knot slope *)
Theorem C04_end_slopes : forall y1 y0 x1 x0 f1 : R,
  evals ROps [y1; y0; x1; x0; f1] k_spline__f_x0 = [3 / 2 * (y1 - y0) / (x1 - x0) - 1 / 2 * f1] /\
  evals ROps [y1; y0; x1; x0; f1] k_spline__f_xn = [3 / 2 * (y1 - y0) / (x1 - x0) - 1 / 2 * f1].
Proof.
  intros. unfold k_spline__f_x0, k_spline__f_xn. reval. norm_lits. split; reflexivity.
Qed.

(* plumbing: segment i is built from knots i, i+1 and from entries i, i+1 of ONE slope list, so the two cubics
   meeting at knot i+1 are both given the slope f_all[i+1] there (with C04_hermite: C1 continuity);
   entry j+1 of the slope list is f_dx of knots j, j+1, j+2 *)
Theorem C04_segments : forall (A S3 : Type) (f_dx : knot A -> knot A -> knot A -> A) (f0 fn : A -> A -> A -> A -> A -> A)
    (seg3 : A -> knot A -> A -> knot A -> S3) (ks : list (knot A)) (r : list S3) (i : nat) (s0 s1 : A) (k0 k1 : knot A) (d : A),
  constrained_spline f_dx f0 fn seg3 ks = Some r ->
  nth_error (f_all f_dx f0 fn ks d) i = Some s0 -> nth_error (f_all f_dx f0 fn ks d) (S i) = Some s1 ->
  nth_error ks i = Some k0 -> nth_error ks (S i) = Some k1 ->
  nth_error r i = Some (seg3 s0 k0 s1 k1).
Proof. intros. eapply spline_segment_nth; eauto. Qed.
Theorem C04_interior_slopes : forall (A : Type) (f_dx : knot A -> knot A -> knot A -> A) (ks : list (knot A)) (j : nat) (k0 k1 k2 : knot A),
  nth_error ks j = Some k0 -> nth_error ks (S j) = Some k1 -> nth_error ks (S (S j)) = Some k2 ->
  nth_error (f_mid f_dx ks) j = Some (f_dx k0 k1 k2).
Proof. intros. now apply f_mid_nth. Qed.
Theorem C04_count : forall (A S3 : Type) f_dx f0 fn (seg3 : A -> knot A -> A -> knot A -> S3) (ks : list (knot A)),
  (3 <= length ks -> exists r, constrained_spline f_dx f0 fn seg3 ks = Some r /\ length r = length ks - 1)%nat /\
  (length ks < 3 -> constrained_spline f_dx f0 fn seg3 ks = None)%nat.
Proof. intros. split; [apply spline_total|apply spline_rejects]. Qed.

(* ---- binary64: deviation of the returned cubic from the exact construction ---- *)
From Flocq Require Import Core BinarySingleNaN.
Require Import PP.FloatFacts PP.ErrorBound PP.ErrorRun PP.SafeDec PP.Proofs.KernelBounds.

(* coefficient i (1..4 = a, b, c, d) of spline::segment as a term over inputs [f0; x0; y0; f1; x1; y1] *)
Definition coef_e (i : nat) : expr := nth i k_spline__segment (Lit 0).
(* safe_run: no operation under/overflows and the divisor dx = x1 - x0 stays away from 0 by more than its own
   rounding error.  err_run is 2^-53 times the sum of the magnitudes of the intermediate results of the construction,
   amplified by 1/dx at each of its divisions (lib/ErrorRun.v).  For ALL such inputs: *)
Theorem C04_coefficient_float : forall (f0 x0 y0 f1 x1 y1 : F) (i : nat),
  let env := [f0; x0; y0; f1; x1; y1] in
  safe_run env (coef_e i) ->
  Rabs (B2R (fev env (coef_e i)) - nth i (evals ROps (map B2R env) k_spline__segment) 0) <= err_run env (coef_e i)
  /\ is_finite (fev env (coef_e i)) = true.
Proof.
  intros f0 x0 y0 f1 x1 y1 i env Hs. apply running_bound; [exact Hs|].
  unfold rval, coef_e, evals. rewrite <- (map_nth (eval ROps (map B2R env))). reflexivity || (cbn [eval ROps o_lit]; unfold litR; reflexivity).
Qed.

(* the returned cubic (binary64 coefficients, evaluated exactly) stays within sum_i err_i |x|^i of the exact cubic at EVERY x *)
Theorem C04_cubic_deviation : forall (f0 x0 y0 f1 x1 y1 : F) (x : R),
  let env := [f0; x0; y0; f1; x1; y1] in
  (forall i, (1 <= i <= 4)%nat -> safe_run env (coef_e i)) ->
  let ch := map (fun i => B2R (fev env (coef_e i))) [1; 2; 3; 4]%nat in
  let er := map (fun i => err_run env (coef_e i)) [1; 2; 3; 4]%nat in
  Rabs (polyval ch x - polyval (cubic (B2R f0) (B2R x0) (B2R y0) (B2R f1) (B2R x1) (B2R y1)) x) <= polyval er (Rabs x).
Proof.
  intros f0 x0 y0 f1 x1 y1 x env Hs ch er.
  assert (H1 := proj1 (C04_coefficient_float f0 x0 y0 f1 x1 y1 1 (Hs 1%nat ltac:(lia)))).
  assert (H2 := proj1 (C04_coefficient_float f0 x0 y0 f1 x1 y1 2 (Hs 2%nat ltac:(lia)))).
  assert (H3 := proj1 (C04_coefficient_float f0 x0 y0 f1 x1 y1 3 (Hs 3%nat ltac:(lia)))).
  assert (H4 := proj1 (C04_coefficient_float f0 x0 y0 f1 x1 y1 4 (Hs 4%nat ltac:(lia)))).
  set (l := evals ROps (map B2R env) k_spline__segment) in *.
  assert (El : cubic (B2R f0) (B2R x0) (B2R y0) (B2R f1) (B2R x1) (B2R y1) = [nth 1 l 0; nth 2 l 0; nth 3 l 0; nth 4 l 0]) by reflexivity.
  rewrite El. apply polyval_dev; [|reflexivity|reflexivity]. unfold ch, er. cbn [map zip_with].
  constructor; [exact H1|]. constructor; [exact H2|]. constructor; [exact H3|]. constructor; [exact H4|]. constructor.
Qed.

(* hence it passes through both knots within that bound *)
Theorem C04_interpolation_float : forall (f0 x0 y0 f1 x1 y1 : F),
  let env := [f0; x0; y0; f1; x1; y1] in
  (forall i, (1 <= i <= 4)%nat -> safe_run env (coef_e i)) -> B2R x1 - B2R x0 <> 0 ->
  let ch := map (fun i => B2R (fev env (coef_e i))) [1; 2; 3; 4]%nat in
  let er := map (fun i => err_run env (coef_e i)) [1; 2; 3; 4]%nat in
  Rabs (polyval ch (B2R x0) - B2R y0) <= polyval er (Rabs (B2R x0)) /\
  Rabs (polyval ch (B2R x1) - B2R y1) <= polyval er (Rabs (B2R x1)).
Proof.
  intros f0 x0 y0 f1 x1 y1 env Hs Hdx ch er.
  destruct (C04_hermite (B2R f0) (B2R x0) (B2R y0) (B2R f1) (B2R x1) (B2R y1) Hdx) as (E0 & E1 & _).
  split; [rewrite <- E0|rewrite <- E1]; apply C04_cubic_deviation; exact Hs.
Qed.

(* non-vacuity: a concrete segment input (f0, x0, y0, f1, x1, y1) = (0.8, 0.3, 1.0, 1.9, 2.1, 3.6) satisfies safe_run for all
   four coefficients (decided by exact rational arithmetic, lib/SafeDec.v), and x1 - x0 <> 0 *)
Example C04_float_hypotheses_hold :
  let env := map of_bits [4605380978949069210; 4599075939470750515; 4607182418800017408; 4611235658464650854; 4611911198408756429; 4615288898129284301]%Z in
  (forall i, (1 <= i <= 4)%nat -> safe_run env (coef_e i)) /\ B2R (nth 4 env fnan) - B2R (nth 1 env fnan) <> 0.
Proof.
  cbv zeta. split.
  - intros i Hi. assert (C : (i = 1 \/ i = 2 \/ i = 3 \/ i = 4)%nat) by lia.
    destruct C as [->|[->|[->| ->]]]; apply srun_sound; vm_compute; reflexivity.
  - cbn [map nth]. rewrite <- !F2Q_correct, <- Qreals.Q2R_minus. intros E. rewrite <- Q2R_0 in E.
    apply Qreals.eqR_Qeq in E. vm_compute in E. discriminate.
Qed.
