(* C04 - the constrained spline interpolates its knots with a continuous first derivative. *)
From Coq Require Import List ZArith Reals Lra Lia Bool.
Require Import PP.FloatModel PP.Expr PP.FloatOps PP.RealOps PP.Shapes PP.PolyFacts PP.Model.PwModel
  PP.Proofs.BuildersProofs PP.Proofs.SplineProofs PP.Gen.Kernels.
Import ListNotations.
Local Open Scope R_scope.

(* spline::segment(f0, (x0,y0), f1, (x1,y1)) returns [end; a; b; c; d]; over the reals: *)
Definition cubic (f0 x0 y0 f1 x1 y1 : R) : list R := tl (evals ROps [f0; x0; y0; f1; x1; y1] k_spline__segment).

(* the end of every cubic is the right abscissa VERBATIM (bit-identical: the output lane is the input itself) *)
Theorem C04_end : lane_ok (LVar 4) (hd (Lit 0) k_spline__segment) = true /\ length k_spline__segment = 5%nat.
Proof. vm_compute. split; reflexivity. Qed.

(* Hermite conditions: through both knots, with the prescribed slopes at both knots *)
Theorem C04_hermite : forall f0 x0 y0 f1 x1 y1 : R, x1 - x0 <> 0 ->
  let p := cubic f0 x0 y0 f1 x1 y1 in
  polyval p x0 = y0 /\ polyval p x1 = y1 /\
  polyval (deriv_coeffs p) x0 = f0 /\ polyval (deriv_coeffs p) x1 = f1.
Proof.
  intros f0 x0 y0 f1 x1 y1 H. cbv zeta. unfold cubic, k_spline__segment. reval. norm_lits. cbn [tl polyval deriv_coeffs deriv_from].
  simpl INR. repeat split; field; exact H.
Qed.

(* the slope prescribed at an interior knot: 0 when the adjacent secant slopes differ in sign or one is zero,
   else their harmonic mean *)
Definition fdx (x0 y0 x1 y1 x2 y2 : R) : R := hd 0 (evals ROps [x0; y0; x1; y1; x2; y2] k_spline__f_dx).
(* the sign test of the implementation (no product of the slopes is formed): true exactly when the slopes differ in sign or one
   of them is zero *)
Lemma sign_test_spec (a b : R) :
  ((if Req_EM_T a 0 then true else false) || (if Req_EM_T b 0 then true else false)
   || ((if Rlt_dec a 0 then true else false) && (if Rlt_dec 0 b then true else false))
   || ((if Rlt_dec 0 a then true else false) && (if Rlt_dec b 0 then true else false))) = true <-> a * b <= 0.
Proof.
  destruct (Req_EM_T a 0), (Req_EM_T b 0), (Rlt_dec a 0), (Rlt_dec 0 b), (Rlt_dec 0 a), (Rlt_dec b 0); cbn [orb andb];
    split; intros H; try reflexivity; try discriminate; try nra.
Qed.
Theorem C04_fdx_flat : forall x0 y0 x1 y1 x2 y2 : R,
  (y1 - y0) / (x1 - x0) * ((y2 - y1) / (x2 - x1)) <= 0 -> fdx x0 y0 x1 y1 x2 y2 = 0.
Proof.
  intros x0 y0 x1 y1 x2 y2 H. unfold fdx, k_spline__f_dx. reval. cbn [hd]. norm_lits.
  apply sign_test_spec in H. rewrite H. reflexivity.
Qed.
Theorem C04_fdx_harmonic : forall x0 y0 x1 y1 x2 y2 : R,
  let s01 := (y1 - y0) / (x1 - x0) in let s12 := (y2 - y1) / (x2 - x1) in
  0 < s01 * s12 -> fdx x0 y0 x1 y1 x2 y2 = 2 * s01 * s12 / (s01 + s12).
Proof.
  intros x0 y0 x1 y1 x2 y2 s01 s12 H. unfold fdx, k_spline__f_dx. reval. cbn [hd]. norm_lits. fold s01 s12.
  match goal with |- (if ?c then _ else _) = _ => destruct c eqn:E end.
  - apply sign_test_spec in E. lra.
  - assert (s01 <> 0) by (intros Z; rewrite Z in H; lra).
    assert (s12 <> 0) by (intros Z; rewrite Z in H; lra).
    assert (s01 + s12 <> 0) by nra.
    field. repeat split; assumption.
Qed.
(* end knots: 3/2 of the end secant slope minus half the neighbouring knot slope *)
Theorem C04_end_slopes : forall y1 y0 x1 x0 f1 : R,
  evals ROps [y1; y0; x1; x0; f1] k_spline__f_x0 = [3 / 2 * (y1 - y0) / (x1 - x0) - 1 / 2 * f1] /\
  evals ROps [y1; y0; x1; x0; f1] k_spline__f_xn = [3 / 2 * (y1 - y0) / (x1 - x0) - 1 / 2 * f1].
Proof.
  intros. unfold k_spline__f_x0, k_spline__f_xn. reval. norm_lits. split; reflexivity.
Qed.

(* plumbing: segment i is built from knots i, i+1 and from entries i, i+1 of ONE slope list, so the two cubics
   meeting at knot i+1 are both given the slope f_all[i+1] there (with C04_hermite: C1 continuity);
   entry j+1 of the slope list is f_dx of knots j, j+1, j+2 *)
Theorem C04_segments : forall (A S3 : Type) (f_dx : knot A -> knot A -> knot A -> A) (f0 fn : A -> A -> A -> A -> A -> A)
    (seg3 : A -> knot A -> A -> knot A -> S3) (ks : list (knot A)) (r : list S3) (i : nat) (s0 s1 : A) (k0 k1 : knot A) (d : A),
  constrained_spline f_dx f0 fn seg3 ks = Some r ->
  nth_error (f_all f_dx f0 fn ks d) i = Some s0 -> nth_error (f_all f_dx f0 fn ks d) (S i) = Some s1 ->
  nth_error ks i = Some k0 -> nth_error ks (S i) = Some k1 ->
  nth_error r i = Some (seg3 s0 k0 s1 k1).
Proof. intros. eapply spline_segment_nth; eauto. Qed.
Theorem C04_interior_slopes : forall (A : Type) (f_dx : knot A -> knot A -> knot A -> A) (ks : list (knot A)) (j : nat) (k0 k1 k2 : knot A),
  nth_error ks j = Some k0 -> nth_error ks (S j) = Some k1 -> nth_error ks (S (S j)) = Some k2 ->
  nth_error (f_mid f_dx ks) j = Some (f_dx k0 k1 k2).
Proof. intros. now apply f_mid_nth. Qed.
Theorem C04_count : forall (A S3 : Type) f_dx f0 fn (seg3 : A -> knot A -> A -> knot A -> S3) (ks : list (knot A)),
  (3 <= length ks -> exists r, constrained_spline f_dx f0 fn seg3 ks = Some r /\ length r = length ks - 1)%nat /\
  (length ks < 3 -> constrained_spline f_dx f0 fn seg3 ks = None)%nat.
Proof. intros. split; [apply spline_total|apply spline_rejects]. Qed.

(* ---- binary64: deviation of the returned cubic from the exact construction ---- *)
From Flocq Require Import Core BinarySingleNaN.
Require Import PP.FloatFacts PP.ErrorBound PP.ErrorRun PP.SafeDec PP.Proofs.KernelBounds PP.Proofs.SplineFloat.
(* coef_e i (the i-th output of spline::segment), e_fdx, fdx_b and interior_e (the composed term of an interior segment: knots
   (x0,y0)..(x3,y3) = Var 0..7, cubic between knots 1 and 2) are defined in Proofs/SplineFloat.v *)

(* coefficient i (1..4 = a, b, c, d) of spline::segment as a term over inputs [f0; x0; y0; f1; x1; y1] *)
(* safe_run: no operation under/overflows and the divisor dx = x1 - x0 stays away from 0 by more than its own
   rounding error.  err_run is 2^-53 times the sum of the magnitudes of the intermediate results of the construction,
   amplified by 1/dx at each of its divisions (lib/ErrorRun.v).  For ALL such inputs: *)
Theorem C04_coefficient_float : forall (f0 x0 y0 f1 x1 y1 : F) (i : nat),
  let env := [f0; x0; y0; f1; x1; y1] in
  safe_run env (coef_e i) ->
  Rabs (B2R (fev env (coef_e i)) - nth i (evals ROps (map B2R env) k_spline__segment) 0) <= err_run env (coef_e i)
  /\ is_finite (fev env (coef_e i)) = true.
Proof.
  intros f0 x0 y0 f1 x1 y1 i env Hs. apply running_bound; [exact Hs|].
  unfold rval, coef_e, evals. rewrite <- (map_nth (eval ROps (map B2R env))). reflexivity || (cbn [eval ROps o_lit]; unfold litR; reflexivity).
Qed.

(* the returned cubic (binary64 coefficients, evaluated exactly) stays within sum_i err_i |x|^i of the exact cubic at EVERY x *)
Theorem C04_cubic_deviation : forall (f0 x0 y0 f1 x1 y1 : F) (x : R),
  let env := [f0; x0; y0; f1; x1; y1] in
  (forall i, (1 <= i <= 4)%nat -> safe_run env (coef_e i)) ->
  let ch := map (fun i => B2R (fev env (coef_e i))) [1; 2; 3; 4]%nat in
  let er := map (fun i => err_run env (coef_e i)) [1; 2; 3; 4]%nat in
  Rabs (polyval ch x - polyval (cubic (B2R f0) (B2R x0) (B2R y0) (B2R f1) (B2R x1) (B2R y1)) x) <= polyval er (Rabs x).
Proof.
  intros f0 x0 y0 f1 x1 y1 x env Hs ch er.
  assert (H1 := proj1 (C04_coefficient_float f0 x0 y0 f1 x1 y1 1 (Hs 1%nat ltac:(lia)))).
  assert (H2 := proj1 (C04_coefficient_float f0 x0 y0 f1 x1 y1 2 (Hs 2%nat ltac:(lia)))).
  assert (H3 := proj1 (C04_coefficient_float f0 x0 y0 f1 x1 y1 3 (Hs 3%nat ltac:(lia)))).
  assert (H4 := proj1 (C04_coefficient_float f0 x0 y0 f1 x1 y1 4 (Hs 4%nat ltac:(lia)))).
  set (l := evals ROps (map B2R env) k_spline__segment) in *.
  assert (El : cubic (B2R f0) (B2R x0) (B2R y0) (B2R f1) (B2R x1) (B2R y1) = [nth 1 l 0; nth 2 l 0; nth 3 l 0; nth 4 l 0]) by reflexivity.
  rewrite El. apply polyval_dev; [|reflexivity|reflexivity]. unfold ch, er. cbn [map zip_with].
  constructor; [exact H1|]. constructor; [exact H2|]. constructor; [exact H3|]. constructor; [exact H4|]. constructor.
Qed.

(* hence it passes through both knots within that bound *)
Theorem C04_interpolation_float : forall (f0 x0 y0 f1 x1 y1 : F),
  let env := [f0; x0; y0; f1; x1; y1] in
  (forall i, (1 <= i <= 4)%nat -> safe_run env (coef_e i)) -> B2R x1 - B2R x0 <> 0 ->
  let ch := map (fun i => B2R (fev env (coef_e i))) [1; 2; 3; 4]%nat in
  let er := map (fun i => err_run env (coef_e i)) [1; 2; 3; 4]%nat in
  Rabs (polyval ch (B2R x0) - B2R y0) <= polyval er (Rabs (B2R x0)) /\
  Rabs (polyval ch (B2R x1) - B2R y1) <= polyval er (Rabs (B2R x1)).
Proof.
  intros f0 x0 y0 f1 x1 y1 env Hs Hdx ch er.
  destruct (C04_hermite (B2R f0) (B2R x0) (B2R y0) (B2R f1) (B2R x1) (B2R y1) Hdx) as (E0 & E1 & _).
  split; [rewrite <- E0|rewrite <- E1]; apply C04_cubic_deviation; exact Hs.
Qed.

(* ---- binary64, end to end for an interior segment: slopes AND coefficients ----
   Four consecutive knots (x0,y0)..(x3,y3) = Var 0..7.  The cubic between knots 1 and 2 is segment(f_dx(k0,k1,k2), k1, f_dx(k1,k2,k3), k2)
   (C04_segments / C04_interior_slopes); as ONE term: *)

(* it IS that composition, in binary64 and over the reals *)
Theorem C04_interior_is_composition : forall (T : Type) (O : Ops T) (x0 y0 x1 y1 x2 y2 x3 y3 : T) (i : nat), (i < 5)%nat ->
  eval O [x0; y0; x1; y1; x2; y2; x3; y3] (interior_e i) =
  eval O [eval O [x0; y0; x1; y1; x2; y2] e_fdx; x1; y1; eval O [x1; y1; x2; y2; x3; y3] e_fdx; x2; y2] (coef_e i).
Proof.
  intros T O x0 y0 x1 y1 x2 y2 x3 y3 i Hi. unfold interior_e.
  assert (C : closed_below 6 (coef_e i) = true).
  { do 5 (destruct i as [|i]; [vm_compute; reflexivity|]). lia. }
  rewrite eval_subst by exact C.
  assert (E1 : eval O [x0; y0; x1; y1; x2; y2; x3; y3] e_fdx = eval O [x0; y0; x1; y1; x2; y2] e_fdx).
  { change e_fdx with (subst [Var 0; Var 1; Var 2; Var 3; Var 4; Var 5] e_fdx) at 1.
    rewrite eval_subst by (vm_compute; reflexivity). reflexivity. }
  assert (E2 : eval O [x0; y0; x1; y1; x2; y2; x3; y3] fdx_b = eval O [x1; y1; x2; y2; x3; y3] e_fdx).
  { unfold fdx_b. rewrite eval_subst by (vm_compute; reflexivity). reflexivity. }
  change (map (eval O [x0; y0; x1; y1; x2; y2; x3; y3]) [e_fdx; Var 2; Var 3; fdx_b; Var 4; Var 5])
    with [eval O [x0; y0; x1; y1; x2; y2; x3; y3] e_fdx; x1; y1; eval O [x0; y0; x1; y1; x2; y2; x3; y3] fdx_b; x2; y2].
  rewrite E1, E2. reflexivity.
Qed.

(* every coefficient of the interior cubic, computed in binary64 from the four knots, is within err_run of the exact Kruger
   coefficient (exact harmonic-mean slopes, exact segment formulas) *)
Theorem C04_interior_float : forall (x0 y0 x1 y1 x2 y2 x3 y3 : F) (i : nat),
  let env := [x0; y0; x1; y1; x2; y2; x3; y3] in
  (1 <= i <= 4)%nat -> safe_run env (interior_e i) ->
  Rabs (B2R (fev env (interior_e i))
        - nth (i - 1) (cubic (fdx (B2R x0) (B2R y0) (B2R x1) (B2R y1) (B2R x2) (B2R y2)) (B2R x1) (B2R y1)
                             (fdx (B2R x1) (B2R y1) (B2R x2) (B2R y2) (B2R x3) (B2R y3)) (B2R x2) (B2R y2)) 0)
  <= err_run env (interior_e i) /\ is_finite (fev env (interior_e i)) = true.
Proof.
  intros x0 y0 x1 y1 x2 y2 x3 y3 i env Hi Hs. apply running_bound; [exact Hs|].
  unfold rval, env. cbn [map]. rewrite C04_interior_is_composition by lia.
  unfold cubic, fdx, coef_e, evals, e_fdx.
  destruct i as [|i]; [lia|]. replace (S i - 1)%nat with i by lia.
  destruct k_spline__segment as [|h t] eqn:Ek; [discriminate Ek|]. cbn [map tl nth hd].
  rewrite <- (map_nth (eval ROps _) t (Lit 0) i). f_equal.
Qed.

(* ---- the two END cubics, end to end (slopes from f_x0 / f_xn and f_dx, then the segment formulas), three knots = Var 0..5 ---- *)
Theorem C04_ends_are_compositions : forall (T : Type) (O : Ops T) (x0 y0 x1 y1 x2 y2 : T) (i : nat), (i < 5)%nat ->
  let env := [x0; y0; x1; y1; x2; y2] in
  let f1 := eval O env e_fdx in
  eval O env (first_e i) = eval O [eval O [y1; y0; x1; x0; f1] e_fx0; x0; y0; f1; x1; y1] (coef_e i) /\
  eval O env (last_e i) = eval O [f1; x1; y1; eval O [y2; y1; x2; x1; f1] e_fxn; x2; y2] (coef_e i).
Proof.
  intros T O x0 y0 x1 y1 x2 y2 i Hi env f1.
  assert (C : closed_below 6 (coef_e i) = true).
  { do 5 (destruct i as [|i]; [vm_compute; reflexivity|]). lia. }
  assert (E0 : eval O env fx0_c = eval O [y1; y0; x1; x0; f1] e_fx0).
  { unfold fx0_c. rewrite eval_subst by (vm_compute; reflexivity). reflexivity. }
  assert (En : eval O env fxn_c = eval O [y2; y1; x2; x1; f1] e_fxn).
  { unfold fxn_c. rewrite eval_subst by (vm_compute; reflexivity). reflexivity. }
  split.
  - unfold first_e. rewrite eval_subst by exact C.
    change (map (eval O env) [fx0_c; Var 0; Var 1; e_fdx; Var 2; Var 3]) with [eval O env fx0_c; x0; y0; f1; x1; y1].
    rewrite E0. reflexivity.
  - unfold last_e. rewrite eval_subst by exact C.
    change (map (eval O env) [e_fdx; Var 2; Var 3; fxn_c; Var 4; Var 5]) with [f1; x1; y1; eval O env fxn_c; x2; y2].
    rewrite En. reflexivity.
Qed.

Definition end_slope (ya yb xa xb f : R) : R := 3 / 2 * (ya - yb) / (xa - xb) - 1 / 2 * f.
Theorem C04_ends_float : forall (x0 y0 x1 y1 x2 y2 : F) (i : nat),
  let env := [x0; y0; x1; y1; x2; y2] in
  let f1 := fdx (B2R x0) (B2R y0) (B2R x1) (B2R y1) (B2R x2) (B2R y2) in
  (1 <= i <= 4)%nat ->
  (safe_run env (first_e i) ->
   Rabs (B2R (fev env (first_e i))
         - nth (i - 1) (cubic (end_slope (B2R y1) (B2R y0) (B2R x1) (B2R x0) f1) (B2R x0) (B2R y0) f1 (B2R x1) (B2R y1)) 0)
   <= err_run env (first_e i)) /\
  (safe_run env (last_e i) ->
   Rabs (B2R (fev env (last_e i))
         - nth (i - 1) (cubic f1 (B2R x1) (B2R y1) (end_slope (B2R y2) (B2R y1) (B2R x2) (B2R x1) f1) (B2R x2) (B2R y2)) 0)
   <= err_run env (last_e i)).
Proof.
  intros x0 y0 x1 y1 x2 y2 i env f1 Hi.
  destruct (C04_ends_are_compositions R ROps (B2R x0) (B2R y0) (B2R x1) (B2R y1) (B2R x2) (B2R y2) i ltac:(lia)) as [Ef El].
  destruct (C04_end_slopes (B2R y1) (B2R y0) (B2R x1) (B2R x0) f1) as [S0 _].
  destruct (C04_end_slopes (B2R y2) (B2R y1) (B2R x2) (B2R x1) f1) as [_ Sn].
  assert (V0 : eval ROps [B2R y1; B2R y0; B2R x1; B2R x0; f1] e_fx0 = end_slope (B2R y1) (B2R y0) (B2R x1) (B2R x0) f1).
  { unfold e_fx0, end_slope. unfold evals in S0. destruct k_spline__f_x0 as [|h t]; [discriminate S0|]. cbn [map hd] in *. now inversion S0. }
  assert (Vn : eval ROps [B2R y2; B2R y1; B2R x2; B2R x1; f1] e_fxn = end_slope (B2R y2) (B2R y1) (B2R x2) (B2R x1) f1).
  { unfold e_fxn, end_slope. unfold evals in Sn. destruct k_spline__f_xn as [|h t]; [discriminate Sn|]. cbn [map hd] in *. now inversion Sn. }
  assert (F1 : eval ROps [B2R x0; B2R y0; B2R x1; B2R y1; B2R x2; B2R y2] e_fdx = f1) by reflexivity.
  assert (Nth : forall l : list R, nth i (0 :: l) 0 = nth (i - 1) l 0) by (intros l; destruct i; [lia|]; replace (S i - 1)%nat with i by lia; reflexivity).
  split; intros Hs; (eapply Rle_trans; [|apply (proj1 (running_bound env _ _ Hs eq_refl))]); right; f_equal; f_equal;
    unfold rval, env; cbn [map]; [rewrite Ef|rewrite El]; rewrite ?F1, ?V0, ?Vn;
    unfold cubic, coef_e, evals; destruct i as [|i]; try lia; replace (S i - 1)%nat with i by lia;
    (destruct k_spline__segment as [|h t] eqn:Ek; [discriminate Ek|]); cbn [map tl nth];
    rewrite <- (map_nth (eval ROps _) t (Lit 0) i); reflexivity.
Qed.

(* non-vacuity: a concrete segment input (f0, x0, y0, f1, x1, y1) = (0.8, 0.3, 1.0, 1.9, 2.1, 3.6) satisfies safe_run for all
   four coefficients (decided by exact rational arithmetic, lib/SafeDec.v), and x1 - x0 <> 0 *)
Example C04_float_hypotheses_hold :
  let env := map of_bits [4605380978949069210; 4599075939470750515; 4607182418800017408; 4611235658464650854; 4611911198408756429; 4615288898129284301]%Z in
  (forall i, (1 <= i <= 4)%nat -> safe_run env (coef_e i)) /\ B2R (nth 4 env fnan) - B2R (nth 1 env fnan) <> 0.
Proof.
  cbv zeta. split.
  - intros i Hi. assert (C : (i = 1 \/ i = 2 \/ i = 3 \/ i = 4)%nat) by lia.
    destruct C as [->|[->|[->| ->]]]; apply srun_sound; vm_compute; reflexivity.
  - cbn [map nth]. rewrite <- !F2Q_correct, <- Qreals.Q2R_minus. intros E. rewrite <- Q2R_0 in E.
    apply Qreals.eqR_Qeq in E. vm_compute in E. discriminate.
Qed.

(* non-vacuity of C04_interior_float: the knots (0.3,1.0), (2.1,3.6), (4.0,5.0), (6.0,5.5) (rising, then a flat slope at the last
   interior knot because the data turn) satisfy safe_run for all four coefficients of the middle cubic *)
Example C04_interior_hypotheses_hold :
  let env := map of_bits [4599075939470750515; 4607182418800017408; 4611911198408756429; 4615288898129284301; 4616189618054758400; 4617315517961601024; 4618441417868443648; 4617878467915022336]%Z in
  forall i, (1 <= i <= 4)%nat -> safe_run env (interior_e i).
Proof.
  cbv zeta. intros i Hi. assert (C : (i = 1 \/ i = 2 \/ i = 3 \/ i = 4)%nat) by lia.
  destruct C as [->|[->|[->| ->]]]; apply srun_sound; vm_compute; reflexivity.
Qed.

(* non-vacuity of C04_ends_float: three knots (0.3,1.0), (2.1,3.6), (4.0,5.0) satisfy safe_run for all coefficients of both end cubics *)
Example C04_ends_hypotheses_hold :
  let env := map of_bits [4599075939470750515; 4607182418800017408; 4611911198408756429; 4615288898129284301; 4616189618054758400; 4617315517961601024]%Z in
  forall i, (1 <= i <= 4)%nat -> safe_run env (first_e i) /\ safe_run env (last_e i).
Proof.
  cbv zeta. intros i Hi. assert (C : (i = 1 \/ i = 2 \/ i = 3 \/ i = 4)%nat) by lia.
  destruct C as [->|[->|[->| ->]]]; split; apply srun_sound; vm_compute; reflexivity.
Qed.
