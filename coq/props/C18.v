(* C18 - serialisation round-trips every value bit for bit (the modelled part: the borsh byte codec over the
   shapes of all serialisable types; serde's derive shapes are tied by correspondence, text formats by test). *)
From Coq Require Import List ZArith Bool Lia.
Require Import PP.Model.Wire PP.Proofs.WireProofs.
Import ListNotations.
Local Open Scope Z_scope.

(* Wire.enc / Wire.dec: f64 = 8 little-endian bytes of the bit pattern, [f64; N] = concatenation,
   Vec = u32 little-endian length then the items, struct = fields in order, newtype = its content.
   For EVERY shape and every well-shaped value (numbers any 64-bit pattern, any number of segments < 2^32),
   decoding the encoding - followed by arbitrary further bytes - returns exactly the value and the further bytes. *)
Theorem C18_borsh_roundtrip : forall (s : shape) (v : val) (rest : list Z),
  wf s v -> dec s (enc s v ++ rest) = Some (v, rest).
Proof. exact borsh_roundtrip. Qed.

(* the integer <-> little-endian byte conversion at the leaves is exact *)
Theorem C18_le_bytes : forall (n : nat) (z : Z), 0 <= z < 256 ^ Z.of_nat n ->
  le_int (le_bytes n z) = z /\ length (le_bytes n z) = n.
Proof. intros. split; [now apply le_int_le_bytes|apply le_bytes_length]. Qed.

(* instances: every serialisable type of the crate has one of these shapes *)
Definition poly_val (cs : list Z) : val := fold_right (fun c acc => VCons (VF c) acc) VNil cs.
Lemma wf_poly_val : forall cs, Forall (fun c => 0 <= c < 2 ^ 64) cs -> wf_tuple (length cs) (poly_val cs).
Proof. induction 1 as [|c r Hc _ IH]; cbn; auto. Qed.
Theorem C18_piecewise_poly3 : forall (segs : list (Z * list Z)) (rest : list Z),
  Forall (fun s => 0 <= fst s < 2 ^ 64 /\ length (snd s) = 4%nat /\ Forall (fun c => 0 <= c < 2 ^ 64) (snd s)) segs ->
  Z.of_nat (length segs) < 2 ^ 32 ->
  let v := VCons (fold_right (fun s acc => VCons (VCons (VF (fst s)) (VCons (poly_val (snd s)) VNil)) acc) VNil segs) VNil in
  dec (sh_piecewise (sh_poly 3)) (enc (sh_piecewise (sh_poly 3)) v ++ rest) = Some (v, rest).
Proof.
  intros segs rest H Hl v. apply borsh_roundtrip. unfold v. cbn [wf sh_piecewise wf_fields]. split; [|exact I]. split.
  - clear Hl. induction H as [|s r (Hb & Hlen & Hc) _ IH]; cbn [fold_right wf_seq]; [exact I|]. split; [|exact IH].
    cbn [sh_segment wf wf_fields sh_poly]. split; [exact Hb|]. split; [|exact I].
    change (wf_tuple 4 (poly_val (snd s))). rewrite <- Hlen. now apply wf_poly_val.
  - assert (E : forall (f : Z * list Z -> val) l, vlen (fold_right (fun s acc => VCons (f s) acc) VNil l) = Z.of_nat (length l)).
    { intros f l. induction l as [|a r IH]; [reflexivity|]. cbn [fold_right vlen length]. rewrite IH, Nat2Z.inj_succ. lia. }
    rewrite (E (fun s => VCons (VF (fst s)) (VCons (poly_val (snd s)) VNil))). exact Hl.
Qed.

Example C18_example :
  enc (sh_poly 1) (VCons (VF 4607182418800017408) (VCons (VF 4611686018427387904) VNil))
  = [0;0;0;0;0;0;240;63; 0;0;0;0;0;0;0;64] /\
  ser (sh_poly 1) (VCons (VF 4607182418800017408) (VCons (VF 4611686018427387904) VNil))
  = [10; 11; 11; 2; 1; 4607182418800017408; 1; 4611686018427387904].
Proof. vm_compute. split; reflexivity. Qed.
