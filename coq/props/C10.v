(* C10 - the quartic log-integral form evaluates accurately for every positive argument
   (the statements over the reals; the binary64 deviation is bounded by the search oracle, see DESIGN). *)
From Coq Require Import List ZArith Reals Lra Lia Bool.
From Coquelicot Require Import Coquelicot.
From Interval Require Import Tactic.
Require Import PP.Expr PP.RealOps PP.PolyFacts PP.ExpTail PP.Gen.Kernels.
Import ListNotations.
Local Open Scope R_scope.

Definition e_Q4 : expr := hd (Lit 0) k_IntOfLogPoly4__evaluate.
(* the two switch points, read from the regenerated term (the literals -1.71 and 1.72 as binary64) *)
Definition thr_lo : R := litR 13833752011390226268.
Definition thr_hi : R := litR 4610425010531724165.
Lemma thr_values : -1.7100000000001 < thr_lo < -1.7099999999999 /\ 1.7199999999999 < thr_hi < 1.7200000000001.
Proof. unfold thr_lo, thr_hi. norm_lits. split; split; lra. Qed.

(* the 16-term series sum_{m<16} x^m/(m+5)! *)
Definition S16 (x : R) : R :=
  polyval [/120; /720; /5040; /40320; /362880; /3628800; /39916800; /479001600; /6227020800; /87178291200;
           /1307674368000; /20922789888000; /355687428096000; /6402373705728000; /121645100408832000; /2432902008176640000] x.

(* series branch: exactly k + v*sum c_j x^j + u*v*x^5*S16(x) with x = -ln v *)
Theorem C10_form_series : forall k c1 c2 c3 c4 u v : R,
  let x := - ln v in thr_lo < x -> x < thr_hi ->
  eval ROps [k; c1; c2; c3; c4; u; v] e_Q4 = k + v * (c1 * x + c2 * x ^ 2 + c3 * x ^ 3 + c4 * x ^ 4) + u * v * x ^ 5 * S16 x.
Proof.
  intros k c1 c2 c3 c4 u v x H1 H2. unfold thr_lo, thr_hi in *. unfold e_Q4, k_IntOfLogPoly4__evaluate. cbn [hd]. reval. fold x.
  destruct (Rlt_dec (litR 13833752011390226268) x) as [_|N]; [|contradiction].
  destruct (Rlt_dec x (litR 4610425010531724165)) as [_|N]; [|contradiction].
  cbn [andb]. norm_lits. unfold S16. cbn [polyval]. field.
Qed.

(* closed-form branch: exactly the closed form k + v*sum c_j x^j + u*v*(e^x - sum_{j<5} x^j/j!) *)
Theorem C10_form_closed : forall k c1 c2 c3 c4 u v : R,
  let x := - ln v in ~ (thr_lo < x /\ x < thr_hi) -> x <> 0 ->
  eval ROps [k; c1; c2; c3; c4; u; v] e_Q4 = quartic_closed k c1 c2 c3 c4 u v.
Proof.
  intros k c1 c2 c3 c4 u v x H Hx. unfold thr_lo, thr_hi in *. unfold e_Q4, k_IntOfLogPoly4__evaluate. cbn [hd]. reval. fold x.
  assert (E : (if Rlt_dec (litR 13833752011390226268) x then true else false) && (if Rlt_dec x (litR 4610425010531724165) then true else false) = false).
  { destruct (Rlt_dec (litR 13833752011390226268) x); destruct (Rlt_dec x (litR 4610425010531724165)); try reflexivity. exfalso. apply H. split; assumption. }
  rewrite E. norm_lits. replace (1 / (1 / x)) with x by (field; exact Hx). unfold quartic_closed, T4. fold x. field. exact Hx.
Qed.

(* truncation: on the whole series range the 21-term Taylor polynomial of exp is within 1e-14 of exp, so
   the series branch differs from the closed form by at most 1e-14*|u|*v -- in particular there is no jump beyond
   that at the two switch points *)
Definition T20 (x : R) : R := T4 x + x ^ 5 * S16 x.
Theorem C10_trunc : forall x : R, -1.72 <= x <= 1.7200000000001 -> Rabs (exp x - T20 x) <= 1e-14.
Proof.
  intros x Hx. unfold T20, T4, S16. cbn [polyval].
  interval with (i_taylor x, i_degree 30, i_prec 160).
Qed.
Theorem C10_no_jump : forall k c1 c2 c3 c4 u v : R, 0 < v ->
  let x := - ln v in -1.72 <= x <= 1.7200000000001 ->
  Rabs ((k + v * (c1 * x + c2 * x ^ 2 + c3 * x ^ 3 + c4 * x ^ 4) + u * v * x ^ 5 * S16 x) - quartic_closed k c1 c2 c3 c4 u v)
  <= 1e-14 * (Rabs u * v).
Proof.
  intros k c1 c2 c3 c4 u v Hv x Hx.
  replace (k + v * (c1 * x + c2 * x ^ 2 + c3 * x ^ 3 + c4 * x ^ 4) + u * v * x ^ 5 * S16 x - quartic_closed k c1 c2 c3 c4 u v)
    with (- (u * v * (exp x - T20 x))) by (unfold quartic_closed, T20; fold x; ring).
  rewrite Rabs_Ropp, !Rabs_mult, (Rabs_pos_eq v) by lra.
  assert (H := C10_trunc x Hx). assert (0 <= Rabs u * v) by (apply Rmult_le_pos; [apply Rabs_pos|lra]). nra.
Qed.

(* the value at v = 1 is exactly k (x = 0: series branch, every other term vanishes) *)
Theorem C10_at_one : forall k c1 c2 c3 c4 u : R, eval ROps [k; c1; c2; c3; c4; u; 1] e_Q4 = k.
Proof.
  intros. destruct thr_values as [[L1 L2] [U1 U2]].
  assert (E := C10_form_series k c1 c2 c3 c4 u 1). cbv zeta in E. rewrite ln_1 in E.
  replace (- 0) with 0 in E by ring. rewrite E by lra. ring.
Qed.
