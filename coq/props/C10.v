(* C10 - the quartic log-integral form evaluates accurately for every positive argument
   (the statements over the reals; the binary64 deviation is bounded by the search oracle, see DESIGN). *)
From Coq Require Import List ZArith Reals Lra Lia Bool.
From Coquelicot Require Import Coquelicot.
From Interval Require Import Tactic.
Require Import PP.Expr PP.RealOps PP.PolyFacts PP.ExpTail PP.Gen.Kernels PP.Proofs.QuarticForm.
From Flocq Require Import Core BinarySingleNaN.
Require Import PP.FloatModel PP.FloatOps PP.FloatFacts PP.ErrorBound PP.SafeDec PP.Proofs.QuarticFloat PP.Proofs.QuarticClosedFloat PP.Proofs.RecipFloat.
Import ListNotations.
Local Open Scope R_scope.

(* e_Q4, the two switch points thr_lo / thr_hi (read from the regenerated term: the literals -1.71 and 1.72 as binary64) and the
   16-term series S16 are defined in Proofs/QuarticForm.v *)
Theorem C10_thr_values : -1.7100000000001 < thr_lo < -1.7099999999999 /\ 1.7199999999999 < thr_hi < 1.7200000000001.
Proof. exact thr_values. Qed.

(* series branch: exactly k + v*sum c_j x^j + u*v*x^5*S16(x) with x = -ln v *)
Theorem C10_form_series : forall k c1 c2 c3 c4 u v : R,
  let x := - ln v in thr_lo < x -> x < thr_hi ->
  eval ROps [k; c1; c2; c3; c4; u; v] e_Q4 = k + v * (c1 * x + c2 * x ^ 2 + c3 * x ^ 3 + c4 * x ^ 4) + u * v * x ^ 5 * S16 x.
Proof. exact form_series. Qed.

(* closed-form branch: exactly the closed form k + v*sum c_j x^j + u*v*(e^x - sum_{j<5} x^j/j!) *)
Theorem C10_form_closed : forall k c1 c2 c3 c4 u v : R,
  let x := - ln v in ~ (thr_lo < x /\ x < thr_hi) -> x <> 0 ->
  eval ROps [k; c1; c2; c3; c4; u; v] e_Q4 = quartic_closed k c1 c2 c3 c4 u v.
Proof. exact form_closed. Qed.

(* truncation: on the whole series range the 21-term Taylor polynomial of exp is within 1e-14 of exp, so
   the series branch differs from the closed form by at most 1e-14*|u|*v -- in particular there is no jump beyond
   that at the two switch points *)
Definition T20 (x : R) : R := T4 x + x ^ 5 * S16 x.
Theorem C10_trunc : forall x : R, -1.72 <= x <= 1.7200000000001 -> Rabs (exp x - T20 x) <= 1e-14.
Proof.
  intros x Hx. unfold T20, T4, S16. cbn [polyval].
  interval with (i_taylor x, i_degree 30, i_prec 160).
Qed.
Theorem C10_no_jump : forall k c1 c2 c3 c4 u v : R, 0 < v ->
  let x := - ln v in -1.72 <= x <= 1.7200000000001 ->
  Rabs ((k + v * (c1 * x + c2 * x ^ 2 + c3 * x ^ 3 + c4 * x ^ 4) + u * v * x ^ 5 * S16 x) - quartic_closed k c1 c2 c3 c4 u v)
  <= 1e-14 * (Rabs u * v).
Proof.
  intros k c1 c2 c3 c4 u v Hv x Hx.
  replace (k + v * (c1 * x + c2 * x ^ 2 + c3 * x ^ 3 + c4 * x ^ 4) + u * v * x ^ 5 * S16 x - quartic_closed k c1 c2 c3 c4 u v)
    with (- (u * v * (exp x - T20 x))) by (unfold quartic_closed, T20; fold x; ring).
  rewrite Rabs_Ropp, !Rabs_mult, (Rabs_pos_eq v) by lra.
  assert (H := C10_trunc x Hx). assert (0 <= Rabs u * v) by (apply Rmult_le_pos; [apply Rabs_pos|lra]). nra.
Qed.

(* the value at v = 1 is exactly k (x = 0: series branch, every other term vanishes) *)
Theorem C10_at_one : forall k c1 c2 c3 c4 u : R, eval ROps [k; c1; c2; c3; c4; u; 1] e_Q4 = k.
Proof.
  intros. destruct thr_values as [[L1 L2] [U1 U2]].
  assert (E := C10_form_series k c1 c2 c3 c4 u 1). cbv zeta in E. rewrite ln_1 in E.
  replace (- 0) with 0 in E by ring. rewrite E by lra. ring.
Qed.

(* ---- binary64, series branch (partial towards C10_accuracy: relative to the COMPUTED logarithm) ----
   For ANY libm (ln_f, exp_f arbitrary functions), all finite (k, c1..c4, u) and v: let x^ = -(ln_f v) be the argument the
   implementation computes.  Whenever the implementation's own test  thr_lo < x^ < thr_hi  selects the series and no
   operation of the series term under/overflows (`safe`, decidable: lib/SafeDec.v), the value returned by the regenerated
   IntOfLogPoly4::evaluate differs from the exact form  k + v*sum c_j x^^j + u*v*(e^x^ - sum_{j<5} x^^j/j!)  AT x^ by at most
   64 * 2^-53 times the sum of the magnitudes of the terms, plus the truncation 1e-14*|u|*|v| of the 16-term series.
   (What is NOT proved: the step from x^ to -ln v, i.e. the accuracy of the platform's ln - that stays with the 1400-bit
   oracle.  The closed-form branch, which calls exp, has its own theorem below, relative to the COMPUTED exponential.) *)
Definition quartic_at (k c1 c2 c3 c4 u v x : R) : R :=
  k + v * (c1 * x + c2 * x ^ 2 + c3 * x ^ 3 + c4 * x ^ 4) + u * v * (exp x - T4 x).

Theorem C10_series_accuracy_float : forall (ln_f exp_f : F -> F) (k c1 c2 c3 c4 u v : F),
  let xh := fneg (ln_f v) in
  let env := [k; c1; c2; c3; c4; u; v; xh] in
  flt (of_bits 13833752011390226268) xh && flt xh (of_bits 4610425010531724165) = true ->
  safe env e_series ->
  Rabs (B2R (eval (FOpsG ln_f exp_f) [k; c1; c2; c3; c4; u; v] e_Q4)
        - quartic_at (B2R k) (B2R c1) (B2R c2) (B2R c3) (B2R c4) (B2R u) (B2R v) (B2R xh))
  <= 4 * INR 16 * FloatFacts.u * series_mag (B2R k) (B2R c1) (B2R c2) (B2R c3) (B2R c4) (B2R u) (B2R v) (B2R xh)
     + 1e-14 * (Rabs (B2R u) * Rabs (B2R v)).
Proof.
  intros ln_f exp_f k c1 c2 c3 c4 u v xh env Hc Hs.
  destruct (series_branch_float ln_f exp_f k c1 c2 c3 c4 u v Hc Hs) as [E B]. fold xh env in E, B. rewrite E.
  (* the window, over the reals *)
  assert (Fx : is_finite xh = true).
  { apply andb_true_iff in Hc. destruct Hc as [H1 H2]. unfold flt in *. destruct xh as [s|s| |s m e Hb]; try reflexivity.
    - destruct s; cbn in H1, H2; discriminate.
    - cbn in H1. discriminate. }
  apply andb_true_iff in Hc. destruct Hc as [H1 H2]. unfold flt in H1, H2.
  rewrite Bltb_correct in H1, H2 by (exact Fx || reflexivity).
  destruct (Rlt_bool_spec (B2R (of_bits 13833752011390226268)) (B2R xh)) as [H1'|]; [|discriminate].
  destruct (Rlt_bool_spec (B2R xh) (B2R (of_bits 4610425010531724165))) as [H2'|]; [|discriminate].
  clear H1 H2. rename H1' into H1. rename H2' into H2.
  fold (litR 13833752011390226268) in H1. fold (litR 4610425010531724165) in H2. fold thr_lo in H1. fold thr_hi in H2.
  destruct C10_thr_values as [[L1 L2] [U1 U2]].
  assert (W : -1.72 <= B2R xh <= 1.7200000000001) by lra.
  assert (T := C10_trunc (B2R xh) W).
  set (X := B2R xh) in *.
  replace (B2R (fev env e_series) - quartic_at (B2R k) (B2R c1) (B2R c2) (B2R c3) (B2R c4) (B2R u) (B2R v) X)
    with ((B2R (fev env e_series) - series_form (B2R k) (B2R c1) (B2R c2) (B2R c3) (B2R c4) (B2R u) (B2R v) X)
          + - (B2R u * B2R v * (exp X - T20 X))) by (unfold series_form, quartic_at, T20; ring).
  eapply Rle_trans; [apply Rabs_triang|]. apply Rplus_le_compat; [exact B|].
  rewrite Rabs_Ropp, !Rabs_mult.
  assert (0 <= Rabs (B2R u) * Rabs (B2R v)) by (apply Rmult_le_pos; apply Rabs_pos). nra.
Qed.

(* non-vacuity: k=0.5, c=(1.5,-2,0.25,3), u=-7, v=1.25 with ln_f 1.25 := 0.22314355131420976 (the correctly rounded value):
   the series is selected and `safe` holds *)
Example C10_series_hypotheses_hold :
  let xh := fneg (of_bits 4597207614006925858) in
  let env := [of_bits 4602678819172646912; of_bits 4609434218613702656; of_bits 13835058055282163712; of_bits 4598175219545276416;
              of_bits 4613937818241073152; of_bits 13842939354630062080; of_bits 4608308318706860032; xh] in
  flt (of_bits 13833752011390226268) xh && flt xh (of_bits 4610425010531724165) = true /\ safe env e_series.
Proof. cbv zeta. split; [vm_compute; reflexivity|apply safe1_sound; vm_compute; reflexivity]. Qed.

(* ---- binary64, closed-form branch (partial towards C10_accuracy: relative to the COMPUTED logarithm, reciprocal and exponential) ----
   For ANY libm, all finite (k, c1..c4, u) and v: let x^ = -(ln_f v), r^ = 1 (/) x^ (one correctly rounded division) and
   E^ = exp_f (1 (/) r^) be the three numbers the implementation computes.  Whenever the implementation's own window test on x^
   FAILS and no operation of the libm-free remainder under/overflows (`safe`), the value returned by the regenerated
   IntOfLogPoly4::evaluate differs from the exact closed form AT (x^, r^, E^),
       k + v*sum c_j x^^j + u*v*x^^5*((E^ - 1) r^^5 - r^^4 - r^^3/2 - r^^2/6 - r^^/24),
   by at most 64 * 2^-53 times the sum of the magnitudes of its terms; and that closed form IS the property's form
   k + v*sum c_j x^j + u*v*(e^x - sum_{j<5} x^j/j!) when r = 1/x and E = e^x exactly (C10_closed_form_exact).
   (What is NOT proved: |r^ - 1/x^|, the accuracy of the platform's exp and ln, and the amplification of those three errors by the
   cancellation in (E - 1) r^5 - ... for |x| just outside the window: 1400-bit oracle.) *)
Theorem C10_closed_accuracy_float : forall (ln_f exp_f : F -> F) (k c1 c2 c3 c4 u v : F),
  let xh := fneg (ln_f v) in
  let rh := fdiv (of_bits 4607182418800017408) xh in
  let Eh := exp_f (fdiv (of_bits 4607182418800017408) rh) in
  let env := [k; c1; c2; c3; c4; u; v; xh; rh; Eh] in
  flt (of_bits 13833752011390226268) xh && flt xh (of_bits 4610425010531724165) = false ->
  safe env e_closed ->
  Rabs (B2R (eval (FOpsG ln_f exp_f) [k; c1; c2; c3; c4; u; v] e_Q4)
        - closed_form (B2R k) (B2R c1) (B2R c2) (B2R c3) (B2R c4) (B2R u) (B2R v) (B2R xh) (B2R rh) (B2R Eh))
  <= 4 * INR 16 * FloatFacts.u * closed_mag (B2R k) (B2R c1) (B2R c2) (B2R c3) (B2R c4) (B2R u) (B2R v) (B2R xh) (B2R rh) (B2R Eh).
Proof.
  intros ln_f exp_f k c1 c2 c3 c4 u v xh rh Eh env Hc Hs.
  destruct (closed_branch_float ln_f exp_f k c1 c2 c3 c4 u v Hc Hs) as [E B]. fold xh rh Eh env in E, B. rewrite E. exact B.
Qed.

Theorem C10_closed_form_exact : forall k c1 c2 c3 c4 u v x : R, x <> 0 ->
  closed_form k c1 c2 c3 c4 u v x (/ x) (exp x) = quartic_at k c1 c2 c3 c4 u v x.
Proof.
  intros k c1 c2 c3 c4 u v x Hx. unfold closed_form, quartic_at.
  replace (u * v * x ^ 5 * closed_tail (/ x) (exp x)) with (u * v * (x ^ 5 * closed_tail (/ x) (exp x))) by ring.
  rewrite closed_tail_exact by exact Hx. reflexivity.
Qed.

(* non-vacuity: k=0.5, c=(1.5,-2,0.25,3), u=-7, v=7 with ln_f 7 := 1.9459101490553132 and exp_f (-1.9459101490553132) :=
   0.14285714285714288 (the values glibc returns): the window test fails (x^ < -1.71) and `safe` holds *)
Example C10_closed_hypotheses_hold :
  let xh := fneg (of_bits 4611442419394828887) in
  let rh := fdiv (of_bits 4607182418800017408) xh in
  let env := [of_bits 4602678819172646912; of_bits 4609434218613702656; of_bits 13835058055282163712; of_bits 4598175219545276416;
              of_bits 4613937818241073152; of_bits 13842939354630062080; of_bits 4619567317775286272; xh; rh;
              of_bits 4594314991293244563] in
  flt (of_bits 13833752011390226268) xh && flt xh (of_bits 4610425010531724165) = false /\ safe env e_closed.
Proof. cbv zeta. split; [vm_compute; reflexivity|apply safe1_sound; vm_compute; reflexivity]. Qed.

(* one of the three steps from (x^, r^, E^) to (x^, 1/x^, e^x^): the reciprocal is ONE correctly rounded division, so r^ is within
   2^-53 |1/x^| of 1/x^ for every finite x^ with 1 <= |x^| <= 2^1021 (the closed-form branch has |x^| >= 1.71; the logarithm of a
   positive finite double is below 745 in magnitude).  The other two - the accuracy of exp_f and of ln_f - are assumptions on the
   platform's libm. *)
Theorem C10_recip_accuracy : forall xh : F, is_finite xh = true -> 1 <= Rabs (B2R xh) <= bpow radix2 1021 ->
  let rh := fdiv (of_bits 4607182418800017408) xh in
  is_finite rh = true /\ Rabs (B2R rh - / B2R xh) <= FloatFacts.u * Rabs (/ B2R xh).
Proof. exact recip_accuracy. Qed.
