(* C10 - the quartic log-integral form evaluates accurately for every positive argument
   (the statements over the reals; the binary64 deviation is bounded by the search oracle, see DESIGN). *)
From Coq Require Import List ZArith Reals Lra Lia Bool.
From Coquelicot Require Import Coquelicot.
From Interval Require Import Tactic.
Require Import PP.Expr PP.RealOps PP.PolyFacts PP.ExpTail PP.Gen.Kernels PP.Proofs.QuarticForm.
Import ListNotations.
Local Open Scope R_scope.

(* e_Q4, the two switch points thr_lo / thr_hi (read from the regenerated term: the literals -1.71 and 1.72 as binary64) and the
   16-term series S16 are defined in Proofs/QuarticForm.v *)
Theorem C10_thr_values : -1.7100000000001 < thr_lo < -1.7099999999999 /\ 1.7199999999999 < thr_hi < 1.7200000000001.
Proof. exact thr_values. Qed.

(* series branch: exactly k + v*sum c_j x^j + u*v*x^5*S16(x) with x = -ln v *)
Theorem C10_form_series : forall k c1 c2 c3 c4 u v : R,
  let x := - ln v in thr_lo < x -> x < thr_hi ->
  eval ROps [k; c1; c2; c3; c4; u; v] e_Q4 = k + v * (c1 * x + c2 * x ^ 2 + c3 * x ^ 3 + c4 * x ^ 4) + u * v * x ^ 5 * S16 x.
Proof. exact form_series. Qed.

(* closed-form branch: exactly the closed form k + v*sum c_j x^j + u*v*(e^x - sum_{j<5} x^j/j!) *)
Theorem C10_form_closed : forall k c1 c2 c3 c4 u v : R,
  let x := - ln v in ~ (thr_lo < x /\ x < thr_hi) -> x <> 0 ->
  eval ROps [k; c1; c2; c3; c4; u; v] e_Q4 = quartic_closed k c1 c2 c3 c4 u v.
Proof. exact form_closed. Qed.

(* truncation: on the whole series range the 21-term Taylor polynomial of exp is within 1e-14 of exp, so
   the series branch differs from the closed form by at most 1e-14*|u|*v -- in particular there is no jump beyond
   that at the two switch points *)
Definition T20 (x : R) : R := T4 x + x ^ 5 * S16 x.
Theorem C10_trunc : forall x : R, -1.72 <= x <= 1.7200000000001 -> Rabs (exp x - T20 x) <= 1e-14.
Proof.
  intros x Hx. unfold T20, T4, S16. cbn [polyval].
  interval with (i_taylor x, i_degree 30, i_prec 160).
Qed.
Theorem C10_no_jump : forall k c1 c2 c3 c4 u v : R, 0 < v ->
  let x := - ln v in -1.72 <= x <= 1.7200000000001 ->
  Rabs ((k + v * (c1 * x + c2 * x ^ 2 + c3 * x ^ 3 + c4 * x ^ 4) + u * v * x ^ 5 * S16 x) - quartic_closed k c1 c2 c3 c4 u v)
  <= 1e-14 * (Rabs u * v).
Proof.
  intros k c1 c2 c3 c4 u v Hv x Hx.
  replace (k + v * (c1 * x + c2 * x ^ 2 + c3 * x ^ 3 + c4 * x ^ 4) + u * v * x ^ 5 * S16 x - quartic_closed k c1 c2 c3 c4 u v)
    with (- (u * v * (exp x - T20 x))) by (unfold quartic_closed, T20; fold x; ring).
  rewrite Rabs_Ropp, !Rabs_mult, (Rabs_pos_eq v) by lra.
  assert (H := C10_trunc x Hx). assert (0 <= Rabs u * v) by (apply Rmult_le_pos; [apply Rabs_pos|lra]). nra.
Qed.

(* the value at v = 1 is exactly k (x = 0: series branch, every other term vanishes) *)
Theorem C10_at_one : forall k c1 c2 c3 c4 u : R, eval ROps [k; c1; c2; c3; c4; u; 1] e_Q4 = k.
Proof.
  intros. destruct thr_values as [[L1 L2] [U1 U2]].
  assert (E := C10_form_series k c1 c2 c3 c4 u 1). cbv zeta in E. rewrite ln_1 in E.
  replace (- 0) with 0 in E by ring. rewrite E by lra. ring.
Qed.
