(* C02 - Piecewise evaluation selects the half-open segment containing x.
   Property theorems only; each is closed by `exact` of a lemma proved in proofs/. *)
From Coq Require Import List Bool ZArith.
Require Import PP.FloatModel PP.FloatOrder PP.Model.PwModel PP.Proofs.SelectProofs PP.Proofs.C02Proofs.
Import ListNotations.

(* The model of Piecewise<T>::evaluate on binary64, for any piece type P and any evaluation
   function ev of a segment: PwModel.pw_eval flt ev. *)

(* first segment whose end is strictly greater than x: result is, bit for bit, that segment's value *)
Theorem C02_first : forall (P : Type) (ev : seg F P -> F -> F) (l r : list (seg F P)) (s : seg F P) (x : F),
  Forall (fun t => flt x (send t) = false) l -> flt x (send s) = true ->
  pw_eval flt ev (l ++ s :: r) x = Some (ev s x).
Proof. exact C02_first_proof. Qed.

(* no end exceeds x: the last segment *)
Theorem C02_last : forall (P : Type) (ev : seg F P -> F -> F) (l : list (seg F P)) (z : seg F P) (x : F),
  Forall (fun t => flt x (send t) = false) (l ++ [z]) ->
  pw_eval flt ev (l ++ [z]) x = Some (ev z x).
Proof. exact C02_last_proof. Qed.

(* at least one segment: evaluation never panics, whatever x is (NaN included) *)
Theorem C02_total : forall (P : Type) (ev : seg F P -> F -> F) (segs : list (seg F P)) (x : F),
  segs <> [] -> pw_eval flt ev segs x <> None.
Proof. exact C02_total_proof. Qed.

(* characterisation for non-NaN x and non-NaN ends: the selected segment i satisfies
   (forall j < i, end_j <= x) and (x < end_i or i is the last index) *)
Theorem C02_char : forall (P : Type) (ev : seg F P -> F -> F) (segs : list (seg F P)) (x v : F),
  ok x -> Forall (fun t => ok (send t)) segs ->
  pw_eval flt ev segs x = Some v ->
  exists l s r, segs = l ++ s :: r /\ v = ev s x /\
    Forall (fun t => fle (send t) x = true) l /\
    (flt x (send s) = true \/ (r = [] /\ fle (send s) x = true)).
Proof. exact C02_char_proof. Qed.

(* with non-decreasing ends the selected segment is the unique half-open interval:
   every segment to the right of the selected one has end > x as well *)
Theorem C02_halfopen : forall (P : Type) (ev : seg F P -> F -> F) (l r : list (seg F P)) (s : seg F P) (x : F),
  ok x -> Forall (fun t => ok (send t)) (l ++ s :: r) ->
  sorted_ends (l ++ s :: r) ->
  Forall (fun t => fle (send t) x = true) l -> flt x (send s) = true ->
  pw_eval flt ev (l ++ s :: r) x = Some (ev s x) /\ Forall (fun t => flt x (send t) = true) r.
Proof. exact C02_halfopen_proof. Qed.

(* a breakpoint belongs to the segment on its right: a segment whose end is not strictly above x
   (in particular x equal to that end) is never the selected one unless it is the last segment;
   select_idx is the index of the selected segment *)
Theorem C02_idx : forall (P : Type) (ev : seg F P -> F -> F) (segs : list (seg F P)) (x : F),
  pw_eval flt ev segs x =
  match select_idx flt segs x with
  | Some i => option_map (fun s => ev s x) (nth_error segs i)
  | None => None end.
Proof. exact C02_idx_proof. Qed.
Theorem C02_breakpoint : forall (P : Type) (l r : list (seg F P)) (s : seg F P) (x : F),
  flt x (send s) = false -> r <> [] -> select_idx flt (l ++ s :: r) x <> Some (length l).
Proof. exact C02_breakpoint_proof. Qed.

(* the first segment extends to -infinity, the last one to +infinity *)
Theorem C02_minus_infinity : forall (P : Type) (ev : seg F P -> F -> F) (s : seg F P) (r : list (seg F P)),
  ok (send s) -> send s <> of_bits 18442240474082181120 ->
  pw_eval flt ev (s :: r) (of_bits 18442240474082181120) = Some (ev s (of_bits 18442240474082181120)).
Proof. exact C02_minus_infinity_proof. Qed.
Theorem C02_plus_infinity : forall (P : Type) (ev : seg F P -> F -> F) (l : list (seg F P)) (z : seg F P),
  pw_eval flt ev (l ++ [z]) (of_bits 9218868437227405312) = Some (ev z (of_bits 9218868437227405312)).
Proof. exact C02_plus_infinity_proof. Qed.

(* non-vacuity: a concrete three-segment function with a duplicate end, evaluated inside Coq *)
Example C02_example :
  let segs := [(of_bits 4607182418800017408, 10%Z); (of_bits 4611686018427387904, 20%Z);
               (of_bits 4611686018427387904, 30%Z); (of_bits 4613937818241073152, 40%Z)] in
  map (pw_eval flt (fun s _ => snd s) segs)
      [of_bits 0; of_bits 4607182418800017408; of_bits 4611686018427387904; of_bits 4616189618054758400]
  = [Some 10%Z; Some 20%Z; Some 40%Z; Some 40%Z].
Proof. vm_compute. reflexivity. Qed.
