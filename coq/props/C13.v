(* C13 - &f + &g and &f - &g are pointwise on the merged breakpoints. *)
From Coq Require Import List Bool ZArith.
Require Import PP.FloatModel PP.FloatOrder PP.Model.PwModel PP.Proofs.C02Proofs PP.Proofs.MergeProofs PP.Proofs.C13Proofs.
Import ListNotations.

(* PwModel.merge fcmp op f g models both `&f + &g` (op = piece addition) and `&f - &g`
   (op = piece subtraction); None = panic. *)

(* well-formed operands: the result exists, is non-empty, has at most len f + len g - 1 pieces and
   every breakpoint of it is a breakpoint of f or of g *)
Theorem C13_total : forall (P : Type) (op : P -> P -> P) (f g : list (seg F P)),
  f <> [] -> g <> [] -> Forall (fun t => ok (send t)) f -> Forall (fun t => ok (send t)) g ->
  exists r, merge fcmp op f g = Some r /\ (1 <= length r <= length f + length g - 1)%nat /\
            Forall (fun s : seg F P => exists t, (In t f \/ In t g) /\ send s = send t) r.
Proof. exact merge_total_F. Qed.

(* at every non-NaN x the piece direct evaluation selects in the result is op applied to exactly the
   piece of f and the piece of g that direct evaluation selects at x (no sortedness needed) *)
Theorem C13_pointwise : forall (P : Type) (op : P -> P -> P) (f g r : list (seg F P)) (x : F),
  Forall (fun t => ok (send t)) f -> Forall (fun t => ok (send t)) g -> ok x ->
  merge fcmp op f g = Some r ->
  exists s sf sg, select flt r x = Some s /\ select flt f x = Some sf /\ select flt g x = Some sg /\
                  spoly s = op (spoly sf) (spoly sg).
Proof. exact merge_pointwise_F. Qed.

(* sorted operands give sorted results *)
Theorem C13_sorted : forall (P : Type) (op : P -> P -> P) (f g r : list (seg F P)),
  Forall (fun t => ok (send t)) f -> Forall (fun t => ok (send t)) g ->
  sorted_ends f -> sorted_ends g -> merge fcmp op f g = Some r -> sorted_ends r.
Proof. exact merge_sorted_F. Qed.

(* documented rejections *)
Theorem C13_empty : forall (P : Type) (op : P -> P -> P) (f g : list (seg F P)),
  merge fcmp op [] g = None /\ merge fcmp op f [] = None.
Proof. intros. split; [reflexivity|destruct f; reflexivity]. Qed.
Theorem C13_nan : forall (P : Type) (op : P -> P -> P) (f g : list (seg F P)) a b f' g',
  f = a :: f' -> g = b :: g' -> (is_nanb (send a) = true \/ is_nanb (send b) = true) -> merge fcmp op f g = None.
Proof. exact merge_nan_F. Qed.

Example C13_example :
  let f := [(of_bits 4607182418800017408, 1%Z); (of_bits 4613937818241073152, 2%Z)] in
  let g := [(of_bits 4611686018427387904, 10%Z); (of_bits 4613937818241073152, 20%Z); (of_bits 4616189618054758400, 30%Z)] in
  option_map (map snd) (merge fcmp Z.add f g) = Some [11; 12; 22; 32]%Z.
Proof. vm_compute. reflexivity. Qed.
