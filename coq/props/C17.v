(* C17 - approximate equality is number by number for every type. *)
From Coq Require Import List ZArith Bool.
From Flocq Require Import Core BinarySingleNaN.
Require Import PP.FloatModel PP.FloatOrder PP.Expr PP.FloatOps PP.ApproxShapes PP.Proofs.ApproxProofs PP.Proofs.ApproxWhole PP.Gen.Kernels.
Import ListNotations.

(* scalar_rel RAbs a b eps _  = approx's abs_diff_eq on f64: |a - b| <= eps;
   scalar_rel RRel a b eps rel = approx's relative_eq on f64 (transcribed in lib/FloatOps.v).
   Every abs_diff_eq / relative_eq impl of the crate (polynomials, Log wrappers, both log-integral forms, segments of
   each), regenerated from the source: value 1 occupies inputs 0..n-1, value 2 inputs n..2n-1, then the tolerances. *)
Definition C17_table : list (rel_kind * nat * bexpr) := [
  (RAbs, 2%nat, k_IntOfLog_Poly0__abs_diff_eq);
  (RRel, 2%nat, k_IntOfLog_Poly0__relative_eq);
  (RAbs, 3%nat, k_IntOfLog_Poly1__abs_diff_eq);
  (RRel, 3%nat, k_IntOfLog_Poly1__relative_eq);
  (RAbs, 4%nat, k_IntOfLog_Poly2__abs_diff_eq);
  (RRel, 4%nat, k_IntOfLog_Poly2__relative_eq);
  (RAbs, 5%nat, k_IntOfLog_Poly3__abs_diff_eq);
  (RRel, 5%nat, k_IntOfLog_Poly3__relative_eq);
  (RAbs, 6%nat, k_IntOfLog_Poly4__abs_diff_eq);
  (RRel, 6%nat, k_IntOfLog_Poly4__relative_eq);
  (RAbs, 7%nat, k_IntOfLog_Poly5__abs_diff_eq);
  (RRel, 7%nat, k_IntOfLog_Poly5__relative_eq);
  (RAbs, 8%nat, k_IntOfLog_Poly6__abs_diff_eq);
  (RRel, 8%nat, k_IntOfLog_Poly6__relative_eq);
  (RAbs, 9%nat, k_IntOfLog_Poly7__abs_diff_eq);
  (RRel, 9%nat, k_IntOfLog_Poly7__relative_eq);
  (RAbs, 10%nat, k_IntOfLog_Poly8__abs_diff_eq);
  (RRel, 10%nat, k_IntOfLog_Poly8__relative_eq);
  (RAbs, 6%nat, k_IntOfLogPoly4__abs_diff_eq);
  (RRel, 6%nat, k_IntOfLogPoly4__relative_eq);
  (RAbs, 1%nat, k_Log_Poly0__abs_diff_eq);
  (RRel, 1%nat, k_Log_Poly0__relative_eq);
  (RAbs, 2%nat, k_Log_Poly1__abs_diff_eq);
  (RRel, 2%nat, k_Log_Poly1__relative_eq);
  (RAbs, 3%nat, k_Log_Poly2__abs_diff_eq);
  (RRel, 3%nat, k_Log_Poly2__relative_eq);
  (RAbs, 4%nat, k_Log_Poly3__abs_diff_eq);
  (RRel, 4%nat, k_Log_Poly3__relative_eq);
  (RAbs, 5%nat, k_Log_Poly4__abs_diff_eq);
  (RRel, 5%nat, k_Log_Poly4__relative_eq);
  (RAbs, 6%nat, k_Log_Poly5__abs_diff_eq);
  (RRel, 6%nat, k_Log_Poly5__relative_eq);
  (RAbs, 7%nat, k_Log_Poly6__abs_diff_eq);
  (RRel, 7%nat, k_Log_Poly6__relative_eq);
  (RAbs, 8%nat, k_Log_Poly7__abs_diff_eq);
  (RRel, 8%nat, k_Log_Poly7__relative_eq);
  (RAbs, 9%nat, k_Log_Poly8__abs_diff_eq);
  (RRel, 9%nat, k_Log_Poly8__relative_eq);
  (RAbs, 1%nat, k_Poly0__abs_diff_eq);
  (RRel, 1%nat, k_Poly0__relative_eq);
  (RAbs, 2%nat, k_Poly1__abs_diff_eq);
  (RRel, 2%nat, k_Poly1__relative_eq);
  (RAbs, 3%nat, k_Poly2__abs_diff_eq);
  (RRel, 3%nat, k_Poly2__relative_eq);
  (RAbs, 4%nat, k_Poly3__abs_diff_eq);
  (RRel, 4%nat, k_Poly3__relative_eq);
  (RAbs, 5%nat, k_Poly4__abs_diff_eq);
  (RRel, 5%nat, k_Poly4__relative_eq);
  (RAbs, 6%nat, k_Poly5__abs_diff_eq);
  (RRel, 6%nat, k_Poly5__relative_eq);
  (RAbs, 7%nat, k_Poly6__abs_diff_eq);
  (RRel, 7%nat, k_Poly6__relative_eq);
  (RAbs, 8%nat, k_Poly7__abs_diff_eq);
  (RRel, 8%nat, k_Poly7__relative_eq);
  (RAbs, 9%nat, k_Poly8__abs_diff_eq);
  (RRel, 9%nat, k_Poly8__relative_eq);
  (RAbs, 3%nat, k_Segment_IntOfLog_Poly0__abs_diff_eq);
  (RRel, 3%nat, k_Segment_IntOfLog_Poly0__relative_eq);
  (RAbs, 4%nat, k_Segment_IntOfLog_Poly1__abs_diff_eq);
  (RRel, 4%nat, k_Segment_IntOfLog_Poly1__relative_eq);
  (RAbs, 5%nat, k_Segment_IntOfLog_Poly2__abs_diff_eq);
  (RRel, 5%nat, k_Segment_IntOfLog_Poly2__relative_eq);
  (RAbs, 6%nat, k_Segment_IntOfLog_Poly3__abs_diff_eq);
  (RRel, 6%nat, k_Segment_IntOfLog_Poly3__relative_eq);
  (RAbs, 7%nat, k_Segment_IntOfLog_Poly4__abs_diff_eq);
  (RRel, 7%nat, k_Segment_IntOfLog_Poly4__relative_eq);
  (RAbs, 8%nat, k_Segment_IntOfLog_Poly5__abs_diff_eq);
  (RRel, 8%nat, k_Segment_IntOfLog_Poly5__relative_eq);
  (RAbs, 9%nat, k_Segment_IntOfLog_Poly6__abs_diff_eq);
  (RRel, 9%nat, k_Segment_IntOfLog_Poly6__relative_eq);
  (RAbs, 10%nat, k_Segment_IntOfLog_Poly7__abs_diff_eq);
  (RRel, 10%nat, k_Segment_IntOfLog_Poly7__relative_eq);
  (RAbs, 11%nat, k_Segment_IntOfLog_Poly8__abs_diff_eq);
  (RRel, 11%nat, k_Segment_IntOfLog_Poly8__relative_eq);
  (RAbs, 7%nat, k_Segment_IntOfLogPoly4__abs_diff_eq);
  (RRel, 7%nat, k_Segment_IntOfLogPoly4__relative_eq);
  (RAbs, 2%nat, k_Segment_Log_Poly0__abs_diff_eq);
  (RRel, 2%nat, k_Segment_Log_Poly0__relative_eq);
  (RAbs, 3%nat, k_Segment_Log_Poly1__abs_diff_eq);
  (RRel, 3%nat, k_Segment_Log_Poly1__relative_eq);
  (RAbs, 4%nat, k_Segment_Log_Poly2__abs_diff_eq);
  (RRel, 4%nat, k_Segment_Log_Poly2__relative_eq);
  (RAbs, 5%nat, k_Segment_Log_Poly3__abs_diff_eq);
  (RRel, 5%nat, k_Segment_Log_Poly3__relative_eq);
  (RAbs, 6%nat, k_Segment_Log_Poly4__abs_diff_eq);
  (RRel, 6%nat, k_Segment_Log_Poly4__relative_eq);
  (RAbs, 7%nat, k_Segment_Log_Poly5__abs_diff_eq);
  (RRel, 7%nat, k_Segment_Log_Poly5__relative_eq);
  (RAbs, 8%nat, k_Segment_Log_Poly6__abs_diff_eq);
  (RRel, 8%nat, k_Segment_Log_Poly6__relative_eq);
  (RAbs, 9%nat, k_Segment_Log_Poly7__abs_diff_eq);
  (RRel, 9%nat, k_Segment_Log_Poly7__relative_eq);
  (RAbs, 10%nat, k_Segment_Log_Poly8__abs_diff_eq);
  (RRel, 10%nat, k_Segment_Log_Poly8__relative_eq);
  (RAbs, 2%nat, k_Segment_Poly0__abs_diff_eq);
  (RRel, 2%nat, k_Segment_Poly0__relative_eq);
  (RAbs, 3%nat, k_Segment_Poly1__abs_diff_eq);
  (RRel, 3%nat, k_Segment_Poly1__relative_eq);
  (RAbs, 4%nat, k_Segment_Poly2__abs_diff_eq);
  (RRel, 4%nat, k_Segment_Poly2__relative_eq);
  (RAbs, 5%nat, k_Segment_Poly3__abs_diff_eq);
  (RRel, 5%nat, k_Segment_Poly3__relative_eq);
  (RAbs, 6%nat, k_Segment_Poly4__abs_diff_eq);
  (RRel, 6%nat, k_Segment_Poly4__relative_eq);
  (RAbs, 7%nat, k_Segment_Poly5__abs_diff_eq);
  (RRel, 7%nat, k_Segment_Poly5__relative_eq);
  (RAbs, 8%nat, k_Segment_Poly6__abs_diff_eq);
  (RRel, 8%nat, k_Segment_Poly6__relative_eq);
  (RAbs, 9%nat, k_Segment_Poly7__abs_diff_eq);
  (RRel, 9%nat, k_Segment_Poly7__relative_eq);
  (RAbs, 10%nat, k_Segment_Poly8__abs_diff_eq);
  (RRel, 10%nat, k_Segment_Poly8__relative_eq)
].

(* for ALL inputs: the impl holds exactly when the scalar relation holds, under the same tolerances, for every
   corresponding pair of numbers (coefficients, additive constants, breakpoints), in order *)
Theorem C17_number_by_number :
  Forall (fun e => forall env, beval FOps0 env (snd e) =
     forallb (fun i => scalar_rel (fst (fst e)) (nth i env fnan) (nth (snd (fst e) + i) env fnan)
                                  (nth (2 * snd (fst e)) env fnan) (nth (2 * snd (fst e) + 1) env fnan)) (seq 0 (snd (fst e)))) C17_table.
Proof. apply approx_table_sem. vm_compute. reflexivity. Qed.

(* slices / Vec<Segment<T>> / PolyN: approx's slice rule (model: equal lengths and all pairs related).
   Piecewise functions with different numbers of pieces are never approximately equal. *)
Definition slice_rel {A : Type} (r : A -> A -> bool) (x y : list A) : bool :=
  Nat.eqb (length x) (length y) && forallb (fun p => r (fst p) (snd p)) (combine x y).
Theorem C17_length_mismatch : forall (A : Type) (r : A -> A -> bool) (x y : list A),
  length x <> length y -> slice_rel r x y = false.
Proof. intros A r x y H. unfold slice_rel. apply Nat.eqb_neq in H. now rewrite H. Qed.
Theorem C17_slice_pointwise : forall (A : Type) (r : A -> A -> bool) (x y : list A), length x = length y ->
  slice_rel r x y = forallb (fun p => r (fst p) (snd p)) (combine x y).
Proof. intros A r x y H. unfold slice_rel. rewrite H, Nat.eqb_refl. reflexivity. Qed.

(* perturbing any single number so that its scalar relation fails makes the whole relation fail *)
Theorem C17_falsified_by_one : forall (A : Type) (p : A -> bool) (l : list A) (x : A), In x l -> p x = false -> forallb p l = false.
Proof.
  intros A p l x Hin Hp. destruct (forallb p l) eqn:E; [|reflexivity].
  rewrite forallb_forall in E. rewrite (E x Hin) in Hp. discriminate.
Qed.

(* the same statement on whole values: xs and ys are the numbers of the two values (coefficients, additive constants, breakpoint),
   in order; env2 xs ys eps rel = xs ++ ys ++ [eps; rel].  For EVERY impl of the table and all inputs: *)
Theorem C17_impl_pairs :
  Forall (fun e => forall xs ys eps rel, length xs = snd (fst e) -> length ys = snd (fst e) ->
    beval FOps0 (env2 xs ys eps rel) (snd e) = forallb (fun p => scalar_rel (fst (fst e)) (fst p) (snd p) eps rel) (combine xs ys)) C17_table.
Proof. exact (table_pairs C17_table C17_number_by_number). Qed.
(* ... symmetric: swapping the two values never changes the answer *)
Theorem C17_impl_symmetric :
  Forall (fun e => forall xs ys eps rel, length xs = snd (fst e) -> length ys = snd (fst e) ->
    beval FOps0 (env2 xs ys eps rel) (snd e) = beval FOps0 (env2 ys xs eps rel) (snd e)) C17_table.
Proof. exact (table_symmetric C17_table C17_number_by_number). Qed.
(* ... reflexive on finite values (any non-negative epsilon, any max_relative) *)
Theorem C17_impl_reflexive :
  Forall (fun e => forall xs eps rel, length xs = snd (fst e) -> (forall a, In a xs -> is_finite a = true) -> fle fzero eps = true ->
    beval FOps0 (env2 xs xs eps rel) (snd e) = true) C17_table.
Proof. exact (table_reflexive C17_table C17_number_by_number). Qed.
(* ... falsified by any single position whose scalar relation fails, whatever the other positions hold *)
Theorem C17_impl_falsified_by_one :
  Forall (fun e => forall xs ys eps rel i, length xs = snd (fst e) -> length ys = snd (fst e) -> (i < snd (fst e))%nat ->
    scalar_rel (fst (fst e)) (nth i xs fnan) (nth i ys fnan) eps rel = false ->
    beval FOps0 (env2 xs ys eps rel) (snd e) = false) C17_table.
Proof. exact (table_falsified_by_one C17_table C17_number_by_number). Qed.
(* ... implied by == (the derived PartialEq is the lane-by-lane f64 ==, C19): relative_eq for ALL floats (infinities included),
   abs_diff_eq when the numbers are finite and eps >= 0 (approx's |inf - inf| <= eps is false: inherited verbatim) *)
Theorem C17_impl_of_eq :
  Forall (fun e => forall xs ys eps rel, length xs = snd (fst e) -> length ys = snd (fst e) ->
    (forall p, In p (combine xs ys) -> feq (fst p) (snd p) = true) ->
    match fst (fst e) with
    | RRel => True
    | RAbs => fle fzero eps = true /\ forall p, In p (combine xs ys) -> is_finite (fst p) = true /\ is_finite (snd p) = true
    end ->
    beval FOps0 (env2 xs ys eps rel) (snd e) = true) C17_table.
Proof. exact (table_of_eq C17_table C17_number_by_number). Qed.
(* the slice rule (Piecewise, PolyN) inherits symmetry from the element relation *)
Theorem C17_slice_symmetric : forall (A : Type) (r : A -> A -> bool), (forall a b, r a b = r b a) ->
  forall x y : list A, slice_rel r x y = slice_rel r y x.
Proof.
  intros A r S x y. unfold slice_rel. rewrite (PeanoNat.Nat.eqb_sym (length x) (length y)). f_equal.
  exact (forallb_combine_sym r S x y).
Qed.
Theorem C17_slice_reflexive : forall (A : Type) (r : A -> A -> bool) (x : list A), (forall a, In a x -> r a a = true) -> slice_rel r x x = true.
Proof. intros A r x H. unfold slice_rel. rewrite PeanoNat.Nat.eqb_refl. exact (forallb_combine_refl r x H). Qed.
(* one piece (or PolyN coefficient) pair that is not related falsifies the whole slice relation *)
Theorem C17_slice_falsified_by_one : forall (A : Type) (r : A -> A -> bool) (x y : list A) (d : A) (i : nat),
  (i < length x)%nat -> (i < length y)%nat -> r (nth i x d) (nth i y d) = false -> slice_rel r x y = false.
Proof.
  intros A r x y d i Hx Hy Hr. unfold slice_rel. destruct (Nat.eqb (length x) (length y)) eqn:E; [cbn [andb]|reflexivity]. apply PeanoNat.Nat.eqb_eq in E.
  apply (C17_falsified_by_one _ _ _ (nth i x d, nth i y d)); [|exact Hr].
  rewrite <- combine_nth by exact E. apply nth_In. rewrite combine_length. now apply PeanoNat.Nat.min_glb_lt.
Qed.
(* non-vacuity: a Segment<Poly1> (3 numbers) compared with itself and with a copy moved in one position *)
Example C17_impl_example :
  let one := of_bits 4607182418800017408%Z in let two := of_bits 4611686018427387904%Z in
  beval FOps0 (env2 [one; two; one] [one; two; one] fzero fzero) k_Segment_Poly1__relative_eq = true /\
  beval FOps0 (env2 [one; two; one] [one; one; one] fzero fzero) k_Segment_Poly1__relative_eq = false.
Proof. vm_compute. split; reflexivity. Qed.

(* scalar consequences *)
Theorem C17_abs_reflexive : forall a eps : F, is_finite a = true -> fle fzero eps = true -> f_absdiffeq a a eps = true.
Proof. exact absdiffeq_refl. Qed.
Theorem C17_abs_of_equal : forall a b eps : F, is_finite a = true -> is_finite b = true -> B2R a = B2R b ->
  fle fzero eps = true -> f_absdiffeq a b eps = true.
Proof. exact absdiffeq_of_equal. Qed.
Theorem C17_rel_of_eq : forall a b eps rel : F, feq a b = true -> f_releq a b eps rel = true.
Proof. exact releq_of_eq. Qed.
Theorem C17_rel_reflexive : forall a eps rel : F, is_nanb a = false -> f_releq a a eps rel = true.
Proof. exact releq_refl. Qed.
Theorem C17_abs_symmetric : forall a b eps : F, f_absdiffeq a b eps = f_absdiffeq b a eps.
Proof. exact absdiffeq_sym. Qed.
Theorem C17_rel_symmetric : forall a b eps rel : F, f_releq a b eps rel = f_releq b a eps rel.
Proof. exact releq_sym. Qed.
Theorem C17_nan_never : forall a b eps : F, is_nanb a = true \/ is_nanb b = true -> f_absdiffeq a b eps = false.
Proof. exact absdiffeq_nan. Qed.

Example C17_example :
  run_bkernel k_Poly1__abs_diff_eq [4607182418800017408; 4611686018427387904; 4607182418800017409; 4611686018427387904; 4372995238176751616]%Z = [1%Z].
Proof. vm_compute. reflexivity. Qed.
