(* C07 - polynomial integration yields the antiderivative through the given knot. *)
From Coq Require Import List ZArith Reals Lra Lia.
From Flocq Require Import Core BinarySingleNaN.
Require Import PP.FloatModel PP.Expr PP.FloatOps PP.FloatFacts PP.RealOps PP.Shapes PP.ErrorBound PP.SafeDec PP.PolyFacts PP.Model.PwModel
  PP.Proofs.KernelBounds PP.Proofs.UlpProofs PP.Gen.Kernels PP.Props.C01.
Import ListNotations.
Local Open Scope R_scope.

(* indefinite(): lanes [0; c0; c1/2; ...; cK/(K+1)], each quotient ONE binary64 division by the literal
   (correctly rounded), the constant term the literal 0 and lane 1 the input c0 itself.
   integral(knot): the same lanes except the constant term. *)
Definition C07_table : list (list expr * list lane) := [
  (k_Poly0__indefinite, [LLit 0; LVar 0]);
  (k_Segment_Poly0__indefinite, spec_segment [LLit 0; LVar 0]);
  (tl k_Poly0__integral, [LVar 0]);
  (tl (tl k_Segment_Poly0__integral), [LVar 1]);
  ([hd (Lit 0) k_Segment_Poly0__integral], [LVar 0]);
  (k_Poly1__indefinite, [LLit 0; LVar 0; LDivLit 1 4611686018427387904]);
  (k_Segment_Poly1__indefinite, spec_segment [LLit 0; LVar 0; LDivLit 1 4611686018427387904]);
  (tl k_Poly1__integral, [LVar 0; LDivLit 1 4611686018427387904]);
  (tl (tl k_Segment_Poly1__integral), [LVar 1; LDivLit 2 4611686018427387904]);
  ([hd (Lit 0) k_Segment_Poly1__integral], [LVar 0]);
  (k_Poly2__indefinite, [LLit 0; LVar 0; LDivLit 1 4611686018427387904; LDivLit 2 4613937818241073152]);
  (k_Segment_Poly2__indefinite, spec_segment [LLit 0; LVar 0; LDivLit 1 4611686018427387904; LDivLit 2 4613937818241073152]);
  (tl k_Poly2__integral, [LVar 0; LDivLit 1 4611686018427387904; LDivLit 2 4613937818241073152]);
  (tl (tl k_Segment_Poly2__integral), [LVar 1; LDivLit 2 4611686018427387904; LDivLit 3 4613937818241073152]);
  ([hd (Lit 0) k_Segment_Poly2__integral], [LVar 0]);
  (k_Poly3__indefinite, [LLit 0; LVar 0; LDivLit 1 4611686018427387904; LDivLit 2 4613937818241073152; LDivLit 3 4616189618054758400]);
  (k_Segment_Poly3__indefinite, spec_segment [LLit 0; LVar 0; LDivLit 1 4611686018427387904; LDivLit 2 4613937818241073152; LDivLit 3 4616189618054758400]);
  (tl k_Poly3__integral, [LVar 0; LDivLit 1 4611686018427387904; LDivLit 2 4613937818241073152; LDivLit 3 4616189618054758400]);
  (tl (tl k_Segment_Poly3__integral), [LVar 1; LDivLit 2 4611686018427387904; LDivLit 3 4613937818241073152; LDivLit 4 4616189618054758400]);
  ([hd (Lit 0) k_Segment_Poly3__integral], [LVar 0]);
  (k_Poly4__indefinite, [LLit 0; LVar 0; LDivLit 1 4611686018427387904; LDivLit 2 4613937818241073152; LDivLit 3 4616189618054758400; LDivLit 4 4617315517961601024]);
  (k_Segment_Poly4__indefinite, spec_segment [LLit 0; LVar 0; LDivLit 1 4611686018427387904; LDivLit 2 4613937818241073152; LDivLit 3 4616189618054758400; LDivLit 4 4617315517961601024]);
  (tl k_Poly4__integral, [LVar 0; LDivLit 1 4611686018427387904; LDivLit 2 4613937818241073152; LDivLit 3 4616189618054758400; LDivLit 4 4617315517961601024]);
  (tl (tl k_Segment_Poly4__integral), [LVar 1; LDivLit 2 4611686018427387904; LDivLit 3 4613937818241073152; LDivLit 4 4616189618054758400; LDivLit 5 4617315517961601024]);
  ([hd (Lit 0) k_Segment_Poly4__integral], [LVar 0]);
  (k_Poly5__indefinite, [LLit 0; LVar 0; LDivLit 1 4611686018427387904; LDivLit 2 4613937818241073152; LDivLit 3 4616189618054758400; LDivLit 4 4617315517961601024; LDivLit 5 4618441417868443648]);
  (k_Segment_Poly5__indefinite, spec_segment [LLit 0; LVar 0; LDivLit 1 4611686018427387904; LDivLit 2 4613937818241073152; LDivLit 3 4616189618054758400; LDivLit 4 4617315517961601024; LDivLit 5 4618441417868443648]);
  (tl k_Poly5__integral, [LVar 0; LDivLit 1 4611686018427387904; LDivLit 2 4613937818241073152; LDivLit 3 4616189618054758400; LDivLit 4 4617315517961601024; LDivLit 5 4618441417868443648]);
  (tl (tl k_Segment_Poly5__integral), [LVar 1; LDivLit 2 4611686018427387904; LDivLit 3 4613937818241073152; LDivLit 4 4616189618054758400; LDivLit 5 4617315517961601024; LDivLit 6 4618441417868443648]);
  ([hd (Lit 0) k_Segment_Poly5__integral], [LVar 0]);
  (k_Poly6__indefinite, [LLit 0; LVar 0; LDivLit 1 4611686018427387904; LDivLit 2 4613937818241073152; LDivLit 3 4616189618054758400; LDivLit 4 4617315517961601024; LDivLit 5 4618441417868443648; LDivLit 6 4619567317775286272]);
  (k_Segment_Poly6__indefinite, spec_segment [LLit 0; LVar 0; LDivLit 1 4611686018427387904; LDivLit 2 4613937818241073152; LDivLit 3 4616189618054758400; LDivLit 4 4617315517961601024; LDivLit 5 4618441417868443648; LDivLit 6 4619567317775286272]);
  (tl k_Poly6__integral, [LVar 0; LDivLit 1 4611686018427387904; LDivLit 2 4613937818241073152; LDivLit 3 4616189618054758400; LDivLit 4 4617315517961601024; LDivLit 5 4618441417868443648; LDivLit 6 4619567317775286272]);
  (tl (tl k_Segment_Poly6__integral), [LVar 1; LDivLit 2 4611686018427387904; LDivLit 3 4613937818241073152; LDivLit 4 4616189618054758400; LDivLit 5 4617315517961601024; LDivLit 6 4618441417868443648; LDivLit 7 4619567317775286272]);
  ([hd (Lit 0) k_Segment_Poly6__integral], [LVar 0]);
  (k_Poly7__indefinite, [LLit 0; LVar 0; LDivLit 1 4611686018427387904; LDivLit 2 4613937818241073152; LDivLit 3 4616189618054758400; LDivLit 4 4617315517961601024; LDivLit 5 4618441417868443648; LDivLit 6 4619567317775286272; LDivLit 7 4620693217682128896]);
  (k_Segment_Poly7__indefinite, spec_segment [LLit 0; LVar 0; LDivLit 1 4611686018427387904; LDivLit 2 4613937818241073152; LDivLit 3 4616189618054758400; LDivLit 4 4617315517961601024; LDivLit 5 4618441417868443648; LDivLit 6 4619567317775286272; LDivLit 7 4620693217682128896]);
  (tl k_Poly7__integral, [LVar 0; LDivLit 1 4611686018427387904; LDivLit 2 4613937818241073152; LDivLit 3 4616189618054758400; LDivLit 4 4617315517961601024; LDivLit 5 4618441417868443648; LDivLit 6 4619567317775286272; LDivLit 7 4620693217682128896]);
  (tl (tl k_Segment_Poly7__integral), [LVar 1; LDivLit 2 4611686018427387904; LDivLit 3 4613937818241073152; LDivLit 4 4616189618054758400; LDivLit 5 4617315517961601024; LDivLit 6 4618441417868443648; LDivLit 7 4619567317775286272; LDivLit 8 4620693217682128896]);
  ([hd (Lit 0) k_Segment_Poly7__integral], [LVar 0])
].
Theorem C07_shapes :
  List.Forall (fun p => forall env, evals FOps0 env (fst p) = map (lane_sem env) (snd p)) C07_table.
Proof. apply table_ok_sem. vm_compute. reflexivity. Qed.

(* one binary64 division by a literal is the correctly rounded quotient *)
Theorem C07_lane_rounded : forall (c : F) (b : Z), is_finite c = true -> B2R (of_bits b) <> 0 ->
  noover (B2R c / B2R (of_bits b)) ->
  B2R (fdiv c (of_bits b)) = rnd (B2R c / B2R (of_bits b)) /\ is_finite (fdiv c (of_bits b)) = true.
Proof. intros. now apply div_correct. Qed.

Ltac list_field := repeat match goal with
  | |- _ :: _ = _ :: _ => apply f_equal2; [try (simpl; field; lra)|]
  | |- [] = [] => reflexivity end.

Theorem C07_Poly0_indefinite : forall c0 : R, evals ROps [c0] k_Poly0__indefinite = antider [c0].
Proof. intros. unfold k_Poly0__indefinite. reval. norm_lits. unfold antider. cbn [antider_from]. list_field. Qed.
(* integral(knot) is the antiderivative shifted vertically: F(t) = A(t) + (knot.y - A(knot.x)) for every t *)
Theorem C07_Poly0_integral : forall c0 kx ky t : R,
  polyval (evals ROps [c0; kx; ky] k_Poly0__integral) t = polyval (antider [c0]) t + (ky - polyval (antider [c0]) kx).
Proof. intros. unfold k_Poly0__integral. reval. norm_lits. unfold antider. cbn [antider_from polyval]. simpl INR. field. Qed.
Theorem C07_Poly0_knot : forall c0 kx ky : R, polyval (evals ROps [c0; kx; ky] k_Poly0__integral) kx = ky.
Proof. intros. rewrite C07_Poly0_integral. ring. Qed.
(* the value of the returned polynomial at knot.x, computed in binary64 by Poly1::evaluate, is knot.y within rounding *)
Definition e_knot0 : expr := subst (k_Poly0__integral ++ [Var 1]) e_Poly1.
Theorem C07_Poly0_knot_float : forall c0 kx ky : F, safe [c0; kx; ky] e_knot0 ->
  Rabs (B2R (fev [c0; kx; ky] e_knot0) - B2R ky) <= 2 * INR (depth e_knot0) * u * absval (map B2R [c0; kx; ky]) e_knot0.
Proof.
  intros c0 kx ky Hs.
  assert (Hv : rval [c0; kx; ky] e_knot0 = B2R ky).
  { unfold rval, e_knot0. rewrite eval_subst by (vm_compute; reflexivity). cbn [map app].
    change (map (eval ROps [B2R c0; B2R kx; B2R ky]) (k_Poly0__integral ++ [Var 1]))
      with (evals ROps [B2R c0; B2R kx; B2R ky] k_Poly0__integral ++ [B2R kx]).
    unfold k_Poly0__integral. reval. norm_lits.
    cbn [app]. rewrite C01_Poly1_value. cbn [polyval]. simpl INR. field. }
  rewrite <- Hv. apply eval_apriori_lin; [vm_compute; reflexivity|exact Hs|].
  assert (Hd : INR (depth e_knot0) <= 100) by (vm_compute depth; simpl INR; lra).
  assert (Hu := u_pos). rewrite u_val in *. assert (0 <= INR (depth e_knot0)) by apply pos_INR. nra.
Qed.

Theorem C07_Poly1_indefinite : forall c0 c1 : R, evals ROps [c0; c1] k_Poly1__indefinite = antider [c0; c1].
Proof. intros. unfold k_Poly1__indefinite. reval. norm_lits. unfold antider. cbn [antider_from]. list_field. Qed.
(* integral(knot) is the antiderivative shifted vertically: F(t) = A(t) + (knot.y - A(knot.x)) for every t *)
Theorem C07_Poly1_integral : forall c0 c1 kx ky t : R,
  polyval (evals ROps [c0; c1; kx; ky] k_Poly1__integral) t = polyval (antider [c0; c1]) t + (ky - polyval (antider [c0; c1]) kx).
Proof. intros. unfold k_Poly1__integral. reval. norm_lits. unfold antider. cbn [antider_from polyval]. simpl INR. field. Qed.
Theorem C07_Poly1_knot : forall c0 c1 kx ky : R, polyval (evals ROps [c0; c1; kx; ky] k_Poly1__integral) kx = ky.
Proof. intros. rewrite C07_Poly1_integral. ring. Qed.
(* the value of the returned polynomial at knot.x, computed in binary64 by Poly2::evaluate, is knot.y within rounding *)
Definition e_knot1 : expr := subst (k_Poly1__integral ++ [Var 2]) e_Poly2.
Theorem C07_Poly1_knot_float : forall c0 c1 kx ky : F, safe [c0; c1; kx; ky] e_knot1 ->
  Rabs (B2R (fev [c0; c1; kx; ky] e_knot1) - B2R ky) <= 2 * INR (depth e_knot1) * u * absval (map B2R [c0; c1; kx; ky]) e_knot1.
Proof.
  intros c0 c1 kx ky Hs.
  assert (Hv : rval [c0; c1; kx; ky] e_knot1 = B2R ky).
  { unfold rval, e_knot1. rewrite eval_subst by (vm_compute; reflexivity). cbn [map app].
    change (map (eval ROps [B2R c0; B2R c1; B2R kx; B2R ky]) (k_Poly1__integral ++ [Var 2]))
      with (evals ROps [B2R c0; B2R c1; B2R kx; B2R ky] k_Poly1__integral ++ [B2R kx]).
    unfold k_Poly1__integral. reval. norm_lits.
    cbn [app]. rewrite C01_Poly2_value. cbn [polyval]. simpl INR. field. }
  rewrite <- Hv. apply eval_apriori_lin; [vm_compute; reflexivity|exact Hs|].
  assert (Hd : INR (depth e_knot1) <= 100) by (vm_compute depth; simpl INR; lra).
  assert (Hu := u_pos). rewrite u_val in *. assert (0 <= INR (depth e_knot1)) by apply pos_INR. nra.
Qed.

Theorem C07_Poly2_indefinite : forall c0 c1 c2 : R, evals ROps [c0; c1; c2] k_Poly2__indefinite = antider [c0; c1; c2].
Proof. intros. unfold k_Poly2__indefinite. reval. norm_lits. unfold antider. cbn [antider_from]. list_field. Qed.
(* integral(knot) is the antiderivative shifted vertically: F(t) = A(t) + (knot.y - A(knot.x)) for every t *)
Theorem C07_Poly2_integral : forall c0 c1 c2 kx ky t : R,
  polyval (evals ROps [c0; c1; c2; kx; ky] k_Poly2__integral) t = polyval (antider [c0; c1; c2]) t + (ky - polyval (antider [c0; c1; c2]) kx).
Proof. intros. unfold k_Poly2__integral. reval. norm_lits. unfold antider. cbn [antider_from polyval]. simpl INR. field. Qed.
Theorem C07_Poly2_knot : forall c0 c1 c2 kx ky : R, polyval (evals ROps [c0; c1; c2; kx; ky] k_Poly2__integral) kx = ky.
Proof. intros. rewrite C07_Poly2_integral. ring. Qed.
(* the value of the returned polynomial at knot.x, computed in binary64 by Poly3::evaluate, is knot.y within rounding *)
Definition e_knot2 : expr := subst (k_Poly2__integral ++ [Var 3]) e_Poly3.
Theorem C07_Poly2_knot_float : forall c0 c1 c2 kx ky : F, safe [c0; c1; c2; kx; ky] e_knot2 ->
  Rabs (B2R (fev [c0; c1; c2; kx; ky] e_knot2) - B2R ky) <= 2 * INR (depth e_knot2) * u * absval (map B2R [c0; c1; c2; kx; ky]) e_knot2.
Proof.
  intros c0 c1 c2 kx ky Hs.
  assert (Hv : rval [c0; c1; c2; kx; ky] e_knot2 = B2R ky).
  { unfold rval, e_knot2. rewrite eval_subst by (vm_compute; reflexivity). cbn [map app].
    change (map (eval ROps [B2R c0; B2R c1; B2R c2; B2R kx; B2R ky]) (k_Poly2__integral ++ [Var 3]))
      with (evals ROps [B2R c0; B2R c1; B2R c2; B2R kx; B2R ky] k_Poly2__integral ++ [B2R kx]).
    unfold k_Poly2__integral. reval. norm_lits.
    cbn [app]. rewrite C01_Poly3_value. cbn [polyval]. simpl INR. field. }
  rewrite <- Hv. apply eval_apriori_lin; [vm_compute; reflexivity|exact Hs|].
  assert (Hd : INR (depth e_knot2) <= 100) by (vm_compute depth; simpl INR; lra).
  assert (Hu := u_pos). rewrite u_val in *. assert (0 <= INR (depth e_knot2)) by apply pos_INR. nra.
Qed.

Theorem C07_Poly3_indefinite : forall c0 c1 c2 c3 : R, evals ROps [c0; c1; c2; c3] k_Poly3__indefinite = antider [c0; c1; c2; c3].
Proof. intros. unfold k_Poly3__indefinite. reval. norm_lits. unfold antider. cbn [antider_from]. list_field. Qed.
(* integral(knot) is the antiderivative shifted vertically: F(t) = A(t) + (knot.y - A(knot.x)) for every t *)
Theorem C07_Poly3_integral : forall c0 c1 c2 c3 kx ky t : R,
  polyval (evals ROps [c0; c1; c2; c3; kx; ky] k_Poly3__integral) t = polyval (antider [c0; c1; c2; c3]) t + (ky - polyval (antider [c0; c1; c2; c3]) kx).
Proof. intros. unfold k_Poly3__integral. reval. norm_lits. unfold antider. cbn [antider_from polyval]. simpl INR. field. Qed.
Theorem C07_Poly3_knot : forall c0 c1 c2 c3 kx ky : R, polyval (evals ROps [c0; c1; c2; c3; kx; ky] k_Poly3__integral) kx = ky.
Proof. intros. rewrite C07_Poly3_integral. ring. Qed.
(* the value of the returned polynomial at knot.x, computed in binary64 by Poly4::evaluate, is knot.y within rounding *)
Definition e_knot3 : expr := subst (k_Poly3__integral ++ [Var 4]) e_Poly4.
Theorem C07_Poly3_knot_float : forall c0 c1 c2 c3 kx ky : F, safe [c0; c1; c2; c3; kx; ky] e_knot3 ->
  Rabs (B2R (fev [c0; c1; c2; c3; kx; ky] e_knot3) - B2R ky) <= 2 * INR (depth e_knot3) * u * absval (map B2R [c0; c1; c2; c3; kx; ky]) e_knot3.
Proof.
  intros c0 c1 c2 c3 kx ky Hs.
  assert (Hv : rval [c0; c1; c2; c3; kx; ky] e_knot3 = B2R ky).
  { unfold rval, e_knot3. rewrite eval_subst by (vm_compute; reflexivity). cbn [map app].
    change (map (eval ROps [B2R c0; B2R c1; B2R c2; B2R c3; B2R kx; B2R ky]) (k_Poly3__integral ++ [Var 4]))
      with (evals ROps [B2R c0; B2R c1; B2R c2; B2R c3; B2R kx; B2R ky] k_Poly3__integral ++ [B2R kx]).
    unfold k_Poly3__integral. reval. norm_lits.
    cbn [app]. rewrite C01_Poly4_value. cbn [polyval]. simpl INR. field. }
  rewrite <- Hv. apply eval_apriori_lin; [vm_compute; reflexivity|exact Hs|].
  assert (Hd : INR (depth e_knot3) <= 100) by (vm_compute depth; simpl INR; lra).
  assert (Hu := u_pos). rewrite u_val in *. assert (0 <= INR (depth e_knot3)) by apply pos_INR. nra.
Qed.

Theorem C07_Poly4_indefinite : forall c0 c1 c2 c3 c4 : R, evals ROps [c0; c1; c2; c3; c4] k_Poly4__indefinite = antider [c0; c1; c2; c3; c4].
Proof. intros. unfold k_Poly4__indefinite. reval. norm_lits. unfold antider. cbn [antider_from]. list_field. Qed.
(* integral(knot) is the antiderivative shifted vertically: F(t) = A(t) + (knot.y - A(knot.x)) for every t *)
Theorem C07_Poly4_integral : forall c0 c1 c2 c3 c4 kx ky t : R,
  polyval (evals ROps [c0; c1; c2; c3; c4; kx; ky] k_Poly4__integral) t = polyval (antider [c0; c1; c2; c3; c4]) t + (ky - polyval (antider [c0; c1; c2; c3; c4]) kx).
Proof. intros. unfold k_Poly4__integral. reval. norm_lits. unfold antider. cbn [antider_from polyval]. simpl INR. field. Qed.
Theorem C07_Poly4_knot : forall c0 c1 c2 c3 c4 kx ky : R, polyval (evals ROps [c0; c1; c2; c3; c4; kx; ky] k_Poly4__integral) kx = ky.
Proof. intros. rewrite C07_Poly4_integral. ring. Qed.
(* the value of the returned polynomial at knot.x, computed in binary64 by Poly5::evaluate, is knot.y within rounding *)
Definition e_knot4 : expr := subst (k_Poly4__integral ++ [Var 5]) e_Poly5.
Theorem C07_Poly4_knot_float : forall c0 c1 c2 c3 c4 kx ky : F, safe [c0; c1; c2; c3; c4; kx; ky] e_knot4 ->
  Rabs (B2R (fev [c0; c1; c2; c3; c4; kx; ky] e_knot4) - B2R ky) <= 2 * INR (depth e_knot4) * u * absval (map B2R [c0; c1; c2; c3; c4; kx; ky]) e_knot4.
Proof.
  intros c0 c1 c2 c3 c4 kx ky Hs.
  assert (Hv : rval [c0; c1; c2; c3; c4; kx; ky] e_knot4 = B2R ky).
  { unfold rval, e_knot4. rewrite eval_subst by (vm_compute; reflexivity). cbn [map app].
    change (map (eval ROps [B2R c0; B2R c1; B2R c2; B2R c3; B2R c4; B2R kx; B2R ky]) (k_Poly4__integral ++ [Var 5]))
      with (evals ROps [B2R c0; B2R c1; B2R c2; B2R c3; B2R c4; B2R kx; B2R ky] k_Poly4__integral ++ [B2R kx]).
    unfold k_Poly4__integral. reval. norm_lits.
    cbn [app]. rewrite C01_Poly5_value. cbn [polyval]. simpl INR. field. }
  rewrite <- Hv. apply eval_apriori_lin; [vm_compute; reflexivity|exact Hs|].
  assert (Hd : INR (depth e_knot4) <= 100) by (vm_compute depth; simpl INR; lra).
  assert (Hu := u_pos). rewrite u_val in *. assert (0 <= INR (depth e_knot4)) by apply pos_INR. nra.
Qed.

Theorem C07_Poly5_indefinite : forall c0 c1 c2 c3 c4 c5 : R, evals ROps [c0; c1; c2; c3; c4; c5] k_Poly5__indefinite = antider [c0; c1; c2; c3; c4; c5].
Proof. intros. unfold k_Poly5__indefinite. reval. norm_lits. unfold antider. cbn [antider_from]. list_field. Qed.
(* integral(knot) is the antiderivative shifted vertically: F(t) = A(t) + (knot.y - A(knot.x)) for every t *)
Theorem C07_Poly5_integral : forall c0 c1 c2 c3 c4 c5 kx ky t : R,
  polyval (evals ROps [c0; c1; c2; c3; c4; c5; kx; ky] k_Poly5__integral) t = polyval (antider [c0; c1; c2; c3; c4; c5]) t + (ky - polyval (antider [c0; c1; c2; c3; c4; c5]) kx).
Proof. intros. unfold k_Poly5__integral. reval. norm_lits. unfold antider. cbn [antider_from polyval]. simpl INR. field. Qed.
Theorem C07_Poly5_knot : forall c0 c1 c2 c3 c4 c5 kx ky : R, polyval (evals ROps [c0; c1; c2; c3; c4; c5; kx; ky] k_Poly5__integral) kx = ky.
Proof. intros. rewrite C07_Poly5_integral. ring. Qed.
(* the value of the returned polynomial at knot.x, computed in binary64 by Poly6::evaluate, is knot.y within rounding *)
Definition e_knot5 : expr := subst (k_Poly5__integral ++ [Var 6]) e_Poly6.
Theorem C07_Poly5_knot_float : forall c0 c1 c2 c3 c4 c5 kx ky : F, safe [c0; c1; c2; c3; c4; c5; kx; ky] e_knot5 ->
  Rabs (B2R (fev [c0; c1; c2; c3; c4; c5; kx; ky] e_knot5) - B2R ky) <= 2 * INR (depth e_knot5) * u * absval (map B2R [c0; c1; c2; c3; c4; c5; kx; ky]) e_knot5.
Proof.
  intros c0 c1 c2 c3 c4 c5 kx ky Hs.
  assert (Hv : rval [c0; c1; c2; c3; c4; c5; kx; ky] e_knot5 = B2R ky).
  { unfold rval, e_knot5. rewrite eval_subst by (vm_compute; reflexivity). cbn [map app].
    change (map (eval ROps [B2R c0; B2R c1; B2R c2; B2R c3; B2R c4; B2R c5; B2R kx; B2R ky]) (k_Poly5__integral ++ [Var 6]))
      with (evals ROps [B2R c0; B2R c1; B2R c2; B2R c3; B2R c4; B2R c5; B2R kx; B2R ky] k_Poly5__integral ++ [B2R kx]).
    unfold k_Poly5__integral. reval. norm_lits.
    cbn [app]. rewrite C01_Poly6_value. cbn [polyval]. simpl INR. field. }
  rewrite <- Hv. apply eval_apriori_lin; [vm_compute; reflexivity|exact Hs|].
  assert (Hd : INR (depth e_knot5) <= 100) by (vm_compute depth; simpl INR; lra).
  assert (Hu := u_pos). rewrite u_val in *. assert (0 <= INR (depth e_knot5)) by apply pos_INR. nra.
Qed.

Theorem C07_Poly6_indefinite : forall c0 c1 c2 c3 c4 c5 c6 : R, evals ROps [c0; c1; c2; c3; c4; c5; c6] k_Poly6__indefinite = antider [c0; c1; c2; c3; c4; c5; c6].
Proof. intros. unfold k_Poly6__indefinite. reval. norm_lits. unfold antider. cbn [antider_from]. list_field. Qed.
(* integral(knot) is the antiderivative shifted vertically: F(t) = A(t) + (knot.y - A(knot.x)) for every t *)
Theorem C07_Poly6_integral : forall c0 c1 c2 c3 c4 c5 c6 kx ky t : R,
  polyval (evals ROps [c0; c1; c2; c3; c4; c5; c6; kx; ky] k_Poly6__integral) t = polyval (antider [c0; c1; c2; c3; c4; c5; c6]) t + (ky - polyval (antider [c0; c1; c2; c3; c4; c5; c6]) kx).
Proof. intros. unfold k_Poly6__integral. reval. norm_lits. unfold antider. cbn [antider_from polyval]. simpl INR. field. Qed.
Theorem C07_Poly6_knot : forall c0 c1 c2 c3 c4 c5 c6 kx ky : R, polyval (evals ROps [c0; c1; c2; c3; c4; c5; c6; kx; ky] k_Poly6__integral) kx = ky.
Proof. intros. rewrite C07_Poly6_integral. ring. Qed.
(* the value of the returned polynomial at knot.x, computed in binary64 by Poly7::evaluate, is knot.y within rounding *)
Definition e_knot6 : expr := subst (k_Poly6__integral ++ [Var 7]) e_Poly7.
Theorem C07_Poly6_knot_float : forall c0 c1 c2 c3 c4 c5 c6 kx ky : F, safe [c0; c1; c2; c3; c4; c5; c6; kx; ky] e_knot6 ->
  Rabs (B2R (fev [c0; c1; c2; c3; c4; c5; c6; kx; ky] e_knot6) - B2R ky) <= 2 * INR (depth e_knot6) * u * absval (map B2R [c0; c1; c2; c3; c4; c5; c6; kx; ky]) e_knot6.
Proof.
  intros c0 c1 c2 c3 c4 c5 c6 kx ky Hs.
  assert (Hv : rval [c0; c1; c2; c3; c4; c5; c6; kx; ky] e_knot6 = B2R ky).
  { unfold rval, e_knot6. rewrite eval_subst by (vm_compute; reflexivity). cbn [map app].
    change (map (eval ROps [B2R c0; B2R c1; B2R c2; B2R c3; B2R c4; B2R c5; B2R c6; B2R kx; B2R ky]) (k_Poly6__integral ++ [Var 7]))
      with (evals ROps [B2R c0; B2R c1; B2R c2; B2R c3; B2R c4; B2R c5; B2R c6; B2R kx; B2R ky] k_Poly6__integral ++ [B2R kx]).
    unfold k_Poly6__integral. reval. norm_lits.
    cbn [app]. rewrite C01_Poly7_value. cbn [polyval]. simpl INR. field. }
  rewrite <- Hv. apply eval_apriori_lin; [vm_compute; reflexivity|exact Hs|].
  assert (Hd : INR (depth e_knot6) <= 100) by (vm_compute depth; simpl INR; lra).
  assert (Hu := u_pos). rewrite u_val in *. assert (0 <= INR (depth e_knot6)) by apply pos_INR. nra.
Qed.

Theorem C07_Poly7_indefinite : forall c0 c1 c2 c3 c4 c5 c6 c7 : R, evals ROps [c0; c1; c2; c3; c4; c5; c6; c7] k_Poly7__indefinite = antider [c0; c1; c2; c3; c4; c5; c6; c7].
Proof. intros. unfold k_Poly7__indefinite. reval. norm_lits. unfold antider. cbn [antider_from]. list_field. Qed.
(* integral(knot) is the antiderivative shifted vertically: F(t) = A(t) + (knot.y - A(knot.x)) for every t *)
Theorem C07_Poly7_integral : forall c0 c1 c2 c3 c4 c5 c6 c7 kx ky t : R,
  polyval (evals ROps [c0; c1; c2; c3; c4; c5; c6; c7; kx; ky] k_Poly7__integral) t = polyval (antider [c0; c1; c2; c3; c4; c5; c6; c7]) t + (ky - polyval (antider [c0; c1; c2; c3; c4; c5; c6; c7]) kx).
Proof. intros. unfold k_Poly7__integral. reval. norm_lits. unfold antider. cbn [antider_from polyval]. simpl INR. field. Qed.
Theorem C07_Poly7_knot : forall c0 c1 c2 c3 c4 c5 c6 c7 kx ky : R, polyval (evals ROps [c0; c1; c2; c3; c4; c5; c6; c7; kx; ky] k_Poly7__integral) kx = ky.
Proof. intros. rewrite C07_Poly7_integral. ring. Qed.
(* the value of the returned polynomial at knot.x, computed in binary64 by Poly8::evaluate, is knot.y within rounding *)
Definition e_knot7 : expr := subst (k_Poly7__integral ++ [Var 8]) e_Poly8.
Theorem C07_Poly7_knot_float : forall c0 c1 c2 c3 c4 c5 c6 c7 kx ky : F, safe [c0; c1; c2; c3; c4; c5; c6; c7; kx; ky] e_knot7 ->
  Rabs (B2R (fev [c0; c1; c2; c3; c4; c5; c6; c7; kx; ky] e_knot7) - B2R ky) <= 2 * INR (depth e_knot7) * u * absval (map B2R [c0; c1; c2; c3; c4; c5; c6; c7; kx; ky]) e_knot7.
Proof.
  intros c0 c1 c2 c3 c4 c5 c6 c7 kx ky Hs.
  assert (Hv : rval [c0; c1; c2; c3; c4; c5; c6; c7; kx; ky] e_knot7 = B2R ky).
  { unfold rval, e_knot7. rewrite eval_subst by (vm_compute; reflexivity). cbn [map app].
    change (map (eval ROps [B2R c0; B2R c1; B2R c2; B2R c3; B2R c4; B2R c5; B2R c6; B2R c7; B2R kx; B2R ky]) (k_Poly7__integral ++ [Var 8]))
      with (evals ROps [B2R c0; B2R c1; B2R c2; B2R c3; B2R c4; B2R c5; B2R c6; B2R c7; B2R kx; B2R ky] k_Poly7__integral ++ [B2R kx]).
    unfold k_Poly7__integral. reval. norm_lits.
    cbn [app]. rewrite C01_Poly8_value. cbn [polyval]. simpl INR. field. }
  rewrite <- Hv. apply eval_apriori_lin; [vm_compute; reflexivity|exact Hs|].
  assert (Hd : INR (depth e_knot7) <= 100) by (vm_compute depth; simpl INR; lra).
  assert (Hu := u_pos). rewrite u_val in *. assert (0 <= INR (depth e_knot7)) by apply pos_INR. nra.
Qed.


(* consequently: derivative and differences of the result *)
Theorem C07_antiderivative : forall (cs : list R) (k x : R),
  derivable_pt_lim (fun t => polyval (antider cs) t + k) x (polyval cs x).
Proof.
  intros. replace (polyval cs x) with (polyval cs x + 0) by ring.
  apply derivable_pt_lim_plus; [|apply derivable_pt_lim_const].
  assert (H := derivable_polyval (antider cs) x). rewrite dpoly_deriv_coeffs, deriv_antider in H. exact H.
Qed.
Theorem C07_roundtrip_exact : forall cs : list R, deriv_coeffs (antider cs) = cs.
Proof. exact deriv_antider. Qed.


(* ---- the round trip derivative . indefinite in binary64 ---- *)
(* which operations it performs: coefficient 0 comes back untouched, coefficient i >= 1 comes back as (i+1) * (c_i / (i+1)),
   two correctly rounded operations (statement per degree, on the regenerated kernels of both methods) *)
Theorem C07_Poly0_roundtrip_lanes : forall c0 : F,
  evals FOps0 (evals FOps0 [c0] k_Poly0__indefinite) k_Poly1__derivative =
  [c0].
Proof. intros. reflexivity. Qed.
Theorem C07_Poly1_roundtrip_lanes : forall c0 c1 : F,
  evals FOps0 (evals FOps0 [c0; c1] k_Poly1__indefinite) k_Poly2__derivative =
  [c0;
   fmul (of_bits 4611686018427387904) (fdiv c1 (of_bits 4611686018427387904))].
Proof. intros. reflexivity. Qed.
Theorem C07_Poly2_roundtrip_lanes : forall c0 c1 c2 : F,
  evals FOps0 (evals FOps0 [c0; c1; c2] k_Poly2__indefinite) k_Poly3__derivative =
  [c0;
   fmul (of_bits 4611686018427387904) (fdiv c1 (of_bits 4611686018427387904));
   fmul (of_bits 4613937818241073152) (fdiv c2 (of_bits 4613937818241073152))].
Proof. intros. reflexivity. Qed.
Theorem C07_Poly3_roundtrip_lanes : forall c0 c1 c2 c3 : F,
  evals FOps0 (evals FOps0 [c0; c1; c2; c3] k_Poly3__indefinite) k_Poly4__derivative =
  [c0;
   fmul (of_bits 4611686018427387904) (fdiv c1 (of_bits 4611686018427387904));
   fmul (of_bits 4613937818241073152) (fdiv c2 (of_bits 4613937818241073152));
   fmul (of_bits 4616189618054758400) (fdiv c3 (of_bits 4616189618054758400))].
Proof. intros. reflexivity. Qed.
Theorem C07_Poly4_roundtrip_lanes : forall c0 c1 c2 c3 c4 : F,
  evals FOps0 (evals FOps0 [c0; c1; c2; c3; c4] k_Poly4__indefinite) k_Poly5__derivative =
  [c0;
   fmul (of_bits 4611686018427387904) (fdiv c1 (of_bits 4611686018427387904));
   fmul (of_bits 4613937818241073152) (fdiv c2 (of_bits 4613937818241073152));
   fmul (of_bits 4616189618054758400) (fdiv c3 (of_bits 4616189618054758400));
   fmul (of_bits 4617315517961601024) (fdiv c4 (of_bits 4617315517961601024))].
Proof. intros. reflexivity. Qed.
Theorem C07_Poly5_roundtrip_lanes : forall c0 c1 c2 c3 c4 c5 : F,
  evals FOps0 (evals FOps0 [c0; c1; c2; c3; c4; c5] k_Poly5__indefinite) k_Poly6__derivative =
  [c0;
   fmul (of_bits 4611686018427387904) (fdiv c1 (of_bits 4611686018427387904));
   fmul (of_bits 4613937818241073152) (fdiv c2 (of_bits 4613937818241073152));
   fmul (of_bits 4616189618054758400) (fdiv c3 (of_bits 4616189618054758400));
   fmul (of_bits 4617315517961601024) (fdiv c4 (of_bits 4617315517961601024));
   fmul (of_bits 4618441417868443648) (fdiv c5 (of_bits 4618441417868443648))].
Proof. intros. reflexivity. Qed.
Theorem C07_Poly6_roundtrip_lanes : forall c0 c1 c2 c3 c4 c5 c6 : F,
  evals FOps0 (evals FOps0 [c0; c1; c2; c3; c4; c5; c6] k_Poly6__indefinite) k_Poly7__derivative =
  [c0;
   fmul (of_bits 4611686018427387904) (fdiv c1 (of_bits 4611686018427387904));
   fmul (of_bits 4613937818241073152) (fdiv c2 (of_bits 4613937818241073152));
   fmul (of_bits 4616189618054758400) (fdiv c3 (of_bits 4616189618054758400));
   fmul (of_bits 4617315517961601024) (fdiv c4 (of_bits 4617315517961601024));
   fmul (of_bits 4618441417868443648) (fdiv c5 (of_bits 4618441417868443648));
   fmul (of_bits 4619567317775286272) (fdiv c6 (of_bits 4619567317775286272))].
Proof. intros. reflexivity. Qed.
Theorem C07_Poly7_roundtrip_lanes : forall c0 c1 c2 c3 c4 c5 c6 c7 : F,
  evals FOps0 (evals FOps0 [c0; c1; c2; c3; c4; c5; c6; c7] k_Poly7__indefinite) k_Poly8__derivative =
  [c0;
   fmul (of_bits 4611686018427387904) (fdiv c1 (of_bits 4611686018427387904));
   fmul (of_bits 4613937818241073152) (fdiv c2 (of_bits 4613937818241073152));
   fmul (of_bits 4616189618054758400) (fdiv c3 (of_bits 4616189618054758400));
   fmul (of_bits 4617315517961601024) (fdiv c4 (of_bits 4617315517961601024));
   fmul (of_bits 4618441417868443648) (fdiv c5 (of_bits 4618441417868443648));
   fmul (of_bits 4619567317775286272) (fdiv c6 (of_bits 4619567317775286272));
   fmul (of_bits 4620693217682128896) (fdiv c7 (of_bits 4620693217682128896))].
Proof. intros. reflexivity. Qed.

(* each such coefficient is within ONE unit in the last place of c_i, for every finite c_i whose quotient by the (finite,
   non-zero) literal is not subnormal and when nothing overflows *)
Theorem C07_roundtrip_one_ulp : forall (c n : F), is_finite c = true -> is_finite_strict n = true ->
  nounder (B2R c / B2R n) -> noover (B2R c / B2R n) -> noover (B2R (fdiv c n) * B2R n) ->
  Rabs (B2R (fmul n (fdiv c n)) - B2R c) <= ulp radix2 fexp64 (B2R c) /\ is_finite (fmul n (fdiv c n)) = true.
Proof. intros c n. rewrite (fmul_comm n). apply roundtrip_one_ulp_lit. Qed.

(* the divisors that occur are finite and non-zero *)
Theorem C07_divisors_ok : forallb (fun b => is_finite_strict (of_bits b))
  [4611686018427387904; 4613937818241073152; 4616189618054758400; 4617315517961601024; 4618441417868443648; 4619567317775286272; 4620693217682128896]%Z = true.
Proof. vm_compute. reflexivity. Qed.

(* KNOWN FINDING D4: without the no-underflow hypothesis the one-ulp claim is FALSE for the unchanged code: c = 2^-1073
   (bits 0x2), divisor 4.0 (the x^3 coefficient of a Poly3): c/4 is half the smallest subnormal and rounds to 0, 4*0 = 0,
   two units in the last place away from c. *)
Theorem C07_roundtrip_refuted_when_subnormal :
  is_finite (of_bits 2) = true /\ is_finite_strict (of_bits 4616189618054758400) = true /\
  ~ (Rabs (B2R (fmul (of_bits 4616189618054758400) (fdiv (of_bits 2) (of_bits 4616189618054758400))) - B2R (of_bits 2))
     <= ulp radix2 fexp64 (B2R (of_bits 2))).
Proof. rewrite (fmul_comm (of_bits 4616189618054758400)). exact roundtrip_subnormal_refuted. Qed.


(* ---- non-vacuity of the knot_float theorems: a concrete polynomial and knot satisfy `safe` ---- *)
Example C07_Poly0_knot_hypotheses_hold : safe (map of_bits [4607632778762754458; 4610334938539176755; 13839786834890902733]%Z) e_knot0.
Proof. apply safe1_sound; vm_compute; reflexivity. Qed.
Example C07_Poly1_knot_hypotheses_hold : safe (map of_bits [4607632778762754458; 13835733595226269286; 4610334938539176755; 13839786834890902733]%Z) e_knot1.
Proof. apply safe1_sound; vm_compute; reflexivity. Qed.
Example C07_Poly2_knot_hypotheses_hold : safe (map of_bits [4607632778762754458; 13835733595226269286; 4604480259023595110; 4610334938539176755; 13839786834890902733]%Z) e_knot2.
Proof. apply safe1_sound; vm_compute; reflexivity. Qed.
Example C07_Poly3_knot_hypotheses_hold : safe (map of_bits [4607632778762754458; 13835733595226269286; 4604480259023595110; 4615964438073389875; 4610334938539176755; 13839786834890902733]%Z) e_knot3.
Proof. apply safe1_sound; vm_compute; reflexivity. Qed.
Example C07_Poly4_knot_hypotheses_hold : safe (map of_bits [4607632778762754458; 13835733595226269286; 4604480259023595110; 4615964438073389875; 13825150136101948621; 4610334938539176755; 13839786834890902733]%Z) e_knot4.
Proof. apply safe1_sound; vm_compute; reflexivity. Qed.
Example C07_Poly5_knot_hypotheses_hold : safe (map of_bits [4607632778762754458; 13835733595226269286; 4604480259023595110; 4615964438073389875; 13825150136101948621; 4563407430421976187; 4610334938539176755; 13839786834890902733]%Z) e_knot5.
Proof. apply safe1_sound; vm_compute; reflexivity. Qed.
Example C07_Poly6_knot_hypotheses_hold : safe (map of_bits [4607632778762754458; 13835733595226269286; 4604480259023595110; 4615964438073389875; 13825150136101948621; 4563407430421976187; 4635168068359474381; 4610334938539176755; 13839786834890902733]%Z) e_knot6.
Proof. apply safe1_sound; vm_compute; reflexivity. Qed.
Example C07_Poly7_knot_hypotheses_hold : safe (map of_bits [4607632778762754458; 13835733595226269286; 4604480259023595110; 4615964438073389875; 13825150136101948621; 4563407430421976187; 4635168068359474381; 13841250504769798144; 4610334938539176755; 13839786834890902733]%Z) e_knot7.
Proof. apply safe1_sound; vm_compute; reflexivity. Qed.

(* ... and of the one-ulp round trip: c = 1.1, divisor 3.0 *)
Example C07_roundtrip_hypotheses_hold :
  let c := of_bits 4607632778762754458 in let n := of_bits 4613937818241073152 in
  is_finite c = true /\ is_finite_strict n = true /\ nounder (B2R c / B2R n) /\ noover (B2R c / B2R n) /\
  noover (B2R (fdiv c n) * B2R n).
Proof.
  cbv zeta. split; [reflexivity|]. split; [reflexivity|].
  assert (S : safe (map of_bits [4607632778762754458]%Z) (Mul (Div (Var 0) (Lit 4613937818241073152)) (Lit 4613937818241073152))) by (apply safe1_sound; vm_compute; reflexivity).
  unfold safe in S. cbn [safe_gen] in S. destruct S as ((_ & _ & _ & Hu & Ho) & _ & _ & Ho2).
  unfold fev in *. cbn [eval map nth FOps0 FOps FOpsG o_div o_lit o_default] in *. unfold litR in *. tauto.
Qed.

Example C07_example :
  run_kernel [] [] k_Poly2__integral [4607182418800017408; 4611686018427387904; 4613937818241073152; 4607182418800017408; 4621819117588971520]%Z
  = [4619567317775286272; 4607182418800017408; 4607182418800017408; 4607182418800017408]%Z.
Proof. vm_compute. reflexivity. Qed.
