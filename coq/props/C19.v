(* C19 - Arbitrary-generated piecewise functions are always well-formed. *)
From Coq Require Import List ZArith Bool Permutation.
Require Import PP.FloatModel PP.FloatOrder PP.Model.PwModel PP.Model.Extra PP.Proofs.C02Proofs PP.Proofs.C03Proofs
  PP.Proofs.EvalVProofs PP.Proofs.C12Proofs PP.Proofs.ArbitraryProofs.
Import ListNotations.

(* Extra.arb_piecewise n bs models `Piecewise::<T>::arbitrary(&mut Unstructured::new(bs))` for a piece type with n numbers
   (byte-level decoder of arbitrary 1.4.2 + the repo's filtering, sorting and piece drawing);
   ArbErr = Err(IncorrectFormat), ArbPanic = a panic. *)

(* for EVERY byte string: an error, or at least one segment, all breakpoints normal, non-decreasing, and the breakpoints
   are exactly the decoded ones (a permutation); never a panic *)
Theorem C19_wellformed : forall (n : nat) (bs : list Z),
  match arb_piecewise n bs with
  | ArbErr => True
  | ArbPanic => False
  | ArbOk segs => segs <> [] /\ Forall (fun s => is_normalb (fst s) = true) segs /\ sorted_ends segs /\
                  Permutation (map of_bits (fst (get_vec_f64 bs))) (map fst segs)
  end.
Proof. exact arb_wellformed. Qed.

(* every returned value can be evaluated directly, through the stateful evaluator and through evaluate_v:
   no panic, and all three select the same segment *)
Theorem C19_evaluable : forall (n : nat) (bs : list Z) (segs : list (seg F (list Z))) (ev : seg F (list Z) -> F -> F) (xs : list F),
  arb_piecewise n bs = ArbOk segs ->
  (forall x, pw_eval flt ev segs x <> None) /\
  (exists l, evaluator_answers flt fle is_nanb ev segs xs = Some l /\ map Some l = map (pw_eval flt ev segs) xs) /\
  (Forall ok xs -> nondecr flt xs ->
   exists l, ev_v_answers flt (fun p x => ev (fnan, p) x) segs xs = Some l /\
             map Some l = map (pw_eval flt (fun s x => ev (fnan, spoly s) x) segs) xs).
Proof.
  intros n bs segs ev xs H. assert (W := arb_wellformed n bs). rewrite H in W. destruct W as (Hne & Hn & Hs & _).
  assert (Hok : Forall (fun t : seg F (list Z) => ok (send t)) segs).
  { eapply Forall_impl; [|exact Hn]. intros a Ha. now apply normal_ok. }
  split; [intros x; now apply C02_total_proof|]. split.
  - now apply evaluator_all.
  - intros Hx Hnd. now apply ev_v_sorted_F.
Qed.

(* The same for EVERY piece type: `piece` is T::arbitrary (it may fail; PolyK's never does, a nested Piecewise<..> does).
   A failing piece fails the whole function - it is never answered with a shorter or empty function; only a panicking
   piece decoder can make it panic. *)
Theorem C19_wellformed_any_piece : forall (P : Type) (piece : decoder P) (bs : list Z),
  match arb_piecewise_g piece bs with
  | ArbErr => True
  | ArbPanic => exists bs', piece bs' = ArbPanic
  | ArbOk (segs, _) => segs <> [] /\ Forall (fun s => is_normalb (fst s) = true) segs /\ sorted_ends segs /\
                  Permutation (map of_bits (fst (get_vec_f64 bs))) (map fst segs) /\
                  Forall (fun s => exists b b', piece b = ArbOk (snd s, b')) segs
  end.
Proof. exact @arb_wellformed_g. Qed.

(* Piecewise<Piecewise<PolyK>>: never a panic; a returned value is well-formed at both levels *)
Theorem C19_nested : forall (n : nat) (bs : list Z),
  match arb_nested n bs with
  | ArbErr => True
  | ArbPanic => False
  | ArbOk segs => wellformed segs /\ Forall (fun s => wellformed (snd s)) segs
  end.
Proof. exact arb_nested_wellformed. Qed.

Theorem C19_evaluable_any_piece : forall (P : Type) (piece : decoder P) (bs rest : list Z) (segs : list (seg F P))
    (ev : seg F P -> F -> F) (nanP : F) (xs : list F),
  arb_piecewise_g piece bs = ArbOk (segs, rest) ->
  (forall x, pw_eval flt ev segs x <> None) /\
  (exists l, evaluator_answers flt fle is_nanb ev segs xs = Some l /\ map Some l = map (pw_eval flt ev segs) xs) /\
  (Forall ok xs -> nondecr flt xs ->
   exists l, ev_v_answers flt (fun p x => ev (nanP, p) x) segs xs = Some l /\
             map Some l = map (pw_eval flt (fun s x => ev (nanP, spoly s) x) segs) xs).
Proof.
  intros P piece bs rest segs ev nanP xs H. assert (W := arb_wellformed_g piece bs). rewrite H in W.
  destruct W as (Hne & Hn & Hs & _).
  assert (Hok : Forall (fun t : seg F P => ok (send t)) segs).
  { eapply Forall_impl; [|exact Hn]. intros a Ha. now apply normal_ok. }
  split; [intros x; now apply C02_total_proof|]. split.
  - now apply evaluator_all.
  - intros Hx Hnd. now apply ev_v_sorted_F.
Qed.

(* a nested function whose first inner end list is empty: the whole function is an error, not a function without segments *)
Example C19_nested_inner_failure :
  run_arbitrary_nested 1 [1; 0;0;0;0;0;0;240;63; 0; 0]%Z = [0]%Z.
Proof. vm_compute. reflexivity. Qed.

Example C19_example :
  run_arbitrary 1 [1; 0;0;0;0;0;0;0;64; 1; 0;0;0;0;0;0;240;63; 0; 0;0;0;0;0;0;8;64]%Z
  = [1; 2; 4607182418800017408; 4613937818241073152; 4611686018427387904; 0]%Z.
Proof. vm_compute. reflexivity. Qed.
