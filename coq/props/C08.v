(* C08 - differentiation yields the exact formal derivative, piece by piece. *)
From Coq Require Import List ZArith Reals Lra Lia.
From Flocq Require Import Core BinarySingleNaN.
Require Import PP.FloatModel PP.Expr PP.FloatOps PP.FloatFacts PP.RealOps PP.Shapes PP.PolyFacts PP.Model.PwModel PP.Proofs.UlpProofs PP.Gen.Kernels.
Import ListNotations.
Local Open Scope R_scope.

(* lanes: derivative of [c0..cK] is [c1; 2*c2; ...; K*cK], each product ONE binary64 multiplication by the
   literal factor (so it is the correctly rounded product); degree 0 gives the constant 0;
   for a Segment the breakpoint lane is the input itself. *)
Definition C08_table : list (list expr * list lane) := [
  (k_Poly0__derivative, [LLit 0]);
  (k_Segment_Poly0__derivative, spec_segment [LLit 0]);
  (k_Poly1__derivative, [LVar 1]);
  (k_Segment_Poly1__derivative, spec_segment [LVar 1]);
  (k_Poly2__derivative, [LVar 1; LMulLit 2 4611686018427387904]);
  (k_Segment_Poly2__derivative, spec_segment [LVar 1; LMulLit 2 4611686018427387904]);
  (k_Poly3__derivative, [LVar 1; LMulLit 2 4611686018427387904; LMulLit 3 4613937818241073152]);
  (k_Segment_Poly3__derivative, spec_segment [LVar 1; LMulLit 2 4611686018427387904; LMulLit 3 4613937818241073152]);
  (k_Poly4__derivative, [LVar 1; LMulLit 2 4611686018427387904; LMulLit 3 4613937818241073152; LMulLit 4 4616189618054758400]);
  (k_Segment_Poly4__derivative, spec_segment [LVar 1; LMulLit 2 4611686018427387904; LMulLit 3 4613937818241073152; LMulLit 4 4616189618054758400]);
  (k_Poly5__derivative, [LVar 1; LMulLit 2 4611686018427387904; LMulLit 3 4613937818241073152; LMulLit 4 4616189618054758400; LMulLit 5 4617315517961601024]);
  (k_Segment_Poly5__derivative, spec_segment [LVar 1; LMulLit 2 4611686018427387904; LMulLit 3 4613937818241073152; LMulLit 4 4616189618054758400; LMulLit 5 4617315517961601024]);
  (k_Poly6__derivative, [LVar 1; LMulLit 2 4611686018427387904; LMulLit 3 4613937818241073152; LMulLit 4 4616189618054758400; LMulLit 5 4617315517961601024; LMulLit 6 4618441417868443648]);
  (k_Segment_Poly6__derivative, spec_segment [LVar 1; LMulLit 2 4611686018427387904; LMulLit 3 4613937818241073152; LMulLit 4 4616189618054758400; LMulLit 5 4617315517961601024; LMulLit 6 4618441417868443648]);
  (k_Poly7__derivative, [LVar 1; LMulLit 2 4611686018427387904; LMulLit 3 4613937818241073152; LMulLit 4 4616189618054758400; LMulLit 5 4617315517961601024; LMulLit 6 4618441417868443648; LMulLit 7 4619567317775286272]);
  (k_Segment_Poly7__derivative, spec_segment [LVar 1; LMulLit 2 4611686018427387904; LMulLit 3 4613937818241073152; LMulLit 4 4616189618054758400; LMulLit 5 4617315517961601024; LMulLit 6 4618441417868443648; LMulLit 7 4619567317775286272]);
  (k_Poly8__derivative, [LVar 1; LMulLit 2 4611686018427387904; LMulLit 3 4613937818241073152; LMulLit 4 4616189618054758400; LMulLit 5 4617315517961601024; LMulLit 6 4618441417868443648; LMulLit 7 4619567317775286272; LMulLit 8 4620693217682128896]);
  (k_Segment_Poly8__derivative, spec_segment [LVar 1; LMulLit 2 4611686018427387904; LMulLit 3 4613937818241073152; LMulLit 4 4616189618054758400; LMulLit 5 4617315517961601024; LMulLit 6 4618441417868443648; LMulLit 7 4619567317775286272; LMulLit 8 4620693217682128896])
].
Theorem C08_shapes :
  List.Forall (fun p => forall env, evals FOps0 env (fst p) = map (lane_sem env) (snd p)) C08_table.
Proof. apply table_ok_sem. vm_compute. reflexivity. Qed.

(* one binary64 multiplication is the correctly rounded product (at most half an ulp off) when it does not overflow *)
Theorem C08_lane_rounded : forall (c : F) (b : Z), is_finite c = true -> is_finite (of_bits b) = true ->
  noover (B2R c * B2R (of_bits b)) ->
  B2R (fmul c (of_bits b)) = rnd (B2R c * B2R (of_bits b)) /\ is_finite (fmul c (of_bits b)) = true.
Proof. intros. now apply mul_correct. Qed.

(* the power-of-two factors 2, 4, 8 are EXACT: no rounding at all, for every finite coefficient whose product does not overflow
   (subnormal coefficients included) *)
Theorem C08_pow2_exact : forall (c : F) (b e : Z),
  (b, e) = (4611686018427387904, 1)%Z \/ (b, e) = (4616189618054758400, 2)%Z \/ (b, e) = (4620693217682128896, 3)%Z ->
  is_finite c = true -> Rabs (B2R c * bpow radix2 e) < bpow radix2 1024 ->
  B2R (fmul (of_bits b) c) = B2R c * bpow radix2 e /\ is_finite (fmul (of_bits b) c) = true.
Proof. intros c b e H. rewrite (fmul_comm (of_bits b)). now apply fmul_pow2_lits. Qed.

Ltac list_ring := repeat match goal with
  | |- _ :: _ = _ :: _ => apply f_equal2; [try (simpl; ring)|]
  | |- [] = [] => reflexivity end.

Theorem C08_Poly0_value : forall c0 : R, evals ROps [c0] k_Poly0__derivative = [0].
Proof. intros. unfold k_Poly0__derivative. reval. norm_lits. cbn [deriv_coeffs deriv_from]. list_ring. Qed.
Theorem C08_Poly1_value : forall c0 c1 : R, evals ROps [c0; c1] k_Poly1__derivative = deriv_coeffs [c0; c1].
Proof. intros. unfold k_Poly1__derivative. reval. norm_lits. cbn [deriv_coeffs deriv_from]. list_ring. Qed.
Theorem C08_Poly2_value : forall c0 c1 c2 : R, evals ROps [c0; c1; c2] k_Poly2__derivative = deriv_coeffs [c0; c1; c2].
Proof. intros. unfold k_Poly2__derivative. reval. norm_lits. cbn [deriv_coeffs deriv_from]. list_ring. Qed.
Theorem C08_Poly3_value : forall c0 c1 c2 c3 : R, evals ROps [c0; c1; c2; c3] k_Poly3__derivative = deriv_coeffs [c0; c1; c2; c3].
Proof. intros. unfold k_Poly3__derivative. reval. norm_lits. cbn [deriv_coeffs deriv_from]. list_ring. Qed.
Theorem C08_Poly4_value : forall c0 c1 c2 c3 c4 : R, evals ROps [c0; c1; c2; c3; c4] k_Poly4__derivative = deriv_coeffs [c0; c1; c2; c3; c4].
Proof. intros. unfold k_Poly4__derivative. reval. norm_lits. cbn [deriv_coeffs deriv_from]. list_ring. Qed.
Theorem C08_Poly5_value : forall c0 c1 c2 c3 c4 c5 : R, evals ROps [c0; c1; c2; c3; c4; c5] k_Poly5__derivative = deriv_coeffs [c0; c1; c2; c3; c4; c5].
Proof. intros. unfold k_Poly5__derivative. reval. norm_lits. cbn [deriv_coeffs deriv_from]. list_ring. Qed.
Theorem C08_Poly6_value : forall c0 c1 c2 c3 c4 c5 c6 : R, evals ROps [c0; c1; c2; c3; c4; c5; c6] k_Poly6__derivative = deriv_coeffs [c0; c1; c2; c3; c4; c5; c6].
Proof. intros. unfold k_Poly6__derivative. reval. norm_lits. cbn [deriv_coeffs deriv_from]. list_ring. Qed.
Theorem C08_Poly7_value : forall c0 c1 c2 c3 c4 c5 c6 c7 : R, evals ROps [c0; c1; c2; c3; c4; c5; c6; c7] k_Poly7__derivative = deriv_coeffs [c0; c1; c2; c3; c4; c5; c6; c7].
Proof. intros. unfold k_Poly7__derivative. reval. norm_lits. cbn [deriv_coeffs deriv_from]. list_ring. Qed.
Theorem C08_Poly8_value : forall c0 c1 c2 c3 c4 c5 c6 c7 c8 : R, evals ROps [c0; c1; c2; c3; c4; c5; c6; c7; c8] k_Poly8__derivative = deriv_coeffs [c0; c1; c2; c3; c4; c5; c6; c7; c8].
Proof. intros. unfold k_Poly8__derivative. reval. norm_lits. cbn [deriv_coeffs deriv_from]. list_ring. Qed.

(* hence the returned polynomial is p' at every x *)
Theorem C08_is_derivative : forall (cs : list R) (x : R), derivable_pt_lim (polyval cs) x (polyval (deriv_coeffs cs) x).
Proof. intros. rewrite <- dpoly_deriv_coeffs. apply derivable_polyval. Qed.

(* differentiating a piecewise function is `map` over its segments (model: Run.run_pw_map with the
   Segment<T>::derivative kernel, tied by correspondence): number of pieces and order are preserved *)
Theorem C08_map_length : forall (A B : Type) (f : A -> B) (l : list A), length (map f l) = length l.
Proof. intros. apply map_length. Qed.
Theorem C08_map_nth : forall (A B : Type) (f : A -> B) (l : list A) (i : nat), nth_error (map f l) i = option_map f (nth_error l i).
Proof. intros. apply nth_error_map. Qed.

Example C08_example :
  run_kernel [] [] k_Poly3__derivative [4607182418800017408; 4611686018427387904; 4613937818241073152; 4616189618054758400]%Z
  = [4611686018427387904; 4618441417868443648; 4622945017495814144]%Z.
Proof. vm_compute. reflexivity. Qed.
