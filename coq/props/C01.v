(* C01 - polynomial and log-polynomial evaluation equals the mathematical value.
   e_PolyK is the expression tree regenerated from `impl Evaluate for PolyK` (whatever scheme it uses). *)
From Coq Require Import List ZArith Reals Lra Lia.
From Flocq Require Import Core BinarySingleNaN.
Require Import PP.FloatModel PP.Expr PP.FloatOps PP.FloatFacts PP.RealOps PP.ErrorBound PP.SafeDec PP.PolyFacts PP.Model.PwModel
  PP.Proofs.KernelBounds PP.Proofs.PolyNProofs PP.Gen.Kernels.
Import ListNotations.
Local Open Scope R_scope.

(* fev env e  = the binary64 value of the term on inputs env;  polyval cs x = sum_i c_i x^i over the reals;
   polyabs cs x = sum_i |c_i| |x|^i;  u = 2^-53;
   safe env e       = no intermediate result underflows or overflows (standard model applies);
   exact_safe env e = every intermediate exact result is representable. *)

Definition e_Poly0 : expr := hd (Lit 0) k_Poly0__evaluate.
Theorem C01_Poly0_value : forall c0 x : R, eval ROps [c0; x] e_Poly0 = polyval [c0] x.
Proof. intros. unfold e_Poly0, k_Poly0__evaluate. cbn [hd]. reval. cbn [polyval]. ring. Qed.
Lemma C01_Poly0_abs : forall c0 x : R, absval [c0; x] e_Poly0 = polyabs [c0] x.
Proof. intros. unfold e_Poly0, k_Poly0__evaluate, polyabs. cbn [hd absval nth map polyval]. ring. Qed.
Theorem C01_Poly0_exact : forall c0 x : F, exact_safe [c0; x] e_Poly0 ->
  B2R (fev [c0; x] e_Poly0) = polyval [B2R c0] (B2R x).
Proof. intros. apply kernel_exact; [vm_compute; reflexivity|assumption|unfold rval; cbn [map]; apply C01_Poly0_value]. Qed.
Theorem C01_Poly0_bound : forall c0 x : F, safe [c0; x] e_Poly0 ->
  Rabs (B2R (fev [c0; x] e_Poly0) - polyval [B2R c0] (B2R x)) <= 4 * INR 2 * u * polyabs [B2R c0] (B2R x).
Proof.
  intros. apply kernel_bound; [vm_compute; reflexivity|assumption|vm_compute; lia|lia|unfold rval; cbn [map]; apply C01_Poly0_value|cbn [map]; apply C01_Poly0_abs].
Qed.

Definition e_Poly1 : expr := hd (Lit 0) k_Poly1__evaluate.
Theorem C01_Poly1_value : forall c0 c1 x : R, eval ROps [c0; c1; x] e_Poly1 = polyval [c0; c1] x.
Proof. intros. unfold e_Poly1, k_Poly1__evaluate. cbn [hd]. reval. cbn [polyval]. ring. Qed.
Lemma C01_Poly1_abs : forall c0 c1 x : R, absval [c0; c1; x] e_Poly1 = polyabs [c0; c1] x.
Proof. intros. unfold e_Poly1, k_Poly1__evaluate, polyabs. cbn [hd absval nth map polyval]. ring. Qed.
Theorem C01_Poly1_exact : forall c0 c1 x : F, exact_safe [c0; c1; x] e_Poly1 ->
  B2R (fev [c0; c1; x] e_Poly1) = polyval [B2R c0; B2R c1] (B2R x).
Proof. intros. apply kernel_exact; [vm_compute; reflexivity|assumption|unfold rval; cbn [map]; apply C01_Poly1_value]. Qed.
Theorem C01_Poly1_bound : forall c0 c1 x : F, safe [c0; c1; x] e_Poly1 ->
  Rabs (B2R (fev [c0; c1; x] e_Poly1) - polyval [B2R c0; B2R c1] (B2R x)) <= 4 * INR 3 * u * polyabs [B2R c0; B2R c1] (B2R x).
Proof.
  intros. apply kernel_bound; [vm_compute; reflexivity|assumption|vm_compute; lia|lia|unfold rval; cbn [map]; apply C01_Poly1_value|cbn [map]; apply C01_Poly1_abs].
Qed.

Definition e_Poly2 : expr := hd (Lit 0) k_Poly2__evaluate.
Theorem C01_Poly2_value : forall c0 c1 c2 x : R, eval ROps [c0; c1; c2; x] e_Poly2 = polyval [c0; c1; c2] x.
Proof. intros. unfold e_Poly2, k_Poly2__evaluate. cbn [hd]. reval. cbn [polyval]. ring. Qed.
Lemma C01_Poly2_abs : forall c0 c1 c2 x : R, absval [c0; c1; c2; x] e_Poly2 = polyabs [c0; c1; c2] x.
Proof. intros. unfold e_Poly2, k_Poly2__evaluate, polyabs. cbn [hd absval nth map polyval]. ring. Qed.
Theorem C01_Poly2_exact : forall c0 c1 c2 x : F, exact_safe [c0; c1; c2; x] e_Poly2 ->
  B2R (fev [c0; c1; c2; x] e_Poly2) = polyval [B2R c0; B2R c1; B2R c2] (B2R x).
Proof. intros. apply kernel_exact; [vm_compute; reflexivity|assumption|unfold rval; cbn [map]; apply C01_Poly2_value]. Qed.
Theorem C01_Poly2_bound : forall c0 c1 c2 x : F, safe [c0; c1; c2; x] e_Poly2 ->
  Rabs (B2R (fev [c0; c1; c2; x] e_Poly2) - polyval [B2R c0; B2R c1; B2R c2] (B2R x)) <= 4 * INR 4 * u * polyabs [B2R c0; B2R c1; B2R c2] (B2R x).
Proof.
  intros. apply kernel_bound; [vm_compute; reflexivity|assumption|vm_compute; lia|lia|unfold rval; cbn [map]; apply C01_Poly2_value|cbn [map]; apply C01_Poly2_abs].
Qed.

Definition e_Poly3 : expr := hd (Lit 0) k_Poly3__evaluate.
Theorem C01_Poly3_value : forall c0 c1 c2 c3 x : R, eval ROps [c0; c1; c2; c3; x] e_Poly3 = polyval [c0; c1; c2; c3] x.
Proof. intros. unfold e_Poly3, k_Poly3__evaluate. cbn [hd]. reval. cbn [polyval]. ring. Qed.
Lemma C01_Poly3_abs : forall c0 c1 c2 c3 x : R, absval [c0; c1; c2; c3; x] e_Poly3 = polyabs [c0; c1; c2; c3] x.
Proof. intros. unfold e_Poly3, k_Poly3__evaluate, polyabs. cbn [hd absval nth map polyval]. ring. Qed.
Theorem C01_Poly3_exact : forall c0 c1 c2 c3 x : F, exact_safe [c0; c1; c2; c3; x] e_Poly3 ->
  B2R (fev [c0; c1; c2; c3; x] e_Poly3) = polyval [B2R c0; B2R c1; B2R c2; B2R c3] (B2R x).
Proof. intros. apply kernel_exact; [vm_compute; reflexivity|assumption|unfold rval; cbn [map]; apply C01_Poly3_value]. Qed.
Theorem C01_Poly3_bound : forall c0 c1 c2 c3 x : F, safe [c0; c1; c2; c3; x] e_Poly3 ->
  Rabs (B2R (fev [c0; c1; c2; c3; x] e_Poly3) - polyval [B2R c0; B2R c1; B2R c2; B2R c3] (B2R x)) <= 4 * INR 5 * u * polyabs [B2R c0; B2R c1; B2R c2; B2R c3] (B2R x).
Proof.
  intros. apply kernel_bound; [vm_compute; reflexivity|assumption|vm_compute; lia|lia|unfold rval; cbn [map]; apply C01_Poly3_value|cbn [map]; apply C01_Poly3_abs].
Qed.

Definition e_Poly4 : expr := hd (Lit 0) k_Poly4__evaluate.
Theorem C01_Poly4_value : forall c0 c1 c2 c3 c4 x : R, eval ROps [c0; c1; c2; c3; c4; x] e_Poly4 = polyval [c0; c1; c2; c3; c4] x.
Proof. intros. unfold e_Poly4, k_Poly4__evaluate. cbn [hd]. reval. cbn [polyval]. ring. Qed.
Lemma C01_Poly4_abs : forall c0 c1 c2 c3 c4 x : R, absval [c0; c1; c2; c3; c4; x] e_Poly4 = polyabs [c0; c1; c2; c3; c4] x.
Proof. intros. unfold e_Poly4, k_Poly4__evaluate, polyabs. cbn [hd absval nth map polyval]. ring. Qed.
Theorem C01_Poly4_exact : forall c0 c1 c2 c3 c4 x : F, exact_safe [c0; c1; c2; c3; c4; x] e_Poly4 ->
  B2R (fev [c0; c1; c2; c3; c4; x] e_Poly4) = polyval [B2R c0; B2R c1; B2R c2; B2R c3; B2R c4] (B2R x).
Proof. intros. apply kernel_exact; [vm_compute; reflexivity|assumption|unfold rval; cbn [map]; apply C01_Poly4_value]. Qed.
Theorem C01_Poly4_bound : forall c0 c1 c2 c3 c4 x : F, safe [c0; c1; c2; c3; c4; x] e_Poly4 ->
  Rabs (B2R (fev [c0; c1; c2; c3; c4; x] e_Poly4) - polyval [B2R c0; B2R c1; B2R c2; B2R c3; B2R c4] (B2R x)) <= 4 * INR 6 * u * polyabs [B2R c0; B2R c1; B2R c2; B2R c3; B2R c4] (B2R x).
Proof.
  intros. apply kernel_bound; [vm_compute; reflexivity|assumption|vm_compute; lia|lia|unfold rval; cbn [map]; apply C01_Poly4_value|cbn [map]; apply C01_Poly4_abs].
Qed.

Definition e_Poly5 : expr := hd (Lit 0) k_Poly5__evaluate.
Theorem C01_Poly5_value : forall c0 c1 c2 c3 c4 c5 x : R, eval ROps [c0; c1; c2; c3; c4; c5; x] e_Poly5 = polyval [c0; c1; c2; c3; c4; c5] x.
Proof. intros. unfold e_Poly5, k_Poly5__evaluate. cbn [hd]. reval. cbn [polyval]. ring. Qed.
Lemma C01_Poly5_abs : forall c0 c1 c2 c3 c4 c5 x : R, absval [c0; c1; c2; c3; c4; c5; x] e_Poly5 = polyabs [c0; c1; c2; c3; c4; c5] x.
Proof. intros. unfold e_Poly5, k_Poly5__evaluate, polyabs. cbn [hd absval nth map polyval]. ring. Qed.
Theorem C01_Poly5_exact : forall c0 c1 c2 c3 c4 c5 x : F, exact_safe [c0; c1; c2; c3; c4; c5; x] e_Poly5 ->
  B2R (fev [c0; c1; c2; c3; c4; c5; x] e_Poly5) = polyval [B2R c0; B2R c1; B2R c2; B2R c3; B2R c4; B2R c5] (B2R x).
Proof. intros. apply kernel_exact; [vm_compute; reflexivity|assumption|unfold rval; cbn [map]; apply C01_Poly5_value]. Qed.
Theorem C01_Poly5_bound : forall c0 c1 c2 c3 c4 c5 x : F, safe [c0; c1; c2; c3; c4; c5; x] e_Poly5 ->
  Rabs (B2R (fev [c0; c1; c2; c3; c4; c5; x] e_Poly5) - polyval [B2R c0; B2R c1; B2R c2; B2R c3; B2R c4; B2R c5] (B2R x)) <= 4 * INR 7 * u * polyabs [B2R c0; B2R c1; B2R c2; B2R c3; B2R c4; B2R c5] (B2R x).
Proof.
  intros. apply kernel_bound; [vm_compute; reflexivity|assumption|vm_compute; lia|lia|unfold rval; cbn [map]; apply C01_Poly5_value|cbn [map]; apply C01_Poly5_abs].
Qed.

Definition e_Poly6 : expr := hd (Lit 0) k_Poly6__evaluate.
Theorem C01_Poly6_value : forall c0 c1 c2 c3 c4 c5 c6 x : R, eval ROps [c0; c1; c2; c3; c4; c5; c6; x] e_Poly6 = polyval [c0; c1; c2; c3; c4; c5; c6] x.
Proof. intros. unfold e_Poly6, k_Poly6__evaluate. cbn [hd]. reval. cbn [polyval]. ring. Qed.
Lemma C01_Poly6_abs : forall c0 c1 c2 c3 c4 c5 c6 x : R, absval [c0; c1; c2; c3; c4; c5; c6; x] e_Poly6 = polyabs [c0; c1; c2; c3; c4; c5; c6] x.
Proof. intros. unfold e_Poly6, k_Poly6__evaluate, polyabs. cbn [hd absval nth map polyval]. ring. Qed.
Theorem C01_Poly6_exact : forall c0 c1 c2 c3 c4 c5 c6 x : F, exact_safe [c0; c1; c2; c3; c4; c5; c6; x] e_Poly6 ->
  B2R (fev [c0; c1; c2; c3; c4; c5; c6; x] e_Poly6) = polyval [B2R c0; B2R c1; B2R c2; B2R c3; B2R c4; B2R c5; B2R c6] (B2R x).
Proof. intros. apply kernel_exact; [vm_compute; reflexivity|assumption|unfold rval; cbn [map]; apply C01_Poly6_value]. Qed.
Theorem C01_Poly6_bound : forall c0 c1 c2 c3 c4 c5 c6 x : F, safe [c0; c1; c2; c3; c4; c5; c6; x] e_Poly6 ->
  Rabs (B2R (fev [c0; c1; c2; c3; c4; c5; c6; x] e_Poly6) - polyval [B2R c0; B2R c1; B2R c2; B2R c3; B2R c4; B2R c5; B2R c6] (B2R x)) <= 4 * INR 8 * u * polyabs [B2R c0; B2R c1; B2R c2; B2R c3; B2R c4; B2R c5; B2R c6] (B2R x).
Proof.
  intros. apply kernel_bound; [vm_compute; reflexivity|assumption|vm_compute; lia|lia|unfold rval; cbn [map]; apply C01_Poly6_value|cbn [map]; apply C01_Poly6_abs].
Qed.

Definition e_Poly7 : expr := hd (Lit 0) k_Poly7__evaluate.
Theorem C01_Poly7_value : forall c0 c1 c2 c3 c4 c5 c6 c7 x : R, eval ROps [c0; c1; c2; c3; c4; c5; c6; c7; x] e_Poly7 = polyval [c0; c1; c2; c3; c4; c5; c6; c7] x.
Proof. intros. unfold e_Poly7, k_Poly7__evaluate. cbn [hd]. reval. cbn [polyval]. ring. Qed.
Lemma C01_Poly7_abs : forall c0 c1 c2 c3 c4 c5 c6 c7 x : R, absval [c0; c1; c2; c3; c4; c5; c6; c7; x] e_Poly7 = polyabs [c0; c1; c2; c3; c4; c5; c6; c7] x.
Proof. intros. unfold e_Poly7, k_Poly7__evaluate, polyabs. cbn [hd absval nth map polyval]. ring. Qed.
Theorem C01_Poly7_exact : forall c0 c1 c2 c3 c4 c5 c6 c7 x : F, exact_safe [c0; c1; c2; c3; c4; c5; c6; c7; x] e_Poly7 ->
  B2R (fev [c0; c1; c2; c3; c4; c5; c6; c7; x] e_Poly7) = polyval [B2R c0; B2R c1; B2R c2; B2R c3; B2R c4; B2R c5; B2R c6; B2R c7] (B2R x).
Proof. intros. apply kernel_exact; [vm_compute; reflexivity|assumption|unfold rval; cbn [map]; apply C01_Poly7_value]. Qed.
Theorem C01_Poly7_bound : forall c0 c1 c2 c3 c4 c5 c6 c7 x : F, safe [c0; c1; c2; c3; c4; c5; c6; c7; x] e_Poly7 ->
  Rabs (B2R (fev [c0; c1; c2; c3; c4; c5; c6; c7; x] e_Poly7) - polyval [B2R c0; B2R c1; B2R c2; B2R c3; B2R c4; B2R c5; B2R c6; B2R c7] (B2R x)) <= 4 * INR 9 * u * polyabs [B2R c0; B2R c1; B2R c2; B2R c3; B2R c4; B2R c5; B2R c6; B2R c7] (B2R x).
Proof.
  intros. apply kernel_bound; [vm_compute; reflexivity|assumption|vm_compute; lia|lia|unfold rval; cbn [map]; apply C01_Poly7_value|cbn [map]; apply C01_Poly7_abs].
Qed.

Definition e_Poly8 : expr := hd (Lit 0) k_Poly8__evaluate.
Theorem C01_Poly8_value : forall c0 c1 c2 c3 c4 c5 c6 c7 c8 x : R, eval ROps [c0; c1; c2; c3; c4; c5; c6; c7; c8; x] e_Poly8 = polyval [c0; c1; c2; c3; c4; c5; c6; c7; c8] x.
Proof. intros. unfold e_Poly8, k_Poly8__evaluate. cbn [hd]. reval. cbn [polyval]. ring. Qed.
Lemma C01_Poly8_abs : forall c0 c1 c2 c3 c4 c5 c6 c7 c8 x : R, absval [c0; c1; c2; c3; c4; c5; c6; c7; c8; x] e_Poly8 = polyabs [c0; c1; c2; c3; c4; c5; c6; c7; c8] x.
Proof. intros. unfold e_Poly8, k_Poly8__evaluate, polyabs. cbn [hd absval nth map polyval]. ring. Qed.
Theorem C01_Poly8_exact : forall c0 c1 c2 c3 c4 c5 c6 c7 c8 x : F, exact_safe [c0; c1; c2; c3; c4; c5; c6; c7; c8; x] e_Poly8 ->
  B2R (fev [c0; c1; c2; c3; c4; c5; c6; c7; c8; x] e_Poly8) = polyval [B2R c0; B2R c1; B2R c2; B2R c3; B2R c4; B2R c5; B2R c6; B2R c7; B2R c8] (B2R x).
Proof. intros. apply kernel_exact; [vm_compute; reflexivity|assumption|unfold rval; cbn [map]; apply C01_Poly8_value]. Qed.
Theorem C01_Poly8_bound : forall c0 c1 c2 c3 c4 c5 c6 c7 c8 x : F, safe [c0; c1; c2; c3; c4; c5; c6; c7; c8; x] e_Poly8 ->
  Rabs (B2R (fev [c0; c1; c2; c3; c4; c5; c6; c7; c8; x] e_Poly8) - polyval [B2R c0; B2R c1; B2R c2; B2R c3; B2R c4; B2R c5; B2R c6; B2R c7; B2R c8] (B2R x)) <= 4 * INR 10 * u * polyabs [B2R c0; B2R c1; B2R c2; B2R c3; B2R c4; B2R c5; B2R c6; B2R c7; B2R c8] (B2R x).
Proof.
  intros. apply kernel_bound; [vm_compute; reflexivity|assumption|vm_compute; lia|lia|unfold rval; cbn [map]; apply C01_Poly8_value|cbn [map]; apply C01_Poly8_abs].
Qed.

(* ---- the dynamic-degree polynomial: any length (up to 2^40), empty = 0 ---- *)
Theorem C01_PolyN_empty : forall x : F, polyn_eval fzero ffma [] x = fzero.
Proof. reflexivity. Qed.
Theorem C01_PolyN_exact : forall (c : F) (r : list F) (x : F),
  safe_h (fun v => generic_format radix2 fexp64 v /\ Rabs v < bpow radix2 emax) c r x ->
  B2R (polyn_eval fzero ffma (c :: r) x) = polyval (map B2R (c :: r)) (B2R x).
Proof. intros. rewrite polyn_eval_horner. now apply horner_exact. Qed.
Theorem C01_PolyN_bound : forall (c : F) (r : list F) (x : F),
  INR (length r) <= 1099511627776 -> safe_h (fun v => nounder v /\ noover v) c r x ->
  Rabs (B2R (polyn_eval fzero ffma (c :: r) x) - polyval (map B2R (c :: r)) (B2R x))
    <= 4 * (INR (length r) + 2) * u * polyabs (map B2R (c :: r)) (B2R x).
Proof. exact polyn_bound. Qed.

(* ---- Log wrappers: the same polynomial, evaluated at the libm value of ln v ---- *)

Definition e_Log0 : expr := hd (Lit 0) k_Log_Poly0__evaluate.
Theorem C01_Log0_value : forall c0 v : R, eval ROps [c0; v] e_Log0 = polyval [c0] (ln v).
Proof. intros. unfold e_Log0, k_Log_Poly0__evaluate. cbn [hd]. reval. cbn [polyval]. ring. Qed.
(* for ANY libm oracle ln_f the Log wrapper computes, bit for bit, the polynomial at ln_f v *)
Theorem C01_Log0_float : forall (ln_f exp_f : F -> F) (c0 v : F),
  eval (FOpsG ln_f exp_f) [c0; v] e_Log0 = fev [c0; ln_f v] e_Poly0.
Proof.
  intros. change e_Log0 with (subst [Var 0; Ln (Var 1)] e_Poly0).
  rewrite eval_subst by (vm_compute; reflexivity). cbn [map eval nth FOpsG o_ln o_default].
  apply eval_oracle_free. vm_compute. reflexivity.
Qed.

Definition e_Log1 : expr := hd (Lit 0) k_Log_Poly1__evaluate.
Theorem C01_Log1_value : forall c0 c1 v : R, eval ROps [c0; c1; v] e_Log1 = polyval [c0; c1] (ln v).
Proof. intros. unfold e_Log1, k_Log_Poly1__evaluate. cbn [hd]. reval. cbn [polyval]. ring. Qed.
(* for ANY libm oracle ln_f the Log wrapper computes, bit for bit, the polynomial at ln_f v *)
Theorem C01_Log1_float : forall (ln_f exp_f : F -> F) (c0 c1 v : F),
  eval (FOpsG ln_f exp_f) [c0; c1; v] e_Log1 = fev [c0; c1; ln_f v] e_Poly1.
Proof.
  intros. change e_Log1 with (subst [Var 0; Var 1; Ln (Var 2)] e_Poly1).
  rewrite eval_subst by (vm_compute; reflexivity). cbn [map eval nth FOpsG o_ln o_default].
  apply eval_oracle_free. vm_compute. reflexivity.
Qed.

Definition e_Log2 : expr := hd (Lit 0) k_Log_Poly2__evaluate.
Theorem C01_Log2_value : forall c0 c1 c2 v : R, eval ROps [c0; c1; c2; v] e_Log2 = polyval [c0; c1; c2] (ln v).
Proof. intros. unfold e_Log2, k_Log_Poly2__evaluate. cbn [hd]. reval. cbn [polyval]. ring. Qed.
(* for ANY libm oracle ln_f the Log wrapper computes, bit for bit, the polynomial at ln_f v *)
Theorem C01_Log2_float : forall (ln_f exp_f : F -> F) (c0 c1 c2 v : F),
  eval (FOpsG ln_f exp_f) [c0; c1; c2; v] e_Log2 = fev [c0; c1; c2; ln_f v] e_Poly2.
Proof.
  intros. change e_Log2 with (subst [Var 0; Var 1; Var 2; Ln (Var 3)] e_Poly2).
  rewrite eval_subst by (vm_compute; reflexivity). cbn [map eval nth FOpsG o_ln o_default].
  apply eval_oracle_free. vm_compute. reflexivity.
Qed.

Definition e_Log3 : expr := hd (Lit 0) k_Log_Poly3__evaluate.
Theorem C01_Log3_value : forall c0 c1 c2 c3 v : R, eval ROps [c0; c1; c2; c3; v] e_Log3 = polyval [c0; c1; c2; c3] (ln v).
Proof. intros. unfold e_Log3, k_Log_Poly3__evaluate. cbn [hd]. reval. cbn [polyval]. ring. Qed.
(* for ANY libm oracle ln_f the Log wrapper computes, bit for bit, the polynomial at ln_f v *)
Theorem C01_Log3_float : forall (ln_f exp_f : F -> F) (c0 c1 c2 c3 v : F),
  eval (FOpsG ln_f exp_f) [c0; c1; c2; c3; v] e_Log3 = fev [c0; c1; c2; c3; ln_f v] e_Poly3.
Proof.
  intros. change e_Log3 with (subst [Var 0; Var 1; Var 2; Var 3; Ln (Var 4)] e_Poly3).
  rewrite eval_subst by (vm_compute; reflexivity). cbn [map eval nth FOpsG o_ln o_default].
  apply eval_oracle_free. vm_compute. reflexivity.
Qed.

Definition e_Log4 : expr := hd (Lit 0) k_Log_Poly4__evaluate.
Theorem C01_Log4_value : forall c0 c1 c2 c3 c4 v : R, eval ROps [c0; c1; c2; c3; c4; v] e_Log4 = polyval [c0; c1; c2; c3; c4] (ln v).
Proof. intros. unfold e_Log4, k_Log_Poly4__evaluate. cbn [hd]. reval. cbn [polyval]. ring. Qed.
(* for ANY libm oracle ln_f the Log wrapper computes, bit for bit, the polynomial at ln_f v *)
Theorem C01_Log4_float : forall (ln_f exp_f : F -> F) (c0 c1 c2 c3 c4 v : F),
  eval (FOpsG ln_f exp_f) [c0; c1; c2; c3; c4; v] e_Log4 = fev [c0; c1; c2; c3; c4; ln_f v] e_Poly4.
Proof.
  intros. change e_Log4 with (subst [Var 0; Var 1; Var 2; Var 3; Var 4; Ln (Var 5)] e_Poly4).
  rewrite eval_subst by (vm_compute; reflexivity). cbn [map eval nth FOpsG o_ln o_default].
  apply eval_oracle_free. vm_compute. reflexivity.
Qed.

Definition e_Log5 : expr := hd (Lit 0) k_Log_Poly5__evaluate.
Theorem C01_Log5_value : forall c0 c1 c2 c3 c4 c5 v : R, eval ROps [c0; c1; c2; c3; c4; c5; v] e_Log5 = polyval [c0; c1; c2; c3; c4; c5] (ln v).
Proof. intros. unfold e_Log5, k_Log_Poly5__evaluate. cbn [hd]. reval. cbn [polyval]. ring. Qed.
(* for ANY libm oracle ln_f the Log wrapper computes, bit for bit, the polynomial at ln_f v *)
Theorem C01_Log5_float : forall (ln_f exp_f : F -> F) (c0 c1 c2 c3 c4 c5 v : F),
  eval (FOpsG ln_f exp_f) [c0; c1; c2; c3; c4; c5; v] e_Log5 = fev [c0; c1; c2; c3; c4; c5; ln_f v] e_Poly5.
Proof.
  intros. change e_Log5 with (subst [Var 0; Var 1; Var 2; Var 3; Var 4; Var 5; Ln (Var 6)] e_Poly5).
  rewrite eval_subst by (vm_compute; reflexivity). cbn [map eval nth FOpsG o_ln o_default].
  apply eval_oracle_free. vm_compute. reflexivity.
Qed.

Definition e_Log6 : expr := hd (Lit 0) k_Log_Poly6__evaluate.
Theorem C01_Log6_value : forall c0 c1 c2 c3 c4 c5 c6 v : R, eval ROps [c0; c1; c2; c3; c4; c5; c6; v] e_Log6 = polyval [c0; c1; c2; c3; c4; c5; c6] (ln v).
Proof. intros. unfold e_Log6, k_Log_Poly6__evaluate. cbn [hd]. reval. cbn [polyval]. ring. Qed.
(* for ANY libm oracle ln_f the Log wrapper computes, bit for bit, the polynomial at ln_f v *)
Theorem C01_Log6_float : forall (ln_f exp_f : F -> F) (c0 c1 c2 c3 c4 c5 c6 v : F),
  eval (FOpsG ln_f exp_f) [c0; c1; c2; c3; c4; c5; c6; v] e_Log6 = fev [c0; c1; c2; c3; c4; c5; c6; ln_f v] e_Poly6.
Proof.
  intros. change e_Log6 with (subst [Var 0; Var 1; Var 2; Var 3; Var 4; Var 5; Var 6; Ln (Var 7)] e_Poly6).
  rewrite eval_subst by (vm_compute; reflexivity). cbn [map eval nth FOpsG o_ln o_default].
  apply eval_oracle_free. vm_compute. reflexivity.
Qed.

Definition e_Log7 : expr := hd (Lit 0) k_Log_Poly7__evaluate.
Theorem C01_Log7_value : forall c0 c1 c2 c3 c4 c5 c6 c7 v : R, eval ROps [c0; c1; c2; c3; c4; c5; c6; c7; v] e_Log7 = polyval [c0; c1; c2; c3; c4; c5; c6; c7] (ln v).
Proof. intros. unfold e_Log7, k_Log_Poly7__evaluate. cbn [hd]. reval. cbn [polyval]. ring. Qed.
(* for ANY libm oracle ln_f the Log wrapper computes, bit for bit, the polynomial at ln_f v *)
Theorem C01_Log7_float : forall (ln_f exp_f : F -> F) (c0 c1 c2 c3 c4 c5 c6 c7 v : F),
  eval (FOpsG ln_f exp_f) [c0; c1; c2; c3; c4; c5; c6; c7; v] e_Log7 = fev [c0; c1; c2; c3; c4; c5; c6; c7; ln_f v] e_Poly7.
Proof.
  intros. change e_Log7 with (subst [Var 0; Var 1; Var 2; Var 3; Var 4; Var 5; Var 6; Var 7; Ln (Var 8)] e_Poly7).
  rewrite eval_subst by (vm_compute; reflexivity). cbn [map eval nth FOpsG o_ln o_default].
  apply eval_oracle_free. vm_compute. reflexivity.
Qed.

Definition e_Log8 : expr := hd (Lit 0) k_Log_Poly8__evaluate.
Theorem C01_Log8_value : forall c0 c1 c2 c3 c4 c5 c6 c7 c8 v : R, eval ROps [c0; c1; c2; c3; c4; c5; c6; c7; c8; v] e_Log8 = polyval [c0; c1; c2; c3; c4; c5; c6; c7; c8] (ln v).
Proof. intros. unfold e_Log8, k_Log_Poly8__evaluate. cbn [hd]. reval. cbn [polyval]. ring. Qed.
(* for ANY libm oracle ln_f the Log wrapper computes, bit for bit, the polynomial at ln_f v *)
Theorem C01_Log8_float : forall (ln_f exp_f : F -> F) (c0 c1 c2 c3 c4 c5 c6 c7 c8 v : F),
  eval (FOpsG ln_f exp_f) [c0; c1; c2; c3; c4; c5; c6; c7; c8; v] e_Log8 = fev [c0; c1; c2; c3; c4; c5; c6; c7; c8; ln_f v] e_Poly8.
Proof.
  intros. change e_Log8 with (subst [Var 0; Var 1; Var 2; Var 3; Var 4; Var 5; Var 6; Var 7; Var 8; Ln (Var 9)] e_Poly8).
  rewrite eval_subst by (vm_compute; reflexivity). cbn [map eval nth FOpsG o_ln o_default].
  apply eval_oracle_free. vm_compute. reflexivity.
Qed.

(* propagation of the error of ln through the polynomial: with l = ln_f v the computed logarithm,
   |p(l) - p(ln v)| <= |l - ln v| * sum_i i |c_i| M^(i-1)  for any M >= |l|, |ln v|;  together with
   C01_PolyK_bound at x := l this is the bound of the property (evaluation bound + propagated error of ln) *)
Theorem C01_log_propagation : forall (cs : list R) (l lnv M : R), Rabs l <= M -> Rabs lnv <= M ->
  Rabs (polyval cs l - polyval cs lnv) <= Rabs (l - lnv) * dpoly (map Rabs cs) M.
Proof. exact polyval_lipschitz. Qed.

(* non-vacuity: 1 + 2x + 3x^2 + 4x^3 at x = 2 is exactly 49 *)

(* ---- non-vacuity: concrete inputs meet the hypotheses of the binary64 theorems above (decided by exact rational
   arithmetic, lib/SafeDec.v): `safe` on generic data, `exact_safe` on small integers ---- *)
Example C01_Poly0_hypotheses_hold :
  safe (map of_bits [4607632778762754458; 4604750475001237340]%Z) e_Poly0 /\
  exact_safe (map of_bits [4607182418800017408; 4611686018427387904]%Z) e_Poly0.
Proof. split; [apply safe1_sound|apply exact_safeb_sound]; vm_compute; reflexivity. Qed.
Example C01_Poly1_hypotheses_hold :
  safe (map of_bits [4607632778762754458; 13835733595226269286; 4604750475001237340]%Z) e_Poly1 /\
  exact_safe (map of_bits [4607182418800017408; 4611686018427387904; 4611686018427387904]%Z) e_Poly1.
Proof. split; [apply safe1_sound|apply exact_safeb_sound]; vm_compute; reflexivity. Qed.
Example C01_Poly2_hypotheses_hold :
  safe (map of_bits [4607632778762754458; 13835733595226269286; 4604480259023595110; 4604750475001237340]%Z) e_Poly2 /\
  exact_safe (map of_bits [4607182418800017408; 4611686018427387904; 4613937818241073152; 4611686018427387904]%Z) e_Poly2.
Proof. split; [apply safe1_sound|apply exact_safeb_sound]; vm_compute; reflexivity. Qed.
Example C01_Poly3_hypotheses_hold :
  safe (map of_bits [4607632778762754458; 13835733595226269286; 4604480259023595110; 4615964438073389875; 4604750475001237340]%Z) e_Poly3 /\
  exact_safe (map of_bits [4607182418800017408; 4611686018427387904; 4613937818241073152; 4616189618054758400; 4611686018427387904]%Z) e_Poly3.
Proof. split; [apply safe1_sound|apply exact_safeb_sound]; vm_compute; reflexivity. Qed.
Example C01_Poly4_hypotheses_hold :
  safe (map of_bits [4607632778762754458; 13835733595226269286; 4604480259023595110; 4615964438073389875; 13825150136101948621; 4604750475001237340]%Z) e_Poly4 /\
  exact_safe (map of_bits [4607182418800017408; 4611686018427387904; 4613937818241073152; 4616189618054758400; 4617315517961601024; 4611686018427387904]%Z) e_Poly4.
Proof. split; [apply safe1_sound|apply exact_safeb_sound]; vm_compute; reflexivity. Qed.
Example C01_Poly5_hypotheses_hold :
  safe (map of_bits [4607632778762754458; 13835733595226269286; 4604480259023595110; 4615964438073389875; 13825150136101948621; 4563407430421976187; 4604750475001237340]%Z) e_Poly5 /\
  exact_safe (map of_bits [4607182418800017408; 4611686018427387904; 4613937818241073152; 4616189618054758400; 4617315517961601024; 4618441417868443648; 4611686018427387904]%Z) e_Poly5.
Proof. split; [apply safe1_sound|apply exact_safeb_sound]; vm_compute; reflexivity. Qed.
Example C01_Poly6_hypotheses_hold :
  safe (map of_bits [4607632778762754458; 13835733595226269286; 4604480259023595110; 4615964438073389875; 13825150136101948621; 4563407430421976187; 4635168068359474381; 4604750475001237340]%Z) e_Poly6 /\
  exact_safe (map of_bits [4607182418800017408; 4611686018427387904; 4613937818241073152; 4616189618054758400; 4617315517961601024; 4618441417868443648; 4619567317775286272; 4611686018427387904]%Z) e_Poly6.
Proof. split; [apply safe1_sound|apply exact_safeb_sound]; vm_compute; reflexivity. Qed.
Example C01_Poly7_hypotheses_hold :
  safe (map of_bits [4607632778762754458; 13835733595226269286; 4604480259023595110; 4615964438073389875; 13825150136101948621; 4563407430421976187; 4635168068359474381; 13841250504769798144; 4604750475001237340]%Z) e_Poly7 /\
  exact_safe (map of_bits [4607182418800017408; 4611686018427387904; 4613937818241073152; 4616189618054758400; 4617315517961601024; 4618441417868443648; 4619567317775286272; 4620693217682128896; 4611686018427387904]%Z) e_Poly7.
Proof. split; [apply safe1_sound|apply exact_safeb_sound]; vm_compute; reflexivity. Qed.
Example C01_Poly8_hypotheses_hold :
  safe (map of_bits [4607632778762754458; 13835733595226269286; 4604480259023595110; 4615964438073389875; 13825150136101948621; 4563407430421976187; 4635168068359474381; 13841250504769798144; 4612136378390124954; 4604750475001237340]%Z) e_Poly8 /\
  exact_safe (map of_bits [4607182418800017408; 4611686018427387904; 4613937818241073152; 4616189618054758400; 4617315517961601024; 4618441417868443648; 4619567317775286272; 4620693217682128896; 4621256167635550208; 4611686018427387904]%Z) e_Poly8.
Proof. split; [apply safe1_sound|apply exact_safeb_sound]; vm_compute; reflexivity. Qed.

Example C01_example :
  map to_bits (evals FOps0 (map of_bits [4607182418800017408; 4611686018427387904; 4613937818241073152; 4616189618054758400; 4611686018427387904]%Z) k_Poly3__evaluate)
  = [4632092954238910464%Z].
Proof. vm_compute. reflexivity. Qed.
