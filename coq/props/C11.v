(* C11 - piecewise integration is continuous at breakpoints and is the true integral.
   Generic theorems about the knot-threading iteration (proofs/IntegralProofs.v) instantiated, per piece type,
   with the real-number semantics of the regenerated Segment<T> kernels. *)
From Coq Require Import List ZArith Reals Lra Lia.
Require Import PP.Expr PP.RealOps PP.PolyFacts PP.Model.PwModel PP.Proofs.IntegralProofs PP.Gen.Kernels.
(* the binary64-level statements (jump at a breakpoint) live in C11F.v; they are re-exported from here *)
Require Export PP.Props.C11F.
(* ... and for log-polynomial pieces (every degree, the quartic with its two branches) in C11L.v *)
Require Export PP.Props.C11L.
Import ListNotations.
Local Open Scope R_scope.

(* a segment is (end, numbers of the piece); segment-level kernels take [end; numbers...; extra inputs] *)
Definition kseg (k : list expr) (s : R * list R) (extra : list R) : R * list R :=
  let o := evals ROps (fst s :: snd s ++ extra) k in (hd 0 o, tl o).
Definition kev (k : list expr) (F : R * list R) (t : R) : R := hd 0 (evals ROps (fst F :: snd F ++ [t]) k).

Ltac kred := unfold kseg, kev; cbn [fst snd app hd tl]; reval; norm_lits; cbn [fst snd app hd tl]; reval.

(* ---------------- Poly0 ---------------- *)
Definition wf_P0 (s : R * list R) : Prop := length (snd s) = 1%nat.
Definition sint_P0 (s : R * list R) (k : R * R) := kseg k_Segment_Poly0__integral s [fst k; snd k].
Definition sind_P0 (s : R * list R) := kseg k_Segment_Poly0__indefinite s [].
Definition evI_P0 := kev k_Segment_Poly1__evaluate.
Lemma C11_P0_S1 : forall s k, wf_P0 s -> fst (sint_P0 s k) = fst s.
Proof. intros [e cs] [kx ky] H. unfold wf_P0 in H. cbn [snd] in H. destruct cs as [|c0 [|x_ r_]]; cbn [length] in *; try discriminate; try lia. unfold sint_P0, k_Segment_Poly0__integral. kred. reflexivity. Qed.
Lemma C11_P0_S1i : forall s, wf_P0 s -> fst (sind_P0 s) = fst s.
Proof. intros [e cs] H. unfold wf_P0 in H. cbn [snd] in H. destruct cs as [|c0 [|x_ r_]]; cbn [length] in *; try discriminate; try lia. unfold sind_P0, k_Segment_Poly0__indefinite. kred. reflexivity. Qed.
Lemma C11_P0_S2 : forall s k, wf_P0 s -> evI_P0 (sint_P0 s k) (fst k) = snd k.
Proof.
  intros [e cs] [kx ky] H. unfold wf_P0 in H. cbn [snd] in H. destruct cs as [|c0 [|x_ r_]]; cbn [length] in *; try discriminate; try lia.
  unfold evI_P0, sint_P0, k_Segment_Poly0__integral. kred. unfold k_Segment_Poly1__evaluate. kred. field.
Qed.
Lemma C11_P0_S3 : forall s k, wf_P0 s -> exists c, forall t, evI_P0 (sint_P0 s k) t = evI_P0 (sind_P0 s) t + c.
Proof.
  intros [e cs] [kx ky] H. unfold wf_P0 in H. cbn [snd] in H. destruct cs as [|c0 [|x_ r_]]; cbn [length] in *; try discriminate; try lia.
  exists (ky - evI_P0 (sind_P0 (e, [c0])) kx). intros t.
  unfold evI_P0, sint_P0, sind_P0, k_Segment_Poly0__integral, k_Segment_Poly0__indefinite. kred. unfold k_Segment_Poly1__evaluate. kred. field.
Qed.
(* same breakpoints; first piece through the knot; adjacent pieces agree at every interior breakpoint; every piece is
   the indefinite integral of its source piece plus a constant; the telescoped value formula *)
Theorem C11_P0 : forall (segs : list (R * list R)) (k0 : R * R), List.Forall wf_P0 segs ->
  let r := integral_iter sint_P0 evI_P0 segs k0 in
  map fst r = map fst segs /\
  (forall l F G r', r = l ++ F :: G :: r' -> evI_P0 G (fst F) = evI_P0 F (fst F)) /\
  List.Forall2 (fun s F => exists c, forall t, evI_P0 F t = evI_P0 (sind_P0 s) t + c) segs r /\
  List.Forall2 (fun (sk : (R * list R) * (R * R)) F => forall t,
                  evI_P0 F t = snd (snd sk) + (evI_P0 (sind_P0 (fst sk)) t - evI_P0 (sind_P0 (fst sk)) (fst (snd sk))))
               (combine segs (knot_seq _ _ sind_P0 evI_P0 segs k0)) r.
Proof.
  intros segs k0 H. cbv zeta. repeat split.
  - apply iter_ends with (wf := wf_P0); [exact C11_P0_S1|exact H].
  - apply iter_continuous with (wf := wf_P0); [exact C11_P0_S2|exact H].
  - exact (@iter_antiderivative _ _ sint_P0 sind_P0 evI_P0 wf_P0 C11_P0_S3 segs k0 H).
  - exact (@iter_telescope _ _ sint_P0 sind_P0 evI_P0 wf_P0 C11_P0_S1 C11_P0_S2 C11_P0_S3 segs k0 H).
Qed.
Theorem C11_P0_first : forall s r k0, wf_P0 s ->
  match integral_iter sint_P0 evI_P0 (s :: r) k0 with F :: _ => evI_P0 F (fst k0) = snd k0 | [] => False end.
Proof. intros. apply iter_first with (wf := wf_P0); [exact C11_P0_S2|assumption]. Qed.
Theorem C11_P0_indefinite : forall s s2 r, wf_P0 s -> wf_P0 s2 -> List.Forall wf_P0 r ->
  match pw_indefinite sint_P0 sind_P0 evI_P0 (s :: s2 :: r) with
  | F0 :: F1 :: _ => F0 = sind_P0 s /\ evI_P0 F1 (fst F0) = evI_P0 F0 (fst F0)
  | _ => False end.
Proof.
  intros s s2 r Hs Hs2 Hr. split; [reflexivity|].
  apply indefinite_continuous with (wf := wf_P0) (r := r); [exact C11_P0_S2|exact Hs|exact Hs2|exact Hr].
Qed.

(* ---------------- Poly1 ---------------- *)
Definition wf_P1 (s : R * list R) : Prop := length (snd s) = 2%nat.
Definition sint_P1 (s : R * list R) (k : R * R) := kseg k_Segment_Poly1__integral s [fst k; snd k].
Definition sind_P1 (s : R * list R) := kseg k_Segment_Poly1__indefinite s [].
Definition evI_P1 := kev k_Segment_Poly2__evaluate.
Lemma C11_P1_S1 : forall s k, wf_P1 s -> fst (sint_P1 s k) = fst s.
Proof. intros [e cs] [kx ky] H. unfold wf_P1 in H. cbn [snd] in H. destruct cs as [|c0 [|c1 [|x_ r_]]]; cbn [length] in *; try discriminate; try lia. unfold sint_P1, k_Segment_Poly1__integral. kred. reflexivity. Qed.
Lemma C11_P1_S1i : forall s, wf_P1 s -> fst (sind_P1 s) = fst s.
Proof. intros [e cs] H. unfold wf_P1 in H. cbn [snd] in H. destruct cs as [|c0 [|c1 [|x_ r_]]]; cbn [length] in *; try discriminate; try lia. unfold sind_P1, k_Segment_Poly1__indefinite. kred. reflexivity. Qed.
Lemma C11_P1_S2 : forall s k, wf_P1 s -> evI_P1 (sint_P1 s k) (fst k) = snd k.
Proof.
  intros [e cs] [kx ky] H. unfold wf_P1 in H. cbn [snd] in H. destruct cs as [|c0 [|c1 [|x_ r_]]]; cbn [length] in *; try discriminate; try lia.
  unfold evI_P1, sint_P1, k_Segment_Poly1__integral. kred. unfold k_Segment_Poly2__evaluate. kred. field.
Qed.
Lemma C11_P1_S3 : forall s k, wf_P1 s -> exists c, forall t, evI_P1 (sint_P1 s k) t = evI_P1 (sind_P1 s) t + c.
Proof.
  intros [e cs] [kx ky] H. unfold wf_P1 in H. cbn [snd] in H. destruct cs as [|c0 [|c1 [|x_ r_]]]; cbn [length] in *; try discriminate; try lia.
  exists (ky - evI_P1 (sind_P1 (e, [c0; c1])) kx). intros t.
  unfold evI_P1, sint_P1, sind_P1, k_Segment_Poly1__integral, k_Segment_Poly1__indefinite. kred. unfold k_Segment_Poly2__evaluate. kred. field.
Qed.
(* same breakpoints; first piece through the knot; adjacent pieces agree at every interior breakpoint; every piece is
   the indefinite integral of its source piece plus a constant; the telescoped value formula *)
Theorem C11_P1 : forall (segs : list (R * list R)) (k0 : R * R), List.Forall wf_P1 segs ->
  let r := integral_iter sint_P1 evI_P1 segs k0 in
  map fst r = map fst segs /\
  (forall l F G r', r = l ++ F :: G :: r' -> evI_P1 G (fst F) = evI_P1 F (fst F)) /\
  List.Forall2 (fun s F => exists c, forall t, evI_P1 F t = evI_P1 (sind_P1 s) t + c) segs r /\
  List.Forall2 (fun (sk : (R * list R) * (R * R)) F => forall t,
                  evI_P1 F t = snd (snd sk) + (evI_P1 (sind_P1 (fst sk)) t - evI_P1 (sind_P1 (fst sk)) (fst (snd sk))))
               (combine segs (knot_seq _ _ sind_P1 evI_P1 segs k0)) r.
Proof.
  intros segs k0 H. cbv zeta. repeat split.
  - apply iter_ends with (wf := wf_P1); [exact C11_P1_S1|exact H].
  - apply iter_continuous with (wf := wf_P1); [exact C11_P1_S2|exact H].
  - exact (@iter_antiderivative _ _ sint_P1 sind_P1 evI_P1 wf_P1 C11_P1_S3 segs k0 H).
  - exact (@iter_telescope _ _ sint_P1 sind_P1 evI_P1 wf_P1 C11_P1_S1 C11_P1_S2 C11_P1_S3 segs k0 H).
Qed.
Theorem C11_P1_first : forall s r k0, wf_P1 s ->
  match integral_iter sint_P1 evI_P1 (s :: r) k0 with F :: _ => evI_P1 F (fst k0) = snd k0 | [] => False end.
Proof. intros. apply iter_first with (wf := wf_P1); [exact C11_P1_S2|assumption]. Qed.
Theorem C11_P1_indefinite : forall s s2 r, wf_P1 s -> wf_P1 s2 -> List.Forall wf_P1 r ->
  match pw_indefinite sint_P1 sind_P1 evI_P1 (s :: s2 :: r) with
  | F0 :: F1 :: _ => F0 = sind_P1 s /\ evI_P1 F1 (fst F0) = evI_P1 F0 (fst F0)
  | _ => False end.
Proof.
  intros s s2 r Hs Hs2 Hr. split; [reflexivity|].
  apply indefinite_continuous with (wf := wf_P1) (r := r); [exact C11_P1_S2|exact Hs|exact Hs2|exact Hr].
Qed.

(* ---------------- Poly2 ---------------- *)
Definition wf_P2 (s : R * list R) : Prop := length (snd s) = 3%nat.
Definition sint_P2 (s : R * list R) (k : R * R) := kseg k_Segment_Poly2__integral s [fst k; snd k].
Definition sind_P2 (s : R * list R) := kseg k_Segment_Poly2__indefinite s [].
Definition evI_P2 := kev k_Segment_Poly3__evaluate.
Lemma C11_P2_S1 : forall s k, wf_P2 s -> fst (sint_P2 s k) = fst s.
Proof. intros [e cs] [kx ky] H. unfold wf_P2 in H. cbn [snd] in H. destruct cs as [|c0 [|c1 [|c2 [|x_ r_]]]]; cbn [length] in *; try discriminate; try lia. unfold sint_P2, k_Segment_Poly2__integral. kred. reflexivity. Qed.
Lemma C11_P2_S1i : forall s, wf_P2 s -> fst (sind_P2 s) = fst s.
Proof. intros [e cs] H. unfold wf_P2 in H. cbn [snd] in H. destruct cs as [|c0 [|c1 [|c2 [|x_ r_]]]]; cbn [length] in *; try discriminate; try lia. unfold sind_P2, k_Segment_Poly2__indefinite. kred. reflexivity. Qed.
Lemma C11_P2_S2 : forall s k, wf_P2 s -> evI_P2 (sint_P2 s k) (fst k) = snd k.
Proof.
  intros [e cs] [kx ky] H. unfold wf_P2 in H. cbn [snd] in H. destruct cs as [|c0 [|c1 [|c2 [|x_ r_]]]]; cbn [length] in *; try discriminate; try lia.
  unfold evI_P2, sint_P2, k_Segment_Poly2__integral. kred. unfold k_Segment_Poly3__evaluate. kred. field.
Qed.
Lemma C11_P2_S3 : forall s k, wf_P2 s -> exists c, forall t, evI_P2 (sint_P2 s k) t = evI_P2 (sind_P2 s) t + c.
Proof.
  intros [e cs] [kx ky] H. unfold wf_P2 in H. cbn [snd] in H. destruct cs as [|c0 [|c1 [|c2 [|x_ r_]]]]; cbn [length] in *; try discriminate; try lia.
  exists (ky - evI_P2 (sind_P2 (e, [c0; c1; c2])) kx). intros t.
  unfold evI_P2, sint_P2, sind_P2, k_Segment_Poly2__integral, k_Segment_Poly2__indefinite. kred. unfold k_Segment_Poly3__evaluate. kred. field.
Qed.
(* same breakpoints; first piece through the knot; adjacent pieces agree at every interior breakpoint; every piece is
   the indefinite integral of its source piece plus a constant; the telescoped value formula *)
Theorem C11_P2 : forall (segs : list (R * list R)) (k0 : R * R), List.Forall wf_P2 segs ->
  let r := integral_iter sint_P2 evI_P2 segs k0 in
  map fst r = map fst segs /\
  (forall l F G r', r = l ++ F :: G :: r' -> evI_P2 G (fst F) = evI_P2 F (fst F)) /\
  List.Forall2 (fun s F => exists c, forall t, evI_P2 F t = evI_P2 (sind_P2 s) t + c) segs r /\
  List.Forall2 (fun (sk : (R * list R) * (R * R)) F => forall t,
                  evI_P2 F t = snd (snd sk) + (evI_P2 (sind_P2 (fst sk)) t - evI_P2 (sind_P2 (fst sk)) (fst (snd sk))))
               (combine segs (knot_seq _ _ sind_P2 evI_P2 segs k0)) r.
Proof.
  intros segs k0 H. cbv zeta. repeat split.
  - apply iter_ends with (wf := wf_P2); [exact C11_P2_S1|exact H].
  - apply iter_continuous with (wf := wf_P2); [exact C11_P2_S2|exact H].
  - exact (@iter_antiderivative _ _ sint_P2 sind_P2 evI_P2 wf_P2 C11_P2_S3 segs k0 H).
  - exact (@iter_telescope _ _ sint_P2 sind_P2 evI_P2 wf_P2 C11_P2_S1 C11_P2_S2 C11_P2_S3 segs k0 H).
Qed.
Theorem C11_P2_first : forall s r k0, wf_P2 s ->
  match integral_iter sint_P2 evI_P2 (s :: r) k0 with F :: _ => evI_P2 F (fst k0) = snd k0 | [] => False end.
Proof. intros. apply iter_first with (wf := wf_P2); [exact C11_P2_S2|assumption]. Qed.
Theorem C11_P2_indefinite : forall s s2 r, wf_P2 s -> wf_P2 s2 -> List.Forall wf_P2 r ->
  match pw_indefinite sint_P2 sind_P2 evI_P2 (s :: s2 :: r) with
  | F0 :: F1 :: _ => F0 = sind_P2 s /\ evI_P2 F1 (fst F0) = evI_P2 F0 (fst F0)
  | _ => False end.
Proof.
  intros s s2 r Hs Hs2 Hr. split; [reflexivity|].
  apply indefinite_continuous with (wf := wf_P2) (r := r); [exact C11_P2_S2|exact Hs|exact Hs2|exact Hr].
Qed.

(* ---------------- Poly3 ---------------- *)
Definition wf_P3 (s : R * list R) : Prop := length (snd s) = 4%nat.
Definition sint_P3 (s : R * list R) (k : R * R) := kseg k_Segment_Poly3__integral s [fst k; snd k].
Definition sind_P3 (s : R * list R) := kseg k_Segment_Poly3__indefinite s [].
Definition evI_P3 := kev k_Segment_Poly4__evaluate.
Lemma C11_P3_S1 : forall s k, wf_P3 s -> fst (sint_P3 s k) = fst s.
Proof. intros [e cs] [kx ky] H. unfold wf_P3 in H. cbn [snd] in H. destruct cs as [|c0 [|c1 [|c2 [|c3 [|x_ r_]]]]]; cbn [length] in *; try discriminate; try lia. unfold sint_P3, k_Segment_Poly3__integral. kred. reflexivity. Qed.
Lemma C11_P3_S1i : forall s, wf_P3 s -> fst (sind_P3 s) = fst s.
Proof. intros [e cs] H. unfold wf_P3 in H. cbn [snd] in H. destruct cs as [|c0 [|c1 [|c2 [|c3 [|x_ r_]]]]]; cbn [length] in *; try discriminate; try lia. unfold sind_P3, k_Segment_Poly3__indefinite. kred. reflexivity. Qed.
Lemma C11_P3_S2 : forall s k, wf_P3 s -> evI_P3 (sint_P3 s k) (fst k) = snd k.
Proof.
  intros [e cs] [kx ky] H. unfold wf_P3 in H. cbn [snd] in H. destruct cs as [|c0 [|c1 [|c2 [|c3 [|x_ r_]]]]]; cbn [length] in *; try discriminate; try lia.
  unfold evI_P3, sint_P3, k_Segment_Poly3__integral. kred. unfold k_Segment_Poly4__evaluate. kred. field.
Qed.
Lemma C11_P3_S3 : forall s k, wf_P3 s -> exists c, forall t, evI_P3 (sint_P3 s k) t = evI_P3 (sind_P3 s) t + c.
Proof.
  intros [e cs] [kx ky] H. unfold wf_P3 in H. cbn [snd] in H. destruct cs as [|c0 [|c1 [|c2 [|c3 [|x_ r_]]]]]; cbn [length] in *; try discriminate; try lia.
  exists (ky - evI_P3 (sind_P3 (e, [c0; c1; c2; c3])) kx). intros t.
  unfold evI_P3, sint_P3, sind_P3, k_Segment_Poly3__integral, k_Segment_Poly3__indefinite. kred. unfold k_Segment_Poly4__evaluate. kred. field.
Qed.
(* same breakpoints; first piece through the knot; adjacent pieces agree at every interior breakpoint; every piece is
   the indefinite integral of its source piece plus a constant; the telescoped value formula *)
Theorem C11_P3 : forall (segs : list (R * list R)) (k0 : R * R), List.Forall wf_P3 segs ->
  let r := integral_iter sint_P3 evI_P3 segs k0 in
  map fst r = map fst segs /\
  (forall l F G r', r = l ++ F :: G :: r' -> evI_P3 G (fst F) = evI_P3 F (fst F)) /\
  List.Forall2 (fun s F => exists c, forall t, evI_P3 F t = evI_P3 (sind_P3 s) t + c) segs r /\
  List.Forall2 (fun (sk : (R * list R) * (R * R)) F => forall t,
                  evI_P3 F t = snd (snd sk) + (evI_P3 (sind_P3 (fst sk)) t - evI_P3 (sind_P3 (fst sk)) (fst (snd sk))))
               (combine segs (knot_seq _ _ sind_P3 evI_P3 segs k0)) r.
Proof.
  intros segs k0 H. cbv zeta. repeat split.
  - apply iter_ends with (wf := wf_P3); [exact C11_P3_S1|exact H].
  - apply iter_continuous with (wf := wf_P3); [exact C11_P3_S2|exact H].
  - exact (@iter_antiderivative _ _ sint_P3 sind_P3 evI_P3 wf_P3 C11_P3_S3 segs k0 H).
  - exact (@iter_telescope _ _ sint_P3 sind_P3 evI_P3 wf_P3 C11_P3_S1 C11_P3_S2 C11_P3_S3 segs k0 H).
Qed.
Theorem C11_P3_first : forall s r k0, wf_P3 s ->
  match integral_iter sint_P3 evI_P3 (s :: r) k0 with F :: _ => evI_P3 F (fst k0) = snd k0 | [] => False end.
Proof. intros. apply iter_first with (wf := wf_P3); [exact C11_P3_S2|assumption]. Qed.
Theorem C11_P3_indefinite : forall s s2 r, wf_P3 s -> wf_P3 s2 -> List.Forall wf_P3 r ->
  match pw_indefinite sint_P3 sind_P3 evI_P3 (s :: s2 :: r) with
  | F0 :: F1 :: _ => F0 = sind_P3 s /\ evI_P3 F1 (fst F0) = evI_P3 F0 (fst F0)
  | _ => False end.
Proof.
  intros s s2 r Hs Hs2 Hr. split; [reflexivity|].
  apply indefinite_continuous with (wf := wf_P3) (r := r); [exact C11_P3_S2|exact Hs|exact Hs2|exact Hr].
Qed.

(* ---------------- Poly4 ---------------- *)
Definition wf_P4 (s : R * list R) : Prop := length (snd s) = 5%nat.
Definition sint_P4 (s : R * list R) (k : R * R) := kseg k_Segment_Poly4__integral s [fst k; snd k].
Definition sind_P4 (s : R * list R) := kseg k_Segment_Poly4__indefinite s [].
Definition evI_P4 := kev k_Segment_Poly5__evaluate.
Lemma C11_P4_S1 : forall s k, wf_P4 s -> fst (sint_P4 s k) = fst s.
Proof. intros [e cs] [kx ky] H. unfold wf_P4 in H. cbn [snd] in H. destruct cs as [|c0 [|c1 [|c2 [|c3 [|c4 [|x_ r_]]]]]]; cbn [length] in *; try discriminate; try lia. unfold sint_P4, k_Segment_Poly4__integral. kred. reflexivity. Qed.
Lemma C11_P4_S1i : forall s, wf_P4 s -> fst (sind_P4 s) = fst s.
Proof. intros [e cs] H. unfold wf_P4 in H. cbn [snd] in H. destruct cs as [|c0 [|c1 [|c2 [|c3 [|c4 [|x_ r_]]]]]]; cbn [length] in *; try discriminate; try lia. unfold sind_P4, k_Segment_Poly4__indefinite. kred. reflexivity. Qed.
Lemma C11_P4_S2 : forall s k, wf_P4 s -> evI_P4 (sint_P4 s k) (fst k) = snd k.
Proof.
  intros [e cs] [kx ky] H. unfold wf_P4 in H. cbn [snd] in H. destruct cs as [|c0 [|c1 [|c2 [|c3 [|c4 [|x_ r_]]]]]]; cbn [length] in *; try discriminate; try lia.
  unfold evI_P4, sint_P4, k_Segment_Poly4__integral. kred. unfold k_Segment_Poly5__evaluate. kred. field.
Qed.
Lemma C11_P4_S3 : forall s k, wf_P4 s -> exists c, forall t, evI_P4 (sint_P4 s k) t = evI_P4 (sind_P4 s) t + c.
Proof.
  intros [e cs] [kx ky] H. unfold wf_P4 in H. cbn [snd] in H. destruct cs as [|c0 [|c1 [|c2 [|c3 [|c4 [|x_ r_]]]]]]; cbn [length] in *; try discriminate; try lia.
  exists (ky - evI_P4 (sind_P4 (e, [c0; c1; c2; c3; c4])) kx). intros t.
  unfold evI_P4, sint_P4, sind_P4, k_Segment_Poly4__integral, k_Segment_Poly4__indefinite. kred. unfold k_Segment_Poly5__evaluate. kred. field.
Qed.
(* same breakpoints; first piece through the knot; adjacent pieces agree at every interior breakpoint; every piece is
   the indefinite integral of its source piece plus a constant; the telescoped value formula *)
Theorem C11_P4 : forall (segs : list (R * list R)) (k0 : R * R), List.Forall wf_P4 segs ->
  let r := integral_iter sint_P4 evI_P4 segs k0 in
  map fst r = map fst segs /\
  (forall l F G r', r = l ++ F :: G :: r' -> evI_P4 G (fst F) = evI_P4 F (fst F)) /\
  List.Forall2 (fun s F => exists c, forall t, evI_P4 F t = evI_P4 (sind_P4 s) t + c) segs r /\
  List.Forall2 (fun (sk : (R * list R) * (R * R)) F => forall t,
                  evI_P4 F t = snd (snd sk) + (evI_P4 (sind_P4 (fst sk)) t - evI_P4 (sind_P4 (fst sk)) (fst (snd sk))))
               (combine segs (knot_seq _ _ sind_P4 evI_P4 segs k0)) r.
Proof.
  intros segs k0 H. cbv zeta. repeat split.
  - apply iter_ends with (wf := wf_P4); [exact C11_P4_S1|exact H].
  - apply iter_continuous with (wf := wf_P4); [exact C11_P4_S2|exact H].
  - exact (@iter_antiderivative _ _ sint_P4 sind_P4 evI_P4 wf_P4 C11_P4_S3 segs k0 H).
  - exact (@iter_telescope _ _ sint_P4 sind_P4 evI_P4 wf_P4 C11_P4_S1 C11_P4_S2 C11_P4_S3 segs k0 H).
Qed.
Theorem C11_P4_first : forall s r k0, wf_P4 s ->
  match integral_iter sint_P4 evI_P4 (s :: r) k0 with F :: _ => evI_P4 F (fst k0) = snd k0 | [] => False end.
Proof. intros. apply iter_first with (wf := wf_P4); [exact C11_P4_S2|assumption]. Qed.
Theorem C11_P4_indefinite : forall s s2 r, wf_P4 s -> wf_P4 s2 -> List.Forall wf_P4 r ->
  match pw_indefinite sint_P4 sind_P4 evI_P4 (s :: s2 :: r) with
  | F0 :: F1 :: _ => F0 = sind_P4 s /\ evI_P4 F1 (fst F0) = evI_P4 F0 (fst F0)
  | _ => False end.
Proof.
  intros s s2 r Hs Hs2 Hr. split; [reflexivity|].
  apply indefinite_continuous with (wf := wf_P4) (r := r); [exact C11_P4_S2|exact Hs|exact Hs2|exact Hr].
Qed.

(* ---------------- Poly5 ---------------- *)
Definition wf_P5 (s : R * list R) : Prop := length (snd s) = 6%nat.
Definition sint_P5 (s : R * list R) (k : R * R) := kseg k_Segment_Poly5__integral s [fst k; snd k].
Definition sind_P5 (s : R * list R) := kseg k_Segment_Poly5__indefinite s [].
Definition evI_P5 := kev k_Segment_Poly6__evaluate.
Lemma C11_P5_S1 : forall s k, wf_P5 s -> fst (sint_P5 s k) = fst s.
Proof. intros [e cs] [kx ky] H. unfold wf_P5 in H. cbn [snd] in H. destruct cs as [|c0 [|c1 [|c2 [|c3 [|c4 [|c5 [|x_ r_]]]]]]]; cbn [length] in *; try discriminate; try lia. unfold sint_P5, k_Segment_Poly5__integral. kred. reflexivity. Qed.
Lemma C11_P5_S1i : forall s, wf_P5 s -> fst (sind_P5 s) = fst s.
Proof. intros [e cs] H. unfold wf_P5 in H. cbn [snd] in H. destruct cs as [|c0 [|c1 [|c2 [|c3 [|c4 [|c5 [|x_ r_]]]]]]]; cbn [length] in *; try discriminate; try lia. unfold sind_P5, k_Segment_Poly5__indefinite. kred. reflexivity. Qed.
Lemma C11_P5_S2 : forall s k, wf_P5 s -> evI_P5 (sint_P5 s k) (fst k) = snd k.
Proof.
  intros [e cs] [kx ky] H. unfold wf_P5 in H. cbn [snd] in H. destruct cs as [|c0 [|c1 [|c2 [|c3 [|c4 [|c5 [|x_ r_]]]]]]]; cbn [length] in *; try discriminate; try lia.
  unfold evI_P5, sint_P5, k_Segment_Poly5__integral. kred. unfold k_Segment_Poly6__evaluate. kred. field.
Qed.
Lemma C11_P5_S3 : forall s k, wf_P5 s -> exists c, forall t, evI_P5 (sint_P5 s k) t = evI_P5 (sind_P5 s) t + c.
Proof.
  intros [e cs] [kx ky] H. unfold wf_P5 in H. cbn [snd] in H. destruct cs as [|c0 [|c1 [|c2 [|c3 [|c4 [|c5 [|x_ r_]]]]]]]; cbn [length] in *; try discriminate; try lia.
  exists (ky - evI_P5 (sind_P5 (e, [c0; c1; c2; c3; c4; c5])) kx). intros t.
  unfold evI_P5, sint_P5, sind_P5, k_Segment_Poly5__integral, k_Segment_Poly5__indefinite. kred. unfold k_Segment_Poly6__evaluate. kred. field.
Qed.
(* same breakpoints; first piece through the knot; adjacent pieces agree at every interior breakpoint; every piece is
   the indefinite integral of its source piece plus a constant; the telescoped value formula *)
Theorem C11_P5 : forall (segs : list (R * list R)) (k0 : R * R), List.Forall wf_P5 segs ->
  let r := integral_iter sint_P5 evI_P5 segs k0 in
  map fst r = map fst segs /\
  (forall l F G r', r = l ++ F :: G :: r' -> evI_P5 G (fst F) = evI_P5 F (fst F)) /\
  List.Forall2 (fun s F => exists c, forall t, evI_P5 F t = evI_P5 (sind_P5 s) t + c) segs r /\
  List.Forall2 (fun (sk : (R * list R) * (R * R)) F => forall t,
                  evI_P5 F t = snd (snd sk) + (evI_P5 (sind_P5 (fst sk)) t - evI_P5 (sind_P5 (fst sk)) (fst (snd sk))))
               (combine segs (knot_seq _ _ sind_P5 evI_P5 segs k0)) r.
Proof.
  intros segs k0 H. cbv zeta. repeat split.
  - apply iter_ends with (wf := wf_P5); [exact C11_P5_S1|exact H].
  - apply iter_continuous with (wf := wf_P5); [exact C11_P5_S2|exact H].
  - exact (@iter_antiderivative _ _ sint_P5 sind_P5 evI_P5 wf_P5 C11_P5_S3 segs k0 H).
  - exact (@iter_telescope _ _ sint_P5 sind_P5 evI_P5 wf_P5 C11_P5_S1 C11_P5_S2 C11_P5_S3 segs k0 H).
Qed.
Theorem C11_P5_first : forall s r k0, wf_P5 s ->
  match integral_iter sint_P5 evI_P5 (s :: r) k0 with F :: _ => evI_P5 F (fst k0) = snd k0 | [] => False end.
Proof. intros. apply iter_first with (wf := wf_P5); [exact C11_P5_S2|assumption]. Qed.
Theorem C11_P5_indefinite : forall s s2 r, wf_P5 s -> wf_P5 s2 -> List.Forall wf_P5 r ->
  match pw_indefinite sint_P5 sind_P5 evI_P5 (s :: s2 :: r) with
  | F0 :: F1 :: _ => F0 = sind_P5 s /\ evI_P5 F1 (fst F0) = evI_P5 F0 (fst F0)
  | _ => False end.
Proof.
  intros s s2 r Hs Hs2 Hr. split; [reflexivity|].
  apply indefinite_continuous with (wf := wf_P5) (r := r); [exact C11_P5_S2|exact Hs|exact Hs2|exact Hr].
Qed.

(* ---------------- Poly6 ---------------- *)
Definition wf_P6 (s : R * list R) : Prop := length (snd s) = 7%nat.
Definition sint_P6 (s : R * list R) (k : R * R) := kseg k_Segment_Poly6__integral s [fst k; snd k].
Definition sind_P6 (s : R * list R) := kseg k_Segment_Poly6__indefinite s [].
Definition evI_P6 := kev k_Segment_Poly7__evaluate.
Lemma C11_P6_S1 : forall s k, wf_P6 s -> fst (sint_P6 s k) = fst s.
Proof. intros [e cs] [kx ky] H. unfold wf_P6 in H. cbn [snd] in H. destruct cs as [|c0 [|c1 [|c2 [|c3 [|c4 [|c5 [|c6 [|x_ r_]]]]]]]]; cbn [length] in *; try discriminate; try lia. unfold sint_P6, k_Segment_Poly6__integral. kred. reflexivity. Qed.
Lemma C11_P6_S1i : forall s, wf_P6 s -> fst (sind_P6 s) = fst s.
Proof. intros [e cs] H. unfold wf_P6 in H. cbn [snd] in H. destruct cs as [|c0 [|c1 [|c2 [|c3 [|c4 [|c5 [|c6 [|x_ r_]]]]]]]]; cbn [length] in *; try discriminate; try lia. unfold sind_P6, k_Segment_Poly6__indefinite. kred. reflexivity. Qed.
Lemma C11_P6_S2 : forall s k, wf_P6 s -> evI_P6 (sint_P6 s k) (fst k) = snd k.
Proof.
  intros [e cs] [kx ky] H. unfold wf_P6 in H. cbn [snd] in H. destruct cs as [|c0 [|c1 [|c2 [|c3 [|c4 [|c5 [|c6 [|x_ r_]]]]]]]]; cbn [length] in *; try discriminate; try lia.
  unfold evI_P6, sint_P6, k_Segment_Poly6__integral. kred. unfold k_Segment_Poly7__evaluate. kred. field.
Qed.
Lemma C11_P6_S3 : forall s k, wf_P6 s -> exists c, forall t, evI_P6 (sint_P6 s k) t = evI_P6 (sind_P6 s) t + c.
Proof.
  intros [e cs] [kx ky] H. unfold wf_P6 in H. cbn [snd] in H. destruct cs as [|c0 [|c1 [|c2 [|c3 [|c4 [|c5 [|c6 [|x_ r_]]]]]]]]; cbn [length] in *; try discriminate; try lia.
  exists (ky - evI_P6 (sind_P6 (e, [c0; c1; c2; c3; c4; c5; c6])) kx). intros t.
  unfold evI_P6, sint_P6, sind_P6, k_Segment_Poly6__integral, k_Segment_Poly6__indefinite. kred. unfold k_Segment_Poly7__evaluate. kred. field.
Qed.
(* same breakpoints; first piece through the knot; adjacent pieces agree at every interior breakpoint; every piece is
   the indefinite integral of its source piece plus a constant; the telescoped value formula *)
Theorem C11_P6 : forall (segs : list (R * list R)) (k0 : R * R), List.Forall wf_P6 segs ->
  let r := integral_iter sint_P6 evI_P6 segs k0 in
  map fst r = map fst segs /\
  (forall l F G r', r = l ++ F :: G :: r' -> evI_P6 G (fst F) = evI_P6 F (fst F)) /\
  List.Forall2 (fun s F => exists c, forall t, evI_P6 F t = evI_P6 (sind_P6 s) t + c) segs r /\
  List.Forall2 (fun (sk : (R * list R) * (R * R)) F => forall t,
                  evI_P6 F t = snd (snd sk) + (evI_P6 (sind_P6 (fst sk)) t - evI_P6 (sind_P6 (fst sk)) (fst (snd sk))))
               (combine segs (knot_seq _ _ sind_P6 evI_P6 segs k0)) r.
Proof.
  intros segs k0 H. cbv zeta. repeat split.
  - apply iter_ends with (wf := wf_P6); [exact C11_P6_S1|exact H].
  - apply iter_continuous with (wf := wf_P6); [exact C11_P6_S2|exact H].
  - exact (@iter_antiderivative _ _ sint_P6 sind_P6 evI_P6 wf_P6 C11_P6_S3 segs k0 H).
  - exact (@iter_telescope _ _ sint_P6 sind_P6 evI_P6 wf_P6 C11_P6_S1 C11_P6_S2 C11_P6_S3 segs k0 H).
Qed.
Theorem C11_P6_first : forall s r k0, wf_P6 s ->
  match integral_iter sint_P6 evI_P6 (s :: r) k0 with F :: _ => evI_P6 F (fst k0) = snd k0 | [] => False end.
Proof. intros. apply iter_first with (wf := wf_P6); [exact C11_P6_S2|assumption]. Qed.
Theorem C11_P6_indefinite : forall s s2 r, wf_P6 s -> wf_P6 s2 -> List.Forall wf_P6 r ->
  match pw_indefinite sint_P6 sind_P6 evI_P6 (s :: s2 :: r) with
  | F0 :: F1 :: _ => F0 = sind_P6 s /\ evI_P6 F1 (fst F0) = evI_P6 F0 (fst F0)
  | _ => False end.
Proof.
  intros s s2 r Hs Hs2 Hr. split; [reflexivity|].
  apply indefinite_continuous with (wf := wf_P6) (r := r); [exact C11_P6_S2|exact Hs|exact Hs2|exact Hr].
Qed.

(* ---------------- Poly7 ---------------- *)
Definition wf_P7 (s : R * list R) : Prop := length (snd s) = 8%nat.
Definition sint_P7 (s : R * list R) (k : R * R) := kseg k_Segment_Poly7__integral s [fst k; snd k].
Definition sind_P7 (s : R * list R) := kseg k_Segment_Poly7__indefinite s [].
Definition evI_P7 := kev k_Segment_Poly8__evaluate.
Lemma C11_P7_S1 : forall s k, wf_P7 s -> fst (sint_P7 s k) = fst s.
Proof. intros [e cs] [kx ky] H. unfold wf_P7 in H. cbn [snd] in H. destruct cs as [|c0 [|c1 [|c2 [|c3 [|c4 [|c5 [|c6 [|c7 [|x_ r_]]]]]]]]]; cbn [length] in *; try discriminate; try lia. unfold sint_P7, k_Segment_Poly7__integral. kred. reflexivity. Qed.
Lemma C11_P7_S1i : forall s, wf_P7 s -> fst (sind_P7 s) = fst s.
Proof. intros [e cs] H. unfold wf_P7 in H. cbn [snd] in H. destruct cs as [|c0 [|c1 [|c2 [|c3 [|c4 [|c5 [|c6 [|c7 [|x_ r_]]]]]]]]]; cbn [length] in *; try discriminate; try lia. unfold sind_P7, k_Segment_Poly7__indefinite. kred. reflexivity. Qed.
Lemma C11_P7_S2 : forall s k, wf_P7 s -> evI_P7 (sint_P7 s k) (fst k) = snd k.
Proof.
  intros [e cs] [kx ky] H. unfold wf_P7 in H. cbn [snd] in H. destruct cs as [|c0 [|c1 [|c2 [|c3 [|c4 [|c5 [|c6 [|c7 [|x_ r_]]]]]]]]]; cbn [length] in *; try discriminate; try lia.
  unfold evI_P7, sint_P7, k_Segment_Poly7__integral. kred. unfold k_Segment_Poly8__evaluate. kred. field.
Qed.
Lemma C11_P7_S3 : forall s k, wf_P7 s -> exists c, forall t, evI_P7 (sint_P7 s k) t = evI_P7 (sind_P7 s) t + c.
Proof.
  intros [e cs] [kx ky] H. unfold wf_P7 in H. cbn [snd] in H. destruct cs as [|c0 [|c1 [|c2 [|c3 [|c4 [|c5 [|c6 [|c7 [|x_ r_]]]]]]]]]; cbn [length] in *; try discriminate; try lia.
  exists (ky - evI_P7 (sind_P7 (e, [c0; c1; c2; c3; c4; c5; c6; c7])) kx). intros t.
  unfold evI_P7, sint_P7, sind_P7, k_Segment_Poly7__integral, k_Segment_Poly7__indefinite. kred. unfold k_Segment_Poly8__evaluate. kred. field.
Qed.
(* same breakpoints; first piece through the knot; adjacent pieces agree at every interior breakpoint; every piece is
   the indefinite integral of its source piece plus a constant; the telescoped value formula *)
Theorem C11_P7 : forall (segs : list (R * list R)) (k0 : R * R), List.Forall wf_P7 segs ->
  let r := integral_iter sint_P7 evI_P7 segs k0 in
  map fst r = map fst segs /\
  (forall l F G r', r = l ++ F :: G :: r' -> evI_P7 G (fst F) = evI_P7 F (fst F)) /\
  List.Forall2 (fun s F => exists c, forall t, evI_P7 F t = evI_P7 (sind_P7 s) t + c) segs r /\
  List.Forall2 (fun (sk : (R * list R) * (R * R)) F => forall t,
                  evI_P7 F t = snd (snd sk) + (evI_P7 (sind_P7 (fst sk)) t - evI_P7 (sind_P7 (fst sk)) (fst (snd sk))))
               (combine segs (knot_seq _ _ sind_P7 evI_P7 segs k0)) r.
Proof.
  intros segs k0 H. cbv zeta. repeat split.
  - apply iter_ends with (wf := wf_P7); [exact C11_P7_S1|exact H].
  - apply iter_continuous with (wf := wf_P7); [exact C11_P7_S2|exact H].
  - exact (@iter_antiderivative _ _ sint_P7 sind_P7 evI_P7 wf_P7 C11_P7_S3 segs k0 H).
  - exact (@iter_telescope _ _ sint_P7 sind_P7 evI_P7 wf_P7 C11_P7_S1 C11_P7_S2 C11_P7_S3 segs k0 H).
Qed.
Theorem C11_P7_first : forall s r k0, wf_P7 s ->
  match integral_iter sint_P7 evI_P7 (s :: r) k0 with F :: _ => evI_P7 F (fst k0) = snd k0 | [] => False end.
Proof. intros. apply iter_first with (wf := wf_P7); [exact C11_P7_S2|assumption]. Qed.
Theorem C11_P7_indefinite : forall s s2 r, wf_P7 s -> wf_P7 s2 -> List.Forall wf_P7 r ->
  match pw_indefinite sint_P7 sind_P7 evI_P7 (s :: s2 :: r) with
  | F0 :: F1 :: _ => F0 = sind_P7 s /\ evI_P7 F1 (fst F0) = evI_P7 F0 (fst F0)
  | _ => False end.
Proof.
  intros s s2 r Hs Hs2 Hr. split; [reflexivity|].
  apply indefinite_continuous with (wf := wf_P7) (r := r); [exact C11_P7_S2|exact Hs|exact Hs2|exact Hr].
Qed.

(* ---------------- Log<Poly0> ---------------- *)
Definition wf_L0 (s : R * list R) : Prop := length (snd s) = 1%nat.
Definition sint_L0 (s : R * list R) (k : R * R) := kseg k_Segment_Log_Poly0__integral s [fst k; snd k].
Definition sind_L0 (s : R * list R) := kseg k_Segment_Log_Poly0__indefinite s [].
Definition evI_L0 := kev k_Segment_IntOfLog_Poly0__evaluate.
Lemma C11_L0_S1 : forall s k, wf_L0 s -> fst (sint_L0 s k) = fst s.
Proof. intros [e cs] [kx ky] H. unfold wf_L0 in H. cbn [snd] in H. destruct cs as [|c0 [|x_ r_]]; cbn [length] in *; try discriminate; try lia. unfold sint_L0, k_Segment_Log_Poly0__integral. kred. reflexivity. Qed.
Lemma C11_L0_S1i : forall s, wf_L0 s -> fst (sind_L0 s) = fst s.
Proof. intros [e cs] H. unfold wf_L0 in H. cbn [snd] in H. destruct cs as [|c0 [|x_ r_]]; cbn [length] in *; try discriminate; try lia. unfold sind_L0, k_Segment_Log_Poly0__indefinite. kred. reflexivity. Qed.
Lemma C11_L0_S2 : forall s k, wf_L0 s -> evI_L0 (sint_L0 s k) (fst k) = snd k.
Proof.
  intros [e cs] [kx ky] H. unfold wf_L0 in H. cbn [snd] in H. destruct cs as [|c0 [|x_ r_]]; cbn [length] in *; try discriminate; try lia.
  unfold evI_L0, sint_L0, k_Segment_Log_Poly0__integral. kred. unfold k_Segment_IntOfLog_Poly0__evaluate. kred. ring.
Qed.
Lemma C11_L0_S3 : forall s k, wf_L0 s -> exists c, forall t, evI_L0 (sint_L0 s k) t = evI_L0 (sind_L0 s) t + c.
Proof.
  intros [e cs] [kx ky] H. unfold wf_L0 in H. cbn [snd] in H. destruct cs as [|c0 [|x_ r_]]; cbn [length] in *; try discriminate; try lia.
  exists (ky - evI_L0 (sind_L0 (e, [c0])) kx). intros t.
  unfold evI_L0, sint_L0, sind_L0, k_Segment_Log_Poly0__integral, k_Segment_Log_Poly0__indefinite. kred. unfold k_Segment_IntOfLog_Poly0__evaluate. kred. ring.
Qed.
(* same breakpoints; first piece through the knot; adjacent pieces agree at every interior breakpoint; every piece is
   the indefinite integral of its source piece plus a constant; the telescoped value formula *)
Theorem C11_L0 : forall (segs : list (R * list R)) (k0 : R * R), List.Forall wf_L0 segs ->
  let r := integral_iter sint_L0 evI_L0 segs k0 in
  map fst r = map fst segs /\
  (forall l F G r', r = l ++ F :: G :: r' -> evI_L0 G (fst F) = evI_L0 F (fst F)) /\
  List.Forall2 (fun s F => exists c, forall t, evI_L0 F t = evI_L0 (sind_L0 s) t + c) segs r /\
  List.Forall2 (fun (sk : (R * list R) * (R * R)) F => forall t,
                  evI_L0 F t = snd (snd sk) + (evI_L0 (sind_L0 (fst sk)) t - evI_L0 (sind_L0 (fst sk)) (fst (snd sk))))
               (combine segs (knot_seq _ _ sind_L0 evI_L0 segs k0)) r.
Proof.
  intros segs k0 H. cbv zeta. repeat split.
  - apply iter_ends with (wf := wf_L0); [exact C11_L0_S1|exact H].
  - apply iter_continuous with (wf := wf_L0); [exact C11_L0_S2|exact H].
  - exact (@iter_antiderivative _ _ sint_L0 sind_L0 evI_L0 wf_L0 C11_L0_S3 segs k0 H).
  - exact (@iter_telescope _ _ sint_L0 sind_L0 evI_L0 wf_L0 C11_L0_S1 C11_L0_S2 C11_L0_S3 segs k0 H).
Qed.
Theorem C11_L0_first : forall s r k0, wf_L0 s ->
  match integral_iter sint_L0 evI_L0 (s :: r) k0 with F :: _ => evI_L0 F (fst k0) = snd k0 | [] => False end.
Proof. intros. apply iter_first with (wf := wf_L0); [exact C11_L0_S2|assumption]. Qed.
Theorem C11_L0_indefinite : forall s s2 r, wf_L0 s -> wf_L0 s2 -> List.Forall wf_L0 r ->
  match pw_indefinite sint_L0 sind_L0 evI_L0 (s :: s2 :: r) with
  | F0 :: F1 :: _ => F0 = sind_L0 s /\ evI_L0 F1 (fst F0) = evI_L0 F0 (fst F0)
  | _ => False end.
Proof.
  intros s s2 r Hs Hs2 Hr. split; [reflexivity|].
  apply indefinite_continuous with (wf := wf_L0) (r := r); [exact C11_L0_S2|exact Hs|exact Hs2|exact Hr].
Qed.

(* ---------------- Log<Poly1> ---------------- *)
Definition wf_L1 (s : R * list R) : Prop := length (snd s) = 2%nat.
Definition sint_L1 (s : R * list R) (k : R * R) := kseg k_Segment_Log_Poly1__integral s [fst k; snd k].
Definition sind_L1 (s : R * list R) := kseg k_Segment_Log_Poly1__indefinite s [].
Definition evI_L1 := kev k_Segment_IntOfLog_Poly1__evaluate.
Lemma C11_L1_S1 : forall s k, wf_L1 s -> fst (sint_L1 s k) = fst s.
Proof. intros [e cs] [kx ky] H. unfold wf_L1 in H. cbn [snd] in H. destruct cs as [|c0 [|c1 [|x_ r_]]]; cbn [length] in *; try discriminate; try lia. unfold sint_L1, k_Segment_Log_Poly1__integral. kred. reflexivity. Qed.
Lemma C11_L1_S1i : forall s, wf_L1 s -> fst (sind_L1 s) = fst s.
Proof. intros [e cs] H. unfold wf_L1 in H. cbn [snd] in H. destruct cs as [|c0 [|c1 [|x_ r_]]]; cbn [length] in *; try discriminate; try lia. unfold sind_L1, k_Segment_Log_Poly1__indefinite. kred. reflexivity. Qed.
Lemma C11_L1_S2 : forall s k, wf_L1 s -> evI_L1 (sint_L1 s k) (fst k) = snd k.
Proof.
  intros [e cs] [kx ky] H. unfold wf_L1 in H. cbn [snd] in H. destruct cs as [|c0 [|c1 [|x_ r_]]]; cbn [length] in *; try discriminate; try lia.
  unfold evI_L1, sint_L1, k_Segment_Log_Poly1__integral. kred. unfold k_Segment_IntOfLog_Poly1__evaluate. kred. ring.
Qed.
Lemma C11_L1_S3 : forall s k, wf_L1 s -> exists c, forall t, evI_L1 (sint_L1 s k) t = evI_L1 (sind_L1 s) t + c.
Proof.
  intros [e cs] [kx ky] H. unfold wf_L1 in H. cbn [snd] in H. destruct cs as [|c0 [|c1 [|x_ r_]]]; cbn [length] in *; try discriminate; try lia.
  exists (ky - evI_L1 (sind_L1 (e, [c0; c1])) kx). intros t.
  unfold evI_L1, sint_L1, sind_L1, k_Segment_Log_Poly1__integral, k_Segment_Log_Poly1__indefinite. kred. unfold k_Segment_IntOfLog_Poly1__evaluate. kred. ring.
Qed.
(* same breakpoints; first piece through the knot; adjacent pieces agree at every interior breakpoint; every piece is
   the indefinite integral of its source piece plus a constant; the telescoped value formula *)
Theorem C11_L1 : forall (segs : list (R * list R)) (k0 : R * R), List.Forall wf_L1 segs ->
  let r := integral_iter sint_L1 evI_L1 segs k0 in
  map fst r = map fst segs /\
  (forall l F G r', r = l ++ F :: G :: r' -> evI_L1 G (fst F) = evI_L1 F (fst F)) /\
  List.Forall2 (fun s F => exists c, forall t, evI_L1 F t = evI_L1 (sind_L1 s) t + c) segs r /\
  List.Forall2 (fun (sk : (R * list R) * (R * R)) F => forall t,
                  evI_L1 F t = snd (snd sk) + (evI_L1 (sind_L1 (fst sk)) t - evI_L1 (sind_L1 (fst sk)) (fst (snd sk))))
               (combine segs (knot_seq _ _ sind_L1 evI_L1 segs k0)) r.
Proof.
  intros segs k0 H. cbv zeta. repeat split.
  - apply iter_ends with (wf := wf_L1); [exact C11_L1_S1|exact H].
  - apply iter_continuous with (wf := wf_L1); [exact C11_L1_S2|exact H].
  - exact (@iter_antiderivative _ _ sint_L1 sind_L1 evI_L1 wf_L1 C11_L1_S3 segs k0 H).
  - exact (@iter_telescope _ _ sint_L1 sind_L1 evI_L1 wf_L1 C11_L1_S1 C11_L1_S2 C11_L1_S3 segs k0 H).
Qed.
Theorem C11_L1_first : forall s r k0, wf_L1 s ->
  match integral_iter sint_L1 evI_L1 (s :: r) k0 with F :: _ => evI_L1 F (fst k0) = snd k0 | [] => False end.
Proof. intros. apply iter_first with (wf := wf_L1); [exact C11_L1_S2|assumption]. Qed.
Theorem C11_L1_indefinite : forall s s2 r, wf_L1 s -> wf_L1 s2 -> List.Forall wf_L1 r ->
  match pw_indefinite sint_L1 sind_L1 evI_L1 (s :: s2 :: r) with
  | F0 :: F1 :: _ => F0 = sind_L1 s /\ evI_L1 F1 (fst F0) = evI_L1 F0 (fst F0)
  | _ => False end.
Proof.
  intros s s2 r Hs Hs2 Hr. split; [reflexivity|].
  apply indefinite_continuous with (wf := wf_L1) (r := r); [exact C11_L1_S2|exact Hs|exact Hs2|exact Hr].
Qed.

(* ---------------- Log<Poly2> ---------------- *)
Definition wf_L2 (s : R * list R) : Prop := length (snd s) = 3%nat.
Definition sint_L2 (s : R * list R) (k : R * R) := kseg k_Segment_Log_Poly2__integral s [fst k; snd k].
Definition sind_L2 (s : R * list R) := kseg k_Segment_Log_Poly2__indefinite s [].
Definition evI_L2 := kev k_Segment_IntOfLog_Poly2__evaluate.
Lemma C11_L2_S1 : forall s k, wf_L2 s -> fst (sint_L2 s k) = fst s.
Proof. intros [e cs] [kx ky] H. unfold wf_L2 in H. cbn [snd] in H. destruct cs as [|c0 [|c1 [|c2 [|x_ r_]]]]; cbn [length] in *; try discriminate; try lia. unfold sint_L2, k_Segment_Log_Poly2__integral. kred. reflexivity. Qed.
Lemma C11_L2_S1i : forall s, wf_L2 s -> fst (sind_L2 s) = fst s.
Proof. intros [e cs] H. unfold wf_L2 in H. cbn [snd] in H. destruct cs as [|c0 [|c1 [|c2 [|x_ r_]]]]; cbn [length] in *; try discriminate; try lia. unfold sind_L2, k_Segment_Log_Poly2__indefinite. kred. reflexivity. Qed.
Lemma C11_L2_S2 : forall s k, wf_L2 s -> evI_L2 (sint_L2 s k) (fst k) = snd k.
Proof.
  intros [e cs] [kx ky] H. unfold wf_L2 in H. cbn [snd] in H. destruct cs as [|c0 [|c1 [|c2 [|x_ r_]]]]; cbn [length] in *; try discriminate; try lia.
  unfold evI_L2, sint_L2, k_Segment_Log_Poly2__integral. kred. unfold k_Segment_IntOfLog_Poly2__evaluate. kred. ring.
Qed.
Lemma C11_L2_S3 : forall s k, wf_L2 s -> exists c, forall t, evI_L2 (sint_L2 s k) t = evI_L2 (sind_L2 s) t + c.
Proof.
  intros [e cs] [kx ky] H. unfold wf_L2 in H. cbn [snd] in H. destruct cs as [|c0 [|c1 [|c2 [|x_ r_]]]]; cbn [length] in *; try discriminate; try lia.
  exists (ky - evI_L2 (sind_L2 (e, [c0; c1; c2])) kx). intros t.
  unfold evI_L2, sint_L2, sind_L2, k_Segment_Log_Poly2__integral, k_Segment_Log_Poly2__indefinite. kred. unfold k_Segment_IntOfLog_Poly2__evaluate. kred. ring.
Qed.
(* same breakpoints; first piece through the knot; adjacent pieces agree at every interior breakpoint; every piece is
   the indefinite integral of its source piece plus a constant; the telescoped value formula *)
Theorem C11_L2 : forall (segs : list (R * list R)) (k0 : R * R), List.Forall wf_L2 segs ->
  let r := integral_iter sint_L2 evI_L2 segs k0 in
  map fst r = map fst segs /\
  (forall l F G r', r = l ++ F :: G :: r' -> evI_L2 G (fst F) = evI_L2 F (fst F)) /\
  List.Forall2 (fun s F => exists c, forall t, evI_L2 F t = evI_L2 (sind_L2 s) t + c) segs r /\
  List.Forall2 (fun (sk : (R * list R) * (R * R)) F => forall t,
                  evI_L2 F t = snd (snd sk) + (evI_L2 (sind_L2 (fst sk)) t - evI_L2 (sind_L2 (fst sk)) (fst (snd sk))))
               (combine segs (knot_seq _ _ sind_L2 evI_L2 segs k0)) r.
Proof.
  intros segs k0 H. cbv zeta. repeat split.
  - apply iter_ends with (wf := wf_L2); [exact C11_L2_S1|exact H].
  - apply iter_continuous with (wf := wf_L2); [exact C11_L2_S2|exact H].
  - exact (@iter_antiderivative _ _ sint_L2 sind_L2 evI_L2 wf_L2 C11_L2_S3 segs k0 H).
  - exact (@iter_telescope _ _ sint_L2 sind_L2 evI_L2 wf_L2 C11_L2_S1 C11_L2_S2 C11_L2_S3 segs k0 H).
Qed.
Theorem C11_L2_first : forall s r k0, wf_L2 s ->
  match integral_iter sint_L2 evI_L2 (s :: r) k0 with F :: _ => evI_L2 F (fst k0) = snd k0 | [] => False end.
Proof. intros. apply iter_first with (wf := wf_L2); [exact C11_L2_S2|assumption]. Qed.
Theorem C11_L2_indefinite : forall s s2 r, wf_L2 s -> wf_L2 s2 -> List.Forall wf_L2 r ->
  match pw_indefinite sint_L2 sind_L2 evI_L2 (s :: s2 :: r) with
  | F0 :: F1 :: _ => F0 = sind_L2 s /\ evI_L2 F1 (fst F0) = evI_L2 F0 (fst F0)
  | _ => False end.
Proof.
  intros s s2 r Hs Hs2 Hr. split; [reflexivity|].
  apply indefinite_continuous with (wf := wf_L2) (r := r); [exact C11_L2_S2|exact Hs|exact Hs2|exact Hr].
Qed.

(* ---------------- Log<Poly3> ---------------- *)
Definition wf_L3 (s : R * list R) : Prop := length (snd s) = 4%nat.
Definition sint_L3 (s : R * list R) (k : R * R) := kseg k_Segment_Log_Poly3__integral s [fst k; snd k].
Definition sind_L3 (s : R * list R) := kseg k_Segment_Log_Poly3__indefinite s [].
Definition evI_L3 := kev k_Segment_IntOfLog_Poly3__evaluate.
Lemma C11_L3_S1 : forall s k, wf_L3 s -> fst (sint_L3 s k) = fst s.
Proof. intros [e cs] [kx ky] H. unfold wf_L3 in H. cbn [snd] in H. destruct cs as [|c0 [|c1 [|c2 [|c3 [|x_ r_]]]]]; cbn [length] in *; try discriminate; try lia. unfold sint_L3, k_Segment_Log_Poly3__integral. kred. reflexivity. Qed.
Lemma C11_L3_S1i : forall s, wf_L3 s -> fst (sind_L3 s) = fst s.
Proof. intros [e cs] H. unfold wf_L3 in H. cbn [snd] in H. destruct cs as [|c0 [|c1 [|c2 [|c3 [|x_ r_]]]]]; cbn [length] in *; try discriminate; try lia. unfold sind_L3, k_Segment_Log_Poly3__indefinite. kred. reflexivity. Qed.
Lemma C11_L3_S2 : forall s k, wf_L3 s -> evI_L3 (sint_L3 s k) (fst k) = snd k.
Proof.
  intros [e cs] [kx ky] H. unfold wf_L3 in H. cbn [snd] in H. destruct cs as [|c0 [|c1 [|c2 [|c3 [|x_ r_]]]]]; cbn [length] in *; try discriminate; try lia.
  unfold evI_L3, sint_L3, k_Segment_Log_Poly3__integral. kred. unfold k_Segment_IntOfLog_Poly3__evaluate. kred. ring.
Qed.
Lemma C11_L3_S3 : forall s k, wf_L3 s -> exists c, forall t, evI_L3 (sint_L3 s k) t = evI_L3 (sind_L3 s) t + c.
Proof.
  intros [e cs] [kx ky] H. unfold wf_L3 in H. cbn [snd] in H. destruct cs as [|c0 [|c1 [|c2 [|c3 [|x_ r_]]]]]; cbn [length] in *; try discriminate; try lia.
  exists (ky - evI_L3 (sind_L3 (e, [c0; c1; c2; c3])) kx). intros t.
  unfold evI_L3, sint_L3, sind_L3, k_Segment_Log_Poly3__integral, k_Segment_Log_Poly3__indefinite. kred. unfold k_Segment_IntOfLog_Poly3__evaluate. kred. ring.
Qed.
(* same breakpoints; first piece through the knot; adjacent pieces agree at every interior breakpoint; every piece is
   the indefinite integral of its source piece plus a constant; the telescoped value formula *)
Theorem C11_L3 : forall (segs : list (R * list R)) (k0 : R * R), List.Forall wf_L3 segs ->
  let r := integral_iter sint_L3 evI_L3 segs k0 in
  map fst r = map fst segs /\
  (forall l F G r', r = l ++ F :: G :: r' -> evI_L3 G (fst F) = evI_L3 F (fst F)) /\
  List.Forall2 (fun s F => exists c, forall t, evI_L3 F t = evI_L3 (sind_L3 s) t + c) segs r /\
  List.Forall2 (fun (sk : (R * list R) * (R * R)) F => forall t,
                  evI_L3 F t = snd (snd sk) + (evI_L3 (sind_L3 (fst sk)) t - evI_L3 (sind_L3 (fst sk)) (fst (snd sk))))
               (combine segs (knot_seq _ _ sind_L3 evI_L3 segs k0)) r.
Proof.
  intros segs k0 H. cbv zeta. repeat split.
  - apply iter_ends with (wf := wf_L3); [exact C11_L3_S1|exact H].
  - apply iter_continuous with (wf := wf_L3); [exact C11_L3_S2|exact H].
  - exact (@iter_antiderivative _ _ sint_L3 sind_L3 evI_L3 wf_L3 C11_L3_S3 segs k0 H).
  - exact (@iter_telescope _ _ sint_L3 sind_L3 evI_L3 wf_L3 C11_L3_S1 C11_L3_S2 C11_L3_S3 segs k0 H).
Qed.
Theorem C11_L3_first : forall s r k0, wf_L3 s ->
  match integral_iter sint_L3 evI_L3 (s :: r) k0 with F :: _ => evI_L3 F (fst k0) = snd k0 | [] => False end.
Proof. intros. apply iter_first with (wf := wf_L3); [exact C11_L3_S2|assumption]. Qed.
Theorem C11_L3_indefinite : forall s s2 r, wf_L3 s -> wf_L3 s2 -> List.Forall wf_L3 r ->
  match pw_indefinite sint_L3 sind_L3 evI_L3 (s :: s2 :: r) with
  | F0 :: F1 :: _ => F0 = sind_L3 s /\ evI_L3 F1 (fst F0) = evI_L3 F0 (fst F0)
  | _ => False end.
Proof.
  intros s s2 r Hs Hs2 Hr. split; [reflexivity|].
  apply indefinite_continuous with (wf := wf_L3) (r := r); [exact C11_L3_S2|exact Hs|exact Hs2|exact Hr].
Qed.

(* ---------------- Log<Poly4> ---------------- *)
Definition wf_L4 (s : R * list R) : Prop := length (snd s) = 5%nat.
Definition sint_L4 (s : R * list R) (k : R * R) := kseg k_Segment_Log_Poly4__integral s [fst k; snd k].
Definition sind_L4 (s : R * list R) := kseg k_Segment_Log_Poly4__indefinite s [].
Definition evI_L4 := kev k_Segment_IntOfLogPoly4__evaluate.
Lemma C11_L4_S1 : forall s k, wf_L4 s -> fst (sint_L4 s k) = fst s.
Proof. intros [e cs] [kx ky] H. unfold wf_L4 in H. cbn [snd] in H. destruct cs as [|c0 [|c1 [|c2 [|c3 [|c4 [|x_ r_]]]]]]; cbn [length] in *; try discriminate; try lia. unfold sint_L4, k_Segment_Log_Poly4__integral. kred. reflexivity. Qed.
Lemma C11_L4_S1i : forall s, wf_L4 s -> fst (sind_L4 s) = fst s.
Proof. intros [e cs] H. unfold wf_L4 in H. cbn [snd] in H. destruct cs as [|c0 [|c1 [|c2 [|c3 [|c4 [|x_ r_]]]]]]; cbn [length] in *; try discriminate; try lia. unfold sind_L4, k_Segment_Log_Poly4__indefinite. kred. reflexivity. Qed.
Lemma C11_L4_S2 : forall s k, wf_L4 s -> evI_L4 (sint_L4 s k) (fst k) = snd k.
Proof.
  intros [e cs] [kx ky] H. unfold wf_L4 in H. cbn [snd] in H. destruct cs as [|c0 [|c1 [|c2 [|c3 [|c4 [|x_ r_]]]]]]; cbn [length] in *; try discriminate; try lia.
  unfold evI_L4, sint_L4, k_Segment_Log_Poly4__integral. kred. unfold k_Segment_IntOfLogPoly4__evaluate. kred. field.
Qed.
Lemma C11_L4_S3 : forall s k, wf_L4 s -> exists c, forall t, evI_L4 (sint_L4 s k) t = evI_L4 (sind_L4 s) t + c.
Proof.
  intros [e cs] [kx ky] H. unfold wf_L4 in H. cbn [snd] in H. destruct cs as [|c0 [|c1 [|c2 [|c3 [|c4 [|x_ r_]]]]]]; cbn [length] in *; try discriminate; try lia.
  exists (ky - evI_L4 (sind_L4 (e, [c0; c1; c2; c3; c4])) kx). intros t.
  unfold evI_L4, sint_L4, sind_L4, k_Segment_Log_Poly4__integral, k_Segment_Log_Poly4__indefinite. kred. unfold k_Segment_IntOfLogPoly4__evaluate. kred. field.
Qed.
(* same breakpoints; first piece through the knot; adjacent pieces agree at every interior breakpoint; every piece is
   the indefinite integral of its source piece plus a constant; the telescoped value formula *)
Theorem C11_L4 : forall (segs : list (R * list R)) (k0 : R * R), List.Forall wf_L4 segs ->
  let r := integral_iter sint_L4 evI_L4 segs k0 in
  map fst r = map fst segs /\
  (forall l F G r', r = l ++ F :: G :: r' -> evI_L4 G (fst F) = evI_L4 F (fst F)) /\
  List.Forall2 (fun s F => exists c, forall t, evI_L4 F t = evI_L4 (sind_L4 s) t + c) segs r /\
  List.Forall2 (fun (sk : (R * list R) * (R * R)) F => forall t,
                  evI_L4 F t = snd (snd sk) + (evI_L4 (sind_L4 (fst sk)) t - evI_L4 (sind_L4 (fst sk)) (fst (snd sk))))
               (combine segs (knot_seq _ _ sind_L4 evI_L4 segs k0)) r.
Proof.
  intros segs k0 H. cbv zeta. repeat split.
  - apply iter_ends with (wf := wf_L4); [exact C11_L4_S1|exact H].
  - apply iter_continuous with (wf := wf_L4); [exact C11_L4_S2|exact H].
  - exact (@iter_antiderivative _ _ sint_L4 sind_L4 evI_L4 wf_L4 C11_L4_S3 segs k0 H).
  - exact (@iter_telescope _ _ sint_L4 sind_L4 evI_L4 wf_L4 C11_L4_S1 C11_L4_S2 C11_L4_S3 segs k0 H).
Qed.
Theorem C11_L4_first : forall s r k0, wf_L4 s ->
  match integral_iter sint_L4 evI_L4 (s :: r) k0 with F :: _ => evI_L4 F (fst k0) = snd k0 | [] => False end.
Proof. intros. apply iter_first with (wf := wf_L4); [exact C11_L4_S2|assumption]. Qed.
Theorem C11_L4_indefinite : forall s s2 r, wf_L4 s -> wf_L4 s2 -> List.Forall wf_L4 r ->
  match pw_indefinite sint_L4 sind_L4 evI_L4 (s :: s2 :: r) with
  | F0 :: F1 :: _ => F0 = sind_L4 s /\ evI_L4 F1 (fst F0) = evI_L4 F0 (fst F0)
  | _ => False end.
Proof.
  intros s s2 r Hs Hs2 Hr. split; [reflexivity|].
  apply indefinite_continuous with (wf := wf_L4) (r := r); [exact C11_L4_S2|exact Hs|exact Hs2|exact Hr].
Qed.

(* ---------------- Log<Poly5> ---------------- *)
Definition wf_L5 (s : R * list R) : Prop := length (snd s) = 6%nat.
Definition sint_L5 (s : R * list R) (k : R * R) := kseg k_Segment_Log_Poly5__integral s [fst k; snd k].
Definition sind_L5 (s : R * list R) := kseg k_Segment_Log_Poly5__indefinite s [].
Definition evI_L5 := kev k_Segment_IntOfLog_Poly5__evaluate.
Lemma C11_L5_S1 : forall s k, wf_L5 s -> fst (sint_L5 s k) = fst s.
Proof. intros [e cs] [kx ky] H. unfold wf_L5 in H. cbn [snd] in H. destruct cs as [|c0 [|c1 [|c2 [|c3 [|c4 [|c5 [|x_ r_]]]]]]]; cbn [length] in *; try discriminate; try lia. unfold sint_L5, k_Segment_Log_Poly5__integral. kred. reflexivity. Qed.
Lemma C11_L5_S1i : forall s, wf_L5 s -> fst (sind_L5 s) = fst s.
Proof. intros [e cs] H. unfold wf_L5 in H. cbn [snd] in H. destruct cs as [|c0 [|c1 [|c2 [|c3 [|c4 [|c5 [|x_ r_]]]]]]]; cbn [length] in *; try discriminate; try lia. unfold sind_L5, k_Segment_Log_Poly5__indefinite. kred. reflexivity. Qed.
Lemma C11_L5_S2 : forall s k, wf_L5 s -> evI_L5 (sint_L5 s k) (fst k) = snd k.
Proof.
  intros [e cs] [kx ky] H. unfold wf_L5 in H. cbn [snd] in H. destruct cs as [|c0 [|c1 [|c2 [|c3 [|c4 [|c5 [|x_ r_]]]]]]]; cbn [length] in *; try discriminate; try lia.
  unfold evI_L5, sint_L5, k_Segment_Log_Poly5__integral. kred. unfold k_Segment_IntOfLog_Poly5__evaluate. kred. ring.
Qed.
Lemma C11_L5_S3 : forall s k, wf_L5 s -> exists c, forall t, evI_L5 (sint_L5 s k) t = evI_L5 (sind_L5 s) t + c.
Proof.
  intros [e cs] [kx ky] H. unfold wf_L5 in H. cbn [snd] in H. destruct cs as [|c0 [|c1 [|c2 [|c3 [|c4 [|c5 [|x_ r_]]]]]]]; cbn [length] in *; try discriminate; try lia.
  exists (ky - evI_L5 (sind_L5 (e, [c0; c1; c2; c3; c4; c5])) kx). intros t.
  unfold evI_L5, sint_L5, sind_L5, k_Segment_Log_Poly5__integral, k_Segment_Log_Poly5__indefinite. kred. unfold k_Segment_IntOfLog_Poly5__evaluate. kred. ring.
Qed.
(* same breakpoints; first piece through the knot; adjacent pieces agree at every interior breakpoint; every piece is
   the indefinite integral of its source piece plus a constant; the telescoped value formula *)
Theorem C11_L5 : forall (segs : list (R * list R)) (k0 : R * R), List.Forall wf_L5 segs ->
  let r := integral_iter sint_L5 evI_L5 segs k0 in
  map fst r = map fst segs /\
  (forall l F G r', r = l ++ F :: G :: r' -> evI_L5 G (fst F) = evI_L5 F (fst F)) /\
  List.Forall2 (fun s F => exists c, forall t, evI_L5 F t = evI_L5 (sind_L5 s) t + c) segs r /\
  List.Forall2 (fun (sk : (R * list R) * (R * R)) F => forall t,
                  evI_L5 F t = snd (snd sk) + (evI_L5 (sind_L5 (fst sk)) t - evI_L5 (sind_L5 (fst sk)) (fst (snd sk))))
               (combine segs (knot_seq _ _ sind_L5 evI_L5 segs k0)) r.
Proof.
  intros segs k0 H. cbv zeta. repeat split.
  - apply iter_ends with (wf := wf_L5); [exact C11_L5_S1|exact H].
  - apply iter_continuous with (wf := wf_L5); [exact C11_L5_S2|exact H].
  - exact (@iter_antiderivative _ _ sint_L5 sind_L5 evI_L5 wf_L5 C11_L5_S3 segs k0 H).
  - exact (@iter_telescope _ _ sint_L5 sind_L5 evI_L5 wf_L5 C11_L5_S1 C11_L5_S2 C11_L5_S3 segs k0 H).
Qed.
Theorem C11_L5_first : forall s r k0, wf_L5 s ->
  match integral_iter sint_L5 evI_L5 (s :: r) k0 with F :: _ => evI_L5 F (fst k0) = snd k0 | [] => False end.
Proof. intros. apply iter_first with (wf := wf_L5); [exact C11_L5_S2|assumption]. Qed.
Theorem C11_L5_indefinite : forall s s2 r, wf_L5 s -> wf_L5 s2 -> List.Forall wf_L5 r ->
  match pw_indefinite sint_L5 sind_L5 evI_L5 (s :: s2 :: r) with
  | F0 :: F1 :: _ => F0 = sind_L5 s /\ evI_L5 F1 (fst F0) = evI_L5 F0 (fst F0)
  | _ => False end.
Proof.
  intros s s2 r Hs Hs2 Hr. split; [reflexivity|].
  apply indefinite_continuous with (wf := wf_L5) (r := r); [exact C11_L5_S2|exact Hs|exact Hs2|exact Hr].
Qed.

(* ---------------- Log<Poly6> ---------------- *)
Definition wf_L6 (s : R * list R) : Prop := length (snd s) = 7%nat.
Definition sint_L6 (s : R * list R) (k : R * R) := kseg k_Segment_Log_Poly6__integral s [fst k; snd k].
Definition sind_L6 (s : R * list R) := kseg k_Segment_Log_Poly6__indefinite s [].
Definition evI_L6 := kev k_Segment_IntOfLog_Poly6__evaluate.
Lemma C11_L6_S1 : forall s k, wf_L6 s -> fst (sint_L6 s k) = fst s.
Proof. intros [e cs] [kx ky] H. unfold wf_L6 in H. cbn [snd] in H. destruct cs as [|c0 [|c1 [|c2 [|c3 [|c4 [|c5 [|c6 [|x_ r_]]]]]]]]; cbn [length] in *; try discriminate; try lia. unfold sint_L6, k_Segment_Log_Poly6__integral. kred. reflexivity. Qed.
Lemma C11_L6_S1i : forall s, wf_L6 s -> fst (sind_L6 s) = fst s.
Proof. intros [e cs] H. unfold wf_L6 in H. cbn [snd] in H. destruct cs as [|c0 [|c1 [|c2 [|c3 [|c4 [|c5 [|c6 [|x_ r_]]]]]]]]; cbn [length] in *; try discriminate; try lia. unfold sind_L6, k_Segment_Log_Poly6__indefinite. kred. reflexivity. Qed.
Lemma C11_L6_S2 : forall s k, wf_L6 s -> evI_L6 (sint_L6 s k) (fst k) = snd k.
Proof.
  intros [e cs] [kx ky] H. unfold wf_L6 in H. cbn [snd] in H. destruct cs as [|c0 [|c1 [|c2 [|c3 [|c4 [|c5 [|c6 [|x_ r_]]]]]]]]; cbn [length] in *; try discriminate; try lia.
  unfold evI_L6, sint_L6, k_Segment_Log_Poly6__integral. kred. unfold k_Segment_IntOfLog_Poly6__evaluate. kred. ring.
Qed.
Lemma C11_L6_S3 : forall s k, wf_L6 s -> exists c, forall t, evI_L6 (sint_L6 s k) t = evI_L6 (sind_L6 s) t + c.
Proof.
  intros [e cs] [kx ky] H. unfold wf_L6 in H. cbn [snd] in H. destruct cs as [|c0 [|c1 [|c2 [|c3 [|c4 [|c5 [|c6 [|x_ r_]]]]]]]]; cbn [length] in *; try discriminate; try lia.
  exists (ky - evI_L6 (sind_L6 (e, [c0; c1; c2; c3; c4; c5; c6])) kx). intros t.
  unfold evI_L6, sint_L6, sind_L6, k_Segment_Log_Poly6__integral, k_Segment_Log_Poly6__indefinite. kred. unfold k_Segment_IntOfLog_Poly6__evaluate. kred. ring.
Qed.
(* same breakpoints; first piece through the knot; adjacent pieces agree at every interior breakpoint; every piece is
   the indefinite integral of its source piece plus a constant; the telescoped value formula *)
Theorem C11_L6 : forall (segs : list (R * list R)) (k0 : R * R), List.Forall wf_L6 segs ->
  let r := integral_iter sint_L6 evI_L6 segs k0 in
  map fst r = map fst segs /\
  (forall l F G r', r = l ++ F :: G :: r' -> evI_L6 G (fst F) = evI_L6 F (fst F)) /\
  List.Forall2 (fun s F => exists c, forall t, evI_L6 F t = evI_L6 (sind_L6 s) t + c) segs r /\
  List.Forall2 (fun (sk : (R * list R) * (R * R)) F => forall t,
                  evI_L6 F t = snd (snd sk) + (evI_L6 (sind_L6 (fst sk)) t - evI_L6 (sind_L6 (fst sk)) (fst (snd sk))))
               (combine segs (knot_seq _ _ sind_L6 evI_L6 segs k0)) r.
Proof.
  intros segs k0 H. cbv zeta. repeat split.
  - apply iter_ends with (wf := wf_L6); [exact C11_L6_S1|exact H].
  - apply iter_continuous with (wf := wf_L6); [exact C11_L6_S2|exact H].
  - exact (@iter_antiderivative _ _ sint_L6 sind_L6 evI_L6 wf_L6 C11_L6_S3 segs k0 H).
  - exact (@iter_telescope _ _ sint_L6 sind_L6 evI_L6 wf_L6 C11_L6_S1 C11_L6_S2 C11_L6_S3 segs k0 H).
Qed.
Theorem C11_L6_first : forall s r k0, wf_L6 s ->
  match integral_iter sint_L6 evI_L6 (s :: r) k0 with F :: _ => evI_L6 F (fst k0) = snd k0 | [] => False end.
Proof. intros. apply iter_first with (wf := wf_L6); [exact C11_L6_S2|assumption]. Qed.
Theorem C11_L6_indefinite : forall s s2 r, wf_L6 s -> wf_L6 s2 -> List.Forall wf_L6 r ->
  match pw_indefinite sint_L6 sind_L6 evI_L6 (s :: s2 :: r) with
  | F0 :: F1 :: _ => F0 = sind_L6 s /\ evI_L6 F1 (fst F0) = evI_L6 F0 (fst F0)
  | _ => False end.
Proof.
  intros s s2 r Hs Hs2 Hr. split; [reflexivity|].
  apply indefinite_continuous with (wf := wf_L6) (r := r); [exact C11_L6_S2|exact Hs|exact Hs2|exact Hr].
Qed.

(* ---------------- Log<Poly7> ---------------- *)
Definition wf_L7 (s : R * list R) : Prop := length (snd s) = 8%nat.
Definition sint_L7 (s : R * list R) (k : R * R) := kseg k_Segment_Log_Poly7__integral s [fst k; snd k].
Definition sind_L7 (s : R * list R) := kseg k_Segment_Log_Poly7__indefinite s [].
Definition evI_L7 := kev k_Segment_IntOfLog_Poly7__evaluate.
Lemma C11_L7_S1 : forall s k, wf_L7 s -> fst (sint_L7 s k) = fst s.
Proof. intros [e cs] [kx ky] H. unfold wf_L7 in H. cbn [snd] in H. destruct cs as [|c0 [|c1 [|c2 [|c3 [|c4 [|c5 [|c6 [|c7 [|x_ r_]]]]]]]]]; cbn [length] in *; try discriminate; try lia. unfold sint_L7, k_Segment_Log_Poly7__integral. kred. reflexivity. Qed.
Lemma C11_L7_S1i : forall s, wf_L7 s -> fst (sind_L7 s) = fst s.
Proof. intros [e cs] H. unfold wf_L7 in H. cbn [snd] in H. destruct cs as [|c0 [|c1 [|c2 [|c3 [|c4 [|c5 [|c6 [|c7 [|x_ r_]]]]]]]]]; cbn [length] in *; try discriminate; try lia. unfold sind_L7, k_Segment_Log_Poly7__indefinite. kred. reflexivity. Qed.
Lemma C11_L7_S2 : forall s k, wf_L7 s -> evI_L7 (sint_L7 s k) (fst k) = snd k.
Proof.
  intros [e cs] [kx ky] H. unfold wf_L7 in H. cbn [snd] in H. destruct cs as [|c0 [|c1 [|c2 [|c3 [|c4 [|c5 [|c6 [|c7 [|x_ r_]]]]]]]]]; cbn [length] in *; try discriminate; try lia.
  unfold evI_L7, sint_L7, k_Segment_Log_Poly7__integral. kred. unfold k_Segment_IntOfLog_Poly7__evaluate. kred. ring.
Qed.
Lemma C11_L7_S3 : forall s k, wf_L7 s -> exists c, forall t, evI_L7 (sint_L7 s k) t = evI_L7 (sind_L7 s) t + c.
Proof.
  intros [e cs] [kx ky] H. unfold wf_L7 in H. cbn [snd] in H. destruct cs as [|c0 [|c1 [|c2 [|c3 [|c4 [|c5 [|c6 [|c7 [|x_ r_]]]]]]]]]; cbn [length] in *; try discriminate; try lia.
  exists (ky - evI_L7 (sind_L7 (e, [c0; c1; c2; c3; c4; c5; c6; c7])) kx). intros t.
  unfold evI_L7, sint_L7, sind_L7, k_Segment_Log_Poly7__integral, k_Segment_Log_Poly7__indefinite. kred. unfold k_Segment_IntOfLog_Poly7__evaluate. kred. ring.
Qed.
(* same breakpoints; first piece through the knot; adjacent pieces agree at every interior breakpoint; every piece is
   the indefinite integral of its source piece plus a constant; the telescoped value formula *)
Theorem C11_L7 : forall (segs : list (R * list R)) (k0 : R * R), List.Forall wf_L7 segs ->
  let r := integral_iter sint_L7 evI_L7 segs k0 in
  map fst r = map fst segs /\
  (forall l F G r', r = l ++ F :: G :: r' -> evI_L7 G (fst F) = evI_L7 F (fst F)) /\
  List.Forall2 (fun s F => exists c, forall t, evI_L7 F t = evI_L7 (sind_L7 s) t + c) segs r /\
  List.Forall2 (fun (sk : (R * list R) * (R * R)) F => forall t,
                  evI_L7 F t = snd (snd sk) + (evI_L7 (sind_L7 (fst sk)) t - evI_L7 (sind_L7 (fst sk)) (fst (snd sk))))
               (combine segs (knot_seq _ _ sind_L7 evI_L7 segs k0)) r.
Proof.
  intros segs k0 H. cbv zeta. repeat split.
  - apply iter_ends with (wf := wf_L7); [exact C11_L7_S1|exact H].
  - apply iter_continuous with (wf := wf_L7); [exact C11_L7_S2|exact H].
  - exact (@iter_antiderivative _ _ sint_L7 sind_L7 evI_L7 wf_L7 C11_L7_S3 segs k0 H).
  - exact (@iter_telescope _ _ sint_L7 sind_L7 evI_L7 wf_L7 C11_L7_S1 C11_L7_S2 C11_L7_S3 segs k0 H).
Qed.
Theorem C11_L7_first : forall s r k0, wf_L7 s ->
  match integral_iter sint_L7 evI_L7 (s :: r) k0 with F :: _ => evI_L7 F (fst k0) = snd k0 | [] => False end.
Proof. intros. apply iter_first with (wf := wf_L7); [exact C11_L7_S2|assumption]. Qed.
Theorem C11_L7_indefinite : forall s s2 r, wf_L7 s -> wf_L7 s2 -> List.Forall wf_L7 r ->
  match pw_indefinite sint_L7 sind_L7 evI_L7 (s :: s2 :: r) with
  | F0 :: F1 :: _ => F0 = sind_L7 s /\ evI_L7 F1 (fst F0) = evI_L7 F0 (fst F0)
  | _ => False end.
Proof.
  intros s s2 r Hs Hs2 Hr. split; [reflexivity|].
  apply indefinite_continuous with (wf := wf_L7) (r := r); [exact C11_L7_S2|exact Hs|exact Hs2|exact Hr].
Qed.

(* ---------------- Log<Poly8> ---------------- *)
Definition wf_L8 (s : R * list R) : Prop := length (snd s) = 9%nat.
Definition sint_L8 (s : R * list R) (k : R * R) := kseg k_Segment_Log_Poly8__integral s [fst k; snd k].
Definition sind_L8 (s : R * list R) := kseg k_Segment_Log_Poly8__indefinite s [].
Definition evI_L8 := kev k_Segment_IntOfLog_Poly8__evaluate.
Lemma C11_L8_S1 : forall s k, wf_L8 s -> fst (sint_L8 s k) = fst s.
Proof. intros [e cs] [kx ky] H. unfold wf_L8 in H. cbn [snd] in H. destruct cs as [|c0 [|c1 [|c2 [|c3 [|c4 [|c5 [|c6 [|c7 [|c8 [|x_ r_]]]]]]]]]]; cbn [length] in *; try discriminate; try lia. unfold sint_L8, k_Segment_Log_Poly8__integral. kred. reflexivity. Qed.
Lemma C11_L8_S1i : forall s, wf_L8 s -> fst (sind_L8 s) = fst s.
Proof. intros [e cs] H. unfold wf_L8 in H. cbn [snd] in H. destruct cs as [|c0 [|c1 [|c2 [|c3 [|c4 [|c5 [|c6 [|c7 [|c8 [|x_ r_]]]]]]]]]]; cbn [length] in *; try discriminate; try lia. unfold sind_L8, k_Segment_Log_Poly8__indefinite. kred. reflexivity. Qed.
Lemma C11_L8_S2 : forall s k, wf_L8 s -> evI_L8 (sint_L8 s k) (fst k) = snd k.
Proof.
  intros [e cs] [kx ky] H. unfold wf_L8 in H. cbn [snd] in H. destruct cs as [|c0 [|c1 [|c2 [|c3 [|c4 [|c5 [|c6 [|c7 [|c8 [|x_ r_]]]]]]]]]]; cbn [length] in *; try discriminate; try lia.
  unfold evI_L8, sint_L8, k_Segment_Log_Poly8__integral. kred. unfold k_Segment_IntOfLog_Poly8__evaluate. kred. ring.
Qed.
Lemma C11_L8_S3 : forall s k, wf_L8 s -> exists c, forall t, evI_L8 (sint_L8 s k) t = evI_L8 (sind_L8 s) t + c.
Proof.
  intros [e cs] [kx ky] H. unfold wf_L8 in H. cbn [snd] in H. destruct cs as [|c0 [|c1 [|c2 [|c3 [|c4 [|c5 [|c6 [|c7 [|c8 [|x_ r_]]]]]]]]]]; cbn [length] in *; try discriminate; try lia.
  exists (ky - evI_L8 (sind_L8 (e, [c0; c1; c2; c3; c4; c5; c6; c7; c8])) kx). intros t.
  unfold evI_L8, sint_L8, sind_L8, k_Segment_Log_Poly8__integral, k_Segment_Log_Poly8__indefinite. kred. unfold k_Segment_IntOfLog_Poly8__evaluate. kred. ring.
Qed.
(* same breakpoints; first piece through the knot; adjacent pieces agree at every interior breakpoint; every piece is
   the indefinite integral of its source piece plus a constant; the telescoped value formula *)
Theorem C11_L8 : forall (segs : list (R * list R)) (k0 : R * R), List.Forall wf_L8 segs ->
  let r := integral_iter sint_L8 evI_L8 segs k0 in
  map fst r = map fst segs /\
  (forall l F G r', r = l ++ F :: G :: r' -> evI_L8 G (fst F) = evI_L8 F (fst F)) /\
  List.Forall2 (fun s F => exists c, forall t, evI_L8 F t = evI_L8 (sind_L8 s) t + c) segs r /\
  List.Forall2 (fun (sk : (R * list R) * (R * R)) F => forall t,
                  evI_L8 F t = snd (snd sk) + (evI_L8 (sind_L8 (fst sk)) t - evI_L8 (sind_L8 (fst sk)) (fst (snd sk))))
               (combine segs (knot_seq _ _ sind_L8 evI_L8 segs k0)) r.
Proof.
  intros segs k0 H. cbv zeta. repeat split.
  - apply iter_ends with (wf := wf_L8); [exact C11_L8_S1|exact H].
  - apply iter_continuous with (wf := wf_L8); [exact C11_L8_S2|exact H].
  - exact (@iter_antiderivative _ _ sint_L8 sind_L8 evI_L8 wf_L8 C11_L8_S3 segs k0 H).
  - exact (@iter_telescope _ _ sint_L8 sind_L8 evI_L8 wf_L8 C11_L8_S1 C11_L8_S2 C11_L8_S3 segs k0 H).
Qed.
Theorem C11_L8_first : forall s r k0, wf_L8 s ->
  match integral_iter sint_L8 evI_L8 (s :: r) k0 with F :: _ => evI_L8 F (fst k0) = snd k0 | [] => False end.
Proof. intros. apply iter_first with (wf := wf_L8); [exact C11_L8_S2|assumption]. Qed.
Theorem C11_L8_indefinite : forall s s2 r, wf_L8 s -> wf_L8 s2 -> List.Forall wf_L8 r ->
  match pw_indefinite sint_L8 sind_L8 evI_L8 (s :: s2 :: r) with
  | F0 :: F1 :: _ => F0 = sind_L8 s /\ evI_L8 F1 (fst F0) = evI_L8 F0 (fst F0)
  | _ => False end.
Proof.
  intros s s2 r Hs Hs2 Hr. split; [reflexivity|].
  apply indefinite_continuous with (wf := wf_L8) (r := r); [exact C11_L8_S2|exact Hs|exact Hs2|exact Hr].
Qed.


Theorem C11_indefinite_empty : forall (P PI : Type) si sd (ev : R * PI -> R -> R), @pw_indefinite R P PI si sd ev [] = [].
Proof. reflexivity. Qed.
