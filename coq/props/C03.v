(* C03 - the stateful evaluator agrees with direct evaluation on every query history. *)
From Coq Require Import List Bool ZArith.
Require Import PP.FloatModel PP.FloatOrder PP.Model.PwModel PP.Proofs.C02Proofs PP.Proofs.C03Proofs.
Import ListNotations.

(* PwModel.evaluator_answers flt fle is_nanb ev segs xs is the model of
   `let mut e = PiecewiseEvaluator::new(&segs); xs.map(|x| e.evaluate(x))`;  PwModel.pw_eval of Piecewise::evaluate. *)

(* every finite-length history of non-NaN queries, any interleaving of forward and backward moves:
   each answer is, bit for bit, what direct evaluation returns for that argument *)
Theorem C03_history : forall (P : Type) (ev : seg F P -> F -> F) (segs : list (seg F P)) (xs : list F),
  segs <> [] -> Forall (fun t => ok (send t)) segs -> sorted_ends segs ->
  Forall ok xs ->
  exists l, evaluator_answers flt fle is_nanb ev segs xs = Some l /\
            map Some l = map (pw_eval flt ev segs) xs.
Proof. intros P ev segs xs Hne Hok Hs _. exact (evaluator_all P ev segs xs Hne Hok Hs). Qed.

(* the answer to a query never depends on the queries made before it *)
Theorem C03_memoryless : forall (P : Type) (ev : seg F P -> F -> F) (segs : list (seg F P)) (h1 h2 : list F) (x : F) l1 l2,
  segs <> [] -> Forall (fun t => ok (send t)) segs -> sorted_ends segs ->
  evaluator_answers flt fle is_nanb ev segs (h1 ++ [x]) = Some l1 ->
  evaluator_answers flt fle is_nanb ev segs (h2 ++ [x]) = Some l2 ->
  nth_error l1 (length h1) = nth_error l2 (length h2) /\
  option_map Some (nth_error l1 (length h1)) = Some (pw_eval flt ev segs x).
Proof. exact evaluator_memoryless. Qed.

(* non-vacuity: four segments (one duplicate end), a history that moves forward, backward, repeats, hits ends *)
Example C03_example :
  let segs := [(of_bits 4607182418800017408, 10%Z); (of_bits 4611686018427387904, 20%Z);
               (of_bits 4611686018427387904, 30%Z); (of_bits 4613937818241073152, 40%Z)] in
  let xs := map of_bits [4612811918334230528; 0; 4611686018427387904; 4607182418800017408; 4607182418800017408;
                         9218868437227405312; 18442240474082181120; 4609434218613702656]%Z in
  evaluator_answers flt fle is_nanb (fun s _ => snd s) segs xs = Some (map (fun x => match pw_eval flt (fun s _ => snd s) segs x with Some v => v | None => 0%Z end) xs)
  /\ evaluator_answers flt fle is_nanb (fun s _ => snd s) segs xs = Some [40; 10; 40; 20; 20; 40; 10; 20]%Z.
Proof. vm_compute. split; reflexivity. Qed.
