(* C15 - scalar operations on segments and piecewise functions preserve breakpoints. *)
From Coq Require Import List ZArith Reals.
Require Import PP.FloatModel PP.Expr PP.FloatOps PP.FloatFacts PP.Shapes PP.Model.PwModel PP.PolyFacts PP.Proofs.PwMapProofs PP.Gen.Kernels.
Import ListNotations.

(* A Segment<T> occupies inputs 0 (`end`) and 1..n (the piece).  spec_segment sp: lane 0 is the input
   `end` itself (bit-identical), the remaining lanes are the piece-level lanes sp of C14 shifted by one. *)
Definition C15_table : list (list expr * list lane) := [
  (k_Segment_Poly0__mul, spec_segment (spec_mul 1));
  (k_Segment_Poly0__mul_assign, spec_segment (spec_mul 1));
  (k_Segment_Poly0__translate, spec_segment (spec_translate 1 0));
  (k_Segment_Poly1__mul, spec_segment (spec_mul 2));
  (k_Segment_Poly1__mul_assign, spec_segment (spec_mul 2));
  (k_Segment_Poly1__translate, spec_segment (spec_translate 2 0));
  (k_Segment_Poly2__mul, spec_segment (spec_mul 3));
  (k_Segment_Poly2__mul_assign, spec_segment (spec_mul 3));
  (k_Segment_Poly2__translate, spec_segment (spec_translate 3 0));
  (k_Segment_Poly3__mul, spec_segment (spec_mul 4));
  (k_Segment_Poly3__mul_assign, spec_segment (spec_mul 4));
  (k_Segment_Poly3__translate, spec_segment (spec_translate 4 0));
  (k_Segment_Poly4__mul, spec_segment (spec_mul 5));
  (k_Segment_Poly4__mul_assign, spec_segment (spec_mul 5));
  (k_Segment_Poly4__translate, spec_segment (spec_translate 5 0));
  (k_Segment_Poly5__mul, spec_segment (spec_mul 6));
  (k_Segment_Poly5__mul_assign, spec_segment (spec_mul 6));
  (k_Segment_Poly5__translate, spec_segment (spec_translate 6 0));
  (k_Segment_Poly6__mul, spec_segment (spec_mul 7));
  (k_Segment_Poly6__mul_assign, spec_segment (spec_mul 7));
  (k_Segment_Poly6__translate, spec_segment (spec_translate 7 0));
  (k_Segment_Poly7__mul, spec_segment (spec_mul 8));
  (k_Segment_Poly7__mul_assign, spec_segment (spec_mul 8));
  (k_Segment_Poly7__translate, spec_segment (spec_translate 8 0));
  (k_Segment_Poly8__mul, spec_segment (spec_mul 9));
  (k_Segment_Poly8__mul_assign, spec_segment (spec_mul 9));
  (k_Segment_Poly8__translate, spec_segment (spec_translate 9 0));
  (k_Segment_Log_Poly0__mul, spec_segment (spec_mul 1));
  (k_Segment_Log_Poly0__mul_assign, spec_segment (spec_mul 1));
  (k_Segment_Log_Poly0__translate, spec_segment (spec_translate 1 0));
  (k_Segment_Log_Poly1__mul, spec_segment (spec_mul 2));
  (k_Segment_Log_Poly1__mul_assign, spec_segment (spec_mul 2));
  (k_Segment_Log_Poly1__translate, spec_segment (spec_translate 2 0));
  (k_Segment_Log_Poly2__mul, spec_segment (spec_mul 3));
  (k_Segment_Log_Poly2__mul_assign, spec_segment (spec_mul 3));
  (k_Segment_Log_Poly2__translate, spec_segment (spec_translate 3 0));
  (k_Segment_Log_Poly3__mul, spec_segment (spec_mul 4));
  (k_Segment_Log_Poly3__mul_assign, spec_segment (spec_mul 4));
  (k_Segment_Log_Poly3__translate, spec_segment (spec_translate 4 0));
  (k_Segment_Log_Poly4__mul, spec_segment (spec_mul 5));
  (k_Segment_Log_Poly4__mul_assign, spec_segment (spec_mul 5));
  (k_Segment_Log_Poly4__translate, spec_segment (spec_translate 5 0));
  (k_Segment_Log_Poly5__mul, spec_segment (spec_mul 6));
  (k_Segment_Log_Poly5__mul_assign, spec_segment (spec_mul 6));
  (k_Segment_Log_Poly5__translate, spec_segment (spec_translate 6 0));
  (k_Segment_Log_Poly6__mul, spec_segment (spec_mul 7));
  (k_Segment_Log_Poly6__mul_assign, spec_segment (spec_mul 7));
  (k_Segment_Log_Poly6__translate, spec_segment (spec_translate 7 0));
  (k_Segment_Log_Poly7__mul, spec_segment (spec_mul 8));
  (k_Segment_Log_Poly7__mul_assign, spec_segment (spec_mul 8));
  (k_Segment_Log_Poly7__translate, spec_segment (spec_translate 8 0));
  (k_Segment_Log_Poly8__mul, spec_segment (spec_mul 9));
  (k_Segment_Log_Poly8__mul_assign, spec_segment (spec_mul 9));
  (k_Segment_Log_Poly8__translate, spec_segment (spec_translate 9 0));
  (k_Segment_IntOfLog_Poly0__mul, spec_segment (spec_mul 2));
  (k_Segment_IntOfLog_Poly0__mul_assign, spec_segment (spec_mul 2));
  (k_Segment_IntOfLog_Poly0__translate, spec_segment (spec_translate 2 0));
  (k_Segment_IntOfLog_Poly1__mul, spec_segment (spec_mul 3));
  (k_Segment_IntOfLog_Poly1__mul_assign, spec_segment (spec_mul 3));
  (k_Segment_IntOfLog_Poly1__translate, spec_segment (spec_translate 3 0));
  (k_Segment_IntOfLog_Poly2__mul, spec_segment (spec_mul 4));
  (k_Segment_IntOfLog_Poly2__mul_assign, spec_segment (spec_mul 4));
  (k_Segment_IntOfLog_Poly2__translate, spec_segment (spec_translate 4 0));
  (k_Segment_IntOfLog_Poly3__mul, spec_segment (spec_mul 5));
  (k_Segment_IntOfLog_Poly3__mul_assign, spec_segment (spec_mul 5));
  (k_Segment_IntOfLog_Poly3__translate, spec_segment (spec_translate 5 0));
  (k_Segment_IntOfLog_Poly4__mul, spec_segment (spec_mul 6));
  (k_Segment_IntOfLog_Poly4__mul_assign, spec_segment (spec_mul 6));
  (k_Segment_IntOfLog_Poly4__translate, spec_segment (spec_translate 6 0));
  (k_Segment_IntOfLog_Poly5__mul, spec_segment (spec_mul 7));
  (k_Segment_IntOfLog_Poly5__mul_assign, spec_segment (spec_mul 7));
  (k_Segment_IntOfLog_Poly5__translate, spec_segment (spec_translate 7 0));
  (k_Segment_IntOfLog_Poly6__mul, spec_segment (spec_mul 8));
  (k_Segment_IntOfLog_Poly6__mul_assign, spec_segment (spec_mul 8));
  (k_Segment_IntOfLog_Poly6__translate, spec_segment (spec_translate 8 0));
  (k_Segment_IntOfLog_Poly7__mul, spec_segment (spec_mul 9));
  (k_Segment_IntOfLog_Poly7__mul_assign, spec_segment (spec_mul 9));
  (k_Segment_IntOfLog_Poly7__translate, spec_segment (spec_translate 9 0));
  (k_Segment_IntOfLog_Poly8__mul, spec_segment (spec_mul 10));
  (k_Segment_IntOfLog_Poly8__mul_assign, spec_segment (spec_mul 10));
  (k_Segment_IntOfLog_Poly8__translate, spec_segment (spec_translate 10 0));
  (k_Segment_IntOfLogPoly4__mul, spec_segment (spec_mul 6));
  (k_Segment_IntOfLogPoly4__translate, spec_segment (spec_translate 6 0))
].
Theorem C15_segment_shapes :
  Forall (fun p => forall env, evals FOps0 env (fst p) = map (lane_sem env) (snd p)) C15_table.
Proof. apply table_ok_sem. vm_compute. reflexivity. Qed.

Definition C15_mul_pairs : list (list expr * list expr * list lane) := [
  (k_Segment_Poly0__mul, k_Segment_Poly0__mul_assign, spec_segment (spec_mul 1));
  (k_Segment_Poly1__mul, k_Segment_Poly1__mul_assign, spec_segment (spec_mul 2));
  (k_Segment_Poly2__mul, k_Segment_Poly2__mul_assign, spec_segment (spec_mul 3));
  (k_Segment_Poly3__mul, k_Segment_Poly3__mul_assign, spec_segment (spec_mul 4));
  (k_Segment_Poly4__mul, k_Segment_Poly4__mul_assign, spec_segment (spec_mul 5));
  (k_Segment_Poly5__mul, k_Segment_Poly5__mul_assign, spec_segment (spec_mul 6));
  (k_Segment_Poly6__mul, k_Segment_Poly6__mul_assign, spec_segment (spec_mul 7));
  (k_Segment_Poly7__mul, k_Segment_Poly7__mul_assign, spec_segment (spec_mul 8));
  (k_Segment_Poly8__mul, k_Segment_Poly8__mul_assign, spec_segment (spec_mul 9));
  (k_Segment_Log_Poly0__mul, k_Segment_Log_Poly0__mul_assign, spec_segment (spec_mul 1));
  (k_Segment_Log_Poly1__mul, k_Segment_Log_Poly1__mul_assign, spec_segment (spec_mul 2));
  (k_Segment_Log_Poly2__mul, k_Segment_Log_Poly2__mul_assign, spec_segment (spec_mul 3));
  (k_Segment_Log_Poly3__mul, k_Segment_Log_Poly3__mul_assign, spec_segment (spec_mul 4));
  (k_Segment_Log_Poly4__mul, k_Segment_Log_Poly4__mul_assign, spec_segment (spec_mul 5));
  (k_Segment_Log_Poly5__mul, k_Segment_Log_Poly5__mul_assign, spec_segment (spec_mul 6));
  (k_Segment_Log_Poly6__mul, k_Segment_Log_Poly6__mul_assign, spec_segment (spec_mul 7));
  (k_Segment_Log_Poly7__mul, k_Segment_Log_Poly7__mul_assign, spec_segment (spec_mul 8));
  (k_Segment_Log_Poly8__mul, k_Segment_Log_Poly8__mul_assign, spec_segment (spec_mul 9));
  (k_Segment_IntOfLog_Poly0__mul, k_Segment_IntOfLog_Poly0__mul_assign, spec_segment (spec_mul 2));
  (k_Segment_IntOfLog_Poly1__mul, k_Segment_IntOfLog_Poly1__mul_assign, spec_segment (spec_mul 3));
  (k_Segment_IntOfLog_Poly2__mul, k_Segment_IntOfLog_Poly2__mul_assign, spec_segment (spec_mul 4));
  (k_Segment_IntOfLog_Poly3__mul, k_Segment_IntOfLog_Poly3__mul_assign, spec_segment (spec_mul 5));
  (k_Segment_IntOfLog_Poly4__mul, k_Segment_IntOfLog_Poly4__mul_assign, spec_segment (spec_mul 6));
  (k_Segment_IntOfLog_Poly5__mul, k_Segment_IntOfLog_Poly5__mul_assign, spec_segment (spec_mul 7));
  (k_Segment_IntOfLog_Poly6__mul, k_Segment_IntOfLog_Poly6__mul_assign, spec_segment (spec_mul 8));
  (k_Segment_IntOfLog_Poly7__mul, k_Segment_IntOfLog_Poly7__mul_assign, spec_segment (spec_mul 9));
  (k_Segment_IntOfLog_Poly8__mul, k_Segment_IntOfLog_Poly8__mul_assign, spec_segment (spec_mul 10))
].
Theorem C15_mul_assign :
  Forall (fun p => forall env, evals FOps0 env (fst (fst p)) = evals FOps0 env (snd (fst p))) C15_mul_pairs.
Proof. apply pairs_ok_sem. vm_compute. reflexivity. Qed.

(* Piecewise-level operations are `map` over the segments (model: Run.run_pw_map / run_pw_neg, tied by
   correspondence): same number of pieces, same order; with the segment-level theorem above every
   breakpoint is bit-identical and piece i is the piece-level operation applied to piece i. *)
Theorem C15_map_length : forall (A B : Type) (f : A -> B) (l : list A), length (map f l) = length l.
Proof. intros. apply map_length. Qed.
Theorem C15_map_nth : forall (A B : Type) (f : A -> B) (l : list A) (i : nat),
  nth_error (map f l) i = option_map f (nth_error l i).
Proof. intros. apply nth_error_map. Qed.
(* Piecewise::neg touches only the piece: (end, p) |-> (end, neg p) *)
Theorem C15_neg_ends : forall (P : Type) (neg : P -> P) (segs : list (F * P)),
  map fst (map (fun s => (fst s, neg (snd s))) segs) = map fst segs.
Proof. intros. rewrite map_map. reflexivity. Qed.

(* Value level, every argument x (breakpoints, beyond the last breakpoint, NaN) and ANY comparison lt used by the selection:
   an operation g applied to every piece with the breakpoints kept selects the SAME piece (with g applied) ... *)
Theorem C15_select_commutes : forall (A P : Type) (lt : A -> A -> bool) (g : P -> P) (segs : list (A * P)) (x : A),
  select lt (map (mapseg g) segs) x = option_map (mapseg g) (select lt segs x).
Proof. exact @select_mapseg. Qed.
(* ... so if g acts on the value of each piece as h, it acts on the value of the piecewise function as h, on both sides of
   every breakpoint; the empty function panics (None) before and after *)
Theorem C15_value_commutes : forall (A P : Type) (lt : A -> A -> bool) (g : P -> P) (R : Type) (ev : A * P -> A -> R) (h : R -> R)
  (segs : list (A * P)) (x : A), (forall s, In s segs -> ev (mapseg g s) x = h (ev s x)) ->
  pw_eval lt ev (map (mapseg g) segs) x = option_map h (pw_eval lt ev segs x).
Proof. exact @pw_eval_mapseg. Qed.
(* instances over the reals for polynomial pieces: (f*s)(x) = s f(x), (-f)(x) = -f(x), translate(c) adds c at every x *)
Theorem C15_value_scale : forall (lt : R -> R -> bool) (segs : list (R * list R)) (s x : R),
  pw_eval lt pev (map (mapseg (map (fun c => (c * s)%R))) segs) x = option_map (Rmult s) (pw_eval lt pev segs x).
Proof. exact pw_scale_value. Qed.
Theorem C15_value_neg : forall (lt : R -> R -> bool) (segs : list (R * list R)) (x : R),
  pw_eval lt pev (map (mapseg (map Ropp)) segs) x = option_map Ropp (pw_eval lt pev segs x).
Proof. exact pw_neg_value. Qed.
Theorem C15_value_translate : forall (lt : R -> R -> bool) (segs : list (R * list R)) (c x : R),
  pw_eval lt pev (map (mapseg (translate_coeffs c)) segs) x = option_map (fun y => (y + c)%R) (pw_eval lt pev segs x).
Proof. exact pw_translate_value. Qed.

Example C15_example :
  run_kernel [] [] k_Segment_Poly1__mul [4617315517961601024; 4607182418800017408; 4611686018427387904; 4613937818241073152]%Z
  = [4617315517961601024; 4613937818241073152; 4618441417868443648]%Z.
Proof. vm_compute. reflexivity. Qed.
