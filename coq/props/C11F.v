(* C11, binary64 level: the jump of a piecewise POLYNOMIAL integral at a breakpoint.
   Piecewise::integral threads the knot (x, y) := (end_i, value of piece i at end_i as computed by the crate) into
   Segment::integral of piece i+1.  For every degree: the piece returned by the regenerated Segment<PolyK>::integral, evaluated by
   the regenerated Segment<Poly(K+1)>::evaluate at knot.x, is knot.y within 2*depth*2^-53 times the sum of the magnitudes of the
   terms - for all finite inputs on which no operation under/overflows (`safe`, decidable).  That difference IS the jump of
   F at the breakpoint (and, for the first piece, the deviation from k0). *)
From Coq Require Import List ZArith Reals Lra Lia.
From Flocq Require Import Core BinarySingleNaN.
Require Import PP.FloatModel PP.Expr PP.FloatOps PP.FloatFacts PP.RealOps PP.ErrorBound PP.SafeDec PP.PolyFacts PP.Gen.Kernels
  PP.Proofs.KernelBounds.
Import ListNotations.
Local Open Scope R_scope.

Definition e_segev1 : expr := hd (Lit 0) k_Segment_Poly1__evaluate.
Definition e_segknot0 : expr := subst (k_Segment_Poly0__integral ++ [Var 2]) e_segev1.
Theorem C11_P0_knot_float : forall e c0 kx ky : F, safe [e; c0; kx; ky] e_segknot0 ->
  Rabs (B2R (fev [e; c0; kx; ky] e_segknot0) - B2R ky)
  <= 2 * INR (depth e_segknot0) * u * absval (map B2R [e; c0; kx; ky]) e_segknot0.
Proof.
  intros e c0 kx ky Hs.
  assert (Hv : rval [e; c0; kx; ky] e_segknot0 = B2R ky).
  { unfold rval, e_segknot0. rewrite eval_subst by (vm_compute; reflexivity). cbn [map app].
    change (map (eval ROps [B2R e; B2R c0; B2R kx; B2R ky]) (k_Segment_Poly0__integral ++ [Var 2]))
      with (evals ROps [B2R e; B2R c0; B2R kx; B2R ky] k_Segment_Poly0__integral ++ [B2R kx]).
    unfold k_Segment_Poly0__integral. reval. norm_lits. cbn [app].
    unfold e_segev1, k_Segment_Poly1__evaluate. cbn [hd]. reval. field. }
  rewrite <- Hv. apply eval_apriori_lin; [vm_compute; reflexivity|exact Hs|].
  assert (Hd : INR (depth e_segknot0) <= 100) by (vm_compute depth; simpl INR; lra).
  assert (Hu := u_pos). rewrite u_val in *. assert (0 <= INR (depth e_segknot0)) by apply pos_INR. nra.
Qed.

Definition e_segev2 : expr := hd (Lit 0) k_Segment_Poly2__evaluate.
Definition e_segknot1 : expr := subst (k_Segment_Poly1__integral ++ [Var 3]) e_segev2.
Theorem C11_P1_knot_float : forall e c0 c1 kx ky : F, safe [e; c0; c1; kx; ky] e_segknot1 ->
  Rabs (B2R (fev [e; c0; c1; kx; ky] e_segknot1) - B2R ky)
  <= 2 * INR (depth e_segknot1) * u * absval (map B2R [e; c0; c1; kx; ky]) e_segknot1.
Proof.
  intros e c0 c1 kx ky Hs.
  assert (Hv : rval [e; c0; c1; kx; ky] e_segknot1 = B2R ky).
  { unfold rval, e_segknot1. rewrite eval_subst by (vm_compute; reflexivity). cbn [map app].
    change (map (eval ROps [B2R e; B2R c0; B2R c1; B2R kx; B2R ky]) (k_Segment_Poly1__integral ++ [Var 3]))
      with (evals ROps [B2R e; B2R c0; B2R c1; B2R kx; B2R ky] k_Segment_Poly1__integral ++ [B2R kx]).
    unfold k_Segment_Poly1__integral. reval. norm_lits. cbn [app].
    unfold e_segev2, k_Segment_Poly2__evaluate. cbn [hd]. reval. field. }
  rewrite <- Hv. apply eval_apriori_lin; [vm_compute; reflexivity|exact Hs|].
  assert (Hd : INR (depth e_segknot1) <= 100) by (vm_compute depth; simpl INR; lra).
  assert (Hu := u_pos). rewrite u_val in *. assert (0 <= INR (depth e_segknot1)) by apply pos_INR. nra.
Qed.

Definition e_segev3 : expr := hd (Lit 0) k_Segment_Poly3__evaluate.
Definition e_segknot2 : expr := subst (k_Segment_Poly2__integral ++ [Var 4]) e_segev3.
Theorem C11_P2_knot_float : forall e c0 c1 c2 kx ky : F, safe [e; c0; c1; c2; kx; ky] e_segknot2 ->
  Rabs (B2R (fev [e; c0; c1; c2; kx; ky] e_segknot2) - B2R ky)
  <= 2 * INR (depth e_segknot2) * u * absval (map B2R [e; c0; c1; c2; kx; ky]) e_segknot2.
Proof.
  intros e c0 c1 c2 kx ky Hs.
  assert (Hv : rval [e; c0; c1; c2; kx; ky] e_segknot2 = B2R ky).
  { unfold rval, e_segknot2. rewrite eval_subst by (vm_compute; reflexivity). cbn [map app].
    change (map (eval ROps [B2R e; B2R c0; B2R c1; B2R c2; B2R kx; B2R ky]) (k_Segment_Poly2__integral ++ [Var 4]))
      with (evals ROps [B2R e; B2R c0; B2R c1; B2R c2; B2R kx; B2R ky] k_Segment_Poly2__integral ++ [B2R kx]).
    unfold k_Segment_Poly2__integral. reval. norm_lits. cbn [app].
    unfold e_segev3, k_Segment_Poly3__evaluate. cbn [hd]. reval. field. }
  rewrite <- Hv. apply eval_apriori_lin; [vm_compute; reflexivity|exact Hs|].
  assert (Hd : INR (depth e_segknot2) <= 100) by (vm_compute depth; simpl INR; lra).
  assert (Hu := u_pos). rewrite u_val in *. assert (0 <= INR (depth e_segknot2)) by apply pos_INR. nra.
Qed.

Definition e_segev4 : expr := hd (Lit 0) k_Segment_Poly4__evaluate.
Definition e_segknot3 : expr := subst (k_Segment_Poly3__integral ++ [Var 5]) e_segev4.
Theorem C11_P3_knot_float : forall e c0 c1 c2 c3 kx ky : F, safe [e; c0; c1; c2; c3; kx; ky] e_segknot3 ->
  Rabs (B2R (fev [e; c0; c1; c2; c3; kx; ky] e_segknot3) - B2R ky)
  <= 2 * INR (depth e_segknot3) * u * absval (map B2R [e; c0; c1; c2; c3; kx; ky]) e_segknot3.
Proof.
  intros e c0 c1 c2 c3 kx ky Hs.
  assert (Hv : rval [e; c0; c1; c2; c3; kx; ky] e_segknot3 = B2R ky).
  { unfold rval, e_segknot3. rewrite eval_subst by (vm_compute; reflexivity). cbn [map app].
    change (map (eval ROps [B2R e; B2R c0; B2R c1; B2R c2; B2R c3; B2R kx; B2R ky]) (k_Segment_Poly3__integral ++ [Var 5]))
      with (evals ROps [B2R e; B2R c0; B2R c1; B2R c2; B2R c3; B2R kx; B2R ky] k_Segment_Poly3__integral ++ [B2R kx]).
    unfold k_Segment_Poly3__integral. reval. norm_lits. cbn [app].
    unfold e_segev4, k_Segment_Poly4__evaluate. cbn [hd]. reval. field. }
  rewrite <- Hv. apply eval_apriori_lin; [vm_compute; reflexivity|exact Hs|].
  assert (Hd : INR (depth e_segknot3) <= 100) by (vm_compute depth; simpl INR; lra).
  assert (Hu := u_pos). rewrite u_val in *. assert (0 <= INR (depth e_segknot3)) by apply pos_INR. nra.
Qed.

Definition e_segev5 : expr := hd (Lit 0) k_Segment_Poly5__evaluate.
Definition e_segknot4 : expr := subst (k_Segment_Poly4__integral ++ [Var 6]) e_segev5.
Theorem C11_P4_knot_float : forall e c0 c1 c2 c3 c4 kx ky : F, safe [e; c0; c1; c2; c3; c4; kx; ky] e_segknot4 ->
  Rabs (B2R (fev [e; c0; c1; c2; c3; c4; kx; ky] e_segknot4) - B2R ky)
  <= 2 * INR (depth e_segknot4) * u * absval (map B2R [e; c0; c1; c2; c3; c4; kx; ky]) e_segknot4.
Proof.
  intros e c0 c1 c2 c3 c4 kx ky Hs.
  assert (Hv : rval [e; c0; c1; c2; c3; c4; kx; ky] e_segknot4 = B2R ky).
  { unfold rval, e_segknot4. rewrite eval_subst by (vm_compute; reflexivity). cbn [map app].
    change (map (eval ROps [B2R e; B2R c0; B2R c1; B2R c2; B2R c3; B2R c4; B2R kx; B2R ky]) (k_Segment_Poly4__integral ++ [Var 6]))
      with (evals ROps [B2R e; B2R c0; B2R c1; B2R c2; B2R c3; B2R c4; B2R kx; B2R ky] k_Segment_Poly4__integral ++ [B2R kx]).
    unfold k_Segment_Poly4__integral. reval. norm_lits. cbn [app].
    unfold e_segev5, k_Segment_Poly5__evaluate. cbn [hd]. reval. field. }
  rewrite <- Hv. apply eval_apriori_lin; [vm_compute; reflexivity|exact Hs|].
  assert (Hd : INR (depth e_segknot4) <= 100) by (vm_compute depth; simpl INR; lra).
  assert (Hu := u_pos). rewrite u_val in *. assert (0 <= INR (depth e_segknot4)) by apply pos_INR. nra.
Qed.

Definition e_segev6 : expr := hd (Lit 0) k_Segment_Poly6__evaluate.
Definition e_segknot5 : expr := subst (k_Segment_Poly5__integral ++ [Var 7]) e_segev6.
Theorem C11_P5_knot_float : forall e c0 c1 c2 c3 c4 c5 kx ky : F, safe [e; c0; c1; c2; c3; c4; c5; kx; ky] e_segknot5 ->
  Rabs (B2R (fev [e; c0; c1; c2; c3; c4; c5; kx; ky] e_segknot5) - B2R ky)
  <= 2 * INR (depth e_segknot5) * u * absval (map B2R [e; c0; c1; c2; c3; c4; c5; kx; ky]) e_segknot5.
Proof.
  intros e c0 c1 c2 c3 c4 c5 kx ky Hs.
  assert (Hv : rval [e; c0; c1; c2; c3; c4; c5; kx; ky] e_segknot5 = B2R ky).
  { unfold rval, e_segknot5. rewrite eval_subst by (vm_compute; reflexivity). cbn [map app].
    change (map (eval ROps [B2R e; B2R c0; B2R c1; B2R c2; B2R c3; B2R c4; B2R c5; B2R kx; B2R ky]) (k_Segment_Poly5__integral ++ [Var 7]))
      with (evals ROps [B2R e; B2R c0; B2R c1; B2R c2; B2R c3; B2R c4; B2R c5; B2R kx; B2R ky] k_Segment_Poly5__integral ++ [B2R kx]).
    unfold k_Segment_Poly5__integral. reval. norm_lits. cbn [app].
    unfold e_segev6, k_Segment_Poly6__evaluate. cbn [hd]. reval. field. }
  rewrite <- Hv. apply eval_apriori_lin; [vm_compute; reflexivity|exact Hs|].
  assert (Hd : INR (depth e_segknot5) <= 100) by (vm_compute depth; simpl INR; lra).
  assert (Hu := u_pos). rewrite u_val in *. assert (0 <= INR (depth e_segknot5)) by apply pos_INR. nra.
Qed.

Definition e_segev7 : expr := hd (Lit 0) k_Segment_Poly7__evaluate.
Definition e_segknot6 : expr := subst (k_Segment_Poly6__integral ++ [Var 8]) e_segev7.
Theorem C11_P6_knot_float : forall e c0 c1 c2 c3 c4 c5 c6 kx ky : F, safe [e; c0; c1; c2; c3; c4; c5; c6; kx; ky] e_segknot6 ->
  Rabs (B2R (fev [e; c0; c1; c2; c3; c4; c5; c6; kx; ky] e_segknot6) - B2R ky)
  <= 2 * INR (depth e_segknot6) * u * absval (map B2R [e; c0; c1; c2; c3; c4; c5; c6; kx; ky]) e_segknot6.
Proof.
  intros e c0 c1 c2 c3 c4 c5 c6 kx ky Hs.
  assert (Hv : rval [e; c0; c1; c2; c3; c4; c5; c6; kx; ky] e_segknot6 = B2R ky).
  { unfold rval, e_segknot6. rewrite eval_subst by (vm_compute; reflexivity). cbn [map app].
    change (map (eval ROps [B2R e; B2R c0; B2R c1; B2R c2; B2R c3; B2R c4; B2R c5; B2R c6; B2R kx; B2R ky]) (k_Segment_Poly6__integral ++ [Var 8]))
      with (evals ROps [B2R e; B2R c0; B2R c1; B2R c2; B2R c3; B2R c4; B2R c5; B2R c6; B2R kx; B2R ky] k_Segment_Poly6__integral ++ [B2R kx]).
    unfold k_Segment_Poly6__integral. reval. norm_lits. cbn [app].
    unfold e_segev7, k_Segment_Poly7__evaluate. cbn [hd]. reval. field. }
  rewrite <- Hv. apply eval_apriori_lin; [vm_compute; reflexivity|exact Hs|].
  assert (Hd : INR (depth e_segknot6) <= 100) by (vm_compute depth; simpl INR; lra).
  assert (Hu := u_pos). rewrite u_val in *. assert (0 <= INR (depth e_segknot6)) by apply pos_INR. nra.
Qed.

Definition e_segev8 : expr := hd (Lit 0) k_Segment_Poly8__evaluate.
Definition e_segknot7 : expr := subst (k_Segment_Poly7__integral ++ [Var 9]) e_segev8.
Theorem C11_P7_knot_float : forall e c0 c1 c2 c3 c4 c5 c6 c7 kx ky : F, safe [e; c0; c1; c2; c3; c4; c5; c6; c7; kx; ky] e_segknot7 ->
  Rabs (B2R (fev [e; c0; c1; c2; c3; c4; c5; c6; c7; kx; ky] e_segknot7) - B2R ky)
  <= 2 * INR (depth e_segknot7) * u * absval (map B2R [e; c0; c1; c2; c3; c4; c5; c6; c7; kx; ky]) e_segknot7.
Proof.
  intros e c0 c1 c2 c3 c4 c5 c6 c7 kx ky Hs.
  assert (Hv : rval [e; c0; c1; c2; c3; c4; c5; c6; c7; kx; ky] e_segknot7 = B2R ky).
  { unfold rval, e_segknot7. rewrite eval_subst by (vm_compute; reflexivity). cbn [map app].
    change (map (eval ROps [B2R e; B2R c0; B2R c1; B2R c2; B2R c3; B2R c4; B2R c5; B2R c6; B2R c7; B2R kx; B2R ky]) (k_Segment_Poly7__integral ++ [Var 9]))
      with (evals ROps [B2R e; B2R c0; B2R c1; B2R c2; B2R c3; B2R c4; B2R c5; B2R c6; B2R c7; B2R kx; B2R ky] k_Segment_Poly7__integral ++ [B2R kx]).
    unfold k_Segment_Poly7__integral. reval. norm_lits. cbn [app].
    unfold e_segev8, k_Segment_Poly8__evaluate. cbn [hd]. reval. field. }
  rewrite <- Hv. apply eval_apriori_lin; [vm_compute; reflexivity|exact Hs|].
  assert (Hd : INR (depth e_segknot7) <= 100) by (vm_compute depth; simpl INR; lra).
  assert (Hu := u_pos). rewrite u_val in *. assert (0 <= INR (depth e_segknot7)) by apply pos_INR. nra.
Qed.

(* non-vacuity: a cubic piece with end 2.5 and knot (0.75, -1.2) *)
Example C11_knot_float_hypotheses_hold : safe (map of_bits [4612811918334230528; 4607632778762754458; 13835733595226269286; 4604480259023595110; 4615964438073389875; 4604930618986332160; 13831455175580267315]%Z) e_segknot3.
Proof. apply safe1_sound; vm_compute; reflexivity. Qed.
