(* C12 - batch evaluation (evaluate_v). *)
From Coq Require Import List Bool ZArith.
Require Import PP.FloatModel PP.FloatOrder PP.Model.PwModel PP.Proofs.C02Proofs PP.Proofs.EvalVProofs PP.Proofs.C12Proofs PP.Proofs.EvalVOnline.
Import ListNotations.

(* PwModel.ev_v_answers flt evp segs xs models `pw.evaluate_v(xs).collect()`;
   prefix_max flt xs is the list of running maxima m_k = max(x_0..x_k). *)

(* any non-NaN sequence: argument k is evaluated with the piece of the segment that direct
   evaluation selects at the running maximum (the cursor never moves back) *)
Theorem C12_runmax : forall (P : Type) (evp : P -> F -> F) (segs : list (seg F P)) (xs : list F),
  segs <> [] -> Forall (fun t => ok (send t)) segs -> sorted_ends segs -> Forall ok xs ->
  exists l, ev_v_answers flt evp segs xs = Some l /\
    map Some l = map (fun xm : F * F => option_map (fun s => evp (spoly s) (fst xm)) (select flt segs (snd xm)))
                     (combine xs (prefix_max flt xs)).
Proof. exact ev_v_runmax_F. Qed.

(* non-decreasing arguments: exactly the bits of evaluating each argument individually, in order *)
Theorem C12_sorted : forall (P : Type) (evp : P -> F -> F) (segs : list (seg F P)) (xs : list F),
  segs <> [] -> Forall (fun t => ok (send t)) segs -> sorted_ends segs -> Forall ok xs -> nondecr flt xs ->
  exists l, ev_v_answers flt evp segs xs = Some l /\
    map Some l = map (pw_eval flt (fun s x => evp (spoly s) x) segs) xs.
Proof. exact ev_v_sorted_F. Qed.

(* the only panic is the documented one *)
Theorem C12_empty : forall (P : Type) (evp : P -> F -> F) (xs : list F), ev_v_answers flt evp [] xs = None.
Proof. exact ev_v_empty. Qed.

(* "lazily, in order", the part a model can carry: the k-th value depends on the first k+1 arguments only - the answers to
   xs ++ ys begin with exactly the answers to xs, for every continuation ys (so a consumer that stops early has seen what it would
   have seen had the input ended there; nothing about a later argument - not even one that would make a later lookup fail - can
   change an earlier value).  That the Rust iterator also PULLS no more than k+1 inputs before yielding value k is an
   operational fact about the adaptor and is observed by the pull-counting test of the correspondence run. *)
Theorem C12_online : forall (P : Type) (evp : P -> F -> F) (segs : list (seg F P)) (xs ys : list F) (l : list F),
  ev_v_answers flt evp segs (xs ++ ys) = Some l ->
  exists l1 l2, ev_v_answers flt evp segs xs = Some l1 /\ l = l1 ++ l2 /\ length l1 = length xs.
Proof. intros P evp segs xs ys l. exact (ev_v_online F P flt F evp segs xs ys l). Qed.
Theorem C12_online_firstn : forall (P : Type) (evp : P -> F -> F) (segs : list (seg F P)) (xs ys : list F) (l : list F),
  ev_v_answers flt evp segs (xs ++ ys) = Some l -> ev_v_answers flt evp segs xs = Some (firstn (length xs) l).
Proof. intros P evp segs xs ys l. exact (ev_v_online_firstn F P flt F evp segs xs ys l). Qed.

Example C12_example :
  let segs := [(of_bits 4607182418800017408, 10%Z); (of_bits 4611686018427387904, 20%Z); (of_bits 4613937818241073152, 30%Z)] in
  ev_v_answers flt (fun p _ => p) segs (map of_bits [0; 4609434218613702656; 4607182418800017408; 0; 4616189618054758400; 0]%Z)
  = Some [10; 20; 20; 20; 30; 30]%Z.
Proof. vm_compute. reflexivity. Qed.
