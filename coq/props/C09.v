(* C09 - integrals of log-polynomials are true antiderivatives, for every degree.
   (The quartic degree has its own representation IntOfLogPoly4; its statements are at the end.) *)
From Coq Require Import List ZArith Reals Lra Lia.
From Coquelicot Require Import Coquelicot.
Require Import PP.Expr PP.RealOps PP.PolyFacts PP.ExpTail PP.Gen.Kernels PP.Proofs.QuarticForm PP.Proofs.QuarticIntegral.
(* the binary64-level statements of C09 live in C09F.v (no real-analysis imports); they are re-exported from here *)
Require Export PP.Props.C09F.
Import ListNotations.
Local Open Scope R_scope.

(* logq p = q with q_n = p_n, q_i = p_i - (i+1) q_(i+1): the coefficients of the antiderivative t * q(ln t) *)
Ltac list_ring := repeat match goal with
  | |- _ :: _ = _ :: _ => apply f_equal2; [try (simpl; ring)|]
  | |- [] = [] => reflexivity end.

Theorem C09_Log0_indefinite : forall c0 : R, evals ROps [c0] k_Log_Poly0__indefinite = 0 :: logq [c0].
Proof. intros. unfold k_Log_Poly0__indefinite. reval. norm_lits. unfold logq. cbn [logq_from]. list_ring. Qed.
Theorem C09_IntOfLog0_evaluate : forall k q0 v : R, evals ROps [k; q0; v] k_IntOfLog_Poly0__evaluate = [k + v * polyval [q0] (ln v)].
Proof. intros. unfold k_IntOfLog_Poly0__evaluate. reval. cbn [polyval]. f_equal. ring. Qed.
(* F = integral(knot), evaluated at t:  F(t) = (knot.y - knot.x*q(ln knot.x)) + t*q(ln t) *)
Definition F_Log0 (c0 kx ky t : R) : R :=
  hd 0 (evals ROps (evals ROps [c0; kx; ky] k_Log_Poly0__integral ++ [t]) k_IntOfLog_Poly0__evaluate).
Theorem C09_Log0_integral : forall c0 kx ky t : R,
  F_Log0 c0 kx ky t = (ky - kx * polyval (logq [c0]) (ln kx)) + t * polyval (logq [c0]) (ln t).
Proof.
  intros. unfold F_Log0, k_Log_Poly0__integral. reval. norm_lits. cbn [app].
  unfold k_IntOfLog_Poly0__evaluate. reval. cbn [hd]. unfold logq. cbn [logq_from polyval]. simpl INR. ring.
Qed.
Theorem C09_Log0_knot : forall c0 kx ky : R, F_Log0 c0 kx ky kx = ky.
Proof. intros. rewrite C09_Log0_integral. ring. Qed.
Theorem C09_Log0_deriv : forall c0 kx ky t : R, 0 < t ->
  is_derive (F_Log0 c0 kx ky) t (polyval [c0] (ln t)).
Proof.
  intros c0 kx ky t Ht.
  apply (is_derive_ext (fun t => (ky - kx * polyval (logq [c0]) (ln kx)) + t * polyval (logq [c0]) (ln t))).
  - intros; symmetry; apply C09_Log0_integral.
  - evar_last. apply @is_derive_plus; [apply @is_derive_const|apply is_derive_logpoly; exact Ht].
    unfold plus, zero; cbn. ring.
Qed.
Theorem C09_Log0_area : forall c0 kx ky a b : R, 0 < a -> 0 < b ->
  is_RInt (fun t => polyval [c0] (ln t)) a b (F_Log0 c0 kx ky b - F_Log0 c0 kx ky a).
Proof. intros. rewrite !C09_Log0_integral. apply is_RInt_logpoly; assumption. Qed.

Theorem C09_Log1_indefinite : forall c0 c1 : R, evals ROps [c0; c1] k_Log_Poly1__indefinite = 0 :: logq [c0; c1].
Proof. intros. unfold k_Log_Poly1__indefinite. reval. norm_lits. unfold logq. cbn [logq_from]. list_ring. Qed.
Theorem C09_IntOfLog1_evaluate : forall k q0 q1 v : R, evals ROps [k; q0; q1; v] k_IntOfLog_Poly1__evaluate = [k + v * polyval [q0; q1] (ln v)].
Proof. intros. unfold k_IntOfLog_Poly1__evaluate. reval. cbn [polyval]. f_equal. ring. Qed.
(* F = integral(knot), evaluated at t:  F(t) = (knot.y - knot.x*q(ln knot.x)) + t*q(ln t) *)
Definition F_Log1 (c0 c1 kx ky t : R) : R :=
  hd 0 (evals ROps (evals ROps [c0; c1; kx; ky] k_Log_Poly1__integral ++ [t]) k_IntOfLog_Poly1__evaluate).
Theorem C09_Log1_integral : forall c0 c1 kx ky t : R,
  F_Log1 c0 c1 kx ky t = (ky - kx * polyval (logq [c0; c1]) (ln kx)) + t * polyval (logq [c0; c1]) (ln t).
Proof.
  intros. unfold F_Log1, k_Log_Poly1__integral. reval. norm_lits. cbn [app].
  unfold k_IntOfLog_Poly1__evaluate. reval. cbn [hd]. unfold logq. cbn [logq_from polyval]. simpl INR. ring.
Qed.
Theorem C09_Log1_knot : forall c0 c1 kx ky : R, F_Log1 c0 c1 kx ky kx = ky.
Proof. intros. rewrite C09_Log1_integral. ring. Qed.
Theorem C09_Log1_deriv : forall c0 c1 kx ky t : R, 0 < t ->
  is_derive (F_Log1 c0 c1 kx ky) t (polyval [c0; c1] (ln t)).
Proof.
  intros c0 c1 kx ky t Ht.
  apply (is_derive_ext (fun t => (ky - kx * polyval (logq [c0; c1]) (ln kx)) + t * polyval (logq [c0; c1]) (ln t))).
  - intros; symmetry; apply C09_Log1_integral.
  - evar_last. apply @is_derive_plus; [apply @is_derive_const|apply is_derive_logpoly; exact Ht].
    unfold plus, zero; cbn. ring.
Qed.
Theorem C09_Log1_area : forall c0 c1 kx ky a b : R, 0 < a -> 0 < b ->
  is_RInt (fun t => polyval [c0; c1] (ln t)) a b (F_Log1 c0 c1 kx ky b - F_Log1 c0 c1 kx ky a).
Proof. intros. rewrite !C09_Log1_integral. apply is_RInt_logpoly; assumption. Qed.

Theorem C09_Log2_indefinite : forall c0 c1 c2 : R, evals ROps [c0; c1; c2] k_Log_Poly2__indefinite = 0 :: logq [c0; c1; c2].
Proof. intros. unfold k_Log_Poly2__indefinite. reval. norm_lits. unfold logq. cbn [logq_from]. list_ring. Qed.
Theorem C09_IntOfLog2_evaluate : forall k q0 q1 q2 v : R, evals ROps [k; q0; q1; q2; v] k_IntOfLog_Poly2__evaluate = [k + v * polyval [q0; q1; q2] (ln v)].
Proof. intros. unfold k_IntOfLog_Poly2__evaluate. reval. cbn [polyval]. f_equal. ring. Qed.
(* F = integral(knot), evaluated at t:  F(t) = (knot.y - knot.x*q(ln knot.x)) + t*q(ln t) *)
Definition F_Log2 (c0 c1 c2 kx ky t : R) : R :=
  hd 0 (evals ROps (evals ROps [c0; c1; c2; kx; ky] k_Log_Poly2__integral ++ [t]) k_IntOfLog_Poly2__evaluate).
Theorem C09_Log2_integral : forall c0 c1 c2 kx ky t : R,
  F_Log2 c0 c1 c2 kx ky t = (ky - kx * polyval (logq [c0; c1; c2]) (ln kx)) + t * polyval (logq [c0; c1; c2]) (ln t).
Proof.
  intros. unfold F_Log2, k_Log_Poly2__integral. reval. norm_lits. cbn [app].
  unfold k_IntOfLog_Poly2__evaluate. reval. cbn [hd]. unfold logq. cbn [logq_from polyval]. simpl INR. ring.
Qed.
Theorem C09_Log2_knot : forall c0 c1 c2 kx ky : R, F_Log2 c0 c1 c2 kx ky kx = ky.
Proof. intros. rewrite C09_Log2_integral. ring. Qed.
Theorem C09_Log2_deriv : forall c0 c1 c2 kx ky t : R, 0 < t ->
  is_derive (F_Log2 c0 c1 c2 kx ky) t (polyval [c0; c1; c2] (ln t)).
Proof.
  intros c0 c1 c2 kx ky t Ht.
  apply (is_derive_ext (fun t => (ky - kx * polyval (logq [c0; c1; c2]) (ln kx)) + t * polyval (logq [c0; c1; c2]) (ln t))).
  - intros; symmetry; apply C09_Log2_integral.
  - evar_last. apply @is_derive_plus; [apply @is_derive_const|apply is_derive_logpoly; exact Ht].
    unfold plus, zero; cbn. ring.
Qed.
Theorem C09_Log2_area : forall c0 c1 c2 kx ky a b : R, 0 < a -> 0 < b ->
  is_RInt (fun t => polyval [c0; c1; c2] (ln t)) a b (F_Log2 c0 c1 c2 kx ky b - F_Log2 c0 c1 c2 kx ky a).
Proof. intros. rewrite !C09_Log2_integral. apply is_RInt_logpoly; assumption. Qed.

Theorem C09_Log3_indefinite : forall c0 c1 c2 c3 : R, evals ROps [c0; c1; c2; c3] k_Log_Poly3__indefinite = 0 :: logq [c0; c1; c2; c3].
Proof. intros. unfold k_Log_Poly3__indefinite. reval. norm_lits. unfold logq. cbn [logq_from]. list_ring. Qed.
Theorem C09_IntOfLog3_evaluate : forall k q0 q1 q2 q3 v : R, evals ROps [k; q0; q1; q2; q3; v] k_IntOfLog_Poly3__evaluate = [k + v * polyval [q0; q1; q2; q3] (ln v)].
Proof. intros. unfold k_IntOfLog_Poly3__evaluate. reval. cbn [polyval]. f_equal. ring. Qed.
(* F = integral(knot), evaluated at t:  F(t) = (knot.y - knot.x*q(ln knot.x)) + t*q(ln t) *)
Definition F_Log3 (c0 c1 c2 c3 kx ky t : R) : R :=
  hd 0 (evals ROps (evals ROps [c0; c1; c2; c3; kx; ky] k_Log_Poly3__integral ++ [t]) k_IntOfLog_Poly3__evaluate).
Theorem C09_Log3_integral : forall c0 c1 c2 c3 kx ky t : R,
  F_Log3 c0 c1 c2 c3 kx ky t = (ky - kx * polyval (logq [c0; c1; c2; c3]) (ln kx)) + t * polyval (logq [c0; c1; c2; c3]) (ln t).
Proof.
  intros. unfold F_Log3, k_Log_Poly3__integral. reval. norm_lits. cbn [app].
  unfold k_IntOfLog_Poly3__evaluate. reval. cbn [hd]. unfold logq. cbn [logq_from polyval]. simpl INR. ring.
Qed.
Theorem C09_Log3_knot : forall c0 c1 c2 c3 kx ky : R, F_Log3 c0 c1 c2 c3 kx ky kx = ky.
Proof. intros. rewrite C09_Log3_integral. ring. Qed.
Theorem C09_Log3_deriv : forall c0 c1 c2 c3 kx ky t : R, 0 < t ->
  is_derive (F_Log3 c0 c1 c2 c3 kx ky) t (polyval [c0; c1; c2; c3] (ln t)).
Proof.
  intros c0 c1 c2 c3 kx ky t Ht.
  apply (is_derive_ext (fun t => (ky - kx * polyval (logq [c0; c1; c2; c3]) (ln kx)) + t * polyval (logq [c0; c1; c2; c3]) (ln t))).
  - intros; symmetry; apply C09_Log3_integral.
  - evar_last. apply @is_derive_plus; [apply @is_derive_const|apply is_derive_logpoly; exact Ht].
    unfold plus, zero; cbn. ring.
Qed.
Theorem C09_Log3_area : forall c0 c1 c2 c3 kx ky a b : R, 0 < a -> 0 < b ->
  is_RInt (fun t => polyval [c0; c1; c2; c3] (ln t)) a b (F_Log3 c0 c1 c2 c3 kx ky b - F_Log3 c0 c1 c2 c3 kx ky a).
Proof. intros. rewrite !C09_Log3_integral. apply is_RInt_logpoly; assumption. Qed.

Theorem C09_Log5_indefinite : forall c0 c1 c2 c3 c4 c5 : R, evals ROps [c0; c1; c2; c3; c4; c5] k_Log_Poly5__indefinite = 0 :: logq [c0; c1; c2; c3; c4; c5].
Proof. intros. unfold k_Log_Poly5__indefinite. reval. norm_lits. unfold logq. cbn [logq_from]. list_ring. Qed.
Theorem C09_IntOfLog5_evaluate : forall k q0 q1 q2 q3 q4 q5 v : R, evals ROps [k; q0; q1; q2; q3; q4; q5; v] k_IntOfLog_Poly5__evaluate = [k + v * polyval [q0; q1; q2; q3; q4; q5] (ln v)].
Proof. intros. unfold k_IntOfLog_Poly5__evaluate. reval. cbn [polyval]. f_equal. ring. Qed.
(* F = integral(knot), evaluated at t:  F(t) = (knot.y - knot.x*q(ln knot.x)) + t*q(ln t) *)
Definition F_Log5 (c0 c1 c2 c3 c4 c5 kx ky t : R) : R :=
  hd 0 (evals ROps (evals ROps [c0; c1; c2; c3; c4; c5; kx; ky] k_Log_Poly5__integral ++ [t]) k_IntOfLog_Poly5__evaluate).
Theorem C09_Log5_integral : forall c0 c1 c2 c3 c4 c5 kx ky t : R,
  F_Log5 c0 c1 c2 c3 c4 c5 kx ky t = (ky - kx * polyval (logq [c0; c1; c2; c3; c4; c5]) (ln kx)) + t * polyval (logq [c0; c1; c2; c3; c4; c5]) (ln t).
Proof.
  intros. unfold F_Log5, k_Log_Poly5__integral. reval. norm_lits. cbn [app].
  unfold k_IntOfLog_Poly5__evaluate. reval. cbn [hd]. unfold logq. cbn [logq_from polyval]. simpl INR. ring.
Qed.
Theorem C09_Log5_knot : forall c0 c1 c2 c3 c4 c5 kx ky : R, F_Log5 c0 c1 c2 c3 c4 c5 kx ky kx = ky.
Proof. intros. rewrite C09_Log5_integral. ring. Qed.
Theorem C09_Log5_deriv : forall c0 c1 c2 c3 c4 c5 kx ky t : R, 0 < t ->
  is_derive (F_Log5 c0 c1 c2 c3 c4 c5 kx ky) t (polyval [c0; c1; c2; c3; c4; c5] (ln t)).
Proof.
  intros c0 c1 c2 c3 c4 c5 kx ky t Ht.
  apply (is_derive_ext (fun t => (ky - kx * polyval (logq [c0; c1; c2; c3; c4; c5]) (ln kx)) + t * polyval (logq [c0; c1; c2; c3; c4; c5]) (ln t))).
  - intros; symmetry; apply C09_Log5_integral.
  - evar_last. apply @is_derive_plus; [apply @is_derive_const|apply is_derive_logpoly; exact Ht].
    unfold plus, zero; cbn. ring.
Qed.
Theorem C09_Log5_area : forall c0 c1 c2 c3 c4 c5 kx ky a b : R, 0 < a -> 0 < b ->
  is_RInt (fun t => polyval [c0; c1; c2; c3; c4; c5] (ln t)) a b (F_Log5 c0 c1 c2 c3 c4 c5 kx ky b - F_Log5 c0 c1 c2 c3 c4 c5 kx ky a).
Proof. intros. rewrite !C09_Log5_integral. apply is_RInt_logpoly; assumption. Qed.

Theorem C09_Log6_indefinite : forall c0 c1 c2 c3 c4 c5 c6 : R, evals ROps [c0; c1; c2; c3; c4; c5; c6] k_Log_Poly6__indefinite = 0 :: logq [c0; c1; c2; c3; c4; c5; c6].
Proof. intros. unfold k_Log_Poly6__indefinite. reval. norm_lits. unfold logq. cbn [logq_from]. list_ring. Qed.
Theorem C09_IntOfLog6_evaluate : forall k q0 q1 q2 q3 q4 q5 q6 v : R, evals ROps [k; q0; q1; q2; q3; q4; q5; q6; v] k_IntOfLog_Poly6__evaluate = [k + v * polyval [q0; q1; q2; q3; q4; q5; q6] (ln v)].
Proof. intros. unfold k_IntOfLog_Poly6__evaluate. reval. cbn [polyval]. f_equal. ring. Qed.
(* F = integral(knot), evaluated at t:  F(t) = (knot.y - knot.x*q(ln knot.x)) + t*q(ln t) *)
Definition F_Log6 (c0 c1 c2 c3 c4 c5 c6 kx ky t : R) : R :=
  hd 0 (evals ROps (evals ROps [c0; c1; c2; c3; c4; c5; c6; kx; ky] k_Log_Poly6__integral ++ [t]) k_IntOfLog_Poly6__evaluate).
Theorem C09_Log6_integral : forall c0 c1 c2 c3 c4 c5 c6 kx ky t : R,
  F_Log6 c0 c1 c2 c3 c4 c5 c6 kx ky t = (ky - kx * polyval (logq [c0; c1; c2; c3; c4; c5; c6]) (ln kx)) + t * polyval (logq [c0; c1; c2; c3; c4; c5; c6]) (ln t).
Proof.
  intros. unfold F_Log6, k_Log_Poly6__integral. reval. norm_lits. cbn [app].
  unfold k_IntOfLog_Poly6__evaluate. reval. cbn [hd]. unfold logq. cbn [logq_from polyval]. simpl INR. ring.
Qed.
Theorem C09_Log6_knot : forall c0 c1 c2 c3 c4 c5 c6 kx ky : R, F_Log6 c0 c1 c2 c3 c4 c5 c6 kx ky kx = ky.
Proof. intros. rewrite C09_Log6_integral. ring. Qed.
Theorem C09_Log6_deriv : forall c0 c1 c2 c3 c4 c5 c6 kx ky t : R, 0 < t ->
  is_derive (F_Log6 c0 c1 c2 c3 c4 c5 c6 kx ky) t (polyval [c0; c1; c2; c3; c4; c5; c6] (ln t)).
Proof.
  intros c0 c1 c2 c3 c4 c5 c6 kx ky t Ht.
  apply (is_derive_ext (fun t => (ky - kx * polyval (logq [c0; c1; c2; c3; c4; c5; c6]) (ln kx)) + t * polyval (logq [c0; c1; c2; c3; c4; c5; c6]) (ln t))).
  - intros; symmetry; apply C09_Log6_integral.
  - evar_last. apply @is_derive_plus; [apply @is_derive_const|apply is_derive_logpoly; exact Ht].
    unfold plus, zero; cbn. ring.
Qed.
Theorem C09_Log6_area : forall c0 c1 c2 c3 c4 c5 c6 kx ky a b : R, 0 < a -> 0 < b ->
  is_RInt (fun t => polyval [c0; c1; c2; c3; c4; c5; c6] (ln t)) a b (F_Log6 c0 c1 c2 c3 c4 c5 c6 kx ky b - F_Log6 c0 c1 c2 c3 c4 c5 c6 kx ky a).
Proof. intros. rewrite !C09_Log6_integral. apply is_RInt_logpoly; assumption. Qed.

Theorem C09_Log7_indefinite : forall c0 c1 c2 c3 c4 c5 c6 c7 : R, evals ROps [c0; c1; c2; c3; c4; c5; c6; c7] k_Log_Poly7__indefinite = 0 :: logq [c0; c1; c2; c3; c4; c5; c6; c7].
Proof. intros. unfold k_Log_Poly7__indefinite. reval. norm_lits. unfold logq. cbn [logq_from]. list_ring. Qed.
Theorem C09_IntOfLog7_evaluate : forall k q0 q1 q2 q3 q4 q5 q6 q7 v : R, evals ROps [k; q0; q1; q2; q3; q4; q5; q6; q7; v] k_IntOfLog_Poly7__evaluate = [k + v * polyval [q0; q1; q2; q3; q4; q5; q6; q7] (ln v)].
Proof. intros. unfold k_IntOfLog_Poly7__evaluate. reval. cbn [polyval]. f_equal. ring. Qed.
(* F = integral(knot), evaluated at t:  F(t) = (knot.y - knot.x*q(ln knot.x)) + t*q(ln t) *)
Definition F_Log7 (c0 c1 c2 c3 c4 c5 c6 c7 kx ky t : R) : R :=
  hd 0 (evals ROps (evals ROps [c0; c1; c2; c3; c4; c5; c6; c7; kx; ky] k_Log_Poly7__integral ++ [t]) k_IntOfLog_Poly7__evaluate).
Theorem C09_Log7_integral : forall c0 c1 c2 c3 c4 c5 c6 c7 kx ky t : R,
  F_Log7 c0 c1 c2 c3 c4 c5 c6 c7 kx ky t = (ky - kx * polyval (logq [c0; c1; c2; c3; c4; c5; c6; c7]) (ln kx)) + t * polyval (logq [c0; c1; c2; c3; c4; c5; c6; c7]) (ln t).
Proof.
  intros. unfold F_Log7, k_Log_Poly7__integral. reval. norm_lits. cbn [app].
  unfold k_IntOfLog_Poly7__evaluate. reval. cbn [hd]. unfold logq. cbn [logq_from polyval]. simpl INR. ring.
Qed.
Theorem C09_Log7_knot : forall c0 c1 c2 c3 c4 c5 c6 c7 kx ky : R, F_Log7 c0 c1 c2 c3 c4 c5 c6 c7 kx ky kx = ky.
Proof. intros. rewrite C09_Log7_integral. ring. Qed.
Theorem C09_Log7_deriv : forall c0 c1 c2 c3 c4 c5 c6 c7 kx ky t : R, 0 < t ->
  is_derive (F_Log7 c0 c1 c2 c3 c4 c5 c6 c7 kx ky) t (polyval [c0; c1; c2; c3; c4; c5; c6; c7] (ln t)).
Proof.
  intros c0 c1 c2 c3 c4 c5 c6 c7 kx ky t Ht.
  apply (is_derive_ext (fun t => (ky - kx * polyval (logq [c0; c1; c2; c3; c4; c5; c6; c7]) (ln kx)) + t * polyval (logq [c0; c1; c2; c3; c4; c5; c6; c7]) (ln t))).
  - intros; symmetry; apply C09_Log7_integral.
  - evar_last. apply @is_derive_plus; [apply @is_derive_const|apply is_derive_logpoly; exact Ht].
    unfold plus, zero; cbn. ring.
Qed.
Theorem C09_Log7_area : forall c0 c1 c2 c3 c4 c5 c6 c7 kx ky a b : R, 0 < a -> 0 < b ->
  is_RInt (fun t => polyval [c0; c1; c2; c3; c4; c5; c6; c7] (ln t)) a b (F_Log7 c0 c1 c2 c3 c4 c5 c6 c7 kx ky b - F_Log7 c0 c1 c2 c3 c4 c5 c6 c7 kx ky a).
Proof. intros. rewrite !C09_Log7_integral. apply is_RInt_logpoly; assumption. Qed.

Theorem C09_Log8_indefinite : forall c0 c1 c2 c3 c4 c5 c6 c7 c8 : R, evals ROps [c0; c1; c2; c3; c4; c5; c6; c7; c8] k_Log_Poly8__indefinite = 0 :: logq [c0; c1; c2; c3; c4; c5; c6; c7; c8].
Proof. intros. unfold k_Log_Poly8__indefinite. reval. norm_lits. unfold logq. cbn [logq_from]. list_ring. Qed.
Theorem C09_IntOfLog8_evaluate : forall k q0 q1 q2 q3 q4 q5 q6 q7 q8 v : R, evals ROps [k; q0; q1; q2; q3; q4; q5; q6; q7; q8; v] k_IntOfLog_Poly8__evaluate = [k + v * polyval [q0; q1; q2; q3; q4; q5; q6; q7; q8] (ln v)].
Proof. intros. unfold k_IntOfLog_Poly8__evaluate. reval. cbn [polyval]. f_equal. ring. Qed.
(* F = integral(knot), evaluated at t:  F(t) = (knot.y - knot.x*q(ln knot.x)) + t*q(ln t) *)
Definition F_Log8 (c0 c1 c2 c3 c4 c5 c6 c7 c8 kx ky t : R) : R :=
  hd 0 (evals ROps (evals ROps [c0; c1; c2; c3; c4; c5; c6; c7; c8; kx; ky] k_Log_Poly8__integral ++ [t]) k_IntOfLog_Poly8__evaluate).
Theorem C09_Log8_integral : forall c0 c1 c2 c3 c4 c5 c6 c7 c8 kx ky t : R,
  F_Log8 c0 c1 c2 c3 c4 c5 c6 c7 c8 kx ky t = (ky - kx * polyval (logq [c0; c1; c2; c3; c4; c5; c6; c7; c8]) (ln kx)) + t * polyval (logq [c0; c1; c2; c3; c4; c5; c6; c7; c8]) (ln t).
Proof.
  intros. unfold F_Log8, k_Log_Poly8__integral. reval. norm_lits. cbn [app].
  unfold k_IntOfLog_Poly8__evaluate. reval. cbn [hd]. unfold logq. cbn [logq_from polyval]. simpl INR. ring.
Qed.
Theorem C09_Log8_knot : forall c0 c1 c2 c3 c4 c5 c6 c7 c8 kx ky : R, F_Log8 c0 c1 c2 c3 c4 c5 c6 c7 c8 kx ky kx = ky.
Proof. intros. rewrite C09_Log8_integral. ring. Qed.
Theorem C09_Log8_deriv : forall c0 c1 c2 c3 c4 c5 c6 c7 c8 kx ky t : R, 0 < t ->
  is_derive (F_Log8 c0 c1 c2 c3 c4 c5 c6 c7 c8 kx ky) t (polyval [c0; c1; c2; c3; c4; c5; c6; c7; c8] (ln t)).
Proof.
  intros c0 c1 c2 c3 c4 c5 c6 c7 c8 kx ky t Ht.
  apply (is_derive_ext (fun t => (ky - kx * polyval (logq [c0; c1; c2; c3; c4; c5; c6; c7; c8]) (ln kx)) + t * polyval (logq [c0; c1; c2; c3; c4; c5; c6; c7; c8]) (ln t))).
  - intros; symmetry; apply C09_Log8_integral.
  - evar_last. apply @is_derive_plus; [apply @is_derive_const|apply is_derive_logpoly; exact Ht].
    unfold plus, zero; cbn. ring.
Qed.
Theorem C09_Log8_area : forall c0 c1 c2 c3 c4 c5 c6 c7 c8 kx ky a b : R, 0 < a -> 0 < b ->
  is_RInt (fun t => polyval [c0; c1; c2; c3; c4; c5; c6; c7; c8] (ln t)) a b (F_Log8 c0 c1 c2 c3 c4 c5 c6 c7 c8 kx ky b - F_Log8 c0 c1 c2 c3 c4 c5 c6 c7 c8 kx ky a).
Proof. intros. rewrite !C09_Log8_integral. apply is_RInt_logpoly; assumption. Qed.


(* ---- the quartic degree: IntOfLogPoly4 ---- *)
(* the closed form of the representation, over the reals (x = -ln v):
   F(v) = k + v*(a x + b x^2 + c x^3 + d x^4) + u*v*x^5*R5(x),  R5(x) = (e^x - sum_{j<5} x^j/j!)/x^5 *)
Theorem C09_Log4_indefinite : forall c0 c1 c2 c3 c4 : R,
  evals ROps [c0; c1; c2; c3; c4] k_Log_Poly4__indefinite =
  [0; - c0; (- c0 + c1) / 2; ((- c0 + c1) / 2 - c2) / 3; (((- c0 + c1) / 2 - c2) / 3 + c3) / 4;
   ((((- c0 + c1) / 2 - c2) / 3 + c3) / 4 - c4) * 24].
Proof. intros. unfold k_Log_Poly4__indefinite. reval. norm_lits. repeat (apply f_equal2; [try (field; lra)|]). reflexivity. Qed.
(* G4: the exact antiderivative in the quartic representation (closed form of the tail) *)
Theorem C09_Log4_deriv : forall c0 c1 c2 c3 c4 k t : R, 0 < t ->
  is_derive (quartic_closed k (- c0) ((- c0 + c1) / 2) (((- c0 + c1) / 2 - c2) / 3) ((((- c0 + c1) / 2 - c2) / 3 + c3) / 4)
                            (((((- c0 + c1) / 2 - c2) / 3 + c3) / 4 - c4) * 24)) t
            (polyval [c0; c1; c2; c3; c4] (ln t)).
Proof. intros. apply quartic_closed_deriv. exact H. Qed.

(* the constructor of the quartic degree: the regenerated Log<Poly4>::integral IS (as a term) Log<Poly4>::indefinite with the additive
   constant shifted by knot.y - evaluate(indefinite)(knot.x) - for every knot, with no special treatment of any abscissa *)
Theorem C09_Log4_integral_shape :
  k_Log_Poly4__integral =
  Add (hd (Lit 0) k_Log_Poly4__indefinite) (Sub (Var 6) (ErrorBound.subst (k_Log_Poly4__indefinite ++ [Var 5]) e_Q4)) :: tl k_Log_Poly4__indefinite.
Proof. exact Log4_integral_shape. Qed.
(* hence the returned form, evaluated by the crate's evaluator at knot.x, is knot.y *)
Theorem C09_Log4_knot : forall c0 c1 c2 c3 c4 kx ky : R,
  eval ROps (evals ROps [c0; c1; c2; c3; c4; kx; ky] k_Log_Poly4__integral ++ [kx]) e_Q4 = ky.
Proof. exact Log4_knot. Qed.

(* the evaluator of the quartic representation (regenerated IntOfLogPoly4::evaluate) computes that closed form: outside the
   series window exactly, inside it with the exponential tail replaced by its 16-term series (whose truncation error is
   bounded in C10_trunc / C10_no_jump); so the function returned by Log<Poly4>::integral / indefinite, evaluated by the crate's
   own evaluate, is the antiderivative of C09_Log4_deriv. A change to the evaluator breaks these (as it breaks C10's). *)
Theorem C09_Log4_evaluate_closed : forall k c1 c2 c3 c4 u v : R,
  let x := - ln v in ~ (thr_lo < x /\ x < thr_hi) -> x <> 0 ->
  eval ROps [k; c1; c2; c3; c4; u; v] e_Q4 = quartic_closed k c1 c2 c3 c4 u v.
Proof. exact form_closed. Qed.
Theorem C09_Log4_evaluate_series : forall k c1 c2 c3 c4 u v : R,
  let x := - ln v in thr_lo < x -> x < thr_hi ->
  eval ROps [k; c1; c2; c3; c4; u; v] e_Q4 = k + v * (c1 * x + c2 * x ^ 2 + c3 * x ^ 3 + c4 * x ^ 4) + u * v * x ^ 5 * S16 x.
Proof. exact form_series. Qed.
