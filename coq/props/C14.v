(* C14 - scaling, negation, addition, subtraction and translation of every function form act
   number by number, each number being ONE correctly rounded binary64 operation. *)
From Coq Require Import List ZArith Reals.
Require Import PP.FloatModel PP.Expr PP.FloatOps PP.FloatFacts PP.Shapes PP.PolyFacts PP.ExpTail PP.Proofs.ValueForms PP.Model.PwModel PP.Gen.Kernels.
Import ListNotations.

(* Every operator implementation that exists, with the lanes it must compute.  A value of a form with
   n numbers occupies inputs 0..n-1 (additive constant first for both log-integral forms), the scalar /
   second operand follows.  spec_mul n: lane i = x_i * x_n;  spec_neg n: lane i = -x_i;
   spec_add n: lane i = x_i + x_(n+i);  spec_sub n: lane i = x_i - x_(n+i);
   spec_translate n 0: lane 0 = x_0 + x_n, every other lane is the input itself. *)
Definition C14_table : list (list expr * list lane) := [
  (k_Poly0__mul, spec_mul 1);
  (k_Poly0__mul_assign, spec_mul 1);
  (k_Poly0__neg, spec_neg 1);
  (k_Poly0__add, spec_add 1);
  (k_Poly0__translate, spec_translate 1 0);
  (k_Poly1__mul, spec_mul 2);
  (k_Poly1__mul_assign, spec_mul 2);
  (k_Poly1__neg, spec_neg 2);
  (k_Poly1__add, spec_add 2);
  (k_Poly1__translate, spec_translate 2 0);
  (k_Poly2__mul, spec_mul 3);
  (k_Poly2__mul_assign, spec_mul 3);
  (k_Poly2__neg, spec_neg 3);
  (k_Poly2__add, spec_add 3);
  (k_Poly2__translate, spec_translate 3 0);
  (k_Poly3__mul, spec_mul 4);
  (k_Poly3__mul_assign, spec_mul 4);
  (k_Poly3__neg, spec_neg 4);
  (k_Poly3__add, spec_add 4);
  (k_Poly3__translate, spec_translate 4 0);
  (k_Poly4__mul, spec_mul 5);
  (k_Poly4__mul_assign, spec_mul 5);
  (k_Poly4__neg, spec_neg 5);
  (k_Poly4__add, spec_add 5);
  (k_Poly4__translate, spec_translate 5 0);
  (k_Poly5__mul, spec_mul 6);
  (k_Poly5__mul_assign, spec_mul 6);
  (k_Poly5__neg, spec_neg 6);
  (k_Poly5__add, spec_add 6);
  (k_Poly5__translate, spec_translate 6 0);
  (k_Poly6__mul, spec_mul 7);
  (k_Poly6__mul_assign, spec_mul 7);
  (k_Poly6__neg, spec_neg 7);
  (k_Poly6__add, spec_add 7);
  (k_Poly6__translate, spec_translate 7 0);
  (k_Poly7__mul, spec_mul 8);
  (k_Poly7__mul_assign, spec_mul 8);
  (k_Poly7__neg, spec_neg 8);
  (k_Poly7__add, spec_add 8);
  (k_Poly7__translate, spec_translate 8 0);
  (k_Poly8__mul, spec_mul 9);
  (k_Poly8__mul_assign, spec_mul 9);
  (k_Poly8__neg, spec_neg 9);
  (k_Poly8__add, spec_add 9);
  (k_Poly8__translate, spec_translate 9 0);
  (k_Log_Poly0__mul, spec_mul 1);
  (k_Log_Poly0__mul_assign, spec_mul 1);
  (k_Log_Poly0__translate, spec_translate 1 0);
  (k_Log_Poly1__mul, spec_mul 2);
  (k_Log_Poly1__mul_assign, spec_mul 2);
  (k_Log_Poly1__translate, spec_translate 2 0);
  (k_Log_Poly2__mul, spec_mul 3);
  (k_Log_Poly2__mul_assign, spec_mul 3);
  (k_Log_Poly2__translate, spec_translate 3 0);
  (k_Log_Poly3__mul, spec_mul 4);
  (k_Log_Poly3__mul_assign, spec_mul 4);
  (k_Log_Poly3__translate, spec_translate 4 0);
  (k_Log_Poly4__mul, spec_mul 5);
  (k_Log_Poly4__mul_assign, spec_mul 5);
  (k_Log_Poly4__translate, spec_translate 5 0);
  (k_Log_Poly5__mul, spec_mul 6);
  (k_Log_Poly5__mul_assign, spec_mul 6);
  (k_Log_Poly5__translate, spec_translate 6 0);
  (k_Log_Poly6__mul, spec_mul 7);
  (k_Log_Poly6__mul_assign, spec_mul 7);
  (k_Log_Poly6__translate, spec_translate 7 0);
  (k_Log_Poly7__mul, spec_mul 8);
  (k_Log_Poly7__mul_assign, spec_mul 8);
  (k_Log_Poly7__translate, spec_translate 8 0);
  (k_Log_Poly8__mul, spec_mul 9);
  (k_Log_Poly8__mul_assign, spec_mul 9);
  (k_Log_Poly8__translate, spec_translate 9 0);
  (k_IntOfLog_Poly0__mul, spec_mul 2);
  (k_IntOfLog_Poly0__mul_assign, spec_mul 2);
  (k_IntOfLog_Poly0__neg, spec_neg 2);
  (k_IntOfLog_Poly0__add, spec_add 2);
  (k_IntOfLog_Poly0__translate, spec_translate 2 0);
  (k_IntOfLog_Poly1__mul, spec_mul 3);
  (k_IntOfLog_Poly1__mul_assign, spec_mul 3);
  (k_IntOfLog_Poly1__neg, spec_neg 3);
  (k_IntOfLog_Poly1__add, spec_add 3);
  (k_IntOfLog_Poly1__translate, spec_translate 3 0);
  (k_IntOfLog_Poly2__mul, spec_mul 4);
  (k_IntOfLog_Poly2__mul_assign, spec_mul 4);
  (k_IntOfLog_Poly2__neg, spec_neg 4);
  (k_IntOfLog_Poly2__add, spec_add 4);
  (k_IntOfLog_Poly2__translate, spec_translate 4 0);
  (k_IntOfLog_Poly3__mul, spec_mul 5);
  (k_IntOfLog_Poly3__mul_assign, spec_mul 5);
  (k_IntOfLog_Poly3__neg, spec_neg 5);
  (k_IntOfLog_Poly3__add, spec_add 5);
  (k_IntOfLog_Poly3__translate, spec_translate 5 0);
  (k_IntOfLog_Poly4__mul, spec_mul 6);
  (k_IntOfLog_Poly4__mul_assign, spec_mul 6);
  (k_IntOfLog_Poly4__neg, spec_neg 6);
  (k_IntOfLog_Poly4__add, spec_add 6);
  (k_IntOfLog_Poly4__translate, spec_translate 6 0);
  (k_IntOfLog_Poly5__mul, spec_mul 7);
  (k_IntOfLog_Poly5__mul_assign, spec_mul 7);
  (k_IntOfLog_Poly5__neg, spec_neg 7);
  (k_IntOfLog_Poly5__add, spec_add 7);
  (k_IntOfLog_Poly5__translate, spec_translate 7 0);
  (k_IntOfLog_Poly6__mul, spec_mul 8);
  (k_IntOfLog_Poly6__mul_assign, spec_mul 8);
  (k_IntOfLog_Poly6__neg, spec_neg 8);
  (k_IntOfLog_Poly6__add, spec_add 8);
  (k_IntOfLog_Poly6__translate, spec_translate 8 0);
  (k_IntOfLog_Poly7__mul, spec_mul 9);
  (k_IntOfLog_Poly7__mul_assign, spec_mul 9);
  (k_IntOfLog_Poly7__neg, spec_neg 9);
  (k_IntOfLog_Poly7__add, spec_add 9);
  (k_IntOfLog_Poly7__translate, spec_translate 9 0);
  (k_IntOfLog_Poly8__mul, spec_mul 10);
  (k_IntOfLog_Poly8__mul_assign, spec_mul 10);
  (k_IntOfLog_Poly8__neg, spec_neg 10);
  (k_IntOfLog_Poly8__add, spec_add 10);
  (k_IntOfLog_Poly8__translate, spec_translate 10 0);
  (k_IntOfLogPoly4__mul, spec_mul 6);
  (k_IntOfLogPoly4__neg, spec_neg 6);
  (k_IntOfLogPoly4__add, spec_add 6);
  (k_IntOfLogPoly4__sub, spec_sub 6);
  (k_IntOfLogPoly4__translate, spec_translate 6 0);
  (k_ref_IntOfLogPoly4__add, spec_add 6);
  (k_ref_IntOfLogPoly4__sub, spec_sub 6)
].

(* for every input (all 2^64 bit patterns per number, NaN and infinities included) each operator's
   outputs are exactly the IEEE-754 operations of its specification, bit for bit *)
Theorem C14_shapes :
  Forall (fun p => forall env, evals FOps0 env (fst p) = map (lane_sem env) (snd p)) C14_table.
Proof. apply table_ok_sem. vm_compute. reflexivity. Qed.

(* `*=` gives exactly the result of `*` *)
Definition C14_mul_pairs : list (list expr * list expr * list lane) := [
  (k_Poly0__mul, k_Poly0__mul_assign, spec_mul 1);
  (k_Poly1__mul, k_Poly1__mul_assign, spec_mul 2);
  (k_Poly2__mul, k_Poly2__mul_assign, spec_mul 3);
  (k_Poly3__mul, k_Poly3__mul_assign, spec_mul 4);
  (k_Poly4__mul, k_Poly4__mul_assign, spec_mul 5);
  (k_Poly5__mul, k_Poly5__mul_assign, spec_mul 6);
  (k_Poly6__mul, k_Poly6__mul_assign, spec_mul 7);
  (k_Poly7__mul, k_Poly7__mul_assign, spec_mul 8);
  (k_Poly8__mul, k_Poly8__mul_assign, spec_mul 9);
  (k_Log_Poly0__mul, k_Log_Poly0__mul_assign, spec_mul 1);
  (k_Log_Poly1__mul, k_Log_Poly1__mul_assign, spec_mul 2);
  (k_Log_Poly2__mul, k_Log_Poly2__mul_assign, spec_mul 3);
  (k_Log_Poly3__mul, k_Log_Poly3__mul_assign, spec_mul 4);
  (k_Log_Poly4__mul, k_Log_Poly4__mul_assign, spec_mul 5);
  (k_Log_Poly5__mul, k_Log_Poly5__mul_assign, spec_mul 6);
  (k_Log_Poly6__mul, k_Log_Poly6__mul_assign, spec_mul 7);
  (k_Log_Poly7__mul, k_Log_Poly7__mul_assign, spec_mul 8);
  (k_Log_Poly8__mul, k_Log_Poly8__mul_assign, spec_mul 9);
  (k_IntOfLog_Poly0__mul, k_IntOfLog_Poly0__mul_assign, spec_mul 2);
  (k_IntOfLog_Poly1__mul, k_IntOfLog_Poly1__mul_assign, spec_mul 3);
  (k_IntOfLog_Poly2__mul, k_IntOfLog_Poly2__mul_assign, spec_mul 4);
  (k_IntOfLog_Poly3__mul, k_IntOfLog_Poly3__mul_assign, spec_mul 5);
  (k_IntOfLog_Poly4__mul, k_IntOfLog_Poly4__mul_assign, spec_mul 6);
  (k_IntOfLog_Poly5__mul, k_IntOfLog_Poly5__mul_assign, spec_mul 7);
  (k_IntOfLog_Poly6__mul, k_IntOfLog_Poly6__mul_assign, spec_mul 8);
  (k_IntOfLog_Poly7__mul, k_IntOfLog_Poly7__mul_assign, spec_mul 9);
  (k_IntOfLog_Poly8__mul, k_IntOfLog_Poly8__mul_assign, spec_mul 10);
  (k_IntOfLogPoly4__add, k_ref_IntOfLogPoly4__add, spec_add 6);
  (k_IntOfLogPoly4__sub, k_ref_IntOfLogPoly4__sub, spec_sub 6)
].
Theorem C14_mul_assign :
  Forall (fun p => forall env, evals FOps0 env (fst (fst p)) = evals FOps0 env (snd (fst p))) C14_mul_pairs.
Proof. apply pairs_ok_sem. vm_compute. reflexivity. Qed.

(* translate on the dynamic-degree polynomial: empty becomes the constant, otherwise only c0 changes *)
Theorem C14_polyn_translate : forall (cs : list F) (v : F),
  polyn_translate fadd cs v = match cs with [] => [v] | c0 :: r => fadd c0 v :: r end.
Proof. intros [|c0 r] v; reflexivity. Qed.

(* value-level consequences over the reals for polynomial coefficient lists *)
Theorem C14_value_scale : forall (cs : list R) (s x : R), polyval (map (fun c => (c * s)%R) cs) x = (s * polyval cs x)%R.
Proof. exact polyval_scale. Qed.
Theorem C14_value_neg : forall cs x, polyval (map Ropp cs) x = (- polyval cs x)%R.
Proof. exact polyval_neg. Qed.
Theorem C14_value_add : forall a b x, length a = length b -> polyval (zip_with Rplus a b) x = (polyval a x + polyval b x)%R.
Proof. exact polyval_add. Qed.
Theorem C14_value_sub : forall a b x, length a = length b -> polyval (zip_with Rminus a b) x = (polyval a x - polyval b x)%R.
Proof. exact polyval_sub. Qed.
Theorem C14_value_translate : forall c r v x, polyval ((c + v)%R :: r) x = (polyval (c :: r) x + v)%R.
Proof. exact polyval_translate. Qed.

(* ... and for the log forms.  log_val cs v = polyval cs (ln v) is the value of Log<P>; intoflog_val k cs v = k + v * polyval cs (ln v)
   is the real value of the regenerated IntOfLog<P> evaluator (C09_IntOfLogK_evaluate); quartic_closed is the real value of
   IntOfLogPoly4::evaluate (C09_Log4_evaluate_closed / _series).  Together with C14_shapes (each number of the result is the one
   rounded operation on the corresponding numbers) these give (f*s)(v) = s f(v), (-f)(v) = -f(v), (f+g)(v) = f(v)+g(v),
   (f-g)(v) = f(v)-g(v) and translate(c) raising the value by c at every v, with translate touching the additive constant only. *)
Theorem C14_value_log_scale : forall cs s v, log_val (map (fun c => (c * s)%R) cs) v = (s * log_val cs v)%R.
Proof. exact log_scale. Qed.
Theorem C14_value_log_neg : forall cs v, log_val (map Ropp cs) v = (- log_val cs v)%R.
Proof. exact log_neg. Qed.
Theorem C14_value_log_add : forall a b v, length a = length b -> log_val (zip_with Rplus a b) v = (log_val a v + log_val b v)%R.
Proof. exact log_add. Qed.
Theorem C14_value_log_translate : forall c r x v, log_val ((c + x)%R :: r) v = (log_val (c :: r) v + x)%R.
Proof. exact log_translate. Qed.
Theorem C14_value_intoflog_scale : forall k cs s v, intoflog_val (k * s) (map (fun c => (c * s)%R) cs) v = (s * intoflog_val k cs v)%R.
Proof. exact intoflog_scale. Qed.
Theorem C14_value_intoflog_neg : forall k cs v, intoflog_val (- k) (map Ropp cs) v = (- intoflog_val k cs v)%R.
Proof. exact intoflog_neg. Qed.
Theorem C14_value_intoflog_add : forall k1 k2 a b v, length a = length b ->
  intoflog_val (k1 + k2) (zip_with Rplus a b) v = (intoflog_val k1 a v + intoflog_val k2 b v)%R.
Proof. exact intoflog_add. Qed.
Theorem C14_value_intoflog_translate : forall k cs c v, intoflog_val (k + c) cs v = (intoflog_val k cs v + c)%R.
Proof. exact intoflog_translate. Qed.
Theorem C14_value_quartic_scale : forall k a b c d u s v,
  quartic_closed (k * s) (a * s) (b * s) (c * s) (d * s) (u * s) v = (s * quartic_closed k a b c d u v)%R.
Proof. exact quartic_scale. Qed.
Theorem C14_value_quartic_neg : forall k a b c d u v, quartic_closed (- k) (- a) (- b) (- c) (- d) (- u) v = (- quartic_closed k a b c d u v)%R.
Proof. exact quartic_neg. Qed.
Theorem C14_value_quartic_add : forall k a b c d u k' a' b' c' d' u' v,
  quartic_closed (k + k') (a + a') (b + b') (c + c') (d + d') (u + u') v = (quartic_closed k a b c d u v + quartic_closed k' a' b' c' d' u' v)%R.
Proof. exact quartic_add. Qed.
Theorem C14_value_quartic_sub : forall k a b c d u k' a' b' c' d' u' v,
  quartic_closed (k - k') (a - a') (b - b') (c - c') (d - d') (u - u') v = (quartic_closed k a b c d u v - quartic_closed k' a' b' c' d' u' v)%R.
Proof. exact quartic_sub. Qed.
Theorem C14_value_quartic_translate : forall k a b c d u x v, quartic_closed (k + x) a b c d u v = (quartic_closed k a b c d u v + x)%R.
Proof. exact quartic_translate. Qed.

(* non-vacuity: Poly3 * 3.0 on [1,2,3,4] run inside Coq *)
Example C14_example :
  run_kernel [] [] k_Poly3__mul [4607182418800017408; 4611686018427387904; 4613937818241073152; 4616189618054758400; 4613937818241073152]%Z
  = [4613937818241073152; 4618441417868443648; 4621256167635550208; 4622945017495814144]%Z.
Proof. vm_compute. reflexivity. Qed.
