(* Running error analysis: for ANY generated term (general division, cancellation, one-sided `if`, f64::max)
   a bound err_run on |fl(e) - e| computed from the binary64 values of the subterms and the bounds of the
   subterms.  By construction err_run is u = 2^-53 times sums of magnitudes of intermediate results, amplified
   through divisions by 1/(|denominator| - its own error): the precise form of "a small multiple of 2^-53 times the
   magnitudes of the intermediate terms of the construction" (C04-C06). *)
From Coq Require Import ZArith Reals Lra Psatz List Bool Arith.
From Flocq Require Import Core BinarySingleNaN.
Require Import PP.FloatModel PP.FloatOrder PP.Expr PP.FloatOps PP.FloatFacts PP.RealOps PP.ErrorBound.
Import ListNotations.
Local Open Scope R_scope.

Definition bev (env : list F) (c : bexpr) : bool := beval FOps0 env c.
Definition brval (env : list F) (c : bexpr) : bool := beval ROps (map B2R env) c.

Fixpoint err_run (env : list F) (e : expr) : R :=
  let v x := B2R (fev env x) in
  match e with
  | Var _ | Lit _ => 0
  | Neg a => err_run env a
  | Add a b => err_run env a + err_run env b + u * Rabs (v a + v b)
  | Sub a b => err_run env a + err_run env b + u * Rabs (v a - v b)
  | Mul a b => Rabs (v a) * err_run env b + err_run env a * (Rabs (v b) + err_run env b) + u * Rabs (v a * v b)
  | Fma a b c => Rabs (v a) * err_run env b + err_run env a * (Rabs (v b) + err_run env b) + err_run env c
                 + u * Rabs (v a * v b + v c)
  | Div a b => (Rabs (v a) * err_run env b + err_run env a * Rabs (v b)) / (Rabs (v b) * (Rabs (v b) - err_run env b))
               + u * Rabs (v a / v b)
  | Max a b => Rmax (err_run env a) (err_run env b)
  | If c t f => if bev env c then err_run env t else err_run env f
  | Ln _ | Exp _ | Min _ _ | Abs _ => 0
  end.

(* side conditions: standard model at every operation; denominators stay away from zero by more than their own
   error; the float run and the exact run take the same branch of every `if` *)
Fixpoint safe_run (env : list F) (e : expr) : Prop :=
  let v x := B2R (fev env x) in
  let ok2 r := nounder r /\ noover r in
  match e with
  | Var n => is_finite (nth n env fnan) = true
  | Lit b => is_finite (of_bits b) = true
  | Neg a => safe_run env a
  | Add a b => safe_run env a /\ safe_run env b /\ ok2 (v a + v b)
  | Sub a b => safe_run env a /\ safe_run env b /\ ok2 (v a - v b)
  | Mul a b => safe_run env a /\ safe_run env b /\ ok2 (v a * v b)
  | Fma a b c => safe_run env a /\ safe_run env b /\ safe_run env c /\ ok2 (v a * v b + v c)
  | Div a b => safe_run env a /\ safe_run env b /\ err_run env b < Rabs (v b) /\ ok2 (v a / v b)
  | Max a b => safe_run env a /\ safe_run env b
  | If c t f => bev env c = brval env c /\ (if bev env c then safe_run env t else safe_run env f)
  | Ln _ | Exp _ | Min _ _ | Abs _ => False
  end.

Lemma err_run_nonneg env e : safe_run env e -> 0 <= err_run env e.
Proof.
  assert (Hu := u_pos).
  induction e; cbn [safe_run err_run]; intros Hs; try lra; try contradiction.
  - destruct Hs as (H1 & H2 & _). specialize (IHe1 H1). specialize (IHe2 H2).
    assert (0 <= u * Rabs (B2R (fev env e1) + B2R (fev env e2))) by (apply Rmult_le_pos; [lra|apply Rabs_pos]). lra.
  - destruct Hs as (H1 & H2 & _). specialize (IHe1 H1). specialize (IHe2 H2).
    assert (0 <= u * Rabs (B2R (fev env e1) - B2R (fev env e2))) by (apply Rmult_le_pos; [lra|apply Rabs_pos]). lra.
  - destruct Hs as (H1 & H2 & _). specialize (IHe1 H1). specialize (IHe2 H2).
    assert (A1 := Rabs_pos (B2R (fev env e1))). assert (A2 := Rabs_pos (B2R (fev env e2))).
    assert (0 <= u * Rabs (B2R (fev env e1) * B2R (fev env e2))) by (apply Rmult_le_pos; [lra|apply Rabs_pos]). nra.
  - destruct Hs as (H1 & H2 & Hd & _). specialize (IHe1 H1). specialize (IHe2 H2).
    assert (A1 := Rabs_pos (B2R (fev env e1))). assert (A2 := Rabs_pos (B2R (fev env e2))).
    assert (0 <= u * Rabs (B2R (fev env e1) / B2R (fev env e2))) by (apply Rmult_le_pos; [lra|apply Rabs_pos]).
    assert (0 < Rabs (B2R (fev env e2)) * (Rabs (B2R (fev env e2)) - err_run env e2)) by nra.
    assert (0 <= (Rabs (B2R (fev env e1)) * err_run env e2 + err_run env e1 * Rabs (B2R (fev env e2))) /
                 (Rabs (B2R (fev env e2)) * (Rabs (B2R (fev env e2)) - err_run env e2))).
    { apply Rmult_le_pos; [nra|left; now apply Rinv_0_lt_compat]. }
    lra.
  - destruct Hs as (H1 & H2 & H3 & _). specialize (IHe1 H1). specialize (IHe2 H2). specialize (IHe3 H3).
    assert (A1 := Rabs_pos (B2R (fev env e1))). assert (A2 := Rabs_pos (B2R (fev env e2))).
    assert (0 <= u * Rabs (B2R (fev env e1) * B2R (fev env e2) + B2R (fev env e3))) by (apply Rmult_le_pos; [lra|apply Rabs_pos]). nra.
  - now apply IHe.
  - destruct Hs as (H1 & H2). specialize (IHe1 H1). specialize (IHe2 H2). apply Rmax_case; assumption.
  - destruct Hs as (_ & Hb). destruct (bev env c); auto.
Qed.

(* f64::max of two finite numbers is the real maximum *)
Lemma fmax_correct x y : is_finite x = true -> is_finite y = true ->
  B2R (fmax x y) = Rmax (B2R x) (B2R y) /\ is_finite (fmax x y) = true.
Proof.
  intros Fx Fy. unfold fmax, is_nanb.
  assert (Nx : is_nan x = false) by now apply fin_notnan. assert (Ny : is_nan y = false) by now apply fin_notnan.
  rewrite Nx, Ny. unfold flt. rewrite Bltb_correct by assumption.
  case Rlt_bool_spec; intros H; (split; [|assumption]).
  - rewrite Rmax_right; lra.
  - rewrite Rmax_left; lra.
Qed.

Lemma step_round_abs f r E d : Rabs (f - r) <= E -> Rabs d <= u -> Rabs (f * (1 + d) - r) <= E + u * Rabs f.
Proof.
  intros Hf Hd. replace (f * (1 + d) - r) with ((f - r) + f * d) by ring.
  eapply Rle_trans; [apply Rabs_triang|]. rewrite Rabs_mult.
  assert (Rabs f * Rabs d <= Rabs f * u) by (apply Rmult_le_compat_l; [apply Rabs_pos|exact Hd]). lra.
Qed.

Theorem eval_running env e : safe_run env e ->
  is_finite (fev env e) = true /\ Rabs (B2R (fev env e) - rval env e) <= err_run env e.
Proof.
  assert (Hu := u_pos).
  induction e; intros Hs; cbn [safe_run] in Hs; try contradiction.
  - (* Var *) unfold fev, rval. cbn [eval FOps0 FOps FOpsG ROps o_default err_run]. rewrite rev_var.
    split; [exact Hs|]. rewrite Rminus_diag_eq by reflexivity. rewrite Rabs_R0. lra.
  - (* Lit *) unfold fev, rval. cbn [eval FOps0 FOps FOpsG ROps o_lit err_run]. unfold litR.
    split; [exact Hs|]. rewrite Rminus_diag_eq by reflexivity. rewrite Rabs_R0. lra.
  - (* Add *) destruct Hs as (H1 & H2 & Hun & Ho). destruct (IHe1 H1) as (F1 & E1). destruct (IHe2 H2) as (F2 & E2).
    destruct (add_correct _ _ F1 F2 Ho) as [Ec Fc]. destruct (rnd_model _ Hun) as (d & Hd & Ed).
    change (fev env (Add e1 e2)) with (fadd (fev env e1) (fev env e2)).
    change (rval env (Add e1 e2)) with (rval env e1 + rval env e2). cbn [err_run].
    split; [exact Fc|]. rewrite Ec, Ed. apply step_round_abs; [|exact Hd].
    replace (B2R (fev env e1) + B2R (fev env e2) - (rval env e1 + rval env e2))
      with ((B2R (fev env e1) - rval env e1) + (B2R (fev env e2) - rval env e2)) by ring.
    eapply Rle_trans; [apply Rabs_triang|lra].
  - (* Sub *) destruct Hs as (H1 & H2 & Hun & Ho). destruct (IHe1 H1) as (F1 & E1). destruct (IHe2 H2) as (F2 & E2).
    destruct (sub_correct _ _ F1 F2 Ho) as [Ec Fc]. destruct (rnd_model _ Hun) as (d & Hd & Ed).
    change (fev env (Sub e1 e2)) with (fsub (fev env e1) (fev env e2)).
    change (rval env (Sub e1 e2)) with (rval env e1 - rval env e2). cbn [err_run].
    split; [exact Fc|]. rewrite Ec, Ed. apply step_round_abs; [|exact Hd].
    replace (B2R (fev env e1) - B2R (fev env e2) - (rval env e1 - rval env e2))
      with ((B2R (fev env e1) - rval env e1) + - (B2R (fev env e2) - rval env e2)) by ring.
    eapply Rle_trans; [apply Rabs_triang|]. rewrite Rabs_Ropp. lra.
  - (* Mul *) destruct Hs as (H1 & H2 & Hun & Ho). destruct (IHe1 H1) as (F1 & E1). destruct (IHe2 H2) as (F2 & E2).
    destruct (mul_correct _ _ F1 F2 Ho) as [Ec Fc]. destruct (rnd_model _ Hun) as (d & Hd & Ed).
    change (fev env (Mul e1 e2)) with (fmul (fev env e1) (fev env e2)).
    change (rval env (Mul e1 e2)) with (rval env e1 * rval env e2). cbn [err_run].
    split; [exact Fc|]. rewrite Ec, Ed. apply step_round_abs; [|exact Hd].
    set (fa := B2R (fev env e1)) in *. set (fb := B2R (fev env e2)) in *. set (ra := rval env e1) in *. set (rb := rval env e2) in *.
    replace (fa * fb - ra * rb) with (fa * (fb - rb) + (fa - ra) * rb) by ring.
    eapply Rle_trans; [apply Rabs_triang|]. rewrite !Rabs_mult.
    assert (Hrb : Rabs rb <= Rabs fb + err_run env e2).
    { replace rb with (fb - (fb - rb)) by ring. eapply Rle_trans; [apply Rabs_triang|]. rewrite Rabs_Ropp. lra. }
    assert (N1 := err_run_nonneg env e1 H1). assert (N2 := err_run_nonneg env e2 H2).
    assert (P1 : Rabs fa * Rabs (fb - rb) <= Rabs fa * err_run env e2) by (apply Rmult_le_compat_l; [apply Rabs_pos|exact E2]).
    assert (P2 : Rabs (fa - ra) * Rabs rb <= err_run env e1 * (Rabs fb + err_run env e2)) by (apply Rmult_le_compat; auto using Rabs_pos).
    lra.
  - (* Div *) destruct Hs as (H1 & H2 & Hden & Hun & Ho). destruct (IHe1 H1) as (F1 & E1). destruct (IHe2 H2) as (F2 & E2).
    set (fa := B2R (fev env e1)) in *. set (fb := B2R (fev env e2)) in *. set (ra := rval env e1) in *. set (rb := rval env e2) in *.
    assert (N1 := err_run_nonneg env e1 H1). assert (N2 := err_run_nonneg env e2 H2).
    assert (Hfb : fb <> 0) by (intros E; rewrite E, Rabs_R0 in Hden; lra).
    destruct (div_correct _ _ F1 Hfb Ho) as [Ec Fc]. destruct (rnd_model _ Hun) as (d & Hd & Ed).
    change (fev env (Div e1 e2)) with (fdiv (fev env e1) (fev env e2)).
    change (rval env (Div e1 e2)) with (ra / rb). cbn [err_run]. fold fa fb.
    split; [exact Fc|]. fold fa fb in Ec. rewrite Ec, Ed. apply step_round_abs; [|exact Hd].
    assert (Hrb : Rabs fb - err_run env e2 <= Rabs rb).
    { replace fb with (rb + (fb - rb)) by ring. eapply Rle_trans; [apply Rplus_le_compat_r, Rabs_triang|]. lra. }
    assert (Prb : 0 < Rabs rb) by lra. assert (Hrb0 : rb <> 0) by (intros E; rewrite E, Rabs_R0 in Prb; lra).
    assert (Pfb : 0 < Rabs fb) by (now apply Rabs_pos_lt).
    replace (fa / fb - ra / rb) with ((fa * (rb - fb) + (fa - ra) * fb) / (fb * rb)) by (field; split; assumption).
    unfold Rdiv at 1. rewrite Rabs_mult, Rabs_inv, Rabs_mult.
    assert (Hnum : Rabs (fa * (rb - fb) + (fa - ra) * fb) <= Rabs fa * err_run env e2 + err_run env e1 * Rabs fb).
    { eapply Rle_trans; [apply Rabs_triang|]. rewrite !Rabs_mult. rewrite (Rabs_minus_sym rb fb).
      assert (Rabs fa * Rabs (fb - rb) <= Rabs fa * err_run env e2) by (apply Rmult_le_compat_l; [apply Rabs_pos|exact E2]).
      assert (Rabs (fa - ra) * Rabs fb <= err_run env e1 * Rabs fb) by (apply Rmult_le_compat_r; [apply Rabs_pos|exact E1]). lra. }
    assert (Hden2 : 0 < Rabs fb * (Rabs fb - err_run env e2)) by nra.
    assert (Hinv : / (Rabs fb * Rabs rb) <= / (Rabs fb * (Rabs fb - err_run env e2))).
    { apply Rinv_le_contravar; [exact Hden2|]. apply Rmult_le_compat_l; lra. }
    unfold Rdiv. apply Rmult_le_compat; [apply Rabs_pos|left; apply Rinv_0_lt_compat; nra|exact Hnum|exact Hinv].
  - (* Fma *) destruct Hs as (H1 & H2 & H3 & Hun & Ho).
    destruct (IHe1 H1) as (F1 & E1). destruct (IHe2 H2) as (F2 & E2). destruct (IHe3 H3) as (F3 & E3).
    destruct (fma_correct _ _ _ F1 F2 F3 Ho) as [Ec Fc]. destruct (rnd_model _ Hun) as (d & Hd & Ed).
    change (fev env (Fma e1 e2 e3)) with (ffma (fev env e1) (fev env e2) (fev env e3)).
    change (rval env (Fma e1 e2 e3)) with (rval env e1 * rval env e2 + rval env e3). cbn [err_run].
    split; [exact Fc|]. rewrite Ec, Ed. apply step_round_abs; [|exact Hd].
    set (fa := B2R (fev env e1)) in *. set (fb := B2R (fev env e2)) in *. set (ra := rval env e1) in *. set (rb := rval env e2) in *.
    replace (fa * fb + B2R (fev env e3) - (ra * rb + rval env e3))
      with (fa * (fb - rb) + (fa - ra) * rb + (B2R (fev env e3) - rval env e3)) by ring.
    eapply Rle_trans; [apply Rabs_triang|]. eapply Rle_trans; [apply Rplus_le_compat_r, Rabs_triang|]. rewrite !Rabs_mult.
    assert (Hrb : Rabs rb <= Rabs fb + err_run env e2).
    { replace rb with (fb - (fb - rb)) by ring. eapply Rle_trans; [apply Rabs_triang|]. rewrite Rabs_Ropp. lra. }
    assert (N1 := err_run_nonneg env e1 H1). assert (N2 := err_run_nonneg env e2 H2).
    assert (P1 : Rabs fa * Rabs (fb - rb) <= Rabs fa * err_run env e2) by (apply Rmult_le_compat_l; [apply Rabs_pos|exact E2]).
    assert (P2 : Rabs (fa - ra) * Rabs rb <= err_run env e1 * (Rabs fb + err_run env e2)) by (apply Rmult_le_compat; auto using Rabs_pos).
    lra.
  - (* Neg *) destruct (IHe Hs) as (F1 & E1). destruct (neg_correct (fev env e)) as [Ec Fc].
    change (fev env (Neg e)) with (fneg (fev env e)). change (rval env (Neg e)) with (- rval env e). cbn [err_run].
    split; [rewrite Fc; exact F1|]. rewrite Ec.
    replace (- B2R (fev env e) - - rval env e) with (- (B2R (fev env e) - rval env e)) by ring. now rewrite Rabs_Ropp.
  - (* Max *) destruct Hs as (H1 & H2). destruct (IHe1 H1) as (F1 & E1). destruct (IHe2 H2) as (F2 & E2).
    destruct (fmax_correct _ _ F1 F2) as [Ec Fc].
    change (fev env (Max e1 e2)) with (fmax (fev env e1) (fev env e2)).
    change (rval env (Max e1 e2)) with (Rmax (rval env e1) (rval env e2)). cbn [err_run].
    split; [exact Fc|]. rewrite Ec.
    set (fa := B2R (fev env e1)) in *. set (fb := B2R (fev env e2)) in *. set (ra := rval env e1) in *. set (rb := rval env e2) in *.
    assert (M1 := Rmax_l (err_run env e1) (err_run env e2)). assert (M2 := Rmax_r (err_run env e1) (err_run env e2)).
    assert (A1 : - err_run env e1 <= fa - ra <= err_run env e1) by (split; [apply Ropp_le_cancel; rewrite Ropp_involutive; eapply Rle_trans; [apply Rle_abs|]; rewrite Rabs_Ropp; exact E1|eapply Rle_trans; [apply Rle_abs|exact E1]]).
    assert (A2 : - err_run env e2 <= fb - rb <= err_run env e2) by (split; [apply Ropp_le_cancel; rewrite Ropp_involutive; eapply Rle_trans; [apply Rle_abs|]; rewrite Rabs_Ropp; exact E2|eapply Rle_trans; [apply Rle_abs|exact E2]]).
    set (M := Rmax (err_run env e1) (err_run env e2)) in *. clearbody M.
    apply Rabs_le. unfold Rmax. destruct (Rle_dec fa fb); destruct (Rle_dec ra rb); lra.
  - (* If *) destruct Hs as (Hc & Hb).
    change (fev env (If c e1 e2)) with (if bev env c then fev env e1 else fev env e2).
    change (rval env (If c e1 e2)) with (if brval env c then rval env e1 else rval env e2).
    cbn [err_run]. rewrite <- Hc. destruct (bev env c); [apply IHe1|apply IHe2]; exact Hb.
Qed.
