(* Deciding the hypotheses of the error theorems on concrete inputs.
   `safe env e` (ErrorBound) and `safe_run env e` (ErrorRun) are statements about real numbers (no operation under- or
   overflows, denominators stay away from zero, the exact and the binary64 run take the same branches).  All the reals
   involved are rational numbers computed from the binary64 values of the subterms, so both predicates are decided here
   by exact rational arithmetic: `safeb`, `safe_runb : list F -> expr -> bool`, with soundness theorems.  They serve
   (1) as non-vacuity witnesses (an `Example` per float theorem: a concrete input satisfies the hypotheses), and
   (2) in the correspondence run, to count on how many generated inputs the theorems actually apply and to compare the
   observed deviation with the proved bound `err_run` (computed exactly as a rational: `err_runQ`). *)
From Coq Require Import ZArith QArith Qreals Qabs Reals Lra Psatz List Bool.
From Flocq Require Import Core BinarySingleNaN.
Require Import PP.FloatModel PP.FloatOrder PP.Expr PP.FloatOps PP.FloatFacts PP.RealOps PP.ErrorBound PP.ErrorRun.
Import ListNotations.

(* ---- the rational value of a float ---- *)
Definition F2Q (x : F) : Q :=
  match x with
  | B754_finite s m e _ =>
      let mz := if s then Zneg m else Zpos m in
      match e with
      | Z0 => mz # 1
      | Zpos p => (mz * Z.pow_pos 2 p) # 1
      | Zneg p => mz # (Pos.pow 2 p)
      end
  | _ => 0
  end.

Local Open Scope R_scope.

Lemma F2Q_correct (x : F) : Q2R (F2Q x) = B2R x.
Proof.
  destruct x as [s|s| |s m e B]; cbn [B2R F2Q]; try (unfold Q2R; cbn [Qnum Qden]; rewrite Rinv_1; lra).
  unfold F2R, Q2R. cbn [Fnum Fexp Qnum Qden].
  assert (Hm : IZR (cond_Zopp s (Zpos m)) = IZR (if s then Zneg m else Zpos m)) by (destruct s; reflexivity).
  rewrite Hm. clear Hm. set (mz := if s then Zneg m else Zpos m).
  destruct e as [|p|p]; cbn [bpow Qnum Qden].
  - rewrite Rinv_1. lra.
  - rewrite mult_IZR, Rinv_1. cbn [Z.pow_pos radix_val radix2]. lra.
  - cbn [radix_val radix2]. rewrite Pos2Z.inj_pow. reflexivity.
Qed.

Lemma litQ_F2Q b : litQ b = F2Q (of_bits b).
Proof. reflexivity. Qed.

Lemma Q2R_abs (q : Q) : Q2R (Qabs q) = Rabs (Q2R q).
Proof.
  destruct q as [n d]. unfold Qabs, Q2R. cbn [Qnum Qden]. rewrite abs_IZR, Rabs_mult.
  rewrite (Rabs_pos_eq (/ IZR (Z.pos d))); [reflexivity|].
  left. apply Rinv_0_lt_compat. apply IZR_lt. reflexivity.
Qed.

Lemma Q2R_red q : Q2R (Qred q) = Q2R q.
Proof. apply Qeq_eqR, Qred_correct. Qed.

Lemma Q2R_0 : Q2R 0 = 0.
Proof. unfold Q2R. cbn. lra. Qed.

Lemma Qle_bool_R a b : Qle_bool a b = true -> Q2R a <= Q2R b.
Proof. intros H. apply Qle_Rle. now apply Qle_bool_iff. Qed.
Lemma Qle_bool_R_false a b : Qle_bool a b = false -> Q2R b < Q2R a.
Proof.
  intros H. apply Qlt_Rlt. apply Qnot_le_lt. intros L. apply Qle_bool_iff in L. congruence.
Qed.
Lemma Qeq_bool_R a b : Qeq_bool a b = true -> Q2R a = Q2R b.
Proof. intros H. apply Qeq_eqR. now apply Qeq_bool_iff. Qed.
Lemma Qeq_bool_R_false a b : Qeq_bool a b = false -> Q2R a <> Q2R b.
Proof. intros H E. apply eqR_Qeq in E. apply Qeq_bool_iff in E. congruence. Qed.

(* ---- the side conditions of one operation, on the exact rational result ---- *)
Definition tinyQ : Q := 1 # (Pos.pow 2 1022).
Definition fmaxF : F := of_bits 9218868437227405311.        (* 0x7FEFFFFFFFFFFFFF, the largest finite binary64 *)
Definition maxQ : Q := F2Q fmaxF.
Definition ok2Q (r : Q) : bool := (Qeq_bool r 0 || Qle_bool tinyQ (Qabs r)) && Qle_bool (Qabs r) maxQ.

Lemma tinyQ_val : Q2R tinyQ = tiny.
Proof.
  unfold tinyQ, tiny, Q2R. cbn [Qnum Qden bpow]. rewrite Rmult_1_l. cbn [radix_val radix2].
  rewrite Pos2Z.inj_pow. reflexivity.
Qed.

Lemma noover_le_max r : Rabs r <= B2R fmaxF -> noover r.
Proof.
  intros H. unfold noover.
  assert (Fm : generic_format radix2 fexp64 (B2R fmaxF)) by apply generic_format_B2R.
  assert (M : B2R fmaxF < bpow radix2 emax).
  { apply Rle_lt_trans with (Rabs (B2R fmaxF)); [apply Rle_abs|]. apply abs_B2R_lt_emax. }
  apply Rabs_le_inv in H. destruct H as [H1 H2].
  assert (U : rnd r <= B2R fmaxF).
  { rewrite <- (rnd_exact _ Fm). unfold rnd. apply round_le; [apply fexp_correct; reflexivity|apply valid_rnd_N|exact H2]. }
  assert (L : - B2R fmaxF <= rnd r).
  { assert (Fo : generic_format radix2 fexp64 (- B2R fmaxF)) by now apply generic_format_opp.
    rewrite <- (rnd_exact _ Fo). unfold rnd. apply round_le; [apply fexp_correct; reflexivity|apply valid_rnd_N|exact H1]. }
  apply Rle_lt_trans with (B2R fmaxF); [|exact M]. apply Rabs_le. split; assumption.
Qed.

Lemma ok2Q_sound r : ok2Q r = true -> nounder (Q2R r) /\ noover (Q2R r).
Proof.
  unfold ok2Q. intros H. apply andb_true_iff in H. destruct H as [H1 H2]. split.
  - unfold nounder. apply orb_true_iff in H1. destruct H1 as [H1|H1].
    + left. rewrite (Qeq_bool_R _ _ H1). apply Q2R_0.
    + right. apply Qle_bool_R in H1. rewrite tinyQ_val, Q2R_abs in H1. exact H1.
  - apply noover_le_max. apply Qle_bool_R in H2. rewrite Q2R_abs in H2. unfold maxQ in H2. rewrite F2Q_correct in H2. exact H2.
Qed.

(* ---- exact evaluation of a term in rational arithmetic ---- *)
Definition qmax (a b : Q) : Q := if Qle_bool a b then b else a.
Definition qmin (a b : Q) : Q := if Qle_bool a b then a else b.
Definition QOps : Ops Q := {|
  o_lit := litQ;
  o_add := fun a b => Qred (a + b); o_sub := fun a b => Qred (a - b); o_mul := fun a b => Qred (a * b);
  o_div := fun a b => Qred (a / b);
  o_fma := fun a b c => Qred (a * b + c);
  o_neg := Qopp; o_max := qmax; o_min := qmin; o_abs := Qabs;
  o_ln := fun _ => 0%Q; o_exp := fun _ => 0%Q;
  o_lt := fun a b => negb (Qle_bool b a);
  o_le := Qle_bool;
  o_eq := Qeq_bool;
  o_absdiffeq := fun a b e => Qle_bool (Qabs (a - b)) e;
  o_releq := fun _ _ _ _ => false;
  o_default := 0%Q
|}.

(* the term is defined in exact arithmetic: no libm call, no division by an exact zero, no relative comparison *)
Fixpoint qdef (env : list Q) (e : expr) {struct e} : bool :=
  match e with
  | Var _ | Lit _ => true
  | Add a b | Sub a b | Mul a b | Max a b | Min a b => qdef env a && qdef env b
  | Div a b => qdef env a && qdef env b && negb (Qeq_bool (eval QOps env b) 0)
  | Fma a b c => qdef env a && qdef env b && qdef env c
  | Neg a | Abs a => qdef env a
  | Ln _ | Exp _ => false
  | If c t f => qdefb env c && qdef env t && qdef env f
  end
with qdefb (env : list Q) (c : bexpr) {struct c} : bool :=
  match c with
  | Lt a b | Le a b | Eqf a b => qdef env a && qdef env b
  | BAnd c d | BOr c d => qdefb env c && qdefb env d
  | BNot c => qdefb env c
  | BTrue | BFalse => true
  | BAbsDiffEq a b eps => qdef env a && qdef env b && qdef env eps
  | BRelEq _ _ _ _ => false
  end.


(* unfolding equations of the generic evaluator (all by computation); used instead of cbn, which would expose the raw
   mutual fixpoint *)
Section EvalEqs.
Context {T : Type} (O : Ops T) (env : list T).
Lemma ev_Var n : eval O env (Var n) = nth n env (o_default O). Proof. reflexivity. Qed.
Lemma ev_Lit b : eval O env (Lit b) = o_lit O b. Proof. reflexivity. Qed.
Lemma ev_Add a b : eval O env (Add a b) = o_add O (eval O env a) (eval O env b). Proof. reflexivity. Qed.
Lemma ev_Sub a b : eval O env (Sub a b) = o_sub O (eval O env a) (eval O env b). Proof. reflexivity. Qed.
Lemma ev_Mul a b : eval O env (Mul a b) = o_mul O (eval O env a) (eval O env b). Proof. reflexivity. Qed.
Lemma ev_Div a b : eval O env (Div a b) = o_div O (eval O env a) (eval O env b). Proof. reflexivity. Qed.
Lemma ev_Fma a b c : eval O env (Fma a b c) = o_fma O (eval O env a) (eval O env b) (eval O env c). Proof. reflexivity. Qed.
Lemma ev_Neg a : eval O env (Neg a) = o_neg O (eval O env a). Proof. reflexivity. Qed.
Lemma ev_Max a b : eval O env (Max a b) = o_max O (eval O env a) (eval O env b). Proof. reflexivity. Qed.
Lemma ev_Min a b : eval O env (Min a b) = o_min O (eval O env a) (eval O env b). Proof. reflexivity. Qed.
Lemma ev_Abs a : eval O env (Abs a) = o_abs O (eval O env a). Proof. reflexivity. Qed.
Lemma ev_If c t f : eval O env (If c t f) = if beval O env c then eval O env t else eval O env f. Proof. reflexivity. Qed.
Lemma bev_Lt a b : beval O env (Lt a b) = o_lt O (eval O env a) (eval O env b). Proof. reflexivity. Qed.
Lemma bev_Le a b : beval O env (Le a b) = o_le O (eval O env a) (eval O env b). Proof. reflexivity. Qed.
Lemma bev_Eqf a b : beval O env (Eqf a b) = o_eq O (eval O env a) (eval O env b). Proof. reflexivity. Qed.
Lemma bev_And c d : beval O env (BAnd c d) = beval O env c && beval O env d. Proof. reflexivity. Qed.
Lemma bev_Or c d : beval O env (BOr c d) = beval O env c || beval O env d. Proof. reflexivity. Qed.
Lemma bev_Not c : beval O env (BNot c) = negb (beval O env c). Proof. reflexivity. Qed.
Lemma bev_ADE a b e : beval O env (BAbsDiffEq a b e) = o_absdiffeq O (eval O env a) (eval O env b) (eval O env e). Proof. reflexivity. Qed.
End EvalEqs.
Ltac ev_unfold := rewrite ?ev_Var, ?ev_Lit, ?ev_Add, ?ev_Sub, ?ev_Mul, ?ev_Div, ?ev_Fma, ?ev_Neg, ?ev_Max, ?ev_Min, ?ev_Abs, ?ev_If,
  ?bev_Lt, ?bev_Le, ?bev_Eqf, ?bev_And, ?bev_Or, ?bev_Not, ?bev_ADE.

Scheme expr_mind := Induction for expr Sort Prop
  with bexpr_mind := Induction for bexpr Sort Prop.
Combined Scheme expr_bexpr_ind from expr_mind, bexpr_mind.

Lemma Rmax_qmax a b : Q2R (qmax a b) = Rmax (Q2R a) (Q2R b).
Proof.
  unfold qmax. destruct (Qle_bool a b) eqn:E.
  - apply Qle_bool_R in E. now rewrite Rmax_right.
  - apply Qle_bool_R_false in E. rewrite Rmax_left; [reflexivity|lra].
Qed.
Lemma Rmin_qmin a b : Q2R (qmin a b) = Rmin (Q2R a) (Q2R b).
Proof.
  unfold qmin. destruct (Qle_bool a b) eqn:E.
  - apply Qle_bool_R in E. now rewrite Rmin_left.
  - apply Qle_bool_R_false in E. rewrite Rmin_right; [reflexivity|lra].
Qed.

Lemma nth_Q2R n env : nth n (map Q2R env) 0 = Q2R (nth n env 0%Q).
Proof. rewrite <- Q2R_0. apply map_nth. Qed.

Theorem qval_correct (env : list Q) :
  (forall e, qdef env e = true -> Q2R (eval QOps env e) = eval ROps (map Q2R env) e) /\
  (forall c, qdefb env c = true -> beval QOps env c = beval ROps (map Q2R env) c).
Proof.
  apply expr_bexpr_ind; intros; cbn [qdef qdefb] in *;
    repeat match goal with H : _ && _ = true |- _ => apply andb_true_iff in H; destruct H end; try discriminate;
    ev_unfold; cbn [QOps ROps o_lit o_add o_sub o_mul o_div o_fma o_neg o_max o_min o_abs o_ln o_exp
                    o_lt o_le o_eq o_absdiffeq o_releq o_default].
  - (* Var *) now rewrite nth_Q2R.
  - (* Lit *) now rewrite litR_Q.
  - rewrite Q2R_red, Q2R_plus, H, H0 by assumption. reflexivity.
  - rewrite Q2R_red, Q2R_minus, H, H0 by assumption. reflexivity.
  - rewrite Q2R_red, Q2R_mult, H, H0 by assumption. reflexivity.
  - (* Div *)
    match goal with N : negb _ = true |- _ => apply negb_true_iff in N; apply Qeq_bool_R_false in N; rewrite Q2R_0 in N end.
    rewrite Q2R_red. unfold Qdiv. rewrite Q2R_mult, Q2R_inv.
    + rewrite H, H0 by assumption. reflexivity.
    + intros Z. apply Qeq_eqR in Z. rewrite Q2R_0 in Z.
      match goal with N : _ <> 0 |- _ => apply N; exact Z end.
  - (* Fma *) rewrite Q2R_red, Q2R_plus, Q2R_mult, H, H0, H1 by assumption. reflexivity.
  - rewrite Q2R_opp, H by assumption. reflexivity.
  - rewrite Rmax_qmax, H, H0 by assumption. reflexivity.
  - rewrite Rmin_qmin, H, H0 by assumption. reflexivity.
  - rewrite Q2R_abs, H by assumption. reflexivity.
  - (* If *) rewrite <- H by assumption. destruct (beval QOps env c); [now apply H0|now apply H1].
  - (* Lt *)
    rewrite <- H, <- H0 by assumption. destruct (Qle_bool _ _) eqn:E; cbn [negb];
      [apply Qle_bool_R in E|apply Qle_bool_R_false in E]; destruct (Rlt_dec _ _); (lra || reflexivity).
  - (* Le *)
    rewrite <- H, <- H0 by assumption. destruct (Qle_bool _ _) eqn:E;
      [apply Qle_bool_R in E|apply Qle_bool_R_false in E]; destruct (Rle_dec _ _); (lra || reflexivity).
  - (* Eqf *)
    rewrite <- H, <- H0 by assumption. destruct (Qeq_bool _ _) eqn:E;
      [apply Qeq_bool_R in E|apply Qeq_bool_R_false in E]; destruct (Req_EM_T _ _); (contradiction || reflexivity).
  - rewrite H, H0 by assumption. reflexivity.
  - rewrite H, H0 by assumption. reflexivity.
  - rewrite H by assumption. reflexivity.
  - reflexivity.
  - reflexivity.
  - (* BAbsDiffEq *)
    rewrite <- H, <- H0, <- H1 by assumption. destruct (Qle_bool _ _) eqn:E;
      [apply Qle_bool_R in E|apply Qle_bool_R_false in E]; rewrite Q2R_abs, Q2R_minus in E; destruct (Rle_dec _ _); (lra || reflexivity || contradiction).
Qed.

Lemma map_F2Q env : map Q2R (map F2Q env) = map B2R env.
Proof. rewrite map_map. apply map_ext. apply F2Q_correct. Qed.

Definition qenv (env : list F) : list Q := map F2Q env.
Lemma rval_Q env e : qdef (qenv env) e = true -> Q2R (eval QOps (qenv env) e) = rval env e.
Proof. intros H. unfold rval. rewrite <- map_F2Q. now apply (proj1 (qval_correct (qenv env))). Qed.
Lemma brval_Q env c : qdefb (qenv env) c = true -> beval QOps (qenv env) c = brval env c.
Proof. intros H. unfold brval. rewrite <- map_F2Q. now apply (proj2 (qval_correct (qenv env))). Qed.

(* ---- the running error bound as a rational, and the decision of safe_run ---- *)
Definition uQ : Q := 1 # (Pos.pow 2 53).
Lemma uQ_val : Q2R uQ = u.
Proof.
  unfold uQ, u, Q2R. cbn [Qnum Qden]. rewrite Rmult_1_l.
  change (/ 2) with (bpow radix2 (-1)). rewrite <- bpow_plus. cbn [bpow Z.add prec Z.opp Z.pos_sub Pos.pred_double].
  cbn [radix_val radix2]. rewrite Pos2Z.inj_pow. reflexivity.
Qed.

Fixpoint err_runQ (env : list F) (e : expr) : Q :=
  let v x := F2Q (fev env x) in
  (match e with
  | Var _ | Lit _ => 0
  | Neg a => err_runQ env a
  | Add a b => err_runQ env a + err_runQ env b + uQ * Qabs (v a + v b)
  | Sub a b => err_runQ env a + err_runQ env b + uQ * Qabs (v a - v b)
  | Mul a b => Qabs (v a) * err_runQ env b + err_runQ env a * (Qabs (v b) + err_runQ env b) + uQ * Qabs (v a * v b)
  | Fma a b c => Qabs (v a) * err_runQ env b + err_runQ env a * (Qabs (v b) + err_runQ env b) + err_runQ env c
                 + uQ * Qabs (v a * v b + v c)
  | Div a b => (Qabs (v a) * err_runQ env b + err_runQ env a * Qabs (v b)) / (Qabs (v b) * (Qabs (v b) - err_runQ env b))
               + uQ * Qabs (v a / v b)
  | Max a b => qmax (err_runQ env a) (err_runQ env b)
  | If c t f => if bev env c then err_runQ env t else err_runQ env f
  | Ln _ | Exp _ | Min _ _ | Abs _ => 0
  end)%Q.

Fixpoint safe_runb (env : list F) (e : expr) : bool :=
  let v x := F2Q (fev env x) in
  match e with
  | Var n => is_finite (nth n env fnan)
  | Lit b => is_finite (of_bits b)
  | Neg a => safe_runb env a
  | Add a b => safe_runb env a && safe_runb env b && ok2Q (v a + v b)
  | Sub a b => safe_runb env a && safe_runb env b && ok2Q (v a - v b)
  | Mul a b => safe_runb env a && safe_runb env b && ok2Q (v a * v b)
  | Fma a b c => safe_runb env a && safe_runb env b && safe_runb env c && ok2Q (v a * v b + v c)
  | Div a b => safe_runb env a && safe_runb env b && negb (Qle_bool (Qabs (v b)) (err_runQ env b)) && ok2Q (v a / v b)
  | Max a b => safe_runb env a && safe_runb env b
  | If c t f => qdefb (qenv env) c && Bool.eqb (bev env c) (beval QOps (qenv env) c) &&
                (if bev env c then safe_runb env t else safe_runb env f)
  | Ln _ | Exp _ | Min _ _ | Abs _ => false
  end.

Lemma and3 a b c : a && b && c = true -> a = true /\ b = true /\ c = true.
Proof. intros H. apply andb_true_iff in H. destruct H as [H ?]. apply andb_true_iff in H. tauto. Qed.
Lemma and4 a b c d : a && b && c && d = true -> a = true /\ b = true /\ c = true /\ d = true.
Proof. intros H. apply andb_true_iff in H. destruct H as [H ?]. apply and3 in H. tauto. Qed.

Theorem safe_runb_sound env e : safe_runb env e = true -> safe_run env e /\ Q2R (err_runQ env e) = err_run env e.
Proof.
  induction e; cbn [safe_runb safe_run err_runQ err_run]; intros Hb; try discriminate.
  - split; [exact Hb|apply Q2R_0].
  - split; [exact Hb|apply Q2R_0].
  - (* Add *)
    destruct (and3 _ _ _ Hb) as (Ha & Hb2 & Ho). destruct (IHe1 Ha) as [S1 E1]. destruct (IHe2 Hb2) as [S2 E2].
    apply ok2Q_sound in Ho. rewrite Q2R_plus, !F2Q_correct in Ho.
    split; [repeat split; tauto|].
    rewrite !Q2R_plus, Q2R_mult, Q2R_abs, Q2R_plus, !F2Q_correct, uQ_val, E1, E2. reflexivity.
  - (* Sub *)
    destruct (and3 _ _ _ Hb) as (Ha & Hb2 & Ho). destruct (IHe1 Ha) as [S1 E1]. destruct (IHe2 Hb2) as [S2 E2].
    apply ok2Q_sound in Ho. rewrite Q2R_minus, !F2Q_correct in Ho.
    split; [repeat split; tauto|].
    rewrite !Q2R_plus, Q2R_mult, Q2R_abs, Q2R_minus, !F2Q_correct, uQ_val, E1, E2. reflexivity.
  - (* Mul *)
    destruct (and3 _ _ _ Hb) as (Ha & Hb2 & Ho). destruct (IHe1 Ha) as [S1 E1]. destruct (IHe2 Hb2) as [S2 E2].
    apply ok2Q_sound in Ho. rewrite Q2R_mult, !F2Q_correct in Ho.
    split; [repeat split; tauto|].
    rewrite !Q2R_plus, !Q2R_mult, !Q2R_plus, !Q2R_abs, Q2R_mult, !F2Q_correct, uQ_val, E1, E2. reflexivity.
  - (* Div *)
    destruct (and4 _ _ _ _ Hb) as (Ha & Hb2 & Hd & Ho). destruct (IHe1 Ha) as [S1 E1]. destruct (IHe2 Hb2) as [S2 E2].
    apply negb_true_iff in Hd. apply Qle_bool_R_false in Hd. rewrite Q2R_abs, F2Q_correct, E2 in Hd.
    assert (N2 := err_run_nonneg _ _ S2).
    assert (Vb : B2R (fev env e2) <> 0) by (intros Z; rewrite Z, Rabs_R0 in Hd; lra).
    assert (Qb : ~ (F2Q (fev env e2) == 0)%Q).
    { intros Z. apply Qeq_eqR in Z. rewrite F2Q_correct, Q2R_0 in Z. contradiction. }
    apply ok2Q_sound in Ho. unfold Qdiv in Ho. rewrite Q2R_mult, Q2R_inv, !F2Q_correct in Ho by exact Qb.
    split; [repeat split; try tauto; exact Hd|].
    assert (Den : Rabs (B2R (fev env e2)) * (Rabs (B2R (fev env e2)) - err_run env e2) <> 0) by nra.
    assert (QDen : ~ (Qabs (F2Q (fev env e2)) * (Qabs (F2Q (fev env e2)) - err_runQ env e2) == 0)%Q).
    { intros Z. apply Qeq_eqR in Z. rewrite Q2R_mult, Q2R_minus, !Q2R_abs, F2Q_correct, E2, Q2R_0 in Z. contradiction. }
    unfold Qdiv. rewrite Q2R_plus, !Q2R_mult, Q2R_inv by exact QDen.
    rewrite Q2R_plus, !Q2R_mult, Q2R_minus, !Q2R_abs, Q2R_mult, Q2R_inv by exact Qb.
    rewrite !F2Q_correct, uQ_val, E1, E2. reflexivity.
  - (* Fma *)
    destruct (and4 _ _ _ _ Hb) as (Ha & Hb2 & Hc & Ho).
    destruct (IHe1 Ha) as [S1 E1]. destruct (IHe2 Hb2) as [S2 E2]. destruct (IHe3 Hc) as [S3 E3].
    apply ok2Q_sound in Ho. rewrite Q2R_plus, Q2R_mult, !F2Q_correct in Ho.
    split; [repeat split; tauto|].
    rewrite !Q2R_plus, !Q2R_mult, !Q2R_plus, !Q2R_abs, Q2R_plus, Q2R_mult, !F2Q_correct, uQ_val, E1, E2, E3. reflexivity.
  - (* Neg *) now apply IHe.
  - (* Max *)
    apply andb_true_iff in Hb. destruct Hb as [Ha Hb2].
    destruct (IHe1 Ha) as [S1 E1]. destruct (IHe2 Hb2) as [S2 E2]. split; [tauto|]. now rewrite Rmax_qmax, E1, E2.
  - (* If *)
    destruct (and3 _ _ _ Hb) as (Hq & He & Hr).
    apply eqb_prop in He. rewrite (brval_Q _ _ Hq) in He.
    destruct (bev env c) eqn:Eb.
    + destruct (IHe1 Hr) as [S1 E1]. split; [split; [exact He|exact S1]|exact E1].
    + destruct (IHe2 Hr) as [S2 E2]. split; [split; [exact He|exact S2]|exact E2].
Qed.


(* ---- the same decision in ONE pass (value, bound and verdict together, every intermediate rational reduced):
   what is actually executed on concrete inputs ---- *)
Record sres := { rv : F; re : Q; rok : bool }.
Fixpoint srun (env : list F) (e : expr) : sres :=
  (match e with
  | Var n => {| rv := nth n env fnan; re := 0; rok := is_finite (nth n env fnan) |}
  | Lit b => {| rv := of_bits b; re := 0; rok := is_finite (of_bits b) |}
  | Neg a => let ra := srun env a in {| rv := fneg (rv ra); re := re ra; rok := rok ra |}
  | Add a b => let ra := srun env a in let rb := srun env b in
      let r := F2Q (rv ra) + F2Q (rv rb) in
      {| rv := fadd (rv ra) (rv rb); re := Qred (re ra + re rb + uQ * Qabs r); rok := rok ra && rok rb && ok2Q r |}
  | Sub a b => let ra := srun env a in let rb := srun env b in
      let r := F2Q (rv ra) - F2Q (rv rb) in
      {| rv := fsub (rv ra) (rv rb); re := Qred (re ra + re rb + uQ * Qabs r); rok := rok ra && rok rb && ok2Q r |}
  | Mul a b => let ra := srun env a in let rb := srun env b in
      let r := F2Q (rv ra) * F2Q (rv rb) in
      {| rv := fmul (rv ra) (rv rb);
         re := Qred (Qabs (F2Q (rv ra)) * re rb + re ra * (Qabs (F2Q (rv rb)) + re rb) + uQ * Qabs r);
         rok := rok ra && rok rb && ok2Q r |}
  | Fma a b c => let ra := srun env a in let rb := srun env b in let rc := srun env c in
      let r := F2Q (rv ra) * F2Q (rv rb) + F2Q (rv rc) in
      {| rv := ffma (rv ra) (rv rb) (rv rc);
         re := Qred (Qabs (F2Q (rv ra)) * re rb + re ra * (Qabs (F2Q (rv rb)) + re rb) + re rc + uQ * Qabs r);
         rok := rok ra && rok rb && rok rc && ok2Q r |}
  | Div a b => let ra := srun env a in let rb := srun env b in
      let va := F2Q (rv ra) in let vb := F2Q (rv rb) in
      {| rv := fdiv (rv ra) (rv rb);
         re := Qred ((Qabs va * re rb + re ra * Qabs vb) / (Qabs vb * (Qabs vb - re rb)) + uQ * Qabs (va / vb));
         rok := rok ra && rok rb && negb (Qle_bool (Qabs vb) (re rb)) && ok2Q (va / vb) |}
  | Max a b => let ra := srun env a in let rb := srun env b in
      {| rv := fmax (rv ra) (rv rb); re := qmax (re ra) (re rb); rok := rok ra && rok rb |}
  | If c t f =>
      let bc := bev env c in
      let r := if bc then srun env t else srun env f in
      {| rv := rv r; re := re r; rok := qdefb (qenv env) c && Bool.eqb bc (beval QOps (qenv env) c) && rok r |}
  | Ln a => {| rv := fev env (Ln a); re := 0; rok := false |}
  | Exp a => {| rv := fev env (Exp a); re := 0; rok := false |}
  | Min a b => {| rv := fev env (Min a b); re := 0; rok := false |}
  | Abs a => {| rv := fev env (Abs a); re := 0; rok := false |}
  end)%Q.

Lemma srun_value env e : rv (srun env e) = fev env e.
Proof.
  induction e; cbn [srun rv]; try reflexivity; unfold fev in *; rewrite ?ev_Add, ?ev_Sub, ?ev_Mul, ?ev_Div, ?ev_Fma, ?ev_Neg, ?ev_Max, ?ev_If;
    cbn [FOps0 FOps FOpsG o_add o_sub o_mul o_div o_fma o_neg o_max]; try congruence.
  unfold bev. destruct (beval FOps0 env c); assumption.
Qed.

Theorem srun_sound env e : rok (srun env e) = true ->
  safe_run env e /\ Q2R (re (srun env e)) = err_run env e.
Proof.
  induction e; cbn [srun rok re safe_run err_run]; intros Hb; try discriminate; rewrite ?srun_value in *.
  - split; [exact Hb|apply Q2R_0].
  - split; [exact Hb|apply Q2R_0].
  - (* Add *)
    destruct (and3 _ _ _ Hb) as (Ha & Hb2 & Ho). destruct (IHe1 Ha) as [S1 E1]. destruct (IHe2 Hb2) as [S2 E2].
    apply ok2Q_sound in Ho. rewrite Q2R_plus, !F2Q_correct in Ho.
    split; [repeat split; tauto|].
    rewrite Q2R_red, !Q2R_plus, Q2R_mult, Q2R_abs, Q2R_plus, !F2Q_correct, uQ_val, E1, E2. reflexivity.
  - (* Sub *)
    destruct (and3 _ _ _ Hb) as (Ha & Hb2 & Ho). destruct (IHe1 Ha) as [S1 E1]. destruct (IHe2 Hb2) as [S2 E2].
    apply ok2Q_sound in Ho. rewrite Q2R_minus, !F2Q_correct in Ho.
    split; [repeat split; tauto|].
    rewrite Q2R_red, !Q2R_plus, Q2R_mult, Q2R_abs, Q2R_minus, !F2Q_correct, uQ_val, E1, E2. reflexivity.
  - (* Mul *)
    destruct (and3 _ _ _ Hb) as (Ha & Hb2 & Ho). destruct (IHe1 Ha) as [S1 E1]. destruct (IHe2 Hb2) as [S2 E2].
    apply ok2Q_sound in Ho. rewrite Q2R_mult, !F2Q_correct in Ho.
    split; [repeat split; tauto|].
    rewrite Q2R_red, !Q2R_plus, !Q2R_mult, !Q2R_plus, !Q2R_abs, Q2R_mult, !F2Q_correct, uQ_val, E1, E2. reflexivity.
  - (* Div *)
    destruct (and4 _ _ _ _ Hb) as (Ha & Hb2 & Hd & Ho). destruct (IHe1 Ha) as [S1 E1]. destruct (IHe2 Hb2) as [S2 E2].
    apply negb_true_iff in Hd. apply Qle_bool_R_false in Hd. rewrite Q2R_abs, F2Q_correct, E2 in Hd.
    assert (N2 := err_run_nonneg _ _ S2).
    assert (Vb : B2R (fev env e2) <> 0) by (intros Z; rewrite Z, Rabs_R0 in Hd; lra).
    assert (Qb : ~ (F2Q (fev env e2) == 0)%Q).
    { intros Z. apply Qeq_eqR in Z. rewrite F2Q_correct, Q2R_0 in Z. contradiction. }
    apply ok2Q_sound in Ho. unfold Qdiv in Ho. rewrite Q2R_mult, Q2R_inv, !F2Q_correct in Ho by exact Qb.
    split; [repeat split; try tauto; exact Hd|].
    assert (Den : Rabs (B2R (fev env e2)) * (Rabs (B2R (fev env e2)) - err_run env e2) <> 0) by nra.
    assert (QDen : ~ (Qabs (F2Q (fev env e2)) * (Qabs (F2Q (fev env e2)) - re (srun env e2)) == 0)%Q).
    { intros Z. apply Qeq_eqR in Z. rewrite Q2R_mult, Q2R_minus, !Q2R_abs, F2Q_correct, E2, Q2R_0 in Z. contradiction. }
    rewrite Q2R_red. unfold Qdiv. rewrite Q2R_plus, !Q2R_mult, Q2R_inv by exact QDen.
    rewrite Q2R_plus, !Q2R_mult, Q2R_minus, !Q2R_abs, Q2R_mult, Q2R_inv by exact Qb.
    rewrite !F2Q_correct, uQ_val, E1, E2. reflexivity.
  - (* Fma *)
    destruct (and4 _ _ _ _ Hb) as (Ha & Hb2 & Hc & Ho).
    destruct (IHe1 Ha) as [S1 E1]. destruct (IHe2 Hb2) as [S2 E2]. destruct (IHe3 Hc) as [S3 E3].
    apply ok2Q_sound in Ho. rewrite Q2R_plus, Q2R_mult, !F2Q_correct in Ho.
    split; [repeat split; tauto|].
    rewrite Q2R_red, !Q2R_plus, !Q2R_mult, !Q2R_plus, !Q2R_abs, Q2R_plus, Q2R_mult, !F2Q_correct, uQ_val, E1, E2, E3. reflexivity.
  - (* Neg *) now apply IHe.
  - (* Max *)
    apply andb_true_iff in Hb. destruct Hb as [Ha Hb2].
    destruct (IHe1 Ha) as [S1 E1]. destruct (IHe2 Hb2) as [S2 E2]. split; [tauto|]. now rewrite Rmax_qmax, E1, E2.
  - (* If *)
    destruct (and3 _ _ _ Hb) as (Hq & He & Hr).
    apply eqb_prop in He. rewrite (brval_Q _ _ Hq) in He.
    destruct (bev env c) eqn:Eb.
    + destruct (IHe1 Hr) as [S1 E1]. split; [split; [exact He|exact S1]|exact E1].
    + destruct (IHe2 Hr) as [S2 E2]. split; [split; [exact He|exact S2]|exact E2].
Qed.

(* ---- the decision of `safe` (a-priori analysis: + - * fma neg, division by a literal) ---- *)
Fixpoint safeb (env : list F) (e : expr) : bool :=
  let v x := F2Q (fev env x) in
  match e with
  | Var n => is_finite (nth n env fnan)
  | Lit b => is_finite (of_bits b)
  | Add a b => safeb env a && safeb env b && ok2Q (v a + v b)
  | Sub a b => safeb env a && safeb env b && ok2Q (v a - v b)
  | Mul a b => safeb env a && safeb env b && ok2Q (v a * v b)
  | Fma a b c => safeb env a && safeb env b && safeb env c && ok2Q (v a * v b + v c)
  | Neg a => safeb env a
  | Div a (Lit b) => safeb env a && is_finite (of_bits b) && negb (Qeq_bool (litQ b) 0) && ok2Q (v a / litQ b)
  | _ => false
  end.

Theorem safeb_sound env e : safeb env e = true -> safe env e.
Proof.
  unfold safe. induction e; cbn [safeb safe_gen]; intros Hb; try discriminate; try exact Hb.
  - destruct (and3 _ _ _ Hb) as (Ha & Hb2 & Ho). apply ok2Q_sound in Ho. rewrite Q2R_plus, !F2Q_correct in Ho.
    split; [now apply IHe1|split; [now apply IHe2|exact Ho]].
  - destruct (and3 _ _ _ Hb) as (Ha & Hb2 & Ho). apply ok2Q_sound in Ho. rewrite Q2R_minus, !F2Q_correct in Ho.
    split; [now apply IHe1|split; [now apply IHe2|exact Ho]].
  - destruct (and3 _ _ _ Hb) as (Ha & Hb2 & Ho). apply ok2Q_sound in Ho. rewrite Q2R_mult, !F2Q_correct in Ho.
    split; [now apply IHe1|split; [now apply IHe2|exact Ho]].
  - (* Div *)
    destruct e2 as [n|b|? ?|? ?|? ?|? ?|? ? ?|?|? ?|? ?|?|?|?|? ? ?]; try discriminate.
    destruct (and4 _ _ _ _ Hb) as (Ha & Hf & Hn & Ho).
    apply negb_true_iff in Hn. assert (Nz := Qeq_bool_R_false _ _ Hn). rewrite Q2R_0, <- litR_Q in Nz.
    assert (Qn : ~ (litQ b == 0)%Q) by (intros Z; apply Qeq_bool_iff in Z; congruence).
    apply ok2Q_sound in Ho. unfold Qdiv in Ho. rewrite Q2R_mult, Q2R_inv, F2Q_correct, <- litR_Q in Ho by exact Qn.
    split; [now apply IHe1|split; [exact Hf|split; [exact Nz|exact Ho]]].
  - destruct (and4 _ _ _ _ Hb) as (Ha & Hb2 & Hc & Ho). apply ok2Q_sound in Ho. rewrite Q2R_plus, Q2R_mult, !F2Q_correct in Ho.
    split; [now apply IHe1|split; [now apply IHe2|split; [now apply IHe3|exact Ho]]].
  - now apply IHe.
Qed.

(* ---- the decision of `exact_safe` (every partial result exactly representable): the binary64 result of each operation,
   read back as a rational, IS the exact result ---- *)
Definition exq (z : F) (r : Q) : bool := is_finite z && Qeq_bool (F2Q z) r.
Lemma exq_sound z r : exq z r = true -> generic_format radix2 fexp64 (Q2R r) /\ Rabs (Q2R r) < bpow radix2 emax.
Proof.
  unfold exq. intros H. apply andb_true_iff in H. destruct H as [Hf He].
  apply Qeq_bool_R in He. rewrite F2Q_correct in He. rewrite <- He. split; [apply generic_format_B2R|apply abs_B2R_lt_emax].
Qed.

Fixpoint exact_safeb (env : list F) (e : expr) : bool :=
  let v x := F2Q (fev env x) in
  match e with
  | Var n => is_finite (nth n env fnan)
  | Lit b => is_finite (of_bits b)
  | Add a b => exact_safeb env a && exact_safeb env b && exq (fadd (fev env a) (fev env b)) (v a + v b)
  | Sub a b => exact_safeb env a && exact_safeb env b && exq (fsub (fev env a) (fev env b)) (v a - v b)
  | Mul a b => exact_safeb env a && exact_safeb env b && exq (fmul (fev env a) (fev env b)) (v a * v b)
  | Fma a b c => exact_safeb env a && exact_safeb env b && exact_safeb env c &&
                 exq (ffma (fev env a) (fev env b) (fev env c)) (v a * v b + v c)
  | Neg a => exact_safeb env a
  | Div a (Lit b) => exact_safeb env a && is_finite (of_bits b) && negb (Qeq_bool (litQ b) 0) &&
                     exq (fdiv (fev env a) (of_bits b)) (v a / litQ b)
  | _ => false
  end.

Theorem exact_safeb_sound env e : exact_safeb env e = true -> exact_safe env e.
Proof.
  unfold exact_safe. induction e; cbn [exact_safeb safe_gen]; intros Hb; try discriminate; try exact Hb.
  - destruct (and3 _ _ _ Hb) as (Ha & Hb2 & Ho). apply exq_sound in Ho. rewrite Q2R_plus, !F2Q_correct in Ho.
    split; [now apply IHe1|split; [now apply IHe2|exact Ho]].
  - destruct (and3 _ _ _ Hb) as (Ha & Hb2 & Ho). apply exq_sound in Ho. rewrite Q2R_minus, !F2Q_correct in Ho.
    split; [now apply IHe1|split; [now apply IHe2|exact Ho]].
  - destruct (and3 _ _ _ Hb) as (Ha & Hb2 & Ho). apply exq_sound in Ho. rewrite Q2R_mult, !F2Q_correct in Ho.
    split; [now apply IHe1|split; [now apply IHe2|exact Ho]].
  - destruct e2 as [n|b|? ?|? ?|? ?|? ?|? ? ?|?|? ?|? ?|?|?|?|? ? ?]; try discriminate.
    destruct (and4 _ _ _ _ Hb) as (Ha & Hf & Hn & Ho).
    apply negb_true_iff in Hn. assert (Nz := Qeq_bool_R_false _ _ Hn). rewrite Q2R_0, <- litR_Q in Nz.
    assert (Qn : ~ (litQ b == 0)%Q) by (intros Z; apply Qeq_bool_iff in Z; congruence).
    apply exq_sound in Ho. unfold Qdiv in Ho. rewrite Q2R_mult, Q2R_inv, F2Q_correct, <- litR_Q in Ho by exact Qn.
    split; [now apply IHe1|split; [exact Hf|split; [exact Nz|exact Ho]]].
  - destruct (and4 _ _ _ _ Hb) as (Ha & Hb2 & Hc & Ho). apply exq_sound in Ho. rewrite Q2R_plus, Q2R_mult, !F2Q_correct in Ho.
    split; [now apply IHe1|split; [now apply IHe2|split; [now apply IHe3|exact Ho]]].
  - now apply IHe.
Qed.

(* ---- `safeb` in ONE pass (value and verdict together); what is executed on concrete inputs ---- *)
Fixpoint safe1 (env : list F) (e : expr) : F * bool :=
  match e with
  | Var n => (nth n env fnan, is_finite (nth n env fnan))
  | Lit b => (of_bits b, is_finite (of_bits b))
  | Add a b => let (va, oa) := safe1 env a in let (vb, ob) := safe1 env b in
               (fadd va vb, oa && ob && ok2Q (F2Q va + F2Q vb))
  | Sub a b => let (va, oa) := safe1 env a in let (vb, ob) := safe1 env b in
               (fsub va vb, oa && ob && ok2Q (F2Q va - F2Q vb))
  | Mul a b => let (va, oa) := safe1 env a in let (vb, ob) := safe1 env b in
               (fmul va vb, oa && ob && ok2Q (F2Q va * F2Q vb))
  | Fma a b c => let (va, oa) := safe1 env a in let (vb, ob) := safe1 env b in let (vc, oc) := safe1 env c in
                 (ffma va vb vc, oa && ob && oc && ok2Q (F2Q va * F2Q vb + F2Q vc))
  | Neg a => let (va, oa) := safe1 env a in (fneg va, oa)
  | Div a (Lit b) => let (va, oa) := safe1 env a in
                     (fdiv va (of_bits b), oa && is_finite (of_bits b) && negb (Qeq_bool (litQ b) 0) && ok2Q (F2Q va / litQ b))
  | _ => (fev env e, false)
  end.

Lemma safe1_spec env e : safe1 env e = (fev env e, safeb env e).
Proof.
  induction e; cbn [safe1 safeb]; try reflexivity;
    try (rewrite IHe1, IHe2; reflexivity); try (rewrite IHe1, IHe2, IHe3; reflexivity); try (rewrite IHe; reflexivity).
  (* Div *)
  destruct e2; try reflexivity. rewrite IHe1. reflexivity.
Qed.

Corollary safe1_sound env e : snd (safe1 env e) = true -> safe env e.
Proof. rewrite safe1_spec. cbn [snd]. apply safeb_sound. Qed.
