(* The real-number instance of Ops: the exact mathematical meaning of a kernel.
   Literals mean exactly the dyadic rational their bit pattern denotes. *)
From Coq Require Import ZArith QArith Reals Qreals Lra List Bool.
From Flocq Require Import Core.Core IEEE754.BinarySingleNaN.
Require Import PP.FloatModel PP.Expr.
Import ListNotations.
Local Open Scope R_scope.

Definition litR (b : Z) : R := B2R (of_bits b).

Definition ROps : Ops R := {|
  o_lit := litR;
  o_add := Rplus; o_sub := Rminus; o_mul := Rmult; o_div := Rdiv;
  o_fma := fun a b c => a * b + c;
  o_neg := Ropp; o_max := Rmax; o_min := Rmin; o_abs := Rabs;
  o_ln := ln; o_exp := exp;
  o_lt := fun a b => if Rlt_dec a b then true else false;
  o_le := fun a b => if Rle_dec a b then true else false;
  o_eq := fun a b => if Req_EM_T a b then true else false;
  o_absdiffeq := fun a b e => if Rle_dec (Rabs (a - b)) e then true else false;
  o_releq := fun a b e r => false;
  o_default := 0
|}.

(* the rational value of a literal, computable *)
Definition litQ (b : Z) : Q :=
  match of_bits b with
  | B754_finite s m e _ =>
      let mz := if s then Zneg m else Zpos m in
      match e with
      | Z0 => mz # 1
      | Zpos p => (mz * Z.pow_pos 2 p) # 1
      | Zneg p => mz # (Pos.pow 2 p)
      end
  | _ => 0
  end.

Lemma litR_Q b : litR b = Q2R (litQ b).
Proof.
  unfold litR, litQ. destruct (of_bits b) as [s|s| |s m e B]; cbn [B2R];
    try (unfold Q2R; cbn [Qnum Qden]; rewrite Rinv_1; lra).
  unfold F2R, Q2R. cbn [Fnum Fexp Qnum Qden].
  assert (Hm : IZR (cond_Zopp s (Zpos m)) = IZR (if s then Zneg m else Zpos m)) by (destruct s; reflexivity).
  rewrite Hm. clear Hm. set (mz := if s then Zneg m else Zpos m).
  destruct e as [|p|p]; cbn [bpow Qnum Qden].
  - rewrite Rinv_1. lra.
  - rewrite mult_IZR, Rinv_1. cbn [Z.pow_pos radix_val radix2]. lra.
  - cbn [radix_val radix2]. rewrite Pos2Z.inj_pow. reflexivity.
Qed.

(* tactic: replace every literal by its rational value, then expose IZR numerals *)
Ltac norm_lits :=
  repeat match goal with
  | |- context [litR ?b] =>
      let q := eval vm_compute in (Qred (litQ b)) in
      let H := fresh "Hlit" in
      assert (H : litR b = Q2R q) by (rewrite litR_Q; apply Qeq_eqR; vm_compute; reflexivity);
      rewrite H; clear H
  end;
  unfold Q2R; cbn [Qnum Qden]; rewrite ?Rinv_1, ?Rmult_1_r.

Ltac reval := cbn [eval evals beval map nth ROps o_lit o_add o_sub o_mul o_div o_fma o_neg o_max o_min o_abs o_ln o_exp o_lt o_le o_eq o_default].
