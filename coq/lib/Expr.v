(* Deep embedding of the arithmetic kernels that tools/rs2coq.py regenerates from the Rust
   sources, and its generic semantics in any carrier that supplies the operations. *)
From Coq Require Import ZArith List Bool.
Import ListNotations.

Inductive expr : Type :=
 | Var (n : nat)                      (* n-th input number *)
 | Lit (bits : Z)                     (* f64 literal, by IEEE-754 bit pattern *)
 | Add (a b : expr) | Sub (a b : expr) | Mul (a b : expr) | Div (a b : expr)
 | Fma (a b c : expr)                 (* a.mul_add(b, c) = a*b + c with one rounding *)
 | Neg (a : expr)
 | Max (a b : expr)                   (* f64::max *)
 | Min (a b : expr)                   (* f64::min *)
 | Abs (a : expr)                     (* f64::abs *)
 | Ln (a : expr) | Exp (a : expr)     (* platform libm: oracle functions of the carrier *)
 | If (c : bexpr) (t e : expr)
with bexpr : Type :=
 | Lt (a b : expr) | Le (a b : expr) | Eqf (a b : expr)   (* <, <=, == on f64 *)
 | BAnd (c d : bexpr) | BOr (c d : bexpr) | BNot (c : bexpr) | BTrue | BFalse
 | BAbsDiffEq (a b eps : expr)        (* approx::AbsDiffEq for f64 *)
 | BRelEq (a b eps rel : expr).       (* approx::RelativeEq for f64 *)

Record Ops (T : Type) : Type := {
  o_lit : Z -> T;
  o_add : T -> T -> T; o_sub : T -> T -> T; o_mul : T -> T -> T; o_div : T -> T -> T;
  o_fma : T -> T -> T -> T; o_neg : T -> T; o_max : T -> T -> T; o_min : T -> T -> T; o_abs : T -> T;
  o_ln : T -> T; o_exp : T -> T;
  o_lt : T -> T -> bool; o_le : T -> T -> bool; o_eq : T -> T -> bool;
  o_absdiffeq : T -> T -> T -> bool;
  o_releq : T -> T -> T -> T -> bool;
  o_default : T
}.
Arguments o_lit {T}. Arguments o_add {T}. Arguments o_sub {T}. Arguments o_mul {T}.
Arguments o_div {T}. Arguments o_fma {T}. Arguments o_neg {T}. Arguments o_max {T}. Arguments o_min {T}. Arguments o_abs {T}.
Arguments o_ln {T}. Arguments o_exp {T}. Arguments o_lt {T}. Arguments o_le {T}. Arguments o_eq {T}.
Arguments o_absdiffeq {T}. Arguments o_releq {T}. Arguments o_default {T}.

Section Eval.
Context {T : Type} (O : Ops T).
Fixpoint eval (env : list T) (e : expr) {struct e} : T :=
  match e with
  | Var n => nth n env (o_default O)
  | Lit b => o_lit O b
  | Add a b => o_add O (eval env a) (eval env b)
  | Sub a b => o_sub O (eval env a) (eval env b)
  | Mul a b => o_mul O (eval env a) (eval env b)
  | Div a b => o_div O (eval env a) (eval env b)
  | Fma a b c => o_fma O (eval env a) (eval env b) (eval env c)
  | Neg a => o_neg O (eval env a)
  | Max a b => o_max O (eval env a) (eval env b)
  | Min a b => o_min O (eval env a) (eval env b)
  | Abs a => o_abs O (eval env a)
  | Ln a => o_ln O (eval env a)
  | Exp a => o_exp O (eval env a)
  | If c t e => if beval env c then eval env t else eval env e
  end
with beval (env : list T) (c : bexpr) {struct c} : bool :=
  match c with
  | Lt a b => o_lt O (eval env a) (eval env b)
  | Le a b => o_le O (eval env a) (eval env b)
  | Eqf a b => o_eq O (eval env a) (eval env b)
  | BAnd c d => andb (beval env c) (beval env d)
  | BOr c d => orb (beval env c) (beval env d)
  | BNot c => negb (beval env c)
  | BTrue => true
  | BFalse => false
  | BAbsDiffEq a b eps => o_absdiffeq O (eval env a) (eval env b) (eval env eps)
  | BRelEq a b eps rel => o_releq O (eval env a) (eval env b) (eval env eps) (eval env rel)
  end.
Definition evals (env : list T) (es : list expr) : list T := map (eval env) es.
End Eval.

(* syntactic measures used by the error analysis *)
Fixpoint uses_libm (e : expr) : bool :=
  match e with
  | Var _ | Lit _ => false
  | Add a b | Sub a b | Mul a b | Div a b | Max a b | Min a b => uses_libm a || uses_libm b
  | Fma a b c => uses_libm a || uses_libm b || uses_libm c
  | Neg a | Abs a => uses_libm a
  | Ln _ | Exp _ => true
  | If _ t e => true
  end.
