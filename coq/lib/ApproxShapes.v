(* C17: every approx impl is the conjunction, in order, of the scalar relation on corresponding numbers. *)
From Coq Require Import ZArith List Bool Arith.
Require Import PP.FloatModel PP.Expr PP.FloatOps.
Import ListNotations.

Inductive rel_kind := RAbs | RRel.

(* flatten a conjunction of scalar relations on input variables into the list of compared positions;
   None if the expression has any other shape or uses other tolerances than inputs eps / rel *)
Fixpoint conj_pairs (k : rel_kind) (eps rel : nat) (b : bexpr) : option (list (nat * nat)) :=
  match b with
  | BAnd c d => match conj_pairs k eps rel c, conj_pairs k eps rel d with
                | Some l1, Some l2 => Some (l1 ++ l2) | _, _ => None end
  | BTrue => Some []
  | BAbsDiffEq (Var i) (Var j) (Var e) =>
      match k with RAbs => if Nat.eqb e eps then Some [(i, j)] else None | RRel => None end
  | BRelEq (Var i) (Var j) (Var e) (Var r) =>
      match k with RRel => if Nat.eqb e eps && Nat.eqb r rel then Some [(i, j)] else None | RAbs => None end
  | _ => None
  end.

Definition scalar_rel (k : rel_kind) (a b eps rel : F) : bool :=
  match k with RAbs => f_absdiffeq a b eps | RRel => f_releq a b eps rel end.

Theorem conj_pairs_sem k eps rel b l env : conj_pairs k eps rel b = Some l ->
  beval FOps0 env b =
  forallb (fun p => scalar_rel k (nth (fst p) env fnan) (nth (snd p) env fnan) (nth eps env fnan) (nth rel env fnan)) l.
Proof.
  revert l. induction b; intros l H; cbn [conj_pairs] in H; try discriminate.
  - destruct (conj_pairs k eps rel b1) as [l1|]; [|discriminate]. destruct (conj_pairs k eps rel b2) as [l2|]; [|discriminate].
    inversion H; subst. cbn [beval]. rewrite (IHb1 l1 eq_refl), (IHb2 l2 eq_refl), forallb_app. reflexivity.
  - inversion H; subst. reflexivity.
  - destruct a; try discriminate. destruct b; try discriminate. destruct eps0; try discriminate. destruct k; try discriminate.
    destruct (Nat.eqb n1 eps) eqn:E; [|discriminate]. apply Nat.eqb_eq in E. subst. inversion H; subst.
    cbn [beval forallb fst snd scalar_rel eval FOps0 FOps FOpsG o_absdiffeq o_default]. now rewrite andb_true_r.
  - destruct a; try discriminate. destruct b; try discriminate. destruct eps0; try discriminate. destruct rel0; try discriminate.
    destruct k; try discriminate.
    destruct (Nat.eqb n1 eps && Nat.eqb n2 rel) eqn:E; [|discriminate]. apply andb_true_iff in E. destruct E as [E1 E2].
    apply Nat.eqb_eq in E1, E2. subst. inversion H; subst.
    cbn [beval forallb fst snd scalar_rel eval FOps0 FOps FOpsG o_releq o_default]. now rewrite andb_true_r.
Qed.

(* a value with n numbers occupies inputs 0..n-1, the other value n..2n-1, then eps (and max_relative) *)
Definition expected_pairs (n : nat) : list (nat * nat) := map (fun i => (i, n + i)) (seq 0 n).
Definition pairs_eqb (a b : list (nat * nat)) : bool :=
  Nat.eqb (length a) (length b) && forallb (fun p => Nat.eqb (fst (fst p)) (fst (snd p)) && Nat.eqb (snd (fst p)) (snd (snd p))) (combine a b).
Lemma pairs_eqb_eq a b : pairs_eqb a b = true -> a = b.
Proof.
  unfold pairs_eqb. revert b. induction a as [|[x y] r IH]; intros [|[x' y'] s] H; cbn in H; try discriminate; [reflexivity|].
  apply andb_true_iff in H. destruct H as [Hl H]. apply andb_true_iff in H. destruct H as [H1 H2].
  apply andb_true_iff in H1. destruct H1 as [Hx Hy]. apply Nat.eqb_eq in Hx, Hy. subst. f_equal.
  apply IH. cbn. now rewrite Hl, H2.
Qed.
Lemma forallb_map' {A B : Type} (f : A -> B) (p : B -> bool) l : forallb p (map f l) = forallb (fun x => p (f x)) l.
Proof. induction l as [|a r IH]; cbn; [reflexivity|]. now rewrite IH. Qed.
Definition approx_ok (k : rel_kind) (n : nat) (b : bexpr) : bool :=
  match conj_pairs k (2 * n) (2 * n + 1) b with Some l => pairs_eqb l (expected_pairs n) | None => false end.
Theorem approx_ok_sem k n b env : approx_ok k n b = true ->
  beval FOps0 env b =
  forallb (fun i => scalar_rel k (nth i env fnan) (nth (n + i) env fnan) (nth (2 * n) env fnan) (nth (2 * n + 1) env fnan)) (seq 0 n).
Proof.
  unfold approx_ok. destruct (conj_pairs k (2 * n) (2 * n + 1) b) as [l|] eqn:E; [|discriminate].
  intros H. apply pairs_eqb_eq in H. subst l. rewrite (conj_pairs_sem _ _ _ _ _ env E).
  unfold expected_pairs. rewrite forallb_map'. reflexivity.
Qed.
Definition approx_table_ok (t : list (rel_kind * nat * bexpr)) : bool :=
  forallb (fun e => approx_ok (fst (fst e)) (snd (fst e)) (snd e)) t.
Theorem approx_table_sem t : approx_table_ok t = true ->
  Forall (fun e => forall env, beval FOps0 env (snd e) =
     forallb (fun i => scalar_rel (fst (fst e)) (nth i env fnan) (nth (snd (fst e) + i) env fnan)
                                  (nth (2 * snd (fst e)) env fnan) (nth (2 * snd (fst e) + 1) env fnan)) (seq 0 (snd (fst e)))) t.
Proof.
  unfold approx_table_ok. rewrite forallb_forall. intros H. apply Forall_forall. intros e Hin env.
  apply approx_ok_sem. now apply H.
Qed.
