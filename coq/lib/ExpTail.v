(* The exponential tail R5(x) = sum_{m>=0} x^m/(m+5)! = (e^x - sum_{j<5} x^j/j!)/x^5 used by the
   quartic log-integral form, and the exact antiderivative in that representation. *)
From Coq Require Import Reals Lra Lia List.
From Coquelicot Require Import Coquelicot.
Require Import PP.PolyFacts.
Import ListNotations.
Local Open Scope R_scope.

Definition T4 (x : R) : R := 1 + x + x^2/2 + x^3/6 + x^4/24.
(* closed form of the quartic representation (k, a, b, c, d, u) at v > 0, with x = -ln v *)
Definition quartic_closed (k a b c d u : R) (v : R) : R :=
  k + v * (a * (- ln v) + b * (- ln v)^2 + c * (- ln v)^3 + d * (- ln v)^4)
    + u * v * (exp (- ln v) - T4 (- ln v)).

Lemma quartic_closed_deriv_gen k a b c d u t : 0 < t ->
  is_derive (quartic_closed k a b c d u) t
    (let x := - ln t in
     (a * x + b * x^2 + c * x^3 + d * x^4) - (a + 2 * b * x + 3 * c * x^2 + 4 * d * x^3) - u * x^4 / 24).
Proof.
  intros Ht. unfold quartic_closed, T4. auto_derive.
  - repeat split; auto.
  - cbv zeta. field. lra.
Qed.

Theorem quartic_closed_deriv c0 c1 c2 c3 c4 k t : 0 < t ->
  is_derive (quartic_closed k (- c0) ((- c0 + c1) / 2) (((- c0 + c1) / 2 - c2) / 3) ((((- c0 + c1) / 2 - c2) / 3 + c3) / 4)
                            (((((- c0 + c1) / 2 - c2) / 3 + c3) / 4 - c4) * 24)) t
            (polyval [c0; c1; c2; c3; c4] (ln t)).
Proof.
  intros Ht. evar_last. apply quartic_closed_deriv_gen; exact Ht.
  cbv zeta. cbn [polyval]. field.
Qed.
